package keys

import (
	"bytes"
	"context"
	"encoding/binary"
	"encoding/json"
	"flag"
	"fmt"
	"io"
	"net"
	"net/http/httptest"
	"net/url"
	"sort"
	"strconv"
	"strings"
	"time"

	"github.com/emicklei/go-restful"
	corev1 "k8s.io/api/core/v1"
	metav1 "k8s.io/apimachinery/pkg/apis/meta/v1"
	klog "k8s.io/klog"
	"tkestack.io/galaxy/pkg/api/galaxy/constant"
	"tkestack.io/galaxy/pkg/ipam/api"
	ipamcontext "tkestack.io/galaxy/pkg/ipam/context"
	"tkestack.io/galaxy/pkg/ipam/floatingip"
	"tkestack.io/galaxy/pkg/ipam/schedulerplugin"
	"tkestack.io/galaxy/pkg/utils/page"

	"gxverif/hx"
)

// QuietLogs silences the repo's klog output (the harness prints exactly one JSON line on stdout).
func QuietLogs() {
	fs := flag.NewFlagSet("klog", flag.ContinueOnError)
	klog.InitFlags(fs)
	_ = fs.Set("logtostderr", "false")
	_ = fs.Set("alsologtostderr", "false")
	_ = fs.Set("stderrthreshold", "FATAL")
	klog.SetOutput(io.Discard)
}

// RecSpec: one allocated record of a world.  Shape selects which key of the pod's KeyObj owns the ip:
// "pod" (KeyInDB), "appprefix" / "poolprefix" (PoolPrefix()), "poolappprefix" (PoolAppPrefix()).
type RecSpec struct {
	Pod    PodIn  `json:"pod"`
	Shape  string `json:"shape"`
	IPIdx  int    `json:"ip"`     // index into the pool's ip list
	Policy uint16 `json:"policy"` // stored release policy (0,1,2)
	Live   bool   `json:"live"`   // the pod exists (api + lister) while the list is taken; deleted before release
}

// WorldSpec: one scenario for the HTTP monitor.
type WorldSpec struct {
	NIPs    int       `json:"nips"`
	Recs    []RecSpec `json:"recs"`
	Sizes   []string  `json:"sizes"`             // page sizes to walk with ("" = parameter omitted)
	Pages   int       `json:"pages"`             // walk pages 0..min(totalPages, Pages) for every size
	Batch   int       `json:"batch,omitempty"`   // ≥ 2: also post groups of this many listed entries in ONE request
	Regions int       `json:"regions,omitempty"` // 3: spread the pool over 10/8, 100.64/10 and 192.168/16
}

type Viol struct {
	Sig  string
	What string
}

// WorldResult: what one scenario produced.
type WorldResult struct {
	Viol   []Viol
	Lines  []string // driver input
	Want   []string // expected driver output (from the real code)
	Posts  int
	Listed int
	Err    string // harness-level failure (world could not be built)
	Checks []PostCheck
}

// PostCheck: a correspondence point whose implementation side can only be compared after the model answered
// (the model's output is an input of the comparison, e.g. a query key whose result set the real handler returned).
type PostCheck struct {
	Idx int
	Fn  func(modelOut string) (impl string, ok bool)
}

type truth struct{ pool, ns, app, pod string }

type rec struct {
	spec  RecSpec
	ip    string
	ipnum uint32
	key   string
	tr    truth
	// the property's quantifier covers the record: DNS names (always), well-formed kinds; pool names are free text
	kindsWF bool
	live    bool
}

func (r *rec) feature() string {
	if strings.Contains(r.spec.Pod.Pool, "_") {
		return "pool-name-underscore"
	}
	return ""
}

func constantPolicy(p uint16) constant.ReleasePolicy { return constant.ReleasePolicy(p % 3) }

func ipNum(s string) uint32 {
	ip := net.ParseIP(s).To4()
	if ip == nil {
		return 0
	}
	return binary.BigEndian.Uint32(ip)
}

type world struct {
	ctx    *ipamcontext.IPAMContext
	stop   chan struct{}
	plugin *schedulerplugin.FloatingIPPlugin
	ipam   floatingip.IPAM
	ctl    *api.Controller
	ips    []string
	subnet *net.IPNet
}

// regionBases: with Regions = 3 the pool is spread over three address regions that pairwise lie more than 2^31 apart
// going round (10/8 < 100.64/10 < 192.168/16 < 10/8 + 2^32), so that any ordering of ips that is not a total order on
// the whole IPv4 space shows.
var regionBases = []string{"10.0.70.2", "100.64.0.2", "192.168.0.2"}
var regionSubnets = [][2]string{{"10.0.68.0/22", "10.0.68.1"}, {"100.64.0.0/22", "100.64.0.1"}, {"192.168.0.0/22", "192.168.0.1"}}

func newWorld(nips, regions int) (*world, error) {
	if nips < 1 || nips > 700 {
		return nil, fmt.Errorf("nips out of range")
	}
	if regions != 3 || nips < 3 {
		regions = 1
	}
	ipOf := func(i int) string {
		base := binary.BigEndian.Uint32(net.ParseIP(regionBases[i%regions]).To4())
		b := make([]byte, 4)
		binary.BigEndian.PutUint32(b, base+uint32(i/regions))
		return net.IP(b).String()
	}
	var pools []string
	for r := 0; r < regions; r++ {
		cnt := (nips - r + regions - 1) / regions // indices r, r+regions, …
		rng := ipOf(r)
		if cnt > 1 {
			rng = ipOf(r) + "~" + ipOf(r+(cnt-1)*regions)
		}
		pools = append(pools, fmt.Sprintf(`{"nodeSubnets":["10.0.1.0/24"],"ips":[%q],"subnet":%q,"gateway":%q}`, rng, regionSubnets[r][0], regionSubnets[r][1]))
	}
	conf := `{"floatingips":[` + strings.Join(pools, ",") + `]}`
	var c schedulerplugin.Conf
	if err := json.Unmarshal([]byte(conf), &c); err != nil {
		return nil, err
	}
	w := &world{}
	w.ctx, w.stop = ipamcontext.CreateTestIPAMContext(nil, nil, nil)
	p, err := schedulerplugin.NewFloatingIPPlugin(c, w.ctx)
	if err != nil {
		close(w.stop)
		return nil, err
	}
	if err := p.Init(); err != nil {
		close(w.stop)
		return nil, err
	}
	w.plugin = p
	w.ipam = p.GetIpam()
	w.ctl = api.NewController(w.ipam, w.ctx.PodLister, p.Release)
	for i := 0; i < nips; i++ {
		w.ips = append(w.ips, ipOf(i))
	}
	_, w.subnet, _ = net.ParseCIDR("10.0.1.0/24")
	return w, nil
}

func (w *world) close() { close(w.stop) }

// dump: ip -> key of every configured ip ("" = unallocated), straight from the ipam.
func (w *world) dump() map[string]string {
	out := map[string]string{}
	fips, err := w.ipam.ByPrefix("")
	if err != nil {
		return out
	}
	for _, f := range fips {
		out[f.IP.String()] = f.Key
	}
	return out
}

// ListResp mirrors api.ListIPResp with the raw entries kept for posting back verbatim.
type ListResp struct {
	page.Page
	Content []json.RawMessage `json:"content,omitempty"`
}

type entry struct {
	raw json.RawMessage
	f   api.FloatingIP
}

func (w *world) list(q url.Values) (code int, pg page.Page, es []entry, err error) {
	req := httptest.NewRequest("GET", "/v1/ip?"+q.Encode(), nil)
	rec := httptest.NewRecorder()
	resp := restful.NewResponse(rec)
	resp.SetRequestAccepts("application/json")
	if o := hx.Guard(20*time.Second, func() { w.ctl.ListIPs(restful.NewRequest(req), resp) }); o != "ok" {
		return 0, pg, nil, fmt.Errorf("ListIPs: %s", o)
	}
	code = rec.Code
	if code != 200 {
		return code, pg, nil, nil
	}
	var lr struct {
		page.Page
		Content []json.RawMessage `json:"content,omitempty"`
	}
	if err := json.Unmarshal(rec.Body.Bytes(), &lr); err != nil {
		return code, pg, nil, err
	}
	for _, raw := range lr.Content {
		var f api.FloatingIP
		if err := json.Unmarshal(raw, &f); err != nil {
			return code, pg, nil, err
		}
		es = append(es, entry{raw, f})
	}
	return code, lr.Page, es, nil
}

// postMany sends {"ips":[entries...]} (ONE request) to the real ReleaseIPs handler; returns the http code and the
// response's unreleased list.
func (w *world) postMany(raws []json.RawMessage) (code int, unreleased []string, err error) {
	body := []byte(`{"ips":[`)
	for i, raw := range raws {
		if i > 0 {
			body = append(body, ',')
		}
		body = append(body, raw...)
	}
	body = append(body, []byte(`]}`)...)
	req := httptest.NewRequest("POST", "/v1/ip", bytes.NewReader(body))
	req.Header.Set("Content-Type", "application/json")
	rec := httptest.NewRecorder()
	resp := restful.NewResponse(rec)
	resp.SetRequestAccepts("application/json")
	if o := hx.Guard(20*time.Second, func() { w.ctl.ReleaseIPs(restful.NewRequest(req), resp) }); o != "ok" {
		return 0, nil, fmt.Errorf("ReleaseIPs: %s", o)
	}
	var rr api.ReleaseIPResp
	_ = json.Unmarshal(rec.Body.Bytes(), &rr)
	return rec.Code, rr.Unreleased, nil
}

// post: a request carrying a single entry.
func (w *world) post(raw json.RawMessage) (code int, unreleased bool, err error) {
	code, un, err := w.postMany([]json.RawMessage{raw})
	return code, len(un) > 0, err
}

// dumpLine: the allocated records "dump:<ipnum>=<key>,…" sorted by ip, as the driver's `dump` prints them.
func (w *world) dumpLine() string {
	type kv struct {
		n uint32
		k string
	}
	var kvs []kv
	for ip, k := range w.dump() {
		if k != "" {
			kvs = append(kvs, kv{ipNum(ip), k})
		}
	}
	sort.Slice(kvs, func(i, j int) bool { return kvs[i].n < kvs[j].n })
	var parts []string
	for _, x := range kvs {
		parts = append(parts, fmt.Sprintf("%d%s", x.n, Enc(x.k)))
	}
	return "dump:" + strings.Join(parts, ",")
}

func (w *world) waitLister(ns, name string, present bool) bool {
	for i := 0; i < 3000; i++ {
		_, err := w.ctx.PodLister.Pods(ns).Get(name)
		if (err == nil) == present {
			return true
		}
		time.Sleep(time.Millisecond)
	}
	return false
}

func mutate(raw json.RawMessage, f func(m map[string]interface{})) json.RawMessage {
	var m map[string]interface{}
	_ = json.Unmarshal(raw, &m)
	f(m)
	b, _ := json.Marshal(m)
	return b
}

func str(m map[string]interface{}, k string) string {
	s, _ := m[k].(string)
	return s
}

// entryTokens: one posted entry as the driver reads it: ip =appType =ns =app =pod =pool inLister running
func entryTokens(raw json.RawMessage, inLister bool) string {
	var m map[string]interface{}
	_ = json.Unmarshal(raw, &m)
	return fmt.Sprintf("%d %s %s %s %s %s %v %v", ipNum(str(m, "ip")), Enc(str(m, "appType")), Enc(str(m, "namespace")),
		Enc(str(m, "appName")), Enc(str(m, "podName")), Enc(str(m, "poolName")), inLister, inLister)
}

func releaseLine(raw json.RawMessage, inLister bool) string {
	return "release " + entryTokens(raw, inLister)
}

func diffMaps(a, b map[string]string) []string {
	var d []string
	for k, v := range a {
		if b[k] != v {
			d = append(d, k)
		}
	}
	for k := range b {
		if _, ok := a[k]; !ok {
			d = append(d, k)
		}
	}
	sort.Strings(d)
	return d
}

// RunWorld plays one scenario against the real handlers. rep gets histogram hits only.
func RunWorld(spec WorldSpec, rep *hx.Report) (res WorldResult) {
	w, err := newWorld(spec.NIPs, spec.Regions)
	if err != nil {
		res.Err = err.Error()
		return
	}
	defer w.close()
	emit := func(line, want string) {
		res.Lines = append(res.Lines, line)
		res.Want = append(res.Want, want)
	}
	viol := func(sig, what string) { res.Viol = append(res.Viol, Viol{sig, what}) }
	emit("reset", "ok")

	// ---- allocate
	var recs []*rec
	byIP := map[string]*rec{}
	livePods := map[string]bool{}
	for _, rs := range spec.Recs {
		if rs.IPIdx < 0 || rs.IPIdx >= len(w.ips) || byIP[w.ips[rs.IPIdx]] != nil {
			continue
		}
		_, ko := RealFormat(rs.Pod)
		if ko == nil {
			rep.Hit("world.formatkey-error")
			continue
		}
		r := &rec{spec: rs, ip: w.ips[rs.IPIdx], kindsWF: rs.Pod.KindsWF()}
		r.ipnum = ipNum(r.ip)
		switch rs.Shape {
		case "pod":
			r.key = ko.KeyInDB
			r.tr = truth{ko.PoolName, ko.Namespace, ko.AppName, ko.PodName}
		case "appprefix":
			if ko.PoolName != "" {
				continue
			}
			r.key = ko.PoolPrefix()
			r.tr = truth{"", ko.Namespace, ko.AppName, ""}
		case "poolprefix":
			if ko.PoolName == "" {
				continue
			}
			r.key = ko.PoolPrefix()
			r.tr = truth{ko.PoolName, "", "", ""}
		case "poolappprefix":
			if ko.PoolName == "" {
				continue
			}
			r.key = ko.PoolAppPrefix()
			r.tr = truth{ko.PoolName, ko.Namespace, ko.AppName, ""}
		default:
			continue
		}
		var aerr error
		if o := hx.Guard(10*time.Second, func() {
			aerr = w.ipam.AllocateSpecificIP(r.key, net.ParseIP(r.ip), floatingip.Attr{Policy: constantPolicy(rs.Policy)})
		}); o != "ok" || aerr != nil {
			res.Err = fmt.Sprintf("allocate %s %q: %s %v", r.ip, r.key, o, aerr)
			return
		}
		emit(fmt.Sprintf("alloc %d %s", r.ipnum, Enc(r.key)), "ok")
		rep.Hit("world.rec." + rs.Shape)
		if k, has := rs.Pod.Kind(); has {
			rep.Hit("world.kind." + KindClass(k))
		} else {
			rep.Hit("world.kind.none")
		}
		if r.feature() != "" {
			rep.Hit("world.rec." + r.feature())
		}
		if rs.Live && rs.Shape == "pod" && !livePods[rs.Pod.NS+"/"+rs.Pod.Name] {
			pod := rs.Pod.Pod()
			pod.Status.Phase = corev1.PodRunning
			if _, err := w.ctx.Client.CoreV1().Pods(rs.Pod.NS).Create(context.TODO(), pod, metav1.CreateOptions{}); err == nil &&
				w.waitLister(rs.Pod.NS, rs.Pod.Name, true) {
				r.live = true
				livePods[rs.Pod.NS+"/"+rs.Pod.Name] = true
				rep.Hit("world.rec.live")
			}
		}
		recs = append(recs, r)
		byIP[r.ip] = r
	}

	// ---- the full list, sorted by ip: every configured ip exactly once
	full := func() ([]entry, bool) {
		code, pg, es, err := w.list(url.Values{"size": {"9999"}})
		if err != nil || code != 200 {
			res.Err = fmt.Sprintf("list all: code %d err %v", code, err)
			return nil, false
		}
		if pg.TotalElements != len(w.ips) || len(es) != len(w.ips) {
			viol("list-count", fmt.Sprintf("full list has %d entries / totalElements %d for %d configured ips", len(es), pg.TotalElements, len(w.ips)))
		}
		return es, true
	}
	F, ok := full()
	if !ok {
		return
	}
	res.Listed += len(F)
	// "sorted by ip": one total order on ips — the ip strings (what the code does) or the addresses as numbers
	seen := map[string]int{}
	byString, byNumber := true, true
	firstBad := ""
	for i, e := range F {
		seen[e.f.IP]++
		if i > 0 {
			s, n := F[i-1].f.IP < e.f.IP, ipNum(F[i-1].f.IP) < ipNum(e.f.IP)
			byString, byNumber = byString && s, byNumber && n
			if firstBad == "" && (!s || !n) {
				firstBad = fmt.Sprintf("at %d: %s, %s", i, F[i-1].f.IP, e.f.IP)
			}
		}
	}
	if !byString && !byNumber {
		viol("list-not-sorted", "full list is strictly ascending neither by ip string nor by ip number, first inversion "+firstBad)
	}
	if byNumber && !byString {
		rep.Hit("world.sorted-numerically")
	}
	for _, ip := range w.ips {
		if seen[ip] != 1 {
			sig := "list-ip-count"
			viol(sig, fmt.Sprintf("ip %s appears %d times in the full list", ip, seen[ip]))
		}
	}
	entryOf := map[string]entry{}
	for _, e := range F {
		entryOf[e.f.IP] = e
		r := byIP[e.f.IP]
		if r == nil {
			continue
		}
		// correspondence: api.convert
		emit("convert "+Enc(r.key), fmt.Sprintf("ns%s app%s pod%s pool%s appType%s", Enc(e.f.Namespace), Enc(e.f.AppName),
			Enc(e.f.PodName), Enc(e.f.PoolName), Enc(e.f.AppType)))
		// monitor: the entry names the owner the key was built from
		if r.kindsWF {
			got := truth{e.f.PoolName, e.f.Namespace, e.f.AppName, e.f.PodName}
			if got != r.tr || (r.tr.app != "" && e.f.AppType == "") {
				sig := r.feature()
				if sig == "" {
					sig = "list-decode"
				}
				viol(sig, fmt.Sprintf("record %s key %q is listed as pool=%q ns=%q app=%q pod=%q appType=%q, built from pool=%q ns=%q app=%q pod=%q",
					r.ip, r.key, e.f.PoolName, e.f.Namespace, e.f.AppName, e.f.PodName, e.f.AppType, r.tr.pool, r.tr.ns, r.tr.app, r.tr.pod))
			}
		}
	}

	// ---- paging: every size, pages 0..totalPages (one past the end), both directions
	for _, dir := range []string{"", "ip asc", "ip desc", "IP"} {
		for _, sz := range spec.Sizes {
			size := page.ParseSize(sz)
			total := (len(F) + size - 1) / size
			limit := total
			if spec.Pages > 0 && limit > spec.Pages {
				limit = spec.Pages
			}
			var walked []string
			for p := 0; p <= limit; p++ {
				q := url.Values{"page": {strconv.Itoa(p)}}
				if sz != "" {
					q.Set("size", sz)
				}
				if dir != "" {
					q.Set("sort", dir)
				}
				code, pg, es, err := w.list(q)
				if err != nil || code != 200 {
					res.Err = fmt.Sprintf("list page: code %d err %v", code, err)
					return
				}
				rep.Hit("world.page")
				_, _, want := page.Pagination(p, size, len(F))
				if pg != *want {
					viol("page-fields", fmt.Sprintf("page=%d size=%q len=%d: response page record %+v, Pagination gives %+v", p, sz, len(F), pg, *want))
				}
				if len(es) != pg.NumberOfElements {
					viol("page-fields", fmt.Sprintf("page=%d size=%q: %d entries, numberOfElements %d", p, sz, len(es), pg.NumberOfElements))
				}
				if p == total && len(es) != 0 {
					viol("page-past-end", fmt.Sprintf("page %d past the last page is not empty", p))
				}
				if pg.Last != (p >= total-1) || pg.First != (p == 0 || len(F) == 0) || pg.TotalPages != total {
					viol("page-flags", fmt.Sprintf("page=%d size=%q len=%d: last=%v first=%v totalPages=%d", p, sz, len(F), pg.Last, pg.First, pg.TotalPages))
				}
				for _, e := range es {
					walked = append(walked, e.f.IP)
				}
			}
			if limit == total {
				wantIPs := make([]string, len(F))
				for i, e := range F {
					if dir == "ip desc" {
						wantIPs[len(F)-1-i] = e.f.IP
					} else {
						wantIPs[i] = e.f.IP
					}
				}
				if strings.Join(walked, ",") != strings.Join(wantIPs, ",") {
					viol("pages-not-partition", fmt.Sprintf("sort=%q size=%q: walking %d pages gave %d ips, not the %d ips of the list each once in order",
						dir, sz, total, len(walked), len(F)))
				}
			}
		}
	}

	// ---- list by the entry's own fields finds the entry
	for i, r := range recs {
		if i%3 != 0 || !r.kindsWF {
			continue
		}
		e := entryOf[r.ip]
		q := url.Values{"size": {"9999"}}
		for k, v := range map[string]string{"namespace": e.f.Namespace, "appName": e.f.AppName, "podName": e.f.PodName,
			"poolName": e.f.PoolName, "appType": e.f.AppType} {
			if v != "" {
				q.Set(k, v)
			}
		}
		code, _, es, err := w.list(q)
		if err != nil || code != 200 {
			res.Err = fmt.Sprintf("list by fields: code %d err %v", code, err)
			return
		}
		found := false
		var got []string
		for _, x := range es {
			got = append(got, x.f.IP)
			if x.f.IP == r.ip {
				found = true
			}
		}
		sort.Strings(got)
		// correspondence: the result is exactly the set of ips whose key has the model's query key as prefix
		snap := w.dump()
		res.Lines = append(res.Lines, fmt.Sprintf("listkey %s %s %s %s %s", Enc(e.f.AppType), Enc(e.f.Namespace), Enc(e.f.AppName),
			Enc(e.f.PodName), Enc(e.f.PoolName)))
		res.Want = append(res.Want, "")
		res.Checks = append(res.Checks, PostCheck{Idx: len(res.Lines) - 1, Fn: func(modelOut string) (string, bool) {
			var want []string
			for ip, k := range snap {
				if (k != "" || modelOut == "=") && strings.HasPrefix(Enc(k), modelOut) {
					want = append(want, ip)
				}
			}
			sort.Strings(want)
			return "ips:" + strings.Join(got, ","), strings.Join(got, ",") == strings.Join(want, ",")
		}})
		rep.Hit("world.list-by-fields")
		if !found && !(e.f.PoolName == "" && e.f.AppName == "" && e.f.PodName == "") {
			sig := r.feature()
			if sig == "" {
				sig = "list-by-fields-misses"
			}
			viol(sig, fmt.Sprintf("GET /v1/ip with the fields of the entry of %s (key %q) does not return it", r.ip, r.key))
		}
	}

	// ---- release: variants first (must change nothing), then omitted app type (statefulset), then verbatim
	order := make([]*rec, len(recs))
	copy(order, recs)
	sort.Slice(order, func(i, j int) bool { return order[i].ipnum*2654435761 < order[j].ipnum*2654435761 }) // fixed shuffle
	doPost := func(r *rec, raw json.RawMessage, kind string, mustRelease, mustNotChange bool) bool {
		before := w.dump()
		var m map[string]interface{}
		_ = json.Unmarshal(raw, &m)
		ip := str(m, "ip")
		inLister := livePods[str(m, "namespace")+"/"+str(m, "podName")]
		code, unreleased, err := w.post(raw)
		if err != nil {
			res.Err = err.Error()
			return false
		}
		res.Posts++
		after := w.dump()
		changed := diffMaps(before, after)
		// outcome class, from the http code and the world's own state (never from message text)
		names := str(m, "podName") != "" || str(m, "appName") != "" || str(m, "poolName") != ""
		class := ""
		switch {
		case code == 200 && !unreleased && before[ip] == "":
			class = "free"
		case code == 200 && !unreleased:
			class = "released"
		case code == 202 && (!names || inLister):
			class = "notreleasable"
		case code == 202:
			class = "other"
		default:
			class = "http-" + strconv.Itoa(code)
		}
		rep.Hit("world.post." + kind + "." + class)
		emit(releaseLine(raw, inLister), class)
		feature := r.feature()
		for _, c := range changed {
			if c != ip {
				viol("collateral-change", fmt.Sprintf("%s post for %s changed the record of %s", kind, ip, c))
			}
		}
		if mustNotChange && len(changed) > 0 {
			viol("foreign-release:"+kind, fmt.Sprintf("entry of %s (key %q) altered in %s released %v: %s", r.ip, r.key, kind, changed, string(raw)))
		}
		if mustRelease && r.kindsWF {
			if class != "released" || after[ip] != "" {
				sig := feature
				if sig == "" {
					sig = "entry-not-released:" + kind
				}
				viol(sig, fmt.Sprintf("posting the listed entry of %s back (%s) did not release it: http %d, key before %q after %q, entry %s",
					r.ip, kind, code, before[ip], after[ip], string(raw)))
				return false
			}
		}
		return class == "released"
	}
	realloc := func(r *rec) bool {
		var aerr error
		if o := hx.Guard(10*time.Second, func() {
			aerr = w.ipam.AllocateSpecificIP(r.key, net.ParseIP(r.ip), floatingip.Attr{Policy: constantPolicy(r.spec.Policy)})
		}); o != "ok" || aerr != nil {
			res.Err = fmt.Sprintf("re-allocate %s: %s %v", r.ip, o, aerr)
			return false
		}
		emit(fmt.Sprintf("alloc %d %s", r.ipnum, Enc(r.key)), "ok")
		return true
	}
	// ---- requests carrying several entries: exactly the posted owners' ips are released, nothing else changes,
	// and the response's unreleased list agrees with the final dump
	if spec.Batch >= 2 {
		var cands, lives []*rec
		for _, r := range order {
			if _, ok := entryOf[r.ip]; !ok {
				continue
			}
			if r.live {
				lives = append(lives, r)
			} else if r.kindsWF && r.feature() == "" {
				cands = append(cands, r)
			}
		}
		type item struct {
			raw   json.RawMessage
			owner *rec // non-nil: the verbatim listed entry of this record (or it with the statefulset app type left out)
		}
		ver := func(r *rec) item { return item{entryOf[r.ip].raw, r} }
		alt := func(r *rec, f func(m map[string]interface{})) item { return item{mutate(entryOf[r.ip].raw, f), nil} }
		runBatch := func(name string, items []item) bool {
			before := w.dump()
			var raws []json.RawMessage
			var toks []string
			expect := map[string]*rec{}
			posted := map[string]bool{}
			onlyOwner := map[string]bool{}
			for _, it := range items {
				var m map[string]interface{}
				_ = json.Unmarshal(it.raw, &m)
				ip := str(m, "ip")
				raws = append(raws, it.raw)
				toks = append(toks, entryTokens(it.raw, livePods[str(m, "namespace")+"/"+str(m, "podName")]))
				if _, seen := posted[ip]; !seen {
					onlyOwner[ip] = true
				}
				posted[ip] = true
				if it.owner != nil {
					expect[ip] = it.owner
				} else {
					onlyOwner[ip] = false
				}
			}
			code, unrel, err := w.postMany(raws)
			if err != nil {
				res.Err = err.Error()
				return false
			}
			res.Posts++
			rep.Hit("world.batch." + name)
			after := w.dump()
			inUnrel := map[string]bool{}
			var nums []string
			for _, ip := range unrel {
				inUnrel[ip] = true
				nums = append(nums, strconv.FormatUint(uint64(ipNum(ip)), 10))
				if !posted[ip] {
					viol("batch-unreleased-inconsistent:"+name, fmt.Sprintf("unreleased lists %s which was not posted", ip))
				}
			}
			emit(fmt.Sprintf("request %d %s", len(items), strings.Join(toks, " ")), "unreleased:"+strings.Join(nums, ","))
			emit("dump", w.dumpLine())
			desc := fmt.Sprintf("one POST with %d entries (%s), http %d, unreleased %v", len(items), name, code, unrel)
			for ip, r := range expect {
				if before[ip] != "" && after[ip] != "" {
					viol("batch-entry-not-released:"+name, fmt.Sprintf("%s: the listed entry of %s (key %q) was in the request but the ip is still allocated", desc, ip, r.key))
				}
			}
			for _, ip := range diffMaps(before, after) {
				if expect[ip] != nil {
					continue
				}
				if posted[ip] {
					viol("batch-foreign-release:"+name, fmt.Sprintf("%s: %s changed (%q -> %q) though no entry of the request names its owner", desc, ip, before[ip], after[ip]))
				} else {
					viol("collateral-change", fmt.Sprintf("%s: record of %s, not named in the request, changed", desc, ip))
				}
			}
			for ip := range posted {
				if after[ip] != "" && !inUnrel[ip] {
					viol("batch-unreleased-inconsistent:"+name, fmt.Sprintf("%s: %s is still allocated (%q) but not reported unreleased", desc, ip, after[ip]))
				}
				if inUnrel[ip] && onlyOwner[ip] && after[ip] == "" {
					viol("batch-unreleased-inconsistent:"+name, fmt.Sprintf("%s: %s was released by its own entry but is reported unreleased", desc, ip))
				}
			}
			if (code == 202) != (len(unrel) > 0) || (code != 200 && code != 202) {
				viol("batch-unreleased-inconsistent:"+name, desc+": http code and unreleased list disagree")
			}
			for ip, r := range expect {
				if before[ip] != "" && after[ip] == "" {
					if !realloc(r) {
						return false
					}
				}
			}
			return res.Err == ""
		}
		// one-field variants that change the owner the entry names (a bare pool prefix entry names its pool only)
		nsx := func(r *rec) item {
			if r.tr.app == "" {
				return alt(r, func(m map[string]interface{}) { m["poolName"] = str(m, "poolName") + "x" })
			}
			return alt(r, func(m map[string]interface{}) { m["namespace"] = str(m, "namespace") + "x" })
		}
		appx := func(r *rec) item {
			if r.tr.app == "" {
				return alt(r, func(m map[string]interface{}) { m["poolName"] = str(m, "poolName") + "y" })
			}
			return alt(r, func(m map[string]interface{}) { m["appName"] = str(m, "appName") + "x" })
		}
		groups := 0
		for g := 0; g+1 < len(cands) && groups < 3; g += spec.Batch {
			end := g + spec.Batch
			if end > len(cands) {
				end = len(cands)
			}
			grp := cands[g:end]
			if len(grp) < 2 {
				break
			}
			groups++
			var all, rev []item
			for _, r := range grp {
				all = append(all, ver(r))
				rev = append([]item{ver(r)}, rev...)
			}
			if !runBatch("all", all) || !runBatch("reversed", rev) {
				return
			}
			mixed := []item{ver(grp[0]), nsx(grp[1])}
			for _, r := range grp[2:] {
				mixed = append(mixed, ver(r))
			}
			if grp[0].key != grp[1].key {
				mixed = append(mixed, alt(grp[0], func(m map[string]interface{}) { m["ip"] = grp[1].ip }))
			}
			if len(lives) > 0 {
				mixed = append(mixed, item{entryOf[lives[groups%len(lives)].ip].raw, nil})
			}
			if !runBatch("mixed", mixed) {
				return
			}
			if !runBatch("duplicates", []item{ver(grp[0]), ver(grp[0]), ver(grp[1]), appx(grp[0])}) {
				return
			}
			last := ver(grp[len(grp)-1])
			if entryOf[last.owner.ip].f.AppType == "statefulset" {
				last.raw = mutate(last.raw, func(m map[string]interface{}) { delete(m, "appType") })
			}
			if !runBatch("variant-first", []item{nsx(grp[0]), ver(grp[0]), appx(grp[1]), last}) {
				return
			}
		}
	}
	for idx, r := range order {
		e, ok := entryOf[r.ip]
		if !ok {
			continue
		}
		if r.live {
			// a listed entry of a live pod says releasable=false; posting it back must not release
			if e.f.Releasable {
				sig := r.feature()
				if sig == "" {
					sig = "live-pod-releasable"
				}
				viol(sig, fmt.Sprintf("entry of live pod %s/%s (key %q) is listed releasable", r.spec.Pod.NS, r.spec.Pod.Name, r.key))
			}
			doPost(r, e.raw, "live", false, true)
			if res.Err != "" {
				return
			}
			_ = w.ctx.Client.CoreV1().Pods(r.spec.Pod.NS).Delete(context.TODO(), r.spec.Pod.Name, metav1.DeleteOptions{})
			if !w.waitLister(r.spec.Pod.NS, r.spec.Pod.Name, false) {
				res.Err = "lister did not drop the deleted pod"
				return
			}
			delete(livePods, r.spec.Pod.NS+"/"+r.spec.Pod.Name)
			r.live = false
			// take the entry again, by ip, from a fresh full list
			F2, ok := full()
			if !ok {
				return
			}
			for _, x := range F2 {
				if x.f.IP == r.ip {
					e = x
				}
			}
		}
		if !e.f.Releasable && r.kindsWF && r.feature() == "" {
			viol("entry-not-releasable", fmt.Sprintf("entry of %s (key %q, pod gone) is listed with releasable=false", r.ip, r.key))
		}
		// one-field variants
		other := order[(idx+1)%len(order)]
		variants := []struct {
			name string
			f    func(m map[string]interface{})
		}{
			{"namespace", func(m map[string]interface{}) { m["namespace"] = str(m, "namespace") + "x" }},
			{"appName", func(m map[string]interface{}) { m["appName"] = str(m, "appName") + "x" }},
			{"podName", func(m map[string]interface{}) { m["podName"] = str(m, "podName") + "x" }},
			{"poolName", func(m map[string]interface{}) { m["poolName"] = str(m, "poolName") + "x" }},
			{"appType", func(m map[string]interface{}) {
				if str(m, "appType") == "statefulset" {
					m["appType"] = "deployment"
				} else {
					m["appType"] = "statefulset"
				}
			}},
		}
		if r.tr.app != "" {
			for _, v := range variants {
				doPost(r, mutate(e.raw, v.f), "variant-"+v.name, false, true)
				if res.Err != "" {
					return
				}
			}
			if e.f.AppType != "statefulset" {
				doPost(r, mutate(e.raw, func(m map[string]interface{}) { delete(m, "appType") }), "variant-appType-omitted", false, true)
			}
		} else if r.tr.pool != "" {
			doPost(r, mutate(e.raw, variants[3].f), "variant-poolName", false, true)
		}
		if other != r && other.key != r.key && w.dump()[other.ip] != "" {
			doPost(r, mutate(e.raw, func(m map[string]interface{}) { m["ip"] = other.ip }), "variant-ip", false, true)
		}
		if res.Err != "" {
			return
		}
		// app type omitted means statefulset
		if e.f.AppType == "statefulset" {
			if doPost(r, mutate(e.raw, func(m map[string]interface{}) { delete(m, "appType") }), "omitted-appType", true, false) {
				if !realloc(r) {
					return
				}
			}
			if res.Err != "" {
				return
			}
		}
		// verbatim
		released := doPost(r, e.raw, "verbatim", true, false)
		if res.Err != "" {
			return
		}
		if released && idx%5 == 0 {
			// posting it again: already free, reported as success, nothing changes
			doPost(r, e.raw, "again", false, true)
		}
	}
	// ---- final state, both sides
	emit("dump", w.dumpLine())
	return
}
