// Package keys holds the C11 harness pieces: generators for names / pods / key parts, the canonical line
// encoding shared with gxdrv_keys, thin wrappers that run the REAL key codec and paging code, and the
// HTTP world (real ListIPs / ReleaseIPs handlers on a real plugin + ipam over fake clientsets).
package keys

import (
	"fmt"
	"math/rand"
	"strconv"
	"strings"
	"time"

	corev1 "k8s.io/api/core/v1"
	metav1 "k8s.io/apimachinery/pkg/apis/meta/v1"
	"tkestack.io/galaxy/pkg/ipam/schedulerplugin/util"
	"tkestack.io/galaxy/pkg/utils/page"

	"gxverif/hx"
)

const PoolAnnotation = "tke.cloud.tencent.com/eni-ip-pool"

// Enc is the string-field encoding of the gxdrv_keys line protocol: '=' + bytes outside [A-Za-z0-9._-] as %XX.
func Enc(s string) string {
	var b strings.Builder
	b.WriteByte('=')
	for i := 0; i < len(s); i++ {
		c := s[i]
		if c >= 'a' && c <= 'z' || c >= 'A' && c <= 'Z' || c >= '0' && c <= '9' || c == '.' || c == '_' || c == '-' {
			b.WriteByte(c)
		} else {
			fmt.Fprintf(&b, "%%%02X", c)
		}
	}
	return b.String()
}

// PodIn is what FormatKey reads of a pod.
type PodIn struct {
	NS     string     `json:"ns"`
	Name   string     `json:"name"`
	Pool   string     `json:"pool"`
	Owners [][]string `json:"owners"` // [kind, name] pairs
}

func (p PodIn) Pod() *corev1.Pod {
	pod := &corev1.Pod{ObjectMeta: metav1.ObjectMeta{Name: p.Name, Namespace: p.NS}}
	if p.Pool != "" {
		pod.Annotations = map[string]string{PoolAnnotation: p.Pool}
	}
	for _, o := range p.Owners {
		pod.OwnerReferences = append(pod.OwnerReferences, metav1.OwnerReference{Kind: o[0], Name: o[1]})
	}
	return pod
}

func (p PodIn) Line() string {
	var b strings.Builder
	fmt.Fprintf(&b, "fmt %s %s %s %d", Enc(p.NS), Enc(p.Name), Enc(p.Pool), len(p.Owners))
	for _, o := range p.Owners {
		fmt.Fprintf(&b, " %s %s", Enc(o[0]), Enc(o[1]))
	}
	return b.String()
}

// Kind returns the first owner's kind ("" when there is no owner) and whether there is an owner.
func (p PodIn) Kind() (string, bool) {
	if len(p.Owners) == 0 {
		return "", false
	}
	return p.Owners[0][0], true
}

// WF: the input class for which the property promises decoding: DNS-1123 names (guaranteed by the generators),
// non-empty '_'-free ASCII owner kinds, exactly the owner shapes FormatKey accepts.
func (p PodIn) KindsWF() bool {
	for _, o := range p.Owners {
		if o[0] == "" || strings.Contains(o[0], "_") || !isASCII(o[0]) {
			return false
		}
	}
	return true
}

func isASCII(s string) bool {
	for i := 0; i < len(s); i++ {
		if s[i] >= 0x80 {
			return false
		}
	}
	return true
}

func ShowKeyObj(k *util.KeyObj) string {
	return fmt.Sprintf("key%s tp%s app%s pod%s ns%s pool%s", Enc(k.KeyInDB), Enc(k.AppTypePrefix), Enc(k.AppName),
		Enc(k.PodName), Enc(k.Namespace), Enc(k.PoolName))
}

// guarded runs f under hx.Guard and returns its result or the guard outcome.
func guarded(f func() string) string {
	var out string
	if o := hx.Guard(5*time.Second, func() { out = f() }); o != "ok" {
		if strings.HasPrefix(o, "panic") {
			return "panic"
		}
		return o
	}
	return out
}

// RealFormat runs util.FormatKey (+ PoolPrefix / PoolAppPrefix) and prints it like the driver's `fmt` op.
func RealFormat(p PodIn) (string, *util.KeyObj) {
	var ko *util.KeyObj
	s := guarded(func() string {
		k, err := util.FormatKey(p.Pod())
		if err != nil {
			return "err"
		}
		ko = k
		return fmt.Sprintf("ok %s pp%s pap%s", ShowKeyObj(k), Enc(k.PoolPrefix()), Enc(k.PoolAppPrefix()))
	})
	return s, ko
}

func RealParse(key string) (string, *util.KeyObj) {
	var ko *util.KeyObj
	s := guarded(func() string {
		ko = util.ParseKey(key)
		return ShowKeyObj(ko)
	})
	return s, ko
}

func RealNewKey(tp, ns, app, pod, pool string) (string, *util.KeyObj) {
	var ko *util.KeyObj
	s := guarded(func() string {
		ko = util.NewKeyObj(tp, ns, app, pod, pool)
		return fmt.Sprintf("key%s pp%s pap%s", Enc(ko.KeyInDB), Enc(ko.PoolPrefix()), Enc(ko.PoolAppPrefix()))
	})
	return s, ko
}

func RealATP(kind string) string {
	return guarded(func() string { return Enc(util.GetAppTypePrefix(kind)) })
}
func RealAT(tp string) string { return guarded(func() string { return Enc(util.GetAppType(tp)) }) }

func RealParsePage(s string) string {
	return guarded(func() string { return strconv.Itoa(page.ParsePage(s)) })
}
func RealParseSize(s string) string {
	return guarded(func() string { return strconv.Itoa(page.ParseSize(s)) })
}

// RealPagination prints page.Pagination like the driver's `pagin` op ("div0" for the division-by-zero panic).
func RealPagination(pg, size, n int) (string, int, int, *page.Page) {
	var st, en int
	var pp *page.Page
	s := guarded(func() string {
		st, en, pp = page.Pagination(pg, size, n)
		return fmt.Sprintf("%d %d %v %v %d %d %d %d %d", st, en, pp.Last, pp.First, pp.TotalElements, pp.TotalPages,
			pp.NumberOfElements, pp.Size, pp.Number)
	})
	if s == "panic" && size == 0 {
		s = "div0"
	}
	return s, st, en, pp
}

// ---------- generators

const lowerAlnum = "abcdefghijklmnopqrstuvwxyz0123456789"

func pick(r *rand.Rand, s string) byte { return s[r.Intn(len(s))] }

// Label: DNS-1123 label, length 1..maxLen.
func Label(r *rand.Rand, maxLen int) string {
	n := 1 + r.Intn(maxLen)
	b := make([]byte, n)
	for i := range b {
		if i == 0 || i == n-1 || r.Intn(4) != 0 {
			b[i] = pick(r, lowerAlnum)
		} else {
			b[i] = '-'
		}
	}
	return string(b)
}

// Subdomain: DNS-1123 subdomain (labels joined by '.'), as pod and owner names are.
func Subdomain(r *rand.Rand) string {
	n := 1
	if r.Intn(4) == 0 {
		n = 2 + r.Intn(2)
	}
	parts := make([]string, n)
	for i := range parts {
		parts[i] = Label(r, 6)
	}
	return strings.Join(parts, ".")
}

// Kinds the generator draws from (weights by repetition); the last group is the malformed stream.
var wfKinds = []string{"StatefulSet", "StatefulSet", "ReplicaSet", "ReplicaSet", "ReplicaSet", "TApp", "TApp", "Job",
	"DaemonSet", "Deployment", "NULL", "Null", "null", "sts", "dp", "pool", "StatefulSets", "statefulset", "replicaset",
	"ReplicationController", "CloneSet", "Rollout", "X", "Pool--x", "a-b"}
var malformedKinds = []string{"", "My_Kind", "_", "a_", "_b", "pool_"}

// KindZoo: owner kinds the HTTP worlds and the codec stream must always cover: kinds ending in s / ss / es,
// one-letter kinds, mixed case, digits, kinds equal (up to case) to the words of the app-type tables, very long kinds.
var KindZoo = []string{"Redis", "Canvas", "Compass", "Class", "Access", "Aliases", "Indexes", "Kubernetes", "S", "s", "ss", "Ss", "es",
	"X", "x", "A1", "K8s", "V2Alpha1S", "9", "0s", "mIxEdCaSe", "UPPERS", "lowers", "StatefulSets", "statefulsets", "statefulset",
	"Deployment", "deployment", "Deployments", "replicaset", "ReplicaSets", "NULL", "null", "Null", "NULLS", "nulls", "sts", "stss", "dp", "dps",
	"pool", "pools", "TApp", "TApps", "Job", "Jobs", "DaemonSet",
	// kinds that merely START or END with, or are one letter short of, a word of the app-type tables
	"StatefulSetPlus", "statefulsetx", "StatefulSetSet", "XStatefulSet", "StatefulSe", "AdvancedStatefulSet",
	"DeploymentConfig", "deploymentx", "XDeployment", "Deploymen", "ReplicaSetX", "TAppSet", "stsx", "xsts", "dpx", "NULLx", "poolx",
	"VeryLongCustomResourceKindNameThatGoesOnAndOnAndOnAndOnAndOnAndOnAndOnUntilItIsLongerThanSixtyThreeBytes",
	"VeryLongCustomResourceKindNameThatGoesOnAndOnAndOnAndOnAndOnAndOnAndOnUntilItIsLongerThanSixtyThreeBytess"}

func RandomKind(r *rand.Rand) string {
	const letters = "ABCDEFGHIJKLMNOPQRSTUVWXYZabcdefghijklmnopqrstuvwxyz0123456789"
	switch r.Intn(10) {
	case 0, 1:
		// random identifier; every second one ends in s / ss / es
		n := 1 + r.Intn(6)
		b := make([]byte, n)
		for i := range b {
			b[i] = pick(r, letters)
		}
		return string(b) + []string{"", "", "", "s", "S", "ss", "es"}[r.Intn(7)]
	case 2:
		// a word of the app-type tables with something in front, behind, or its last letter dropped
		w := []string{"StatefulSet", "statefulset", "statefulsets", "Deployment", "deployment", "ReplicaSet", "TApp", "tapp", "sts", "dp", "NULL", "pool"}[r.Intn(12)]
		x := string(pick(r, letters))
		switch r.Intn(4) {
		case 0:
			return w + x
		case 1:
			return x + w
		case 2:
			return w[:len(w)-1]
		default:
			return w + x + string(pick(r, letters))
		}
	case 3, 4:
		return KindZoo[r.Intn(len(KindZoo))]
	default:
		return wfKinds[r.Intn(len(wfKinds))]
	}
}

// Pool names: DNS-like ones and free text (annotation values are not validated).
var freePools = []string{"a_b", "my_pool", "x_", "_x", "_", "__", "p_dp_ns_a_b", "pool__x", "pool__", "a b", "a%b", "P.1",
	"日本", "a=b", "x_y_z", "sts", "dp"}

func RandomPool(r *rand.Rand, free bool) string {
	switch {
	case r.Intn(10) < 5:
		return ""
	case free && r.Intn(3) == 0:
		return freePools[r.Intn(len(freePools))]
	default:
		return Label(r, 5)
	}
}

// RandomPod draws a pod of every owner shape. malformed=true adds the shapes outside the property's quantifier
// (kinds with '_', empty kind, two owners, replica set named "-x") — correspondence only.
func RandomPod(r *rand.Rand, freePool, malformed bool) PodIn {
	p := PodIn{NS: Label(r, 6), Name: Subdomain(r), Pool: RandomPool(r, freePool)}
	switch r.Intn(8) {
	case 0:
		// no owner
	case 1:
		app := Label(r, 6)
		p.Owners = [][]string{{"StatefulSet", app}}
		p.Name = app + "-" + strconv.Itoa(r.Intn(12))
	case 2, 3:
		app := Label(r, 6)
		rs := app
		if r.Intn(4) != 0 {
			rs = app + "-" + Label(r, 5)
		}
		p.Owners = [][]string{{"ReplicaSet", rs}}
		p.Name = rs + "-" + Label(r, 4)
	default:
		p.Owners = [][]string{{RandomKind(r), Subdomain(r)}}
	}
	if malformed {
		switch r.Intn(6) {
		case 0:
			p.Owners = [][]string{{malformedKinds[r.Intn(len(malformedKinds))], Subdomain(r)}}
		case 1:
			p.Owners = append(p.Owners, []string{RandomKind(r), Subdomain(r)})
		case 2:
			p.Owners = [][]string{{"ReplicaSet", "-" + Label(r, 4)}}
		case 3:
			p.Owners = [][]string{{"ReplicaSet", Label(r, 4)}, {"ReplicaSet", Label(r, 4)}}
		}
	}
	return p
}

// RandomKeyString: strings around the key grammar for ParseKey (malformed stream).
func RandomKeyString(r *rand.Rand) string {
	atoms := []string{"_", "_", "_", "pool__", "pool_", "pool", "sts", "dp", "NULL", "a", "b-0", "n.s", "", "__", "-", "x"}
	n := r.Intn(9)
	var b strings.Builder
	for i := 0; i < n; i++ {
		b.WriteString(atoms[r.Intn(len(atoms))])
	}
	return b.String()
}

// SmallNames: the name alphabet of the exhaustive key-shape enumeration (length ≤ 2 plus the two shortest
// names containing '-' and '.').
var SmallNames = []string{"a", "b", "ab", "a0", "a-b", "a.b"}

// NumStrings: the boundary stream for ParsePage / ParseSize.
var NumStrings = []string{"", "0", "1", "-1", "-0", "+0", "+5", "5", "9", "10", "11", "9998", "9999", "10000", "99998", "99999",
	"100000", "100001", "2147483647", "2147483648", "9223372036854775807", "9223372036854775808", "-9223372036854775808",
	"-9223372036854775809", "99999999999999999999", "-99999999999999999999", "000", "007", "00000000000000000000005",
	"+", "-", "++1", "--1", "+-1", "1+", "abc", "1e3", "0x10", "1_000", " 5", "5 ", "5\n", "５", "1.0", "1,0", "%", "null", "NaN"}

func RandomNumString(r *rand.Rand) string {
	switch r.Intn(6) {
	case 0:
		return NumStrings[r.Intn(len(NumStrings))]
	case 1:
		return strconv.FormatInt(r.Int63n(200000)-50000, 10)
	case 2:
		return strconv.FormatInt(r.Int63()-r.Int63(), 10)
	case 3:
		n := r.Intn(25)
		b := make([]byte, n)
		for i := range b {
			b[i] = pick(r, "0123456789")
		}
		s := string(b)
		if r.Intn(3) == 0 {
			s = "-" + s
		}
		return s
	case 4:
		n := r.Intn(5)
		b := make([]byte, n)
		for i := range b {
			b[i] = pick(r, "0123456789+-_ xe.")
		}
		return string(b)
	default:
		return strconv.Itoa(r.Intn(12000))
	}
}

// KindClass: the histogram class of an owner kind.
func KindClass(k string) string {
	switch k {
	case "StatefulSet", "ReplicaSet", "NULL", "":
		return k
	}
	if strings.Contains(k, "_") {
		return "with-underscore"
	}
	switch strings.ToLower(k) {
	case "statefulset", "statefulsets", "replicaset", "deployment", "sts", "dp", "null", "pool":
		return "table-alias"
	}
	if len(k) == 1 {
		return "one-letter"
	}
	if len(k) > 63 {
		return "very-long"
	}
	if strings.HasSuffix(strings.ToLower(k), "s") {
		return "ends-in-s"
	}
	return "custom"
}
