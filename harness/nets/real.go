package netsh

import (
	"encoding/binary"
	"encoding/json"
	"fmt"
	"net"
	"reflect"
	"sort"
	"strings"
	"time"

	"gxverif/hx"
	"tkestack.io/galaxy/pkg/ipam/floatingip"
	"tkestack.io/galaxy/pkg/utils/nets"
)

const CallTimeout = 2 * time.Second

// U32 reads an IPv4 address (4- or 16-byte form) independently of nets.IPToInt; ok=false if it is not IPv4.
func U32(ip net.IP) (uint32, bool) {
	v4 := ip.To4()
	if v4 == nil {
		return 0, false
	}
	return binary.BigEndian.Uint32(v4), true
}

func IP4(u uint32) net.IP {
	return net.IPv4(byte(u>>24), byte(u>>16), byte(u>>8), byte(u))
}

// CanonPool prints a decoded pool in the <pool> syntax of gxdrv_nets. inDomain=false if something is not IPv4.
func CanonPool(p *floatingip.FloatingIPPool) (s string, inDomain bool) {
	inDomain = true
	var ns []string
	for _, n := range p.NodeSubnets {
		u, ok := U32(n.IP)
		ones, bits := n.Mask.Size()
		if !ok || bits != 32 {
			inDomain = false
		}
		ns = append(ns, fmt.Sprintf("%d/%d", u, ones))
	}
	gw, ok := U32(p.Gateway)
	ones, bits := p.Mask.Size()
	if !ok || bits != 32 {
		inDomain = false
	}
	var rs []string
	for _, r := range p.IPRanges {
		f, ok1 := U32(r.First)
		l, ok2 := U32(r.Last)
		if !ok1 || !ok2 {
			inDomain = false
		}
		rs = append(rs, fmt.Sprintf("%d-%d", f, l))
	}
	sub := p.IPNet()
	su, _ := U32(sub.IP)
	return fmt.Sprintf("ns=%s,gw=%d,pl=%d,vlan=%d,ranges=%s,size=%d,sub=%d/%d", strings.Join(ns, ";"), gw, ones, p.Vlan,
		strings.Join(rs, ";"), p.Size(), su, ones), inDomain
}

// CanonPools prints a pool list in its order, except that runs of pools with the same gateway (equal sort keys:
// sort.Sort is not stable) are sorted textually.
func CanonPoolStrings(ps []string) string {
	gwOf := func(s string) string {
		i := strings.Index(s, ",gw=")
		j := strings.Index(s[i+1:], ",pl=")
		return s[i : i+1+j]
	}
	out := append([]string(nil), ps...)
	for i := 0; i < len(out); {
		j := i
		for j < len(out) && gwOf(out[j]) == gwOf(out[i]) {
			j++
		}
		sort.Strings(out[i:j])
		i = j
	}
	return strings.Join(out, "|")
}

// DecodeConf runs the real configuration decoder: json.Unmarshal into []*FloatingIPPool plus the null-pool
// check of ensureIPAMConf. outcome: "ok" | "err" | "panic: …" | "hang".
func DecodeConf(text string) (pools []*floatingip.FloatingIPPool, outcome string) {
	var conf []*floatingip.FloatingIPPool
	var err error
	o := hx.Guard(CallTimeout, func() { err = json.Unmarshal([]byte(text), &conf) })
	if o != "ok" {
		return nil, o
	}
	if err != nil {
		return nil, "err"
	}
	for _, p := range conf {
		if p == nil {
			return nil, "err"
		}
	}
	return conf, "ok"
}

// Violation found by a monitor.
type V struct {
	Sig  string
	What string
}

func guardV(fn string, vs *[]V, f func()) bool {
	o := hx.Guard(CallTimeout, f)
	if o == "ok" {
		return true
	}
	if o == "hang" {
		*vs = append(*vs, V{"hang:" + fn, fn + " did not return within 2s"})
	} else {
		*vs = append(*vs, V{"panic:" + fn, fn + ": " + o})
	}
	return false
}

// WalkAll collects what VerifNetsWalkIPRanges hands to a callback that stops at `stop` (nil: never).
func WalkAll(ranges []nets.IPRange, stop *uint32, vs *[]V) (out []uint32, ok bool) {
	// a walk which hands out more addresses than the ranges can hold would never end (and would eat all memory
	// here): it is cut off by the callback and reported as the hang it is
	limit := 16
	for _, r := range ranges {
		f, _ := U32(r.First)
		l, _ := U32(r.Last)
		if f <= l {
			limit += int(l-f) + 1
		}
	}
	overrun := false
	ok = guardV("walkIPRanges", vs, func() {
		floatingip.VerifNetsWalkIPRanges(ranges, func(ip net.IP) bool {
			u, _ := U32(ip)
			if len(out) >= limit {
				overrun = true
				return true
			}
			out = append(out, u)
			return stop != nil && u == *stop
		})
	})
	if overrun {
		*vs = append(*vs, V{"hang:walkIPRanges", fmt.Sprintf("walkIPRanges handed out more than %d addresses for ranges holding fewer: it does not terminate", limit)})
		return out, false
	}
	return
}

// MaxEnum: ranges / subnets with at most this many addresses are enumerated completely.
const MaxEnum = 1 << 16

// MonitorPool evaluates the property on ONE accepted pool, on the real objects only (no Lean model involved).
func MonitorPool(p *floatingip.FloatingIPPool) (vs []V) {
	gw, ok := U32(p.Gateway)
	ones, bits := p.Mask.Size()
	if !ok || bits != 32 || len(p.Mask) != net.IPv4len {
		return []V{{"accepted:non-ipv4-gateway-or-mask", fmt.Sprintf("gateway %v mask %v", p.Gateway, p.Mask)}}
	}
	if len(p.NodeSubnets) == 0 {
		vs = append(vs, V{"accepted:no-node-subnet", "accepted pool without node subnet"})
	}
	hostBits := uint(32 - ones)
	var lo, hi uint64
	if hostBits == 32 {
		lo, hi = 0, 0xFFFFFFFF
	} else {
		lo = uint64(gw) >> hostBits << hostBits
		hi = lo + (uint64(1) << hostBits) - 1
	}
	type rg struct{ f, l uint64 }
	var rs []rg
	for _, r := range p.IPRanges {
		f, ok1 := U32(r.First)
		l, ok2 := U32(r.Last)
		if !ok1 || !ok2 {
			return append(vs, V{"accepted:non-ipv4-range", fmt.Sprintf("range %v", r)})
		}
		rs = append(rs, rg{uint64(f), uint64(l)})
	}
	var card uint64
	wf := true
	for i, r := range rs {
		if r.f > r.l {
			vs = append(vs, V{"accepted:first>last", fmt.Sprintf("range %d: %d > %d", i, r.f, r.l)})
			wf = false
			continue
		}
		if r.f < lo || r.l > hi {
			vs = append(vs, V{"accepted:range-outside-subnet", fmt.Sprintf("range %d-%d outside %d-%d", r.f, r.l, lo, hi)})
			wf = false
		}
		if i > 0 && !(rs[i-1].l+1 < r.f) {
			vs = append(vs, V{"accepted:ranges-unsorted-overlapping-or-mergeable",
				fmt.Sprintf("range %d-%d follows %d-%d", r.f, r.l, rs[i-1].f, rs[i-1].l)})
			wf = false
		}
		card += r.l - r.f + 1
	}
	// size == number of distinct addresses (pod subnets other than 0.0.0.0/0)
	var size uint32
	if !guardV("SparseSubnet.Size", &vs, func() { size = p.Size() }) {
		return
	}
	if wf && ones != 0 && uint64(size) != card {
		vs = append(vs, V{"size!=cardinality", fmt.Sprintf("Size()=%d, %d distinct addresses", size, card)})
	}
	if wf && card <= MaxEnum {
		// enumerate by the real walk: distinct, increasing, exactly the ranges; agrees with Size and Contains
		got, ok := WalkAll(p.IPRanges, nil, &vs)
		if !ok {
			return
		}
		var want []uint32
		for _, r := range rs {
			for x := r.f; x <= r.l; x++ {
				want = append(want, uint32(x))
			}
		}
		if !reflect.DeepEqual(got, want) && !(len(got) == 0 && len(want) == 0) {
			vs = append(vs, V{"walk!=ranges", fmt.Sprintf("walk visited %d addresses, ranges hold %d", len(got), len(want))})
		}
		seen := map[uint32]bool{}
		for _, x := range got {
			if seen[x] {
				vs = append(vs, V{"walk:duplicate", fmt.Sprintf("address %d visited twice", x)})
				break
			}
			seen[x] = true
		}
		if ones != 0 && uint64(size) != uint64(len(seen)) {
			vs = append(vs, V{"size!=enumerated", fmt.Sprintf("Size()=%d, walk enumerated %d distinct", size, len(seen))})
		}
		// Contains over the subnet window (plus one address on either side)
		if hi-lo+1 <= MaxEnum {
			cnt := 0
			bad := ""
			guardV("FloatingIPPool.Contains", &vs, func() {
				for x := lo; x <= hi; x++ {
					c := p.Contains(IP4(uint32(x)))
					if c {
						cnt++
					}
					if c != seen[uint32(x)] && bad == "" {
						bad = fmt.Sprintf("Contains(%d)=%v, enumerated=%v", x, c, seen[uint32(x)])
					}
				}
				for _, x := range []uint64{lo - 1, hi + 1} {
					if x <= 0xFFFFFFFF && p.Contains(IP4(uint32(x))) && bad == "" {
						bad = fmt.Sprintf("Contains(%d)=true outside the subnet", x)
					}
				}
			})
			if bad != "" {
				vs = append(vs, V{"contains!=enumerate", bad})
			} else if ones != 0 && uint64(cnt) != uint64(size) {
				vs = append(vs, V{"size!=contains-count", fmt.Sprintf("Size()=%d, Contains true for %d", size, cnt)})
			}
		}
	}
	// range text round trip
	for _, r := range p.IPRanges {
		var back *nets.IPRange
		r := r
		if !guardV("ParseIPRange", &vs, func() { back = nets.ParseIPRange(r.String()) }) {
			continue
		}
		if back == nil || !back.First.Equal(r.First) || !back.Last.Equal(r.Last) {
			vs = append(vs, V{"roundtrip:range", fmt.Sprintf("ParseIPRange(%q) = %v", r.String(), back)})
		}
	}
	// pool round trip
	var data []byte
	var err error
	if !guardV("MarshalJSON", &vs, func() { data, err = p.MarshalJSON() }) {
		return
	}
	if err != nil {
		return append(vs, V{"roundtrip:marshal-error", err.Error()})
	}
	var q floatingip.FloatingIPPool
	if !guardV("UnmarshalJSON", &vs, func() { err = json.Unmarshal(data, &q) }) {
		return
	}
	if err != nil {
		return append(vs, V{"roundtrip:pool-redecode-error", fmt.Sprintf("%s: %v", data, err)})
	}
	if d := poolDiff(p, &q); d != "" {
		vs = append(vs, V{"roundtrip:pool-differs", fmt.Sprintf("%s decodes to %s: %s", data, q.String(), d)})
	}
	return
}

// poolDiff compares two pools as values: node subnets as networks (an IPv4 network written as a v4-mapped IPv6
// CIDR keeps 16-byte address and mask in memory but is the same network and prints the same), gateway and range
// ends as addresses, mask and vlan exactly.
func poolDiff(p, q *floatingip.FloatingIPPool) string {
	if len(p.NodeSubnets) != len(q.NodeSubnets) {
		return "number of node subnets"
	}
	for i := range p.NodeSubnets {
		if p.NodeSubnets[i].String() != q.NodeSubnets[i].String() {
			return fmt.Sprintf("node subnet %d", i)
		}
	}
	if !p.Gateway.Equal(q.Gateway) {
		return "gateway"
	}
	if !reflect.DeepEqual(p.Mask, q.Mask) {
		return "mask"
	}
	if p.Vlan != q.Vlan {
		return "vlan"
	}
	if len(p.IPRanges) != len(q.IPRanges) {
		return "number of ranges"
	}
	for i := range p.IPRanges {
		if !p.IPRanges[i].First.Equal(q.IPRanges[i].First) || !p.IPRanges[i].Last.Equal(q.IPRanges[i].Last) {
			return fmt.Sprintf("range %d", i)
		}
	}
	if p.IPNet().String() != q.IPNet().String() || p.Size() != q.Size() {
		return "subnet or size"
	}
	return ""
}

// MonitorConf: a decode that neither returns ok nor err is a violation by itself; accepted pools are monitored.
func MonitorConf(pools []*floatingip.FloatingIPPool, outcome string) (vs []V) {
	switch {
	case outcome == "hang":
		return []V{{"hang:UnmarshalJSON", "decoding the configuration did not return within 2s"}}
	case strings.HasPrefix(outcome, "panic"):
		return []V{{"panic:UnmarshalJSON", outcome}}
	case outcome == "ok":
		for _, p := range pools {
			vs = append(vs, MonitorPool(p)...)
		}
	}
	return
}

func ParseIPMust(s string) net.IP { return net.ParseIP(s) }
