package netsh

import (
	"bytes"
	"encoding/hex"
	"encoding/json"
	"strings"
)

// Lowered is a configuration document in the RawConf syntax of gxdrv_nets.
type Lowered struct {
	Conf   string // "null" | "notarray" | "arr e|e…" ; "" if Syntax
	Syntax bool   // not valid JSON: the model has no JSON syntax layer, the real decoder must reject
	Dup    bool   // an object has two keys which match the same struct field: outside the lowering
	Colon  bool   // an address-bearing string contains ':' (IPv6 literal): the model rejects, see main.go
	Pools  int    // number of object entries
}

func kind(tok []byte) byte {
	tok = bytes.TrimSpace(tok)
	if len(tok) == 0 {
		return '?'
	}
	switch tok[0] {
	case '{':
		return 'o'
	case '[':
		return 'a'
	case '"':
		return 's'
	case 'n':
		return 'n'
	case 't', 'f':
		return 'b'
	}
	return 'd'
}

func hexTok(b []byte) string { return "x" + hex.EncodeToString(b) }

var fieldNames = []string{"nodeSubnets", "routableSubnet", "ips", "subnet", "gateway", "vlan"}

func isDigits(b []byte) bool {
	if len(b) == 0 {
		return false
	}
	for _, c := range b {
		if c < '0' || c > '9' {
			return false
		}
	}
	return true
}

// lowerPool lowers one JSON object (the bytes FloatingIPPool.UnmarshalJSON receives).
func lowerPool(tok []byte, l *Lowered) string {
	var m map[string]json.RawMessage
	if err := json.Unmarshal(tok, &m); err != nil {
		return "notobj"
	}
	f := map[string]json.RawMessage{}
	for k, v := range m {
		for _, name := range fieldNames {
			if strings.EqualFold(k, name) {
				if _, dup := f[name]; dup {
					l.Dup = true
				}
				f[name] = v
			}
		}
	}
	colon := func(b []byte) {
		if bytes.IndexByte(b, ':') >= 0 {
			l.Colon = true
		}
	}
	get := func(name string) ([]byte, byte) {
		v, ok := f[name]
		if !ok {
			return nil, 'n'
		}
		return bytes.TrimSpace(v), kind(v)
	}
	// nodeSubnets
	ns := "-"
	if v, k := get("nodeSubnets"); k != 'n' {
		if k != 'a' {
			ns = "!"
		} else {
			var arr []json.RawMessage
			json.Unmarshal(v, &arr)
			var es []string
			for _, e := range arr {
				if kind(e) == 'n' {
					es = append(es, "n")
				} else {
					colon(e)
					es = append(es, hexTok(bytes.TrimSpace(e)))
				}
			}
			ns = "[" + strings.Join(es, ";") + "]"
		}
	}
	opt := func(name string) string {
		v, k := get(name)
		if k == 'n' {
			return "-"
		}
		colon(v)
		return hexTok(v)
	}
	rs := opt("routableSubnet")
	sn := opt("subnet")
	ips := "-"
	if v, k := get("ips"); k != 'n' {
		if k != 'a' {
			ips = "!"
		} else {
			var arr []json.RawMessage
			json.Unmarshal(v, &arr)
			var es []string
			for _, e := range arr {
				switch kind(e) {
				case 'n':
					es = append(es, "n")
				case 's':
					var s string
					json.Unmarshal(e, &s)
					colon([]byte(s))
					es = append(es, hexTok([]byte(s)))
				default:
					es = append(es, "!")
				}
			}
			ips = "[" + strings.Join(es, ";") + "]"
		}
	}
	gw := "-"
	if v, k := get("gateway"); k != 'n' {
		if k != 's' {
			gw = "!"
		} else {
			var s string
			json.Unmarshal(v, &s)
			colon([]byte(s))
			gw = hexTok([]byte(s))
		}
	}
	vl := "-"
	if v, k := get("vlan"); k != 'n' {
		if k == 'd' && isDigits(v) {
			vl = "#" + string(v)
		} else {
			vl = "!"
		}
	}
	l.Pools++
	return "ns=" + ns + ",rs=" + rs + ",ips=" + ips + ",sn=" + sn + ",gw=" + gw + ",vl=" + vl
}

// LowerPool lowers the text of ONE pool (json.Unmarshal into *FloatingIPPool): entry syntax, or "" when the text is
// not a JSON object (null leaves the pool untouched, anything else is a decode error: both handled by the caller).
func LowerPool(text []byte) (string, Lowered) {
	var l Lowered
	if !json.Valid(text) {
		l.Syntax = true
		return "", l
	}
	if kind(text) != 'o' {
		return "", l
	}
	return lowerPool(text, &l), l
}

// LowerConf lowers a configuration document (json.Unmarshal into []*FloatingIPPool).
func LowerConf(text []byte) Lowered {
	var l Lowered
	if !json.Valid(text) {
		l.Syntax = true
		return l
	}
	switch kind(text) {
	case 'n':
		l.Conf = "null"
		return l
	case 'a':
	default:
		l.Conf = "notarray"
		return l
	}
	var arr []json.RawMessage
	json.Unmarshal(text, &arr)
	var es []string
	for _, e := range arr {
		switch kind(e) {
		case 'n':
			es = append(es, "null")
		case 'o':
			es = append(es, lowerPool(e, &l))
		default:
			es = append(es, "notobj")
		}
	}
	if len(es) == 0 {
		l.Conf = "arr"
	} else {
		l.Conf = "arr " + strings.Join(es, "|")
	}
	return l
}
