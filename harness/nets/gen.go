package netsh

import (
	"fmt"
	"math/rand"
	"strings"
)

func IPStr(u uint32) string {
	return fmt.Sprintf("%d.%d.%d.%d", byte(u>>24), byte(u>>16), byte(u>>8), byte(u))
}

func RangeStr(f, l uint32) string {
	if f == l {
		return IPStr(f)
	}
	return IPStr(f) + "~" + IPStr(l)
}

// PoolSpec is the semantic description a pool document is built from.
type PoolSpec struct {
	NS      []string // node subnet CIDR texts
	RS      *string  // routableSubnet
	IPs     []string
	Subnet  string
	Gateway string
	Vlan    *string // number text
	Lo, Hi  uint32  // the pod subnet window (for mutations)
	PL      int
	Ranges  [][2]uint32
}

func (s *PoolSpec) Doc() *J {
	o := Obj()
	if s.RS != nil {
		o.Set("routableSubnet", Str(*s.RS))
	}
	if s.NS != nil {
		var a []*J
		for _, n := range s.NS {
			a = append(a, Str(n))
		}
		o.Set("nodeSubnets", Arr(a...))
	}
	var ips []*J
	for _, r := range s.IPs {
		ips = append(ips, Str(r))
	}
	o.Set("ips", Arr(ips...))
	o.Set("subnet", Str(s.Subnet))
	o.Set("gateway", Str(s.Gateway))
	if s.Vlan != nil {
		o.Set("vlan", Num(*s.Vlan))
	}
	return o
}

var nsPalette = []string{"10.49.28.0/26", "10.49.29.0/24", "10.180.1.2/32", "10.0.0.0/16", "10.49.28.7/26", "0.0.0.0/0",
	"192.168.0.0/24", "255.255.255.255/32", "10.49.28.0/26", "172.16.0.1/12", "10.180.1.3/32"}

func pick(r *rand.Rand, l []string) string { return l[r.Intn(len(l))] }

// GenSubnet picks a pod subnet /24…/30, often at the edges of the address space or of its /24.
func GenSubnet(r *rand.Rand) (lo, hi uint32, pl int) {
	var base uint32
	switch r.Intn(8) {
	case 0:
		base = 0 // 0.0.0.0/24
	case 1:
		base = 0xFFFFFF00 // 255.255.255.0/24
	case 2:
		base = 0x0A000000 | uint32(r.Intn(256))<<8
	case 3:
		base = 0xC0A80000 | uint32(r.Intn(256))<<8
	case 4:
		base = 0xAC100000 | uint32(r.Intn(16))<<16 | uint32(r.Intn(256))<<8
	default:
		base = r.Uint32() &^ 0xFF
	}
	pl = 24 + r.Intn(7)
	size := uint32(1) << (32 - pl)
	blocks := 256 / size
	var blk uint32
	switch r.Intn(3) {
	case 0:
		blk = 0
	case 1:
		blk = blocks - 1
	default:
		blk = uint32(r.Intn(int(blocks)))
	}
	lo = base + blk*size
	hi = lo + size - 1
	return
}

// GenPool: a well-formed pool (1–3 ranges of 1–6 addresses, separated by gaps of at least one address).
func GenPool(r *rand.Rand) *PoolSpec {
	lo, hi, pl := GenSubnet(r)
	s := &PoolSpec{Lo: lo, Hi: hi, PL: pl}
	s.Subnet = fmt.Sprintf("%s/%d", IPStr(lo), pl)
	if r.Intn(4) == 0 { // the address part of "subnet" is ignored by the decoder: any address will do
		s.Subnet = fmt.Sprintf("%s/%d", IPStr(lo+uint32(r.Intn(int(hi-lo)+1))), pl)
	}
	gw := lo + 1
	if r.Intn(3) == 0 {
		gw = lo + uint32(r.Intn(int(hi-lo)+1))
	}
	s.Gateway = IPStr(gw)
	n := 1 + r.Intn(3)
	if r.Intn(20) == 0 {
		n = 0
	}
	cur := uint64(lo) + uint64(r.Intn(3))
	if r.Intn(4) == 0 {
		cur = uint64(lo)
	}
	for i := 0; i < n; i++ {
		ln := uint64(1 + r.Intn(6))
		if r.Intn(6) == 0 { // run to the end of the subnet
			ln = uint64(hi) - cur + 1
		}
		if cur > uint64(hi) {
			break
		}
		if cur+ln-1 > uint64(hi) {
			ln = uint64(hi) - cur + 1
		}
		f, l := uint32(cur), uint32(cur+ln-1)
		s.Ranges = append(s.Ranges, [2]uint32{f, l})
		cur = uint64(l) + 2 + uint64(r.Intn(4))
	}
	s.SyncIPs(r)
	switch r.Intn(10) {
	case 0, 1:
		v := pick(r, nsPalette)
		s.RS = &v
	case 2:
		v := pick(r, nsPalette)
		s.RS = &v
		s.NS = []string{pick(r, nsPalette)}
	default:
		k := 1 + r.Intn(3)
		for i := 0; i < k; i++ {
			s.NS = append(s.NS, pick(r, nsPalette))
		}
	}
	if r.Intn(10) < 4 {
		v := []string{"0", "1", "2", "3", "4094", "65535", "100"}[r.Intn(7)]
		s.Vlan = &v
	}
	return s
}

// SyncIPs renders Ranges into the "ips" texts (single addresses sometimes in the explicit a~a form).
func (s *PoolSpec) SyncIPs(r *rand.Rand) {
	s.IPs = []string{}
	for _, x := range s.Ranges {
		if x[0] == x[1] && r != nil && r.Intn(4) == 0 {
			s.IPs = append(s.IPs, IPStr(x[0])+"~"+IPStr(x[1]))
		} else {
			s.IPs = append(s.IPs, RangeStr(x[0], x[1]))
		}
	}
}

// GenConf: 1–5 well-formed pools, mostly with distinct subnets.
func GenConf(r *rand.Rand) []*PoolSpec {
	n := 1 + r.Intn(5)
	var ps []*PoolSpec
	for i := 0; i < n; i++ {
		p := GenPool(r)
		if i > 0 && r.Intn(10) == 0 { // same subnet and gateway as the previous pool (equal sort keys)
			q := ps[i-1]
			p.Lo, p.Hi, p.PL, p.Subnet, p.Gateway = q.Lo, q.Hi, q.PL, q.Subnet, q.Gateway
			p.Ranges = nil
			if q.Hi-q.Lo >= 3 {
				x := q.Lo + uint32(r.Intn(int(q.Hi-q.Lo)+1))
				p.Ranges = [][2]uint32{{x, x}}
			}
			p.SyncIPs(r)
		}
		ps = append(ps, p)
	}
	return ps
}

func ConfDoc(ps []*PoolSpec) *J {
	var a []*J
	for _, p := range ps {
		a = append(a, p.Doc())
	}
	return Arr(a...)
}

var badIPs = []string{"", " ", "10.0.0.01", "10.0.0.256", "10.0.0", "10.0.0.1.2", "10.0.0.1.", ".10.0.0.1", "10..0.1",
	" 10.0.0.1", "10.0.0.1 ", "0x0a.0.0.1", "1e1.0.0.1", "10.0.0.-1", "10.0.0.1/24", "localhost", "00.0.0.0",
	"0.0.0.00", "１０.0.0.1", "10.0.0.1\u0000", "300.1.1.1", "1.2.3.4%eth0", "+1.2.3.4", "1.2.3.04", "999999999999.1.1.1",
	"4294967296", "167772161"}

var v6IPs = []string{"fd00::1", "::ffff:10.0.0.1", "::1", "::", "2001:db8::ff00:42:8329", "::ffff:255.255.255.255",
	"fe80::1%eth0", "0:0:0:0:0:ffff:0a00:0001", "::10.0.0.1", "1:2:3:4:5:6:7:8"}

var badCIDRs = []string{"", "10.0.0.0", "10.0.0.0/", "10.0.0.0/33", "10.0.0.0/-1", "10.0.0.0/ 24", "10.0.0.0 /24",
	"10.0.0.0/24 ", "10.0.0/24", "10.0.0.0/2 4", "/24", "10.0.0.0//24", "10.0.0.0/24/1", "10.0.0.0/0x18", "10.0.0.0/1e1",
	"10.0.0.256/24", "10.0.0.01/24", "10.0.0.0/99999999999999999999", "10.0.0.0/+24"}

var oddCIDRs = []string{"10.0.0.0/024", "10.0.0.0/00", "10.0.0.0/0000000032", "10.0.0.5/0", "255.255.255.255/32", "0.0.0.0/32",
	"10.0.0.7/31"}

var v6CIDRs = []string{"fd00::/64", "::ffff:10.0.0.0/120", "::/0", "::ffff:10.0.0.0/24", "fd00::1/128", "2001:db8::/32"}

var badVlans = []string{"-1", "65536", "1.5", "1e2", "4294967296", "-0", "0.0", "99999999999999999999", "1E0"}

// Mutate returns a mutated copy of a well-formed configuration together with the mutation's name.
// Kinds of DESIGN Appendix D: boundary / adjacent / out-of-order / out-of-subnet / missing fields / wrong JSON
// types / IPv6 literals / malformed texts / top-level shapes / key spelling / escapes.
func Mutate(r *rand.Rand, ps []*PoolSpec) (*J, string) {
	cp := make([]*PoolSpec, len(ps))
	for i, p := range ps {
		c := *p
		c.NS = append([]string(nil), p.NS...)
		c.IPs = append([]string(nil), p.IPs...)
		c.Ranges = append([][2]uint32(nil), p.Ranges...)
		cp[i] = &c
	}
	k := r.Intn(len(cp))
	p := cp[k]
	setField := func(key string, v *J) *J {
		d := ConfDoc(cp)
		d.A[k].Set(key, v)
		return d
	}
	wrongType := func() *J {
		return []*J{Num("5"), Bool(true), Str("x"), Arr(), Obj(), Arr(Num("1")), Obj().Set("a", Num("1")), Num("1.5"),
			Str(""), Arr(Arr()), Bool(false), Num("0")}[r.Intn(12)]
	}
	switch m := r.Intn(35); m {
	case 0: // adjacent (mergeable) ranges
		if len(p.Ranges) >= 1 && p.Ranges[0][1] < p.Hi {
			x := p.Ranges[0][1] + 1
			p.Ranges = [][2]uint32{p.Ranges[0], {x, x}}
			p.SyncIPs(r)
			return ConfDoc(cp), "adjacent"
		}
		return setField("ips", Arr(Str(IPStr(p.Lo)), Str(IPStr(p.Lo+1)))), "adjacent"
	case 1: // overlapping
		if len(p.Ranges) >= 1 {
			p.Ranges = [][2]uint32{p.Ranges[0], {p.Ranges[0][1], p.Ranges[0][1]}}
			p.SyncIPs(r)
		}
		return ConfDoc(cp), "overlap"
	case 2: // out of order
		if len(p.Ranges) >= 2 {
			p.Ranges[0], p.Ranges[1] = p.Ranges[1], p.Ranges[0]
			p.SyncIPs(r)
			return ConfDoc(cp), "out-of-order"
		}
		return setField("ips", Arr(Str(IPStr(p.Hi)), Str(IPStr(p.Lo)))), "out-of-order"
	case 3: // out of subnet (just outside, or far away)
		var x uint32
		switch r.Intn(3) {
		case 0:
			x = p.Hi + 1
		case 1:
			x = p.Lo - 1
		default:
			x = r.Uint32()
		}
		if r.Intn(2) == 0 && len(p.Ranges) > 0 { // range straddling the upper end
			last := p.Ranges[len(p.Ranges)-1]
			p.Ranges[len(p.Ranges)-1] = [2]uint32{last[0], p.Hi + 1}
			if p.Hi == 0xFFFFFFFF {
				p.Ranges[len(p.Ranges)-1] = [2]uint32{p.Lo - 1, last[1]}
			}
		} else {
			p.Ranges = append(p.Ranges, [2]uint32{x, x})
		}
		p.SyncIPs(r)
		return ConfDoc(cp), "out-of-subnet"
	case 4: // first > last
		a, b := p.Lo+uint32(r.Intn(int(p.Hi-p.Lo)+1)), p.Lo+uint32(r.Intn(int(p.Hi-p.Lo)+1))
		if a == b {
			b = a - 1
		}
		if a < b {
			a, b = b, a
		}
		return setField("ips", Arr(Str(IPStr(a)+"~"+IPStr(b)))), "first>last"
	case 5: // malformed range text
		a, b := IPStr(p.Lo), IPStr(p.Hi)
		t := []string{a + "~" + b + "~" + b, "~" + b, a + "~", a + " ~ " + b, a + "-" + b, a + "~~" + b, "~", a + "," + b,
			a + "~" + pick(r, badIPs), pick(r, badIPs) + "~" + b, a + "/" + "30", " " + a + "~" + b, a + "~" + b + " "}[r.Intn(13)]
		return setField("ips", Arr(Str(t))), "bad-range-text"
	case 6:
		return setField("gateway", Str(pick(r, badIPs))), "bad-gateway-text"
	case 7:
		return setField("ips", Arr(Str(pick(r, badIPs)))), "bad-ip-text"
	case 8:
		return setField("subnet", Str(pick(r, badCIDRs))), "bad-subnet-text"
	case 9:
		return setField("nodeSubnets", Arr(Str(pick(r, nsPalette)), Str(pick(r, badCIDRs)))), "bad-nodesubnet-text"
	case 10:
		d := setField("routableSubnet", Str(pick(r, badCIDRs)))
		return d, "bad-routablesubnet-text"
	case 11: // odd but valid CIDR spellings
		if r.Intn(2) == 0 {
			return setField("nodeSubnets", Arr(Str(pick(r, oddCIDRs)), Str(pick(r, oddCIDRs)))), "odd-cidr"
		}
		return setField("subnet", Str(fmt.Sprintf("%s/0%d", IPStr(p.Lo), p.PL))), "odd-cidr"
	case 12: // IPv6 literals
		switch r.Intn(5) {
		case 0:
			d := setField("gateway", Str(pick(r, v6IPs)))
			if r.Intn(2) == 0 { // without ranges nothing else can reject the pool
				d.A[k].Set("ips", Arr())
			}
			return d, "ipv6-gateway"
		case 1:
			return setField("ips", Arr(Str(pick(r, v6IPs)))), "ipv6-range"
		case 2:
			return setField("ips", Arr(Str("fd00::1~fd00::5"))), "ipv6-range"
		case 3:
			return setField("subnet", Str(pick(r, v6CIDRs))), "ipv6-subnet"
		default:
			return setField("nodeSubnets", Arr(Str(pick(r, v6CIDRs)))), "ipv6-nodesubnet"
		}
	case 13: // an all-IPv6 pool
		d := ConfDoc(cp)
		d.A[k] = Obj().Set("nodeSubnets", Arr(Str("10.0.0.0/8"))).Set("ips", Arr(Str("fd00::2~fd00::9"))).
			Set("subnet", Str("fd00::/64")).Set("gateway", Str("fd00::1"))
		return d, "ipv6-pool"
	case 14: // v4-mapped spelling of a valid pool (outside the model's text domain, accepted by the real decoder)
		d := ConfDoc(cp)
		d.A[k].Set("gateway", Str("::ffff:"+p.Gateway))
		return d, "v4mapped-gateway"
	case 15:
		return setField("vlan", Num(pick(r, badVlans))), "bad-vlan"
	case 16:
		return setField("vlan", wrongType()), "wrong-type-vlan"
	case 17: // missing field
		key := pick(r, fieldNames)
		d := ConfDoc(cp)
		d.A[k].Del(key)
		if key == "nodeSubnets" {
			d.A[k].Del("routableSubnet")
		}
		return d, "missing-" + key
	case 18: // wrong JSON type
		key := pick(r, fieldNames)
		return setField(key, wrongType()), "wrong-type-" + key
	case 19: // wrong type inside a list
		if r.Intn(2) == 0 {
			return setField("ips", Arr(Str(IPStr(p.Lo)), wrongType())), "wrong-type-ips-element"
		}
		return setField("nodeSubnets", Arr(Str("10.0.0.0/8"), wrongType())), "wrong-type-nodesubnets-element"
	case 20: // empty lists
		if r.Intn(2) == 0 {
			d := setField("nodeSubnets", Arr())
			d.A[k].Del("routableSubnet")
			return d, "empty-nodesubnets"
		}
		return setField("ips", Arr()), "empty-ips"
	case 21: // top-level shapes
		t := []*J{Null(), Obj(), Num("5"), Str("[]"), Arr(Null()), Arr(Num("5")), Arr(Str("x")), Arr(Arr()), Arr(),
			ConfDoc(cp).A[0], Arr(ConfDoc(cp).A[0], Null()), Arr(Null(), ConfDoc(cp).A[0]), Bool(true),
			Arr(ConfDoc(cp).A[0], Num("1"))}[r.Intn(14)]
		return t, "top-level-shape"
	case 22: // syntax errors
		s := ConfDoc(cp).Text()
		t := []string{s[:len(s)-1], s[:len(s)/2], s + "]", strings.Replace(s, ":", "=", 1), "", " ", "[,]", s + s,
			strings.Replace(s, `"`, `'`, 2), "[{\"vlan\":01}]", "[{\"gateway\":\"\\x\"}]"}[r.Intn(11)]
		return Raw(t), "json-syntax"
	case 23: // key spelling: ASCII case variants
		d := ConfDoc(cp)
		o := d.A[k]
		i := r.Intn(len(o.Keys))
		switch r.Intn(3) {
		case 0:
			o.Keys[i] = strings.ToUpper(o.Keys[i])
		case 1:
			o.Keys[i] = strings.ToLower(o.Keys[i])
		default:
			o.Keys[i] = strings.Title(o.Keys[i])
		}
		return d, "key-case"
	case 24: // unknown keys, including near misses
		d := ConfDoc(cp)
		d.A[k].Set([]string{"extra", "ip", "node_subnets", "Vlan ", "mask", "range"}[r.Intn(6)], wrongType())
		return d, "extra-key"
	case 25: // escapes: the same characters written with JSON escapes
		d := ConfDoc(cp)
		o := d.A[k]
		key := []string{"gateway", "subnet", "ips", "nodeSubnets"}[r.Intn(4)]
		esc := func(s string) string {
			s = strings.Replace(s, "/", `\/`, 1)
			if r.Intn(2) == 0 {
				s = strings.Replace(s, "1", `\u0031`, 1)
			}
			if !strings.Contains(s, `\`) {
				s = strings.Replace(s, ".", `\u002e`, 1)
			}
			return s
		}
		v := o.Get(key)
		if v != nil && v.K == 's' {
			v.Esc = esc(v.S)
		} else if v != nil && v.K == 'a' && len(v.A) > 0 {
			v.A[0].Esc = esc(v.A[0].S)
		}
		return d, "escapes-" + key
	case 26: // D8 pattern: a range ending at 255.255.255.255 followed by a lower one
		d := ConfDoc(cp)
		lowAddr := uint32(0xFFFFFF00 + 2 + r.Intn(200))
		d.A[k] = Obj().Set("nodeSubnets", Arr(Str(pick(r, nsPalette)))).
			Set("ips", Arr(Str(RangeStr(0xFFFFFFFF-uint32(r.Intn(5)), 0xFFFFFFFF)), Str(IPStr(lowAddr)))).
			Set("subnet", Str("255.255.255.0/24")).Set("gateway", Str("255.255.255.1"))
		return d, "wrap-255.255.255.255"
	case 27: // 0.0.0.0/0 pools (size does not fit 32 bits)
		d := ConfDoc(cp)
		ips := []*J{Str("0.0.0.0~255.255.255.255")}
		if r.Intn(2) == 0 {
			ips = []*J{Str("0.0.0.0~127.255.255.255"), Str("128.0.0.1~255.255.255.255")}
		}
		d.A[k] = Obj().Set("nodeSubnets", Arr(Str(pick(r, nsPalette)))).Set("ips", Arr(ips...)).
			Set("subnet", Str("0.0.0.0/0")).Set("gateway", Str(IPStr(r.Uint32())))
		return d, "subnet-0.0.0.0/0"
	case 28: // large subnets /1…/16
		d := ConfDoc(cp)
		pl := 1 + r.Intn(16)
		base := r.Uint32() &^ (uint32(0xFFFFFFFF) >> pl)
		hi := base | (uint32(0xFFFFFFFF) >> pl)
		d.A[k] = Obj().Set("nodeSubnets", Arr(Str(pick(r, nsPalette)))).
			Set("ips", Arr(Str(RangeStr(base, base+uint32(r.Intn(3)))), Str(RangeStr(hi-uint32(r.Intn(3)), hi)))).
			Set("subnet", Str(fmt.Sprintf("%s/%d", IPStr(base), pl))).Set("gateway", Str(IPStr(base+1)))
		return d, "large-subnet"
	case 29: // /31 and /32 pod subnets
		d := ConfDoc(cp)
		pl := 31 + r.Intn(2)
		base := r.Uint32() &^ (uint32(0xFFFFFFFF) >> pl)
		if r.Intn(3) == 0 {
			base = 0xFFFFFFFF &^ (uint32(0xFFFFFFFF) >> pl)
		}
		hi := base | uint32(uint64(0xFFFFFFFF)>>pl)
		d.A[k] = Obj().Set("nodeSubnets", Arr(Str(pick(r, nsPalette)))).Set("ips", Arr(Str(RangeStr(base, hi)))).
			Set("subnet", Str(fmt.Sprintf("%s/%d", IPStr(base), pl))).Set("gateway", Str(IPStr(base)))
		return d, "tiny-subnet"
	case 30: // null elements
		if r.Intn(2) == 0 {
			d := setField("nodeSubnets", Arr(Str("10.0.0.0/8"), Null()))
			if r.Intn(2) == 0 {
				d.A[k].Del("routableSubnet")
			}
			return d, "null-nodesubnet-element"
		}
		return setField("ips", Arr(Null())), "null-ips-element"
	case 31: // gateway outside its own subnet text (the address part of "subnet" is ignored: still fine)
		return setField("subnet", Str(fmt.Sprintf("%s/%d", IPStr(r.Uint32()), p.PL))), "subnet-address-ignored"
	case 32: // many pools (the real sort is not stable beyond 12 elements)
		var many []*PoolSpec
		for i := 0; i < 13+r.Intn(6); i++ {
			many = append(many, GenPool(r))
		}
		return ConfDoc(many), "many-pools"
	case 33: // the gateway lies outside the network written in "subnet" while the ranges lie inside it
		d := ConfDoc(cp)
		g := p.Lo ^ (uint32(1) << uint(8+r.Intn(16)))
		if r.Intn(3) == 0 {
			g = p.Hi + 1 + uint32(r.Intn(3))
		}
		d.A[k].Set("gateway", Str(IPStr(g)))
		d.A[k].Set("subnet", Str(fmt.Sprintf("%s/%d", IPStr(p.Lo), p.PL)))
		return d, "gateway-outside-subnet-text"
	default: // duplicate node subnets / both routableSubnet and nodeSubnets
		d := setField("nodeSubnets", Arr(Str("10.49.28.0/26"), Str("10.49.28.63/26"), Str("10.49.28.0/26"), Str("10.49.28.0/24")))
		return d, "duplicate-nodesubnets"
	}
}

func BadIPs() []string { return badIPs }
func V6IPs() []string  { return v6IPs }
func CIDRTexts() []string {
	var out []string
	out = append(out, badCIDRs...)
	out = append(out, oddCIDRs...)
	out = append(out, v6CIDRs...)
	out = append(out, nsPalette...)
	return out
}
