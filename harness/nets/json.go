// Package netsh: helpers of the C20 harness (work package "nets"): a tiny JSON tree with its own serializer
// (so that escapes, key case, key order and `null` positions are under the generator's control), the lowering of
// a JSON document to the RawPool line syntax of gxdrv_nets, generators, and the property monitors.
package netsh

import (
	"fmt"
	"strings"
)

// J is a JSON value. K: 'n' null, 't' true, 'f' false, 'd' number (S = its text), 's' string (S = value,
// Esc = optional explicit escaped form written between the quotes), 'a' array, 'o' object, 'r' raw text (S).
type J struct {
	K    byte
	S    string
	Esc  string
	A    []*J
	Keys []string
}

func Null() *J        { return &J{K: 'n'} }
func Num(s string) *J { return &J{K: 'd', S: s} }
func Str(s string) *J { return &J{K: 's', S: s} }
func Raw(s string) *J { return &J{K: 'r', S: s} }
func Bool(b bool) *J  { return &J{K: map[bool]byte{true: 't', false: 'f'}[b]} }
func Arr(a ...*J) *J  { return &J{K: 'a', A: a} }
func Obj() *J         { return &J{K: 'o'} }
func (j *J) Set(k string, v *J) *J {
	for i, kk := range j.Keys {
		if kk == k {
			j.A[i] = v
			return j
		}
	}
	j.Keys = append(j.Keys, k)
	j.A = append(j.A, v)
	return j
}
func (j *J) Get(k string) *J {
	for i, kk := range j.Keys {
		if kk == k {
			return j.A[i]
		}
	}
	return nil
}
func (j *J) Del(k string) {
	for i, kk := range j.Keys {
		if kk == k {
			j.Keys = append(j.Keys[:i:i], j.Keys[i+1:]...)
			j.A = append(j.A[:i:i], j.A[i+1:]...)
			return
		}
	}
}

func (j *J) Clone() *J {
	c := *j
	c.A = nil
	for _, x := range j.A {
		c.A = append(c.A, x.Clone())
	}
	c.Keys = append([]string(nil), j.Keys...)
	return &c
}

func quote(s string) string {
	var b strings.Builder
	b.WriteByte('"')
	for i := 0; i < len(s); i++ {
		c := s[i]
		switch {
		case c == '"':
			b.WriteString(`\"`)
		case c == '\\':
			b.WriteString(`\\`)
		case c < 0x20:
			fmt.Fprintf(&b, `\u%04x`, c)
		default:
			b.WriteByte(c)
		}
	}
	b.WriteByte('"')
	return b.String()
}

func (j *J) write(b *strings.Builder) {
	switch j.K {
	case 'n':
		b.WriteString("null")
	case 't':
		b.WriteString("true")
	case 'f':
		b.WriteString("false")
	case 'd', 'r':
		b.WriteString(j.S)
	case 's':
		if j.Esc != "" {
			b.WriteString(`"` + j.Esc + `"`)
		} else {
			b.WriteString(quote(j.S))
		}
	case 'a':
		b.WriteByte('[')
		for i, x := range j.A {
			if i > 0 {
				b.WriteByte(',')
			}
			x.write(b)
		}
		b.WriteByte(']')
	case 'o':
		b.WriteByte('{')
		for i, x := range j.A {
			if i > 0 {
				b.WriteByte(',')
			}
			b.WriteString(quote(j.Keys[i]))
			b.WriteByte(':')
			x.write(b)
		}
		b.WriteByte('}')
	}
}

func (j *J) Text() string {
	var b strings.Builder
	j.write(&b)
	return b.String()
}

// Positions returns pointers to every value slot of the document (the document itself first), in document order;
// a slot is replaced through *slot = newValue on a clone.
func positions(j **J, out *[]**J) {
	*out = append(*out, j)
	if (*j).K == 'a' || (*j).K == 'o' {
		for i := range (*j).A {
			positions(&(*j).A[i], out)
		}
	}
}

// NullInjections: every position of doc replaced by `null` in turn (systematic, DESIGN Appendix D).
func NullInjections(doc *J) []*J {
	var n []**J
	d := doc.Clone()
	positions(&d, &n)
	var res []*J
	for i := range n {
		c := doc.Clone()
		var ps []**J
		positions(&c, &ps)
		if (*ps[i]).K == 'n' {
			continue
		}
		if i == 0 {
			res = append(res, Null())
			continue
		}
		*ps[i] = Null()
		res = append(res, c)
	}
	return res
}
