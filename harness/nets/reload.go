package netsh

import (
	"errors"
	"flag"
	"fmt"
	"io/ioutil"
	"reflect"
	"sort"

	extensionClient "k8s.io/apiextensions-apiserver/pkg/client/clientset/clientset/fake"
	"k8s.io/apimachinery/pkg/runtime"
	"k8s.io/client-go/dynamic/fake"
	kubefake "k8s.io/client-go/kubernetes/fake"
	k8stesting "k8s.io/client-go/testing"
	"k8s.io/klog"
	"tkestack.io/galaxy/pkg/api/galaxy/constant"
	fakeGalaxyCli "tkestack.io/galaxy/pkg/ipam/client/clientset/versioned/fake"
	"tkestack.io/galaxy/pkg/ipam/context"
	"tkestack.io/galaxy/pkg/ipam/floatingip"
	"tkestack.io/galaxy/pkg/ipam/schedulerplugin"
)

// Reloader drives the real FloatingIPPlugin.ensureIPAMConf on a fresh plugin (fake clientsets, informers not
// started: ConfigurePool only lists the store through the clientset).
type Reloader struct {
	P    *schedulerplugin.FloatingIPPlugin
	Last string
	// FailList makes the store's list of FloatingIP objects fail (the one apiserver call of ConfigurePool), so
	// that ensureIPAMConf sees a ConfigurePool error for an otherwise acceptable configuration.
	FailList bool
}

// FailPrefix in front of a reload text means: apply this text while the store list fails.
const FailPrefix = "!store-fails!"

// QuietLogs sends klog's output (the plugin logs every reload) to nowhere.
func QuietLogs() {
	fs := flag.NewFlagSet("klog", flag.ContinueOnError)
	klog.InitFlags(fs)
	fs.Set("logtostderr", "false")
	fs.Set("alsologtostderr", "false")
	fs.Set("stderrthreshold", "FATAL")
	klog.SetOutput(ioutil.Discard)
}

func NewReloader() (*Reloader, error) {
	gcli := fakeGalaxyCli.NewSimpleClientset()
	ctx := context.NewIPAMContext(kubefake.NewSimpleClientset(), gcli,
		extensionClient.NewSimpleClientset(), fake.NewSimpleDynamicClient(runtime.NewScheme()))
	p, err := schedulerplugin.NewFloatingIPPlugin(schedulerplugin.Conf{}, ctx)
	if err != nil {
		return nil, err
	}
	r := &Reloader{P: p}
	// the reactor only reads a flag: it never calls back into the clientset (which would deadlock the fake)
	gcli.PrependReactor("list", "floatingips", func(k8stesting.Action) (bool, runtime.Object, error) {
		if r.FailList {
			return true, nil, errors.New("injected: store list failed")
		}
		return false, nil, nil
	})
	return r, nil
}

// Snapshot of what the IPAM serves.
type Snapshot struct {
	Last      string
	Pools     []*floatingip.FloatingIPPool
	PoolStr   []string
	Unalloc   []string
	Allocated []string
}

func (r *Reloader) Snap() Snapshot {
	pools, un, al, _ := floatingip.VerifNetsState(r.P.VerifNetsIPAM())
	s := Snapshot{Last: r.Last, Pools: pools, Unalloc: un, Allocated: al}
	for _, p := range pools {
		c, _ := CanonPool(p)
		s.PoolStr = append(s.PoolStr, c)
	}
	return s
}

func (a Snapshot) Same(b Snapshot) string {
	if a.Last != b.Last {
		return "lastConf changed"
	}
	if len(a.Pools) != len(b.Pools) {
		return fmt.Sprintf("number of pools %d -> %d", len(a.Pools), len(b.Pools))
	}
	for i := range a.Pools {
		if a.Pools[i] != b.Pools[i] {
			return fmt.Sprintf("pool object %d replaced", i)
		}
	}
	if !reflect.DeepEqual(a.PoolStr, b.PoolStr) {
		return "pool contents changed"
	}
	if !reflect.DeepEqual(a.Unalloc, b.Unalloc) {
		return "unallocated addresses changed"
	}
	if !reflect.DeepEqual(a.Allocated, b.Allocated) {
		return "allocated addresses changed"
	}
	return ""
}

// Step applies one reload. outcome: unchanged | rejected | configured | panic… | hang.
func (r *Reloader) Step(text string, vs *[]V) (outcome string) {
	var updated bool
	var err error
	if !guardV("ensureIPAMConf", vs, func() { updated, err = r.P.VerifNetsEnsureIPAMConf(&r.Last, text) }) {
		return "crash"
	}
	switch {
	case err != nil:
		return "rejected"
	case updated:
		return "configured"
	}
	return "unchanged"
}

// AllocateOne marks the first unallocated address as allocated (so that "untouched" covers allocations too).
func (r *Reloader) AllocateOne() {
	_, un, _, _ := floatingip.VerifNetsState(r.P.VerifNetsIPAM())
	if len(un) == 0 {
		return
	}
	ip := ParseIPMust(un[0])
	r.P.VerifNetsIPAM().AllocateSpecificIP("verif_pod", ip, floatingip.Attr{Policy: constant.ReleasePolicyPodDelete})
}

// ExpectedAddresses: the sorted distinct address strings of a pool list (nil if too many to enumerate).
func ExpectedAddresses(pools []*floatingip.FloatingIPPool) []string {
	set := map[string]bool{}
	total := uint64(0)
	for _, p := range pools {
		for _, r := range p.IPRanges {
			f, ok1 := U32(r.First)
			l, ok2 := U32(r.Last)
			if !ok1 || !ok2 || f > l {
				return nil
			}
			total += uint64(l) - uint64(f) + 1
			if total > MaxEnum {
				return nil
			}
			for x := uint64(f); x <= uint64(l); x++ {
				set[IP4(uint32(x)).String()] = true
			}
		}
	}
	out := make([]string, 0, len(set))
	for k := range set {
		out = append(out, k)
	}
	sort.Strings(out)
	return out
}

// RetryAfterStoreFailure is the scripted history "reload A; reload B while the store list fails (k times); reload B
// again with a working store": the failed attempts must change nothing and the last one must configure B.
func RetryAfterStoreFailure(a, b string, k int) (vs []V) {
	rl, err := NewReloader()
	if err != nil {
		return []V{{Sig: "harness:plugin-construction", What: err.Error()}}
	}
	if o := rl.Step(a, &vs); o != "configured" {
		return vs // not a usable pair of configurations
	}
	rl.AllocateOne()
	for i := 0; i < k; i++ {
		before := rl.Snap()
		rl.FailList = true
		o := rl.Step(b, &vs)
		rl.FailList = false
		if o != "rejected" {
			vs = append(vs, V{Sig: "reload:store-failure-not-reported", What: fmt.Sprintf("attempt %d answered %s", i, o)})
		}
		if d := before.Same(rl.Snap()); d != "" {
			vs = append(vs, V{Sig: "reload:failed-reload-changed-state", What: fmt.Sprintf("attempt %d (%s): %s", i, o, d)})
		}
	}
	o := rl.Step(b, &vs)
	after := rl.Snap()
	if o != "configured" {
		vs = append(vs, V{Sig: "reload:not-retried-after-store-failure",
			What: fmt.Sprintf("after %d failed attempts the same text answered %q; the IPAM still serves the old configuration", k, o)})
		return vs
	}
	if pools, dec := DecodeConf(b); dec == "ok" {
		if want := ExpectedAddresses(pools); want != nil {
			got := append(append([]string(nil), after.Unalloc...), after.Allocated...)
			sort.Strings(got)
			if fmt.Sprint(got) != fmt.Sprint(want) && !(len(got) == 0 && len(want) == 0) {
				vs = append(vs, V{Sig: "reload:deconfigured-address-still-served",
					What: fmt.Sprintf("IPAM serves %d addresses, the new configuration holds %d", len(got), len(want))})
			}
		}
	}
	return vs
}
