// Package hx is the shared plumbing of the correspondence harness:
// one PRNG, the line protocol to the Lean driver, the JSON report every
// property sub-command prints, panic/timeout guards.
package hx

import (
	"bytes"
	"encoding/json"
	"flag"
	"fmt"
	"hash/fnv"
	"math/rand"
	"os"
	"os/exec"
	"sort"
	"strings"
	"time"
)

// Report is what a property sub-command prints on stdout (one JSON object).
type Report struct {
	Property    string                 `json:"property"`
	Tier        string                 `json:"tier"`
	Seed        int64                  `json:"seed"`
	Evaluations int                    `json:"evaluations"`
	Nontrivial  int                    `json:"distinct_nontrivial"`
	Rule        string                 `json:"rule"`
	Samples     []interface{}          `json:"samples"`
	Histogram   map[string]int         `json:"histogram"`
	Traces      int                    `json:"traces_validated_against_impl"`
	Disagree    []Disagreement         `json:"disagreements"`
	Violations  []Violation            `json:"violations"`
	Extra       map[string]interface{} `json:"extra,omitempty"`
	Exhaustive  bool                   `json:"exhaustive,omitempty"`
	distinct    map[uint64]bool
}

// Disagreement: model and implementation answered differently.
type Disagreement struct {
	Where  string   `json:"where"` // correspondence point (model / op kind)
	Index  int      `json:"index"` // op index in the history
	Impl   string   `json:"impl"`
	Model  string   `json:"model"`
	Replay string   `json:"replay"` // path of the ops file written
	Ops    []string `json:"ops,omitempty"`
}

// Violation: the property's own monitor failed on the real code.
type Violation struct {
	Signature string   `json:"signature"` // stable id of the kind of failure (for known_findings)
	What      string   `json:"what"`
	Replay    string   `json:"replay"`
	Ops       []string `json:"ops,omitempty"`
}

func NewReport(prop, tier string, seed int64, rule string) *Report {
	return &Report{Property: prop, Tier: tier, Seed: seed, Rule: rule,
		Histogram: map[string]int{}, distinct: map[uint64]bool{}, Extra: map[string]interface{}{}}
}

func (r *Report) Hit(k string) { r.Histogram[k]++ }

// Case records one evaluated case; nontrivial cases are counted once per distinct content.
func (r *Report) Case(content string, nontrivial bool) {
	r.Evaluations++
	if nontrivial {
		h := fnv.New64a()
		h.Write([]byte(content))
		k := h.Sum64()
		if !r.distinct[k] {
			r.distinct[k] = true
			r.Nontrivial++
		}
	}
}

func (r *Report) Sample(s interface{}) {
	if len(r.Samples) < 5 {
		r.Samples = append(r.Samples, s)
	}
}

func (r *Report) Emit() {
	if r.Samples == nil {
		r.Samples = []interface{}{}
	}
	if r.Disagree == nil {
		r.Disagree = []Disagreement{}
	}
	if r.Violations == nil {
		r.Violations = []Violation{}
	}
	b, _ := json.Marshal(r)
	fmt.Println(string(b))
}

// Env is the common invocation context.
type Env struct {
	Tier   string
	Seed   int64
	Driver string // directory holding the gxdrv_<model> executables
	Out    string // directory for replay files
	Rng    *rand.Rand
	Replay string // if set: replay this file only
}

func (e *Env) Thorough() bool { return e.Tier == "thorough" }

// N picks the case budget for the tier.
func (e *Env) N(quick, thorough int) int {
	if e.Thorough() {
		return thorough
	}
	return quick
}

// WriteReplay writes an ops file and returns its path.
func (e *Env) WriteReplay(prop, kind, name string, header []string, ops []string) string {
	os.MkdirAll(e.Out, 0o755)
	p := fmt.Sprintf("%s/%s-%s.ops", e.Out, prop, name)
	var b bytes.Buffer
	fmt.Fprintf(&b, "# property=%s\n# seed=%d\n# kind=%s\n", prop, e.Seed, kind)
	for _, h := range header {
		fmt.Fprintf(&b, "# %s\n", h)
	}
	for _, o := range ops {
		b.WriteString(o)
		b.WriteByte('\n')
	}
	os.WriteFile(p, b.Bytes(), 0o644)
	return p
}

// RunDriver pipes lines to the Lean driver `gxdrv_<model>` and returns its output lines (one per input line).
func (e *Env) RunDriver(model string, lines []string, args ...string) ([]string, error) {
	if len(lines) == 0 {
		return nil, nil
	}
	cmd := exec.Command(e.Driver+"/gxdrv_"+model, args...)
	cmd.Stdin = strings.NewReader(strings.Join(lines, "\n") + "\n")
	var out, errb bytes.Buffer
	cmd.Stdout = &out
	cmd.Stderr = &errb
	if err := cmd.Run(); err != nil {
		return nil, fmt.Errorf("gxdrv_%s: %v: %s", model, err, errb.String())
	}
	res := strings.Split(strings.TrimRight(out.String(), "\n"), "\n")
	if len(res) != len(lines) {
		return res, fmt.Errorf("gxdrv_%s: %d input lines, %d output lines", model, len(lines), len(res))
	}
	return res, nil
}

// Guard runs f with panic recovery and a timeout; outcome is "ok", "panic: ..." or "hang".
func Guard(timeout time.Duration, f func()) (outcome string) {
	done := make(chan string, 1)
	go func() {
		defer func() {
			if r := recover(); r != nil {
				done <- fmt.Sprintf("panic: %v", r)
			}
		}()
		f()
		done <- "ok"
	}()
	select {
	case o := <-done:
		return o
	case <-time.After(timeout):
		return "hang"
	}
}

// SortedKeys returns the sorted keys of a string-keyed map.
func SortedKeys[V any](m map[string]V) []string {
	ks := make([]string, 0, len(m))
	for k := range m {
		ks = append(ks, k)
	}
	sort.Strings(ks)
	return ks
}

// ReadOps reads a replay file, dropping comment lines.
func ReadOps(path string) ([]string, error) {
	b, err := os.ReadFile(path)
	if err != nil {
		return nil, err
	}
	var ops []string
	for _, l := range strings.Split(string(b), "\n") {
		if l == "" || strings.HasPrefix(l, "#") {
			continue
		}
		ops = append(ops, l)
	}
	return ops, nil
}

// Main is the entry point of every per-property harness command.
func Main(id string, f func(e *Env) *Report) {
	fs := flag.NewFlagSet(id, flag.ExitOnError)
	tier := fs.String("tier", "quick", "quick|thorough")
	seed := fs.Int64("seed", 1, "PRNG seed (VERIF_SEED)")
	driver := fs.String("driverdir", "/verif/lean/.lake/build/bin", "directory of the gxdrv_<model> executables")
	out := fs.String("out", "/verif/out/replay", "directory for replay files")
	replay := fs.String("replay", "", "replay this ops file only")
	fs.Parse(os.Args[1:])
	e := &Env{Tier: *tier, Seed: *seed, Driver: *driver, Out: *out, Replay: *replay,
		Rng: rand.New(rand.NewSource(*seed))}
	r := f(e)
	r.Emit()
}
