package pluginc07

import (
	"fmt"
	"math/rand"
	"sort"
	"strings"

	corev1 "k8s.io/api/core/v1"
	"tkestack.io/galaxy/pkg/ipam/schedulerplugin/util"

	"gxverif/plugin"
)

// C10Params tunes the C10 history generator.
type C10Params struct {
	Len       int
	PFaultPct int // % of plugin ops with a failing provider call
	FaultPct  int // % of plugin ops with a failing apiserver call
	MultiPct  int // % of histories with a pod requesting two ranges (two addresses under one key)
	RebindPct int // % chance that a failed / finished bind is repeated on ANOTHER approved node (DESIGN D14)
}

var c10nodes = []plugin.Node{{Name: "n1", IP: 0x0a090105}, {Name: "n2", IP: 0x0a090106}, {Name: "n3", IP: 0x0a090107}, {Name: "n4", IP: 0x0a090205}}

// C10Conf: provider on; 1-2 pools whose addresses are routable from the subnet the nodes n1..n3 share (so a pod can
// move between three nodes with its address), n4 sits in a second subnet that only some pools serve.
func C10Conf(rng *rand.Rand) plugin.Conf {
	c := plugin.Conf{Nodes: c10nodes, Provider: true}
	np := 1 + rng.Intn(2)
	for i := 0; i < np; i++ {
		base := uint32(0x0a000000) | uint32(10+i)<<16
		p := plugin.Pool{Gateway: base | 1, Bits: 24, NodeSubnets: []plugin.Subnet{{Base: 0x0a090100, Bits: 24}}}
		if rng.Intn(3) == 0 {
			p.NodeSubnets = append(p.NodeSubnets, plugin.Subnet{Base: 0x0a090200, Bits: 24})
		}
		n := 1 + rng.Intn(4)
		p.Ranges = [][2]uint32{{base | 2, base | uint32(1+n)}}
		c.Pools = append(c.Pools, p)
	}
	return c
}

type c10id struct {
	ns, name, kind, app string
	policy              int
	ranges              string
}

// C10Gen proposes the next op of a history of pods moving between nodes with the cloud provider on.
type C10Gen struct {
	rng      *rand.Rand
	p        C10Params
	conf     plugin.Conf
	ids      []c10id
	intent   string
	lastBind []string // ns, name, node of the bind issued last (for retries)
	needSync bool
	delayed  map[string]bool
	prelude  []string
}

func NewC10Gen(rng *rand.Rand, conf plugin.Conf, p C10Params) *C10Gen {
	g := &C10Gen{rng: rng, p: p, conf: conf, delayed: map[string]bool{}}
	pol := func() int { return []int{0, 1, 2}[rng.Intn(3)] }
	sp, dp := pol(), pol()
	cand := []c10id{
		{"ns1", "a-0", "sts", "a", sp, "-"},
		{"ns1", "a-1", "sts", "a", sp, "-"},
		{"ns1", "d-x1", "dp", "d", dp, "-"},
		{"ns1", "d-x2", "dp", "d", dp, "-"},
		{"ns1", "solo-0", "bare", "", pol(), "-"},
		{"ns1", "job", "bare", "", 0, "-"},
	}
	rng.Shuffle(len(cand), func(i, j int) { cand[i], cand[j] = cand[j], cand[i] })
	g.ids = cand[:1+rng.Intn(3)]
	if rng.Intn(100) < p.MultiPct {
		var all []uint32
		for _, pl := range conf.Pools {
			for _, r := range pl.Ranges {
				for ip := r[0]; ip <= r[1]; ip++ {
					all = append(all, ip)
				}
			}
		}
		if len(all) >= 2 {
			a, b := all[0], all[len(all)-1]
			g.ids = append(g.ids, c10id{"ns1", "m-0", "sts", "m", pol(), fmt.Sprintf("%d-%d;%d-%d", a, a, b, b)})
		}
	}
	g.prelude = []string{fmt.Sprintf("app scale sts ns1 a %d", rng.Intn(3)), fmt.Sprintf("app scale dp ns1 d %d", rng.Intn(3)),
		fmt.Sprintf("app scale sts ns1 m %d", rng.Intn(2)), "sync all"}
	return g
}

// noMultiKey: no key owns more than one address (then the order of provider calls inside loops over a key's addresses
// - a Go map dump - is determined, and a failing call index means the same on both sides).
func noMultiKey(w *plugin.World) bool {
	seen := map[string]int{}
	for _, r := range w.IPAMDump() {
		if !r.Free {
			seen[r.Key]++
			if seen[r.Key] > 1 {
				return false
			}
		}
	}
	return true
}

func (g *C10Gen) pfault(max int) int {
	if g.rng.Intn(100) < g.p.PFaultPct {
		return 1 + g.rng.Intn(max)
	}
	return 0
}

// afault: an apiserver fault index (single fault per op), only while no key owns two addresses
func (g *C10Gen) afault(w *plugin.World, max int) int {
	if g.p.FaultPct > 0 && g.rng.Intn(100) < g.p.FaultPct && noMultiKey(w) {
		return 1 + g.rng.Intn(max)
	}
	return 0
}

func (g *C10Gen) bind(w *plugin.World, ns, name, node string) string {
	tp := w.TruthPod(ns, name)
	lp := w.ListerPod(ns, name)
	if lp == nil || tp == nil || lp.UID != tp.UID {
		return "sync pods"
	}
	g.lastBind = []string{ns, name, node}
	return fmt.Sprintf("bind %s %s %s %s ? ? %d %d", ns, name, uidNum(tp), node, g.afault(w, 3), g.pfault(2))
}

// Next proposes the next op line.
func (g *C10Gen) Next(w *plugin.World, step int) string {
	if len(g.prelude) > 0 {
		l := g.prelude[0]
		g.prelude = g.prelude[1:]
		return l
	}
	rng := g.rng
	// a filter is followed by the bind on a node it approved
	if g.intent != "" {
		id := g.intent
		g.intent = ""
		x := strings.SplitN(id, "/", 2)
		if r := w.LastOp.Result; w.LastOp.Kind == "filter" && strings.HasPrefix(r, "ok nodes=") && r != "ok nodes=-" && rng.Intn(100) < 90 {
			approved := strings.Split(strings.TrimPrefix(r, "ok nodes="), ",")
			return g.bind(w, x[0], x[1], approved[rng.Intn(len(approved))])
		}
	}
	// a bind that failed is retried by the scheduler: mostly on the same node, sometimes on another one of the subnet
	if w.LastOp.Kind == "bind" && strings.HasPrefix(w.LastOp.Result, "err") && g.lastBind != nil && rng.Intn(100) < 70 {
		node := g.lastBind[2]
		if rng.Intn(100) < g.p.RebindPct {
			node = []string{"n1", "n2", "n3"}[rng.Intn(3)]
		}
		return g.bind(w, g.lastBind[0], g.lastBind[1], node)
	}
	if g.needSync && rng.Intn(100) < 65 {
		g.needSync = false
		return "sync all"
	}
	truth := map[string]*corev1.Pod{}
	for _, p := range w.TruthPods() {
		truth[p.Namespace+"/"+p.Name] = p
	}
	var opts []wopt
	add := func(wt float64, f func() string) { opts = append(opts, wopt{wt, f}) }
	for _, id := range g.ids {
		id := id
		key := id.ns + "/" + id.name
		p := truth[key]
		if p == nil {
			add(5, func() string {
				g.needSync = true
				return fmt.Sprintf("pod create %s %s %s %s ~ %d %s 1", id.ns, id.name, id.kind, tilde(id.app), id.policy, id.ranges)
			})
			continue
		}
		bound := len(plugin.HandedIPs(p)) > 0
		if !bound && !plugin.Finished(p) {
			add(9, func() string {
				if lp := w.ListerPod(id.ns, id.name); lp == nil || lp.UID != p.UID {
					return "sync pods"
				}
				g.intent = key
				return fmt.Sprintf("filter %s %s n1,n2,n3,n4 ? ? %d", id.ns, id.name, g.afault(w, 2))
			})
		}
		if bound {
			if p.Status.Phase != corev1.PodRunning && !plugin.Finished(p) {
				add(1.5, func() string { g.needSync = true; return fmt.Sprintf("pod run %s %s", id.ns, id.name) })
			}
			if rng.Intn(100) < g.p.RebindPct {
				add(0.6, func() string { return g.bind(w, id.ns, id.name, []string{"n1", "n2", "n3"}[rng.Intn(3)]) })
			}
		}
		wt := 1.0
		if bound {
			wt = 4
		}
		add(wt, func() string { g.needSync = true; return fmt.Sprintf("pod delete %s %s", id.ns, id.name) })
		if !plugin.Finished(p) {
			add(wt/3, func() string { g.needSync = true; return fmt.Sprintf("pod finish %s %s", id.ns, id.name) })
		}
	}
	for i, e := range w.Events {
		i := i
		uid := string(e.Pod.UID)
		if _, seen := g.delayed[uid]; !seen {
			g.delayed[uid] = rng.Intn(100) < 35 // old-pod events AFTER the new pod's binding
		}
		wt := 6.0
		if g.delayed[uid] {
			wt = 0.7
		}
		add(wt, func() string {
			pf := 0
			if noMultiKey(w) {
				pf = g.pfault(2)
			}
			return fmt.Sprintf("deliver %d %d %d", i, g.afault(w, 3), pf)
		})
		add(0.2, func() string { return fmt.Sprintf("drop %d", i) })
	}
	add(3, func() string { g.needSync = false; return "sync all" })
	add(0.5, func() string { return "sync pods" })
	add(2.5, func() string {
		pf := 0
		if noMultiKey(w) {
			pf = g.pfault(2)
		}
		return fmt.Sprintf("resync ? %d %d", g.afault(w, 3), pf)
	})
	// the resync pass split into its snapshot and its per-record iterations: other moves happen in between
	add(0.7, func() string { return "resyncsnap" })
	if len(w.Snap) > 0 {
		var ips []uint32
		for ip := range w.Snap {
			ips = append(ips, ip)
		}
		sort.Slice(ips, func(i, j int) bool { return ips[i] < ips[j] })
		add(2.0, func() string {
			pf := 0
			if noMultiKey(w) {
				pf = g.pfault(2)
			}
			return fmt.Sprintf("resyncrec %d %d %d", ips[rng.Intn(len(ips))], g.afault(w, 3), pf)
		})
	}
	add(1.2, func() string { return g.release(w) })
	add(0.3, func() string { g.needSync = false; return "restart" })
	add(0.6, func() string { return "syncips 0" })
	add(0.8, func() string {
		g.needSync = true
		return fmt.Sprintf("app scale %s ns1 %s %d", []string{"sts", "dp", "sts"}[rng.Intn(3)], []string{"a", "d", "m"}[rng.Intn(3)], rng.Intn(3))
	})
	add(0.3, func() string { g.needSync = true; return "app delete sts ns1 a" })
	total := 0.0
	for _, o := range opts {
		total += o.w
	}
	x := rng.Float64() * total
	for _, o := range opts {
		if x < o.w {
			if l := o.line(); l != "" {
				return l
			}
			return "sync all"
		}
		x -= o.w
	}
	return "sync all"
}

func (g *C10Gen) release(w *plugin.World) string {
	dump := w.IPAMDump()
	if len(dump) == 0 {
		return ""
	}
	r := dump[g.rng.Intn(len(dump))]
	if r.Free {
		return fmt.Sprintf("release %d sts_ ns1 a a-0 ~ 0 0", r.IP)
	}
	k := util.ParseKey(r.Key)
	return fmt.Sprintf("release %d %s %s %s %s %s %d %d", r.IP, tilde(k.AppTypePrefix), tilde(k.Namespace), tilde(k.AppName),
		tilde(k.PodName), tilde(k.PoolName), g.afault(w, 3), g.pfault(1))
}

// C10Histories is the generator handed to RunHistoriesWith.
func C10Histories(p C10Params) Generator {
	return func(rng *rand.Rand) (plugin.Conf, plugin.Script, int) {
		conf := C10Conf(rng)
		g := NewC10Gen(rng, conf, p)
		return conf, g.Next, p.Len
	}
}
