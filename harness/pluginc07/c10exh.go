package pluginc07

import (
	"fmt"
	"math/rand"
	"strings"
	"sync"
	"time"

	"gxverif/hx"
	"gxverif/plugin"
)

// ExhaustiveC10 explores, breadth first, every state the real plugin reaches within `depth` moves over a small
// alphabet: ONE pod identity (statefulset pod a-0, policy never, any number of incarnations), TWO nodes of one subnet,
// two addresses, provider on; moves: create, delete, finish, run, lister sync, schedule on n1 / on n2 (filter + bind),
// schedule on n1 with a failing AssignIP, deliver / drop the oldest event, deliver with a failing UnAssignIP, resync
// with and without a failing UnAssignIP, API release of the first address.  States are identified by digest + informer
// views: every distinct reachable state is expanded once.  The monitor runs after every op of every expansion and all
// expansion paths of a level go through gxdrv_plugin in one batch.  A path that ends in a violation is not expanded.
func ExhaustiveC10(e *hx.Env, r *hx.Report, prop string, mon plugin.Monitor, depth int, budgetSec int) {
	conf := plugin.Conf{Provider: true,
		Pools: []plugin.Pool{{NodeSubnets: []plugin.Subnet{{Base: 0x0a090100, Bits: 24}}, Ranges: [][2]uint32{{0x0a0a0002, 0x0a0a0003}},
			Gateway: 0x0a0a0001, Bits: 24}},
		Nodes: []plugin.Node{{Name: "n1", IP: 0x0a090105}, {Name: "n2", IP: 0x0a090106}}}
	prelude := []string{"app scale sts ns1 a 1", "sync all"}
	alphabet := [][]string{
		{"pod create ns1 a-0 sts a ~ 2 - 1"},
		{"pod delete ns1 a-0"},
		{"pod finish ns1 a-0"},
		{"pod run ns1 a-0"},
		{"sync all"},
		{"filter ns1 a-0 n1,n2 ? ? 0", "bind ns1 a-0 @ n1 ? ? 0 0"},
		{"filter ns1 a-0 n1,n2 ? ? 0", "bind ns1 a-0 @ n2 ? ? 0 0"},
		{"filter ns1 a-0 n1,n2 ? ? 0", "bind ns1 a-0 @ n1 ? ? 0 1"},
		{"deliver 0 0 0"},
		{"deliver 0 0 1"},
		{"drop 0"},
		{"resync ? 0 0"},
		{"resync ? 0 1"},
		{"release 168427522 sts_ ns1 a a-0 ~ 0 0"},
	}
	deadline := time.Now().Add(time.Duration(budgetSec) * time.Second)
	type result struct {
		t   *plugin.Transcript
		key string
		err error
	}
	expand := func(path []int) result {
		var ops []string
		ops = append(ops, prelude...)
		for _, a := range path {
			ops = append(ops, alphabet[a]...)
		}
		script := func(w *plugin.World, step int) string {
			if step >= len(ops) {
				return ""
			}
			l := ops[step]
			if strings.Contains(l, " @ ") {
				uid := "0"
				if tp := w.TruthPod("ns1", "a-0"); tp != nil {
					uid = uidNum(tp)
				}
				l = strings.Replace(l, " @ ", " "+uid+" ", 1)
			}
			return l
		}
		t, w, err := plugin.Execute(conf, rand.New(rand.NewSource(1)), script, mon, len(ops)+1)
		if err != nil {
			return result{err: err}
		}
		return result{t: t, key: w.Digest() + "#" + w.ViewDigest()}
	}
	seen := map[string]bool{}
	frontier := [][]int{{}}
	states, paths, completed := 0, 0, 0
	known := map[string]bool{}
	for d := 0; d <= depth && len(frontier) > 0 && time.Now().Before(deadline); d++ {
		results := make([]result, len(frontier))
		var wg sync.WaitGroup
		sem := make(chan struct{}, 256) // sleep-bound: a Bind answered Conflict sits out the 3 s retry loop of the real code
		for i := range frontier {
			wg.Add(1)
			sem <- struct{}{}
			go func(i int) {
				defer wg.Done()
				defer func() { <-sem }()
				results[i] = expand(frontier[i])
			}(i)
		}
		wg.Wait()
		var ts []*plugin.Transcript
		var idx []int
		for i, res := range results {
			if res.err != nil {
				r.Disagree = append(r.Disagree, hx.Disagreement{Where: "harness-error", Impl: res.err.Error()})
				continue
			}
			ts = append(ts, res.t)
			idx = append(idx, i)
		}
		ds, err := compareAll(e, ts, CoreDriver)
		if err != nil {
			r.Disagree = append(r.Disagree, hx.Disagreement{Where: "harness-error", Impl: err.Error()})
			ds = make([]*hx.Disagreement, len(ts))
		}
		var next [][]int
		for k, t := range ts {
			i := idx[k]
			paths++
			r.Traces++
			r.Case(strings.Join(t.Ops, "\n"), len(frontier[i]) >= 2)
			for s, v := range t.Stats {
				r.Histogram["exh:"+s] += v
			}
			if ds[k] != nil {
				dd := *ds[k]
				dd.Ops = t.Ops
				dd.Replay = e.WriteReplay(prop, "history", fmt.Sprintf("exh-disagree-%d-%d", d, i),
					[]string{"where=" + dd.Where, "impl=" + dd.Impl, "model=" + dd.Model}, t.Ops)
				r.Disagree = append(r.Disagree, dd)
			}
			if t.Hang != "" {
				p := e.WriteReplay(prop, "history", fmt.Sprintf("exh-hang-%d-%d", d, i), []string{"outcome=" + t.Hang}, t.Ops)
				r.Violations = append(r.Violations, hx.Violation{Signature: "op-" + strings.Fields(t.Hang)[0], What: t.Hang, Replay: p})
				continue
			}
			if len(t.Violations) > 0 {
				for _, v := range t.Violations {
					if known[v.Signature] {
						continue // one replay per kind of failure
					}
					known[v.Signature] = true
					v.Replay = e.WriteReplay(prop, "history", fmt.Sprintf("exh-viol-%s", sanitize(v.Signature)),
						[]string{"signature=" + v.Signature, "what=" + v.What}, v.Ops)
					r.Violations = append(r.Violations, v)
				}
				continue
			}
			if seen[results[i].key] {
				continue
			}
			seen[results[i].key] = true
			states++
			if d < depth {
				for a := range alphabet {
					next = append(next, append(append([]int(nil), frontier[i]...), a))
				}
			}
		}
		completed = d
		frontier = next
	}
	r.Extra["exhaustive_states"] = states
	r.Extra["exhaustive_paths"] = paths
	r.Extra["exhaustive_depth_completed"] = completed
	r.Extra["exhaustive_scope"] = "1 pod identity (any incarnations), 2 nodes of one subnet, 2 addresses, 14-move alphabet"
}
