// Package pluginc07 extends the plugin harness (gxverif/plugin, owned by the work package "plugin", used read-only)
// with what property C07 needs: the pool API op `apipool` executed through the REAL PoolController handlers
// (wired like pkg/ipam/server does: LockPoolFunc = plugin.LockDpPool, IPAM = plugin.GetIpam()), the C07 monitor, a
// generator of pool-sharing deployment histories, the runner of the C07 driver extension (Lean interpreter on
// Galaxy/Drv/PluginC07.lean) and real two-goroutine schedules (free-running and forced).
package pluginc07

import (
	"bytes"
	"context"
	"encoding/json"
	"fmt"
	"net/http"
	"net/http/httptest"
	"sort"
	"strconv"
	"strings"
	"time"

	restful "github.com/emicklei/go-restful"
	metav1 "k8s.io/apimachinery/pkg/apis/meta/v1"
	"tkestack.io/galaxy/pkg/ipam/api"
	"tkestack.io/galaxy/pkg/ipam/floatingip"
	"tkestack.io/galaxy/pkg/ipam/schedulerplugin/util"

	"gxverif/hx"
	"gxverif/plugin"
)

const opTimeout = 20 * time.Second

// Controller builds the pool controller the way pkg/ipam/server/server.go does (factgen c07 checks that wiring).
func Controller(w *plugin.World, ipam floatingip.IPAM) *api.PoolController {
	if ipam == nil {
		ipam = w.Plugin.GetIpam()
	}
	return &api.PoolController{Client: w.Galaxy, LockPoolFunc: w.Plugin.LockDpPool, IPAM: ipam}
}

// PoolReply is the answer of POST /v1/pool.
type PoolReply struct {
	Status int
	Real   int
}

// PostPool sends one create-or-update request to the real handler.
func PostPool(c *api.PoolController, name string, size int, pre bool) (PoolReply, string) {
	body, _ := json.Marshal(api.Pool{Name: name, Size: size, PreAllocateIP: pre})
	req := httptest.NewRequest(http.MethodPost, "/v1/pool", bytes.NewReader(body))
	req.Header.Set("Content-Type", "application/json")
	rec := httptest.NewRecorder()
	resp := restful.NewResponse(rec)
	resp.SetRequestAccepts("application/json")
	o := hx.Guard(opTimeout, func() { c.CreateOrUpdate(restful.NewRequest(req), resp) })
	var out api.UpdatePoolResp
	json.Unmarshal(rec.Body.Bytes(), &out)
	st := rec.Code
	if st == 0 {
		st = 200
	}
	return PoolReply{Status: st, Real: out.RealPoolSize}, o
}

func untilde(s string) string {
	if s == "~" {
		return ""
	}
	return s
}

func atoiDef(s string) int { n, _ := strconv.Atoi(s); return n }

// freeBySubnet: free addresses of the real IPAM with the node subnets of their pool.
func freeBySubnet(w *plugin.World) map[uint32][]string {
	out := map[uint32][]string{}
	for _, r := range w.IPAMDump() {
		if r.Free {
			out[r.IP] = r.Subnets
		}
	}
	return out
}

func has(l []string, x string) bool {
	for _, y := range l {
		if y == x {
			return true
		}
	}
	return false
}

// simulate is a transcription of the Lean `preLoop` (and of the Go loop in preAllocateIP): does walking the subnets
// in `order` explain the observed picks?  lastFailed: the last pick's store create failed (the loop stopped there).
func simulate(free map[uint32][]string, order []string, need int, picks []uint32, lastFailed bool) bool {
	fr := map[uint32][]string{}
	for k, v := range free {
		fr[k] = v
	}
	j, p := 0, 0
	for i := 0; i < need; {
		for j < len(order) {
			any := false
			for _, subs := range fr {
				if has(subs, order[j]) {
					any = true
					break
				}
			}
			if any {
				break
			}
			j++
		}
		if j == len(order) {
			return p == len(picks)
		}
		if p == len(picks) {
			return false
		}
		subs, ok := fr[picks[p]]
		if !ok || !has(subs, order[j]) {
			return false
		}
		p++
		if lastFailed && p == len(picks) {
			return true
		}
		delete(fr, picks[p-1])
		i++
	}
	return p == len(picks)
}

func permutations(l []string) [][]string {
	if len(l) <= 1 {
		return [][]string{append([]string(nil), l...)}
	}
	var out [][]string
	for i := range l {
		rest := append(append([]string(nil), l[:i]...), l[i+1:]...)
		for _, p := range permutations(rest) {
			out = append(out, append([]string{l[i]}, p...))
		}
	}
	return out
}

// subnetTok renders "a.b.c.d/n" as the op-line token base@bits.
func subnetTok(s string) string {
	x := strings.Split(s, "/")
	if len(x) != 2 {
		return "0@0"
	}
	ip, _ := plugin.ParseIPv4(x[0])
	return fmt.Sprintf("%d@%s", ip, x[1])
}

// PoolCount counts the records of the real IPAM under the prefix pool__<name>_.
func PoolCount(w *plugin.World, name string) int {
	n := 0
	for _, r := range w.IPAMDump() {
		if !r.Free && strings.HasPrefix(r.Key, "pool__"+name+"_") {
			n++
		}
	}
	return n
}

// Apply executes one op line: `apipool <name> <size> <pre> <order> <picks> <fault>` against the real pool API
// handler, everything else through the plugin harness.  Choices written `?` are replaced by the observed ones.
func Apply(w *plugin.World, line string) (final, result string) {
	f := strings.Fields(line)
	if len(f) == 9 && f[0] == "release" && f[1] == "?" {
		// `release ? <key fields> …`: the (lowest) address currently stored under that key - lets a committed history name
		// an address the real IPAM picked at random
		k := util.NewKeyObj(untilde(f[2]), untilde(f[3]), untilde(f[4]), untilde(f[5]), untilde(f[6]))
		for _, r := range w.IPAMDump() {
			if !r.Free && r.Key == k.KeyInDB {
				f[1] = strconv.FormatUint(uint64(r.IP), 10)
				break
			}
		}
		if f[1] == "?" {
			f[1] = "0"
		}
		return w.Apply(strings.Join(f, " "))
	}
	if len(f) != 7 || f[0] != "apipool" {
		return w.Apply(line)
	}
	name, size, pre := f[1], atoiDef(f[2]), f[3] == "1"
	if name == "~" {
		name = ""
	}
	plogBefore := len(w.Prov.Log)
	free := freeBySubnet(w)
	have := PoolCount(w, name)
	w.Cnt.Reset(atoiDef(f[6]))
	w.Prov.Reset(0)
	rep, o := PostPool(Controller(w, nil), name, size, pre)
	defer func() {
		w.LastOp = plugin.OpInfo{Kind: "apipool", Line: final, Result: result, PlogBefore: plogBefore}
	}()
	if o != "ok" {
		return line, o
	}
	var picks []uint32
	lastFailed := false
	for _, c := range w.Cnt.Calls() {
		if c.Resource == "floatingips" && c.Verb == "create" {
			ip, _ := plugin.ParseIPv4(c.Name)
			picks = append(picks, ip)
			lastFailed = c.Failed
		}
	}
	var ptoks []string
	for _, ip := range picks {
		ptoks = append(ptoks, strconv.FormatUint(uint64(ip), 10))
	}
	f[5] = "-"
	if len(ptoks) > 0 {
		f[5] = strings.Join(ptoks, ",")
	}
	f[4] = "-"
	if pre && size > have {
		set := map[string]bool{}
		for _, subs := range free {
			for _, s := range subs {
				set[s] = true
			}
		}
		var all []string
		for s := range set {
			all = append(all, s)
		}
		sort.Strings(all)
		if len(all) > 0 {
			chosen := all
			for _, p := range permutations(all) {
				if simulate(free, p, size-have, picks, lastFailed) {
					chosen = p
					break
				}
			}
			var toks []string
			for _, s := range chosen {
				toks = append(toks, subnetTok(s))
			}
			f[4] = strings.Join(toks, ",")
		}
	}
	final = strings.Join(f, " ")
	switch {
	case rep.Status == 200 && pre:
		return final, "ok real=" + strconv.Itoa(rep.Real)
	case rep.Status == 200:
		return final, "ok"
	case rep.Status == 202:
		return final, "accepted real=" + strconv.Itoa(rep.Real)
	case rep.Status == 400:
		return final, "err bad-input"
	}
	return final, "err other"
}

// TruthPoolSize returns the size of the Pool object of API truth.
func TruthPoolSize(w *plugin.World, name string) (int, bool) {
	p, err := w.Galaxy.GalaxyV1alpha1().Pools("kube-system").Get(context.TODO(), name, metav1.GetOptions{})
	if err != nil {
		return 0, false
	}
	return p.Size, true
}

// ListerPoolSize returns the size the plugin's Pool lister shows (parsed from the view digest of the world).
func ListerPoolSize(w *plugin.World, name string) (int, bool) {
	v := w.ViewDigest()
	i := strings.IndexByte(v, '#')
	if i < 0 {
		return 0, false
	}
	for _, e := range strings.Split(v[i+1:], ";") {
		if strings.HasPrefix(e, "pool/"+name+"=") {
			return atoiDef(strings.TrimPrefix(e, "pool/"+name+"=")), true
		}
	}
	return 0, false
}
