package pluginc07

import (
	"fmt"
	"math/rand"
	"strconv"
	"strings"
	"sync"
	"time"

	corev1 "k8s.io/api/core/v1"
	metav1 "k8s.io/apimachinery/pkg/apis/meta/v1"
	"tkestack.io/galaxy/pkg/ipam/floatingip"

	"gxverif/hx"
	"gxverif/plugin"
)

// ---- REAL concurrency: goroutines running Filter and the pool API against one plugin ----

const poolPrefixP1 = "pool__p1_"

// gate parks one goroutine right after its count (IPAM.ByPrefix of the pool prefix) - i.e. between count and
// allocation - until released (bounded wait).
type gate struct {
	mu      sync.Mutex
	armed   string // side to park next: "filter" | "api" | ""
	parked  chan struct{}
	release chan struct{}
}

func newGate() *gate { return &gate{parked: make(chan struct{}), release: make(chan struct{})} }

func (g *gate) arm(side string) { g.mu.Lock(); g.armed = side; g.mu.Unlock() }

func (g *gate) maybePark(side, prefix string) {
	if prefix != poolPrefixP1 {
		return
	}
	g.mu.Lock()
	hit := g.armed == side
	if hit {
		g.armed = ""
	}
	g.mu.Unlock()
	if !hit {
		return
	}
	close(g.parked)
	select {
	case <-g.release:
	case <-time.After(3 * time.Second):
	}
}

// parkIPAM is a decorator around the IPAM interface (not a clientset reactor: those run under the fake's lock).
type parkIPAM struct {
	floatingip.IPAM
	g    *gate
	side string
}

func (p *parkIPAM) ByPrefix(prefix string) ([]*floatingip.FloatingIPInfo, error) {
	r, err := p.IPAM.ByPrefix(prefix)
	p.g.maybePark(p.side, prefix)
	return r, err
}

// Schedule is one forced two-goroutine schedule: `First` is parked between its count and its allocation, then
// `Second` is started; with correct locking it blocks until First is released.
type Schedule struct {
	Size    int    // size of Pool p1 in the plugin's lister (what filters read)
	APISize int    // size the API request carries
	Prefill int    // pool members before the race
	Reserve bool   // prefill by pre-allocation (unused members under the bare prefix) instead of by filters
	First   string // "filter" | "api"
	Second  string // "filter" | "api"
}

func (s Schedule) Line() string {
	return fmt.Sprintf("schedule size=%d apisize=%d prefill=%d reserve=%s first=%s second=%s", s.Size, s.APISize, s.Prefill,
		map[bool]string{true: "1", false: "0"}[s.Reserve], s.First, s.Second)
}

func ParseSchedule(line string) (Schedule, error) {
	var s Schedule
	f := strings.Fields(line)
	if len(f) == 0 || f[0] != "schedule" {
		return s, fmt.Errorf("not a schedule line: %q", line)
	}
	for _, kv := range f[1:] {
		x := strings.SplitN(kv, "=", 2)
		if len(x) != 2 {
			return s, fmt.Errorf("bad field %q", kv)
		}
		switch x[0] {
		case "size":
			s.Size, _ = strconv.Atoi(x[1])
		case "apisize":
			s.APISize, _ = strconv.Atoi(x[1])
		case "prefill":
			s.Prefill, _ = strconv.Atoi(x[1])
		case "reserve":
			s.Reserve = x[1] == "1"
		case "first":
			s.First = x[1]
		case "second":
			s.Second = x[1]
		}
	}
	return s, nil
}

func concConf() plugin.Conf {
	return plugin.Conf{Nodes: []plugin.Node{{Name: "n1", IP: 0x0a090105}},
		Pools: []plugin.Pool{{NodeSubnets: []plugin.Subnet{{Base: 0x0a090100, Bits: 24}},
			Ranges: [][2]uint32{{0x0a0a0002, 0x0a0a0009}}, Gateway: 0x0a0a0001, Bits: 24}}}
}

// concWorld: 3 deployments x 4 pending pods sharing pool p1 (Pool object of the given size, in API truth and in the
// lister), `prefill` members already in the pool.
func concWorld(size, prefill int, reserve bool) (*plugin.World, []string, error) {
	w, err := plugin.NewWorld(concConf(), rand.New(rand.NewSource(1)))
	if err != nil {
		return nil, nil, err
	}
	var pods []string
	for d := 1; d <= 3; d++ {
		Apply(w, fmt.Sprintf("app scale dp ns1 d%d 4", d))
		for i := 1; i <= 4; i++ {
			name := fmt.Sprintf("d%d-x%d", d, i)
			Apply(w, fmt.Sprintf("pod create ns1 %s dp d%d p1 0 - 1", name, d))
			pods = append(pods, name)
		}
	}
	if reserve {
		Apply(w, fmt.Sprintf("apipool p1 %d 1 ? ? 0", prefill))
		Apply(w, fmt.Sprintf("apipool p1 %d 0 ? ? 0", size))
		Apply(w, "sync all")
	} else {
		Apply(w, fmt.Sprintf("apipool p1 %d 0 ? ? 0", prefill))
		Apply(w, "sync all")
		for i := 0; i < prefill; i++ { // members in use: filters of the first pods (sized pool: allocation during filter)
			Apply(w, fmt.Sprintf("filter ns1 %s n1 ? ? 0", pods[0]))
			pods = pods[1:]
		}
		Apply(w, fmt.Sprintf("apipool p1 %d 0 ? ? 0", size))
		Apply(w, "sync all")
	}
	if got := PoolCount(w, "p1"); got != prefill {
		return nil, nil, fmt.Errorf("schedule set-up: pool holds %d members, wanted %d", got, prefill)
	}
	return w, pods, nil
}

// ScheduleResult of one forced schedule.
type ScheduleResult struct {
	Parked        bool // First reached its count and was parked
	SecondBlocked bool // Second had not finished when the waiting window ended
	Final         int  // pool members at the end
	Bound         int
	Hang          bool
}

// RunSchedule executes one forced schedule against the real plugin.
func RunSchedule(sc Schedule, window time.Duration) (ScheduleResult, error) {
	var res ScheduleResult
	w, pods, err := concWorld(sc.Size, sc.Prefill, sc.Reserve)
	if err != nil {
		return res, err
	}
	g := newGate()
	raw := w.Plugin.GetIpam()
	w.Plugin.VerifC07WrapIPAM(func(i floatingip.IPAM) floatingip.IPAM { return &parkIPAM{i, g, "filter"} })
	ctl := Controller(w, &parkIPAM{raw, g, "api"})
	next := 0
	side := func(kind string) func() {
		if kind == "api" {
			return func() { PostPool(ctl, "p1", sc.APISize, true) }
		}
		pod := w.TruthPod("ns1", pods[next])
		next++
		nodes := []string{"n1"}
		return func() {
			hx.Guard(opTimeout, func() { w.Plugin.Filter(pod, nodeObjs(nodes)) })
		}
	}
	a, b := side(sc.First), side(sc.Second)
	g.arm(sc.First)
	doneA, doneB := make(chan struct{}), make(chan struct{})
	go func() { a(); close(doneA) }()
	select {
	case <-g.parked:
		res.Parked = true
	case <-doneA: // First never counted (e.g. refused before the count)
	case <-time.After(3 * time.Second):
	}
	go func() { b(); close(doneB) }()
	select {
	case <-doneB:
	case <-time.After(window):
		res.SecondBlocked = true
	}
	close(g.release)
	for _, d := range []chan struct{}{doneA, doneB} {
		select {
		case <-d:
		case <-time.After(10 * time.Second):
			res.Hang = true
		}
	}
	res.Final = PoolCount(w, "p1")
	res.Bound = sc.Prefill
	sizes := []int{}
	if sc.First == "filter" || sc.Second == "filter" {
		sizes = append(sizes, sc.Size)
	}
	if sc.First == "api" || sc.Second == "api" {
		sizes = append(sizes, sc.APISize)
	}
	for _, z := range sizes {
		res.Bound = max(res.Bound, z)
	}
	return res, nil
}

func nodeObjs(names []string) []corev1.Node {
	var out []corev1.Node
	for _, n := range names {
		for _, c := range concConf().Nodes {
			if c.Name == n {
				out = append(out, corev1.Node{ObjectMeta: metav1.ObjectMeta{Name: n}, Status: corev1.NodeStatus{
					Addresses: []corev1.NodeAddress{{Type: corev1.NodeInternalIP, Address: plugin.IPStr(c.IP)}}}})
			}
		}
	}
	return out
}

// checkSchedule turns a result into violations.
func checkSchedule(sc Schedule, res ScheduleResult) []hx.Violation {
	var out []hx.Violation
	if res.Hang {
		out = append(out, hx.Violation{Signature: "pool-lock-hang:forced-schedule-" + sc.First + "-parked-" + sc.Second,
			What: "a goroutine of " + sc.Line() + " did not return within 10 s"})
	}
	if res.Final > res.Bound {
		out = append(out, hx.Violation{Signature: SigExceedPrefix + "forced-schedule-" + sc.First + "-parked-" + sc.Second,
			What: fmt.Sprintf("%s: pool p1 holds %d addresses, bound max(members before, sizes in force) = %d (second side blocked while first was parked: %v)",
				sc.Line(), res.Final, res.Bound, res.SecondBlocked)})
	}
	return out
}

// RunSchedules runs n forced schedules (the fixed grid first, then random ones) and reports into r.
func RunSchedules(e *hx.Env, r *hx.Report, prop string, n int) {
	var list []Schedule
	for _, fs := range [][2]string{{"filter", "api"}, {"api", "filter"}, {"filter", "filter"}, {"api", "api"}} {
		list = append(list, Schedule{Size: 2, APISize: 2, Prefill: 1, First: fs[0], Second: fs[1]})
	}
	list = append(list, Schedule{Size: 3, APISize: 3, Prefill: 2, Reserve: true, First: "api", Second: "filter"},
		Schedule{Size: 1, APISize: 1, Prefill: 0, First: "filter", Second: "api"})
	sides := []string{"filter", "api"}
	for len(list) < n {
		z := 1 + e.Rng.Intn(4)
		sc := Schedule{Size: z, APISize: z, Prefill: e.Rng.Intn(z + 1), Reserve: e.Rng.Intn(4) == 0,
			First: sides[e.Rng.Intn(2)], Second: sides[e.Rng.Intn(2)]}
		if e.Rng.Intn(5) == 0 {
			sc.APISize = e.Rng.Intn(z + 1)
		}
		list = append(list, sc)
	}
	list = list[:n]
	results := make([]ScheduleResult, len(list))
	errs := make([]error, len(list))
	var wg sync.WaitGroup
	sem := make(chan struct{}, 16)
	for i := range list {
		wg.Add(1)
		sem <- struct{}{}
		go func(i int) {
			defer wg.Done()
			defer func() { <-sem }()
			results[i], errs[i] = RunSchedule(list[i], 120*time.Millisecond)
		}(i)
	}
	wg.Wait()
	for i, sc := range list {
		if errs[i] != nil {
			r.Disagree = append(r.Disagree, hx.Disagreement{Where: "harness-error", Impl: errs[i].Error()})
			continue
		}
		res := results[i]
		r.Case(sc.Line(), true)
		k := "sched:" + sc.First + "-parked-then-" + sc.Second
		r.Hit(k)
		if res.Parked {
			r.Hit(k + ":parked")
		}
		if res.SecondBlocked {
			r.Hit(k + ":second-blocked")
		} else {
			r.Hit(k + ":second-ran")
		}
		for _, v := range checkSchedule(sc, res) {
			v.Replay = e.WriteReplay(prop, "schedule", fmt.Sprintf("sched-%d", i), []string{"signature=" + v.Signature, "what=" + v.What},
				[]string{sc.Line()})
			v.Ops = []string{sc.Line()}
			r.Violations = append(r.Violations, v)
		}
	}
	r.Extra["forced_schedules"] = len(list)
}

// RunScheduleFile replays a schedule file (`schedule …` or `stress …` lines).
func RunScheduleFile(e *hx.Env, r *hx.Report, path string, ops []string) {
	for _, l := range ops {
		if strings.HasPrefix(l, "stress ") {
			f := strings.Fields(l)
			size, seed := 2, int64(1)
			for _, kv := range f[1:] {
				if strings.HasPrefix(kv, "size=") {
					size, _ = strconv.Atoi(kv[5:])
				}
				if strings.HasPrefix(kv, "seed=") {
					seed, _ = strconv.ParseInt(kv[5:], 10, 64)
				}
			}
			for i := 0; i < 20; i++ { // free-running races are not deterministic: try a few times
				if v := stressOnce(size, seed+int64(i)); v != nil {
					v.Replay = path
					r.Violations = append(r.Violations, *v)
					break
				}
			}
			r.Case(l, true)
			continue
		}
		sc, err := ParseSchedule(l)
		if err != nil {
			r.Disagree = append(r.Disagree, hx.Disagreement{Where: "replay-unreadable", Impl: err.Error(), Replay: path})
			continue
		}
		res, err := RunSchedule(sc, 150*time.Millisecond)
		if err != nil {
			r.Disagree = append(r.Disagree, hx.Disagreement{Where: "replay-failed", Impl: err.Error(), Replay: path})
			continue
		}
		r.Case(l, true)
		for _, v := range checkSchedule(sc, res) {
			v.Replay = path
			r.Violations = append(r.Violations, v)
		}
	}
}

// stressOnce: all 12 pods are filtered by their own goroutines while pool API requests with pre-allocation run.
func stressOnce(size int, seed int64) *hx.Violation {
	rng := rand.New(rand.NewSource(seed))
	prefill := 0
	if size > 0 {
		prefill = rng.Intn(size + 1)
	}
	w, pods, err := concWorld(size, prefill, rng.Intn(2) == 0)
	if err != nil {
		return &hx.Violation{Signature: "harness-error", What: err.Error()}
	}
	ctl := Controller(w, nil)
	var wg sync.WaitGroup
	start := make(chan struct{})
	for _, name := range pods {
		pod := w.TruthPod("ns1", name)
		wg.Add(1)
		go func() {
			defer wg.Done()
			<-start
			hx.Guard(opTimeout, func() { w.Plugin.Filter(pod, nodeObjs([]string{"n1"})) })
		}()
	}
	for i := 0; i < 3; i++ {
		z := size
		if rng.Intn(3) == 0 && size > 0 {
			z = rng.Intn(size + 1)
		}
		wg.Add(1)
		go func() {
			defer wg.Done()
			<-start
			PostPool(ctl, "p1", z, true)
		}()
	}
	close(start)
	done := make(chan struct{})
	go func() { wg.Wait(); close(done) }()
	select {
	case <-done:
	case <-time.After(30 * time.Second):
		return &hx.Violation{Signature: "pool-lock-hang:stress", What: fmt.Sprintf("stress size=%d seed=%d did not finish within 30 s", size, seed)}
	}
	final := PoolCount(w, "p1")
	if final > max(prefill, size) {
		return &hx.Violation{Signature: SigExceedPrefix + "concurrent-filters-and-prealloc",
			What: fmt.Sprintf("stress size=%d seed=%d: 12 concurrent filters + 3 pre-allocating pool requests left %d addresses in pool p1 (members before %d)",
				size, seed, final, prefill)}
	}
	return nil
}

// RunStress runs n free-running races.
func RunStress(e *hx.Env, r *hx.Report, prop string, n int) {
	type job struct {
		size int
		seed int64
	}
	jobs := make([]job, n)
	for i := range jobs {
		jobs[i] = job{e.Rng.Intn(5), e.Rng.Int63()}
	}
	viols := make([]*hx.Violation, n)
	var wg sync.WaitGroup
	sem := make(chan struct{}, 8)
	for i := range jobs {
		wg.Add(1)
		sem <- struct{}{}
		go func(i int) {
			defer wg.Done()
			defer func() { <-sem }()
			viols[i] = stressOnce(jobs[i].size, jobs[i].seed)
		}(i)
	}
	wg.Wait()
	for i, v := range viols {
		line := fmt.Sprintf("stress size=%d seed=%d", jobs[i].size, jobs[i].seed)
		r.Case(line, true)
		r.Hit(fmt.Sprintf("stress:size=%d", jobs[i].size))
		if v != nil {
			v.Replay = e.WriteReplay(prop, "schedule", fmt.Sprintf("stress-%d", i), []string{"signature=" + v.Signature, "what=" + v.What}, []string{line})
			v.Ops = []string{line}
			r.Violations = append(r.Violations, *v)
		}
	}
	r.Extra["stress_runs"] = n
}
