-- Runs the C07 driver extension (Galaxy/Drv/PluginC07.lean) in the Lean interpreter: op lines from $GX_IN, one
-- answer line per op line to $GX_OUT.  Invoked by harness/pluginc07 as `lean run7.lean` with LEAN_PATH pointing at
-- /verif/lean/.lake/build/lib/lean (the module itself is compiled by `lake build Galaxy.Drv.PluginC07`).
import Galaxy.Drv.PluginC07
#eval Galaxy.Drv.PluginC07Drv.runFiles
