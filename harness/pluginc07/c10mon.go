package pluginc07

import (
	"fmt"
	"os"
	"sort"
	"strings"

	"tkestack.io/galaxy/pkg/ipam/schedulerplugin/util"

	"gxverif/hx"
	"gxverif/plugin"
)

// Signatures of the C10 monitor.
const (
	SigAssignElsewhere = "assign-while-assigned-elsewhere"
	SigD14             = "rebind-other-node-without-unassign" // known finding (DESIGN D14)
	SigBoundNotAssign  = "bound-pod-ip-not-assigned"
	SigFreedAssigned   = "freed-or-rekeyed-while-assigned"
	SigLostNode        = "stored-node-lost:assign-ok-updateattr-failed" // known finding
	SigMultiIP         = "freed-or-rekeyed-while-assigned:multi-ip-key" // known finding
)

type c10state struct {
	prov map[uint32]string         // provider state replayed from the REAL call log through the per-IP state machine
	seen int                       // calls of the log already replayed
	dump map[uint32]plugin.IPAMRec // allocated records at the end of the previous step
}

// MonitorC10 is the oracle of property C10, written from the property statement.  It replays the real call log of the
// recording provider through the per-IP state machine (unassigned | assigned(node)):
//   - an AssignIP(ip, n) request must find ip unassigned or assigned to n (also when the request then fails);
//   - after every step every address in the binding annotation of a live bound pod is assigned to the pod's node;
//   - an address whose record was released or whose key changed during the step is unassigned after the step.
func MonitorC10(w *plugin.World, step int) []hx.Violation {
	st, _ := w.Mon["c10"].(*c10state)
	if st == nil {
		st = &c10state{prov: map[uint32]string{}, dump: map[uint32]plugin.IPAMRec{}}
		w.Mon["c10"] = st
	}
	var out []hx.Violation
	kind := w.LastOp.Kind
	f := strings.Fields(w.LastOp.Line)
	if !w.Conf.Provider {
		return nil
	}
	// ---- the per-IP state machine over the new requests
	for _, c := range w.Prov.Log[st.seen:] {
		if c.Assign {
			if cur, ok := st.prov[c.IP]; ok && cur != c.Node {
				sig := SigAssignElsewhere + ":by=" + kind
				// DESIGN D14: the same incarnation is bound again on another node (scheduler retry after a bind that
				// had already assigned): the stored record carries this pod's uid and the old node
				if kind == "bind" && len(f) >= 3 {
					if lp := w.ListerPod(f[1], f[2]); lp != nil {
						if r, had := st.dump[c.IP]; had && r.UID == string(lp.UID) {
							sig = SigD14
						}
					}
				}
				out = append(out, hx.Violation{Signature: sig,
					What: fmt.Sprintf("step %d (%s): AssignIP(%s, %s) was sent while the provider has the address assigned to %s",
						step, w.LastOp.Line, c.Node, plugin.IPStr(c.IP), cur)})
			}
			if c.OK {
				st.prov[c.IP] = c.Node
			}
		} else if c.OK {
			delete(st.prov, c.IP)
		}
	}
	st.seen = len(w.Prov.Log)
	// ---- bound live pods
	d14 := map[uint32]bool{}
	for _, v := range out {
		if v.Signature == SigD14 {
			for ip := range st.prov {
				d14[ip] = true // the step already failed through D14: what follows from it is not reported twice
			}
		}
	}
	for _, lp := range w.LiveBound() {
		for _, ip := range lp.IPs {
			if w.Voided[string(lp.Pod.UID)+"/"+fmt.Sprint(ip)] || d14[ip] {
				continue
			}
			if cur, ok := st.prov[ip]; !ok || cur != lp.Pod.Spec.NodeName {
				out = append(out, hx.Violation{Signature: SigBoundNotAssign + ":by=" + kind,
					What: fmt.Sprintf("step %d (%s): ip %s of live bound pod %s/%s (node %s) is assigned to %q in the provider",
						step, w.LastOp.Line, plugin.IPStr(ip), lp.Pod.Namespace, lp.Pod.Name, lp.Pod.Spec.NodeName, cur)})
			}
		}
	}
	// ---- released / re-keyed records
	now := map[uint32]plugin.IPAMRec{}
	for _, r := range w.IPAMDump() {
		if !r.Free {
			now[r.IP] = r
		}
	}
	var ips []uint32
	for ip := range st.dump {
		ips = append(ips, ip)
	}
	sort.Slice(ips, func(i, j int) bool { return ips[i] < ips[j] })
	for _, ip := range ips {
		old := st.dump[ip]
		cur, still := now[ip]
		if still && cur.Key == old.Key {
			continue
		}
		if node, assigned := st.prov[ip]; assigned {
			how := "released"
			if still {
				how = "re-keyed to " + cur.Key
			}
			sig := SigFreedAssigned + ":by=" + kind
			if k := util.ParseKey(old.Key); k != nil && k.PodName != "" && len(ownedBefore(st.dump, old.Key)) > 1 {
				// a second genuine defect: resync / API release unassign ONE address, then clear or release every
				// address of the key (known finding)
				sig = SigMultiIP
			}
			out = append(out, hx.Violation{Signature: sig,
				What: fmt.Sprintf("step %d (%s): ip %s (key %s) was %s while the provider still has it assigned to %s",
					step, w.LastOp.Line, plugin.IPStr(ip), old.Key, how, node)})
		}
	}
	// ---- "stored node name per IP = where the provider has the IP assigned" (the mechanism the property names): a
	// record that forgot its node while the provider still has the address assigned is the root of a later
	// free-while-assigned / assign-elsewhere; report it where it happens
	if len(out) == 0 && os.Getenv("GXH_C10_NOROOT") == "" { // (the switch lets a developer watch the consequences of a root cause)
		var cur []uint32
		for ip := range now {
			cur = append(cur, ip)
		}
		sort.Slice(cur, func(i, j int) bool { return cur[i] < cur[j] })
		for _, ip := range cur {
			node, assigned := st.prov[ip]
			if !assigned || now[ip].Node == node {
				continue
			}
			sig := "stored-node-differs-from-provider:by=" + kind
			if kind == "bind" && len(f) >= 9 && f[7] != "0" {
				// AssignIP succeeded, then an apiserver call of UpdateAttr failed: the record keeps its old node
				sig = SigLostNode
			}
			if k := util.ParseKey(now[ip].Key); k != nil && k.PodName != "" && (len(ownedBefore(st.dump, now[ip].Key)) > 1 || len(ownedBefore(now, now[ip].Key)) > 1) {
				sig = SigMultiIP
			}
			out = append(out, hx.Violation{Signature: sig,
				What: fmt.Sprintf("step %d (%s): the provider has ip %s assigned to %s but its record (key %s) names node %q",
					step, w.LastOp.Line, plugin.IPStr(ip), node, now[ip].Key, now[ip].Node)})
		}
	}
	st.dump = now
	return out
}

func ownedBefore(dump map[uint32]plugin.IPAMRec, key string) []uint32 {
	var out []uint32
	for ip, r := range dump {
		if r.Key == key {
			out = append(out, ip)
		}
	}
	return out
}
