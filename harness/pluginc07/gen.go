package pluginc07

import (
	"fmt"
	"math/rand"
	"strings"

	corev1 "k8s.io/api/core/v1"
	"tkestack.io/galaxy/pkg/api/galaxy/constant"
	"tkestack.io/galaxy/pkg/ipam/schedulerplugin/util"

	"gxverif/plugin"
)

var subnets = []plugin.Subnet{{Base: 0x0a090100, Bits: 24}, {Base: 0x0a090200, Bits: 24}, {Base: 0x0a090300, Bits: 26}}
var nodes = []plugin.Node{{Name: "n1", IP: 0x0a090105}, {Name: "n2", IP: 0x0a090205}, {Name: "n3", IP: 0x0a090305}, {Name: "n4", IP: 0x0a080004}}

// GenConf: 1-2 floating-ip pools with 3-8 addresses in total, node subnets from a palette (one, two, or all three
// subnets per pool, so that the pre-allocation walk over several subnets occurs), 4 nodes (one without subnet).
func GenConf(rng *rand.Rand) plugin.Conf {
	c := plugin.Conf{Nodes: nodes}
	np := 1 + rng.Intn(2)
	for i := 0; i < np; i++ {
		base := uint32(0x0a000000) | uint32(10+i)<<16
		p := plugin.Pool{Gateway: base | 1, Bits: 24, Vlan: []int{0, 2}[rng.Intn(2)]}
		k := 1 + rng.Intn(3)
		if np == 2 {
			k = 1 + rng.Intn(2)
		}
		for j, x := range rng.Perm(len(subnets)) {
			if j < k {
				p.NodeSubnets = append(p.NodeSubnets, subnets[x])
			}
		}
		total := 2 + rng.Intn(5)
		if np == 2 {
			total = 1 + rng.Intn(4)
		}
		next := uint32(2)
		for total > 0 {
			sz := 1 + rng.Intn(3)
			if sz > total {
				sz = total
			}
			p.Ranges = append(p.Ranges, [2]uint32{base | next, base | (next + uint32(sz) - 1)})
			next += uint32(sz) + 1
			total -= sz
		}
		c.Pools = append(c.Pools, p)
	}
	return c
}

type ident struct{ ns, name, app, pool, kind string }

// Gen proposes the next op of a history in which up to 3 deployments x up to 4 pods share the sized pool p1.
type Gen struct {
	rng      *rand.Rand
	conf     plugin.Conf
	ids      []ident
	intent   string
	needSync bool
	prelude  []string
	rogue    int // percent of binds issued although the pod's filter did not see the Pool object / did not approve
	faults   int // percent of apipool / filter ops with a store fault
	filtered map[string]filterInfo
}

func NewGen(rng *rand.Rand, conf plugin.Conf) *Gen {
	g := &Gen{rng: rng, conf: conf, rogue: 4, faults: 6, filtered: map[string]filterInfo{}}
	nd := 1 + rng.Intn(3)
	for d := 1; d <= nd; d++ {
		pool := "p1"
		if nd > 1 && rng.Intn(100) < 12 {
			pool = []string{"", "p2"}[rng.Intn(2)]
		}
		np := 1 + rng.Intn(4)
		for i := 1; i <= np; i++ {
			g.ids = append(g.ids, ident{"ns1", fmt.Sprintf("d%d-x%d", d, i), fmt.Sprintf("d%d", d), pool, "dp"})
		}
		if rng.Intn(100) < 85 {
			g.prelude = append(g.prelude, fmt.Sprintf("app scale dp ns1 d%d %d", d, rng.Intn(5)))
		}
	}
	if rng.Intn(100) < 10 {
		// a statefulset pod carrying the pool annotation (outside the property's statement, inside the model)
		g.ids = append(g.ids, ident{"ns1", "s1-0", "s1", "p1", "sts"})
		g.prelude = append(g.prelude, "app scale sts ns1 s1 1")
	}
	if rng.Intn(100) < 75 {
		g.prelude = append(g.prelude, g.apiPoolLine("p1"))
	}
	g.prelude = append(g.prelude, "sync all")
	return g
}

func (g *Gen) apiPoolLine(name string) string {
	pre := 0
	if g.rng.Intn(100) < 50 {
		pre = 1
	}
	fault := 0
	if pre == 1 && g.rng.Intn(100) < g.faults {
		fault = 1 + g.rng.Intn(3)
	}
	g.needSync = true
	return fmt.Sprintf("apipool %s %d %d ? ? %d", name, g.rng.Intn(5), pre, fault)
}

type wopt struct {
	w    float64
	line func() string
}

func tilde(s string) string {
	if s == "" {
		return "~"
	}
	return s
}

func uidNum(p *corev1.Pod) string { return strings.TrimPrefix(string(p.UID), "u") }

func (g *Gen) bindLine(w *plugin.World, ns, name, node string) string {
	tp := w.TruthPod(ns, name)
	lp := w.ListerPod(ns, name)
	if lp == nil || tp == nil || lp.UID != tp.UID {
		return "sync pods"
	}
	return fmt.Sprintf("bind %s %s %s %s ? ? 0 0", ns, name, uidNum(tp), node)
}

// Next proposes the next op line.
func (g *Gen) Next(w *plugin.World, step int) string {
	if len(g.prelude) > 0 {
		l := g.prelude[0]
		g.prelude = g.prelude[1:]
		return l
	}
	rng := g.rng
	if g.intent != "" {
		id := g.intent
		g.intent = ""
		x := strings.SplitN(id, "/", 2)
		var approved []string
		if r := w.LastOp.Result; w.LastOp.Kind == "filter" && strings.HasPrefix(r, "ok nodes=") && r != "ok nodes=-" {
			approved = strings.Split(strings.TrimPrefix(r, "ok nodes="), ",")
		}
		if tp := w.TruthPod(x[0], x[1]); tp != nil {
			pool := tp.Annotations[constant.IPPoolAnnotation]
			_, saw := ListerPoolSize(w, pool)
			g.filtered[string(tp.UID)] = filterInfo{saw: saw || pool == "", approved: len(approved) > 0}
			fi := g.filtered[string(tp.UID)]
			_, poolExists := TruthPoolSize(w, pool)
			// a scheduler binds only after an approving filter; a filter that did not see the Pool object is the known
			// hole D15 - bind it rarely when a Pool object exists meanwhile
			if fi.approved && (fi.saw || !poolExists || rng.Intn(100) < g.rogue) && rng.Intn(100) < 88 {
				node := approved[rng.Intn(len(approved))]
				if rng.Intn(100) < 4 {
					node = g.conf.Nodes[rng.Intn(len(g.conf.Nodes))].Name
				}
				return g.bindLine(w, x[0], x[1], node)
			}
		}
	}
	if g.needSync && rng.Intn(100) < 70 {
		g.needSync = false
		return "sync all"
	}
	truth := map[string]*corev1.Pod{}
	for _, p := range w.TruthPods() {
		truth[p.Namespace+"/"+p.Name] = p
	}
	var opts []wopt
	add := func(wt float64, f func() string) { opts = append(opts, wopt{wt, f}) }
	for _, id := range g.ids {
		id := id
		key := id.ns + "/" + id.name
		p := truth[key]
		if p == nil {
			add(5, func() string {
				g.needSync = true
				return fmt.Sprintf("pod create %s %s %s %s %s 0 - 1", id.ns, id.name, id.kind, id.app, tilde(id.pool))
			})
			continue
		}
		bound := len(plugin.HandedIPs(p)) > 0
		if !bound {
			add(9, func() string {
				if lp := w.ListerPod(id.ns, id.name); lp == nil || lp.UID != p.UID {
					return "sync pods"
				}
				fault := 0
				if rng.Intn(100) < g.faults {
					fault = 1 + rng.Intn(3)
				}
				g.intent = key
				return fmt.Sprintf("filter %s %s n1,n2,n3,n4 ? ? %d", id.ns, id.name, fault)
			})
		} else {
			add(0.5, func() string { return fmt.Sprintf("filter %s %s n1,n2,n3 ? ? 0", id.ns, id.name) })
			add(0.8, func() string { g.needSync = true; return fmt.Sprintf("pod run %s %s", id.ns, id.name) })
		}
		wt := 1.0
		if bound {
			wt = 3
		}
		add(wt, func() string { g.needSync = true; return fmt.Sprintf("pod delete %s %s", id.ns, id.name) })
	}
	for i := range w.Events {
		i := i
		add(5, func() string { return fmt.Sprintf("deliver %d 0 0", i) })
		add(0.2, func() string { return fmt.Sprintf("drop %d", i) })
	}
	add(5, func() string { return g.apiPoolLine("p1") })
	add(0.5, func() string { return g.apiPoolLine("p2") })
	add(0.4, func() string { g.needSync = true; return "pool del p1" })
	add(0.4, func() string { g.needSync = true; return fmt.Sprintf("pool set p1 %d", rng.Intn(5)) })
	add(3, func() string { g.needSync = false; return "sync all" })
	add(0.6, func() string { return "sync apps" })
	add(0.6, func() string { return "sync pods" })
	add(1.5, func() string { return "resync ? 0 0" })
	add(1.2, func() string { return g.releaseLine(w) })
	add(0.5, func() string { return "syncips 0" })
	add(0.25, func() string { g.needSync = false; return "restart" })
	add(0.35, func() string { return g.reloadLine(w) })
	add(1.0, func() string {
		g.needSync = true
		return fmt.Sprintf("app scale dp ns1 d%d %d", 1+rng.Intn(3), rng.Intn(5))
	})
	total := 0.0
	for _, o := range opts {
		total += o.w
	}
	x := rng.Float64() * total
	for _, o := range opts {
		if x < o.w {
			if l := o.line(); l != "" {
				return l
			}
			return "sync all"
		}
		x -= o.w
	}
	return "sync all"
}

func (g *Gen) releaseLine(w *plugin.World) string {
	dump := w.IPAMDump()
	if len(dump) == 0 {
		return ""
	}
	r := dump[g.rng.Intn(len(dump))]
	if r.Free {
		return fmt.Sprintf("release %d dp_ ns1 d1 d1-x1 p1 0 0", r.IP)
	}
	k := util.ParseKey(r.Key)
	return fmt.Sprintf("release %d %s %s %s %s %s 0 0", r.IP, tilde(k.AppTypePrefix), tilde(k.Namespace), tilde(k.AppName),
		tilde(k.PodName), tilde(k.PoolName))
}

// reloadLine: the same configuration, the initial one, or one without its last pool (a reload may only lower a count).
func (g *Gen) reloadLine(w *plugin.World) string {
	next := w.Pools
	switch g.rng.Intn(3) {
	case 1:
		next = g.conf.Pools
	case 2:
		if len(next) > 1 {
			next = next[:len(next)-1]
		}
	}
	f := 0
	if g.rng.Intn(100) < g.faults {
		f = 1 + g.rng.Intn(2)
	}
	return fmt.Sprintf("reload %s %d", plugin.PoolsLine(next), f)
}

// Histories is the generator handed to RunHistories.
func Histories(length int) Generator {
	return func(rng *rand.Rand) (plugin.Conf, plugin.Script, int) {
		conf := GenConf(rng)
		g := NewGen(rng, conf)
		return conf, g.Next, length
	}
}
