package pluginc07

import (
	"fmt"
	"sort"
	"strings"

	"tkestack.io/galaxy/pkg/api/galaxy/constant"
	"tkestack.io/galaxy/pkg/ipam/schedulerplugin/util"

	"gxverif/hx"
	"gxverif/plugin"
)

// Signatures of the C07 monitor.
const (
	SigD15          = "bind-after-unsized-filter-exceeds-size" // known finding (DESIGN D15)
	SigSync         = "pool-exceeds-size:syncips"              // known finding: syncPodIP re-creates a released member
	SigExceedPrefix = "pool-exceeds-size:"
)

type filterInfo struct {
	saw      bool // the Pool object was in the plugin's lister when the pod was filtered
	approved bool // the filter answered ok with at least one node
}

type c07state struct {
	cnt     map[string]int        // pool -> count at the end of the previous step
	filters map[string]filterInfo // pod uid -> what its last filter saw
}

func poolsOf(w *plugin.World) []string {
	set := map[string]bool{"p1": true, "p2": true}
	for _, r := range w.IPAMDump() {
		if !r.Free && strings.HasPrefix(r.Key, "pool__") {
			rest := strings.TrimPrefix(r.Key, "pool__")
			if i := strings.IndexByte(rest, '_'); i > 0 {
				set[rest[:i]] = true
			}
		}
	}
	var out []string
	for p := range set {
		out = append(out, p)
	}
	sort.Strings(out)
	return out
}

func max(a, b int) int {
	if a > b {
		return a
	}
	return b
}

// MonitorC07 is the oracle of property C07, written from the property statement: after every step, the number of
// addresses held under a pool's prefix has not grown beyond the size in force - for a filter the size its Pool lister
// showed (the size it read), for a pool API request the size of the request, for every other step the size of the
// Pool object at that step.  (A step that does not grow the count is always fine: shrinking a Pool object below its
// population is allowed, the pool then simply must not grow.)
func MonitorC07(w *plugin.World, step int) []hx.Violation {
	st, _ := w.Mon["c07"].(*c07state)
	if st == nil {
		st = &c07state{cnt: map[string]int{}, filters: map[string]filterInfo{}}
		w.Mon["c07"] = st
	}
	var out []hx.Violation
	kind := w.LastOp.Kind
	f := strings.Fields(w.LastOp.Line)
	if kind == "filter" && len(f) >= 3 {
		if pod := w.TruthPod(f[1], f[2]); pod != nil {
			pool := pod.Annotations[constant.IPPoolAnnotation]
			_, saw := ListerPoolSize(w, pool)
			res := w.LastOp.Result
			st.filters[string(pod.UID)] = filterInfo{saw: pool != "" && saw,
				approved: strings.HasPrefix(res, "ok nodes=") && res != "ok nodes=-"}
		}
	}
	for _, P := range poolsOf(w) {
		now := PoolCount(w, P)
		before := st.cnt[P]
		st.cnt[P] = now
		if now <= before {
			continue
		}
		size, sized := 0, false
		how := kind
		switch kind {
		case "filter":
			size, sized = ListerPoolSize(w, P)
		case "apipool":
			if len(f) >= 3 && f[1] == P {
				size, sized = atoiDef(f[2]), true
				how = "prealloc"
			} else {
				size, sized = TruthPoolSize(w, P)
			}
		case "bind":
			size, sized = TruthPoolSize(w, P)
			if len(f) >= 3 {
				if lp := w.ListerPod(f[1], f[2]); lp != nil {
					if k, err := util.FormatKey(lp); err == nil && !k.Deployment() {
						// the property speaks of "pods of the deployments that share the pool": a pod of another workload
						// kind that carries the pool annotation is bound without any size check - outside the statement
						continue
					}
					fi, filtered := st.filters[string(lp.UID)]
					switch {
					case !filtered || !fi.saw:
						how = "bind-after-unsized-filter"
					case !fi.approved:
						how = "bind-after-refused-filter"
					}
				}
			}
		default:
			size, sized = TruthPoolSize(w, P)
		}
		if !sized || now <= max(before, size) {
			continue
		}
		sig := SigExceedPrefix + how
		if how == "bind-after-unsized-filter" {
			sig = SigD15
		}
		out = append(out, hx.Violation{Signature: sig,
			What: fmt.Sprintf("step %d (%s): pool %s holds %d addresses (was %d), size in force %d", step,
				w.LastOp.Line, P, now, before, size)})
	}
	return out
}
