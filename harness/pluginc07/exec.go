package pluginc07

import (
	"fmt"
	"math/rand"
	"os"
	"os/exec"
	"path/filepath"
	"strings"
	"sync"
	"time"

	"gxverif/hx"
	"gxverif/plugin"
)

// Execute runs a script against a fresh world (like plugin.Execute, with the `apipool` op), dumping after every op and
// running the monitor.
func Execute(conf plugin.Conf, rng *rand.Rand, script plugin.Script, mon plugin.Monitor, maxOps int) (*plugin.Transcript, *plugin.World, error) {
	t := &plugin.Transcript{Stats: map[string]int{}}
	w, err := plugin.NewWorld(conf, rng)
	if err != nil {
		return nil, nil, err
	}
	init := conf.InitLine()
	t.Lines = append(t.Lines, init)
	t.Impl = append(t.Impl, "ok")
	t.Ops = append(t.Ops, init)
	for step := 0; step < maxOps; step++ {
		line := script(w, step)
		if line == "" {
			break
		}
		if strings.HasPrefix(line, "dump") || strings.HasPrefix(line, "init") {
			continue
		}
		final, res := Apply(w, line)
		t.Lines = append(t.Lines, final)
		t.Impl = append(t.Impl, res)
		t.Ops = append(t.Ops, final)
		k := opKind(final)
		t.Stats["op:"+k]++
		cls := res
		if strings.HasPrefix(res, "ok") {
			cls = "ok"
		} else if strings.HasPrefix(res, "accepted") {
			cls = "accepted"
		}
		t.Stats["res:"+k+":"+cls]++
		if strings.HasPrefix(res, "panic") || res == "hang" {
			t.Hang = res
			break
		}
		t.Lines = append(t.Lines, "dump")
		t.Impl = append(t.Impl, w.Digest())
		if mon != nil {
			for _, v := range mon(w, step) {
				v.Ops = append([]string(nil), t.Ops...)
				t.Violations = append(t.Violations, v)
			}
			if len(t.Violations) > 0 {
				break
			}
		}
	}
	return t, w, nil
}

func opKind(line string) string {
	f := strings.Fields(line)
	if len(f) == 0 {
		return ""
	}
	switch f[0] {
	case "pod", "app", "pool", "sync":
		if len(f) > 1 {
			return f[0] + "-" + f[1]
		}
	case "apipool":
		if len(f) > 3 && f[3] == "1" {
			return "apipool-prealloc"
		}
		return "apipool-set"
	}
	return f[0]
}

// leanRoot derives the lake project directory from the driver directory (<root>/.lake/build/bin).
func leanRoot(e *hx.Env) string { return filepath.Clean(filepath.Join(e.Driver, "..", "..", "..")) }

func verifRoot() string {
	if r := os.Getenv("VERIF_ROOT"); r != "" {
		return r
	}
	return "/verif"
}

var drvMu sync.Mutex
var drvSeq int

// RunDriver7 pipes lines through the C07 driver extension (Galaxy.Drv.PluginC07Drv, interpreted by `lean` on the
// compiled module; the lakefile has no executable for it).  One output line per input line.
func RunDriver7(e *hx.Env, lines []string) ([]string, error) {
	if len(lines) == 0 {
		return nil, nil
	}
	drvMu.Lock()
	drvSeq++
	n := drvSeq
	drvMu.Unlock()
	dir := filepath.Join(e.Out, "..", "tmp")
	os.MkdirAll(dir, 0o755)
	in := filepath.Join(dir, fmt.Sprintf("c07-%d-%d.in", os.Getpid(), n))
	out := filepath.Join(dir, fmt.Sprintf("c07-%d-%d.out", os.Getpid(), n))
	defer os.Remove(in)
	defer os.Remove(out)
	if err := os.WriteFile(in, []byte(strings.Join(lines, "\n")+"\n"), 0o644); err != nil {
		return nil, err
	}
	root := leanRoot(e)
	cmd := exec.Command("lean", filepath.Join(verifRoot(), "harness", "pluginc07", "run7.lean"))
	cmd.Env = append(os.Environ(), "LEAN_PATH="+filepath.Join(root, ".lake", "build", "lib", "lean"), "GX_IN="+in, "GX_OUT="+out)
	b, err := cmd.CombinedOutput()
	if err != nil {
		return nil, fmt.Errorf("lean run7.lean: %v: %s", err, string(b))
	}
	data, err := os.ReadFile(out)
	if err != nil {
		return nil, fmt.Errorf("lean run7.lean wrote no output: %v: %s", err, string(b))
	}
	res := strings.Split(strings.TrimRight(string(data), "\n"), "\n")
	if len(res) != len(lines) {
		return res, fmt.Errorf("c07 driver: %d input lines, %d output lines", len(lines), len(res))
	}
	return res, nil
}

// agree compares an implementation answer with a model answer.
func agree(impl, model string) bool { return plugin.ResultsAgree(impl, model) }

// CompareAll sends all transcripts through ONE driver run (every transcript starts with `init`, which resets the
// model) and returns the first disagreement of each transcript (nil = none).
func CompareAll(e *hx.Env, ts []*plugin.Transcript) ([]*hx.Disagreement, error) {
	return compareAll(e, ts, RunDriver7)
}

// DriverFunc pipes op lines to a Lean driver.
type DriverFunc func(e *hx.Env, lines []string) ([]string, error)

// CoreDriver is gxdrv_plugin (the compiled driver of the core model).
func CoreDriver(e *hx.Env, lines []string) ([]string, error) { return e.RunDriver("plugin", lines) }

func compareAll(e *hx.Env, ts []*plugin.Transcript, drv DriverFunc) ([]*hx.Disagreement, error) {
	ds := make([]*hx.Disagreement, len(ts))
	// one driver run per chunk of transcripts (every transcript starts with `init`, which resets the model)
	const chunk = 1500
	for lo := 0; lo < len(ts); lo += chunk {
		hi := lo + chunk
		if hi > len(ts) {
			hi = len(ts)
		}
		var lines []string
		for _, t := range ts[lo:hi] {
			lines = append(lines, t.Lines...)
		}
		out, err := drv(e, lines)
		if err != nil {
			return nil, err
		}
		off := 0
		for k, t := range ts[lo:hi] {
			for i := range t.Lines {
				if !agree(t.Impl[i], out[off+i]) {
					where := opKind(t.Lines[i])
					if t.Lines[i] == "dump" && i > 0 {
						where = "state-after:" + opKind(t.Lines[i-1])
					}
					ds[lo+k] = &hx.Disagreement{Where: where, Index: i, Impl: t.Impl[i], Model: out[off+i]}
					break
				}
			}
			off += len(t.Lines)
		}
	}
	return ds, nil
}

// Replay executes the op lines of a replay file (first line `init …`).
func Replay(ops []string, rng *rand.Rand, mon plugin.Monitor) (*plugin.Transcript, error) {
	return replayWith(ops, rng, mon, Execute)
}

func replayWith(ops []string, rng *rand.Rand, mon plugin.Monitor, exec ExecFunc) (*plugin.Transcript, error) {
	if len(ops) == 0 {
		return nil, fmt.Errorf("empty replay")
	}
	conf, err := plugin.ParseInitLine(ops[0])
	if err != nil {
		return nil, err
	}
	t, _, err := exec(conf, rng, plugin.FixedScript(ops[1:]), mon, len(ops))
	return t, err
}

// Batch is the outcome of a set of histories.
type Batch struct {
	Histories  int
	Ops        int
	Disagree   []hx.Disagreement
	Violations []hx.Violation
	Errors     []string
	Stats      map[string]int
	Nontrivial []string
	Trivial    int
	Samples    [][]string
}

// Generator yields the script of one history.
type Generator func(rng *rand.Rand) (plugin.Conf, plugin.Script, int)

// RunHistories executes n generated histories in parallel, runs the monitor after every op, compares all transcripts
// with the model in one driver run, shrinks violations (one per signature) and writes replays.
func RunHistories(e *hx.Env, prop, tag string, n int, gen Generator, mon plugin.Monitor) *Batch {
	return RunHistoriesWith(e, prop, tag, n, gen, mon, Execute, RunDriver7)
}

// ExecFunc executes one script against a fresh world.
type ExecFunc func(conf plugin.Conf, rng *rand.Rand, script plugin.Script, mon plugin.Monitor, maxOps int) (*plugin.Transcript, *plugin.World, error)

// RunHistoriesWith is RunHistories with the executor and the Lean driver as parameters.
func RunHistoriesWith(e *hx.Env, prop, tag string, n int, gen Generator, mon plugin.Monitor, exec ExecFunc, drv DriverFunc) *Batch {
	b := &Batch{Stats: map[string]int{}}
	seeds := make([]int64, n)
	for i := range seeds {
		seeds[i] = e.Rng.Int63()
	}
	ts := make([]*plugin.Transcript, n)
	errs := make([]error, n)
	var wg sync.WaitGroup
	sem := make(chan struct{}, 256) // sleep-bound: a Bind answered Conflict sits out the 3 s retry loop of the real code
	for i := 0; i < n; i++ {
		wg.Add(1)
		sem <- struct{}{}
		go func(i int) {
			defer wg.Done()
			defer func() { <-sem }()
			rng := rand.New(rand.NewSource(seeds[i]))
			conf, script, maxOps := gen(rng)
			ts[i], _, errs[i] = exec(conf, rng, script, mon, maxOps)
		}(i)
	}
	wg.Wait()
	var good []*plugin.Transcript
	var goodIdx []int
	for i := range ts {
		if errs[i] != nil {
			b.Errors = append(b.Errors, errs[i].Error())
			continue
		}
		good = append(good, ts[i])
		goodIdx = append(goodIdx, i)
	}
	ds, err := compareAll(e, good, drv)
	if err != nil {
		b.Errors = append(b.Errors, err.Error())
		ds = make([]*hx.Disagreement, len(good))
	}
	shrunk := map[string]bool{}
	for k, t := range good {
		i := goodIdx[k]
		b.Histories++
		b.Ops += len(t.Ops) - 1
		for s, v := range t.Stats {
			b.Stats[s] += v
		}
		okOps := 0
		for j, l := range t.Lines {
			if l != "dump" && j > 0 && (strings.HasPrefix(t.Impl[j], "ok") || strings.HasPrefix(t.Impl[j], "accepted")) &&
				!strings.HasPrefix(l, "sync") {
				okOps++
			}
		}
		if okOps >= 3 {
			b.Nontrivial = append(b.Nontrivial, strings.Join(t.Ops, "\n"))
		} else {
			b.Trivial++
		}
		if len(b.Samples) < 2 {
			b.Samples = append(b.Samples, t.Ops)
		}
		if t.Hang != "" {
			p := e.WriteReplay(prop, "history", fmt.Sprintf("%s-hang-%d", tag, i), []string{"outcome=" + t.Hang}, t.Ops)
			b.Violations = append(b.Violations, hx.Violation{Signature: "op-" + strings.Fields(t.Hang)[0] + ":" +
				opKind(t.Ops[len(t.Ops)-1]), What: "operation did not return normally: " + t.Hang, Replay: p})
		}
		for _, v := range t.Violations {
			ops := v.Ops
			sig := v.Signature
			if !shrunk[sig] {
				shrunk[sig] = true
				deadline := time.Now().Add(10 * time.Second)
				ops = plugin.Shrink(ops, func(c []string) bool {
					if time.Now().After(deadline) {
						return false
					}
					t2, err := replayWith(c, rand.New(rand.NewSource(seeds[i])), mon, exec)
					if err != nil {
						return false
					}
					for _, v2 := range t2.Violations {
						if v2.Signature == sig {
							return true
						}
					}
					return false
				})
			}
			v.Ops = ops
			v.Replay = e.WriteReplay(prop, "history", fmt.Sprintf("%s-viol-%s-%d", tag, sanitize(sig), i),
				[]string{"signature=" + sig, "what=" + v.What}, ops)
			b.Violations = append(b.Violations, v)
		}
		if ds[k] != nil {
			d := *ds[k]
			d.Ops = t.Ops
			d.Replay = e.WriteReplay(prop, "history", fmt.Sprintf("%s-disagree-%d", tag, i),
				[]string{"where=" + d.Where, fmt.Sprintf("line-index=%d", d.Index), "impl=" + d.Impl, "model=" + d.Model}, t.Ops)
			b.Disagree = append(b.Disagree, d)
		}
	}
	return b
}

func sanitize(s string) string {
	var b strings.Builder
	for _, r := range s {
		if (r >= 'a' && r <= 'z') || (r >= 'A' && r <= 'Z') || (r >= '0' && r <= '9') || r == '-' {
			b.WriteRune(r)
		} else {
			b.WriteByte('_')
		}
	}
	return b.String()
}

// Fill copies a batch into the report.
func (b *Batch) Fill(r *hx.Report) {
	for k, v := range b.Stats {
		r.Histogram[k] += v
	}
	for _, c := range b.Nontrivial {
		r.Case(c, true)
	}
	for i := 0; i < b.Trivial; i++ {
		r.Case("", false)
	}
	r.Traces += b.Histories
	r.Disagree = append(r.Disagree, b.Disagree...)
	r.Violations = append(r.Violations, b.Violations...)
	for _, s := range b.Samples {
		if len(s) > 14 {
			s = s[:14]
		}
		r.Sample(map[string]interface{}{"history": s})
	}
	n, _ := r.Extra["ops_executed"].(int)
	r.Extra["ops_executed"] = n + b.Ops
	for _, m := range b.Errors {
		// a harness / driver failure must never look like a pass
		r.Disagree = append(r.Disagree, hx.Disagreement{Where: "harness-error", Impl: m, Model: ""})
	}
}

// RunFile executes one replay / corpus file: monitor + correspondence.
func RunFile(e *hx.Env, r *hx.Report, path string, mon plugin.Monitor, isCorpus bool) {
	RunFileWith(e, r, path, mon, isCorpus, Execute, RunDriver7)
}

// RunFileWith is RunFile with the executor and the Lean driver as parameters.
func RunFileWith(e *hx.Env, r *hx.Report, path string, mon plugin.Monitor, isCorpus bool, exec ExecFunc, drv DriverFunc) {
	ops, err := hx.ReadOps(path)
	if err != nil || len(ops) == 0 {
		r.Disagree = append(r.Disagree, hx.Disagreement{Where: "replay-unreadable", Impl: path, Replay: path})
		return
	}
	if strings.HasPrefix(ops[0], "{") { // kind=obligation files: nothing to execute
		return
	}
	if strings.HasPrefix(ops[0], "schedule ") { // a forced two-goroutine schedule
		RunScheduleFile(e, r, path, ops)
		return
	}
	t, err := replayWith(ops, rand.New(rand.NewSource(e.Seed)), mon, exec)
	if err != nil {
		r.Disagree = append(r.Disagree, hx.Disagreement{Where: "replay-failed", Impl: err.Error(), Replay: path})
		return
	}
	r.Traces++
	r.Case(strings.Join(t.Ops, "\n"), true)
	for k, v := range t.Stats {
		r.Histogram[k] += v
	}
	if isCorpus {
		r.Hit("corpus-history")
	}
	for _, v := range t.Violations {
		v.Replay = path
		r.Violations = append(r.Violations, v)
	}
	if t.Hang != "" {
		r.Violations = append(r.Violations, hx.Violation{Signature: "op-" + strings.Fields(t.Hang)[0], What: t.Hang, Replay: path})
	}
	ds, err := compareAll(e, []*plugin.Transcript{t}, drv)
	if err != nil {
		r.Disagree = append(r.Disagree, hx.Disagreement{Where: "driver-failed", Impl: err.Error(), Replay: path})
		return
	}
	if ds[0] != nil {
		d := *ds[0]
		d.Replay = path
		d.Ops = t.Ops
		r.Disagree = append(r.Disagree, d)
	}
}
