package plugin

import (
	"context"
	"encoding/json"
	"fmt"
	"sort"
	"strconv"
	"strings"

	corev1 "k8s.io/api/core/v1"
	metav1 "k8s.io/apimachinery/pkg/apis/meta/v1"
	"tkestack.io/galaxy/pkg/ipam/floatingip"
	"tkestack.io/galaxy/pkg/ipam/schedulerplugin/util"

	"gxverif/hx"
)

// LivePod is a pod of API truth that was bound by the plugin and has not finished.
type LivePod struct {
	Pod *corev1.Pod
	Key string
	IPs []uint32
}

// LiveBound lists the live bound pods of API truth.
func (w *World) LiveBound() []LivePod {
	var out []LivePod
	for _, p := range w.TruthPods() {
		if Finished(p) {
			continue
		}
		hs := HandedIPs(p)
		if len(hs) == 0 {
			continue
		}
		k, err := util.FormatKey(p)
		if err != nil {
			continue
		}
		lp := LivePod{Pod: p, Key: k.KeyInDB}
		for _, h := range hs {
			lp.IPs = append(lp.IPs, h[0])
		}
		out = append(out, lp)
	}
	return out
}

// Root causes the C04 monitor recognises (the first two were found by this check and are fixed in /repo; their
// replays in corpus/C04 are regression histories).
const (
	CauseStaleListerBind = "bind-with-stale-lister-stores-old-uid"
	CauseStaleRecord     = "stale-record-of-same-key-releases-live-pod-ip"
	// still open: ConfigurePool ignores a failed store delete, a later reload that re-adds the address resurrects the
	// stale object under the key of a live pod, and resync / Release still act on the whole key
	CauseReloadDeleteFault = "reload-delete-fault-resurrects-stale-record"
)

type c04prev struct {
	live map[uint32]string // ip -> uid of the live bound pod holding it (end of the previous step)
	dump []IPAMRec
}

// MonitorC04 is the oracle of property C04, written from the property statement: after every step, every live bound
// pod's handed IPs (unless a reload dropped the address from the configuration) are stored under the pod's key and
// UID in the real IPAM, and the step sent no UnAssign request for an address of a pod that was live and bound
// before and after it.
func MonitorC04(w *World, step int) []hx.Violation {
	var out []hx.Violation
	prev, _ := w.Mon["c04"].(*c04prev)
	dump := w.IPAMDump()
	byIP := map[uint32]IPAMRec{}
	for _, r := range dump {
		if !r.Free {
			byIP[r.IP] = r
		}
	}
	kind := w.LastOp.Kind
	// sig builds the signature of a failure: the known root causes are recognised from the history (the bind that
	// produced the pod's binding read another incarnation from the lister; the pod's key also held a record of
	// another incarnation before the step), everything else is named by what happened and which move did it.
	sig := func(what string, lp LivePod) string {
		if st, _ := w.Mon["stale-bound"].(map[string]bool); st[string(lp.Pod.UID)] {
			return CauseStaleListerBind
		}
		if prev != nil {
			for _, r := range prev.dump {
				if !r.Free && r.Key == lp.Key && r.UID != "" && r.UID != string(lp.Pod.UID) {
					if b, _ := w.Mon["reload-delete-fault"].(bool); b {
						return CauseReloadDeleteFault + ":by=" + kind
					}
					return CauseStaleRecord + ":by=" + kind
				}
			}
		}
		return what + ":by=" + kind
	}
	if w.LastOp.Kind == "bind" && w.LastOp.StaleBind && len(w.LastOp.Result) >= 2 && w.LastOp.Result[:2] == "ok" {
		st, _ := w.Mon["stale-bound"].(map[string]bool)
		if st == nil {
			st = map[string]bool{}
			w.Mon["stale-bound"] = st
		}
		for _, lp := range w.LiveBound() {
			if prev == nil || prev.live[lp.IPs[0]] != string(lp.Pod.UID) {
				st[string(lp.Pod.UID)] = true
			}
		}
	}
	live := map[uint32]string{}
	for _, lp := range w.LiveBound() {
		for _, ip := range lp.IPs {
			if w.Voided[string(lp.Pod.UID)+"/"+strconv.FormatUint(uint64(ip), 10)] {
				continue
			}
			live[ip] = string(lp.Pod.UID)
			r, ok := byIP[ip]
			switch {
			case !ok:
				out = append(out, hx.Violation{Signature: sig("live-pod-ip-released", lp),
					What: fmt.Sprintf("step %d (%s): ip %s of live bound pod %s/%s (uid %s) is no longer allocated",
						step, w.LastOp.Line, IPStr(ip), lp.Pod.Namespace, lp.Pod.Name, lp.Pod.UID)})
			case r.Key != lp.Key:
				out = append(out, hx.Violation{Signature: sig("live-pod-ip-rekeyed", lp),
					What: fmt.Sprintf("step %d (%s): ip %s of live bound pod %s is stored under key %q", step,
						w.LastOp.Line, IPStr(ip), lp.Key, r.Key)})
			case r.UID != string(lp.Pod.UID):
				out = append(out, hx.Violation{Signature: sig("live-pod-ip-uid-mismatch", lp),
					What: fmt.Sprintf("step %d (%s): ip %s of live bound pod %s uid %s is stored with uid %q", step,
						w.LastOp.Line, IPStr(ip), lp.Key, lp.Pod.UID, r.UID)})
			}
		}
	}
	if prev != nil {
		for _, c := range w.Prov.Log[w.LastOp.PlogBefore:] {
			if c.Assign {
				continue
			}
			if uid, was := prev.live[c.IP]; was && live[c.IP] == uid {
				out = append(out, hx.Violation{Signature: "unassign-for-live-pod:by=" + kind,
					What: fmt.Sprintf("step %d (%s): UnAssign(%s, %s) was sent while pod uid %s holds the address",
						step, w.LastOp.Line, c.Node, IPStr(c.IP), uid)})
			}
		}
	}
	w.Mon["c04"] = &c04prev{live: live, dump: dump}
	return out
}

// MonitorC01 is the oracle of property C01: no address in the binding annotation of two live pods; the IPAM dump has
// one entry per address (allocated and unallocated disjoint); store and memory agree on the owner of every
// allocated address and the store holds no configured address memory does not know.
func MonitorC01(w *World, step int) []hx.Violation {
	var out []hx.Violation
	kind := w.LastOp.Kind
	holders := map[uint32][]string{}
	for _, lp := range w.LiveBound() {
		seenIP := map[uint32]bool{} // overlapping requested ranges may list one address twice for the same pod
		for _, ip := range lp.IPs {
			if w.Voided[string(lp.Pod.UID)+"/"+strconv.FormatUint(uint64(ip), 10)] {
				// a reload removed the address from the configuration while the pod held it (C04's "reload that still
				// contains the IP"; the theorems carry the same side condition): the pod's claim is void
				continue
			}
			if !seenIP[ip] {
				seenIP[ip] = true
				holders[ip] = append(holders[ip], lp.Pod.Namespace+"/"+lp.Pod.Name+"("+string(lp.Pod.UID)+")")
			}
		}
	}
	var ips []uint32
	for ip := range holders {
		ips = append(ips, ip)
	}
	sort.Slice(ips, func(i, j int) bool { return ips[i] < ips[j] })
	for _, ip := range ips {
		if len(holders[ip]) > 1 {
			out = append(out, hx.Violation{Signature: "ip-handed-to-two-live-pods:by=" + kind,
				What: fmt.Sprintf("step %d (%s): ip %s is in the binding annotation of %v", step, w.LastOp.Line, IPStr(ip), holders[ip])})
		}
	}
	dump := w.IPAMDump()
	seen := map[uint32]int{}
	mem := map[uint32]IPAMRec{}
	for _, r := range dump {
		seen[r.IP]++
		if !r.Free {
			mem[r.IP] = r
		}
	}
	for ip, n := range seen {
		if n > 1 {
			out = append(out, hx.Violation{Signature: "ipam-address-listed-twice:by=" + kind,
				What: fmt.Sprintf("step %d (%s): ip %s appears %d times in the IPAM dump (allocated and unallocated overlap)", step, w.LastOp.Line, IPStr(ip), n)})
		}
	}
	fl, _ := w.Galaxy.GalaxyV1alpha1().FloatingIPs().List(context.TODO(), metav1.ListOptions{})
	store := map[uint32]bool{}
	for _, f := range fl.Items {
		ip, _ := ParseIPv4(f.Name)
		store[ip] = true
		var a floatingip.Attr
		if f.Spec.Attribute != "" {
			json.Unmarshal([]byte(f.Spec.Attribute), &a)
		}
		m, ok := mem[ip]
		if !ok {
			if ConfHas(w.Pools, ip) {
				out = append(out, hx.Violation{Signature: "store-object-unknown-to-memory:by=" + kind,
					What: fmt.Sprintf("step %d (%s): FloatingIP %s (key %q) is in the store but not allocated in memory", step, w.LastOp.Line, f.Name, f.Spec.Key)})
			}
			continue
		}
		if m.Key != f.Spec.Key || m.UID != a.Uid || m.Node != a.NodeName || m.Policy != int(f.Spec.Policy) {
			out = append(out, hx.Violation{Signature: "store-memory-owner-differs:by=" + kind,
				What: fmt.Sprintf("step %d (%s): ip %s memory (%q,%q,%q) store (%q,%q,%q)", step, w.LastOp.Line, f.Name,
					m.Key, m.UID, m.Node, f.Spec.Key, a.Uid, a.NodeName)})
		}
	}
	for ip, m := range mem {
		if !store[ip] && !m.Reserved {
			out = append(out, hx.Violation{Signature: "memory-allocation-not-in-store:by=" + kind,
				What: fmt.Sprintf("step %d (%s): ip %s allocated to %q in memory has no FloatingIP object", step, w.LastOp.Line, IPStr(ip), m.Key)})
		}
	}
	return out
}

// MonitorC01Tracking is MonitorC01 with the C04 oracle running silently next to it: when C04 broke earlier in the
// history through one of its known root causes, a later "two live pods share an IP" is attributed to that cause
// (signature `…:cause=<root cause>`), because C01's pod clause is a corollary of C04.
func MonitorC01Tracking(w *World, step int) []hx.Violation {
	for _, v := range MonitorC04(w, step) {
		if _, have := w.Mon["c04-cause"]; have {
			break
		}
		switch {
		case v.Signature == CauseStaleListerBind:
			w.Mon["c04-cause"] = CauseStaleListerBind
		case strings.HasPrefix(v.Signature, CauseStaleRecord):
			w.Mon["c04-cause"] = CauseStaleRecord
		case strings.HasPrefix(v.Signature, CauseReloadDeleteFault):
			w.Mon["c04-cause"] = CauseReloadDeleteFault
		default:
			w.Mon["c04-cause"] = "c04:" + v.Signature
		}
	}
	out := MonitorC01(w, step)
	if c, ok := w.Mon["c04-cause"].(string); ok {
		for i := range out {
			if strings.HasPrefix(out[i].Signature, "ip-handed-to-two-live-pods") {
				out[i].Signature = "ip-handed-to-two-live-pods:cause=" + c
			}
		}
	}
	return out
}

// Monitors combines monitors.
func Monitors(ms ...Monitor) Monitor {
	return func(w *World, step int) []hx.Violation {
		var out []hx.Violation
		for _, m := range ms {
			out = append(out, m(w, step)...)
		}
		return out
	}
}

// MonitorReserved is the pod-level clause of C09 checked on the implementation (Lean: Galaxy.Plugin.reservation_kept,
// reserved_never_in_annotation, unconfigured_never_in_annotation): every reservation in force has its record in memory
// and its object in the store, unchanged, and no live pod's binding annotation names a reserved or de-configured address.
func MonitorReserved(w *World, step int) []hx.Violation {
	var out []hx.Violation
	kind := w.LastOp.Kind
	byIP := map[uint32]IPAMRec{}
	for _, r := range w.IPAMDump() {
		byIP[r.IP] = r
	}
	for ip, key := range w.Admin {
		r, ok := byIP[ip]
		if !ok || r.Free || r.Key != key || !r.Reserved {
			out = append(out, hx.Violation{Signature: "reservation-lost-in-memory:by=" + kind,
				What: fmt.Sprintf("step %d (%s): the administrator's reservation of %s (%s) is no longer in the allocated table: %+v",
					step, w.LastOp.Line, IPStr(ip), key, r)})
		}
		obj, err := w.Galaxy.GalaxyV1alpha1().FloatingIPs().Get(context.TODO(), IPStr(ip), metav1.GetOptions{})
		if err != nil || obj.Spec.Key != key {
			out = append(out, hx.Violation{Signature: "reservation-lost-in-store:by=" + kind,
				What: fmt.Sprintf("step %d (%s): the labelled object of the reservation of %s (%s) is gone or re-keyed",
					step, w.LastOp.Line, IPStr(ip), key)})
		}
	}
	for _, lp := range w.LiveBound() {
		for _, ip := range lp.IPs {
			voided := w.Voided[string(lp.Pod.UID)+"/"+strconv.FormatUint(uint64(ip), 10)]
			// (a pod whose address left the configuration while it held it is outside the property's scope: the address
			// may be configured again later, free, and then be reserved)
			if _, res := w.Admin[ip]; res && !voided {
				out = append(out, hx.Violation{Signature: "reserved-ip-in-annotation:by=" + kind,
					What: fmt.Sprintf("step %d (%s): pod %s/%s holds the reserved address %s", step, w.LastOp.Line,
						lp.Pod.Namespace, lp.Pod.Name, IPStr(ip))})
			}
			if !ConfHas(w.Pools, ip) && !voided {
				out = append(out, hx.Violation{Signature: "unconfigured-ip-in-annotation:by=" + kind,
					What: fmt.Sprintf("step %d (%s): pod %s/%s holds %s, which the configuration does not contain", step,
						w.LastOp.Line, lp.Pod.Namespace, lp.Pod.Name, IPStr(ip))})
			}
		}
	}
	return out
}

// WithReserved adds the reservation monitor to a property's monitor.
func WithReserved(m Monitor) Monitor {
	return func(w *World, step int) []hx.Violation { return append(m(w, step), MonitorReserved(w, step)...) }
}
