package plugin

import (
	"flag"
	"io"

	"k8s.io/klog"
)

// galaxy logs through klog to stderr; the harness prints one JSON report, nothing else.
func init() {
	fs := flag.NewFlagSet("klog", flag.ContinueOnError)
	klog.InitFlags(fs)
	fs.Set("logtostderr", "false")
	fs.Set("alsologtostderr", "false")
	fs.Set("stderrthreshold", "FATAL")
	klog.SetOutput(io.Discard)
}
