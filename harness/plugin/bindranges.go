package plugin

import (
	"fmt"
	"math/rand"
	"strconv"
	"strings"

	"gxverif/hx"
)

// MonitorC08 is the bind-level clause of C08 checked on the implementation after every Bind (Lean:
// Galaxy.Plugin.bind_reports_request_order): the binding annotation of a pod that asked for k range lists names exactly
// k distinct addresses IN REQUEST ORDER - the i-th inside the i-th list -, addresses the key already owned are reused,
// every entry carries the mask / gateway / vlan of ITS address' pool and is routable from the node; a pod without
// ranges gets exactly one address; and a Bind that fails before it reaches the provider / the apiserver leaves none of
// the addresses it allocated behind.
func MonitorC08(w *World, step int) []hx.Violation {
	op := w.LastOp
	if op.Kind != "bind" {
		return nil
	}
	var out []hx.Violation
	add := func(sig, what string) {
		out = append(out, hx.Violation{Signature: sig + ":by=bind", What: fmt.Sprintf("step %d (%s): %s", step, op.Line, what)})
	}
	ownedBefore := map[uint32]bool{}
	for _, ip := range op.BindOwned {
		ownedBefore[ip] = true
	}
	if !strings.HasPrefix(op.Result, "ok") {
		// the allocation itself failed (no room, or an object creation was refused): all or nothing.  (A failure AFTER
		// the allocation - update of a reused record, provider, binding - keeps the addresses by design: resync's job.)
		if (op.Result == "err not-enough-ip" || op.BindCreateFail) && op.BindNoCalls && !op.BindDelFail && op.BindKey != "" {
			for _, r := range w.ownedBy(op.BindKey) {
				if !ownedBefore[r.IP] {
					add("bind-failed-leaves-new-ip", fmt.Sprintf("the failed bind (%s) left %s allocated to %s", op.Result, IPStr(r.IP), op.BindKey))
				}
			}
		}
		return out
	}
	x := strings.SplitN(op.BindPod, "/", 2)
	pod := w.TruthPod(x[0], x[1])
	if pod == nil {
		return nil
	}
	hs := HandedIPs(pod)
	k := len(op.BindReq)
	if k == 0 {
		k = 1
	}
	if len(hs) != k {
		add("bind-annotation-wrong-count", fmt.Sprintf("%d range lists requested, the annotation names %d addresses", k, len(hs)))
		return out
	}
	inList := func(ip uint32, l [][2]uint32) bool {
		for _, r := range l {
			if r[0] <= ip && ip <= r[1] {
				return true
			}
		}
		return false
	}
	disjoint := true
	for i := range op.BindReq {
		for j := i + 1; j < len(op.BindReq); j++ {
			for _, r := range op.BindReq[i] {
				for ip := r[0]; ip <= r[1]; ip++ {
					if inList(ip, op.BindReq[j]) {
						disjoint = false
					}
				}
			}
		}
	}
	if !disjoint {
		return out // the property speaks about pairwise disjoint range lists
	}
	seen := map[uint32]bool{}
	for _, h := range hs {
		if seen[h[0]] {
			add("bind-annotation-duplicate-ip", IPStr(h[0])+" is listed twice")
		}
		seen[h[0]] = true
	}
	for i, l := range op.BindReq {
		if !inList(hs[i][0], l) {
			add("bind-annotation-not-in-request-order", fmt.Sprintf("entry %d is %s, outside the %d. requested range list %s (annotation %v)",
				i+1, IPStr(hs[i][0]), i+1, RangesLine([][][2]uint32{l}), ipList(hs)))
		}
		{
			pre := false
			for ip := range ownedBefore {
				if inList(ip, l) {
					pre = true
				}
			}
			if pre && !ownedBefore[hs[i][0]] {
				add("bind-preowned-ip-not-reused", fmt.Sprintf("the key owned an address of range list %d before the bind, entry %d is the new address %s",
					i+1, i+1, IPStr(hs[i][0])))
			}
		}
	}
	if len(op.BindReq) == 0 && len(ownedBefore) > 0 && !ownedBefore[hs[0][0]] {
		add("bind-preowned-ip-not-reused", "the key owned an address, the pod got the new address "+IPStr(hs[0][0]))
	}
	var nodeIP uint32
	for _, n := range w.Conf.Nodes {
		if n.Name == op.BindNode {
			nodeIP = n.IP
		}
	}
	for i, h := range hs {
		var pool *Pool
		for j := range w.Pools {
			if w.Pools[j].Has(h[0]) {
				pool = &w.Pools[j]
				break
			}
		}
		if pool == nil {
			continue // (not configured: the reservation monitor's business)
		}
		if int(h[1]) != pool.Bits || h[2] != pool.Gateway || int(h[3]) != pool.Vlan {
			add("bind-annotation-entry-of-another-pool", fmt.Sprintf("entry %d: %s travels with /%d gw %s vlan %d, its pool has /%d gw %s vlan %d",
				i+1, IPStr(h[0]), h[1], IPStr(h[2]), h[3], pool.Bits, IPStr(pool.Gateway), pool.Vlan))
		}
		routable := false
		for _, sn := range pool.NodeSubnets {
			sh := uint(32 - sn.Bits)
			if sn.Bits == 0 || nodeIP>>sh == sn.Base>>sh {
				routable = true
			}
		}
		// (an address the key already owned is where it is - whether the node can reach it is Filter's business, C06)
		if nodeIP != 0 && !routable && !ownedBefore[h[0]] {
			add("bind-annotation-ip-not-routable", fmt.Sprintf("entry %d: %s is not routable from node %s", i+1, IPStr(h[0]), op.BindNode))
		}
	}
	return out
}

func ipList(hs [][4]uint32) string {
	var l []string
	for _, h := range hs {
		l = append(l, IPStr(h[0]))
	}
	return "[" + strings.Join(l, " ") + "]"
}

// bindRangesConf: two pools on one node subnet (different /24, gateway, vlan) and a second node subnet that only the
// second pool serves - entries of one request may come from both pools.
func bindRangesConf(rng *rand.Rand) Conf {
	a, b := uint32(168427520), uint32(168427776) // 10.10.0.0/24, 10.10.1.0/24
	sn1, sn2 := Subnet{168362240, 24}, Subnet{168362496, 24}
	c := Conf{Provider: rng.Intn(3) == 0,
		Nodes: []Node{{"n1", 168362245}, {"n2", 168362501}},
		Pools: []Pool{
			{NodeSubnets: []Subnet{sn1}, Ranges: [][2]uint32{{a + 2, a + 13}}, Gateway: a + 1, Bits: 24, Vlan: 2},
			{NodeSubnets: []Subnet{sn1, sn2}, Ranges: [][2]uint32{{b + 2, b + 13}}, Gateway: b + 1, Bits: 24, Vlan: 3},
		}}
	return c
}

// bindRangesScript: a pod that asks for k range lists and already owns the addresses of a given non-empty proper subset
// of them when it is bound - every subset, "a later one but not an earlier one" included.  How the subset comes about:
// (A) the earlier incarnation asked for those lists only (the annotation gained lists since), or (B) it asked for all,
// and the other addresses were released through the API before the pod came back.
func bindRangesScript(i int, rng *rand.Rand) (Conf, Script, int) {
	conf := bindRangesConf(rng)
	k := 2 + i%2 // 2 or 3 lists
	subsets := (1 << uint(k)) - 2
	mask := 1 + (i/2)%subsets // every non-empty proper subset in turn
	variantB := (i/(2*subsets))%2 == 1
	a, b := uint32(168427520), uint32(168427776)
	// k disjoint lists, alternating pools, one or two intervals each
	var lists [][][2]uint32
	for j := 0; j < k; j++ {
		base := a
		if (j+i/7)%2 == 1 {
			base = b
		}
		lo := base + 2 + uint32(4*j)
		l := [][2]uint32{{lo, lo + uint32(rng.Intn(2))}}
		if rng.Intn(3) == 0 {
			l = append(l, [2]uint32{lo + 2, lo + 3})
		}
		lists = append(lists, l)
	}
	if rng.Intn(2) == 0 { // the request need not be sorted by address
		rng.Shuffle(len(lists), func(x, y int) { lists[x], lists[y] = lists[y], lists[x] })
	}
	var owned [][][2]uint32
	for j := 0; j < k; j++ {
		if mask&(1<<uint(j)) != 0 {
			owned = append(owned, lists[j])
		}
	}
	first := owned
	if variantB {
		first = lists
	}
	node := "n1"
	fault, pfault := 0, 0
	if rng.Intn(4) == 0 {
		fault = 1 + rng.Intn(5)
	}
	if conf.Provider && rng.Intn(6) == 0 {
		pfault = 1 + rng.Intn(2)
	}
	policy := 1 + rng.Intn(2) // immutable / never: the addresses survive the pod
	var pending []string
	phase := 0
	script := func(w *World, step int) string {
		for len(pending) == 0 {
			switch phase {
			case 0:
				pending = []string{"app scale sts ns1 a 2",
					fmt.Sprintf("pod create ns1 a-0 sts a ~ %d %s 1", policy, RangesLine(first)), "sync all",
					"filter ns1 a-0 n1,n2 ? ? 0", "bind ns1 a-0 1 " + node + " ? ? 0 0", "pod run ns1 a-0",
					"pod delete ns1 a-0", "sync all", "deliver 0 0 0"}
			case 1:
				if variantB { // release, through the API, what the pod shall not own any more
					for _, r := range w.IPAMDump() {
						if r.Free || !strings.HasPrefix(r.Key, "sts_ns1_a_a-0") {
							continue
						}
						keep := false
						for _, l := range owned {
							for _, iv := range l {
								if iv[0] <= r.IP && r.IP <= iv[1] {
									keep = true
								}
							}
						}
						if !keep {
							pending = append(pending, "release "+strconv.FormatUint(uint64(r.IP), 10)+" sts_ ns1 a a-0 ~ 0 0")
						}
					}
				}
				pending = append(pending, fmt.Sprintf("pod create ns1 a-0 sts a ~ %d %s 1", policy, RangesLine(lists)), "sync all",
					"filter ns1 a-0 n1,n2 ? ? 0", fmt.Sprintf("bind ns1 a-0 2 %s ? ? %d %d", node, fault, pfault))
			case 2:
				pending = []string{"resync ? 0 0", "bind ns1 a-0 2 " + node + " ? ? 0 0", "resync ? 0 0"}
			default:
				return ""
			}
			phase++
		}
		l := pending[0]
		pending = pending[1:]
		return l
	}
	return conf, script, 40
}

// RunBindRanges is the bind-level part of C08 (used by cmd/c08 and cmd/c13 as well): the scripted partially pre-owned
// multi-range binds above, then random histories of a generator profile whose pods request ranges and change them
// between incarnations - all under MonitorC08 and compared with the model (gxdrv_plugin) step by step.
func RunBindRanges(e *hx.Env, prop string) *Batch {
	mon := Monitor(MonitorC08)
	b := RunScripted(e, prop, e.N(96, 960), 0, bindRangesScript, mon)
	p := DefaultParams()
	p.VaryRanges, p.RangesPct, p.Identities, p.Len = true, 85, 3, 50
	b2 := RunCorrespondence(e, prop, e.N(250, 5000), p, mon)
	for k, v := range b2.Stats {
		b.Stats[k] += v
	}
	for k, v := range b2.HistoryFlags {
		b.HistoryFlags[k] += v
	}
	b.Histories += b2.Histories
	b.Ops += b2.Ops
	b.Trivial += b2.Trivial
	b.Nontrivial = append(b.Nontrivial, b2.Nontrivial...)
	b.Violations = append(b.Violations, b2.Violations...)
	b.Disagree = append(b.Disagree, b2.Disagree...)
	b.Errors = append(b.Errors, b2.Errors...)
	b.HistoryFlags["bind-ranges-scripted"] = e.N(96, 960)
	return b
}
