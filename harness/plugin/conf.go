// Package plugin is the reusable correspondence harness of the work package "plugin" (model M4-core): it builds the
// REAL galaxy-ipam scheduler plugin in-process on fake clientsets behind call-counting / fault-injecting decorators
// and harness-controlled listers, executes op lines (the protocol of gxdrv_plugin) against it, prints canonical
// digests, generates random and small-scope exhaustive histories and compares everything with the Lean model.
//
// API for property commands built on this package (C02, C03, C06, C07, C10 add monitors, not models):
//
//	w, err := plugin.NewWorld(conf, rng)          // the real plugin on a fresh fake cluster
//	final, result := w.Apply("bind ns1 a-0 1 n1 ? ? 0 0") // one op line; `?` choices are observed and filled in
//	w.Digest()                                    // canonical state digest (= `dump` answer of gxdrv_plugin)
//	w.IPAMDump(), w.TruthPods(), w.LiveBound(), w.Prov.Log, w.Events, w.LastOp   // observation for monitors
//	conf, script := plugin.GenHistory(rng, params)         // online generator (Appendix D), params see GenParams
//	t, w, err := plugin.Execute(conf, rng, script, monitor, maxOps) // run + dump after every op + monitor
//	d, err := plugin.Compare(e, t)                // pipe the transcript to gxdrv_plugin, first disagreement
//	b := plugin.RunCorrespondence(e, "Cxx", n, params, monitor); b.Fill(report)  // n histories in parallel
//	x := plugin.Exhaustive(e, "Cxx", monitor, depth, seconds)                    // small-scope BFS
//	report := plugin.RunProperty(e, "Cxx", monitor) // corpus + 4 generator profiles (+ exhaustive when thorough)
//
// A Monitor is `func(w *World, step int) []hx.Violation`, evaluated after every op on the REAL state; it may keep
// state in w.Mon.  Op-line syntax: see lean/Galaxy/Drv/Plugin.lean.
package plugin

import (
	"fmt"
	"sort"
	"strconv"
	"strings"
)

// Subnet is a node subnet (masked base address, prefix length).
type Subnet struct {
	Base uint32
	Bits int
}

func IPStr(ip uint32) string {
	return fmt.Sprintf("%d.%d.%d.%d", ip>>24, (ip>>16)&255, (ip>>8)&255, ip&255)
}

func ParseIPv4(s string) (uint32, bool) {
	parts := strings.Split(s, ".")
	if len(parts) != 4 {
		return 0, false
	}
	var v uint32
	for _, p := range parts {
		n, err := strconv.Atoi(p)
		if err != nil || n < 0 || n > 255 {
			return 0, false
		}
		v = v<<8 | uint32(n)
	}
	return v, true
}

func (n Subnet) String() string { return fmt.Sprintf("%s/%d", IPStr(n.Base), n.Bits) }

func (n Subnet) Contains(ip uint32) bool {
	sh := uint(32 - n.Bits)
	if n.Bits == 0 {
		return true
	}
	return ip>>sh == n.Base>>sh
}

// Pool is one floating-IP pool of the configuration.
type Pool struct {
	NodeSubnets []Subnet
	Ranges      [][2]uint32
	Gateway     uint32
	Bits        int
	Vlan        int
}

func (p Pool) Has(ip uint32) bool {
	sh := uint(32 - p.Bits)
	if p.Bits != 0 && ip>>sh != p.Gateway>>sh {
		return false
	}
	for _, r := range p.Ranges {
		if r[0] <= ip && ip <= r[1] {
			return true
		}
	}
	return false
}

type Node struct {
	Name string
	IP   uint32
}

// Conf is the initial world: pools, nodes, cloud provider on/off.
type Conf struct {
	Pools    []Pool
	Nodes    []Node
	Provider bool
}

func ConfHas(pools []Pool, ip uint32) bool {
	for _, p := range pools {
		if p.Has(ip) {
			return true
		}
	}
	return false
}

// PoolsLine renders pools in the op-line syntax: gw/bits/vlan|base@bits,…|first-last,… joined by ';'
func PoolsLine(pools []Pool) string {
	if len(pools) == 0 {
		return "-"
	}
	var ps []string
	for _, p := range pools {
		var ns, rs []string
		for _, n := range p.NodeSubnets {
			ns = append(ns, fmt.Sprintf("%d@%d", n.Base, n.Bits))
		}
		for _, r := range p.Ranges {
			rs = append(rs, fmt.Sprintf("%d-%d", r[0], r[1]))
		}
		ps = append(ps, fmt.Sprintf("%d/%d/%d|%s|%s", p.Gateway, p.Bits, p.Vlan, dashIfEmpty(strings.Join(ns, ",")),
			dashIfEmpty(strings.Join(rs, ","))))
	}
	return strings.Join(ps, ";")
}

func dashIfEmpty(s string) string {
	if s == "" {
		return "-"
	}
	return s
}

func ParsePoolsLine(s string) ([]Pool, error) {
	if s == "-" || s == "" {
		return nil, nil
	}
	var out []Pool
	for _, ps := range strings.Split(s, ";") {
		f := strings.Split(ps, "|")
		if len(f) != 3 {
			return nil, fmt.Errorf("bad pool %q", ps)
		}
		h := strings.Split(f[0], "/")
		if len(h) != 3 {
			return nil, fmt.Errorf("bad pool head %q", f[0])
		}
		gw, e1 := strconv.ParseUint(h[0], 10, 32)
		bits, e2 := strconv.Atoi(h[1])
		vlan, e3 := strconv.Atoi(h[2])
		if e1 != nil || e2 != nil || e3 != nil {
			return nil, fmt.Errorf("bad pool head %q", f[0])
		}
		p := Pool{Gateway: uint32(gw), Bits: bits, Vlan: vlan}
		if f[1] != "-" {
			for _, n := range strings.Split(f[1], ",") {
				x := strings.Split(n, "@")
				if len(x) != 2 {
					return nil, fmt.Errorf("bad subnet %q", n)
				}
				b, e1 := strconv.ParseUint(x[0], 10, 32)
				k, e2 := strconv.Atoi(x[1])
				if e1 != nil || e2 != nil {
					return nil, fmt.Errorf("bad subnet %q", n)
				}
				p.NodeSubnets = append(p.NodeSubnets, Subnet{uint32(b), k})
			}
		}
		if f[2] != "-" {
			rs, err := parseRangeList(f[2])
			if err != nil {
				return nil, err
			}
			p.Ranges = rs
		}
		out = append(out, p)
	}
	return out, nil
}

func parseRangeList(s string) ([][2]uint32, error) {
	var out [][2]uint32
	if s == "-" || s == "" {
		return nil, nil
	}
	for _, r := range strings.Split(s, ",") {
		x := strings.Split(r, "-")
		if len(x) != 2 {
			return nil, fmt.Errorf("bad range %q", r)
		}
		a, e1 := strconv.ParseUint(x[0], 10, 32)
		b, e2 := strconv.ParseUint(x[1], 10, 32)
		if e1 != nil || e2 != nil {
			return nil, fmt.Errorf("bad range %q", r)
		}
		out = append(out, [2]uint32{uint32(a), uint32(b)})
	}
	return out, nil
}

// ParseRanges parses `f-l,f-l;f-l` (';' separates the range lists), "-" = none.
func ParseRanges(s string) ([][][2]uint32, error) {
	if s == "-" || s == "" {
		return nil, nil
	}
	var out [][][2]uint32
	for _, l := range strings.Split(s, ";") {
		rs, err := parseRangeList(l)
		if err != nil {
			return nil, err
		}
		out = append(out, rs)
	}
	return out, nil
}

func RangesLine(rss [][][2]uint32) string {
	if len(rss) == 0 {
		return "-"
	}
	var ls []string
	for _, rs := range rss {
		var x []string
		for _, r := range rs {
			x = append(x, fmt.Sprintf("%d-%d", r[0], r[1]))
		}
		ls = append(ls, strings.Join(x, ","))
	}
	return strings.Join(ls, ";")
}

// InitLine is the `init` op line of a configuration.
func (c Conf) InitLine() string {
	var ns []string
	for _, n := range c.Nodes {
		ns = append(ns, fmt.Sprintf("%s:%d", n.Name, n.IP))
	}
	prov := "0"
	if c.Provider {
		prov = "1"
	}
	return fmt.Sprintf("init %s %s %s", PoolsLine(c.Pools), dashIfEmpty(strings.Join(ns, ",")), prov)
}

func ParseInitLine(line string) (Conf, error) {
	w := strings.Fields(line)
	if len(w) != 4 || w[0] != "init" {
		return Conf{}, fmt.Errorf("bad init line %q", line)
	}
	pools, err := ParsePoolsLine(w[1])
	if err != nil {
		return Conf{}, err
	}
	c := Conf{Pools: pools, Provider: w[3] == "1"}
	if w[2] != "-" {
		for _, n := range strings.Split(w[2], ",") {
			x := strings.Split(n, ":")
			if len(x) != 2 {
				return Conf{}, fmt.Errorf("bad node %q", n)
			}
			ip, err := strconv.ParseUint(x[1], 10, 32)
			if err != nil {
				return Conf{}, err
			}
			c.Nodes = append(c.Nodes, Node{x[0], uint32(ip)})
		}
	}
	return c, nil
}

// PoolsJSON renders the pools as the floatingips configuration text galaxy-ipam reads.
func PoolsJSON(pools []Pool) string {
	var ps []string
	for _, p := range pools {
		var ns, rs []string
		for _, n := range p.NodeSubnets {
			ns = append(ns, strconv.Quote(n.String()))
		}
		for _, r := range p.Ranges {
			if r[0] == r[1] {
				rs = append(rs, strconv.Quote(IPStr(r[0])))
			} else {
				rs = append(rs, strconv.Quote(IPStr(r[0])+"~"+IPStr(r[1])))
			}
		}
		sh := uint(32 - p.Bits)
		sub := p.Gateway >> sh << sh
		ps = append(ps, fmt.Sprintf(`{"nodeSubnets":[%s],"ips":[%s],"subnet":"%s/%d","gateway":"%s","vlan":%d}`,
			strings.Join(ns, ","), strings.Join(rs, ","), IPStr(sub), p.Bits, IPStr(p.Gateway), p.Vlan))
	}
	return "[" + strings.Join(ps, ",") + "]"
}

func sortedStrings(m map[string]bool) []string {
	var ks []string
	for k := range m {
		ks = append(ks, k)
	}
	sort.Strings(ks)
	return ks
}
