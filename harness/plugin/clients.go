package plugin

import (
	"context"
	"errors"
	"fmt"
	"sync"

	corev1 "k8s.io/api/core/v1"
	apierrors "k8s.io/apimachinery/pkg/api/errors"
	metav1 "k8s.io/apimachinery/pkg/apis/meta/v1"
	"k8s.io/apimachinery/pkg/runtime/schema"
	"k8s.io/client-go/kubernetes"
	typedcore "k8s.io/client-go/kubernetes/typed/core/v1"
	"tkestack.io/galaxy/pkg/ipam/apis/galaxy/v1alpha1"
	crdclient "tkestack.io/galaxy/pkg/ipam/client/clientset/versioned"
	typedgalaxy "tkestack.io/galaxy/pkg/ipam/client/clientset/versioned/typed/galaxy/v1alpha1"
)

// ErrInjected is what a faulted apiserver call returns (neither NotFound nor a timeout).
var ErrInjected = errors.New("injected fault: apiserver call failed")

// Call is one apiserver call the plugin made during the current op.
type Call struct {
	Verb, Resource, Name string
	Failed               bool
}

// Counter numbers the apiserver calls of the current op and fails call number Fault (0 = none).
// It is shared by both clientset decorators.  Decorators, not reactors: the fake clientsets run reactors under
// their own lock.
type Counter struct {
	G     *Gate // optional: parks / records accesses for the lock-exclusion probe
	B     *Bomb // optional: kills the "process" before external call number At+1
	mu    sync.Mutex
	N     int
	Fault int
	Log   []Call
	// BindMode is the fate of the pods/binding calls of the current op: "" (answered truthfully), "lost" (the first
	// one is applied at the server but a timeout is returned; later ones are answered truthfully) or "unavail" (every
	// one fails with 500, nothing applied)
	BindMode string
	binds    int
}

func (c *Counter) Reset(fault int) {
	c.mu.Lock()
	c.N, c.Fault, c.Log = 0, fault, nil
	c.BindMode, c.binds = "", 0
	c.mu.Unlock()
}

// tick counts one call and says whether it must fail.
func (c *Counter) tick(verb, res, name string) bool {
	c.B.Check()
	c.G.Hit("client", verb+" "+res+" "+name)
	c.mu.Lock()
	defer c.mu.Unlock()
	c.N++
	failed := c.Fault != 0 && c.N == c.Fault
	c.Log = append(c.Log, Call{verb, res, name, failed})
	return failed
}

func (c *Counter) Calls() []Call {
	c.mu.Lock()
	defer c.mu.Unlock()
	return append([]Call(nil), c.Log...)
}

// Bomb simulates the death of the process between two external calls: the decorators of the clientsets and the
// provider call Check at the entry of every call; call number At+1 (counting apiserver calls and provider requests
// together, in the order the code makes them) never happens - Check panics with CrashPanic instead.
type Bomb struct {
	mu    sync.Mutex
	Armed bool
	At, N int
}

// CrashPanic is the panic value of a simulated process death.
const CrashPanic = "plugin-crash-injected"

func (b *Bomb) Check() {
	if b == nil {
		return
	}
	b.mu.Lock()
	if !b.Armed {
		b.mu.Unlock()
		return
	}
	b.N++
	boom := b.N > b.At
	b.mu.Unlock()
	if boom {
		panic(CrashPanic)
	}
}

func (b *Bomb) Arm(at int) { b.mu.Lock(); b.Armed, b.At, b.N = true, at, 0; b.mu.Unlock() }
func (b *Bomb) Disarm()    { b.mu.Lock(); b.Armed = false; b.mu.Unlock() }

// ---- kubernetes.Interface decorator ----

type kubeDeco struct {
	kubernetes.Interface
	c *Counter
}

func (k *kubeDeco) CoreV1() typedcore.CoreV1Interface {
	return &coreDeco{k.Interface.CoreV1(), k.c}
}

type coreDeco struct {
	typedcore.CoreV1Interface
	c *Counter
}

func (d *coreDeco) Pods(ns string) typedcore.PodInterface {
	return &podsDeco{d.CoreV1Interface.Pods(ns), ns, d.c}
}
func (d *coreDeco) Nodes() typedcore.NodeInterface { return &nodesDeco{d.CoreV1Interface.Nodes(), d.c} }
func (d *coreDeco) ConfigMaps(ns string) typedcore.ConfigMapInterface {
	return &cmDeco{d.CoreV1Interface.ConfigMaps(ns), d.c}
}

type podsDeco struct {
	typedcore.PodInterface
	ns string
	c  *Counter
}

func (p *podsDeco) Get(ctx context.Context, name string, o metav1.GetOptions) (*corev1.Pod, error) {
	if p.c.tick("get", "pods", p.ns+"/"+name) {
		return nil, ErrInjected
	}
	return p.PodInterface.Get(ctx, name, o)
}

// Bind does what the apiserver's pods/binding subresource does: UID precondition, set spec.nodeName, merge the
// binding's annotations into the pod.
func (p *podsDeco) Bind(ctx context.Context, b *corev1.Binding, o metav1.CreateOptions) error {
	if p.c.tick("bind", "pods", p.ns+"/"+b.Name) {
		return ErrInjected
	}
	p.c.mu.Lock()
	mode := p.c.BindMode
	p.c.binds++
	nth := p.c.binds
	p.c.mu.Unlock()
	if mode == "unavail" {
		return apierrors.NewInternalError(errors.New("etcdserver: request timed out"))
	}
	pod, err := p.PodInterface.Get(ctx, b.Name, metav1.GetOptions{})
	if err != nil {
		return err // 404 NotFound
	}
	if b.UID != "" && pod.UID != b.UID {
		return apierrors.NewConflict(schema.GroupResource{Resource: "pods"}, b.Name, errors.New("uid precondition failed"))
	}
	if pod.Spec.NodeName != "" {
		// BindingREST.assignPod: "pod %v is already assigned to node %q"
		return apierrors.NewConflict(schema.GroupResource{Resource: "pods/binding"}, b.Name,
			fmt.Errorf("pod %s is already assigned to node %q", b.Name, pod.Spec.NodeName))
	}
	pod = pod.DeepCopy()
	pod.Spec.NodeName = b.Target.Name
	if pod.Annotations == nil {
		pod.Annotations = map[string]string{}
	}
	for k, v := range b.Annotations {
		pod.Annotations[k] = v
	}
	_, err = p.PodInterface.Update(ctx, pod, metav1.UpdateOptions{})
	if err == nil && mode == "lost" && nth == 1 {
		// applied at the server, the response never reaches the client
		return apierrors.NewTimeoutError("the server was unable to return a response in the time allotted", 1)
	}
	return err
}

type nodesDeco struct {
	typedcore.NodeInterface
	c *Counter
}

func (n *nodesDeco) Get(ctx context.Context, name string, o metav1.GetOptions) (*corev1.Node, error) {
	if n.c.tick("get", "nodes", name) {
		return nil, ErrInjected
	}
	return n.NodeInterface.Get(ctx, name, o)
}

type cmDeco struct {
	typedcore.ConfigMapInterface
	c *Counter
}

func (m *cmDeco) Get(ctx context.Context, name string, o metav1.GetOptions) (*corev1.ConfigMap, error) {
	if m.c.tick("get", "configmaps", name) {
		return nil, ErrInjected
	}
	return m.ConfigMapInterface.Get(ctx, name, o)
}

// ---- galaxy clientset decorator ----

type galaxyDeco struct {
	crdclient.Interface
	c *Counter
}

func (g *galaxyDeco) GalaxyV1alpha1() typedgalaxy.GalaxyV1alpha1Interface {
	return &galaxyV1Deco{g.Interface.GalaxyV1alpha1(), g.c}
}

type galaxyV1Deco struct {
	typedgalaxy.GalaxyV1alpha1Interface
	c *Counter
}

func (g *galaxyV1Deco) FloatingIPs() typedgalaxy.FloatingIPInterface {
	return &fipDeco{g.GalaxyV1alpha1Interface.FloatingIPs(), g.c}
}

type fipDeco struct {
	typedgalaxy.FloatingIPInterface
	c *Counter
}

func (f *fipDeco) Create(ctx context.Context, o *v1alpha1.FloatingIP, opts metav1.CreateOptions) (*v1alpha1.FloatingIP, error) {
	if f.c.tick("create", "floatingips", o.Name) {
		return nil, ErrInjected
	}
	return f.FloatingIPInterface.Create(ctx, o, opts)
}
func (f *fipDeco) Update(ctx context.Context, o *v1alpha1.FloatingIP, opts metav1.UpdateOptions) (*v1alpha1.FloatingIP, error) {
	if f.c.tick("update", "floatingips", o.Name) {
		return nil, ErrInjected
	}
	return f.FloatingIPInterface.Update(ctx, o, opts)
}
func (f *fipDeco) Delete(ctx context.Context, name string, opts metav1.DeleteOptions) error {
	if f.c.tick("delete", "floatingips", name) {
		return ErrInjected
	}
	return f.FloatingIPInterface.Delete(ctx, name, opts)
}
func (f *fipDeco) Get(ctx context.Context, name string, opts metav1.GetOptions) (*v1alpha1.FloatingIP, error) {
	if f.c.tick("get", "floatingips", name) {
		return nil, ErrInjected
	}
	return f.FloatingIPInterface.Get(ctx, name, opts)
}
func (f *fipDeco) List(ctx context.Context, opts metav1.ListOptions) (*v1alpha1.FloatingIPList, error) {
	if f.c.tick("list", "floatingips", "") {
		return nil, ErrInjected
	}
	return f.FloatingIPInterface.List(ctx, opts)
}
