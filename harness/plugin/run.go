package plugin

import (
	"fmt"
	"math/rand"
	"strings"
	"sync"
	"time"

	"gxverif/hx"
)

// Monitor evaluates a property on the real world after op number step; violations need no Replay (the runner adds it).
type Monitor func(w *World, step int) []hx.Violation

// Transcript is one executed history: the lines for the model (init, op, dump, op, dump, …) and what the
// implementation answered to each.
type Transcript struct {
	Lines      []string
	Impl       []string
	Ops        []string // op lines only (init first) - the replay file
	Violations []hx.Violation
	Hang       string // non-empty: an op panicked or hung ("panic: …" / "hang")
	Stats      map[string]int
}

func (t *Transcript) hit(k string) { t.Stats[k]++ }

// Script yields the next op line (template) for the world, or "" to stop.
type Script func(w *World, step int) string

// FixedScript replays a list of op lines.
func FixedScript(ops []string) Script {
	return func(w *World, step int) string {
		if step < len(ops) {
			return ops[step]
		}
		return ""
	}
}

func opKindOf(line string) string {
	f := strings.Fields(line)
	if len(f) == 0 {
		return ""
	}
	switch f[0] {
	case "pod", "app", "pool", "sync":
		if len(f) > 1 {
			return f[0] + "-" + f[1]
		}
	}
	return f[0]
}

// Execute runs a script against a fresh world built from conf, dumping after every op and running the monitor.
func Execute(conf Conf, rng *rand.Rand, script Script, mon Monitor, maxOps int) (*Transcript, *World, error) {
	t := &Transcript{Stats: map[string]int{}}
	w, err := NewWorld(conf, rng)
	if err != nil {
		return nil, nil, err
	}
	init := conf.InitLine()
	t.Lines = append(t.Lines, init)
	t.Impl = append(t.Impl, "ok")
	t.Ops = append(t.Ops, init)
	for step := 0; step < maxOps; step++ {
		line := script(w, step)
		if line == "" {
			break
		}
		if strings.HasPrefix(line, "dump") || strings.HasPrefix(line, "init") {
			continue
		}
		var final, res string
		if f := strings.Fields(line); len(f) > 3 && f[0] == "crash" {
			// replay of a crash experiment: die after k apiserver calls + j provider requests (in the op's own order)
			var crashed bool
			final, res, crashed = w.ApplyCrash(strings.Join(f[3:], " "), atoiDef(f[1])+atoiDef(f[2]))
			if !crashed {
				final = line
			}
		} else {
			final, res = w.Apply(line)
		}
		t.Lines = append(t.Lines, final)
		t.Impl = append(t.Impl, res)
		t.Ops = append(t.Ops, final)
		k := opKindOf(final)
		t.hit("op:" + k)
		cls := res
		if i := strings.IndexByte(res, ' '); i > 0 && strings.HasPrefix(res, "ok") {
			cls = "ok"
		}
		t.hit("res:" + k + ":" + cls)
		if strings.HasPrefix(res, "panic") || res == "hang" {
			t.Hang = res
			break
		}
		if (k == "reload" || k == "restart") && res == "ok" {
			// coverage: in how many pools (and in a later pool of a shared pod subnet?) live bound pods held addresses
			// when ConfigurePool rebuilt the tables
			pools := map[int]bool{}
			later := false
			for _, lp := range w.LiveBound() {
				for _, ip := range lp.IPs {
					for i, pl := range w.Pools {
						if pl.Has(ip) {
							pools[i] = true
							for j, q := range w.Pools {
								if j != i && q.Gateway>>8 == pl.Gateway>>8 && (q.Gateway < pl.Gateway || (q.Gateway == pl.Gateway && j < i)) {
									later = true
								}
							}
						}
					}
				}
			}
			t.hit(fmt.Sprintf("%s-with-live-ips-in-%d-pools", k, len(pools)))
			if later {
				t.hit(k + "-with-live-ip-in-later-pool-of-shared-subnet")
			}
		}
		t.Lines = append(t.Lines, "dump")
		t.Impl = append(t.Impl, w.Digest())
		if mon != nil {
			for _, v := range mon(w, step) {
				v.Ops = append([]string(nil), t.Ops...)
				t.Violations = append(t.Violations, v)
			}
			if len(t.Violations) > 0 {
				break
			}
		}
	}
	return t, w, nil
}

// Compare pipes the transcript to gxdrv_plugin and returns the first disagreement (nil if none).
func Compare(e *hx.Env, t *Transcript) (*hx.Disagreement, error) {
	out, err := e.RunDriver("plugin", t.Lines)
	if err != nil {
		return nil, err
	}
	for i := range t.Lines {
		if !ResultsAgree(t.Impl[i], out[i]) {
			where := opKindOf(t.Lines[i])
			idx := i
			if t.Lines[i] == "dump" && i > 0 {
				where = "state-after:" + opKindOf(t.Lines[i-1])
			}
			return &hx.Disagreement{Where: where, Index: idx, Impl: t.Impl[i], Model: out[i]}, nil
		}
	}
	return nil, nil
}

// ReplayOps executes the op lines of a replay file (first line `init …`).
func ReplayOps(ops []string, rng *rand.Rand, mon Monitor) (*Transcript, error) {
	if len(ops) == 0 {
		return nil, fmt.Errorf("empty replay")
	}
	conf, err := ParseInitLine(ops[0])
	if err != nil {
		return nil, err
	}
	t, _, err := Execute(conf, rng, FixedScript(ops[1:]), mon, len(ops))
	return t, err
}

// Shrink removes ops greedily while pred keeps holding (cheap delta debugging on the op list; init stays).
func Shrink(ops []string, pred func(ops []string) bool) []string {
	cur := append([]string(nil), ops...)
	for chunk := len(cur) / 2; chunk >= 1; chunk /= 2 {
		for i := 1; i+chunk <= len(cur); {
			cand := append(append([]string(nil), cur[:i]...), cur[i+chunk:]...)
			if pred(cand) {
				cur = cand
			} else {
				i += chunk
			}
		}
	}
	return cur
}

// Outcome of a batch of histories.
type Batch struct {
	Histories    int
	Ops          int
	Disagree     []hx.Disagreement
	Violations   []hx.Violation
	Errors       []string
	Stats        map[string]int
	Nontrivial   []string // contents of nontrivial histories (for Report.Case)
	Trivial      int
	SampleOps    [][]string
	HistoryFlags map[string]int
}

// RunCorrespondence executes n generated histories (seeds derived from e.Rng) in parallel, runs the monitor after
// every op, compares each transcript with the model, shrinks and writes replays for failures.
func RunCorrespondence(e *hx.Env, prop string, n int, params GenParams, mon Monitor) *Batch {
	return RunScripted(e, prop, n, params.Par, func(i int, rng *rand.Rand) (Conf, Script, int) {
		conf := GenConf(rng, params)
		g := NewGen(rng, conf, params)
		return conf, g.Next, params.Len
	}, mon)
}

// RunScripted executes n histories concurrently (par at a time, 0 = 48): history i is produced by the script mk returns
// for it (with its configuration and maximal length), runs against the real plugin under the monitor and is compared
// with the model step by step; violations are shrunk and written as replays.
func RunScripted(e *hx.Env, prop string, n int, par int, mk func(i int, rng *rand.Rand) (Conf, Script, int), mon Monitor) *Batch {
	b := &Batch{Stats: map[string]int{}, HistoryFlags: map[string]int{}}
	seeds := make([]int64, n)
	for i := range seeds {
		seeds[i] = e.Rng.Int63()
	}
	type res struct {
		t    *Transcript
		d    *hx.Disagreement
		err  error
		seed int64
		conf Conf
	}
	results := make([]res, n)
	shrunk := map[string]bool{}
	var wg sync.WaitGroup
	if par <= 0 {
		par = 48
	}
	sem := make(chan struct{}, par)
	for i := 0; i < n; i++ {
		wg.Add(1)
		sem <- struct{}{}
		go func(i int) {
			defer wg.Done()
			defer func() { <-sem }()
			rng := rand.New(rand.NewSource(seeds[i]))
			conf, script, maxOps := mk(i, rng)
			t, _, err := Execute(conf, rng, script, mon, maxOps)
			r := res{t: t, err: err, seed: seeds[i], conf: conf}
			if err == nil {
				r.d, r.err = Compare(e, t)
			}
			results[i] = r
		}(i)
	}
	wg.Wait()
	for i, r := range results {
		if r.err != nil {
			b.Errors = append(b.Errors, r.err.Error())
			continue
		}
		b.Histories++
		b.Ops += len(r.t.Ops) - 1
		for k, v := range r.t.Stats {
			b.Stats[k] += v
		}
		okOps := 0
		for j, l := range r.t.Lines {
			if l != "dump" && j > 0 && strings.HasPrefix(r.t.Impl[j], "ok") && !strings.HasPrefix(l, "sync") {
				okOps++
			}
		}
		if okOps >= 3 {
			b.Nontrivial = append(b.Nontrivial, strings.Join(r.t.Ops, "\n"))
		} else {
			b.Trivial++
		}
		if len(b.SampleOps) < 2 {
			b.SampleOps = append(b.SampleOps, r.t.Ops)
		}
		if r.t.Hang != "" {
			name := fmt.Sprintf("hang-%d", i)
			p := e.WriteReplay(prop, "history", name, []string{"outcome=" + r.t.Hang}, r.t.Ops)
			b.Violations = append(b.Violations, hx.Violation{Signature: "op-" + strings.Fields(r.t.Hang)[0] + ":" +
				opKindOf(r.t.Ops[len(r.t.Ops)-1]), What: "operation did not return normally: " + r.t.Hang, Replay: p})
		}
		for _, v := range r.t.Violations {
			ops := v.Ops
			sig := v.Signature
			if shrunk[sig] {
				// one minimised replay per kind of failure is enough; the others keep their full history
				v.Replay = e.WriteReplay(prop, "history", fmt.Sprintf("viol-%s-%d", sanitize(sig), i),
					[]string{"signature=" + sig, "what=" + v.What}, ops)
				b.Violations = append(b.Violations, v)
				continue
			}
			shrunk[sig] = true
			deadline := time.Now().Add(15 * time.Second)
			small := Shrink(ops, func(c []string) bool {
				if time.Now().After(deadline) {
					return false
				}
				t2, err := ReplayOps(c, rand.New(rand.NewSource(r.seed)), mon)
				if err != nil {
					return false
				}
				for _, v2 := range t2.Violations {
					if v2.Signature == sig {
						return true
					}
				}
				return false
			})
			v.Ops = small
			v.Replay = e.WriteReplay(prop, "history", fmt.Sprintf("viol-%s-%d", sanitize(sig), i),
				[]string{"signature=" + sig, "what=" + v.What}, small)
			b.Violations = append(b.Violations, v)
		}
		if r.d != nil {
			d := *r.d
			d.Ops = r.t.Ops
			d.Replay = e.WriteReplay(prop, "history", fmt.Sprintf("disagree-%d", i),
				[]string{"where=" + d.Where, fmt.Sprintf("line-index=%d", d.Index), "impl=" + d.Impl, "model=" + d.Model}, r.t.Ops)
			b.Disagree = append(b.Disagree, d)
		}
	}
	return b
}

func sanitize(s string) string {
	var b strings.Builder
	for _, r := range s {
		if (r >= 'a' && r <= 'z') || (r >= 'A' && r <= 'Z') || (r >= '0' && r <= '9') || r == '-' {
			b.WriteRune(r)
		} else {
			b.WriteByte('_')
		}
	}
	return b.String()
}

// Fill copies a batch into the report.
func (b *Batch) Fill(r *hx.Report) {
	for k, v := range b.Stats {
		r.Histogram[k] += v
	}
	for k, v := range b.HistoryFlags {
		r.Histogram["history:"+k] += v
	}
	for _, c := range b.Nontrivial {
		r.Case(c, true)
	}
	for i := 0; i < b.Trivial; i++ {
		r.Case("", false)
	}
	r.Traces += b.Histories
	r.Disagree = append(r.Disagree, b.Disagree...)
	r.Violations = append(r.Violations, b.Violations...)
	for _, s := range b.SampleOps {
		if len(s) > 14 {
			s = s[:14]
		}
		r.Sample(map[string]interface{}{"history": s})
	}
	if len(b.Errors) > 0 {
		r.Extra["harness_errors"] = b.Errors
	}
	n, _ := r.Extra["ops_executed"].(int)
	r.Extra["ops_executed"] = n + b.Ops
	for _, m := range b.Errors {
		// a harness / driver failure must never look like a pass
		r.Disagree = append(r.Disagree, hx.Disagreement{Where: "harness-error", Impl: m, Model: ""})
	}
}
