package plugin

import (
	"fmt"
	"math/rand"
	"strings"
	"sync"
	"time"

	"gxverif/hx"
)

// Exhaustive explores, breadth first, every state the real plugin reaches within `depth` moves over a small alphabet
// (2 pod names of one statefulset x any number of incarnations, 2 addresses, one node subnet, provider on; moves:
// create, delete, finish, lister sync, schedule = filter+bind, deliver oldest event, drop oldest event, resync,
// pod-ip sync, api release, restart, reload same).  States are identified by digest + informer views, so every
// distinct reachable state is expanded once; the monitor runs after every op of every expansion and each expansion
// path is compared with the model.
func Exhaustive(e *hx.Env, prop string, mon Monitor, depth int, budgetSec int) *Batch {
	b := &Batch{Stats: map[string]int{}, HistoryFlags: map[string]int{}}
	conf := Conf{Provider: true,
		Pools: []Pool{{NodeSubnets: []Subnet{subnetPalette[0]}, Ranges: [][2]uint32{{0x0a0a0002, 0x0a0a0003}},
			Gateway: 0x0a0a0001, Bits: 24, Vlan: 0}},
		Nodes: []Node{{"n1", 0x0a090105}}}
	prelude := []string{"app scale sts ns1 a 2", "sync all"}
	alphabet := [][]string{
		{"pod create ns1 a-0 sts a ~ 1 - 1"},
		{"pod create ns1 a-1 sts a ~ 0 - 1"},
		{"pod delete ns1 a-0"},
		{"pod delete ns1 a-1"},
		{"pod finish ns1 a-0"},
		{"sync all"},
		{"filter ns1 a-0 n1 ? ? 0", "bind ns1 a-0 @ n1 ? ? 0 0"},
		{"filter ns1 a-1 n1 ? ? 0", "bind ns1 a-1 @ n1 ? ? 0 0"},
		{"deliver 0 0 0"},
		{"drop 0"},
		{"resync ? 0 0"},
		{"syncips 0"},
		{"pod run ns1 a-0"},
		{"pod term ns1 a-0 0"},
		{"release 168427522 sts_ ns1 a a-0 ~ 0 0"},
		{"restart"},
		{"app scale sts ns1 a 0"},
	}
	deadline := time.Now().Add(time.Duration(budgetSec) * time.Second)
	type node struct{ path []int }
	type result struct {
		t   *Transcript
		key string
		dis *hx.Disagreement
		err error
	}
	expand := func(path []int) result {
		var ops []string
		ops = append(ops, prelude...)
		for _, a := range path {
			ops = append(ops, alphabet[a]...)
		}
		script := func(w *World, step int) string {
			if step >= len(ops) {
				return ""
			}
			l := ops[step]
			if strings.Contains(l, " @ ") { // bind: args.PodUID = the API server's pod
				f := strings.Fields(l)
				uid := "0"
				if tp := w.TruthPod(f[1], f[2]); tp != nil {
					uid = uidNum(tp.UID)
					if tp.Spec.NodeName != "" {
						// a repeated bind of a bound pod is answered 409 and sits out the 3 s of Bind's retry loop in every
						// extension of this path: left to the "binding-answers" profile
						return "sync pods"
					}
				}
				l = strings.Replace(l, " @ ", " "+uid+" ", 1)
			}
			return l
		}
		t, w, err := Execute(conf, rand.New(rand.NewSource(1)), script, mon, len(ops)+1)
		if err != nil {
			return result{err: err}
		}
		r := result{t: t, key: w.Digest() + "#" + w.ViewDigest()}
		if len(t.Violations) == 0 && t.Hang == "" {
			r.dis, r.err = Compare(e, t)
		}
		return r
	}
	seen := map[string]bool{}
	perSig := map[string]int{}
	frontier := []node{{nil}}
	states, complete := 0, -1
	for d := 0; d <= depth && len(frontier) > 0; d++ {
		results := make([]result, len(frontier))
		var wg sync.WaitGroup
		sem := make(chan struct{}, 32)
		timedOut := false
		for i := range frontier {
			if time.Now().After(deadline) {
				timedOut = true
				break
			}
			wg.Add(1)
			sem <- struct{}{}
			go func(i int) {
				defer wg.Done()
				defer func() { <-sem }()
				results[i] = expand(frontier[i].path)
			}(i)
		}
		wg.Wait()
		var next []node
		for i, r := range results {
			if r.t == nil {
				if r.err != nil {
					b.Errors = append(b.Errors, r.err.Error())
				}
				continue
			}
			t := r.t
			b.Histories++
			b.Ops += len(t.Ops) - 1
			if len(t.Violations) > 0 || t.Hang != "" {
				for _, v := range t.Violations {
					perSig[v.Signature]++
					if perSig[v.Signature] > 2 {
						continue // one or two replays per kind of failure; the state is not expanded further
					}
					v.Replay = e.WriteReplay(prop, "history", fmt.Sprintf("exh-%s-%d", sanitize(v.Signature), perSig[v.Signature]),
						[]string{"signature=" + v.Signature, "what=" + v.What}, v.Ops)
					b.Violations = append(b.Violations, v)
				}
				if t.Hang != "" {
					p := e.WriteReplay(prop, "history", "exh-hang", []string{"outcome=" + t.Hang}, t.Ops)
					b.Violations = append(b.Violations, hx.Violation{Signature: "op-" + strings.Fields(t.Hang)[0], What: t.Hang, Replay: p})
				}
				continue
			}
			if seen[r.key] {
				continue
			}
			seen[r.key] = true
			states++
			if r.err != nil {
				b.Errors = append(b.Errors, r.err.Error())
			} else if r.dis != nil {
				dis := *r.dis
				dis.Ops = t.Ops
				dis.Replay = e.WriteReplay(prop, "history", fmt.Sprintf("exh-disagree-%d", len(b.Disagree)), []string{"where=" + dis.Where}, t.Ops)
				if len(b.Disagree) < 20 {
					b.Disagree = append(b.Disagree, dis)
				}
			}
			b.Nontrivial = append(b.Nontrivial, strings.Join(t.Ops, "\n"))
			if d < depth {
				for a := range alphabet {
					next = append(next, node{append(append([]int(nil), frontier[i].path...), a)})
				}
			}
		}
		if timedOut {
			b.HistoryFlags["exhaustive-budget-exhausted-at-depth"] = d
			break
		}
		complete = d
		frontier = next
	}
	b.HistoryFlags["exhaustive-states"] = states
	b.HistoryFlags["exhaustive-depth-completed"] = complete
	return b
}
