package plugin

import (
	"math/rand"
	"strings"
	"time"

	"gxverif/hx"
)

// Exhaustive explores, breadth first, every state the real plugin reaches within `depth` moves over a small alphabet
// (2 pod names of one statefulset x any number of incarnations, 2 addresses, one node subnet, provider on; moves:
// create, delete, finish, lister sync, schedule = filter+bind, deliver oldest event, drop oldest event, resync,
// pod-ip sync, api release, restart, reload same).  States are identified by digest + informer views, so every
// distinct reachable state is expanded once; the monitor runs after every op of every expansion and each expansion
// path is compared with the model.
func Exhaustive(e *hx.Env, prop string, mon Monitor, depth int, budgetSec int) *Batch {
	b := &Batch{Stats: map[string]int{}, HistoryFlags: map[string]int{}}
	conf := Conf{Provider: true,
		Pools: []Pool{{NodeSubnets: []Subnet{subnetPalette[0]}, Ranges: [][2]uint32{{0x0a0a0002, 0x0a0a0003}},
			Gateway: 0x0a0a0001, Bits: 24, Vlan: 0}},
		Nodes: []Node{{"n1", 0x0a090105}}}
	prelude := []string{"app scale sts ns1 a 2", "sync all", "filter ns1 a-0 n1 ? ? 0"} // the filter warms the node cache
	alphabet := [][]string{
		{"pod create ns1 a-0 sts a ~ 1 - 1"},
		{"pod create ns1 a-1 sts a ~ 0 - 1"},
		{"pod delete ns1 a-0"},
		{"pod delete ns1 a-1"},
		{"pod finish ns1 a-0"},
		{"sync all"},
		{"filter ns1 a-0 n1 ? ? 0", "bind ns1 a-0 @ n1 ? ? 0 0"},
		{"filter ns1 a-1 n1 ? ? 0", "bind ns1 a-1 @ n1 ? ? 0 0"},
		{"deliver 0 0 0"},
		{"drop 0"},
		{"resync ? 0 0"},
		{"syncips 0"},
		{"pod run ns1 a-0"},
		{"release 168427522 sts_ ns1 a a-0 ~ 0 0"},
		{"restart"},
		{"app scale sts ns1 a 0"},
	}
	deadline := time.Now().Add(time.Duration(budgetSec) * time.Second)
	type node struct{ path []int }
	seen := map[string]bool{}
	frontier := []node{{nil}}
	expand := func(path []int) (*Transcript, string) {
		var ops []string
		ops = append(ops, prelude...)
		for _, a := range path {
			ops = append(ops, alphabet[a]...)
		}
		script := func(w *World, step int) string {
			if step >= len(ops) {
				return ""
			}
			l := ops[step]
			if strings.Contains(l, " @ ") { // bind: args.PodUID = the API server's pod
				f := strings.Fields(l)
				uid := "0"
				if tp := w.TruthPod(f[1], f[2]); tp != nil {
					uid = uidNum(tp.UID)
				}
				l = strings.Replace(l, " @ ", " "+uid+" ", 1)
			}
			return l
		}
		t, w, err := Execute(conf, rand.New(rand.NewSource(1)), script, mon, len(ops)+1)
		if err != nil {
			b.Errors = append(b.Errors, err.Error())
			return nil, ""
		}
		return t, w.Digest() + "#" + w.ViewDigest()
	}
	states := 0
	for d := 0; d <= depth && len(frontier) > 0; d++ {
		var next []node
		for _, n := range frontier {
			if time.Now().After(deadline) {
				b.HistoryFlags["exhaustive-budget-exhausted"] = 1
				break
			}
			t, key := expand(n.path)
			if t == nil {
				continue
			}
			b.Histories++
			b.Ops += len(t.Ops) - 1
			if len(t.Violations) > 0 || t.Hang != "" {
				for _, v := range t.Violations {
					v.Replay = e.WriteReplay(prop, "history", "exh-"+sanitize(v.Signature), []string{"signature=" + v.Signature, "what=" + v.What}, v.Ops)
					b.Violations = append(b.Violations, v)
				}
				continue
			}
			if seen[key] {
				continue
			}
			seen[key] = true
			states++
			if dis, err := Compare(e, t); err != nil {
				b.Errors = append(b.Errors, err.Error())
			} else if dis != nil {
				dis.Ops = t.Ops
				dis.Replay = e.WriteReplay(prop, "history", "exh-disagree", []string{"where=" + dis.Where}, t.Ops)
				b.Disagree = append(b.Disagree, *dis)
			}
			b.Nontrivial = append(b.Nontrivial, strings.Join(t.Ops, "\n"))
			if d < depth {
				for a := range alphabet {
					next = append(next, node{append(append([]int(nil), n.path...), a)})
				}
			}
		}
		frontier = next
		if len(b.Violations) > 3 {
			break
		}
	}
	b.HistoryFlags["exhaustive-states"] = states
	b.HistoryFlags["exhaustive-depth"] = depth
	return b
}
