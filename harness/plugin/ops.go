package plugin

import (
	"context"
	"errors"
	"fmt"
	"strconv"
	"strings"
	"time"

	corev1 "k8s.io/api/core/v1"
	metav1 "k8s.io/apimachinery/pkg/apis/meta/v1"
	"tkestack.io/galaxy/pkg/api/galaxy/constant"
	"tkestack.io/galaxy/pkg/api/k8s/schedulerapi"
	"tkestack.io/galaxy/pkg/ipam/apis/galaxy/v1alpha1"
	"tkestack.io/galaxy/pkg/ipam/floatingip"
	"tkestack.io/galaxy/pkg/ipam/schedulerplugin"
	"tkestack.io/galaxy/pkg/ipam/schedulerplugin/util"
	"tkestack.io/galaxy/pkg/utils/nets"

	"gxverif/hx"
)

const opTimeout = 20 * time.Second

func unTilde(s string) string {
	if s == "~" {
		return ""
	}
	return s
}

// errClass maps an error of the real code to the small class enum of the model.  "other" matches any class.
func errClass(err error) string {
	if err == nil {
		return ""
	}
	m := err.Error()
	switch {
	case errors.Is(err, floatingip.ErrNoEnoughIP) || strings.Contains(m, floatingip.ErrNoEnoughIP.Error()):
		return "not-enough-ip"
	case strings.Contains(m, "waiting for cache to sync"):
		return "lister-stale"
	case strings.Contains(m, "waiting for delete event"):
		return "waiting-for-delete"
	case strings.Contains(m, "is running"):
		return "running"
	case strings.Contains(m, "reached pool") || strings.Contains(m, "wait for releasing"):
		return "size-limit"
	case strings.Contains(m, "is not supported for pod"):
		return "policy-unsupported"
	case strings.Contains(m, "ip allocated to another pod"):
		return "key-mismatch"
	}
	return "other"
}

func errLine(err error) string { return "err " + errClass(err) }

// ResultsAgree compares an implementation answer with a model answer: identical, or both errors where the
// implementation's class is the wildcard "other".
func ResultsAgree(impl, model string) bool {
	if impl == model {
		return true
	}
	return impl == "err other" && strings.HasPrefix(model, "err ")
}

func atoiDef(s string) int { n, _ := strconv.Atoi(s); return n }

func (w *World) nodeObjs(names []string) []corev1.Node {
	var out []corev1.Node
	for _, n := range names {
		for _, c := range w.Conf.Nodes {
			if c.Name == n {
				out = append(out, corev1.Node{ObjectMeta: metav1.ObjectMeta{Name: n}, Status: corev1.NodeStatus{
					Addresses: []corev1.NodeAddress{{Type: corev1.NodeInternalIP, Address: IPStr(c.IP)}}}})
			}
		}
	}
	return out
}

func (w *World) drain() {
	pods, retries := w.Plugin.VerifPluginDrainUnreleased()
	for i := range pods {
		w.Events = append(w.Events, &Event{Pod: pods[i], Retries: retries[i]})
	}
}

// ownedBy returns the addresses the real IPAM stores under key, ascending.
func (w *World) ownedBy(key string) []IPAMRec {
	var out []IPAMRec
	for _, r := range w.IPAMDump() {
		if !r.Free && r.Key == key {
			out = append(out, r)
		}
	}
	return out
}

func firstFipCall(calls []Call, verbs ...string) string {
	for _, c := range calls {
		if c.Resource != "floatingips" {
			continue
		}
		for _, v := range verbs {
			if c.Verb == v {
				return c.Name
			}
		}
	}
	return ""
}

func ipTok(s string) string {
	if ip, ok := ParseIPv4(s); ok {
		return strconv.FormatUint(uint64(ip), 10)
	}
	return "-"
}

// guard runs f against the real code with panic recovery and a timeout.  The simulated process death is reported as
// "crashed" (the caller still fills in the choices it could observe, then reports the crash).
func guard(f func()) string {
	o := hx.Guard(opTimeout, f)
	if strings.Contains(o, CrashPanic) {
		return "crashed"
	}
	return o
}

// Apply executes one op line against the real plugin.  Choice fields written `?` (or anything, for filter / bind /
// resync) are replaced by what the implementation was observed to choose; the returned line is the one to hand to the
// model.  The result has the format of the gxdrv_plugin answers.
// stabilise looks at the world AT EXECUTION TIME and removes the injected faults of an op whose failing call would be
// chosen by Go map order (the model fixes one order, the implementation's is not reproducible):
//   - ConfigurePool deletes the objects outside the new configuration in the order of the store's LIST: a fault on a
//     delete (call 3 and later of a reload) is kept only if there is exactly one object to delete;
//   - unbind / resync / Release / Bind loop over the records of ONE key in map order: faults are kept only while no key
//     (Bind: the pod's key) holds more than one record.
//
// The generator already avoids these cases, but a history that is executed again (crash sweep prefixes, shrinking,
// replays) may take another turn - the IPAM's allocation picks are random - so the guard has to sit here.  The line
// returned to the model carries the faults actually injected.
func (w *World) stabilise(f []string) []string {
	zero := func(idx ...int) {
		for _, i := range idx {
			if i < len(f) {
				f[i] = "0"
			}
		}
	}
	switch {
	case f[0] == "reload" && len(f) == 3:
		if pools, err := ParsePoolsLine(f[1]); err == nil && atoiDef(f[2]) >= 3 && w.storeObjectsOutside(pools) > 1 {
			zero(2)
		}
	case (f[0] == "deliver" || f[0] == "resync" || f[0] == "resyncrec") && len(f) == 4:
		if (f[2] != "0" || f[3] != "0") && !noMultiKey(w) {
			zero(2, 3)
		}
	case f[0] == "release" && len(f) == 9:
		if (f[7] != "0" || f[8] != "0") && !noMultiKey(w) {
			zero(7, 8)
		}
	case f[0] == "bind" && (len(f) == 9 || len(f) == 10):
		if f[7] != "0" || f[8] != "0" {
			if lp := w.ListerPod(f[1], f[2]); lp != nil {
				if k, err := util.FormatKey(lp); err == nil && len(w.ownedBy(k.KeyInDB)) > 1 {
					zero(7, 8)
				}
			}
		}
	}
	return f
}

// crashPointStable: may the process die after `at` external calls of this op and the outcome still be reproducible?
func (w *World) crashPointStable(f []string, at int) bool {
	if len(f) == 0 {
		return true
	}
	if !noMultiKey(w) {
		return false // loops over the records of one key run in map order
	}
	switch f[0] {
	case "reload":
		// calls: config map, list, then one delete per object outside the new configuration, in LIST order
		if pools, err := ParsePoolsLine(f[1]); len(f) == 3 && err == nil && at >= 3 && w.storeObjectsOutside(pools) > 1 {
			return false
		}
	case "syncips":
		return at == 0 // the pods come out of the lister in map order
	}
	return true
}

func (w *World) Apply(line string) (final string, result string) {
	f := strings.Fields(line)
	if len(f) > 0 {
		f = w.stabilise(f)
		line = strings.Join(f, " ")
	}
	final = line
	w.LastOp = OpInfo{Line: line, PlogBefore: len(w.Prov.Log)}
	defer func() {
		w.LastOp.Line, w.LastOp.Result = final, result
	}()
	if len(f) == 0 {
		return line, "bad-op"
	}
	w.LastOp.Kind = f[0]
	ctx := context.TODO()
	switch {
	case f[0] == "pod" && len(f) == 10 && f[1] == "create":
		w.LastOp.Kind = "create"
		ns, name := f[2], f[3]
		ranges, err := ParseRanges(f[8])
		if err != nil {
			return line, "bad-op"
		}
		if w.TruthPod(ns, name) != nil {
			return line, "err already-exists"
		}
		uid := w.nextUID
		w.nextUID++
		pod := makePod(ns, name, uid, f[4], unTilde(f[5]), unTilde(f[6]), atoiDef(f[7]), ranges, f[9] == "1")
		w.Kube.CoreV1().Pods(ns).Create(ctx, pod, metav1.CreateOptions{})
		return line, "ok uid=" + strconv.Itoa(uid)
	case f[0] == "pod" && len(f) == 4 && f[1] == "delete":
		w.LastOp.Kind = "delete"
		pod := w.TruthPod(f[2], f[3])
		if pod == nil {
			return line, "err not-found"
		}
		w.Kube.CoreV1().Pods(f[2]).Delete(ctx, f[3], metav1.DeleteOptions{})
		if o := guard(func() { w.Plugin.DeletePod(pod.DeepCopy()) }); o != "ok" {
			return line, o
		}
		w.drain()
		return line, "ok"
	case f[0] == "pod" && len(f) == 4 && f[1] == "finish":
		w.LastOp.Kind = "finish"
		pod := w.TruthPod(f[2], f[3])
		if pod == nil {
			return line, "err not-found"
		}
		if Finished(pod) {
			return line, "err bad-input"
		}
		np := pod.DeepCopy()
		np.Status.Phase = corev1.PodFailed
		np.Status.Reason, np.Status.Message = "Evicted", "The node was low on resource: memory."
		if w.Rng != nil && w.Rng.Intn(2) == 0 {
			np.Status.Phase = corev1.PodSucceeded
			np.Status.Reason, np.Status.Message = "", ""
		}
		np.Status.Conditions = podConditions(np.Status.Phase)
		w.Kube.CoreV1().Pods(f[2]).Update(ctx, np, metav1.UpdateOptions{})
		if o := guard(func() { w.Plugin.UpdatePod(pod.DeepCopy(), np.DeepCopy()) }); o != "ok" {
			return line, o
		}
		w.drain()
		return line, "ok"
	case f[0] == "pod" && len(f) == 5 && f[1] == "term":
		// graceful deletion begins: the apiserver sets metadata.deletionTimestamp, the pod stays (its containers get
		// the grace period); the informer hands the update (old, new) to UpdatePod
		w.LastOp.Kind = "term"
		pod := w.TruthPod(f[2], f[3])
		if pod == nil {
			return line, "err not-found"
		}
		if pod.DeletionTimestamp != nil {
			return line, "err bad-input"
		}
		np := pod.DeepCopy()
		ts := metav1.NewTime(time.Unix(1700000000, 0))
		np.DeletionTimestamp = &ts
		grace := int64(30)
		np.DeletionGracePeriodSeconds = &grace
		w.Kube.CoreV1().Pods(f[2]).Update(ctx, np, metav1.UpdateOptions{})
		w.Cnt.Reset(atoiDef(f[4]))
		w.Prov.Reset(0)
		if o := guard(func() { w.Plugin.UpdatePod(pod.DeepCopy(), np.DeepCopy()) }); o != "ok" {
			return line, o
		}
		w.drain()
		return line, "ok"
	case f[0] == "pod" && len(f) == 4 && f[1] == "run":
		w.LastOp.Kind = "run"
		pod := w.TruthPod(f[2], f[3])
		if pod == nil {
			return line, "err not-found"
		}
		if (pod.Status.Phase != "" && pod.Status.Phase != corev1.PodPending) || pod.Spec.NodeName == "" {
			return line, "err bad-input"
		}
		np := pod.DeepCopy()
		np.Status.Phase = corev1.PodRunning
		np.Status.Conditions = podConditions(corev1.PodRunning)
		w.Kube.CoreV1().Pods(f[2]).Update(ctx, np, metav1.UpdateOptions{})
		return line, "ok"
	case f[0] == "app" && len(f) == 6 && f[1] == "scale":
		w.LastOp.Kind = "scale"
		w.setApp(f[2], f[3], f[4], int32(atoiDef(f[5])))
		return line, "ok"
	case f[0] == "app" && len(f) == 5 && f[1] == "delete":
		w.LastOp.Kind = "delapp"
		w.delApp(f[2], f[3], f[4])
		return line, "ok"
	case f[0] == "pool" && len(f) == 4 && f[1] == "set":
		w.LastOp.Kind = "setpool"
		w.setPoolObj(f[2], atoiDef(f[3]), false)
		return line, "ok"
	case f[0] == "pool" && len(f) == 3 && f[1] == "del":
		w.LastOp.Kind = "setpool"
		w.setPoolObj(f[2], 0, true)
		return line, "ok"
	case f[0] == "sync" && len(f) == 2:
		switch f[1] {
		case "pods":
			w.syncListers(true, false)
		case "apps":
			w.syncListers(false, true)
		case "all":
			w.syncListers(true, true)
		default:
			return line, "bad-op"
		}
		return line, "ok"
	case f[0] == "drop" && len(f) == 2:
		i := atoiDef(f[1])
		if i < 0 || i >= len(w.Events) {
			return line, "inadmissible-choice"
		}
		w.Events = append(w.Events[:i:i], w.Events[i+1:]...)
		return line, "ok"
	case (f[0] == "filter" || f[0] == "preempt") && len(f) == 7:
		return w.applyFilter(f)
	case f[0] == "bind" && (len(f) == 9 || (len(f) == 10 && (f[9] == "lost" || f[9] == "unavail" || f[9] == "truthful"))):
		return w.applyBind(f)
	case f[0] == "deliver" && len(f) == 4:
		i := atoiDef(f[1])
		if i < 0 || i >= len(w.Events) {
			return line, "inadmissible-choice"
		}
		ev := w.Events[i]
		w.Events = append(w.Events[:i:i], w.Events[i+1:]...)
		w.Cnt.Reset(atoiDef(f[2]))
		w.Prov.Reset(atoiDef(f[3]))
		var err error
		if o := guard(func() { err = w.Plugin.VerifPluginUnbind(ev.Pod) }); o != "ok" {
			return line, o
		}
		w.drain()
		if err == nil {
			return line, "ok"
		}
		ev.Retries++
		if ev.Retries <= maxUnbindRetries {
			w.Events = append(w.Events, ev)
		}
		if strings.Contains(err.Error(), "cloud provider") {
			return line, "err provider"
		}
		return line, errLine(err)
	case f[0] == "resync" && len(f) == 4:
		w.Cnt.Reset(atoiDef(f[2]))
		w.Prov.Reset(atoiDef(f[3]))
		var given []string
		if f[1] != "?" && f[1] != "-" {
			for _, t := range strings.Split(f[1], ",") {
				n, _ := strconv.ParseUint(t, 10, 32)
				given = append(given, IPStr(uint32(n)))
			}
		}
		var used []string
		perm := true
		var err error
		o := guard(func() {
			err = w.Plugin.VerifPluginResync(func(ips []string) []string {
				if f[1] == "?" {
					used = append([]string(nil), ips...)
					if w.Rng != nil {
						w.Rng.Shuffle(len(used), func(i, j int) { used[i], used[j] = used[j], used[i] })
					}
					return used
				}
				used = given
				have := map[string]int{}
				for _, ip := range ips {
					have[ip]++
				}
				for _, ip := range given {
					have[ip]--
				}
				for _, n := range have {
					if n != 0 {
						perm = false
					}
				}
				if !perm {
					// nothing has been touched yet (the checklist was only read): abandon the pass
					panic("inadmissible resync order")
				}
				return given
			})
		})
		if !perm {
			return line, "inadmissible-choice"
		}
		if o != "ok" && o != "crashed" {
			return line, o
		}
		var toks []string
		for _, ip := range used {
			toks = append(toks, ipTok(ip))
		}
		f[1] = dashIfEmpty(strings.Join(toks, ","))
		final = strings.Join(f, " ")
		if o == "crashed" {
			return final, "crashed"
		}
		w.drain()
		if !perm {
			return final, "inadmissible-choice"
		}
		if err != nil {
			return final, errLine(err)
		}
		return final, "ok"
	case f[0] == "resyncsnap" && len(f) == 1:
		var entries []schedulerplugin.VerifResyncEntry
		var err error
		if o := guard(func() { entries, err = w.Plugin.VerifPluginFetchChecklist() }); o != "ok" {
			return line, o
		}
		if err != nil {
			return line, errLine(err)
		}
		w.Snap = map[uint32]schedulerplugin.VerifResyncEntry{}
		for _, e := range entries {
			if ip, ok := ParseIPv4(e.VerifIP()); ok {
				w.Snap[ip] = e
			}
		}
		return line, "ok"
	case f[0] == "resyncrec" && len(f) == 4:
		ip64, err := strconv.ParseUint(f[1], 10, 32)
		if err != nil {
			return line, "bad-op"
		}
		e, ok := w.Snap[uint32(ip64)]
		if !ok {
			return line, "inadmissible-choice"
		}
		delete(w.Snap, uint32(ip64))
		w.Cnt.Reset(atoiDef(f[2]))
		w.Prov.Reset(atoiDef(f[3]))
		if o := guard(func() { w.Plugin.VerifPluginResyncOne(e) }); o != "ok" {
			return line, o
		}
		w.drain()
		return line, "ok"
	case f[0] == "syncips" && len(f) == 2:
		w.Cnt.Reset(atoiDef(f[1]))
		w.Prov.Reset(0)
		if o := guard(func() { w.Plugin.VerifPluginSyncPodIPs() }); o != "ok" {
			return line, o
		}
		return line, "ok"
	case f[0] == "admres" && len(f) == 4:
		// an administrator reserves an unallocated address: the labelled FloatingIP object, then its watch event
		ip64, err := strconv.ParseUint(f[1], 10, 32)
		text := unTilde(f[2])
		if err != nil {
			return line, "bad-op"
		}
		if text == "" {
			return line, "err bad-input"
		}
		ip := uint32(ip64)
		free := false
		for _, r := range w.IPAMDump() {
			if r.IP == ip && r.Free {
				free = true
			}
		}
		if !free {
			return line, "err not-free"
		}
		obj := &v1alpha1.FloatingIP{
			TypeMeta:   metav1.TypeMeta{Kind: constant.ResourceKind, APIVersion: constant.ApiVersion},
			ObjectMeta: metav1.ObjectMeta{Name: IPStr(ip), Labels: map[string]string{constant.ReserveFIPLabel: "this-is-not-for-pods"}},
			Spec:       v1alpha1.FloatingIPSpec{Key: "_" + text + "_", Policy: constant.ReleasePolicy(atoiDef(f[3]))}}
		if _, err := w.Galaxy.GalaxyV1alpha1().FloatingIPs().Create(ctx, obj, metav1.CreateOptions{}); err != nil {
			return line, "err not-free"
		}
		if o := guard(func() {
			for _, h := range w.fipHandlers {
				h.OnAdd(obj.DeepCopy())
			}
		}); o != "ok" {
			return line, o
		}
		w.Admin[ip] = obj.Spec.Key
		return line, "ok"
	case f[0] == "admunres" && len(f) == 2:
		// the administrator withdraws a reservation: deletes the object, then the watch event
		ip64, err := strconv.ParseUint(f[1], 10, 32)
		if err != nil {
			return line, "bad-op"
		}
		ip := uint32(ip64)
		found, reserved := false, false
		for _, r := range w.IPAMDump() {
			if r.IP == ip && !r.Free {
				found = true
				reserved = r.Reserved && strings.HasPrefix(r.Key, "_")
			}
		}
		if !found {
			return line, "err not-found"
		}
		if !reserved {
			return line, "err not-reserved"
		}
		obj, err := w.Galaxy.GalaxyV1alpha1().FloatingIPs().Get(ctx, IPStr(ip), metav1.GetOptions{})
		if err != nil {
			return line, "err not-found"
		}
		w.Galaxy.GalaxyV1alpha1().FloatingIPs().Delete(ctx, IPStr(ip), metav1.DeleteOptions{})
		if o := guard(func() {
			for _, h := range w.fipHandlers {
				h.OnDelete(obj.DeepCopy())
			}
		}); o != "ok" {
			return line, o
		}
		delete(w.Admin, ip)
		return line, "ok"
	case f[0] == "release" && len(f) == 9:
		ip, err := strconv.ParseUint(f[1], 10, 32)
		if err != nil {
			return line, "bad-op"
		}
		w.Cnt.Reset(atoiDef(f[7]))
		w.Prov.Reset(atoiDef(f[8]))
		k := util.NewKeyObj(unTilde(f[2]), unTilde(f[3]), unTilde(f[4]), unTilde(f[5]), unTilde(f[6]))
		var rerr error
		if o := guard(func() {
			rerr = w.Plugin.Release(&schedulerplugin.ReleaseRequest{KeyObj: k, IP: nets.IntToIP(uint32(ip))})
		}); o != "ok" {
			return line, o
		}
		if rerr == nil {
			return line, "ok"
		}
		if strings.Contains(rerr.Error(), "UnAssignIP nodeName") {
			return line, "err provider"
		}
		return line, errLine(rerr)
	case f[0] == "reload" && len(f) == 3:
		pools, err := ParsePoolsLine(f[1])
		if err != nil || len(pools) == 0 {
			return line, "bad-op"
		}
		cm, _ := w.Kube.CoreV1().ConfigMaps(cmNamespace).Get(ctx, cmName, metav1.GetOptions{})
		cm = cm.DeepCopy()
		cm.Data = map[string]string{cmKey: PoolsJSON(pools)}
		w.Kube.CoreV1().ConfigMaps(cmNamespace).Update(ctx, cm, metav1.UpdateOptions{})
		w.Cnt.Reset(atoiDef(f[2]))
		w.Prov.Reset(0)
		var rerr error
		if o := guard(func() { _, rerr = w.Plugin.VerifPluginUpdateConfigMap() }); o != "ok" {
			return line, o
		}
		for _, c := range w.Cnt.Calls() {
			if c.Failed && c.Verb == "delete" && c.Resource == "floatingips" {
				// ConfigurePool ignores the error: the object of a de-configured address stays in the store
				w.Mon["reload-delete-fault"] = true
			}
		}
		if rerr != nil {
			return line, "err other"
		}
		w.Pools = pools
		w.voidDropped()
		return line, "ok"
	case f[0] == "restart" && len(f) == 1:
		w.Events = nil
		w.Snap = map[uint32]schedulerplugin.VerifResyncEntry{} // the resync goroutine dies with the process
		w.syncListers(true, true)
		var rerr error
		if o := guard(func() { rerr = w.startPlugin() }); o != "ok" {
			return line, o
		}
		if rerr != nil {
			return line, "err other"
		}
		w.voidDropped()
		return line, "ok"
	case f[0] == "fipsync" && len(f) == 1:
		w.syncFIPs()
		return line, "ok"
	case f[0] == "dump" && len(f) == 1:
		return line, w.Digest()
	case f[0] == "noguard" && len(f) == 2:
		return line, "ok"
	}
	return line, "bad-op"
}

// ApplyCrash executes one op line while the process dies before external call number at+1 of it (apiserver calls and
// provider requests counted together).  If the op makes fewer calls it completes normally (crashed = false).  After
// a crash the plugin instance, the listers' lag, the queued events and a resync snapshot are gone; a new process is
// started on the same apiserver / store (Init, informers in sync).  The returned line is the one for the model:
// `crash <k> <j> <op line>` with k / j = completed apiserver calls / provider requests.
func (w *World) ApplyCrash(line string, at int) (final string, result string, crashed bool) {
	if !w.crashPointStable(strings.Fields(line), at) {
		at = 1 << 20 // not a reproducible crash point: the op runs to its end
	}
	w.Bomb.Arm(at)
	pn := w.Prov.N
	fl, res := w.Apply(line)
	w.Bomb.Disarm()
	if res != "crashed" {
		return fl, res, false
	}
	k := len(w.Cnt.Calls())
	w.Prov.mu.Lock()
	j := w.Prov.N
	w.Prov.mu.Unlock()
	_ = pn
	if f := strings.Fields(fl); len(f) == 3 && f[0] == "reload" {
		// the new process reads the configuration the crashed reload was applying
		if pools, err := ParsePoolsLine(f[1]); err == nil && len(pools) > 0 {
			w.Pools = pools
		}
	}
	w.Events = nil
	w.Snap = map[uint32]schedulerplugin.VerifResyncEntry{}
	w.syncListers(true, true)
	if o := guard(func() { w.startPlugin() }); o != "ok" {
		return fl, o, true
	}
	w.voidDropped()
	final = fmt.Sprintf("crash %d %d %s", k, j, fl)
	w.LastOp = OpInfo{Kind: "crash", Line: final, Result: "ok", PlogBefore: w.LastOp.PlogBefore}
	return final, "ok", true
}

// voidDropped marks (pod uid, ip) pairs whose address is no longer configured: C04 speaks about reloads "that still
// contain the IP".  A reservation on an address that left the configuration is over as well.
func (w *World) voidDropped() {
	for ip := range w.Admin {
		if !ConfHas(w.Pools, ip) {
			delete(w.Admin, ip)
		}
	}
	for _, p := range w.TruthPods() {
		for _, h := range HandedIPs(p) {
			if !ConfHas(w.Pools, h[0]) {
				w.Voided[string(p.UID)+"/"+strconv.FormatUint(uint64(h[0]), 10)] = true
			}
		}
	}
}

func (w *World) applyFilter(f []string) (string, string) {
	ns, name := f[1], f[2]
	pod := w.TruthPod(ns, name)
	if pod == nil {
		f[4], f[5] = "-", "-"
		return strings.Join(f, " "), "err not-found"
	}
	var names []string
	if f[3] != "-" {
		names = strings.Split(f[3], ",")
	}
	nodes := w.nodeObjs(names)
	keyObj, _ := util.FormatKey(pod)
	owned := w.ownedBy(keyObj.KeyInDB)
	w.Cnt.Reset(atoiDef(f[6]))
	w.Prov.Reset(0)
	var passed []corev1.Node
	var err error
	crashed := false
	if o := guard(func() {
		if f[0] == "preempt" {
			// Preempt answers with the candidate nodes it keeps (no error return: on an error every node stays)
			victims := map[string]*schedulerapi.MetaVictims{}
			for _, n := range nodes {
				victims[n.Name] = &schedulerapi.MetaVictims{}
			}
			kept := w.Plugin.Preempt(&schedulerapi.ExtenderPreemptionArgs{Pod: pod, NodeNameToMetaVictims: victims})
			for _, n := range nodes {
				if _, ok := kept[n.Name]; ok {
					passed = append(passed, n)
				}
			}
			return
		}
		passed, _, err = w.Plugin.Filter(pod, nodes)
	}); o == "crashed" {
		crashed = true
	} else if o != "ok" {
		return strings.Join(f, " "), o
	}
	// observed choices
	f[5] = "-"
	if n := firstFipCall(w.Cnt.Calls(), "create", "get"); n != "" {
		f[5] = ipTok(n)
	}
	f[4] = "-"
	var pnames []string
	for _, n := range passed {
		pnames = append(pnames, n.Name)
	}
	if len(podRanges(pod)) == 0 && len(owned) >= 2 {
		// which owned address came first out of the map: one whose pool explains the observed answer
		f[4] = strconv.FormatUint(uint64(owned[0].IP), 10)
		for _, r := range owned {
			set := map[string]bool{}
			for _, s := range r.Subnets {
				set[s] = true
			}
			var exp []string
			for _, n := range names {
				for _, c := range w.Conf.Nodes {
					if c.Name == n {
						if sn := w.nodeSubnetStr(c.IP); sn != "" && set[sn] {
							exp = append(exp, n)
						}
					}
				}
			}
			if strings.Join(exp, ",") == strings.Join(pnames, ",") {
				f[4] = strconv.FormatUint(uint64(r.IP), 10)
				break
			}
		}
	}
	final := strings.Join(f, " ")
	if crashed {
		return final, "crashed"
	}
	if err != nil {
		return final, errLine(err)
	}
	return final, "ok nodes=" + dashIfEmpty(strings.Join(pnames, ","))
}

// nodeSubnetStr: the configured node subnet of a node address (first pool in gateway order, first subnet).
func (w *World) nodeSubnetStr(ip uint32) string {
	if n := w.Plugin.GetIpam().NodeSubnet(nets.IntToIP(ip)); n != nil {
		return n.String()
	}
	return ""
}

func (w *World) applyBind(f []string) (string, string) {
	ns, name := f[1], f[2]
	lp := w.ListerPod(ns, name)
	tp := w.TruthPod(ns, name)
	w.LastOp.StaleBind = lp != nil && tp != nil && lp.UID != tp.UID
	var owned []IPAMRec
	if lp != nil {
		if keyObj, err := util.FormatKey(lp); err == nil {
			owned = w.ownedBy(keyObj.KeyInDB)
		}
	}
	if lp != nil {
		for _, rs := range podRanges(lp) {
			var l [][2]uint32
			for _, r := range rs {
				l = append(l, [2]uint32{nets.IPToInt(r.First), nets.IPToInt(r.Last)})
			}
			w.LastOp.BindReq = append(w.LastOp.BindReq, l)
		}
		for _, r := range owned {
			w.LastOp.BindOwned = append(w.LastOp.BindOwned, r.IP)
		}
		if keyObj, err := util.FormatKey(lp); err == nil {
			w.LastOp.BindKey = keyObj.KeyInDB
		}
	}
	w.LastOp.BindNode, w.LastOp.BindPod = f[4], ns+"/"+name
	w.Cnt.Reset(atoiDef(f[7]))
	w.Prov.Reset(atoiDef(f[8]))
	if len(f) == 10 && f[9] != "truthful" {
		w.Cnt.mu.Lock()
		w.Cnt.BindMode = f[9]
		w.Cnt.mu.Unlock()
	}
	plogBefore := len(w.Prov.Log)
	var err error
	crashed := false
	if o := guard(func() {
		err = w.Plugin.Bind(&schedulerapi.ExtenderBindingArgs{PodName: name, PodNamespace: ns,
			PodUID: uidStr(atoiDef(f[3])), Node: f[4]})
	}); o == "crashed" {
		crashed = true
	} else if o != "ok" {
		return strings.Join(f, " "), o
	}
	w.drain()
	calls := w.Cnt.Calls()
	w.LastOp.BindNoCalls = len(w.Prov.Log) == plogBefore
	for _, c := range calls {
		if c.Verb == "bind" {
			w.LastOp.BindNoCalls = false
		}
		if c.Failed && c.Verb == "delete" {
			w.LastOp.BindDelFail = true
		}
		if c.Failed && c.Verb == "create" && c.Resource == "floatingips" {
			w.LastOp.BindCreateFail = true
		}
	}
	f[5], f[6] = "-", "-"
	if lp != nil && len(podRanges(lp)) == 0 {
		if len(owned) == 0 {
			if n := firstFipCall(calls, "create"); n != "" {
				f[6] = ipTok(n)
			}
		} else if len(owned) >= 2 {
			// ipInfos[:1]: visible through the provider request, the UpdateAttr call, or the refusal
			f[5] = strconv.FormatUint(uint64(owned[0].IP), 10)
			if len(w.Prov.Log) > plogBefore {
				f[5] = strconv.FormatUint(uint64(w.Prov.Log[plogBefore].IP), 10)
			} else if n := firstFipCall(calls, "get"); n != "" {
				f[5] = ipTok(n)
			} else if err != nil && errClass(err) == "waiting-for-delete" {
				for _, r := range owned {
					if r.UID != "" && r.UID != string(lp.UID) {
						f[5] = strconv.FormatUint(uint64(r.IP), 10)
						break
					}
				}
			} else if err == nil {
				for _, r := range owned {
					if r.UID == "" || r.UID == string(lp.UID) {
						f[5] = strconv.FormatUint(uint64(r.IP), 10)
						break
					}
				}
			}
		}
	}
	final := strings.Join(f, " ")
	if crashed {
		return final, "crashed"
	}
	if err != nil {
		if strings.Contains(err.Error(), "failed to assign ip") {
			return final, "err provider"
		}
		return final, errLine(err)
	}
	var hs []string
	for _, h := range HandedIPs(w.TruthPod(ns, name)) {
		hs = append(hs, fmt.Sprintf("%d/%d/%d/%d", h[0], h[1], h[2], h[3]))
	}
	return final, "ok ips=" + dashIfEmpty(strings.Join(hs, ","))
}
