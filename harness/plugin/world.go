package plugin

import (
	"context"
	"encoding/json"
	"fmt"
	"math/rand"
	"net"
	"sort"
	"strconv"
	"strings"
	"sync"
	"time"

	appsv1 "k8s.io/api/apps/v1"
	corev1 "k8s.io/api/core/v1"
	extfake "k8s.io/apiextensions-apiserver/pkg/client/clientset/clientset/fake"
	"k8s.io/apimachinery/pkg/api/resource"
	metav1 "k8s.io/apimachinery/pkg/apis/meta/v1"
	"k8s.io/apimachinery/pkg/runtime"
	"k8s.io/apimachinery/pkg/types"
	dynfake "k8s.io/client-go/dynamic/fake"
	kubefake "k8s.io/client-go/kubernetes/fake"
	appslisters "k8s.io/client-go/listers/apps/v1"
	corelisters "k8s.io/client-go/listers/core/v1"
	"k8s.io/client-go/tools/cache"
	"tkestack.io/galaxy/pkg/api/galaxy/constant"
	"tkestack.io/galaxy/pkg/ipam/apis/galaxy/v1alpha1"
	galaxyfake "tkestack.io/galaxy/pkg/ipam/client/clientset/versioned/fake"
	galaxyinformers "tkestack.io/galaxy/pkg/ipam/client/informers/externalversions/galaxy/v1alpha1"
	galaxylisters "tkestack.io/galaxy/pkg/ipam/client/listers/galaxy/v1alpha1"
	"tkestack.io/galaxy/pkg/ipam/cloudprovider/rpc"
	ipamcontext "tkestack.io/galaxy/pkg/ipam/context"
	"tkestack.io/galaxy/pkg/ipam/floatingip"
	"tkestack.io/galaxy/pkg/ipam/schedulerplugin"
	"tkestack.io/galaxy/pkg/utils/nets"
)

const (
	cmName, cmNamespace, cmKey = "floatingip-config", "kube-system", "floatingips"
	poolNamespace              = "kube-system"
	maxUnbindRetries           = 3 // event.go loop: `event.retryTimes > 3` drops the event (factgen pins the constant)
)

// PCall is one cloud-provider request.
type PCall struct {
	Assign bool
	Node   string
	IP     uint32
	OK     bool
}

// Provider is a recording cloud provider with fault injection (request number Fault of the current op fails).
type Provider struct {
	G        *Gate
	B        *Bomb
	mu       sync.Mutex
	N, Fault int
	Log      []PCall
	Assigned map[uint32]string
}

func (p *Provider) Reset(fault int) { p.mu.Lock(); p.N, p.Fault = 0, fault; p.mu.Unlock() }

func (p *Provider) AssignIP(in *rpc.AssignIPRequest) (*rpc.AssignIPReply, error) {
	p.B.Check()
	p.G.Hit("provider", "AssignIP "+in.IPAddress)
	p.mu.Lock()
	defer p.mu.Unlock()
	p.N++
	ok := !(p.Fault != 0 && p.N == p.Fault)
	ip, _ := ParseIPv4(in.IPAddress)
	p.Log = append(p.Log, PCall{true, in.NodeName, ip, ok})
	if ok {
		p.Assigned[ip] = in.NodeName
	}
	return &rpc.AssignIPReply{Success: ok, Msg: "injected"}, nil
}

func (p *Provider) UnAssignIP(in *rpc.UnAssignIPRequest) (*rpc.UnAssignIPReply, error) {
	p.B.Check()
	p.G.Hit("provider", "UnAssignIP "+in.IPAddress)
	p.mu.Lock()
	defer p.mu.Unlock()
	p.N++
	ok := !(p.Fault != 0 && p.N == p.Fault)
	ip, _ := ParseIPv4(in.IPAddress)
	p.Log = append(p.Log, PCall{false, in.NodeName, ip, ok})
	if ok {
		delete(p.Assigned, ip)
	}
	return &rpc.UnAssignIPReply{Success: ok, Msg: "injected"}, nil
}

// Event is a pending delete / finish event (pod snapshot incl. UID) the harness has not delivered yet.
type Event struct {
	Pod     *corev1.Pod
	Retries int
}

// World is one instance of the real plugin plus everything around it.
type World struct {
	stsSets int // number of statefulset writes so far (see setApp)
	Conf   Conf
	Pools  []Pool // configuration in force
	Rng    *rand.Rand
	Kube   *kubefake.Clientset   // API truth
	Galaxy *galaxyfake.Clientset // FloatingIP / Pool objects
	Cnt    *Counter
	Prov   *Provider
	Plugin *schedulerplugin.FloatingIPPlugin
	Events []*Event

	podIdx, stsIdx, dpIdx, poolIdx cache.Indexer
	fipIdx                         cache.Indexer // the FloatingIP informer's (lagging) cache
	nextUID                        int
	// Voided["uid/ip"]: the address left the configuration (reload) while the pod held it - C04 exempts it
	Voided map[string]bool
	// LastOp describes the op executed last (for monitors)
	LastOp OpInfo
	// Gate parks / records accesses (lock-exclusion probe, schedules); idle otherwise
	Gate *Gate
	// Bomb kills the process between two external calls (crash sweep); disarmed otherwise
	Bomb *Bomb
	// Snap is the checklist of a resync pass in progress (first phase done, iterations pending), by address
	Snap map[uint32]schedulerplugin.VerifResyncEntry
	// Mon is scratch space of the monitors (state they carry from step to step)
	Mon map[string]interface{}
	// Admin is the ground truth of the administrator's reservations in force: address -> key of the labelled object
	Admin map[uint32]string
	// fipHandlers are the FloatingIP watch handlers the running process registered (crdIpam's add / delete handlers for
	// hand-made reservations); the harness delivers the events
	fipHandlers []cache.ResourceEventHandler
}

// capFIPInformer is what the daemon's shared FloatingIP informer looks like to the plugin and its IPAM: AddEventHandler
// records the handler (the harness delivers the events), HasSynced is true, and the cache behind Lister() / GetIndexer()
// shows the store AS OF THE LAST explicit `fipsync` op (or process start) - it LAGS behind galaxy-ipam's own writes
// exactly like the real informer does.
type capFIPInformer struct {
	galaxyinformers.FloatingIPInformer
	w *World
}

func (c capFIPInformer) Informer() cache.SharedIndexInformer {
	return &capSharedInformer{c.FloatingIPInformer.Informer(), c.w}
}

func (c capFIPInformer) Lister() galaxylisters.FloatingIPLister {
	return galaxylisters.NewFloatingIPLister(c.w.fipIdx)
}

type capSharedInformer struct {
	cache.SharedIndexInformer
	w *World
}

func (c *capSharedInformer) HasSynced() bool           { return true }
func (c *capSharedInformer) GetIndexer() cache.Indexer { return c.w.fipIdx }
func (c *capSharedInformer) GetStore() cache.Store     { return c.w.fipIdx }

// syncFIPs lets the FloatingIP informer catch up: its cache becomes a copy of the store.
func (w *World) syncFIPs() {
	for _, o := range w.fipIdx.List() {
		w.fipIdx.Delete(o)
	}
	fl, _ := w.Galaxy.GalaxyV1alpha1().FloatingIPs().List(context.TODO(), metav1.ListOptions{})
	for i := range fl.Items {
		w.fipIdx.Add(fl.Items[i].DeepCopy())
	}
}

func (c *capSharedInformer) AddEventHandler(h cache.ResourceEventHandler) {
	c.w.fipHandlers = append(c.w.fipHandlers, h)
}

// OpInfo is what monitors may want to know about the op just executed.
type OpInfo struct {
	Kind       string // first token(s) of the op line
	Line       string // the final op line (choices filled in)
	Result     string
	PlogBefore int  // length of the provider log before the op
	StaleBind  bool // bind: the lister's pod had another UID than the API server's
	// bind: what the request looked like before the call (the pod Bind reads from the lister)
	BindReq        [][][2]uint32 // requested range lists, in request order (nil = one address, anywhere)
	BindOwned      []uint32      // addresses stored under the pod's key before the call
	BindNode       string
	BindKey        string
	BindPod        string // ns/name
	BindNoCalls    bool   // the op made neither a provider request nor a pods/binding call
	BindDelFail    bool   // a FloatingIP delete of this op was made to fail (a rollback may be incomplete)
	BindCreateFail bool   // a FloatingIP create of this op was made to fail
}

func nsIndexer() cache.Indexer {
	return cache.NewIndexer(cache.MetaNamespaceKeyFunc, cache.Indexers{cache.NamespaceIndex: cache.MetaNamespaceIndexFunc})
}

// NewWorld builds the plugin with the given configuration (Init = ConfigurePool on an empty store).
func NewWorld(conf Conf, rng *rand.Rand) (*World, error) {
	w := &World{Conf: conf, Pools: conf.Pools, Rng: rng, Cnt: &Counter{}, nextUID: 1, Voided: map[string]bool{}, Admin: map[uint32]string{}, Mon: map[string]interface{}{}, Snap: map[uint32]schedulerplugin.VerifResyncEntry{},
		Prov:   &Provider{Assigned: map[uint32]string{}},
		podIdx: nsIndexer(), stsIdx: nsIndexer(), dpIdx: nsIndexer(), poolIdx: nsIndexer(), fipIdx: nsIndexer()}
	w.Gate, w.Bomb = &Gate{}, &Bomb{}
	w.Cnt.G, w.Prov.G = w.Gate, w.Gate
	w.Cnt.B, w.Prov.B = w.Bomb, w.Bomb
	var objs []runtime.Object
	for _, n := range conf.Nodes {
		objs = append(objs, &corev1.Node{ObjectMeta: metav1.ObjectMeta{Name: n.Name},
			Status: corev1.NodeStatus{Addresses: []corev1.NodeAddress{{Type: corev1.NodeInternalIP, Address: IPStr(n.IP)}}}})
	}
	objs = append(objs, &corev1.ConfigMap{ObjectMeta: metav1.ObjectMeta{Name: cmName, Namespace: cmNamespace},
		Data: map[string]string{cmKey: PoolsJSON(conf.Pools)}})
	w.Kube = kubefake.NewSimpleClientset(objs...)
	w.Galaxy = galaxyfake.NewSimpleClientset()
	if err := w.startPlugin(); err != nil {
		return nil, err
	}
	return w, nil
}

// startPlugin constructs a fresh plugin process on the persistent API state (used by NewWorld and restart).
func (w *World) startPlugin() error {
	ctx := ipamcontext.NewIPAMContext(&kubeDeco{w.Kube, w.Cnt}, &galaxyDeco{w.Galaxy, w.Cnt},
		extfake.NewSimpleClientset(), dynfake.NewSimpleDynamicClient(runtime.NewScheme()))
	// harness-controlled listers: a lister shows what the last `sync` copied, nothing else
	ctx.PodLister = corelisters.NewPodLister(w.podIdx)
	ctx.StatefulSetLister = appslisters.NewStatefulSetLister(w.stsIdx)
	ctx.DeploymentLister = appslisters.NewDeploymentLister(w.dpIdx)
	ctx.PoolLister = galaxylisters.NewPoolLister(w.poolIdx)
	// nodes are static: a lister that always shows them (Preempt reads it)
	nodeIdx := cache.NewIndexer(cache.MetaNamespaceKeyFunc, cache.Indexers{})
	for _, n := range w.Conf.Nodes {
		nodeIdx.Add(&corev1.Node{ObjectMeta: metav1.ObjectMeta{Name: n.Name},
			Status: corev1.NodeStatus{Addresses: []corev1.NodeAddress{{Type: corev1.NodeInternalIP, Address: IPStr(n.IP)}}}})
	}
	ctx.NodeLister = corelisters.NewNodeLister(nodeIdx)
	w.fipHandlers = nil
	// the daemon starts its informers and waits for their sync before Init: a fresh process sees the store as it is
	w.syncFIPs()
	ctx.FIPInformer = capFIPInformer{ctx.FIPInformer, w}
	var pools []*floatingip.FloatingIPPool
	if err := json.Unmarshal([]byte(PoolsJSON(w.Pools)), &pools); err != nil {
		return fmt.Errorf("configuration rejected: %v", err)
	}
	if len(pools) == 0 {
		return fmt.Errorf("empty configuration")
	}
	w.Cnt.Reset(0)
	p, err := schedulerplugin.NewFloatingIPPlugin(schedulerplugin.Conf{FloatingIPs: pools, ConfigMapName: cmName,
		ConfigMapNamespace: cmNamespace, FloatingIPKey: cmKey}, ctx)
	if err != nil {
		return err
	}
	if err := p.Init(); err != nil {
		return err
	}
	if w.Conf.Provider {
		p.VerifPluginSetCloudProvider(w.Prov)
	}
	p.VerifPluginWrapIPAM(func(i floatingip.IPAM) floatingip.IPAM { return &ipamDeco{i, w.Gate} })
	w.Plugin = p
	return nil
}

// ---- API truth helpers ----

func uidStr(n int) types.UID {
	if n == 0 {
		return ""
	}
	return types.UID("u" + strconv.Itoa(n))
}

func uidNum(u types.UID) string {
	s := string(u)
	if s == "" {
		return "0"
	}
	return strings.TrimPrefix(s, "u")
}

func uidNumStr(u string) string { return uidNum(types.UID(u)) }

func (w *World) TruthPod(ns, name string) *corev1.Pod {
	p, err := w.Kube.CoreV1().Pods(ns).Get(context.TODO(), name, metav1.GetOptions{})
	if err != nil {
		return nil
	}
	return p
}

func (w *World) TruthPods() []*corev1.Pod {
	l, _ := w.Kube.CoreV1().Pods("").List(context.TODO(), metav1.ListOptions{})
	var out []*corev1.Pod
	for i := range l.Items {
		out = append(out, &l.Items[i])
	}
	sort.Slice(out, func(i, j int) bool {
		return out[i].Namespace+"/"+out[i].Name < out[j].Namespace+"/"+out[j].Name
	})
	return out
}

func (w *World) ListerPod(ns, name string) *corev1.Pod {
	o, ok, _ := w.podIdx.GetByKey(ns + "/" + name)
	if !ok {
		return nil
	}
	return o.(*corev1.Pod)
}

func Finished(p *corev1.Pod) bool {
	return p.Status.Phase == corev1.PodFailed || p.Status.Phase == corev1.PodSucceeded
}

// HandedIPs returns the ipinfos of the pod's binding annotation as (ip, bits, gw, vlan).
func HandedIPs(p *corev1.Pod) [][4]uint32 {
	if p == nil || p.Annotations == nil {
		return nil
	}
	args, err := constant.UnmarshalCniArgs(p.Annotations[constant.ExtendedCNIArgsAnnotation])
	if err != nil || args == nil {
		return nil
	}
	var out [][4]uint32
	for _, inf := range args.Common.IPInfos {
		if inf.IP == nil {
			continue
		}
		ones, _ := net.IPMask(inf.IP.Mask).Size()
		out = append(out, [4]uint32{nets.IPToInt(inf.IP.IP), uint32(ones), nets.IPToInt(inf.Gateway), uint32(inf.Vlan)})
	}
	return out
}

// PodRanges: the pod's requested range lists as numbers (nil when it requests none).
func PodRanges(p *corev1.Pod) [][][2]uint32 {
	var out [][][2]uint32
	for _, l := range podRanges(p) {
		var o [][2]uint32
		for _, r := range l {
			o = append(o, [2]uint32{nets.IPToInt(r.First), nets.IPToInt(r.Last)})
		}
		out = append(out, o)
	}
	return out
}

func podRanges(p *corev1.Pod) [][]nets.IPRange {
	if p == nil || p.Annotations == nil {
		return nil
	}
	args, err := constant.UnmarshalCniArgs(p.Annotations[constant.ExtendedCNIArgsAnnotation])
	if err != nil || args == nil {
		return nil
	}
	return args.RequestIPRange
}

func makePod(ns, name string, uid int, kind, app, pool string, policy int, ranges [][][2]uint32, wants bool) *corev1.Pod {
	pod := &corev1.Pod{ObjectMeta: metav1.ObjectMeta{Name: name, Namespace: ns, UID: uidStr(uid)},
		Spec: corev1.PodSpec{Containers: []corev1.Container{{Name: "c"}}}}
	if wants {
		pod.Spec.Containers[0].Resources.Requests = corev1.ResourceList{
			corev1.ResourceName(constant.ResourceName): *resource.NewQuantity(1, resource.DecimalSI)}
	}
	switch kind {
	case "sts":
		pod.OwnerReferences = []metav1.OwnerReference{{Kind: "StatefulSet", Name: app}}
	case "dp":
		pod.OwnerReferences = []metav1.OwnerReference{{Kind: "ReplicaSet", Name: app + "-rs1"}}
	case "other":
		pod.OwnerReferences = []metav1.OwnerReference{{Kind: "TApp", Name: app}}
	}
	ann := map[string]string{}
	if pool != "" {
		ann[constant.IPPoolAnnotation] = pool
	}
	switch policy {
	case 1:
		ann[constant.ReleasePolicyAnnotation] = constant.Immutable
	case 2:
		ann[constant.ReleasePolicyAnnotation] = constant.Never
	}
	if len(ranges) > 0 {
		var rr [][]nets.IPRange
		for _, rs := range ranges {
			var l []nets.IPRange
			for _, r := range rs {
				l = append(l, nets.IPRange{First: nets.IntToIP(r[0]), Last: nets.IntToIP(r[1])})
			}
			rr = append(rr, l)
		}
		b, _ := json.Marshal(constant.CniArgs{RequestIPRange: rr})
		ann[constant.ExtendedCNIArgsAnnotation] = string(b)
	}
	if len(ann) > 0 {
		pod.Annotations = ann
	}
	applyPodDefaults(pod, uid, kind)
	return pod
}

// applyPodDefaults completes a generated pod the way the apiserver does (defaulting + admission): no real pod object
// has an empty restartPolicy, dnsPolicy, schedulerName, … - code that (wrongly) lets one of these fields influence the
// float-ip decisions must see them set.  Workload pods get restartPolicy Always (the only value their controllers
// allow), bare pods a mix of Always / OnFailure / Never - a deterministic function of the uid, so that a history and its
// replay see the same objects.
func applyPodDefaults(pod *corev1.Pod, uid int, kind string) {
	sp := &pod.Spec
	sp.RestartPolicy = corev1.RestartPolicyAlways
	if kind == "bare" {
		sp.RestartPolicy = []corev1.RestartPolicy{corev1.RestartPolicyAlways, corev1.RestartPolicyOnFailure, corev1.RestartPolicyNever}[uid%3]
	}
	sp.DNSPolicy = corev1.DNSClusterFirst
	grace := int64(30)
	sp.TerminationGracePeriodSeconds = &grace
	sp.SchedulerName = corev1.DefaultSchedulerName
	prio := int32(0)
	sp.Priority = &prio
	pre := corev1.PreemptLowerPriority
	sp.PreemptionPolicy = &pre
	sp.ServiceAccountName, sp.DeprecatedServiceAccount = "default", "default"
	sp.SecurityContext = &corev1.PodSecurityContext{}
	links := true
	sp.EnableServiceLinks = &links
	secs := int64(300)
	sp.Tolerations = []corev1.Toleration{
		{Key: "node.kubernetes.io/not-ready", Operator: corev1.TolerationOpExists, Effect: corev1.TaintEffectNoExecute, TolerationSeconds: &secs},
		{Key: "node.kubernetes.io/unreachable", Operator: corev1.TolerationOpExists, Effect: corev1.TaintEffectNoExecute, TolerationSeconds: &secs},
	}
	for i := range sp.Containers {
		c := &sp.Containers[i]
		c.Image = "registry.example/app:1"
		c.ImagePullPolicy = corev1.PullIfNotPresent
		c.TerminationMessagePath = corev1.TerminationMessagePathDefault
		c.TerminationMessagePolicy = corev1.TerminationMessageReadFile
	}
	pod.Labels = map[string]string{"app": pod.Name}
	pod.CreationTimestamp = metav1.NewTime(time.Unix(1700000000+int64(uid), 0))
	pod.Status.Phase = corev1.PodPending
	pod.Status.QOSClass = corev1.PodQOSBestEffort
	pod.Status.Conditions = []corev1.PodCondition{{Type: corev1.PodScheduled, Status: corev1.ConditionFalse, Reason: corev1.PodReasonUnschedulable}}
}

// podConditions: the status conditions a kubelet reports for the phase
func podConditions(phase corev1.PodPhase) []corev1.PodCondition {
	st := func(b bool) corev1.ConditionStatus {
		if b {
			return corev1.ConditionTrue
		}
		return corev1.ConditionFalse
	}
	running := phase == corev1.PodRunning
	return []corev1.PodCondition{
		{Type: corev1.PodInitialized, Status: corev1.ConditionTrue},
		{Type: corev1.PodReady, Status: st(running)},
		{Type: corev1.ContainersReady, Status: st(running)},
		{Type: corev1.PodScheduled, Status: corev1.ConditionTrue},
	}
}

// syncListers copies API truth into the listers.
func (w *World) syncListers(pods, apps bool) {
	ctx := context.TODO()
	if pods {
		l, _ := w.Kube.CoreV1().Pods("").List(ctx, metav1.ListOptions{})
		var objs []interface{}
		for i := range l.Items {
			objs = append(objs, l.Items[i].DeepCopy())
		}
		w.podIdx.Replace(objs, "")
	}
	if apps {
		s, _ := w.Kube.AppsV1().StatefulSets("").List(ctx, metav1.ListOptions{})
		var so []interface{}
		for i := range s.Items {
			so = append(so, s.Items[i].DeepCopy())
		}
		w.stsIdx.Replace(so, "")
		d, _ := w.Kube.AppsV1().Deployments("").List(ctx, metav1.ListOptions{})
		var do []interface{}
		for i := range d.Items {
			do = append(do, d.Items[i].DeepCopy())
		}
		w.dpIdx.Replace(do, "")
		p, _ := w.Galaxy.GalaxyV1alpha1().Pools(poolNamespace).List(ctx, metav1.ListOptions{})
		var po []interface{}
		for i := range p.Items {
			po = append(po, p.Items[i].DeepCopy())
		}
		w.poolIdx.Replace(po, "")
	}
}

func (w *World) setApp(kind, ns, app string, replicas int32) {
	ctx := context.TODO()
	switch kind {
	case "sts":
		o := &appsv1.StatefulSet{ObjectMeta: metav1.ObjectMeta{Name: app, Namespace: ns},
			Spec: appsv1.StatefulSetSpec{Replicas: &replicas}}
		w.stsSets++
		if replicas == 1 && w.stsSets%2 == 0 {
			// `.spec.replicas` unset means one replica (apps/v1 default; getStsReplicas handles nil): every second
			// write of a single-replica statefulset in a history stores it that way (deterministic under replay)
			o.Spec.Replicas = nil
		}
		if _, err := w.Kube.AppsV1().StatefulSets(ns).Update(ctx, o, metav1.UpdateOptions{}); err != nil {
			w.Kube.AppsV1().StatefulSets(ns).Create(ctx, o, metav1.CreateOptions{})
		}
	case "dp":
		o := &appsv1.Deployment{ObjectMeta: metav1.ObjectMeta{Name: app, Namespace: ns},
			Spec: appsv1.DeploymentSpec{Replicas: &replicas}}
		if _, err := w.Kube.AppsV1().Deployments(ns).Update(ctx, o, metav1.UpdateOptions{}); err != nil {
			w.Kube.AppsV1().Deployments(ns).Create(ctx, o, metav1.CreateOptions{})
		}
	}
}

func (w *World) delApp(kind, ns, app string) {
	ctx := context.TODO()
	switch kind {
	case "sts":
		w.Kube.AppsV1().StatefulSets(ns).Delete(ctx, app, metav1.DeleteOptions{})
	case "dp":
		w.Kube.AppsV1().Deployments(ns).Delete(ctx, app, metav1.DeleteOptions{})
	}
}

func (w *World) setPoolObj(name string, size int, del bool) {
	ctx := context.TODO()
	c := w.Galaxy.GalaxyV1alpha1().Pools(poolNamespace)
	if del {
		c.Delete(ctx, name, metav1.DeleteOptions{})
		return
	}
	o := &v1alpha1.Pool{ObjectMeta: metav1.ObjectMeta{Name: name, Namespace: poolNamespace}, Size: size}
	if _, err := c.Update(ctx, o, metav1.UpdateOptions{}); err != nil {
		c.Create(ctx, o, metav1.CreateOptions{})
	}
}

// ---- IPAM observation ----

// IPAMRec is one address of the IPAM dump.
type IPAMRec struct {
	IP       uint32
	Key      string
	Policy   int
	Node     string
	UID      string
	Reserved bool
	Free     bool
	Subnets  []string // node subnets of the address' pool
}

// IPAMDump returns every address the real IPAM knows (allocated and unallocated), sorted by address.
func (w *World) IPAMDump() []IPAMRec {
	all, _ := w.Plugin.GetIpam().ByPrefix("")
	seen := map[uint32]int{}
	var out []IPAMRec
	for _, f := range all {
		_, res := f.Labels[constant.ReserveFIPLabel]
		ip := nets.IPToInt(f.IP)
		r := IPAMRec{IP: ip, Key: f.Key, Policy: int(f.Policy), Node: f.NodeName, UID: f.PodUid,
			Reserved: res, Free: f.Key == "", Subnets: f.NodeSubnets.List()}
		seen[ip]++
		out = append(out, r)
	}
	sort.Slice(out, func(i, j int) bool { return out[i].IP < out[j].IP })
	return out
}

// storeObjectsOutside counts the FloatingIP objects whose address the given configuration does not contain.
func (w *World) storeObjectsOutside(pools []Pool) int {
	fl, _ := w.Galaxy.GalaxyV1alpha1().FloatingIPs().List(context.TODO(), metav1.ListOptions{})
	n := 0
	for _, f := range fl.Items {
		if ip, ok := ParseIPv4(f.Name); ok && !ConfHas(pools, ip) {
			n++
		}
	}
	return n
}

func tilde(s string) string {
	if s == "" {
		return "~"
	}
	return s
}

func b01(b bool) string {
	if b {
		return "1"
	}
	return "0"
}

// Digest is the canonical state digest, identical in format to the `dump` answer of gxdrv_plugin.
func (w *World) Digest() string {
	var alloc, free, store, pods, evs, prov, plog []string
	for _, r := range w.IPAMDump() {
		if r.Free {
			free = append(free, strconv.FormatUint(uint64(r.IP), 10))
		} else {
			alloc = append(alloc, fmt.Sprintf("%d:%s|%d|%s|%s|%s", r.IP, tilde(r.Key), r.Policy, tilde(r.Node),
				uidNumStr(r.UID), b01(r.Reserved)))
		}
	}
	fl, _ := w.Galaxy.GalaxyV1alpha1().FloatingIPs().List(context.TODO(), metav1.ListOptions{})
	type srec struct {
		ip uint32
		s  string
	}
	var ss []srec
	for _, f := range fl.Items {
		ip, _ := ParseIPv4(f.Name)
		var a floatingip.Attr
		if f.Spec.Attribute != "" {
			json.Unmarshal([]byte(f.Spec.Attribute), &a)
		}
		_, res := f.Labels[constant.ReserveFIPLabel]
		ss = append(ss, srec{ip, fmt.Sprintf("%d:%s|%d|%s|%s|%s", ip, tilde(f.Spec.Key), int(f.Spec.Policy),
			tilde(a.NodeName), uidNumStr(a.Uid), b01(res))})
	}
	sort.Slice(ss, func(i, j int) bool { return ss[i].ip < ss[j].ip })
	for _, s := range ss {
		store = append(store, s.s)
	}
	for _, p := range w.TruthPods() {
		ph := "P"
		if p.Status.Phase == corev1.PodRunning {
			ph = "R"
		} else if Finished(p) {
			ph = "F"
		}
		var hs []string
		for _, h := range HandedIPs(p) {
			hs = append(hs, fmt.Sprintf("%d/%d/%d/%d", h[0], h[1], h[2], h[3]))
		}
		term := ""
		if p.DeletionTimestamp != nil {
			term = "|T" // inside its deletion grace period: still there, still live
		}
		pods = append(pods, fmt.Sprintf("%s/%s:%s|%s|%s|%s%s", p.Namespace, p.Name, uidNum(p.UID), ph,
			tilde(p.Spec.NodeName), dashIfEmpty(strings.Join(hs, "+")), term))
	}
	sort.Strings(pods)
	for _, e := range w.Events {
		evs = append(evs, fmt.Sprintf("%s/%s:%s:%d", e.Pod.Namespace, e.Pod.Name, uidNum(e.Pod.UID), e.Retries))
	}
	var ips []uint32
	for ip := range w.Prov.Assigned {
		ips = append(ips, ip)
	}
	sort.Slice(ips, func(i, j int) bool { return ips[i] < ips[j] })
	for _, ip := range ips {
		prov = append(prov, fmt.Sprintf("%d=%s", ip, tilde(w.Prov.Assigned[ip])))
	}
	perIP := map[uint32][]string{}
	var pips []uint32
	for _, c := range w.Prov.Log {
		t := "U"
		if c.Assign {
			t = "A"
		}
		if _, ok := perIP[c.IP]; !ok {
			pips = append(pips, c.IP)
		}
		perIP[c.IP] = append(perIP[c.IP], fmt.Sprintf("%s.%s.%s", t, tilde(c.Node), b01(c.OK)))
	}
	sort.Slice(pips, func(i, j int) bool { return pips[i] < pips[j] })
	for _, ip := range pips {
		plog = append(plog, fmt.Sprintf("%d:%s", ip, strings.Join(perIP[ip], ">")))
	}
	var snapIPs []uint32
	for ip := range w.Snap {
		snapIPs = append(snapIPs, ip)
	}
	sort.Slice(snapIPs, func(i, j int) bool { return snapIPs[i] < snapIPs[j] })
	var snap []string
	for _, ip := range snapIPs {
		snap = append(snap, strconv.FormatUint(uint64(ip), 10))
	}
	return "alloc{" + strings.Join(alloc, ";") + "} free{" + strings.Join(free, ",") + "} store{" +
		strings.Join(store, ";") + "} pods{" + strings.Join(pods, ";") + "} events{" + strings.Join(evs, ",") +
		"} prov{" + strings.Join(prov, ",") + "} plog{" + strings.Join(plog, ";") + "} snap{" + strings.Join(snap, ",") + "}"
}

// ViewDigest describes the informer views and pending events (not produced by the code under test; used by the
// exhaustive enumerator to recognise equal states).
func (w *World) ViewDigest() string {
	var ps []string
	for _, o := range w.podIdx.List() {
		p := o.(*corev1.Pod)
		ps = append(ps, fmt.Sprintf("%s/%s:%s:%s:%d", p.Namespace, p.Name, p.UID, p.Status.Phase, len(HandedIPs(p))))
	}
	sort.Strings(ps)
	var as []string
	for _, o := range w.stsIdx.List() {
		s := o.(*appsv1.StatefulSet)
		n := int32(1)
		if s.Spec.Replicas != nil {
			n = *s.Spec.Replicas
		}
		as = append(as, fmt.Sprintf("sts/%s/%s=%d", s.Namespace, s.Name, n))
	}
	for _, o := range w.dpIdx.List() {
		s := o.(*appsv1.Deployment)
		as = append(as, fmt.Sprintf("dp/%s/%s=%d", s.Namespace, s.Name, *s.Spec.Replicas))
	}
	for _, o := range w.poolIdx.List() {
		s := o.(*v1alpha1.Pool)
		as = append(as, fmt.Sprintf("pool/%s=%d", s.Name, s.Size))
	}
	sort.Strings(as)
	return strings.Join(ps, ";") + "#" + strings.Join(as, ";")
}
