package plugin

import (
	"fmt"
	"math/rand"
	"sort"
	"strconv"
	"strings"

	corev1 "k8s.io/api/core/v1"
	"tkestack.io/galaxy/pkg/ipam/schedulerplugin/util"
)

// GenParams tunes the history generator (Appendix D of DESIGN.md).
type GenParams struct {
	Len         int     // ops per history
	ProviderPct int     // % of histories with the cloud provider enabled
	FaultPct    int     // % of plugin ops that carry an apiserver fault
	PFaultPct   int     // % of plugin ops (provider on) that carry a provider failure
	VaryRanges  bool    // re-created pods may request other ranges than their predecessor
	StaleBinds  bool    // allow binds while the pod lister shows another incarnation
	Identities  int     // max pod identities per history
	SyncAfter   float64 // probability that a truth change is followed by a lister sync
	// the Binding call (every bind that does not end in a clean "ok" or NotFound costs the 3 s of Bind's retry loop):
	RebindWeight  float64 // weight of a repeated bind of an already bound live pod (same or another node)
	BindAnswerPct int     // % of binds whose Binding response is lost (applied, timeout returned) or that meet an unavailable apiserver
	SlowBindCap   int     // at most this many such binds per history
	Par           int     // histories executed concurrently (0 = 48)
	RangesPct     int     // % of pod identities that request ip ranges (0 = the default 30), 1-3 range lists each
}

func DefaultParams() GenParams {
	return GenParams{Len: 45, ProviderPct: 30, FaultPct: 10, PFaultPct: 10, VaryRanges: false, StaleBinds: false,
		Identities: 6, SyncAfter: 0.65, RebindWeight: 0, BindAnswerPct: 0, SlowBindCap: 0}
}

var subnetPalette = []Subnet{{0x0a090100, 24}, {0x0a090200, 24}, {0x0a090300, 26}, {0x0a090407, 32}}

var nodePalette = []Node{{"n1", 0x0a090105}, {"n2", 0x0a090205}, {"n3", 0x0a090305}, {"n4", 0x0a080004}, {"n5", 0x0a090106},
	{"n6", 0x0a090407}}

// genPoolAt makes a pool inside the pod subnet base/24 with the given gateway: 1-3 small non-adjacent ranges starting
// at host offset `next`; it returns the offset behind its last range.
func genPoolAt(rng *rand.Rand, base, gw uint32, next uint32, maxIPs int) (Pool, uint32) {
	p := Pool{Gateway: gw, Bits: 24, Vlan: []int{0, 0, 2, 3}[rng.Intn(4)]}
	n := 1 + rng.Intn(3)
	for j, k := range rng.Perm(len(subnetPalette)) {
		if j < n {
			p.NodeSubnets = append(p.NodeSubnets, subnetPalette[k])
		}
	}
	left := maxIPs
	for r := 0; r < 1+rng.Intn(3) && left > 0; r++ {
		sz := 1 + rng.Intn(3)
		if sz > left {
			sz = left
		}
		first := base | next
		p.Ranges = append(p.Ranges, [2]uint32{first, first + uint32(sz) - 1})
		next += uint32(sz) + 1 + uint32(rng.Intn(2)) // gap >= 1 address: ranges of ONE pool must not be mergeable
		left -= sz
	}
	return p, next
}

// genPool makes pool number i: gateway 10.(10+i).0.1/24, 1-3 small non-adjacent ranges.
func genPool(rng *rand.Rand, i int, maxIPs int) Pool {
	base := uint32(0x0a000000) | uint32(10+i)<<16
	p, _ := genPoolAt(rng, base, base|1, 2, maxIPs)
	return p
}

// GenConf generates a valid configuration: 1-4 pools; a pool either opens a new pod subnet or SHARES the pod subnet
// of its predecessor with disjoint (possibly adjacent) ranges and an equal or a distinct gateway (like the two
// 10.180.154.0/24 pools of the repository's test configuration); node subnets from a palette (shared by several
// pools, disjoint, /26 and /32 cases occur); 4-6 nodes one of which is in no configured subnet; the configuration
// text need not be sorted by gateway.
func GenConf(rng *rand.Rand, p GenParams) Conf {
	c := Conf{Nodes: nodePalette[:4+rng.Intn(3)], Provider: rng.Intn(100) < p.ProviderPct}
	n := 1 + rng.Intn(3)
	if rng.Intn(100) < 35 {
		n++
	}
	var base, next uint32
	sub := 0
	for i := 0; i < n; i++ {
		share := i > 0 && rng.Intn(100) < 45 && next < 200
		if !share {
			base = uint32(0x0a000000) | uint32(10+sub)<<16
			sub++
			next = 2
		} else if rng.Intn(2) == 0 {
			next-- // adjacent to the last range of the pool before (allowed across pools)
		}
		gw := base | 1
		if share && rng.Intn(2) == 0 {
			gw = base | uint32(240+i)
		}
		var pl Pool
		pl, next = genPoolAt(rng, base, gw, next, 1+rng.Intn(4))
		c.Pools = append(c.Pools, pl)
	}
	if rng.Intn(2) == 0 {
		rng.Shuffle(len(c.Pools), func(i, j int) { c.Pools[i], c.Pools[j] = c.Pools[j], c.Pools[i] })
	}
	return c
}

type identity struct {
	ns, name, kind, app, pool string
	policy                    int
	ranges                    string
	wants                     bool
}

// Gen is the online history generator: it looks at the world to propose the next op.
type Gen struct {
	rng       *rand.Rand
	p         GenParams
	conf      Conf
	ids       []identity
	intent    string          // pod "ns/name" that was just filtered (the next op binds it on an approved node)
	retry     string          // "ns name node": the scheduler did not get an answer to this bind and will send it again
	slow      int             // binds issued so far that cost the retry loop
	needSync  bool            // truth changed since the last sync
	delayed   map[string]bool // event (uid) marked as delayed
	prelude   []string
	allIPs    []uint32
	initPools []Pool
}

func allIPsOf(pools []Pool) []uint32 {
	var out []uint32
	for _, p := range pools {
		for _, r := range p.Ranges {
			for ip := r[0]; ip <= r[1]; ip++ {
				out = append(out, ip)
			}
		}
	}
	return out
}

func (g *Gen) genRanges() string {
	pct := g.p.RangesPct
	if pct == 0 {
		pct = 30
	}
	if len(g.allIPs) == 0 || g.rng.Intn(100) >= pct {
		return "-"
	}
	n := 1 + g.rng.Intn(2)
	if g.p.RangesPct != 0 {
		n = 1 + g.rng.Intn(3)
	}
	var ls []string
	for i := 0; i < n; i++ {
		ip := g.allIPs[g.rng.Intn(len(g.allIPs))]
		hi := ip + uint32(g.rng.Intn(3))
		if i == 0 && g.rng.Intn(4) == 0 {
			// a requested range that spans SEVERAL configured ranges of a pool (and the gaps between them): the walk
			// over configured ∩ requested has to visit every one of them, not just the first overlapping range
			if pl := g.initPools[g.rng.Intn(len(g.initPools))]; len(pl.Ranges) > 0 {
				ip, hi = pl.Ranges[0][0], pl.Ranges[len(pl.Ranges)-1][1]
				if ip > 2 && g.rng.Intn(2) == 0 {
					ip -= 2
					hi += 2
				}
			}
		}
		ls = append(ls, fmt.Sprintf("%d-%d", ip, hi))
	}
	return strings.Join(ls, ";")
}

// GenHistory draws a configuration and returns it with the script that generates one history for it.
func GenHistory(rng *rand.Rand, p GenParams) (Conf, Script) {
	conf := GenConf(rng, p)
	return conf, NewGen(rng, conf, p).Next
}

func NewGen(rng *rand.Rand, conf Conf, p GenParams) *Gen {
	g := &Gen{rng: rng, p: p, conf: conf, delayed: map[string]bool{}, allIPs: allIPsOf(conf.Pools), initPools: conf.Pools}
	pol := func() int { return []int{0, 0, 1, 1, 2}[rng.Intn(5)] }
	stsPol, dpPol := pol(), pol()
	dpPool := ""
	if rng.Intn(100) < 35 {
		dpPool = "p1"
	}
	cand := []identity{
		{"ns1", "a-0", "sts", "a", "", stsPol, g.genRanges(), true},
		{"ns1", "a-1", "sts", "a", "", stsPol, g.genRanges(), true},
		{"ns1", "d-x1", "dp", "d", dpPool, dpPol, "-", true},
		{"ns1", "d-x2", "dp", "d", dpPool, dpPol, "-", true},
		{"ns1", "d-x3", "dp", "d", dpPool, dpPol, "-", true},
		{"ns1", "solo-0", "bare", "", "", pol(), g.genRanges(), true},
		{"ns1", "job", "bare", "", "", pol(), "-", true},
		{"ns1", "t-0", "other", "t", "", pol(), "-", true},
		{"ns2", "a-0", "sts", "a", "", pol(), "-", true},
		{"ns1", "plain", "bare", "", "", 0, "-", false},
	}
	if rng.Intn(100) < 10 {
		cand[2].ranges = g.genRanges() // deployment pod with ranges (unsupported with a reserving policy)
	}
	rng.Shuffle(len(cand), func(i, j int) { cand[i], cand[j] = cand[j], cand[i] })
	n := 2 + rng.Intn(p.Identities-1)
	if n > len(cand) {
		n = len(cand)
	}
	g.ids = cand[:n]
	// prelude: workloads
	if rng.Intn(100) < 85 {
		g.prelude = append(g.prelude, fmt.Sprintf("app scale sts ns1 a %d", rng.Intn(3)))
	}
	if rng.Intn(100) < 85 {
		g.prelude = append(g.prelude, fmt.Sprintf("app scale dp ns1 d %d", rng.Intn(4)))
	}
	if dpPool != "" && rng.Intn(100) < 60 {
		g.prelude = append(g.prelude, fmt.Sprintf("pool set p1 %d", rng.Intn(4)))
	}
	g.prelude = append(g.prelude, "sync all")
	return g
}

func (g *Gen) createLine(id identity) string {
	ranges := id.ranges
	if g.p.VaryRanges && g.rng.Intn(100) < 40 {
		ranges = g.genRanges()
	}
	return fmt.Sprintf("pod create %s %s %s %s %s %d %s %s", id.ns, id.name, id.kind, tilde(id.app), tilde(id.pool),
		id.policy, ranges, b01(id.wants))
}

func (g *Gen) fault(w *World, multiOK bool) (int, int) {
	f, pf := 0, 0
	if multiOK && g.rng.Intn(100) < g.p.FaultPct {
		f = 1 + g.rng.Intn(4)
	}
	if multiOK && w.Conf.Provider && g.rng.Intn(100) < g.p.PFaultPct {
		pf = 1 + g.rng.Intn(2)
	}
	return f, pf
}

// noMultiKey: no key owns more than one address (then store-call order inside loops over a key is deterministic).
func noMultiKey(w *World) bool {
	seen := map[string]int{}
	for _, r := range w.IPAMDump() {
		if !r.Free {
			seen[r.Key]++
			if seen[r.Key] > 1 {
				return false
			}
		}
	}
	return true
}

type wopt struct {
	w    float64
	line func() string
}

// Next proposes the next op line.
func (g *Gen) Next(w *World, step int) string {
	if len(g.prelude) > 0 {
		l := g.prelude[0]
		g.prelude = g.prelude[1:]
		return l
	}
	rng := g.rng
	// a bind the scheduler got an error for is sent again (same pod, same node)
	if g.retry != "" {
		x := strings.Fields(g.retry)
		g.retry = ""
		if rng.Intn(100) < 85 {
			g.slow++ // (answered "already assigned" if the first one was applied)
			if l := g.bindLine(w, x[0], x[1], x[2]); l != "" {
				return l
			}
		}
	}
	// a filter is normally followed by the bind on one of the nodes it approved
	if g.intent != "" {
		id := g.intent
		var nodes []string
		if r := w.LastOp.Result; w.LastOp.Kind == "filter" && strings.HasPrefix(r, "ok nodes=") && r != "ok nodes=-" {
			nodes = strings.Split(strings.TrimPrefix(r, "ok nodes="), ",")
		}
		g.intent = ""
		pct := 88
		if len(nodes) == 0 {
			pct = 12 // nothing approved: a scheduler would not bind (and a bind on a node without subnet polls 100 ms)
		}
		if rng.Intn(100) < pct {
			x := strings.SplitN(id, "/", 2)
			node := g.conf.Nodes[rng.Intn(len(g.conf.Nodes))].Name
			if len(nodes) > 0 && rng.Intn(100) < 92 {
				node = nodes[rng.Intn(len(nodes))]
			}
			if l := g.bindLine(w, x[0], x[1], node); l != "" {
				return l
			}
		}
	}
	if g.needSync && rng.Float64() < g.p.SyncAfter {
		g.needSync = false
		return "sync all"
	}
	truth := map[string]*corev1.Pod{}
	for _, p := range w.TruthPods() {
		truth[p.Namespace+"/"+p.Name] = p
	}
	var opts []wopt
	add := func(wt float64, f func() string) { opts = append(opts, wopt{wt, f}) }
	multiOK := noMultiKey(w)
	for _, id := range g.ids {
		id := id
		key := id.ns + "/" + id.name
		p := truth[key]
		if p == nil {
			add(5, func() string { g.needSync = true; return g.createLine(id) })
			continue
		}
		bound := len(HandedIPs(p)) > 0
		if !bound && !Finished(p) {
			add(8, func() string {
				var names []string
				for _, n := range g.conf.Nodes {
					if rng.Intn(100) < 90 {
						names = append(names, n.Name)
					}
				}
				f, _ := g.fault(w, true)
				g.intent = key
				return fmt.Sprintf("filter %s %s %s ? ? %d", id.ns, id.name, dashIfEmpty(strings.Join(names, ",")), f)
			})
			add(0.3, func() string {
				return g.bindLine(w, id.ns, id.name, g.conf.Nodes[rng.Intn(len(g.conf.Nodes))].Name)
			})
			add(0.8, func() string { // the scheduler asks which nodes remain candidates for a preemptor
				f, _ := g.fault(w, true)
				return fmt.Sprintf("preempt %s %s n1,n2,n3,n4 ? ? %d", id.ns, id.name, f)
			})
		}
		if bound && g.slow < g.p.SlowBindCap && !Finished(p) {
			// the scheduler repeats the bind of a pod that is already bound (it missed the answer, or it restarted):
			// same node, or another one
			add(g.p.RebindWeight, func() string {
				g.slow++
				node := p.Spec.NodeName
				if rng.Intn(100) < 35 || node == "" {
					node = g.conf.Nodes[rng.Intn(len(g.conf.Nodes))].Name
				}
				return g.bindLine(w, id.ns, id.name, node)
			})
		}
		if bound {
			add(0.3, func() string { return fmt.Sprintf("filter %s %s n1,n2,n3 ? ? 0", id.ns, id.name) })
			if p.Status.Phase != corev1.PodRunning && !Finished(p) {
				add(1.5, func() string { g.needSync = true; return fmt.Sprintf("pod run %s %s", id.ns, id.name) })
			}
		}
		wt := 1.2
		if bound {
			wt = 4
		}
		if p.DeletionTimestamp == nil {
			// graceful deletion: the pod lingers (terminating) while everything else goes on - resync, Release requests,
			// events, the replacement pod's filter and bind - and is really deleted later
			add(wt*0.45, func() string {
				g.needSync = true
				f, _ := g.fault(w, true)
				return fmt.Sprintf("pod term %s %s %d", id.ns, id.name, f)
			})
		} else {
			wt *= 0.35 // the grace period lasts a while
		}
		add(wt, func() string { g.needSync = true; return fmt.Sprintf("pod delete %s %s", id.ns, id.name) })
		if !Finished(p) {
			add(wt/3, func() string { g.needSync = true; return fmt.Sprintf("pod finish %s %s", id.ns, id.name) })
		}
	}
	// a pod that is gone from the API server but still in the lister may still be bound by a slow scheduler
	if rng.Intn(100) < 3 {
		for _, id := range g.ids {
			id := id
			if truth[id.ns+"/"+id.name] == nil && w.ListerPod(id.ns, id.name) != nil {
				add(1, func() string { return g.bindLine(w, id.ns, id.name, "n1") })
			}
		}
	}
	for i, e := range w.Events {
		i, e := i, e
		uid := string(e.Pod.UID)
		if _, seen := g.delayed[uid]; !seen {
			g.delayed[uid] = rng.Intn(100) < 30
		}
		wt := 6.0
		if g.delayed[uid] {
			wt = 0.8
		}
		add(wt, func() string {
			f, pf := 0, 0
			if k, err := util.FormatKey(e.Pod); err == nil && len(w.ownedBy(k.KeyInDB)) <= 1 {
				f, pf = g.fault(w, true)
			}
			return fmt.Sprintf("deliver %d %d %d", i, f, pf)
		})
		add(0.25, func() string { return fmt.Sprintf("drop %d", i) })
	}
	add(3, func() string { g.needSync = false; return "sync all" })
	add(0.6, func() string { return "fipsync" }) // the FloatingIP informer catches up (most reloads see a lagging cache)
	add(0.7, func() string { return "sync pods" })
	add(0.7, func() string { return "sync apps" })
	add(2.5, func() string {
		f, pf := g.fault(w, multiOK)
		return fmt.Sprintf("resync ? %d %d", f, pf)
	})
	add(1, func() string { return "syncips 0" })
	add(1.5, func() string { return g.releaseLine(w, multiOK) })
	// reload / restart more often while pods hold addresses: ConfigurePool must keep the records of every pool
	liveBound := len(w.LiveBound()) > 0
	rw, sw := 0.7, 0.45
	if liveBound {
		rw, sw = 1.8, 0.7
	}
	add(rw, func() string { return g.reloadLine(w) })
	add(sw, func() string { g.needSync = false; return "restart" })
	// the resync pass in two phases, anything may happen in between
	add(0.9, func() string { return "resyncsnap" })
	var snapIPs []uint32
	for ip := range w.Snap {
		snapIPs = append(snapIPs, ip)
	}
	sort.Slice(snapIPs, func(i, j int) bool { return snapIPs[i] < snapIPs[j] })
	for _, ip := range snapIPs {
		ip := ip
		add(3.0/float64(len(w.Snap))+0.6, func() string {
			f, pf := g.fault(w, multiOK)
			return fmt.Sprintf("resyncrec %d %d %d", ip, f, pf)
		})
	}
	// an administrator reserves addresses by hand (labelled objects) and withdraws reservations
	{
		dump := w.IPAMDump()
		var freeIPs, resvIPs, usedIPs []uint32
		for _, r := range dump {
			switch {
			case r.Free:
				freeIPs = append(freeIPs, r.IP)
			case r.Reserved:
				resvIPs = append(resvIPs, r.IP)
			default:
				usedIPs = append(usedIPs, r.IP)
			}
		}
		if len(resvIPs) < 2 && len(freeIPs) > 0 {
			add(0.55, func() string {
				ip := freeIPs[rng.Intn(len(freeIPs))]
				if len(usedIPs) > 0 && rng.Intn(100) < 12 {
					ip = usedIPs[rng.Intn(len(usedIPs))] // refused: the address is allocated
				}
				return fmt.Sprintf("admres %d %s %d", ip, []string{"reserved-for-node", "keep"}[rng.Intn(2)], []int{2, 2, 0, 1}[rng.Intn(4)])
			})
		}
		if len(resvIPs) > 0 {
			add(0.3, func() string { return fmt.Sprintf("admunres %d", resvIPs[rng.Intn(len(resvIPs))]) })
		}
		if len(usedIPs) > 0 {
			add(0.05, func() string { return fmt.Sprintf("admunres %d", usedIPs[rng.Intn(len(usedIPs))]) })
		}
	}
	add(1.2, func() string {
		g.needSync = true
		if rng.Intn(2) == 0 {
			return fmt.Sprintf("app scale sts ns1 a %d", rng.Intn(3))
		}
		return fmt.Sprintf("app scale dp ns1 d %d", rng.Intn(4))
	})
	add(0.35, func() string {
		g.needSync = true
		if rng.Intn(2) == 0 {
			return "app delete sts ns1 a"
		}
		return "app delete dp ns1 d"
	})
	add(0.5, func() string {
		g.needSync = true
		if rng.Intn(4) == 0 {
			return "pool del p1"
		}
		return fmt.Sprintf("pool set p1 %d", rng.Intn(4))
	})
	total := 0.0
	for _, o := range opts {
		total += o.w
	}
	x := rng.Float64() * total
	for _, o := range opts {
		if x < o.w {
			if l := o.line(); l != "" {
				return l
			}
			return "sync all"
		}
		x -= o.w
	}
	return "sync all"
}

func (g *Gen) bindLine(w *World, ns, name, node string) string {
	tp := w.TruthPod(ns, name)
	lp := w.ListerPod(ns, name)
	if lp == nil {
		// the lister does not know the pod yet: the bind fails at once; rarely interesting
		if g.rng.Intn(100) < 70 {
			return "sync pods"
		}
	}
	if !g.p.StaleBinds && tp != nil && lp != nil && tp.UID != lp.UID {
		return "sync pods"
	}
	uid := "0"
	if tp != nil {
		uid = uidNum(tp.UID)
	} else if lp != nil {
		uid = uidNum(lp.UID)
	}
	f, pf := 0, 0
	multi := false
	if lp != nil {
		if k, err := util.FormatKey(lp); err == nil && len(w.ownedBy(k.KeyInDB)) > 1 {
			multi = true
		}
	}
	if !multi {
		f, pf = g.fault(w, true)
		if f != 0 && g.rng.Intn(3) != 0 {
			f = 1 + g.rng.Intn(3) // the later calls (pods/binding) cost a 500 ms retry: keep them rare
		}
	}
	line := fmt.Sprintf("bind %s %s %s %s ? ? %d %d", ns, name, uid, node, f, pf)
	if g.slow < g.p.SlowBindCap && g.rng.Intn(100) < g.p.BindAnswerPct {
		g.slow++
		if g.rng.Intn(100) < 75 {
			line += " lost"
		} else {
			line += " unavail"
		}
		g.retry = ns + " " + name + " " + node
	}
	return line
}

func (g *Gen) releaseLine(w *World, multiOK bool) string {
	dump := w.IPAMDump()
	if len(dump) == 0 {
		return ""
	}
	r := dump[g.rng.Intn(len(dump))]
	f, pf := g.fault(w, multiOK)
	if r.Free {
		return fmt.Sprintf("release %d sts_ ns1 a a-0 ~ %d %d", r.IP, f, pf)
	}
	k := util.ParseKey(r.Key)
	if g.rng.Intn(100) < 15 { // a request naming another owner
		return fmt.Sprintf("release %d sts_ ns1 zz zz-0 ~ %d %d", r.IP, f, pf)
	}
	return fmt.Sprintf("release %d %s %s %s %s %s %d %d", r.IP, tilde(k.AppTypePrefix), tilde(k.Namespace), tilde(k.AppName),
		tilde(k.PodName), tilde(k.PoolName), f, pf)
}

func (g *Gen) reloadLine(w *World) string {
	cur := w.Pools
	var next []Pool
	switch []int{0, 4, 4, 1, 2, 2, 3}[g.rng.Intn(7)] {
	case 4: // the same pools in another order: another text, ConfigurePool runs again and must keep everything
		next = append([]Pool(nil), cur...)
		g.rng.Shuffle(len(next), func(i, j int) { next[i], next[j] = next[j], next[i] })
	case 0: // same text
		next = cur
	case 1: // grown: one more pool, or the initial configuration again
		next = append(append([]Pool(nil), cur...), genPool(g.rng, 5+g.rng.Intn(3), 2))
		seen := map[uint32]bool{}
		var dd []Pool
		for _, p := range next {
			if !seen[p.Gateway] {
				seen[p.Gateway] = true
				dd = append(dd, p)
			}
		}
		next = dd
	case 2: // shrunk: drop a pool or the last range of a pool
		next = append([]Pool(nil), cur...)
		i := g.rng.Intn(len(next))
		if len(next) > 1 && g.rng.Intn(2) == 0 {
			next = append(next[:i:i], next[i+1:]...)
		} else if len(next[i].Ranges) > 1 {
			p := next[i]
			p.Ranges = append([][2]uint32(nil), p.Ranges[:len(p.Ranges)-1]...)
			next[i] = p
		}
	case 3:
		next = g.initPools
	}
	if len(next) == 0 {
		next = cur
	}
	f := 0
	if g.rng.Intn(100) < g.p.FaultPct {
		f = 1 + g.rng.Intn(2)
		// the store deletes of ConfigurePool come in list order: a fault on them is reproducible only if there is one
		if w.storeObjectsOutside(next) == 1 && g.rng.Intn(2) == 0 {
			f = 3
		}
	}
	return "reload " + PoolsLine(next) + " " + strconv.Itoa(f)
}
