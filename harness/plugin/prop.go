package plugin

import (
	"fmt"
	"math/rand"
	"os"
	"path/filepath"
	"sort"
	"strings"
	"time"

	"gxverif/hx"
)

const rule = "a history is nontrivial iff at least 3 of its operations (lister syncs not counted) succeeded; distinct by the text of its op lines"

func verifRoot() string {
	if r := os.Getenv("VERIF_ROOT"); r != "" {
		return r
	}
	return "/verif"
}

// runOne executes one replay / corpus file: monitor + correspondence.
func runOne(e *hx.Env, r *hx.Report, prop, path string, mon Monitor, isCorpus bool) {
	ops, err := hx.ReadOps(path)
	if err != nil || len(ops) == 0 {
		r.Disagree = append(r.Disagree, hx.Disagreement{Where: "replay-unreadable", Impl: path, Replay: path})
		return
	}
	if ops[0] == "schedule" { // kind=schedule: goroutines parked / resumed inside the real code; monitors only
		vs, err := RunSchedule(ops, rand.New(rand.NewSource(e.Seed)), mon)
		if err != nil {
			r.Disagree = append(r.Disagree, hx.Disagreement{Where: "schedule-failed", Impl: err.Error(), Replay: path})
			return
		}
		r.Traces++
		r.Case(strings.Join(ops, "\n"), true)
		r.Hit("schedule")
		for _, v := range vs {
			v.Replay = path
			r.Violations = append(r.Violations, v)
		}
		return
	}
	// kind=obligation files name a broken proof / correspondence point, there is nothing to execute
	if strings.HasPrefix(ops[0], "{") {
		return
	}
	t, err := ReplayOps(ops, rand.New(rand.NewSource(e.Seed)), mon)
	if err != nil {
		r.Disagree = append(r.Disagree, hx.Disagreement{Where: "replay-failed", Impl: err.Error(), Replay: path})
		return
	}
	r.Traces++
	r.Case(strings.Join(t.Ops, "\n"), true)
	for k, v := range t.Stats {
		r.Histogram[k] += v
	}
	if isCorpus {
		r.Hit("corpus-history")
	}
	for _, v := range t.Violations {
		v.Replay = path
		r.Violations = append(r.Violations, v)
	}
	if t.Hang != "" {
		r.Violations = append(r.Violations, hx.Violation{Signature: "op-" + strings.Fields(t.Hang)[0], What: t.Hang, Replay: path})
	}
	d, err := Compare(e, t)
	if err != nil {
		r.Disagree = append(r.Disagree, hx.Disagreement{Where: "driver-failed", Impl: err.Error(), Replay: path})
		return
	}
	if d != nil {
		d.Replay = path
		d.Ops = t.Ops
		r.Disagree = append(r.Disagree, *d)
	}
}

// RunProperty is the body of a per-property harness command built on this package: replay mode, corpus, random
// histories under several generator profiles, and (thorough) the small-scope exhaustive enumeration.
func RunProperty(e *hx.Env, prop string, mon Monitor) *hx.Report {
	r := hx.NewReport(prop, e.Tier, e.Seed, rule)
	mon = WithReserved(mon)
	if e.Replay != "" {
		runOne(e, r, prop, e.Replay, mon, false)
		return r
	}
	files, _ := filepath.Glob(filepath.Join(verifRoot(), "corpus", prop, "*.ops"))
	sort.Strings(files)
	for _, f := range files {
		runOne(e, r, prop, f, mon, true)
	}
	if os.Getenv("GXH_PLUGIN_MODE") == "exhaustive" { // debugging aid: only the small-scope enumeration
		x := Exhaustive(e, prop, mon, 7, 10*60)
		x.Fill(r)
		r.Extra["exhaustive_states"] = x.HistoryFlags["exhaustive-states"]
		return r
	}
	// the per-pod key mutex: lock-exclusion probe over pairs of entry points on one pod identity
	lp := LockProbe(e, prop)
	lp.Fill(r)
	// the process dies between two external calls of an op: restart + resync + monitors + the model's crashAt
	cp := DefaultParams()
	cp.Len = 30
	cs := RunCrashSweep(e, prop, e.N(150, 1500), 8, cp, mon)
	cs.Fill(r)
	// profile 1: the default mix
	p := DefaultParams()
	t0 := time.Now()
	lap := func(what string) {
		fmt.Fprintf(os.Stderr, "%s: %s %.1fs\n", prop, what, time.Since(t0).Seconds())
		t0 = time.Now()
	}
	b := RunCorrespondence(e, prop, e.N(1500, 30000), p, mon)
	b.Fill(r)
	lap("profile default")
	// profile 2: longer histories, few identities (more re-creation of the same names), more delayed events
	p2 := DefaultParams()
	p2.Len, p2.Identities, p2.SyncAfter = 70, 3, 0.5
	b2 := RunCorrespondence(e, prop, e.N(600, 12000), p2, mon)
	b2.Fill(r)
	lap("profile few-identities-long")
	// profile 3: provider always on, more faults
	p3 := DefaultParams()
	p3.ProviderPct, p3.FaultPct, p3.PFaultPct = 100, 20, 20
	b3 := RunCorrespondence(e, prop, e.N(600, 12000), p3, mon)
	b3.Fill(r)
	lap("profile provider-and-faults")
	// profile 4 (adversarial): stale-lister binds and changing range requests - the two known boundary cases
	p4 := DefaultParams()
	p4.StaleBinds, p4.VaryRanges, p4.SyncAfter = true, true, 0.4
	b4 := RunCorrespondence(e, prop, e.N(500, 10000), p4, mon)
	b4.Fill(r)
	lap("profile adversarial")
	// profile 5: the Binding call - repeated binds of already bound live pods (same node / another node), lost
	// responses followed by the scheduler's retry, an unavailable apiserver; the events Bind queues are delivered by
	// the ordinary deliver ops.  These binds sit out the 3 s of Bind's retry loop, so the histories are short and all
	// run concurrently.
	p5 := DefaultParams()
	p5.Len, p5.Identities, p5.SyncAfter = 26, 3, 0.8
	p5.RebindWeight, p5.BindAnswerPct, p5.SlowBindCap, p5.Par = 3.0, 25, 2, e.N(100, 400)
	b5 := RunCorrespondence(e, prop, e.N(100, 4000), p5, mon)
	b5.Fill(r)
	lap("profile binding-answers")
	if e.Thorough() {
		x := Exhaustive(e, prop, mon, 8, 8*60)
		x.Fill(r)
		lap("small-scope exhaustive")
		r.Extra["exhaustive_states"] = x.HistoryFlags["exhaustive-states"]
		r.Extra["exhaustive_depth_completed"] = x.HistoryFlags["exhaustive-depth-completed"]
		r.Exhaustive = false // bounded scope: all states reachable within the depth over the small alphabet only
	}
	r.Extra["profiles"] = []string{"default", "few-identities-long", "provider-and-faults", "stale-binds-and-varying-ranges", "binding-answers"}
	r.Extra["histories"] = fmt.Sprintf("%d", r.Traces)
	return r
}
