package plugin

import (
	"fmt"
	"math/rand"
	"strings"
	"sync"

	"gxverif/hx"
)

// crashable ops: the moves that make apiserver calls or provider requests.
func crashable(line string) bool {
	switch opKindOf(line) {
	case "filter", "preempt", "bind", "deliver", "resync", "resyncrec", "syncips", "release", "reload":
		return true
	}
	return false
}

// CrashCase is one crash experiment: the history up to an op, the op executed with a bomb, restart, resync.
type crashResult struct {
	t       *Transcript
	crashed bool
	calls   int
	err     error
}

// runCrashCase replays `prefix` (op templates, choices re-observed), executes `op` dying before external call at+1,
// then - if it died - lets the new process run one resync pass; the monitor runs after the restart and after the
// resync.  The transcript holds the lines for the model (`crash k j <op>`, `resync …`) with a dump after each.
func runCrashCase(conf Conf, seed int64, prefix []string, op string, at int, mon Monitor) crashResult {
	rng := rand.New(rand.NewSource(seed))
	t, w, err := Execute(conf, rng, FixedScript(prefix), nil, len(prefix)+1)
	if err != nil {
		return crashResult{err: err}
	}
	if t.Hang != "" {
		return crashResult{t: t}
	}
	if !noMultiKey(w) {
		// loops over the records of one key run in Go map order: which store call is number `at` is not reproducible
		at = 1 << 20
	}
	final, res, crashed := w.ApplyCrash(op, at)
	calls := len(w.Cnt.Calls()) + w.Prov.N
	t.Lines = append(t.Lines, final)
	t.Impl = append(t.Impl, res)
	t.Ops = append(t.Ops, final)
	if strings.HasPrefix(res, "panic") || res == "hang" {
		t.Hang = res
		return crashResult{t: t, crashed: crashed, calls: calls}
	}
	t.Lines = append(t.Lines, "dump")
	t.Impl = append(t.Impl, w.Digest())
	check := func(step int) {
		if mon != nil {
			for _, v := range mon(w, step) {
				v.Ops = append([]string(nil), t.Ops...)
				t.Violations = append(t.Violations, v)
			}
		}
	}
	if !crashed {
		return crashResult{t: t, calls: calls}
	}
	t.hit("crash:" + opKindOf(op))
	check(len(prefix))
	if len(t.Violations) == 0 {
		fl, r := w.Apply("resync ? 0 0")
		t.Lines = append(t.Lines, fl, "dump")
		t.Impl = append(t.Impl, r, w.Digest())
		t.Ops = append(t.Ops, fl)
		check(len(prefix) + 1)
	}
	return crashResult{t: t, crashed: true, calls: calls}
}

// RunCrashSweep: for n generated histories, ops that make external calls are executed again and again from the same
// prefix with the process dying before call 1, 2, 3, … of the op (quick: up to `perHistory` (op, index) pairs per
// history chosen by the seed; thorough: every index of every such op), followed by restart + resync + monitors +
// comparison with the model's `crashAt`.
func RunCrashSweep(e *hx.Env, prop string, n int, perHistory int, params GenParams, mon Monitor) *Batch {
	b := &Batch{Stats: map[string]int{}, HistoryFlags: map[string]int{}}
	type job struct {
		conf   Conf
		seed   int64
		prefix []string
		op     string
		at     int
	}
	var jobs []job
	// phase 1: generate the histories (normal execution), remember the op templates and the calls each op made
	seeds := make([]int64, n)
	for i := range seeds {
		seeds[i] = e.Rng.Int63()
	}
	type hist struct {
		conf  Conf
		tmpl  []string
		calls []int
	}
	hists := make([]hist, n)
	var wg sync.WaitGroup
	sem := make(chan struct{}, 32)
	for i := 0; i < n; i++ {
		wg.Add(1)
		sem <- struct{}{}
		go func(i int) {
			defer wg.Done()
			defer func() { <-sem }()
			rng := rand.New(rand.NewSource(seeds[i]))
			conf := GenConf(rng, params)
			g := NewGen(rng, conf, params)
			var tmpl []string
			var calls []int
			script := func(w *World, step int) string {
				if step > 0 {
					calls = append(calls, len(w.Cnt.Calls())+w.Prov.N)
				}
				l := g.Next(w, step)
				if l != "" {
					tmpl = append(tmpl, l)
				}
				return l
			}
			if _, w, err := Execute(conf, rng, script, nil, params.Len); err == nil && w != nil {
				calls = append(calls, len(w.Cnt.Calls())+w.Prov.N)
			}
			if len(calls) > len(tmpl) {
				calls = calls[:len(tmpl)]
			}
			hists[i] = hist{conf, tmpl, calls}
		}(i)
	}
	wg.Wait()
	for i, h := range hists {
		var cand []job
		for t := range h.tmpl {
			if t >= len(h.calls) || !crashable(h.tmpl[t]) || strings.Contains(h.tmpl[t], " ? ? ") && false {
				continue
			}
			// fault-free version of the op: the crash is the only disturbance
			op := stripFaults(h.tmpl[t])
			for at := 0; at < h.calls[t] && at < 8; at++ {
				cand = append(cand, job{h.conf, seeds[i], h.tmpl[:t], op, at})
			}
		}
		if !e.Thorough() && len(cand) > perHistory {
			e.Rng.Shuffle(len(cand), func(a, c int) { cand[a], cand[c] = cand[c], cand[a] })
			cand = cand[:perHistory]
		}
		jobs = append(jobs, cand...)
	}
	// phase 2: the crash experiments
	results := make([]crashResult, len(jobs))
	diss := make([]*hx.Disagreement, len(jobs))
	for i := range jobs {
		wg.Add(1)
		sem <- struct{}{}
		go func(i int) {
			defer wg.Done()
			defer func() { <-sem }()
			j := jobs[i]
			r := runCrashCase(j.conf, j.seed, j.prefix, j.op, j.at, mon)
			if r.err == nil && r.t != nil && r.t.Hang == "" && len(r.t.Violations) == 0 {
				diss[i], r.err = Compare(e, r.t)
			}
			results[i] = r
		}(i)
	}
	wg.Wait()
	seenSig := map[string]bool{}
	for i, r := range results {
		if r.err != nil {
			b.Errors = append(b.Errors, r.err.Error())
			continue
		}
		if r.t == nil {
			continue
		}
		b.Histories++
		b.Ops += len(r.t.Ops) - 1
		for k, v := range r.t.Stats {
			if strings.HasPrefix(k, "crash:") {
				b.Stats[k] += v
			}
		}
		if r.crashed {
			b.Stats["crash-experiments"]++
			b.Stats[fmt.Sprintf("crash-at-call:%d", jobs[i].at)]++
			b.Nontrivial = append(b.Nontrivial, strings.Join(r.t.Ops, "\n"))
		} else {
			b.Stats["crash-point-not-reached"]++
			b.Trivial++
		}
		if r.t.Hang != "" {
			p := e.WriteReplay(prop, "history", fmt.Sprintf("crash-hang-%d", i), []string{"outcome=" + r.t.Hang}, r.t.Ops)
			b.Violations = append(b.Violations, hx.Violation{Signature: "crash-op-" + strings.Fields(r.t.Hang)[0] + ":" + opKindOf(jobs[i].op),
				What: "operation did not return normally: " + r.t.Hang, Replay: p})
		}
		for _, v := range r.t.Violations {
			v.Signature = "after-crash:" + v.Signature
			if seenSig[v.Signature] {
				continue
			}
			seenSig[v.Signature] = true
			v.Replay = e.WriteReplay(prop, "history", fmt.Sprintf("crash-viol-%s-%d", sanitize(v.Signature), i),
				[]string{"signature=" + v.Signature, "what=" + v.What}, v.Ops)
			b.Violations = append(b.Violations, v)
		}
		if d := diss[i]; d != nil {
			dd := *d
			dd.Ops = r.t.Ops
			dd.Replay = e.WriteReplay(prop, "history", fmt.Sprintf("crash-disagree-%d", i),
				[]string{"where=" + dd.Where, "impl=" + dd.Impl, "model=" + dd.Model}, r.t.Ops)
			if len(b.Disagree) < 20 {
				b.Disagree = append(b.Disagree, dd)
			}
		}
	}
	return b
}

// stripFaults sets the fault fields of an op template to 0.
func stripFaults(line string) string {
	f := strings.Fields(line)
	switch f[0] {
	case "filter", "preempt":
		f[6] = "0"
	case "bind":
		f[7], f[8] = "0", "0"
	case "deliver", "resync", "resyncrec":
		f[len(f)-2], f[len(f)-1] = "0", "0"
	case "syncips":
		f[1] = "0"
	case "release":
		f[7], f[8] = "0", "0"
	case "reload":
		f[2] = "0"
	}
	return strings.Join(f, " ")
}
