package plugin

import (
	"fmt"
	"math/rand"
	"net"
	"strconv"
	"strings"
	"sync"
	"time"

	corev1 "k8s.io/api/core/v1"
	"tkestack.io/galaxy/pkg/api/galaxy/constant"
	"tkestack.io/galaxy/pkg/api/k8s/schedulerapi"
	"tkestack.io/galaxy/pkg/ipam/floatingip"
	"tkestack.io/galaxy/pkg/ipam/schedulerplugin"
	"tkestack.io/galaxy/pkg/ipam/schedulerplugin/util"
	"tkestack.io/galaxy/pkg/utils/nets"

	"gxverif/hx"
)

// Access is one apiserver / IPAM / provider access seen by the decorators.
type Access struct{ Class, Name string }

// Gate lets the harness PARK the goroutine that makes the next access of a chosen class (inside the real code, i.e.
// inside whatever locks it holds at that point) and records every access made while it is parked: the lock-exclusion
// probe and the two-goroutine schedules are built on it.  Idle gates cost one mutex operation per access.
type Gate struct {
	mu       sync.Mutex
	phase    int // 0 idle, 1 armed, 2 parked, 3 released
	classes  map[string]bool
	parkedCh chan struct{}
	release  chan struct{}
	During   []Access
	After    []Access
}

// Arm: the next access whose class is listed parks its goroutine.
func (g *Gate) Arm(classes ...string) {
	g.mu.Lock()
	defer g.mu.Unlock()
	g.phase, g.classes = 1, map[string]bool{}
	for _, c := range classes {
		g.classes[c] = true
	}
	g.parkedCh, g.release = make(chan struct{}), make(chan struct{})
	g.During, g.After = nil, nil
}

// Hit is called by the decorators at the ENTRY of every access (before delegating).
func (g *Gate) Hit(class, name string) {
	if g == nil {
		return
	}
	g.mu.Lock()
	switch g.phase {
	case 1:
		if g.classes[class] {
			g.phase = 2
			close(g.parkedCh)
			rel := g.release
			g.mu.Unlock()
			select {
			case <-rel:
			case <-time.After(20 * time.Second):
			}
			return
		}
	case 2:
		g.During = append(g.During, Access{class, name})
	case 3:
		g.After = append(g.After, Access{class, name})
	}
	g.mu.Unlock()
}

// WaitParked waits until some goroutine is parked.
func (g *Gate) WaitParked(d time.Duration) bool {
	g.mu.Lock()
	ch := g.parkedCh
	g.mu.Unlock()
	if ch == nil {
		return false
	}
	select {
	case <-ch:
		return true
	case <-time.After(d):
		return false
	}
}

// Resume releases the parked goroutine (and disarms an unfired gate).
func (g *Gate) Resume() {
	g.mu.Lock()
	defer g.mu.Unlock()
	if g.phase == 1 || g.phase == 2 {
		g.phase = 3
		close(g.release)
	}
}

func (g *Gate) Idle() {
	g.mu.Lock()
	g.phase = 0
	g.mu.Unlock()
}

func (g *Gate) snapshot() []Access {
	g.mu.Lock()
	defer g.mu.Unlock()
	return append([]Access(nil), g.During...)
}

// ipamDeco records every IPAM access that names a key or an address.
type ipamDeco struct {
	floatingip.IPAM
	g *Gate
}

func (d *ipamDeco) AllocateSpecificIP(k string, ip net.IP, a floatingip.Attr) error {
	d.g.Hit("ipam-mut", "AllocateSpecificIP "+k)
	return d.IPAM.AllocateSpecificIP(k, ip, a)
}
func (d *ipamDeco) AllocateInSubnet(k string, n *net.IPNet, a floatingip.Attr) (net.IP, error) {
	d.g.Hit("ipam-mut", "AllocateInSubnet "+k)
	return d.IPAM.AllocateInSubnet(k, n, a)
}
func (d *ipamDeco) AllocateInSubnetsAndIPRange(k string, n *net.IPNet, r [][]nets.IPRange, a floatingip.Attr) ([]net.IP, error) {
	d.g.Hit("ipam-mut", "AllocateInSubnetsAndIPRange "+k)
	return d.IPAM.AllocateInSubnetsAndIPRange(k, n, r, a)
}
func (d *ipamDeco) AllocateInSubnetWithKey(o, n, s string, a floatingip.Attr) error {
	d.g.Hit("ipam-mut", "AllocateInSubnetWithKey "+n)
	return d.IPAM.AllocateInSubnetWithKey(o, n, s, a)
}
func (d *ipamDeco) ReserveIP(o, n string, a floatingip.Attr) (bool, error) {
	d.g.Hit("ipam-mut", "ReserveIP "+o)
	return d.IPAM.ReserveIP(o, n, a)
}
func (d *ipamDeco) UpdateAttr(k string, ip net.IP, a floatingip.Attr) error {
	d.g.Hit("ipam-mut", "UpdateAttr "+k)
	return d.IPAM.UpdateAttr(k, ip, a)
}
func (d *ipamDeco) Release(k string, ip net.IP) error {
	d.g.Hit("ipam-mut", "Release "+k)
	return d.IPAM.Release(k, ip)
}
func (d *ipamDeco) ReleaseIPs(m map[string]string) (map[string]string, map[string]string, error) {
	d.g.Hit("ipam-mut", "ReleaseIPs")
	return d.IPAM.ReleaseIPs(m)
}
func (d *ipamDeco) First(k string) (*floatingip.FloatingIPInfo, error) {
	d.g.Hit("ipam-read", "First "+k)
	return d.IPAM.First(k)
}
func (d *ipamDeco) ByIP(ip net.IP) (floatingip.FloatingIP, error) {
	d.g.Hit("ipam-read", "ByIP "+ip.String())
	return d.IPAM.ByIP(ip)
}
func (d *ipamDeco) ByPrefix(p string) ([]*floatingip.FloatingIPInfo, error) {
	d.g.Hit("ipam-read", "ByPrefix "+p)
	return d.IPAM.ByPrefix(p)
}
func (d *ipamDeco) ByKeyAndIPRanges(k string, r [][]nets.IPRange) ([]*floatingip.FloatingIPInfo, error) {
	d.g.Hit("ipam-read", "ByKeyAndIPRanges "+k)
	return d.IPAM.ByKeyAndIPRanges(k, r)
}

// EntryPoints are the six operations the per-pod key mutex has to serialise.
var EntryPoints = []string{"filter", "bind", "unbind", "resync1", "release", "syncpodip"}

// UnlockedEntryPoints legitimately do not take the pod lock (Preempt runs getSubnet unlocked): the probe starts them as
// B and only records that they ran while A was parked (`lock-probe:preempt-ran-unlocked`); what that implies is the
// Lean lemma preempt_alloc_any_time (its one mutation is safe in any state) and, for C07, a possible extra allocation.
var UnlockedEntryPoints = []string{"preempt"}

// probeScene is one prepared world with everything needed to call each entry point for ONE pod identity.
type probeScene struct {
	w       *World
	podObj  *corev1.Pod // pod object for Filter
	oldPod  *corev1.Pod // the (first) bound incarnation: unbind event object
	runPod  *corev1.Pod // Running pod object with a binding annotation: syncPodIP
	entry   schedulerplugin.VerifResyncEntry
	hasE    bool
	ip      uint32
	key     *util.KeyObj
	bindUID string
}

const probeNS, probeName = "ns1", "d-x1"

func probeConf(provider bool) Conf {
	return Conf{Provider: provider,
		Pools: []Pool{{NodeSubnets: []Subnet{subnetPalette[0]}, Ranges: [][2]uint32{{0x0a0a0002, 0x0a0a0005}}, Gateway: 0x0a0a0001, Bits: 24}},
		Nodes: []Node{{"n1", 0x0a090105}, {"n2", 0x0a090106}}}
}

// newProbeScene builds template T1 (pod bound and running), T2 (pod gone, its record stays) or T3 (record reserved
// under the pool prefix, a new same-named pod not yet scheduled) for a deployment pod of a sized pool.
func newProbeScene(template string, rng *rand.Rand) (*probeScene, error) {
	w, err := NewWorld(probeConf(false), rng)
	if err != nil {
		return nil, err
	}
	sc := &probeScene{w: w}
	steps := []string{"app scale dp ns1 d 3", "pool set p1 3", "pod create ns1 d-x1 dp d p1 0 - 1", "sync all",
		"filter ns1 d-x1 n1,n2 ? ? 0", "bind ns1 d-x1 1 n1 ? ? 0 0", "pod run ns1 d-x1", "sync all"}
	for _, l := range steps {
		if _, r := w.Apply(l); !strings.HasPrefix(r, "ok") {
			return nil, fmt.Errorf("probe set-up %q: %s", l, r)
		}
	}
	sc.oldPod = w.TruthPod(probeNS, probeName).DeepCopy()
	sc.runPod = sc.oldPod.DeepCopy()
	sc.podObj = sc.oldPod.DeepCopy()
	sc.key, _ = util.FormatKey(sc.oldPod)
	sc.bindUID = "1"
	hs := HandedIPs(sc.oldPod)
	if len(hs) != 1 {
		return nil, fmt.Errorf("probe set-up: pod not bound")
	}
	sc.ip = hs[0][0]
	if es, err := w.Plugin.VerifPluginFetchChecklist(); err == nil {
		for _, e := range es {
			if e.VerifIP() == IPStr(sc.ip) {
				sc.entry, sc.hasE = e, true
			}
		}
	}
	if template == "T1" {
		return sc, nil
	}
	for _, l := range []string{"pod delete ns1 d-x1", "sync all"} {
		w.Apply(l)
	}
	if template == "T2" {
		w.Events = nil
		return sc, nil
	}
	for _, l := range []string{"deliver 0 0 0", "pod create ns1 d-x1 dp d p1 0 - 1", "sync all"} {
		if _, r := w.Apply(l); !strings.HasPrefix(r, "ok") {
			return nil, fmt.Errorf("probe set-up %q: %s", l, r)
		}
	}
	np := w.TruthPod(probeNS, probeName)
	sc.podObj = np.DeepCopy()
	sc.bindUID = uidNum(np.UID)
	// a Running copy of the new pod whose annotation names an unallocated address
	var free uint32
	for _, r := range w.IPAMDump() {
		if r.Free {
			free = r.IP
		}
	}
	rp := np.DeepCopy()
	rp.Status.Phase = corev1.PodRunning
	rp.Spec.NodeName = "n1"
	ipn := nets.IPNet(net.IPNet{IP: nets.IntToIP(free), Mask: net.CIDRMask(24, 32)})
	str, _ := constant.MarshalCniArgs([]constant.IPInfo{{IP: &ipn, Gateway: nets.IntToIP(0x0a0a0001)}})
	if rp.Annotations == nil {
		rp.Annotations = map[string]string{}
	}
	rp.Annotations[constant.ExtendedCNIArgsAnnotation] = str
	sc.runPod = rp
	return sc, nil
}

// call runs one entry point for the scene's pod identity (no World bookkeeping: safe to run concurrently).
func (sc *probeScene) call(ep string) {
	w := sc.w
	switch ep {
	case "filter":
		w.Plugin.Filter(sc.podObj, w.nodeObjs([]string{"n1", "n2"}))
	case "bind":
		w.Plugin.Bind(&schedulerapi.ExtenderBindingArgs{PodName: probeName, PodNamespace: probeNS,
			PodUID: uidStr(atoiDef(sc.bindUID)), Node: "n2"})
	case "unbind":
		w.Plugin.VerifPluginUnbind(sc.oldPod)
	case "resync1":
		if sc.hasE {
			w.Plugin.VerifPluginResyncOne(sc.entry)
		}
	case "release":
		w.Plugin.Release(&schedulerplugin.ReleaseRequest{KeyObj: sc.key, IP: nets.IntToIP(sc.ip)})
	case "syncpodip":
		w.Plugin.UpdatePod(sc.runPod, sc.runPod)
	case "preempt":
		victims := map[string]*schedulerapi.MetaVictims{"n1": {}, "n2": {}}
		w.Plugin.Preempt(&schedulerapi.ExtenderPreemptionArgs{Pod: sc.podObj, NodeNameToMetaVictims: victims})
	}
}

// ProbePair parks A inside its critical section and starts B for the same pod.  It returns a violation (or nil) and
// whether A could be parked at all in this template.
func ProbePair(template, a, b string, rng *rand.Rand) (*hx.Violation, bool, error) {
	sc, err := newProbeScene(template, rng)
	if err != nil {
		return nil, false, err
	}
	g := sc.w.Gate
	g.Arm("client", "ipam-mut")
	doneA, doneB := make(chan string, 1), make(chan string, 1)
	go func() { doneA <- hx.Guard(30*time.Second, func() { sc.call(a) }) }()
	if !g.WaitParked(800 * time.Millisecond) {
		g.Resume()
		<-doneA
		g.Idle()
		return nil, false, nil
	}
	go func() { doneB <- hx.Guard(30*time.Second, func() { sc.call(b) }) }()
	bDone := false
	select {
	case <-doneB:
		bDone = true
	case <-time.After(60 * time.Millisecond):
	}
	during := g.snapshot()
	g.Resume()
	var v *hx.Violation
	sched := []string{"schedule", "probe " + template + " " + a + " " + b}
	if len(during) > 0 && b == "preempt" {
		during = nil // documented exception
		sc.w.Mon["preempt-ran-unlocked"] = true
	}
	if len(during) > 0 {
		var names []string
		for _, x := range during {
			names = append(names, x.Class+":"+x.Name)
		}
		if bDone {
			v = &hx.Violation{Signature: "pod-lock-not-exclusive:" + a + ":" + b, Ops: sched,
				What: fmt.Sprintf("%s: while %s was parked inside its critical section, %s for the same pod ran to completion and accessed %v", template, a, b, names)}
		} else {
			v = &hx.Violation{Signature: "ipam-access-before-pod-lock:" + b, Ops: sched,
				What: fmt.Sprintf("%s: while %s was parked inside its critical section, %s for the same pod accessed %v before it had the pod lock", template, a, b, names)}
		}
	}
	for _, ch := range []chan string{doneA, doneB} {
		if ch == doneB && bDone {
			continue
		}
		select {
		case o := <-ch:
			if o != "ok" && v == nil {
				v = &hx.Violation{Signature: "pod-lock-probe-" + strings.Fields(o)[0] + ":" + a + ":" + b, What: o, Ops: sched}
			}
		case <-time.After(25 * time.Second):
			if v == nil {
				v = &hx.Violation{Signature: "pod-lock-probe-hang:" + a + ":" + b, What: "operations did not finish after the resume", Ops: sched}
			}
		}
	}
	g.Idle()
	return v, true, nil
}

// LockProbe runs the lock-exclusion probe over ordered pairs of entry points (quick: a handful per template chosen by
// the seed plus the pairs with unbind / resync / release as B; thorough: all pairs in all templates).
func LockProbe(e *hx.Env, prop string) *Batch {
	b := &Batch{Stats: map[string]int{}, HistoryFlags: map[string]int{}}
	type job struct{ t, a, b string }
	var jobs []job
	for _, t := range []string{"T1", "T2", "T3"} {
		for _, a := range EntryPoints {
			for _, bb := range EntryPoints {
				jobs = append(jobs, job{t, a, bb})
			}
			jobs = append(jobs, job{t, a, "preempt"})
		}
	}
	if !e.Thorough() {
		// parkable A's per template: T1 bind, unbind; T2 unbind, resync1, release; T3 filter, bind, syncpodip
		parkable := map[string]bool{"T1bind": true, "T1unbind": true, "T2unbind": true, "T2resync1": true, "T2release": true,
			"T3filter": true, "T3bind": true, "T3syncpodip": true}
		var sel []job
		for _, j := range jobs {
			if parkable[j.t+j.a] && (j.b == "unbind" || j.b == "release" || j.b == "resync1" || j.b == "preempt" || e.Rng.Intn(3) == 0) {
				sel = append(sel, j)
			}
		}
		jobs = sel
	}
	results := make([]*hx.Violation, len(jobs))
	parked := make([]bool, len(jobs))
	errs := make([]error, len(jobs))
	var wg sync.WaitGroup
	sem := make(chan struct{}, 16)
	seeds := make([]int64, len(jobs))
	for i := range seeds {
		seeds[i] = e.Rng.Int63()
	}
	for i, j := range jobs {
		wg.Add(1)
		sem <- struct{}{}
		go func(i int, j job) {
			defer wg.Done()
			defer func() { <-sem }()
			results[i], parked[i], errs[i] = ProbePair(j.t, j.a, j.b, rand.New(rand.NewSource(seeds[i])))
		}(i, j)
	}
	wg.Wait()
	seen := map[string]bool{}
	for i, j := range jobs {
		if errs[i] != nil {
			b.Errors = append(b.Errors, errs[i].Error())
			continue
		}
		if parked[i] {
			b.Stats["lock-probe:parked:"+j.a]++
			b.Stats["lock-probe:pairs"]++
			b.Nontrivial = append(b.Nontrivial, "probe "+j.t+" "+j.a+" "+j.b)
		} else {
			b.Stats["lock-probe:not-parkable"]++
		}
		if v := results[i]; v != nil && !seen[v.Signature] {
			seen[v.Signature] = true
			v.Replay = e.WriteReplay(prop, "schedule", "lockprobe-"+sanitize(v.Signature), []string{"signature=" + v.Signature, "what=" + v.What}, v.Ops)
			b.Violations = append(b.Violations, *v)
		}
	}
	return b
}

// ---- schedules: op lines plus `park <classes>` / `go <entry point …>` / `resume` / `wait` ----

// goOp starts one entry point in its own goroutine (raw call, no World bookkeeping).
func (w *World) goOp(f []string, done chan<- string) error {
	var fn func()
	switch {
	case f[0] == "filter" && len(f) >= 4:
		pod := w.TruthPod(f[1], f[2])
		if pod == nil {
			return fmt.Errorf("go filter: no pod")
		}
		nodes := w.nodeObjs(strings.Split(f[3], ","))
		fn = func() { w.Plugin.Filter(pod, nodes) }
	case f[0] == "bind" && len(f) >= 5:
		fn = func() {
			w.Plugin.Bind(&schedulerapi.ExtenderBindingArgs{PodName: f[2], PodNamespace: f[1], PodUID: uidStr(atoiDef(f[3])), Node: f[4]})
		}
	case f[0] == "deliver" && len(f) >= 2:
		i := atoiDef(f[1])
		if i < 0 || i >= len(w.Events) {
			return fmt.Errorf("go deliver: no event %d", i)
		}
		ev := w.Events[i]
		w.Events = append(w.Events[:i:i], w.Events[i+1:]...)
		fn = func() { w.Plugin.VerifPluginUnbind(ev.Pod) }
	case f[0] == "release" && len(f) >= 7:
		ip, _ := strconv.ParseUint(f[1], 10, 32)
		k := util.NewKeyObj(unTilde(f[2]), unTilde(f[3]), unTilde(f[4]), unTilde(f[5]), unTilde(f[6]))
		fn = func() { w.Plugin.Release(&schedulerplugin.ReleaseRequest{KeyObj: k, IP: nets.IntToIP(uint32(ip))}) }
	case f[0] == "resyncrec" && len(f) >= 2:
		ip, _ := strconv.ParseUint(f[1], 10, 32)
		e, ok := w.Snap[uint32(ip)]
		if !ok {
			return fmt.Errorf("go resyncrec: not in the snapshot")
		}
		delete(w.Snap, uint32(ip))
		fn = func() { w.Plugin.VerifPluginResyncOne(e) }
	default:
		return fmt.Errorf("go: unknown entry point %v", f)
	}
	go func() { done <- hx.Guard(30*time.Second, fn) }()
	return nil
}

// RunSchedule executes a schedule file (first line `schedule`); monitors run after every synchronous op and after `wait`.
func RunSchedule(lines []string, rng *rand.Rand, mon Monitor) ([]hx.Violation, error) {
	if len(lines) < 2 || lines[0] != "schedule" {
		return nil, fmt.Errorf("not a schedule")
	}
	if f := strings.Fields(lines[1]); len(f) == 4 && f[0] == "probe" {
		v, _, err := ProbePair(f[1], f[2], f[3], rng)
		if v != nil {
			return []hx.Violation{*v}, err
		}
		return nil, err
	}
	conf, err := ParseInitLine(lines[1])
	if err != nil {
		return nil, err
	}
	w, err := NewWorld(conf, rng)
	if err != nil {
		return nil, err
	}
	var out []hx.Violation
	var pending []chan string
	check := func(step int, what string) {
		w.LastOp = OpInfo{Kind: "schedule", Line: what, Result: "ok", PlogBefore: w.LastOp.PlogBefore}
		if mon != nil {
			out = append(out, mon(w, step)...)
		}
	}
	for i, l := range lines[2:] {
		f := strings.Fields(l)
		if len(f) == 0 {
			continue
		}
		switch f[0] {
		case "park":
			w.Gate.Arm(f[1:]...)
		case "go":
			ch := make(chan string, 1)
			if err := w.goOp(f[1:], ch); err != nil {
				return out, err
			}
			pending = append(pending, ch)
			w.Gate.mu.Lock()
			armed := w.Gate.phase == 1
			w.Gate.mu.Unlock()
			if armed {
				w.Gate.WaitParked(2 * time.Second)
			} else {
				time.Sleep(80 * time.Millisecond) // it either finishes or queues up on a lock
			}
		case "resume":
			w.Gate.Resume()
		case "wait":
			for _, ch := range pending {
				select {
				case o := <-ch:
					if o != "ok" {
						out = append(out, hx.Violation{Signature: "schedule-" + strings.Fields(o)[0], What: o})
					}
				case <-time.After(25 * time.Second):
					out = append(out, hx.Violation{Signature: "schedule-hang", What: "operations did not finish after the resume"})
				}
			}
			pending = nil
			w.Gate.Idle()
			w.drain()
			check(i, "wait")
		default:
			if _, r := w.Apply(l); strings.HasPrefix(r, "panic") || r == "hang" {
				out = append(out, hx.Violation{Signature: "op-" + strings.Fields(r)[0], What: l + ": " + r})
			}
			if len(pending) == 0 {
				if mon != nil {
					out = append(out, mon(w, i)...)
				}
			}
		}
		if len(out) > 0 {
			break
		}
	}
	w.Gate.Resume()
	return out, nil
}
