// Package lockset holds the daemon fixtures shared by the C19 load generator and the C18 watchdog harness:
// a galaxy-ipam instance (scheduler plugin + IPAM + HTTP API) and a galaxy instance (CNI request path, port
// mapping handler, policy manager) built in-process over fake clients / fake netfilter, plus the parser of Go
// race-detector reports.
package lockset

import (
	"bytes"
	"context"
	"encoding/json"
	"flag"
	"fmt"
	"net/http"
	"net/http/httptest"
	"os"
	"path/filepath"
	"strings"
	"sync"
	"time"

	"github.com/emicklei/go-restful"
	corev1 "k8s.io/api/core/v1"
	metav1 "k8s.io/apimachinery/pkg/apis/meta/v1"
	"k8s.io/apimachinery/pkg/runtime"
	"k8s.io/apimachinery/pkg/watch"
	"k8s.io/client-go/informers"
	"k8s.io/client-go/kubernetes/fake"
	k8stesting "k8s.io/client-go/testing"
	"k8s.io/klog"
	klogv2 "k8s.io/klog/v2"
	"tkestack.io/galaxy/pkg/galaxy"
	"tkestack.io/galaxy/pkg/ipam/api"
	ipamcontext "tkestack.io/galaxy/pkg/ipam/context"
	"tkestack.io/galaxy/pkg/ipam/schedulerplugin"
	"tkestack.io/galaxy/pkg/network/portmapping"
	"tkestack.io/galaxy/pkg/policy"
	"tkestack.io/galaxy/pkg/utils/ipset"
	ipsettesting "tkestack.io/galaxy/pkg/utils/ipset/testing"
	utiliptables "tkestack.io/galaxy/pkg/utils/iptables"
	iptablestesting "tkestack.io/galaxy/pkg/utils/iptables/testing"
)

func init() {
	// client-go's fake watcher panics ("channel full") when more than DefaultChanSize (100) events are queued before the
	// informer has consumed them — a limitation of the FAKE under a heavy concurrent load, not galaxy's behaviour.  Every
	// watcher of our fake clientsets is consumed by a running informer; a roomy buffer keeps a slow consumer from tripping it.
	watch.DefaultChanSize = 1 << 18
}

// FakeWatcherArtefact: is this panic (value + stack) the fake watcher's "channel full"?
func FakeWatcherArtefact(text string) bool {
	return strings.Contains(text, "channel full") &&
		(strings.Contains(text, "watch.(*RaceFreeFakeWatcher)") || strings.Contains(text, "client-go/testing.(*tracker)"))
}

// Quiet sends klog output of the real code to /dev/null (it would drown the race reports / the JSON report).
func Quiet() {
	fs := flag.NewFlagSet("klog", flag.ContinueOnError)
	klog.InitFlags(fs)
	_ = fs.Set("logtostderr", "false")
	_ = fs.Set("alsologtostderr", "false")
	_ = fs.Set("stderrthreshold", "FATAL")
	_ = fs.Set("log_file", os.DevNull)
	klog.SetOutput(devNull{})
	fs2 := flag.NewFlagSet("klogv2", flag.ContinueOnError)
	klogv2.InitFlags(fs2)
	_ = fs2.Set("logtostderr", "false")
	_ = fs2.Set("alsologtostderr", "false")
	_ = fs2.Set("stderrthreshold", "FATAL")
	klogv2.SetOutput(devNull{})
}

type devNull struct{}

func (devNull) Write(p []byte) (int, error) { return len(p), nil }

// DefaultPools is the floatingip configuration text (the value of the ConfigMap key): two routable pools and
// one multi-subnet pool, shaped like pkg/ipam/utils.TestConfig.
const DefaultPools = `[{"routableSubnet":"10.49.27.0/24","ips":["10.49.27.205","10.49.27.216~10.49.27.250"],"subnet":"10.49.27.0/24","gateway":"10.49.27.1","vlan":2},
{"routableSubnet":"10.173.13.0/24","ips":["10.173.13.2","10.173.13.10~10.173.13.80"],"subnet":"10.173.13.0/24","gateway":"10.173.13.1","vlan":2},
{"nodeSubnets":["10.0.1.2/24","10.0.2.2/24"],"ips":["10.0.70.2~10.0.70.60"],"subnet":"10.0.70.0/24","gateway":"10.0.70.1"}]`

// AltPools is a second configuration (reload target): the first pool shrunk, a new pool added.
const AltPools = `[{"routableSubnet":"10.49.27.0/24","ips":["10.49.27.216~10.49.27.240"],"subnet":"10.49.27.0/24","gateway":"10.49.27.1","vlan":2},
{"routableSubnet":"10.173.13.0/24","ips":["10.173.13.2","10.173.13.10~10.173.13.80"],"subnet":"10.173.13.0/24","gateway":"10.173.13.1","vlan":2},
{"nodeSubnets":["10.0.1.2/24","10.0.2.2/24"],"ips":["10.0.70.2~10.0.70.60"],"subnet":"10.0.70.0/24","gateway":"10.0.70.1"},
{"nodeSubnets":["10.49.28.0/26"],"ips":["10.0.81.2~10.0.81.9"],"subnet":"10.0.81.0/24","gateway":"10.0.81.1"}]`

// NodeIPs: node name -> internal IP (inside the node subnets of DefaultPools, plus one node without pool).
var NodeIPs = [][2]string{{"node1", "10.49.27.3"}, {"node2", "10.173.13.4"}, {"node3", "10.0.1.7"}, {"node4", "10.0.2.9"},
	{"node5", "10.48.28.2"}}

func Node(name, ip string) corev1.Node {
	return corev1.Node{
		ObjectMeta: metav1.ObjectMeta{Name: name},
		Status:     corev1.NodeStatus{Addresses: []corev1.NodeAddress{{Type: corev1.NodeInternalIP, Address: ip}}},
	}
}

// Ipamd is one galaxy-ipam instance.
type Ipamd struct {
	Ctx    *ipamcontext.IPAMContext
	Plugin *schedulerplugin.FloatingIPPlugin
	Client *fake.Clientset
	API    *restful.Container
	Nodes  []corev1.Node
	stop   chan struct{}
}

// NewIpamd builds the instance: fake clients, informers started, plugin initialised from the static pool
// configuration `pools` (JSON list), ConfigMap kube-system/floatingip-config holding the same text (so that
// the config poller entry point has something to read), API routes as in pkg/ipam/server.
func NewIpamd(pools string, objs ...runtime.Object) (*Ipamd, error) {
	return NewIpamdWith(pools, "", objs...)
}

// NewIpamdWith: as NewIpamd; a non-empty grpcAddr makes the plugin use the REAL gRPC cloud provider against that address.
func NewIpamdWith(pools, grpcAddr string, objs ...runtime.Object) (*Ipamd, error) {
	d := &Ipamd{}
	for _, n := range NodeIPs {
		d.Nodes = append(d.Nodes, Node(n[0], n[1]))
	}
	all := []runtime.Object{&corev1.ConfigMap{
		ObjectMeta: metav1.ObjectMeta{Name: "floatingip-config", Namespace: "kube-system"},
		Data:       map[string]string{"floatingips": pools},
	}}
	for i := range d.Nodes {
		all = append(all, &d.Nodes[i])
	}
	all = append(all, objs...)
	ctx, stop := ipamcontext.CreateTestIPAMContext(all, nil, nil)
	d.Ctx, d.stop = ctx, stop
	d.Client = ctx.Client.(*fake.Clientset)
	// the fake apiserver would push the Binding object into the pod watch (the informer rejects it and the fake
	// watcher's small buffer fills up): accept bindings without storing them
	d.Client.PrependReactor("create", "pods", func(a k8stesting.Action) (bool, runtime.Object, error) {
		if a.GetSubresource() == "binding" {
			return true, nil, nil
		}
		return false, nil, nil
	})
	var conf schedulerplugin.Conf
	if err := json.Unmarshal([]byte(`{"floatingips":`+pools+`}`), &conf); err != nil {
		return nil, fmt.Errorf("pool configuration: %v", err)
	}
	conf.CloudProviderGRPCAddr = grpcAddr
	p, err := schedulerplugin.NewFloatingIPPlugin(conf, ctx)
	if err != nil {
		return nil, err
	}
	if err := p.Init(); err != nil {
		return nil, err
	}
	d.Plugin = p
	// routes of startAPIServer
	ws := new(restful.WebService)
	ws.Path("/v1").Consumes(restful.MIME_JSON).Produces(restful.MIME_JSON)
	c := api.NewController(p.GetIpam(), ctx.PodLister, p.Release)
	ws.Route(ws.GET("/ip").To(c.ListIPs))
	ws.Route(ws.POST("/ip").To(c.ReleaseIPs))
	pc := api.PoolController{PoolLister: ctx.PoolLister, Client: ctx.GalaxyClient, LockPoolFunc: p.LockDpPool, IPAM: p.GetIpam()}
	ws.Route(ws.GET("/pool/{name}").To(pc.Get))
	ws.Route(ws.POST("/pool").To(pc.CreateOrUpdate))
	ws.Route(ws.DELETE("/pool/{name}").To(pc.Delete))
	d.API = restful.NewContainer()
	d.API.Add(ws)
	return d, nil
}

func (d *Ipamd) Close() {
	defer func() { _ = recover() }()
	close(d.stop)
}

// HTTP serves one request through the API container and returns status and body.
func (d *Ipamd) HTTP(method, target string, body []byte) (int, []byte) {
	req := httptest.NewRequest(method, target, bytes.NewReader(body))
	if body != nil {
		req.Header.Set("Content-Type", "application/json")
	}
	rec := httptest.NewRecorder()
	d.API.ServeHTTP(rec, req)
	return rec.Code, rec.Body.Bytes()
}

// AddPod creates the pod in the fake apiserver and waits until the pod lister sees it.
func (d *Ipamd) AddPod(pod *corev1.Pod) error {
	if _, err := d.Client.CoreV1().Pods(pod.Namespace).Create(context.TODO(), pod, metav1.CreateOptions{}); err != nil {
		return err
	}
	for i := 0; i < 200; i++ {
		if _, err := d.Ctx.PodLister.Pods(pod.Namespace).Get(pod.Name); err == nil {
			return nil
		}
		time.Sleep(5 * time.Millisecond)
	}
	return fmt.Errorf("pod %s/%s not seen by the lister", pod.Namespace, pod.Name)
}

// SetPools rewrites the ConfigMap value (the next config poll picks it up).
func (d *Ipamd) SetPools(text string) error {
	cm := &corev1.ConfigMap{
		ObjectMeta: metav1.ObjectMeta{Name: "floatingip-config", Namespace: "kube-system"},
		Data:       map[string]string{"floatingips": text},
	}
	_, err := d.Client.CoreV1().ConfigMaps("kube-system").Update(context.TODO(), cm, metav1.UpdateOptions{})
	return err
}

// ---------------------------------------------------------------- galaxy

// lockedIPTables serialises the (not thread-safe) fake the way the xtables lock serialises the real binary.
type lockedIPTables struct {
	mu sync.Mutex
	in utiliptables.Interface
}

func (l *lockedIPTables) GetVersion() (string, error) {
	l.mu.Lock()
	defer l.mu.Unlock()
	return l.in.GetVersion()
}
func (l *lockedIPTables) EnsureChain(t utiliptables.Table, c utiliptables.Chain) (bool, error) {
	l.mu.Lock()
	defer l.mu.Unlock()
	return l.in.EnsureChain(t, c)
}
func (l *lockedIPTables) FlushChain(t utiliptables.Table, c utiliptables.Chain) error {
	l.mu.Lock()
	defer l.mu.Unlock()
	return l.in.FlushChain(t, c)
}
func (l *lockedIPTables) DeleteChain(t utiliptables.Table, c utiliptables.Chain) error {
	l.mu.Lock()
	defer l.mu.Unlock()
	return l.in.DeleteChain(t, c)
}
func (l *lockedIPTables) EnsureRule(p utiliptables.RulePosition, t utiliptables.Table, c utiliptables.Chain, a ...string) (bool, error) {
	l.mu.Lock()
	defer l.mu.Unlock()
	return l.in.EnsureRule(p, t, c, a...)
}
func (l *lockedIPTables) DeleteRule(t utiliptables.Table, c utiliptables.Chain, a ...string) error {
	l.mu.Lock()
	defer l.mu.Unlock()
	return l.in.DeleteRule(t, c, a...)
}
func (l *lockedIPTables) ListRule(t utiliptables.Table, c utiliptables.Chain, a ...string) ([]string, error) {
	l.mu.Lock()
	defer l.mu.Unlock()
	return l.in.ListRule(t, c, a...)
}
func (l *lockedIPTables) IsIpv6() bool { return false }
func (l *lockedIPTables) SaveInto(t utiliptables.Table, b *bytes.Buffer) error {
	l.mu.Lock()
	defer l.mu.Unlock()
	return l.in.SaveInto(t, b)
}
func (l *lockedIPTables) EnsurePolicy(t utiliptables.Table, c utiliptables.Chain, p string) error {
	l.mu.Lock()
	defer l.mu.Unlock()
	return l.in.EnsurePolicy(t, c, p)
}
func (l *lockedIPTables) Restore(t utiliptables.Table, d []byte, f utiliptables.FlushFlag, c utiliptables.RestoreCountersFlag) error {
	l.mu.Lock()
	defer l.mu.Unlock()
	return l.in.Restore(t, d, f, c)
}
func (l *lockedIPTables) RestoreAll(d []byte, f utiliptables.FlushFlag, c utiliptables.RestoreCountersFlag) error {
	l.mu.Lock()
	defer l.mu.Unlock()
	return l.in.RestoreAll(d, f, c)
}

type lockedIPSet struct {
	mu sync.Mutex
	in ipset.Interface
}

func (l *lockedIPSet) FlushSet(s string) error {
	l.mu.Lock()
	defer l.mu.Unlock()
	return l.in.FlushSet(s)
}
func (l *lockedIPSet) DestroySet(s string) error {
	l.mu.Lock()
	defer l.mu.Unlock()
	return l.in.DestroySet(s)
}
func (l *lockedIPSet) DestroyAllSets() error {
	l.mu.Lock()
	defer l.mu.Unlock()
	return l.in.DestroyAllSets()
}
func (l *lockedIPSet) CreateSet(s *ipset.IPSet, i bool) error {
	l.mu.Lock()
	defer l.mu.Unlock()
	return l.in.CreateSet(s, i)
}

// the repo's fake panics (nil map) where the real ipset answers "set does not exist"
func (l *lockedIPSet) has(name string) bool {
	sets, _ := l.in.ListSets()
	for _, s := range sets {
		if s == name {
			return true
		}
	}
	return false
}
func (l *lockedIPSet) AddEntry(e string, s *ipset.IPSet, i bool) error {
	l.mu.Lock()
	defer l.mu.Unlock()
	if !l.has(s.Name) {
		return fmt.Errorf("ipset v6.29: The set with the given name does not exist")
	}
	return l.in.AddEntry(e, s, i)
}
func (l *lockedIPSet) DelEntry(e string, s string) error {
	l.mu.Lock()
	defer l.mu.Unlock()
	return l.in.DelEntry(e, s)
}
func (l *lockedIPSet) TestEntry(e string, s string) (bool, error) {
	l.mu.Lock()
	defer l.mu.Unlock()
	return l.in.TestEntry(e, s)
}
func (l *lockedIPSet) ListEntries(s string) ([]string, error) {
	l.mu.Lock()
	defer l.mu.Unlock()
	return l.in.ListEntries(s)
}
func (l *lockedIPSet) ListSets() ([]string, error) {
	l.mu.Lock()
	defer l.mu.Unlock()
	return l.in.ListSets()
}
func (l *lockedIPSet) GetVersion() (string, error) {
	l.mu.Lock()
	defer l.mu.Unlock()
	return l.in.GetVersion()
}
func (l *lockedIPSet) AddEntryWithOptions(e *ipset.Entry, s *ipset.IPSet, i bool) error {
	l.mu.Lock()
	defer l.mu.Unlock()
	if !l.has(s.Name) {
		return fmt.Errorf("ipset v6.29: The set with the given name does not exist")
	}
	return l.in.AddEntryWithOptions(e, s, i)
}
func (l *lockedIPSet) DelEntryWithOptions(s, e string, o ...string) error {
	l.mu.Lock()
	defer l.mu.Unlock()
	return l.in.DelEntryWithOptions(s, e, o...)
}
func (l *lockedIPSet) SaveAllSets() ([]byte, error) {
	l.mu.Lock()
	defer l.mu.Unlock()
	return l.in.SaveAllSets()
}

// LockedIPTables / LockedIPSet wrap a (not thread-safe) fake in a mutex.
func LockedIPTables(in utiliptables.Interface) utiliptables.Interface { return &lockedIPTables{in: in} }
func LockedIPSet(in ipset.Interface) ipset.Interface                  { return &lockedIPSet{in: in} }

// Galaxyd is one galaxy instance: CNI request path with a recording fake delegate plugin, port mapping handler and
// policy manager over fake netfilter, fake kube client.
type Galaxyd struct {
	G        *galaxy.Galaxy
	PM       *policy.PolicyManager
	PMH      *portmapping.PortMappingHandler
	Client   *fake.Clientset
	CNIPath  string // directory holding the fake plugin executables
	Hostname string
	stop     chan struct{}
}

// fake CNI plugin: answers ADD with a fixed 0.2.0 result, DEL/VERSION with success; fails when the network
// configuration carries "fail": true (to reach the rollback path).
const fakePlugin = `#!/bin/sh
conf=$(cat)
case "$CNI_COMMAND" in
VERSION) echo '{"cniVersion":"0.2.0","supportedVersions":["0.1.0","0.2.0","0.3.0","0.3.1"]}';;
ADD)
  case "$conf" in *'"fail":true'*) echo '{"code":100,"msg":"fake plugin told to fail"}'; exit 1;; esac
  echo '{"cniVersion":"0.2.0","ip4":{"ip":"10.22.0.7/24","gateway":"10.22.0.1"}}';;
*) ;;
esac
exit 0
`

// GalaxyConf: three networks handled by the fake plugin, one of which always fails.
func GalaxyConf() galaxy.JsonConf {
	return galaxy.JsonConf{
		NetworkConf: []map[string]interface{}{
			{"name": "net-a", "type": "gxfake", "subnet": "10.22.0.0/24"},
			{"name": "net-b", "type": "gxfake", "ipam": map[string]interface{}{"type": "host-local"}},
			{"name": "net-fail", "type": "gxfake", "fail": true},
		},
		DefaultNetworks: []string{"net-a"},
	}
}

func NewGalaxyd(conf galaxy.JsonConf, withPolicy bool, objs ...runtime.Object) (*Galaxyd, error) {
	d := &Galaxyd{stop: make(chan struct{})}
	dir, err := os.MkdirTemp("", "gxcni")
	if err != nil {
		return nil, err
	}
	d.CNIPath = dir
	if err := os.WriteFile(filepath.Join(dir, "gxfake"), []byte(fakePlugin), 0o755); err != nil {
		return nil, err
	}
	d.Client = fake.NewSimpleClientset(objs...)
	ipt := &lockedIPTables{in: iptablestesting.NewFakeIPTables()}
	d.PMH = portmapping.VerifNew(ipt)
	d.Hostname, _ = os.Hostname()
	if withPolicy {
		f := informers.NewSharedInformerFactory(d.Client, 0)
		pods, nss, pols := f.Core().V1().Pods(), f.Core().V1().Namespaces(), f.Networking().V1().NetworkPolicies()
		pods.Informer()
		nss.Informer()
		pols.Informer()
		f.Start(d.stop)
		f.WaitForCacheSync(d.stop)
		d.PM = policy.VerifNew(d.Client, &lockedIPSet{in: ipsettesting.NewFake("6.29")},
			&lockedIPTables{in: iptablestesting.NewFakeIPTables()}, d.Hostname, pods.Lister(), nss.Lister(), pols.Lister(), true)
	}
	g, err := galaxy.VerifLsNewGalaxy(conf, d.Client, d.PMH, d.PM)
	if err != nil {
		return nil, err
	}
	d.G = g
	return d, nil
}

func (d *Galaxyd) Close() {
	defer func() { _ = recover() }()
	close(d.stop)
	os.RemoveAll(d.CNIPath)
}

// CNIBody renders the JSON body the galaxy-sdn plugin posts for one CNI command.
func CNIBody(cmd, containerID, podName, podNs, cniPath string) []byte {
	env := map[string]string{
		"CNI_COMMAND":     cmd,
		"CNI_CONTAINERID": containerID,
		"CNI_NETNS":       "/proc/1/ns/net",
		"CNI_IFNAME":      "eth0",
		"CNI_PATH":        cniPath,
		"CNI_ARGS":        fmt.Sprintf("IgnoreUnknown=1;K8S_POD_NAMESPACE=%s;K8S_POD_NAME=%s;K8S_POD_INFRA_CONTAINER_ID=%s", podNs, podName, containerID),
	}
	b, _ := json.Marshal(map[string]interface{}{"env": env, "config": []byte(`{"type":"galaxy-sdn","name":"x"}`)})
	return b
}

var _ = http.StatusOK
