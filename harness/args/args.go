// Package args holds the harness-side helpers of property C13 (CNI argument codec, IPInfo wire format):
// the token encoding of the gxdrv_args line protocol, an iteration-order finder, the harness's own (independent)
// well-formedness classification and a decoder of the PUBLISHED wire format written from doc/supported-cnis.md.
package args

import (
	"encoding/json"
	"fmt"
	"net"
	"sort"
	"strconv"
	"strings"
	"unicode/utf8"
)

// H encodes a string as the driver token: "-" for empty, else code points in hex joined by '.'.
func H(s string) string {
	if s == "" {
		return "-"
	}
	var b strings.Builder
	first := true
	for _, r := range s {
		if !first {
			b.WriteByte('.')
		}
		first = false
		b.WriteString(strconv.FormatInt(int64(r), 16))
	}
	return b.String()
}

// UnH decodes a driver token.
func UnH(tok string) (string, error) {
	if tok == "-" {
		return "", nil
	}
	var b strings.Builder
	for _, h := range strings.Split(tok, ".") {
		n, err := strconv.ParseInt(h, 16, 32)
		if err != nil || !utf8.ValidRune(rune(n)) {
			return "", fmt.Errorf("bad token %q", tok)
		}
		b.WriteRune(rune(n))
	}
	return b.String(), nil
}

// KV is one map entry; Entries keep the order in which they are written on an op line.
type KV struct{ K, V string }

// SortedEntries returns the entries of a Go map sorted by key (code point order = byte order of UTF-8).
func SortedEntries(m map[string]string) []KV {
	ks := make([]string, 0, len(m))
	for k := range m {
		ks = append(ks, k)
	}
	sort.Strings(ks)
	out := make([]KV, 0, len(ks))
	for _, k := range ks {
		out = append(out, KV{k, m[k]})
	}
	return out
}

// PairsTokens renders entries as "Hk Hv Hk Hv …".
func PairsTokens(es []KV) string {
	var parts []string
	for _, e := range es {
		parts = append(parts, H(e.K), H(e.V))
	}
	return strings.Join(parts, " ")
}

// MapLine renders a map the way the driver prints one: "ok k:v k:v" sorted by key.
func MapLine(m map[string]string) string {
	parts := []string{"ok"}
	for _, e := range SortedEntries(m) {
		parts = append(parts, H(e.K)+":"+H(e.V))
	}
	return strings.Join(parts, " ")
}

// FindOrder looks for an order π of the entries such that joining "k<kv>v" in that order with <sep> gives exactly s.
// It is the harness's observation of the choice Go's map iteration made.  ok=false: s is no ordering of the entries.
func FindOrder(es []KV, s string, kvSep, entrySep string) ([]int, bool) {
	n := len(es)
	if n == 0 {
		return nil, s == ""
	}
	texts := make([]string, n)
	total := 0
	for i, e := range es {
		texts[i] = e.K + kvSep + e.V
		total += len(texts[i])
	}
	if total+(n-1)*len(entrySep) != len(s) {
		return nil, false
	}
	used := make([]bool, n)
	order := make([]int, 0, n)
	var rec func(pos int) bool
	rec = func(pos int) bool {
		if len(order) == n {
			return pos == len(s)
		}
		for i := 0; i < n; i++ {
			if used[i] || !strings.HasPrefix(s[pos:], texts[i]) {
				continue
			}
			np := pos + len(texts[i])
			if len(order) < n-1 {
				if !strings.HasPrefix(s[np:], entrySep) {
					continue
				}
				np += len(entrySep)
			}
			used[i] = true
			order = append(order, i)
			if rec(np) {
				return true
			}
			order = order[:len(order)-1]
			used[i] = false
		}
		return false
	}
	if rec(0) {
		return order, true
	}
	return nil, false
}

// PermToken renders an order as the driver token.
func PermToken(p []int) string {
	if len(p) == 0 {
		return "-"
	}
	s := make([]string, len(p))
	for i, x := range p {
		s[i] = strconv.Itoa(x)
	}
	return strings.Join(s, ",")
}

// WFKey / WFVal: the harness's own reading of the side condition of the property's round trip (written from the
// statement: no ';' / '=' in keys, no ';' in values, no surrounding blanks) — compared with the model's `wf=` flag.
func WFKey(k string) bool { return !strings.ContainsAny(k, ";=") && strings.TrimSpace(k) == k }
func WFVal(v string) bool { return !strings.Contains(v, ";") && strings.TrimSpace(v) == v }
func WFMap(m map[string]string) bool {
	for k, v := range m {
		if !WFKey(k) || !WFVal(v) {
			return false
		}
	}
	return true
}

// Rec is one IP record in harness terms (32-bit numbers, Appendix B).
type Rec struct {
	IP   uint32
	Plen int
	Vlan int
	GW   uint32
}

func ip4(n uint32) string { return fmt.Sprintf("%d.%d.%d.%d", n>>24, (n>>16)&255, (n>>8)&255, n&255) }

// Item renders a record as the driver token a.b.c.d/plen/vlan/a.b.c.d.
func (r Rec) Item() string { return fmt.Sprintf("%s/%d/%d/%s", ip4(r.IP), r.Plen, r.Vlan, ip4(r.GW)) }

func Items(rs []Rec) string {
	if len(rs) == 0 {
		return "-"
	}
	s := make([]string, len(rs))
	for i, r := range rs {
		s[i] = r.Item()
	}
	return strings.Join(s, ",")
}

func ItemsSpaced(rs []Rec) string {
	s := make([]string, len(rs))
	for i, r := range rs {
		s[i] = r.Item()
	}
	return strings.Join(s, " ")
}

// IPToU32 converts a net.IP holding an IPv4 address (4- or 16-byte form).
func IPToU32(ip net.IP) (uint32, bool) {
	v4 := ip.To4()
	if v4 == nil {
		return 0, false
	}
	return uint32(v4[0])<<24 | uint32(v4[1])<<16 | uint32(v4[2])<<8 | uint32(v4[3]), true
}

func U32ToIP(n uint32) net.IP { return net.IPv4(byte(n>>24), byte(n>>16), byte(n>>8), byte(n)).To4() }

// PublishedIPInfo is the wire format as PUBLISHED in doc/supported-cnis.md and doc/float-ip.md
// (`ipinfos=[{"ip":"192.168.0.68/26","vlan":2,"gateway":"192.168.0.65"}]`) — deliberately NOT galaxy's own struct:
// plugins are separate binaries (and third parties) that parse this text.
type PublishedIPInfo struct {
	IP      string `json:"ip"`
	Vlan    *int   `json:"vlan"`
	Gateway string `json:"gateway"`
}

// DecodePublished decodes an `ipinfos` text under the published schema; every member is mandatory.
func DecodePublished(text string) ([]Rec, error) {
	var raw []map[string]json.RawMessage
	if err := json.Unmarshal([]byte(text), &raw); err != nil {
		return nil, err
	}
	var ps []PublishedIPInfo
	if err := json.Unmarshal([]byte(text), &ps); err != nil {
		return nil, err
	}
	var out []Rec
	for i, p := range ps {
		if len(raw[i]) != 3 {
			return nil, fmt.Errorf("element %d has %d members, the published format has ip, vlan, gateway", i, len(raw[i]))
		}
		if p.Vlan == nil {
			return nil, fmt.Errorf("element %d: no vlan member", i)
		}
		ip, ipn, err := net.ParseCIDR(p.IP)
		if err != nil {
			return nil, fmt.Errorf("element %d: ip %q: %v", i, p.IP, err)
		}
		a, ok := IPToU32(ip)
		if !ok {
			return nil, fmt.Errorf("element %d: ip %q is not ipv4", i, p.IP)
		}
		ones, bits := ipn.Mask.Size()
		if bits != 32 {
			return nil, fmt.Errorf("element %d: mask of %q is not an ipv4 prefix", i, p.IP)
		}
		g, ok := IPToU32(net.ParseIP(p.Gateway))
		if !ok {
			return nil, fmt.Errorf("element %d: gateway %q is not ipv4", i, p.Gateway)
		}
		out = append(out, Rec{IP: a, Plen: ones, Vlan: *p.Vlan, GW: g})
	}
	return out, nil
}

// DiffField names the first field in which two record lists differ ("" = equal): count, address, prefix, vlan,
// gateway, order (same multiset, different order).
func DiffField(want, got []Rec) string {
	if len(want) != len(got) {
		return "count"
	}
	same := true
	for i := range want {
		if want[i] != got[i] {
			same = false
		}
	}
	if same {
		return ""
	}
	a := append([]Rec(nil), want...)
	b := append([]Rec(nil), got...)
	less := func(x []Rec) func(i, j int) bool {
		return func(i, j int) bool {
			if x[i].IP != x[j].IP {
				return x[i].IP < x[j].IP
			}
			if x[i].Plen != x[j].Plen {
				return x[i].Plen < x[j].Plen
			}
			if x[i].Vlan != x[j].Vlan {
				return x[i].Vlan < x[j].Vlan
			}
			return x[i].GW < x[j].GW
		}
	}
	sort.Slice(a, less(a))
	sort.Slice(b, less(b))
	eq := true
	for i := range a {
		if a[i] != b[i] {
			eq = false
		}
	}
	if eq {
		return "order"
	}
	for i := range want {
		switch {
		case want[i].IP != got[i].IP:
			return "address"
		case want[i].Plen != got[i].Plen:
			return "prefix"
		case want[i].Vlan != got[i].Vlan:
			return "vlan"
		case want[i].GW != got[i].GW:
			return "gateway"
		}
	}
	return "address"
}
