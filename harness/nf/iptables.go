package nf

import (
	"bytes"
	"fmt"
	"sort"
	"strings"
	"sync"

	utiliptables "tkestack.io/galaxy/pkg/utils/iptables"
)

// Error classes (ClassOf).
const (
	ErrNoChain  = "no-chain"  // chain does not exist ("No chain/target/match by that name.")
	ErrNoTarget = "no-target" // jump target chain does not exist
	ErrNoSet    = "no-set"    // --match-set set does not exist
	ErrBusy     = "busy"      // -X of a non-empty / referenced chain, destroy of a referenced set
	ErrBuiltin  = "builtin"   // -X of a builtin chain
	ErrSyntax   = "syntax"    // line the fake cannot parse
	ErrExists   = "exists"    // ipset: set / element exists
	ErrNotFound = "not-found" // ipset: set / element missing
	ErrMismatch = "type-mismatch"
	ErrInjected = "injected" // fault injected with FailNext
)

// Error is the error type of both fakes.
type Error struct {
	Class string
	Msg   string
}

func (e *Error) Error() string { return e.Msg }

// ClassOf maps an error returned by the fakes to its class ("" for nil, "other" for foreign errors).
func ClassOf(err error) string {
	if err == nil {
		return ""
	}
	if e, ok := err.(*Error); ok {
		return e.Class
	}
	return "other"
}

// Event is one call seen by a fake.
type Event struct {
	Op    string // restore, ensure-rule, delete-rule, ensure-chain, flush-chain, delete-chain, list-rule, save, policy; ipset: create, add, del, destroy, flush, …
	Table string
	Arg   string // chain / set and rule text, or the batch text
	Class string // "" = success
	Msg   string
}

var builtinChains = map[string]bool{"PREROUTING": true, "INPUT": true, "FORWARD": true, "OUTPUT": true, "POSTROUTING": true}

var tableBuiltins = map[string][]string{
	"nat":    {"PREROUTING", "INPUT", "OUTPUT", "POSTROUTING"},
	"filter": {"INPUT", "FORWARD", "OUTPUT"},
	"mangle": {"PREROUTING", "INPUT", "FORWARD", "OUTPUT", "POSTROUTING"},
}

type table struct {
	chains map[string][]Rule
	policy map[string]string
}

func (t *table) clone() *table {
	c := &table{chains: make(map[string][]Rule, len(t.chains)), policy: map[string]string{}}
	for k, v := range t.chains {
		c.chains[k] = append([]Rule(nil), v...) // rules themselves are never mutated
	}
	for k, v := range t.policy {
		c.policy[k] = v
	}
	return c
}

type injection struct {
	n   int
	msg string
}

// IPTables is the strict fake of utiliptables.Interface.
type IPTables struct {
	mu     *sync.Mutex
	tables map[string]*table
	sets   *IPSets
	log    []Event
	inject map[string]*injection
	calls  int            // calls seen by injected() since ResetCalls
	failAt map[int]string // call index -> message
}

var _ utiliptables.Interface = &IPTables{}

// NewIPTables returns a fake with the tables nat, filter, mangle and their (empty) builtin chains.
func NewIPTables() *IPTables {
	f := &IPTables{mu: &sync.Mutex{}, tables: map[string]*table{}, inject: map[string]*injection{}}
	for name, bs := range tableBuiltins {
		t := &table{chains: map[string][]Rule{}, policy: map[string]string{}}
		for _, b := range bs {
			t.chains[b] = nil
			t.policy[b] = "ACCEPT"
		}
		f.tables[name] = t
	}
	return f
}

// LinkSets ties the fake to an ipset fake: `--match-set N` needs set N to exist, DestroySet(N) fails
// while a rule matches on N.  Both fakes share one mutex afterwards.
func (f *IPTables) LinkSets(s *IPSets) {
	f.mu.Lock()
	f.sets = s
	f.mu.Unlock()
	s.link(f)
}

// FailNext makes the next n calls of op ("restore", "ensure-rule", "delete-rule", "ensure-chain",
// "flush-chain", "delete-chain", "list-rule", "save") fail with msg, without effect.
func (f *IPTables) FailNext(op string, n int, msg string) {
	f.mu.Lock()
	defer f.mu.Unlock()
	f.inject[op] = &injection{n, msg}
}

// FailCall makes the k-th call from now on (0-based, counting EnsureChain, FlushChain, DeleteChain, EnsureRule,
// DeleteRule, ListRule, SaveInto, Restore, RestoreAll in the order they arrive) fail with msg, without effect.
// It resets the call counter.
func (f *IPTables) FailCall(k int, msg string) {
	f.mu.Lock()
	defer f.mu.Unlock()
	f.calls = 0
	f.failAt = map[int]string{k: msg}
}

// ResetCalls clears the call counter and any FailCall plan; Calls returns the counter.
func (f *IPTables) ResetCalls() {
	f.mu.Lock()
	defer f.mu.Unlock()
	f.calls = 0
	f.failAt = nil
}

func (f *IPTables) Calls() int {
	f.mu.Lock()
	defer f.mu.Unlock()
	return f.calls
}

func (f *IPTables) injected(op string) error {
	k := f.calls
	f.calls++
	if msg, ok := f.failAt[k]; ok {
		delete(f.failAt, k)
		return &Error{ErrInjected, msg}
	}
	if in := f.inject[op]; in != nil && in.n > 0 {
		in.n--
		return &Error{ErrInjected, in.msg}
	}
	return nil
}

func (f *IPTables) record(op, tbl, arg string, err error) {
	e := Event{Op: op, Table: tbl, Arg: arg}
	if err != nil {
		e.Class, e.Msg = ClassOf(err), err.Error()
	}
	f.log = append(f.log, e)
}

// Log returns every call seen so far; Failures only the failed ones.
func (f *IPTables) Log() []Event {
	f.mu.Lock()
	defer f.mu.Unlock()
	return append([]Event(nil), f.log...)
}

func (f *IPTables) Failures() []Event {
	var out []Event
	for _, e := range f.Log() {
		if e.Class != "" {
			out = append(out, e)
		}
	}
	return out
}

// ClearLog forgets the log.
func (f *IPTables) ClearLog() {
	f.mu.Lock()
	f.log = nil
	f.mu.Unlock()
}

// Dump returns a deep copy of a table: chain -> ordered normalised rules (nil if the table is unknown).
func (f *IPTables) Dump(tbl string) map[string][]Rule {
	f.mu.Lock()
	defer f.mu.Unlock()
	t := f.tables[tbl]
	if t == nil {
		return nil
	}
	out := make(map[string][]Rule, len(t.chains))
	for c, rs := range t.chains {
		cp := make([]Rule, len(rs))
		for i, r := range rs {
			cp[i] = append(Rule(nil), r...)
		}
		out[c] = cp
	}
	return out
}

// DumpText is the canonical one-line form of Dump (EncTable).
func (f *IPTables) DumpText(tbl string) string { return EncTable(f.Dump(tbl)) }

// Load replaces the content of a table (unchecked: this is how a prior kernel state is installed).
// Builtin chains of the table that are missing from chains are kept, empty.
func (f *IPTables) Load(tbl string, chains map[string][]Rule) {
	f.mu.Lock()
	defer f.mu.Unlock()
	t := &table{chains: map[string][]Rule{}, policy: map[string]string{}}
	for _, b := range tableBuiltins[tbl] {
		t.chains[b] = nil
		t.policy[b] = "ACCEPT"
	}
	for c, rs := range chains {
		cp := make([]Rule, len(rs))
		for i, r := range rs {
			cp[i] = append(Rule(nil), r...)
		}
		t.chains[c] = cp
	}
	f.tables[tbl] = t
}

// Policy returns the policy of a builtin chain.
func (f *IPTables) Policy(tbl, chain string) string {
	f.mu.Lock()
	defer f.mu.Unlock()
	if t := f.tables[tbl]; t != nil {
		return t.policy[chain]
	}
	return ""
}

// ---- semantics (mirror of Galaxy.Netfilter.applyCmd) ------------------------------------------

func errNoChain(c string) error {
	return &Error{ErrNoChain, fmt.Sprintf("iptables: No chain/target/match by that name. (chain %s)", c)}
}

func (f *IPTables) setExists(name string) bool {
	if f.sets == nil {
		return true
	}
	return f.sets.hasLocked(name)
}

func (f *IPTables) checkRefs(t *table, r Rule) error {
	if tgt, ok := ChainRef(r); ok {
		if _, ok := t.chains[tgt]; !ok {
			return &Error{ErrNoTarget, fmt.Sprintf("iptables v1.8.9 (nf_tables): Chain '%s' does not exist", tgt)}
		}
	}
	for _, s := range MatchSets(r) {
		if !f.setExists(s) {
			return &Error{ErrNoSet, fmt.Sprintf("iptables v1.8.9 (nf_tables): Set %s doesn't exist.", s)}
		}
	}
	return nil
}

func referenced(t *table, c string) bool {
	for _, rs := range t.chains {
		for _, r := range rs {
			if tgt, ok := ChainRef(r); ok && tgt == c {
				return true
			}
		}
	}
	return false
}

func (f *IPTables) delChain(t *table, c string) error {
	rs, ok := t.chains[c]
	if !ok {
		return errNoChain(c)
	}
	if builtinChains[c] {
		return &Error{ErrBuiltin, fmt.Sprintf("iptables: No chain/target/match by that name. (builtin chain %s)", c)}
	}
	if len(rs) != 0 || referenced(t, c) {
		return &Error{ErrBusy, fmt.Sprintf("iptables v1.8.9 (nf_tables):  CHAIN_DEL failed (Device or resource busy): chain %s", c)}
	}
	delete(t.chains, c)
	return nil
}

func ruleEq(a, b Rule) bool {
	if len(a) != len(b) {
		return false
	}
	for i := range a {
		if a[i] != b[i] {
			return false
		}
	}
	return true
}

func findRule(rs []Rule, r Rule) int {
	for i, x := range rs {
		if ruleEq(x, r) {
			return i
		}
	}
	return -1
}

// setRefLocked reports whether some rule of some table matches on set name (caller holds the mutex).
func (f *IPTables) setRefLocked(name string) bool {
	for _, t := range f.tables {
		for _, rs := range t.chains {
			for _, r := range rs {
				for _, s := range MatchSets(r) {
					if s == name {
						return true
					}
				}
			}
		}
	}
	return false
}

// ---- utiliptables.Interface ----------------------------------------------------------------

func (f *IPTables) GetVersion() (string, error) { return "1.8.9", nil }

func (f *IPTables) IsIpv6() bool { return false }

func (f *IPTables) getTable(tbl utiliptables.Table) (*table, error) {
	t := f.tables[string(tbl)]
	if t == nil {
		return nil, &Error{ErrSyntax, fmt.Sprintf("iptables v1.8.9 (nf_tables): can't initialize iptables table `%s': Table does not exist", tbl)}
	}
	return t, nil
}

func (f *IPTables) EnsureChain(tbl utiliptables.Table, chain utiliptables.Chain) (existed bool, err error) {
	f.mu.Lock()
	defer f.mu.Unlock()
	defer func() { f.record("ensure-chain", string(tbl), string(chain), err) }()
	if err = f.injected("ensure-chain"); err != nil {
		return false, err
	}
	t, err := f.getTable(tbl)
	if err != nil {
		return false, err
	}
	if _, ok := t.chains[string(chain)]; ok {
		return true, nil
	}
	t.chains[string(chain)] = nil
	return false, nil
}

func (f *IPTables) FlushChain(tbl utiliptables.Table, chain utiliptables.Chain) (err error) {
	f.mu.Lock()
	defer f.mu.Unlock()
	defer func() { f.record("flush-chain", string(tbl), string(chain), err) }()
	if err = f.injected("flush-chain"); err != nil {
		return err
	}
	t, err := f.getTable(tbl)
	if err != nil {
		return err
	}
	if _, ok := t.chains[string(chain)]; !ok {
		return errNoChain(string(chain))
	}
	t.chains[string(chain)] = nil
	return nil
}

func (f *IPTables) DeleteChain(tbl utiliptables.Table, chain utiliptables.Chain) (err error) {
	f.mu.Lock()
	defer f.mu.Unlock()
	defer func() { f.record("delete-chain", string(tbl), string(chain), err) }()
	if err = f.injected("delete-chain"); err != nil {
		return err
	}
	t, err := f.getTable(tbl)
	if err != nil {
		return err
	}
	return f.delChain(t, string(chain))
}

func (f *IPTables) EnsureRule(pos utiliptables.RulePosition, tbl utiliptables.Table, chain utiliptables.Chain, args ...string) (existed bool, err error) {
	f.mu.Lock()
	defer f.mu.Unlock()
	r := Normalize(args)
	defer func() { f.record("ensure-rule", string(tbl), string(pos)+" "+string(chain)+" "+RenderRule(r), err) }()
	if err = f.injected("ensure-rule"); err != nil {
		return false, err
	}
	t, err := f.getTable(tbl)
	if err != nil {
		return false, err
	}
	if err = f.checkRefs(t, r); err != nil {
		return false, err
	}
	rs, ok := t.chains[string(chain)]
	if !ok {
		return false, errNoChain(string(chain))
	}
	if findRule(rs, r) >= 0 {
		return true, nil
	}
	switch pos {
	case utiliptables.Prepend:
		t.chains[string(chain)] = append([]Rule{r}, rs...)
	case utiliptables.Append:
		t.chains[string(chain)] = append(append([]Rule(nil), rs...), r)
	default:
		return false, &Error{ErrSyntax, fmt.Sprintf("unknown position %q", pos)}
	}
	return false, nil
}

func (f *IPTables) DeleteRule(tbl utiliptables.Table, chain utiliptables.Chain, args ...string) (err error) {
	f.mu.Lock()
	defer f.mu.Unlock()
	r := Normalize(args)
	defer func() { f.record("delete-rule", string(tbl), string(chain)+" "+RenderRule(r), err) }()
	if err = f.injected("delete-rule"); err != nil {
		return err
	}
	t, err := f.getTable(tbl)
	if err != nil {
		return err
	}
	if err = f.checkRefs(t, r); err != nil {
		return err
	}
	rs, ok := t.chains[string(chain)]
	if !ok {
		return nil
	}
	if i := findRule(rs, r); i >= 0 {
		n := append([]Rule(nil), rs[:i]...)
		t.chains[string(chain)] = append(n, rs[i+1:]...)
	}
	return nil
}

// ListRule mimics `iptables -S chain`: "-N c" (or "-P c POLICY"), the rules, and a trailing "".
func (f *IPTables) ListRule(tbl utiliptables.Table, chain utiliptables.Chain, args ...string) (out []string, err error) {
	f.mu.Lock()
	defer f.mu.Unlock()
	defer func() { f.record("list-rule", string(tbl), string(chain), err) }()
	if err = f.injected("list-rule"); err != nil {
		return nil, err
	}
	t, err := f.getTable(tbl)
	if err != nil {
		return nil, err
	}
	rs, ok := t.chains[string(chain)]
	if !ok {
		return nil, errNoChain(string(chain))
	}
	if builtinChains[string(chain)] {
		out = append(out, fmt.Sprintf("-P %s %s", chain, t.policy[string(chain)]))
	} else {
		out = append(out, fmt.Sprintf("-N %s", chain))
	}
	for _, r := range rs {
		out = append(out, fmt.Sprintf("-A %s %s", chain, RenderRule(r)))
	}
	return append(out, ""), nil
}

func (f *IPTables) EnsurePolicy(tbl utiliptables.Table, chain utiliptables.Chain, policy string) (err error) {
	f.mu.Lock()
	defer f.mu.Unlock()
	defer func() { f.record("policy", string(tbl), string(chain)+" "+policy, err) }()
	t, err := f.getTable(tbl)
	if err != nil {
		return err
	}
	if _, ok := t.chains[string(chain)]; !ok || !builtinChains[string(chain)] {
		return errNoChain(string(chain))
	}
	t.policy[string(chain)] = policy
	return nil
}

func chainOrder(tbl string, t *table) []string {
	var names []string
	seen := map[string]bool{}
	for _, b := range tableBuiltins[tbl] {
		if _, ok := t.chains[b]; ok {
			names = append(names, b)
			seen[b] = true
		}
	}
	var user []string
	for c := range t.chains {
		if !seen[c] {
			user = append(user, c)
		}
	}
	sort.Strings(user)
	return append(names, user...)
}

// SaveInto writes the table in iptables-save format.
func (f *IPTables) SaveInto(tbl utiliptables.Table, buffer *bytes.Buffer) (err error) {
	f.mu.Lock()
	defer f.mu.Unlock()
	defer func() { f.record("save", string(tbl), "", err) }()
	if err = f.injected("save"); err != nil {
		return err
	}
	t, err := f.getTable(tbl)
	if err != nil {
		return err
	}
	buffer.WriteString("# Generated by iptables-save v1.8.9 (nf_tables)\n")
	fmt.Fprintf(buffer, "*%s\n", tbl)
	names := chainOrder(string(tbl), t)
	for _, c := range names {
		pol := "-"
		if p, ok := t.policy[c]; ok && builtinChains[c] {
			pol = p
		}
		fmt.Fprintf(buffer, ":%s %s [0:0]\n", c, pol)
	}
	for _, c := range names {
		for _, r := range t.chains[c] {
			fmt.Fprintf(buffer, "-A %s %s\n", c, RenderRule(r))
		}
	}
	buffer.WriteString("COMMIT\n# Completed\n")
	return nil
}

// Cmd is one parsed restore command.
type Cmd struct {
	Op    string // decl, app, ins, del
	Chain string
	Rule  Rule
	Pol   string // decl: policy word
}

// ParseLine parses one line of a table section; (nil, nil) for blank / comment lines.
func ParseLine(line string) (*Cmd, error) {
	ws, err := Tokenize(line)
	if err != nil {
		return nil, &Error{ErrSyntax, "iptables-restore: " + err.Error()}
	}
	if len(ws) == 0 || strings.HasPrefix(ws[0], "#") {
		return nil, nil
	}
	bad := &Error{ErrSyntax, fmt.Sprintf("iptables-restore: cannot parse line %q", line)}
	switch {
	case strings.HasPrefix(ws[0], ":"):
		if len(ws[0]) < 2 || len(ws) < 2 {
			return nil, bad
		}
		return &Cmd{Op: "decl", Chain: ws[0][1:], Pol: ws[1]}, nil
	case ws[0] == "-A" && len(ws) >= 2:
		return &Cmd{Op: "app", Chain: ws[1], Rule: Normalize(ws[2:])}, nil
	case ws[0] == "-I" && len(ws) >= 2:
		return &Cmd{Op: "ins", Chain: ws[1], Rule: Normalize(ws[2:])}, nil
	case ws[0] == "-X" && len(ws) == 2:
		return &Cmd{Op: "del", Chain: ws[1]}, nil
	}
	return nil, bad
}

func (f *IPTables) apply(t *table, c *Cmd) error {
	switch c.Op {
	case "decl":
		if builtinChains[c.Chain] {
			if _, ok := t.chains[c.Chain]; !ok {
				return errNoChain(c.Chain)
			}
			if c.Pol != "-" {
				t.policy[c.Chain] = c.Pol
			}
			return nil
		}
		t.chains[c.Chain] = nil
		return nil
	case "app", "ins":
		if err := f.checkRefs(t, c.Rule); err != nil {
			return err
		}
		rs, ok := t.chains[c.Chain]
		if !ok {
			return errNoChain(c.Chain)
		}
		if c.Op == "app" {
			t.chains[c.Chain] = append(append([]Rule(nil), rs...), c.Rule)
		} else {
			t.chains[c.Chain] = append([]Rule{c.Rule}, rs...)
		}
		return nil
	case "del":
		return f.delChain(t, c.Chain)
	}
	return &Error{ErrSyntax, "unknown command"}
}

// restore applies the sections of data; each `*table … COMMIT` section is all-or-nothing, sections
// before a failing one stay applied (as iptables-restore commits per table).  The whole input is
// parsed first: a line that cannot be parsed fails the call before anything is applied.
func (f *IPTables) restore(only string, data []byte, flush utiliptables.FlushFlag) error {
	type section struct {
		name string
		cmds []*Cmd
	}
	var secs []section
	var cur *section
	for _, line := range strings.Split(string(data), "\n") {
		ws, err := Tokenize(line)
		if err != nil {
			return &Error{ErrSyntax, "iptables-restore: " + err.Error()}
		}
		if len(ws) == 0 || strings.HasPrefix(ws[0], "#") {
			continue
		}
		if cur == nil {
			if !strings.HasPrefix(ws[0], "*") || len(ws) != 1 {
				return &Error{ErrSyntax, fmt.Sprintf("iptables-restore: line %q outside a table section", line)}
			}
			secs = append(secs, section{name: ws[0][1:]})
			cur = &secs[len(secs)-1]
			continue
		}
		if len(ws) == 1 && ws[0] == "COMMIT" {
			cur = nil
			continue
		}
		c, err := ParseLine(line)
		if err != nil {
			return err
		}
		if c != nil {
			cur.cmds = append(cur.cmds, c)
		}
	}
	if cur != nil || len(secs) == 0 {
		return &Error{ErrSyntax, "iptables-restore: missing table line or COMMIT"}
	}
	for _, sec := range secs {
		if only != "" && only != sec.name {
			continue
		}
		t := f.tables[sec.name]
		if t == nil {
			return &Error{ErrSyntax, fmt.Sprintf("iptables-restore v1.8.9 (nf_tables): unknown table %q", sec.name)}
		}
		w := t.clone()
		if flush == utiliptables.FlushTables {
			for c := range w.chains {
				if builtinChains[c] {
					w.chains[c] = nil
				} else {
					delete(w.chains, c)
				}
			}
		}
		for _, c := range sec.cmds {
			if err := f.apply(w, c); err != nil {
				return err
			}
		}
		f.tables[sec.name] = w
	}
	return nil
}

func (f *IPTables) Restore(tbl utiliptables.Table, data []byte, flush utiliptables.FlushFlag, counters utiliptables.RestoreCountersFlag) (err error) {
	f.mu.Lock()
	defer f.mu.Unlock()
	defer func() { f.record("restore", string(tbl), string(data), err) }()
	if err = f.injected("restore"); err != nil {
		return err
	}
	return f.restore(string(tbl), data, flush)
}

func (f *IPTables) RestoreAll(data []byte, flush utiliptables.FlushFlag, counters utiliptables.RestoreCountersFlag) (err error) {
	f.mu.Lock()
	defer f.mu.Unlock()
	defer func() { f.record("restore", "", string(data), err) }()
	if err = f.injected("restore"); err != nil {
		return err
	}
	return f.restore("", data, flush)
}

// LastRestore returns the text of the most recent restore call (successful or not).
func (f *IPTables) LastRestore() string {
	f.mu.Lock()
	defer f.mu.Unlock()
	for i := len(f.log) - 1; i >= 0; i-- {
		if f.log[i].Op == "restore" {
			return f.log[i].Arg
		}
	}
	return ""
}
