package nf

import (
	"os"
	"os/exec"
	"strings"
)

const netnsEnv = "GXNF_NETNS"

// ReexecInNetns re-executes the current process inside a fresh network namespace (`unshare -n`)
// so that real sockets and the real iptables tools can be used without touching the host.
// In the child it returns "private".  If `unshare -n` is not permitted it returns "host" and the
// caller carries on in the host namespace (kernel-table checks must then be skipped).
// When the child was started, the parent exits with the child's status and never returns.
func ReexecInNetns() string {
	if os.Getenv(netnsEnv) != "" {
		return os.Getenv(netnsEnv)
	}
	if _, err := exec.LookPath("unshare"); err != nil {
		return "host"
	}
	if err := exec.Command("unshare", "-n", "true").Run(); err != nil {
		return "host"
	}
	self, err := os.Executable()
	if err != nil {
		return "host"
	}
	// loopback up (fake docker / apiserver endpoints of other helpers listen on 127.0.0.1), then the harness itself
	cmd := exec.Command("unshare", append([]string{"-n", "--", "sh", "-c",
		`ip link set lo up 2>/dev/null; exec "$0" "$@"`, self}, os.Args[1:]...)...)
	cmd.Env = append(os.Environ(), netnsEnv+"=private")
	if !strings.Contains(os.Getenv("PATH"), "/usr/sbin") {
		cmd.Env = append(cmd.Env, "PATH="+os.Getenv("PATH")+":/usr/sbin:/sbin")
	}
	cmd.Stdin, cmd.Stdout, cmd.Stderr = os.Stdin, os.Stdout, os.Stderr
	if err := cmd.Run(); err != nil {
		if ee, ok := err.(*exec.ExitError); ok {
			os.Exit(ee.ExitCode())
		}
		os.Exit(1)
	}
	os.Exit(0)
	return ""
}

// HaveRealIptables reports whether iptables-restore / iptables-save can be run here.
func HaveRealIptables() bool {
	for _, b := range []string{"iptables", "iptables-restore", "iptables-save"} {
		if _, err := exec.LookPath(b); err != nil {
			return false
		}
	}
	return exec.Command("iptables-save", "-t", "nat").Run() == nil
}
