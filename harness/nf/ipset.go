package nf

import (
	"bytes"
	"fmt"
	"sort"
	"strings"
	"sync"

	"tkestack.io/galaxy/pkg/utils/ipset"
)

type setRec struct {
	typ     string
	entries []string // "key opt…" in insertion order; identity = key (first field)
}

// SetDump is the canonical content of one set.
type SetDump struct {
	Type    string
	Entries []string // sorted
}

// IPSets is the strict fake of ipset.Interface.
type IPSets struct {
	mu   *sync.Mutex
	sets map[string]*setRec
	ipt  *IPTables
	log  []Event
}

var _ ipset.Interface = &IPSets{}

func NewIPSets() *IPSets { return &IPSets{mu: &sync.Mutex{}, sets: map[string]*setRec{}} }

// link shares the iptables fake's mutex (see IPTables.LinkSets).
func (s *IPSets) link(f *IPTables) {
	s.mu.Lock()
	old := s.mu
	s.ipt = f
	s.mu = f.mu
	old.Unlock()
}

func (s *IPSets) hasLocked(name string) bool { _, ok := s.sets[name]; return ok }

func (s *IPSets) record(op, arg string, err error) {
	e := Event{Op: op, Arg: arg}
	if err != nil {
		e.Class, e.Msg = ClassOf(err), err.Error()
	}
	s.log = append(s.log, e)
}

func (s *IPSets) Log() []Event {
	s.mu.Lock()
	defer s.mu.Unlock()
	return append([]Event(nil), s.log...)
}

func (s *IPSets) Failures() []Event {
	var out []Event
	for _, e := range s.Log() {
		if e.Class != "" {
			out = append(out, e)
		}
	}
	return out
}

func (s *IPSets) ClearLog() {
	s.mu.Lock()
	s.log = nil
	s.mu.Unlock()
}

// Dump returns name -> (type, sorted entries).
func (s *IPSets) Dump() map[string]SetDump {
	s.mu.Lock()
	defer s.mu.Unlock()
	out := map[string]SetDump{}
	for n, r := range s.sets {
		es := append([]string(nil), r.entries...)
		sort.Strings(es)
		out[n] = SetDump{r.typ, es}
	}
	return out
}

// DumpText: sets sorted, `name=type entries…` (percent-encoded words) joined by " | ".
func (s *IPSets) DumpText() string {
	d := s.Dump()
	names := make([]string, 0, len(d))
	for n := range d {
		names = append(names, n)
	}
	sort.Strings(names)
	parts := make([]string, len(names))
	for i, n := range names {
		parts[i] = EncTok(n) + "=" + EncWords(append([]string{d[n].Type}, d[n].Entries...))
	}
	return strings.Join(parts, " | ")
}

// Load installs a prior state unchecked.
func (s *IPSets) Load(sets map[string]SetDump) {
	s.mu.Lock()
	defer s.mu.Unlock()
	s.sets = map[string]*setRec{}
	for n, d := range sets {
		s.sets[n] = &setRec{d.Type, append([]string(nil), d.Entries...)}
	}
}

func entryKey(e string) string {
	if i := strings.IndexByte(e, ' '); i >= 0 {
		return e[:i]
	}
	return e
}

func (r *setRec) find(key string) int {
	for i, e := range r.entries {
		if entryKey(e) == key {
			return i
		}
	}
	return -1
}

func errNoSet(name string) error {
	return &Error{ErrNotFound, fmt.Sprintf("ipset v7.x: The set with the given name does not exist (%s)", name)}
}

func (s *IPSets) GetVersion() (string, error) { return "v7.17", nil }

// CreateSet applies the same defaults and validation as the exec runner, then `ipset create [-exist]`.
func (s *IPSets) CreateSet(set *ipset.IPSet, ignoreExistErr bool) (err error) {
	s.mu.Lock()
	defer s.mu.Unlock()
	defer func() { s.record("create", set.Name+" "+string(set.SetType), err) }()
	if set.HashSize == 0 {
		set.HashSize = 1024
	}
	if set.MaxElem == 0 {
		set.MaxElem = 65536
	}
	if set.HashFamily == "" {
		set.HashFamily = ipset.ProtocolFamilyIPV4
	}
	if len(set.SetType) == 0 {
		set.SetType = ipset.HashIPPort
	}
	if len(set.PortRange) == 0 {
		set.PortRange = ipset.DefaultPortRange
	}
	if !set.Validate() {
		return &Error{ErrSyntax, "error creating ipset since it's invalid"}
	}
	if r, ok := s.sets[set.Name]; ok {
		if !ignoreExistErr {
			return &Error{ErrExists, "ipset v7.x: Set cannot be created: set with the same name already exists"}
		}
		if r.typ != string(set.SetType) {
			return &Error{ErrMismatch, "ipset v7.x: Set cannot be created: set with the same name already exists with different type"}
		}
		return nil
	}
	s.sets[set.Name] = &setRec{typ: string(set.SetType)}
	return nil
}

func (s *IPSets) addLocked(name, entry string, ignoreExistErr bool) error {
	r, ok := s.sets[name]
	if !ok {
		return errNoSet(name)
	}
	if i := r.find(entryKey(entry)); i >= 0 {
		if !ignoreExistErr {
			return &Error{ErrExists, "ipset v7.x: Element cannot be added to the set: it's already added"}
		}
		r.entries[i] = entry // -exist: the element's extensions are replaced
		return nil
	}
	r.entries = append(r.entries, entry)
	return nil
}

func (s *IPSets) AddEntry(entry string, set *ipset.IPSet, ignoreExistErr bool) (err error) {
	s.mu.Lock()
	defer s.mu.Unlock()
	defer func() { s.record("add", set.Name+" "+entry, err) }()
	return s.addLocked(set.Name, entry, ignoreExistErr)
}

func (s *IPSets) AddEntryWithOptions(entry *ipset.Entry, set *ipset.IPSet, ignoreExistErr bool) (err error) {
	s.mu.Lock()
	defer s.mu.Unlock()
	e := strings.Join(append([]string{entry.String()}, entry.Options...), " ")
	defer func() { s.record("add", set.Name+" "+e, err) }()
	return s.addLocked(set.Name, e, ignoreExistErr)
}

func (s *IPSets) delLocked(name, entry string) error {
	r, ok := s.sets[name]
	if !ok {
		return errNoSet(name)
	}
	i := r.find(entryKey(entry))
	if i < 0 {
		return &Error{ErrNotFound, "ipset v7.x: Element cannot be deleted from the set: it's not added (element is missing)"}
	}
	r.entries = append(append([]string(nil), r.entries[:i]...), r.entries[i+1:]...)
	return nil
}

func (s *IPSets) DelEntry(entry string, set string) (err error) {
	s.mu.Lock()
	defer s.mu.Unlock()
	defer func() { s.record("del", set+" "+entry, err) }()
	return s.delLocked(set, entry)
}

// DelEntryWithOptions: like the exec runner, the options are ignored (`ipset del set entry`).
func (s *IPSets) DelEntryWithOptions(set, entry string, options ...string) (err error) {
	s.mu.Lock()
	defer s.mu.Unlock()
	defer func() { s.record("del", set+" "+entry, err) }()
	return s.delLocked(set, entry)
}

func (s *IPSets) TestEntry(entry string, set string) (bool, error) {
	s.mu.Lock()
	defer s.mu.Unlock()
	r, ok := s.sets[set]
	if !ok {
		err := errNoSet(set)
		s.record("test", set+" "+entry, err)
		return false, err
	}
	return r.find(entryKey(entry)) >= 0, nil
}

func (s *IPSets) FlushSet(set string) (err error) {
	s.mu.Lock()
	defer s.mu.Unlock()
	defer func() { s.record("flush", set, err) }()
	r, ok := s.sets[set]
	if !ok {
		return errNoSet(set)
	}
	r.entries = nil
	return nil
}

func (s *IPSets) refLocked(name string) bool { return s.ipt != nil && s.ipt.setRefLocked(name) }

func (s *IPSets) DestroySet(set string) (err error) {
	s.mu.Lock()
	defer s.mu.Unlock()
	defer func() { s.record("destroy", set, err) }()
	if _, ok := s.sets[set]; !ok {
		return errNoSet(set)
	}
	if s.refLocked(set) {
		return &Error{ErrBusy, "ipset v7.x: Set cannot be destroyed: it is in use by a kernel component"}
	}
	delete(s.sets, set)
	return nil
}

func (s *IPSets) DestroyAllSets() (err error) {
	s.mu.Lock()
	defer s.mu.Unlock()
	defer func() { s.record("destroy-all", "", err) }()
	for n := range s.sets {
		if s.refLocked(n) {
			return &Error{ErrBusy, "ipset v7.x: Set cannot be destroyed: it is in use by a kernel component"}
		}
	}
	s.sets = map[string]*setRec{}
	return nil
}

// ListSets mimics strings.Split(`ipset list -n`, "\n"): the names and a trailing "".
func (s *IPSets) ListSets() ([]string, error) {
	s.mu.Lock()
	defer s.mu.Unlock()
	names := make([]string, 0, len(s.sets)+1)
	for n := range s.sets {
		names = append(names, n)
	}
	sort.Strings(names)
	return append(names, ""), nil
}

func (s *IPSets) ListEntries(set string) ([]string, error) {
	s.mu.Lock()
	defer s.mu.Unlock()
	if len(set) == 0 {
		return nil, fmt.Errorf("set name can't be nil")
	}
	r, ok := s.sets[set]
	if !ok {
		err := errNoSet(set)
		s.record("list", set, err)
		return nil, err
	}
	return append([]string{}, r.entries...), nil
}

// SaveAllSets prints the sets in the format of the repo's own fake (`ipset list` without the header noise).
func (s *IPSets) SaveAllSets() ([]byte, error) {
	d := s.Dump()
	names := make([]string, 0, len(d))
	for n := range d {
		names = append(names, n)
	}
	sort.Strings(names)
	buf := bytes.NewBuffer(nil)
	for _, n := range names {
		fmt.Fprintf(buf, "Name: %s\nType: %s\nMembers:\n", n, d[n].Type)
		for _, e := range d[n].Entries {
			buf.WriteString(e + "\n")
		}
		buf.WriteString("\n")
	}
	if buf.Len() > 0 {
		buf.Truncate(buf.Len() - 1)
	}
	return buf.Bytes(), nil
}
