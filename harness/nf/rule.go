// Package nf holds STRICT in-memory fakes of the kernel's netfilter as galaxy sees it:
//
//   - IPTables implements tkestack.io/galaxy/pkg/utils/iptables.Interface with the semantics of
//     iptables 1.8.9 / iptables-restore --noflush (= Lean model M6, Galaxy/Model/Netfilter.lean);
//   - IPSets   implements tkestack.io/galaxy/pkg/utils/ipset.Interface (create/add/del/destroy/list;
//     destroy fails while an iptables rule matches on the set).
//
// Unlike the repo's own fakes (pkg/utils/iptables/testing, pkg/utils/ipset/testing) nothing is
// lenient: a rule appended to a missing chain, a jump to a missing chain, `-X` of a non-empty or
// referenced chain all fail, a failing restore batch changes nothing, `-A` never de-duplicates.
//
// This file: rule tokenisation / normalisation / reading (must stay in step with normRule,
// jumpTarget, matchSets of the Lean model; harness/cmd/c14 checks that on random rules).
package nf

import (
	"fmt"
	"sort"
	"strings"
)

// Rule is a normalised argv (quotes stripped, --opt=value split, bare address after -s/-d gets /32).
type Rule = []string

var arity1 = map[string]bool{}

func init() {
	for _, o := range []string{"-m", "-p", "-s", "-d", "-j", "-g", "-i", "-o", "--match", "--protocol", "--source",
		"--destination", "--jump", "--goto", "--in-interface", "--out-interface",
		"--comment", "--dport", "--sport", "--dports", "--sports", "--destination-port", "--source-port",
		"--to-destination", "--to-source", "--to-ports", "--set-xmark", "--set-mark", "--mark",
		"--dst-type", "--src-type", "--ctstate", "--state", "--reject-with", "--limit", "--limit-burst",
		"--log-prefix", "--log-level", "--probability", "--mode", "--every", "--packet", "--icmp-type",
		"--mac-source", "--uid-owner", "--gid-owner"} {
		arity1[o] = true
	}
}

// OptArity is the number of argv words an option consumes.
func OptArity(t string) int {
	if t == "--match-set" || t == "--tcp-flags" {
		return 2
	}
	if arity1[t] {
		return 1
	}
	return 0
}

func isJumpOpt(t string) bool { return t == "-j" || t == "-g" || t == "--jump" || t == "--goto" }

// JumpTarget returns the word after -j/-g in option position.
func JumpTarget(r Rule) (string, bool) {
	skip := 0
	for i, t := range r {
		if skip > 0 {
			skip--
			continue
		}
		if isJumpOpt(t) {
			if i+1 < len(r) {
				return r[i+1], true
			}
			return "", false
		}
		skip = OptArity(t)
	}
	return "", false
}

// MatchSets returns the set names after --match-set.
func MatchSets(r Rule) []string {
	var out []string
	skip := 0
	for i, t := range r {
		if skip > 0 {
			skip--
			continue
		}
		if t == "--match-set" {
			if i+1 < len(r) {
				out = append(out, r[i+1])
				skip = 2
				continue
			}
			return out
		}
		skip = OptArity(t)
	}
	return out
}

var builtinTargets = map[string]bool{}

func init() {
	for _, t := range []string{"ACCEPT", "DROP", "RETURN", "QUEUE", "DNAT", "SNAT", "MASQUERADE", "MARK", "REJECT",
		"LOG", "REDIRECT", "NOTRACK", "CT", "TPROXY", "TCPMSS", "NFLOG", "NFQUEUE", "CONNMARK", "SET", "CLASSIFY",
		"DSCP", "TOS", "TTL", "NETMAP", "AUDIT", "CHECKSUM", "TRACE"} {
		builtinTargets[t] = true
	}
}

// ChainRef returns the user chain the rule jumps to.
func ChainRef(r Rule) (string, bool) {
	t, ok := JumpTarget(r)
	if !ok || builtinTargets[t] {
		return "", false
	}
	return t, true
}

func stripQuotes(s string) string {
	if len(s) >= 2 && s[0] == '"' && s[len(s)-1] == '"' {
		return s[1 : len(s)-1]
	}
	return s
}

func splitEq(s string) (string, string, bool) {
	if strings.HasPrefix(s, "--") {
		if i := strings.IndexByte(s, '='); i >= 0 {
			return s[:i], s[i+1:], true
		}
	}
	return "", "", false
}

func isAddrOpt(o string) bool {
	return o == "-s" || o == "-d" || o == "--source" || o == "--destination"
}

func fixVal(opt, v string) string {
	if isAddrOpt(opt) && !strings.Contains(v, "/") {
		return v + "/32"
	}
	return v
}

// Normalize turns an argv (as passed to EnsureRule, or the words of a restore line after the chain)
// into a Rule.
func Normalize(args []string) Rule {
	out := make(Rule, 0, len(args)+1)
	n, opt := 0, ""
	for _, t := range args {
		if n > 0 {
			out = append(out, fixVal(opt, stripQuotes(t)))
			n--
			continue
		}
		t = stripQuotes(t)
		if o, v, ok := splitEq(t); ok {
			out = append(out, o, fixVal(o, v))
			n, opt = OptArity(o)-1, o
			if n < 0 {
				n = 0
			}
			continue
		}
		out = append(out, t)
		n, opt = OptArity(t), t
	}
	return out
}

// Tokenize splits a restore line on spaces; a double-quoted stretch is one word (quotes kept).
func Tokenize(line string) ([]string, error) {
	var out []string
	cur := strings.Builder{}
	inQ, have := false, false
	for i := 0; i < len(line); i++ {
		c := line[i]
		switch {
		case c == '"':
			inQ = !inQ
			have = true
			cur.WriteByte(c)
		case c == ' ' && !inQ:
			if have {
				out = append(out, cur.String())
				cur.Reset()
				have = false
			}
		default:
			have = true
			cur.WriteByte(c)
		}
	}
	if inQ {
		return nil, fmt.Errorf("unterminated quote")
	}
	if have {
		out = append(out, cur.String())
	}
	return out, nil
}

// QuoteWord renders a rule word the way iptables-save does.
func QuoteWord(w string) string {
	if w == "" || strings.ContainsAny(w, " \t") {
		return `"` + w + `"`
	}
	return w
}

// RenderRule renders a rule as the text after `-A chain `.
func RenderRule(r Rule) string {
	ws := make([]string, len(r))
	for i, w := range r {
		ws[i] = QuoteWord(w)
	}
	return strings.Join(ws, " ")
}

// ---- canonical text encoding shared with the Lean driver --------------------------------------

// EncTok percent-encodes a word so that it contains none of space ; | = % and is never empty.
func EncTok(s string) string {
	if s == "" {
		return "%%"
	}
	var b strings.Builder
	for i := 0; i < len(s); i++ {
		c := s[i]
		if c >= 'a' && c <= 'z' || c >= 'A' && c <= 'Z' || c >= '0' && c <= '9' ||
			c == '.' || c == '_' || c == ':' || c == '/' || c == ',' || c == '+' || c == '-' || c == '[' || c == ']' || c == '*' || c == '#' || c == '!' {
			b.WriteByte(c)
		} else {
			fmt.Fprintf(&b, "%%%02X", c)
		}
	}
	return b.String()
}

// EncWords encodes a word list: encoded words joined by single spaces ("-" for the empty list).
func EncWords(ws []string) string {
	if len(ws) == 0 {
		return "-"
	}
	es := make([]string, len(ws))
	for i, w := range ws {
		es[i] = EncTok(w)
	}
	return strings.Join(es, " ")
}

// EncRules encodes a rule list: rules joined by " ; ".
func EncRules(rs []Rule) string {
	es := make([]string, len(rs))
	for i, r := range rs {
		es[i] = EncWords(r)
	}
	return strings.Join(es, " ; ")
}

// EncTable is the canonical one-line dump of a table: chains sorted, `name=rules` joined by " | ".
func EncTable(t map[string][]Rule) string {
	names := make([]string, 0, len(t))
	for n := range t {
		names = append(names, n)
	}
	sort.Strings(names)
	es := make([]string, len(names))
	for i, n := range names {
		es[i] = EncTok(n) + "=" + EncRules(t[n])
	}
	return strings.Join(es, " | ")
}

// ---- canonical form for comparison with the real iptables-save ----------------------------------

// KernelCanon re-orders a rule the way iptables-save prints it: -s -d -i -o -p first (in that order),
// then everything else in the given order.  Only for the option forms galaxy emits.
func KernelCanon(r Rule) Rule {
	front := map[string][]string{}
	var rest Rule
	for i := 0; i < len(r); i++ {
		t := r[i]
		switch t {
		case "-s", "-d", "-i", "-o", "-p":
			if i+1 < len(r) {
				front[t] = []string{t, r[i+1]}
				i++
				continue
			}
		}
		n := OptArity(t)
		rest = append(rest, t)
		for k := 0; k < n && i+1 < len(r); k++ {
			i++
			rest = append(rest, r[i])
		}
	}
	var out Rule
	for _, o := range []string{"-s", "-d", "-i", "-o", "-p"} {
		out = append(out, front[o]...)
	}
	return append(out, rest...)
}

// ParseSave parses `iptables-save -t <table>` output into chain -> rules (normalised).
func ParseSave(text string) (map[string][]Rule, error) {
	t := map[string][]Rule{}
	for _, line := range strings.Split(text, "\n") {
		line = strings.TrimSpace(line)
		if line == "" || line[0] == '#' || line[0] == '*' || line == "COMMIT" {
			continue
		}
		if line[0] == ':' {
			f := strings.Fields(line[1:])
			if len(f) == 0 {
				return nil, fmt.Errorf("bad chain line %q", line)
			}
			if _, ok := t[f[0]]; !ok {
				t[f[0]] = []Rule{}
			}
			continue
		}
		ws, err := Tokenize(line)
		if err != nil {
			return nil, err
		}
		if len(ws) < 2 || ws[0] != "-A" {
			return nil, fmt.Errorf("bad rule line %q", line)
		}
		t[ws[1]] = append(t[ws[1]], Normalize(ws[2:]))
	}
	return t, nil
}

// ---- decoding of the canonical text (for post-processing driver output) ---------------------------

// DecTok inverts EncTok.
func DecTok(s string) (string, error) {
	if s == "%%" {
		return "", nil
	}
	var b []byte
	for i := 0; i < len(s); i++ {
		if s[i] != '%' {
			b = append(b, s[i])
			continue
		}
		if i+2 > len(s)-1 {
			return "", fmt.Errorf("bad escape in %q", s)
		}
		var v int
		if _, err := fmt.Sscanf(s[i+1:i+3], "%02X", &v); err != nil {
			return "", fmt.Errorf("bad escape in %q", s)
		}
		b = append(b, byte(v))
		i += 2
	}
	return string(b), nil
}

// DecWords inverts EncWords.
func DecWords(s string) ([]string, error) {
	s = strings.TrimSpace(s)
	if s == "-" || s == "" {
		return nil, nil
	}
	var out []string
	for _, w := range strings.Split(s, " ") {
		d, err := DecTok(w)
		if err != nil {
			return nil, err
		}
		out = append(out, d)
	}
	return out, nil
}

// DecRules inverts EncRules ("" = no rules).
func DecRules(s string) ([]Rule, error) {
	if strings.TrimSpace(s) == "" {
		return nil, nil
	}
	var out []Rule
	for _, r := range strings.Split(s, " ; ") {
		ws, err := DecWords(r)
		if err != nil {
			return nil, err
		}
		out = append(out, ws)
	}
	return out, nil
}

// DecTable inverts EncTable.
func DecTable(s string) (map[string][]Rule, error) {
	t := map[string][]Rule{}
	if strings.TrimSpace(s) == "" {
		return t, nil
	}
	for _, part := range strings.Split(s, " | ") {
		i := strings.IndexByte(part, '=')
		if i < 0 {
			return nil, fmt.Errorf("bad table entry %q", part)
		}
		name, err := DecTok(part[:i])
		if err != nil {
			return nil, err
		}
		rs, err := DecRules(part[i+1:])
		if err != nil {
			return nil, err
		}
		if rs == nil {
			rs = []Rule{}
		}
		t[name] = rs
	}
	return t, nil
}

// CanonTable applies KernelCanon to every rule.
func CanonTable(t map[string][]Rule) map[string][]Rule {
	out := map[string][]Rule{}
	for c, rs := range t {
		n := make([]Rule, len(rs))
		for i, r := range rs {
			n[i] = KernelCanon(r)
		}
		out[c] = n
	}
	return out
}
