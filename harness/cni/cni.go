// Package cni: reusable pieces for harnesses that drive galaxy's REAL CNI request path
// (pkg/galaxy: Init from a JSON config, SetClient(fake clientset), requests through the HTTP handler via the
// verif hook) against a recording fake plugin binary found through CNI_PATH.
//
// Everything a world creates lives under /verif/out/cni/<run>/ except the state files galaxy itself writes to the
// constant directory /var/lib/cni/galaxy (unique container ids per run; Close removes them).
package cni

import (
	"encoding/json"
	"flag"
	"fmt"
	"io"
	"os"
	"os/exec"
	"path/filepath"
	"sort"
	"strings"
	"sync"
	"time"

	corev1 "k8s.io/api/core/v1"
	"k8s.io/apimachinery/pkg/api/resource"
	metav1 "k8s.io/apimachinery/pkg/apis/meta/v1"
	"k8s.io/apimachinery/pkg/runtime"
	"k8s.io/client-go/kubernetes/fake"
	"k8s.io/klog"
	"tkestack.io/galaxy/pkg/galaxy"

	"gxverif/cni/cdig"
	"gxverif/hx"
)

const (
	StateDir      = "/var/lib/cni/galaxy" // constant `stateDir` of pkg/api/cniutil
	PortDir       = "/var/lib/cni/galaxy/port"
	NetworksAnn   = "k8s.v1.cni.cncf.io/networks"
	ExtArgsAnn    = "k8s.v1.cni.galaxy.io/args"
	ENIResource   = "tke.cloud.tencent.com/eni-ip"
	requestBudget = 20 * time.Second
)

// NetSpec is one network configuration.
type NetSpec struct {
	Name    string                 `json:"name"`
	NoName  bool                   `json:"noName,omitempty"` // omit "name": galaxy keys the network by its type
	Type    string                 `json:"type"`
	Version string                 `json:"version,omitempty"` // cniVersion ("" = absent)
	Extra   map[string]interface{} `json:"extra,omitempty"`
	InDir   bool                   `json:"inDir,omitempty"` // a file in NetworkConfDir instead of the JSON config
}

// Key is the name under which galaxy knows the network.
func (n NetSpec) Key() string {
	if n.NoName {
		return n.Type
	}
	return n.Name
}

// Map is the configuration object as galaxy holds it after decoding (numbers are float64).
func (n NetSpec) Map() map[string]interface{} {
	m := map[string]interface{}{"type": n.Type}
	if !n.NoName {
		m["name"] = n.Name
	}
	if n.Version != "" {
		m["cniVersion"] = n.Version
	}
	for k, v := range n.Extra {
		m[k] = v
	}
	b, _ := json.Marshal(m)
	var out map[string]interface{}
	json.Unmarshal(b, &out)
	return out
}

// Digest of the configuration (what the plugin computes from its stdin minus prevResult).
func (n NetSpec) Digest() string {
	d, _ := cdig.Split(n.Map())
	return d
}

type Config struct {
	Nets    []NetSpec `json:"nets"`
	Default []string  `json:"default"`
	ENI     string    `json:"eni,omitempty"`
}

func (c Config) Lookup(key string) (NetSpec, bool) {
	for _, n := range c.Nets {
		if !n.InDir && n.Key() == key {
			return n, true
		}
	}
	for _, n := range c.Nets {
		if n.InDir && (key == "" || n.Name == key) {
			return n, true
		}
	}
	return NetSpec{}, false
}

// PodSpec is a pod as the fake apiserver serves it.
type PodSpec struct {
	Name     string `json:"name"`
	NS       string `json:"ns"`
	Ann      string `json:"ann,omitempty"`    // networks annotation
	ExtAnn   string `json:"extAnn,omitempty"` // k8s.v1.cni.galaxy.io/args
	WantsENI bool   `json:"wantsEni,omitempty"`
}

// Record is one plugin invocation as logged by gxplugin.
type Record struct {
	K       int    `json:"k"`
	Cmd     string `json:"cmd"`
	Cid     string `json:"cid"`
	IfName  string `json:"ifname"`
	NetNS   string `json:"netns"`
	Args    string `json:"args"`
	Path    string `json:"path"`
	Type    string `json:"type"`
	Stdin   string `json:"stdin"`
	Digest  string `json:"digest"`
	PrevTok string `json:"prev"`
	Fail    bool   `json:"fail"`
	BadJSON bool   `json:"badjson,omitempty"`
}

// Env is the per-process environment: the run directory and the built plugin.
type Env struct {
	Root   string // /verif/out/cni/<run>
	Plugin string
	Run    string // unique prefix for container ids
	mu     sync.Mutex
	nWorld int
	cids   map[string]bool
}

var quietOnce sync.Once

// Quiet sends galaxy's klog output to nowhere.
func Quiet() {
	quietOnce.Do(func() {
		fs := flag.NewFlagSet("klog", flag.ContinueOnError)
		klog.InitFlags(fs)
		fs.Set("logtostderr", "false")
		fs.Set("alsologtostderr", "false")
		fs.Set("stderrthreshold", "FATAL")
		klog.SetOutput(io.Discard)
	})
}

// Setup builds the recording plugin into /verif/out/cni/<run>/ (never under /tmp).
func Setup(seed int64) (*Env, error) {
	Quiet()
	root := os.Getenv("VERIF_ROOT")
	if root == "" {
		root = "/verif"
	}
	run := fmt.Sprintf("gx%dx%d", os.Getpid(), seed)
	e := &Env{Root: filepath.Join(root, "out", "cni", run), Run: run, cids: map[string]bool{}}
	if err := os.MkdirAll(e.Root, 0o755); err != nil {
		return nil, err
	}
	e.Plugin = filepath.Join(e.Root, "gxplugin")
	cmd := exec.Command("go", "build", "-o", e.Plugin, "./cni/plugin")
	cmd.Dir = filepath.Join(root, "harness")
	cmd.Env = append(os.Environ(), "GOFLAGS=-mod=mod", "GOPROXY=off", "GOSUMDB=off", "GOTOOLCHAIN=local", "CGO_ENABLED=0")
	if out, err := cmd.CombinedOutput(); err != nil {
		return nil, fmt.Errorf("building the recording plugin: %v: %s", err, out)
	}
	return e, nil
}

// Close removes everything the run created: its directory and the state files of its container ids.
func (e *Env) Close() {
	e.mu.Lock()
	defer e.mu.Unlock()
	for cid := range e.cids {
		os.Remove(filepath.Join(StateDir, cid))
		os.Remove(filepath.Join(PortDir, cid))
	}
	os.RemoveAll(e.Root)
}

// Cid returns the run-unique container id for a label and remembers it for cleanup.
func (e *Env) Cid(world int, label string) string {
	cid := fmt.Sprintf("%sw%d%sz", e.Run, world, label) // the terminator keeps one id from being a substring of another
	e.mu.Lock()
	e.cids[cid] = true
	e.mu.Unlock()
	return cid
}

// World is one galaxy instance with its configuration, plugins and pods.
type World struct {
	Env  *Env
	ID   int
	Dir  string
	Cfg  Config
	G    *galaxy.Galaxy
	Pods map[string]PodSpec
}

func podObject(p PodSpec) *corev1.Pod {
	pod := &corev1.Pod{ObjectMeta: metav1.ObjectMeta{Name: p.Name, Namespace: p.NS}}
	ann := map[string]string{}
	if p.Ann != "" {
		ann[NetworksAnn] = p.Ann
	}
	if p.ExtAnn != "" {
		ann[ExtArgsAnn] = p.ExtAnn
	}
	if len(ann) > 0 {
		pod.Annotations = ann
	}
	c := corev1.Container{Name: "c", Image: "i"}
	if p.WantsENI {
		c.Resources.Requests = corev1.ResourceList{corev1.ResourceName(ENIResource): resource.MustParse("1")}
	}
	pod.Spec.Containers = []corev1.Container{c}
	return pod
}

// NewWorld builds a Galaxy from cfg through its public constructor + Init (reading a JSON config file), installs
// the recording plugin under every plugin type on a private CNI path, and serves the pods from a fake clientset.
func (e *Env) NewWorld(cfg Config, pods []PodSpec) (*World, error) {
	e.mu.Lock()
	e.nWorld++
	id := e.nWorld
	e.mu.Unlock()
	w := &World{Env: e, ID: id, Dir: filepath.Join(e.Root, fmt.Sprintf("w%d", id)), Cfg: cfg, Pods: map[string]PodSpec{}}
	for _, d := range []string{"bin", "ctl", "cnt", "log", "confd"} {
		if err := os.MkdirAll(filepath.Join(w.Dir, d), 0o755); err != nil {
			return nil, err
		}
	}
	var netConf []map[string]interface{}
	di := 0
	for _, n := range cfg.Nets {
		link := filepath.Join(w.Dir, "bin", n.Type)
		if _, err := os.Lstat(link); err != nil {
			if err := os.Symlink(e.Plugin, link); err != nil {
				return nil, err
			}
		}
		if n.InDir {
			b, _ := json.Marshal(n.Map())
			if err := os.WriteFile(filepath.Join(w.Dir, "confd", fmt.Sprintf("%02d-%s.conf", di, n.Name)), b, 0o644); err != nil {
				return nil, err
			}
			di++
		} else {
			netConf = append(netConf, n.Map())
		}
	}
	def := cfg.Default
	if def == nil {
		def = []string{}
	}
	js, _ := json.Marshal(map[string]interface{}{"NetworkConf": netConf, "DefaultNetworks": def, "ENIIPNetwork": cfg.ENI})
	cfgPath := filepath.Join(w.Dir, "galaxy.json")
	if err := os.WriteFile(cfgPath, js, 0o644); err != nil {
		return nil, err
	}
	g := galaxy.NewGalaxy()
	g.JsonConfigPath = cfgPath
	g.NetworkConfDir = filepath.Join(w.Dir, "confd")
	g.CNIPaths = []string{filepath.Join(w.Dir, "bin")}
	var ierr error
	if o := hx.Guard(requestBudget, func() { ierr = g.Init() }); o != "ok" {
		return nil, fmt.Errorf("galaxy.Init: %s", o)
	}
	if ierr != nil {
		return nil, fmt.Errorf("galaxy.Init: %v", ierr)
	}
	var objs []runtime.Object
	for _, p := range pods {
		w.Pods[p.NS+"/"+p.Name] = p
		objs = append(objs, podObject(p))
	}
	g.SetClient(fake.NewSimpleClientset(objs...))
	w.G = g
	return w, nil
}

// Cid is the run-unique container id of a label in this world.
func (w *World) Cid(label string) string { return w.Env.Cid(w.ID, label) }

// KubeletArgs is the CNI_ARGS kubelet sends.
func KubeletArgs(ns, name, cid string) string {
	return fmt.Sprintf("IgnoreUnknown=1;K8S_POD_NAMESPACE=%s;K8S_POD_NAME=%s;K8S_POD_INFRA_CONTAINER_ID=%s", ns, name, cid)
}

// Result of one request.
type Result struct {
	Outcome string // "ok" | "panic: …" | "hang"
	Status  int
	Body    string
	Records []Record
}

func (r Result) OK() bool { return r.Outcome == "ok" && r.Status == 200 }

// Request sends one ADD/DEL through the real handler.  bits: character k = outcome of the k-th plugin invocation
// of this request ('0' fails).  Requests for one container id must not overlap; different ids may.
func (w *World) Request(cmd, cid, ifname, netns, args, bits string) Result {
	os.WriteFile(filepath.Join(w.Dir, "ctl", cid), []byte(bits), 0o644)
	os.WriteFile(filepath.Join(w.Dir, "cnt", cid), nil, 0o644)
	before := len(w.readLog(cid))
	body, _ := json.Marshal(map[string]interface{}{
		"env": map[string]string{"CNI_COMMAND": cmd, "CNI_CONTAINERID": cid, "CNI_NETNS": netns, "CNI_IFNAME": ifname,
			"CNI_PATH": "", "CNI_ARGS": args},
		"config": []byte(`{"type":"galaxy-sdn","name":"galaxy"}`),
	})
	var res Result
	res.Outcome = hx.Guard(requestBudget, func() {
		st, b := w.G.VerifCNI(body)
		res.Status, res.Body = st, string(b)
	})
	all := w.readLog(cid)
	if before <= len(all) {
		res.Records = all[before:]
	}
	return res
}

func (w *World) readLog(cid string) []Record {
	b, err := os.ReadFile(filepath.Join(w.Dir, "log", cid))
	if err != nil {
		return nil
	}
	var out []Record
	for _, l := range strings.Split(string(b), "\n") {
		if l == "" {
			continue
		}
		var r Record
		if json.Unmarshal([]byte(l), &r) == nil {
			out = append(out, r)
		}
	}
	return out
}

// SavedInfo is one element of the state file /var/lib/cni/galaxy/<cid>.
type SavedInfo struct {
	NetworkType string
	Args        map[string]string
	Conf        map[string]interface{}
	IfName      string
}

// StateFile reads the container's state file (nil, false = absent).
func StateFile(cid string) ([]SavedInfo, bool, error) {
	b, err := os.ReadFile(filepath.Join(StateDir, cid))
	if err != nil {
		if os.IsNotExist(err) {
			return nil, false, nil
		}
		return nil, false, err
	}
	var infos []SavedInfo
	if err := json.Unmarshal(b, &infos); err != nil {
		return nil, true, err
	}
	return infos, true, nil
}

// ParseArgs: the CNI_ARGS convention (`k=v;…`, entries without '=' ignored, blanks trimmed, last one wins) —
// written independently of galaxy's ParseCNIArgs.
func ParseArgs(s string) map[string]string {
	m := map[string]string{}
	for _, seg := range strings.Split(s, ";") {
		i := strings.IndexByte(seg, '=')
		if i < 0 {
			continue
		}
		m[strings.TrimSpace(seg[:i])] = strings.TrimSpace(seg[i+1:])
	}
	return m
}

// X is the driver's string encoding.
func X(s string) string { return "x" + fmt.Sprintf("%x", []byte(s)) }

func canonMap(m map[string]string) string {
	var xs []string
	for k, v := range m {
		xs = append(xs, X(k)+"="+X(v))
	}
	sort.Strings(xs)
	return "{" + strings.Join(xs, ",") + "}"
}

func canonPrev(tok string) string {
	if tok == "" {
		return "-"
	}
	c, d, i, ok := cdig.ParseToken(tok)
	if !ok {
		return "?" + X(tok)
	}
	return X(c) + "/" + X(d) + "/" + X(i)
}

// Canon is the Appendix-B form of an invocation, identical to gxdrv_cni's `inv`.
func (r Record) Canon() string {
	return strings.Join([]string{r.Cmd, X(r.Cid), X(r.Type), X(r.Digest), X(r.IfName), canonMap(ParseArgs(r.Args)), canonPrev(r.PrevTok)}, " ")
}

// CanonResult is gxdrv_cni's output line for a request.
func CanonResult(ok bool, recs []Record) string {
	var xs []string
	for _, r := range recs {
		xs = append(xs, r.Canon())
	}
	s := "err"
	if ok {
		s = "ok"
	}
	return s + " [" + strings.Join(xs, " | ") + "]"
}

// CanonFile is gxdrv_cni's `file` output for a state file.
func CanonFile(infos []SavedInfo, present bool) string {
	if !present {
		return "none"
	}
	var xs []string
	for _, n := range infos {
		d, tok := cdig.Split(n.Conf)
		typ, _ := n.Conf["type"].(string)
		xs = append(xs, strings.Join([]string{X(n.NetworkType), X(typ), X(d), X(n.IfName), canonMap(n.Args), canonPrev(tok)}, "/"))
	}
	return "[" + strings.Join(xs, ",") + "]"
}

// ---- driver lines

func netTok(n NetSpec) string { return X(n.Key()) + ":" + X(n.Type) + ":" + X(n.Digest()) }

// ConfLine is the `conf` line of gxdrv_cni for a configuration (copy = "gen" | "0" | "1").
func ConfLine(c Config, copy string) string {
	var nets, dir, def []string
	for _, n := range c.Nets {
		if n.InDir {
			dir = append(dir, X(n.Name)+":"+X(n.Type)+":"+X(n.Digest()))
		} else {
			nets = append(nets, netTok(n))
		}
	}
	for _, d := range c.Default {
		def = append(def, X(d))
	}
	j := func(l []string) string {
		if len(l) == 0 {
			return "-"
		}
		return strings.Join(l, ",")
	}
	return fmt.Sprintf("conf copy=%s nets=%s dir=%s def=%s eni=%s", copy, j(nets), j(dir), j(def), X(c.ENI))
}

// PodLine is the `pod` line: the raw annotation plus the decodings the model takes as given (the JSON form of the
// networks annotation and args.common, both decoded here with encoding/json into the harness's own types).
func PodLine(id string, p PodSpec) string {
	js := "none"
	if strings.ContainsAny(p.Ann, "[{\"") {
		var els []*struct {
			Name      string `json:"name"`
			Interface string `json:"interface"`
		}
		if err := json.Unmarshal([]byte(p.Ann), &els); err != nil {
			js = "err"
		} else {
			var xs []string
			for _, e := range els {
				if e == nil {
					xs = nil
					js = "err"
					break
				}
				xs = append(xs, X(e.Name)+":"+X(e.Interface))
			}
			if js != "err" {
				if len(xs) == 0 {
					js = "empty"
				} else {
					js = strings.Join(xs, ",")
				}
			}
		}
	}
	ext := "empty"
	if p.ExtAnn != "" {
		var a struct {
			Common map[string]json.RawMessage `json:"common"`
		}
		if err := json.Unmarshal([]byte(p.ExtAnn), &a); err != nil {
			ext = "err"
		} else if len(a.Common) > 0 {
			var ks []string
			for k := range a.Common {
				ks = append(ks, k)
			}
			sort.Strings(ks)
			var xs []string
			for _, k := range ks {
				xs = append(xs, X(k)+":"+X(string(a.Common[k])))
			}
			ext = strings.Join(xs, ",")
		}
	}
	eni := "0"
	if p.WantsENI {
		eni = "1"
	}
	return fmt.Sprintf("pod %s ann=%s json=%s eni=%s ext=%s", id, X(p.Ann), js, eni, ext)
}

func bitsTok(b string) string {
	if b == "" {
		return "-"
	}
	return b
}

func AddLine(cid, ifname, args, podID, bits string) string {
	return fmt.Sprintf("add %s %s %s %s %s", X(cid), X(ifname), X(args), podID, bitsTok(bits))
}

func DelLine(cid, ifname, args, bits string) string {
	return fmt.Sprintf("del %s %s %s %s", X(cid), X(ifname), X(args), bitsTok(bits))
}

func FileLine(cid string) string { return "file " + X(cid) }
