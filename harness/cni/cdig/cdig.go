// Package cdig: canonical digest of a CNI network configuration and the result token of the recording plugin.
// Stdlib only (it is linked into the tiny plugin binary as well as into the harness).
package cdig

import (
	"crypto/sha256"
	"encoding/hex"
	"encoding/json"
	"strings"
)

// Split removes "prevResult" from a decoded network configuration and returns the digest of the rest (canonical
// JSON: Go marshals maps with sorted keys; numbers are float64 on both sides) and the token carried by the
// prevResult ("" = no prevResult, "?" = a prevResult without token).
func Split(conf map[string]interface{}) (digest string, prevTok string) {
	if pr, ok := conf["prevResult"]; ok {
		prevTok = "?"
		if m, ok := pr.(map[string]interface{}); ok {
			if d, ok := m["dns"].(map[string]interface{}); ok {
				if s, ok := d["domain"].(string); ok && s != "" {
					prevTok = s
				}
			}
		}
	}
	rest := make(map[string]interface{}, len(conf))
	for k, v := range conf {
		if k != "prevResult" {
			rest[k] = v
		}
	}
	b, _ := json.Marshal(rest)
	h := sha256.Sum256(b)
	return hex.EncodeToString(h[:6]), prevTok
}

// Token identifies the ADD that produced a result.
func Token(cid, digest, ifname string) string { return cid + "|" + digest + "|" + ifname }

// ParseToken splits a token; ok=false if it is not one of ours.
func ParseToken(t string) (cid, digest, ifname string, ok bool) {
	p := strings.Split(t, "|")
	if len(p) != 3 {
		return "", "", "", false
	}
	return p[0], p[1], p[2], true
}
