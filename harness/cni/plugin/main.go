// gxplugin: recording fake CNI plugin.  Installed (as a symlink named after the plugin type) in <dir>/bin of a
// harness world; appends one JSON line per invocation to <dir>/log/<cid>, counts the invocations of the current
// request in <dir>/cnt/<cid>, fails on demand when character k of <dir>/ctl/<cid> is '0' (k = invocation index
// within the request), and prints a minimal valid CNI result on ADD whose dns.domain carries the token
// cid|digest|ifname.
package main

import (
	"encoding/json"
	"fmt"
	"io"
	"os"
	"path/filepath"

	"gxverif/cni/cdig"
)

type record struct {
	K       int    `json:"k"`
	Cmd     string `json:"cmd"`
	Cid     string `json:"cid"`
	IfName  string `json:"ifname"`
	NetNS   string `json:"netns"`
	Args    string `json:"args"`
	Path    string `json:"path"`
	Type    string `json:"type"`
	Stdin   string `json:"stdin"`
	Digest  string `json:"digest"`
	PrevTok string `json:"prev"`
	Fail    bool   `json:"fail"`
	BadJSON bool   `json:"badjson,omitempty"`
}

func main() {
	self := os.Args[0]
	dir := filepath.Dir(filepath.Dir(self))
	cmd := os.Getenv("CNI_COMMAND")
	if cmd == "VERSION" {
		fmt.Println(`{"cniVersion":"0.4.0","supportedVersions":["0.1.0","0.2.0","0.3.0","0.3.1","0.4.0"]}`)
		return
	}
	stdin, _ := io.ReadAll(os.Stdin)
	cid := os.Getenv("CNI_CONTAINERID")
	r := record{Cmd: cmd, Cid: cid, IfName: os.Getenv("CNI_IFNAME"), NetNS: os.Getenv("CNI_NETNS"),
		Args: os.Getenv("CNI_ARGS"), Path: os.Getenv("CNI_PATH"), Type: filepath.Base(self), Stdin: string(stdin)}
	var conf map[string]interface{}
	if err := json.Unmarshal(stdin, &conf); err != nil {
		r.BadJSON = true
		conf = map[string]interface{}{}
	}
	r.Digest, r.PrevTok = cdig.Split(conf)
	// invocation index within the current request
	cnt := filepath.Join(dir, "cnt", cid)
	if st, err := os.Stat(cnt); err == nil {
		r.K = int(st.Size())
	}
	if f, err := os.OpenFile(cnt, os.O_APPEND|os.O_CREATE|os.O_WRONLY, 0o644); err == nil {
		f.Write([]byte{'.'})
		f.Close()
	}
	if ctl, err := os.ReadFile(filepath.Join(dir, "ctl", cid)); err == nil && r.K < len(ctl) && ctl[r.K] == '0' {
		r.Fail = true
	}
	line, _ := json.Marshal(r)
	if f, err := os.OpenFile(filepath.Join(dir, "log", cid), os.O_APPEND|os.O_CREATE|os.O_WRONLY, 0o644); err == nil {
		f.Write(append(line, '\n'))
		f.Close()
	} else {
		fmt.Fprintln(os.Stderr, "gxplugin: cannot log:", err)
		os.Exit(3)
	}
	ver, _ := conf["cniVersion"].(string)
	if r.Fail {
		v := ver
		if v == "" {
			v = "0.2.0"
		}
		fmt.Printf(`{"cniVersion":%q,"code":100,"msg":"injected failure","details":"k=%d"}`+"\n", v, r.K)
		os.Exit(1)
	}
	if cmd != "ADD" {
		return
	}
	tok := cdig.Token(cid, r.Digest, r.IfName)
	switch ver {
	case "", "0.1.0", "0.2.0":
		v := ver
		if v == "" {
			v = "0.2.0"
		}
		fmt.Printf(`{"cniVersion":%q,"ip4":{"ip":"10.9.8.7/24","gateway":"10.9.8.1"},"dns":{"domain":%q}}`+"\n", v, tok)
	default:
		fmt.Printf(`{"cniVersion":%q,"interfaces":[{"name":%q,"sandbox":%q}],"ips":[{"version":"4","address":"10.9.8.7/24","gateway":"10.9.8.1","interface":0}],"dns":{"domain":%q}}`+"\n",
			ver, r.IfName, r.NetNS, tok)
	}
}
