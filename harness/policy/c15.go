package policy

import (
	"fmt"
	"math/rand"
	"sort"
	"strings"
	"time"

	"gxverif/hx"
	"gxverif/nf"
)

// ======================================================================================================
// C15: network-policy sync converges and leaves foreign rules alone.
//
// A history is a list of op lines (also the replay format, kind=history):
//
//	world <W>            start (re)defining world W; followed by ns / pod / pol lines
//	lset <name> <type> <entries|->   lchain <name>   lrule <chain> <words…>
//	                     install prior kernel state unchecked (junk, foreign rules, leftovers)
//	restart              new PolicyManager (empty memory), same kernel state
//	fullsync <W>         listers := W; PolicyManager.Run()          (policies -> policy rules -> pod chains)
//	ev <kind> <W> <ns>/<name> [<Wold>]
//	                     listers := W; call the event handler; kind in addpol updpol delpol updpod delpod
//	fault ipset-create <match|*> <n>   the next n `ipset create` calls for a set whose name contains <match> fail
//	check <W>            evaluate the four clauses of C15 for world W (a fullsync <W> must precede it), and compare
//	                     the flow verdicts of the final rules with those of a from-scratch sync of W
//
// The kernel is the pair of STRICT fakes of harness/nf (iptables-restore all-or-nothing, -X / destroy fail
// while referenced, rules need their chains / sets).
// ======================================================================================================

type StrictBackend struct {
	Backend
	Ipt   *nf.IPTables
	Ips   *nf.IPSets
	Fault *FaultIPS // fault injection in front of Ips (ipset create)
	Watch *Watch    // submission-time inspection of rule submissions (clause 4)
}

func NewStrictBackend() *StrictBackend {
	ipt, ips := nf.NewIPTables(), nf.NewIPSets()
	ipt.LinkSets(ips)
	w := &Watch{}
	f := &FaultIPS{Interface: &WatchIPS{Interface: ips, ips: ips, w: w}}
	return &StrictBackend{Backend: Backend{Ipt: &LimitIPT{Interface: &WatchIPT{Interface: ipt, ipt: ipt, ips: ips, w: w}, W: w}, Ips: f},
		Ipt: ipt, Ips: ips, Fault: f, Watch: w}
}

type WorldDef struct {
	C  Cluster
	PS []NetPol
}

// ---------- which part of a dump is galaxy's

func glxSet(n string) bool   { return strings.HasPrefix(n, "GLX") }
func glxChain(n string) bool { return strings.HasPrefix(n, "GLX-") }
func builtin(n string) bool  { return n == "FORWARD" || n == "INPUT" || n == "OUTPUT" }

func isBaseJump(chain string, r []string) bool {
	if len(r) != 2 || r[0] != "-j" {
		return false
	}
	switch chain {
	case "FORWARD":
		return r[1] == "GLX-INGRESS" || r[1] == "GLX-EGRESS"
	case "INPUT":
		return r[1] == "GLX-EGRESS"
	case "OUTPUT":
		return r[1] == "GLX-INGRESS"
	}
	return false
}

// Owned returns the galaxy-owned projection the exactness clause speaks about: GLX* sets, GLX-PLCY-* and
// GLX-POD-* chains, and the hook rules of GLX-INGRESS / GLX-EGRESS (a missing hook chain = no hooks).  The two
// hook chains themselves and the documented base jumps are NOT part of it (they are never removed once created).
func (d *Dump) Owned() *Dump {
	o := &Dump{Sets: map[string]SetDump{}, Chains: map[string][][]string{}}
	for n, s := range d.Sets {
		if glxSet(n) {
			o.Sets[n] = s
		}
	}
	o.Chains["GLX-INGRESS"], o.Chains["GLX-EGRESS"] = [][]string{}, [][]string{}
	for n, rs := range d.Chains {
		if glxChain(n) {
			o.Chains[n] = rs
		}
	}
	return o
}

// Foreign returns everything galaxy must not touch: non-GLX sets, non-GLX chains, and the rules of the built-in
// chains other than the documented base jumps.
func (d *Dump) Foreign() *Dump {
	o := &Dump{Sets: map[string]SetDump{}, Chains: map[string][][]string{}}
	for n, s := range d.Sets {
		if !glxSet(n) {
			o.Sets[n] = s
		}
	}
	for n, rs := range d.Chains {
		if glxChain(n) {
			continue
		}
		var keep [][]string
		for _, r := range rs {
			if !(builtin(n) && isBaseJump(n, r)) {
				keep = append(keep, r)
			}
		}
		if keep == nil {
			keep = [][]string{}
		}
		o.Chains[n] = keep
	}
	return o
}

// ---------- running a history on the real code

type C15Run struct {
	e      *hx.Env
	rep    *hx.Report
	prop   string
	name   string
	ops    []string
	worlds map[string]*WorldDef
	cur    string // world being defined
	sb     *StrictBackend
	m      *Manager
	// driver correspondence: lines queued for the Lean driver and what the real code produced
	drv       []string
	expect    []drvExpect
	failSeen  int // index into the failure logs already classified
	ipsSeen   int
	Sigs      map[string]int
	d17       bool // a policy batch failed busy on -X (D17) since the last check
	synced    string
	foreign   string // canonical foreign part after the last load op
	NoDriver  bool
	Nontriv   bool
	lastPrior *Dump // kernel state before the last fullsync
	verdicts  []verdictPair
}

// verdictPair: driver lines [i, i+n) walk the final dump, [j, j+n) the from-scratch dump, same flows
type verdictPair struct {
	i, j, n int
	attr    string // known finding the leftovers of this check belong to ("" = none)
	world   string
}

type drvExpect struct {
	idx   int // index of the driver line whose output must equal want
	want  string
	where string
}

func NewC15Run(e *hx.Env, rep *hx.Report, prop, name string) *C15Run {
	r := &C15Run{e: e, rep: rep, prop: prop, name: name, worlds: map[string]*WorldDef{}, Sigs: map[string]int{}}
	r.sb = NewStrictBackend()
	r.m = NewFreshManager(r.sb.Backend, LocalNode)
	r.drv = []string{"reset"}
	r.foreign = r.takeDump().Foreign().Canon()
	return r
}

func (r *C15Run) replay(tag string) string {
	return r.e.WriteReplay(r.prop, "history", r.name+tag, nil, r.ops)
}

func (r *C15Run) violate(sig, what string) {
	r.rep.Hit("violation:" + sig)
	r.Sigs[sig]++
	if Seen[sig] {
		return
	}
	Seen[sig] = true
	r.rep.Violations = append(r.rep.Violations, hx.Violation{Signature: sig, What: what, Replay: r.replay("-" + sig)})
}

func (r *C15Run) setWorld(w string) (*WorldDef, error) {
	wd := r.worlds[w]
	if wd == nil {
		return nil, fmt.Errorf("unknown world %q", w)
	}
	wd.C.Node = LocalNode
	r.m.World.Set(&wd.C, wd.PS)
	return wd, nil
}

// worldLines renders a world for the Lean driver (cluster + policies replace the driver's current cluster).
func worldLines(wd *WorldDef) []string {
	out := []string{"wclear", "node " + LocalNode}
	for _, n := range wd.C.NSs {
		out = append(out, n.Line())
	}
	for _, p := range wd.C.Pods {
		out = append(out, p.Line())
	}
	for _, p := range wd.PS {
		out = append(out, p.Line())
	}
	return out
}

func (r *C15Run) takeDump() *Dump {
	d, err := TakeDump(r.sb.Backend)
	if err != nil {
		panic(err)
	}
	return d
}

// drvSync: correspondence of one sync step: load the REAL prior dump into the driver, run the model's step, and
// expect the canonical text of the REAL posterior dump plus the classes of the failed rule submissions.
func (r *C15Run) drvSync(prior *Dump, wd *WorldDef, step string, post *Dump, fails []string) {
	r.drv = append(r.drv, worldLines(wd)...)
	r.drv = append(r.drv, prior.DriverLines()...)
	r.drv = append(r.drv, step)
	sort.Strings(fails)
	r.expect = append(r.expect, drvExpect{len(r.drv) - 1, "fails=[" + strings.Join(fails, ",") + "] " + post.Canon(), step})
}

// newFailures returns the failed calls since the last time, classified; rule submissions (restore, ensure-rule,
// ipset add) that name a missing chain / set are the ones clause 4 forbids.
func (r *C15Run) newFailures() (submitted []string, all []nf.Event) {
	fs := r.sb.Ipt.Failures()
	for _, ev := range fs[r.failSeen:] {
		all = append(all, ev)
		if ev.Op == "restore" || ev.Op == "ensure-rule" || ev.Op == "delete-rule" {
			submitted = append(submitted, ev.Op+":"+ev.Class)
		}
	}
	r.failSeen = len(fs)
	for _, lv := range r.sb.Watch.TakeLimits() {
		submitted = append(submitted, lv.Op+":"+lv.Class)
		r.violate("multiport-more-than-15-ports", "a rule with more than 15 ports of one protocol is refused by iptables "+
			"(too many ports specified) and the whole batch with it: "+clip(lv.Detail))
	}
	is := r.sb.Ips.Failures()
	for _, ev := range is[r.ipsSeen:] {
		all = append(all, ev)
		if ev.Op == "add" || ev.Op == "create" {
			submitted = append(submitted, "ipset-"+ev.Op+":"+ev.Class)
		}
	}
	r.ipsSeen = len(is)
	return
}

// classifyFailures turns the failures of a step into clause-4 violations (or the D17 signature).  Dangling references
// come from the submission-time inspection (Watch), NOT from what the fake answered: a submission that names a
// missing chain / set is reported whether or not it was rejected.  faulted: an injected `ipset create` failure hit
// this step.
func (r *C15Run) classifyFailures(step string, all []nf.Event, faulted bool) {
	for _, ev := range all {
		r.rep.Hit("fail:" + ev.Op + ":" + ev.Class)
		if ev.Op == "restore" && ev.Class == nf.ErrBusy && strings.Contains(ev.Arg, "-X GLX-PLCY-") {
			r.d17 = true
			r.violate("stale-policy-chain-referenced-sync-fails", fmt.Sprintf("%s: the policy batch deletes (-X) a stale "+
				"GLX-PLCY chain that a pod chain still references; iptables-restore fails atomically: %s", step, ev.Msg))
		}
	}
	for _, dv := range r.sb.Watch.Take() {
		r.rep.Hit("dangling-at-submission:" + dv.Op + ":" + dv.Class)
		podBatch := dv.Op == "restore" && strings.HasPrefix(dv.Batch, ":GLX-POD-") && dv.Class == nf.ErrNoTarget
		switch {
		case podBatch && r.d17:
			// consequence of the failed policy batch: the pod batch jumps to the policy chain that was not created
			r.violate("stale-policy-chain-referenced-sync-fails", fmt.Sprintf("%s: pod-chain batch references a policy "+
				"chain the failed policy batch did not create: %s", step, dv.Detail))
		case podBatch && faulted:
			r.violate("pod-batch-after-failed-policy-sync", fmt.Sprintf("%s: syncRules aborted (ipset create failed) but the "+
				"run went on to the pod chains, whose batch jumps to a policy chain that was never created: %s", step, dv.Detail))
		default:
			r.violate("dangling-reference:"+dv.Op+":"+dv.Class, fmt.Sprintf("%s: %s submitted a rule that names a chain / set "+
				"which does not exist at that point: %s", step, dv.Op, dv.Detail))
		}
	}
}

func (r *C15Run) guard(what string, f func()) bool {
	out := hx.Guard(30*time.Second, f)
	if out != "ok" {
		r.violate("sync-"+strings.SplitN(out, ":", 2)[0], what+": "+out)
		return false
	}
	return true
}

// Exec executes one op line.
func (r *C15Run) Exec(line string) error {
	r.ops = append(r.ops, line)
	w := strings.Fields(line)
	if len(w) == 0 {
		return nil
	}
	switch w[0] {
	case "world":
		if len(w) != 2 {
			return fmt.Errorf("bad line %q", line)
		}
		r.cur = w[1]
		r.worlds[r.cur] = &WorldDef{}
	case "ns", "pod", "pol":
		wd := r.worlds[r.cur]
		if wd == nil {
			return fmt.Errorf("%q outside a world", line)
		}
		if _, err := ParseLine(line, &wd.C, &wd.PS); err != nil {
			return err
		}
	case "lset":
		if len(w) != 4 {
			return fmt.Errorf("bad line %q", line)
		}
		sets := r.sb.Ips.Dump()
		var es []string
		if w[3] != "-" {
			for _, e := range strings.Split(w[3], ",") {
				es = append(es, strings.ReplaceAll(e, "+", " "))
			}
		}
		sets[w[1]] = nf.SetDump{Type: w[2], Entries: es}
		r.sb.Ips.Load(sets)
		r.foreign = r.takeDump().Foreign().Canon()
	case "lchain", "lrule":
		if len(w) < 2 {
			return fmt.Errorf("bad line %q", line)
		}
		t := r.sb.Ipt.Dump("filter")
		if w[0] == "lchain" {
			if _, ok := t[w[1]]; !ok {
				t[w[1]] = nil
			}
		} else {
			t[w[1]] = append(t[w[1]], nf.Normalize(w[2:]))
		}
		r.sb.Ipt.Load("filter", t)
		r.foreign = r.takeDump().Foreign().Canon()
	case "drift":
		var seed int64
		if len(w) != 2 {
			return fmt.Errorf("bad line %q", line)
		}
		fmt.Sscanf(w[1], "%d", &seed)
		r.drift(seed)
		r.rep.Hit("op:drift")
	case "sadd", "sdel":
		if len(w) < 3 {
			return fmt.Errorf("bad line %q", line)
		}
		if err := r.sedit(w[0] == "sadd", w[1], strings.Join(w[2:], " ")); err != nil {
			return err
		}
		r.rep.Hit("op:" + w[0])
	case "fault":
		if len(w) != 4 || w[1] != "ipset-create" {
			return fmt.Errorf("bad line %q", line)
		}
		n := 0
		fmt.Sscanf(w[3], "%d", &n)
		match := w[2]
		if match == "*" {
			match = ""
		}
		r.sb.Fault.Arm(match, n)
		r.rep.Hit("op:fault:ipset-create")
	case "restart":
		r.m = NewFreshManager(r.sb.Backend, LocalNode)
	case "fullsync":
		if len(w) != 2 {
			return fmt.Errorf("bad line %q", line)
		}
		wd, err := r.setWorld(w[1])
		if err != nil {
			return err
		}
		prior := r.takeDump()
		if len(prior.Owned().Sets) > 0 || len(prior.Owned().Chains) > 2 {
			r.Nontriv = true
		}
		r.lastPrior = prior
		hits0 := r.sb.Fault.Hits
		if !r.guard("fullsync "+w[1], func() { r.m.FullSync() }) {
			return nil
		}
		sub, all := r.newFailures()
		if r.sb.Fault.Hits > hits0 {
			// an injected `ipset create` failure aborted syncRules half way (map order): no model step for it; what is
			// submitted during this run is still judged (on the unchanged tree syncRules aborts BEFORE submitting rules)
			r.rep.Hit("fullsync-with-injected-ipset-create-failure")
			r.classifyFailures("fullsync "+w[1]+" (one ipset create failed)", all, true)
			r.judgeHookDels("fullsync "+w[1], wd)
		} else {
			r.classifyFailures("fullsync "+w[1], all, false)
			r.judgeHookDels("fullsync "+w[1], wd)
			r.drvSync(prior, wd, "fullsync", r.takeDump(), sub)
		}
		r.synced = w[1]
		r.rep.Hit("op:fullsync")
	case "ev":
		if len(w) < 4 {
			return fmt.Errorf("bad line %q", line)
		}
		wd, err := r.setWorld(w[2])
		if err != nil {
			return err
		}
		nsname := strings.SplitN(w[3], "/", 2)
		if len(nsname) != 2 {
			return fmt.Errorf("bad line %q", line)
		}
		if len(w) >= 6 && strings.HasPrefix(w[5], "#") {
			r.rep.Hit("update:" + w[5][1:])
		}
		old := wd
		if len(w) >= 5 {
			if old = r.worlds[w[4]]; old == nil {
				return fmt.Errorf("unknown world in %q", line)
			}
		}
		findPol := func(d *WorldDef) *NetPol {
			for i := range d.PS {
				if d.PS[i].NS == nsname[0] && d.PS[i].Name == nsname[1] {
					return &d.PS[i]
				}
			}
			return nil
		}
		findPod := func(d *WorldDef) *Pod {
			for i := range d.C.Pods {
				if d.C.Pods[i].NS == nsname[0] && d.C.Pods[i].Name == nsname[1] {
					return &d.C.Pods[i]
				}
			}
			return nil
		}
		if w[1] == "addpol" || ((w[1] == "updpol" || w[1] == "delpol") && len(wd.PS) > 0) {
			r.m.SeenPolicy = true // AddPolicy / syncNetworkPolices start the pod informer factory
		}
		prior := r.takeDump()
		okRun := true
		var steps []string
		switch w[1] {
		case "addpol", "updpol":
			np, op := findPol(wd), findPol(old)
			if np == nil {
				return fmt.Errorf("policy of %q not found", line)
			}
			if op == nil {
				op = np
			}
			okRun = r.guard(line, func() {
				if w[1] == "addpol" {
					r.m.PM.AddPolicy(np.K8s())
				} else {
					r.m.PM.UpdatePolicy(op.K8s(), np.K8s())
				}
			})
			steps = []string{"syncrules", "syncpods"}
		case "delpol":
			op := findPol(old)
			if op == nil {
				return fmt.Errorf("policy of %q not found", line)
			}
			okRun = r.guard(line, func() { r.m.PM.DeletePolicy(op.K8s()) })
			steps = []string{"syncpods", "syncrules"}
		case "updpod":
			np, op := findPod(wd), findPod(old)
			if np == nil {
				return fmt.Errorf("pod of %q not found", line)
			}
			if op == nil {
				op = np
			}
			okRun = r.guard(line, func() { r.m.PM.UpdatePod(op.K8s(), np.K8s()) })
		case "delpod":
			op := findPod(old)
			if op == nil {
				return fmt.Errorf("pod of %q not found", line)
			}
			okRun = r.guard(line, func() { r.m.PM.DeletePod(op.K8s()) })
		default:
			return fmt.Errorf("bad event kind in %q", line)
		}
		if !okRun {
			return nil
		}
		sub, all := r.newFailures()
		r.classifyFailures(line, all, false)
		r.judgeHookDels(line, wd)
		if steps != nil {
			// policy event handlers are compositions of the two sync steps: correspondence of the composition
			r.drvSync(prior, wd, "sync "+strings.Join(steps, " "), r.takeDump(), sub)
		}
		r.rep.Hit("op:ev:" + w[1])
	case "check":
		if len(w) != 2 {
			return fmt.Errorf("bad line %q", line)
		}
		return r.check(w[1])
	default:
		return fmt.Errorf("bad line %q", line)
	}
	return nil
}

// foreignBase is recorded by the generator-independent rule "what was foreign before the first sync": the runner
// snapshots it lazily at the first fullsync / event.
func (r *C15Run) check(w string) error {
	wd := r.worlds[w]
	if wd == nil {
		return fmt.Errorf("unknown world %q", w)
	}
	if r.synced != w {
		return fmt.Errorf("check %s without a preceding fullsync %s", w, w)
	}
	got := r.takeDump()
	// ---- clause 1: exactly what a sync from an EMPTY kernel installs (independent of the Lean model)
	fresh := NewStrictBackend()
	fm := NewFreshManager(fresh.Backend, LocalNode)
	fm.World.Set(&wd.C, wd.PS)
	fm.FullSync()
	SetNodeName(LocalNode)
	want, err := TakeDump(fresh.Backend)
	if err != nil {
		return err
	}
	exact := got.Owned().Canon() == want.Owned().Canon()
	d13Before, d17Before := r.Sigs["stale-pod-chain-not-collected"], r.Sigs["stale-policy-chain-referenced-sync-fails"]
	if !exact {
		r.classifyInexact(w, wd, got.Owned(), want.Owned())
	} else {
		r.rep.Hit("check:exact")
	}
	// ---- the flow verdicts of the final rules vs those of the from-scratch rules (walk in Lean over both dumps)
	if !r.NoDriver {
		attr := ""
		switch {
		case r.Sigs["stale-policy-chain-referenced-sync-fails"] > d17Before || r.d17:
			attr = "stale-policy-chain-referenced-sync-fails"
		case r.Sigs["stale-pod-chain-not-collected"] > d13Before:
			attr = "stale-pod-chain-not-collected"
		}
		flows := Flows(&wd.C, wd.PS)
		if len(flows) > 240 {
			step := len(flows)/240 + 1
			var fs []Flow
			for i := 0; i < len(flows); i += step {
				fs = append(fs, flows[i])
			}
			flows = fs
		}
		r.drv = append(r.drv, worldLines(wd)...)
		r.drv = append(r.drv, got.DriverLines()...)
		i0 := len(r.drv)
		for _, f := range flows {
			r.drv = append(r.drv, f.Line())
		}
		r.drv = append(r.drv, want.DriverLines()...)
		j0 := len(r.drv)
		for _, f := range flows {
			r.drv = append(r.drv, f.Line())
		}
		r.verdicts = append(r.verdicts, verdictPair{i0, j0, len(flows), attr, w})
	}
	// ---- clause 2: synchronising again changes nothing
	if !r.guard("second fullsync "+w, func() { r.m.FullSync() }) {
		return nil
	}
	_, all := r.newFailures()
	r.classifyFailures("second fullsync "+w, all, false)
	r.judgeHookDels("second fullsync "+w, wd)
	again := r.takeDump()
	if again.Canon() != got.Canon() {
		// only sets that lost an option-changed entry differ, and the second sync restored exactly those entries?
		d21 := r.Sigs["entry-option-change-deletes-entry"] > 0
		if d21 {
			fixed := *got
			fixed.Sets = map[string]SetDump{}
			for n, sd := range got.Sets {
				fixed.Sets[n] = sd
			}
			for n, ws := range want.Sets {
				if g, ok := got.Sets[n]; ok && optionChanged(r.lastPrior, n, g, ws) {
					fixed.Sets[n] = again.Sets[n]
				}
			}
			d21 = fixed.Canon() == again.Canon()
		}
		switch {
		case d21:
			r.violate("entry-option-change-deletes-entry", "a second full sync changes the state: it re-adds the entries the "+
				"first one deleted after their options changed")
		case r.d17:
			r.violate("stale-policy-chain-referenced-sync-fails", "a second full sync changes the state: the first one "+
				"had not converged because its policy batch failed: "+diffHint(got.Canon(), again.Canon(), true)+" -> "+
				diffHint(got.Canon(), again.Canon(), false))
		default:
			r.violate("not-idempotent", "a second full sync changes the state: "+diffHint(got.Canon(), again.Canon(), true)+
				" -> "+diffHint(got.Canon(), again.Canon(), false))
		}
	} else {
		r.rep.Hit("check:idempotent")
	}
	r.d17 = false
	return nil
}

func entryKeyOf(e string) string {
	if i := strings.IndexByte(e, ' '); i >= 0 {
		return e[:i]
	}
	return e
}

// optionChanged: set n lacks a wanted entry whose KEY was in the prior state with other options (createIPSet adds
// it with -exist = replaces, then its stale-entry cleanup deletes it by key).
func optionChanged(prior *Dump, n string, have, want SetDump) bool {
	if prior == nil {
		return false
	}
	p, ok := prior.Sets[n]
	if !ok {
		return false
	}
	haveSet := map[string]bool{}
	for _, e := range have.Entries {
		haveSet[e] = true
	}
	found := false
	for _, e := range want.Entries {
		if haveSet[e] {
			continue
		}
		hit := false
		for _, o := range p.Entries {
			if o != e && entryKeyOf(o) == entryKeyOf(e) {
				hit = true
			}
		}
		if !hit {
			return false
		}
		found = true
	}
	// nothing else may differ
	wantSet := map[string]bool{}
	for _, e := range want.Entries {
		wantSet[e] = true
	}
	for _, e := range have.Entries {
		if !wantSet[e] {
			return false
		}
	}
	return found
}

// classifyInexact names the kind of leftover / missing piece.
func (r *C15Run) classifyInexact(w string, wd *WorldDef, got, want *Dump) {
	local := map[string]*Pod{} // pod chain name -> pod (local pods of the world)
	for i := range wd.C.Pods {
		q := &wd.C.Pods[i]
		if q.Node == LocalNode {
			local["GLX-POD-"+q.Hash()] = q
		}
	}
	explained := true
	note := func(sig, what string) { r.violate(sig, "after fullsync "+w+": "+what) }
	for n := range got.Sets {
		if _, ok := want.Sets[n]; !ok {
			explained = false
			if r.d17 {
				note("stale-policy-chain-referenced-sync-fails", "ipset "+n+" is stale but still referenced by the stale policy chain the failed batch did not delete")
			} else {
				note("stale-set-not-destroyed", "ipset "+n+" is not derived from the current policies")
			}
		}
	}
	for n, s := range want.Sets {
		g, ok := got.Sets[n]
		if !ok || g.Type != s.Type || strings.Join(g.Entries, ",") != strings.Join(s.Entries, ",") {
			explained = false
			if ok && g.Type == s.Type && optionChanged(r.lastPrior, n, g, s) {
				note("entry-option-change-deletes-entry", fmt.Sprintf("ipset %s lost an entry whose options changed (have %v want %v): "+
					"createIPSet re-adds it with -exist and then deletes it by key as stale", n, g.Entries, s.Entries))
			} else if r.d17 {
				note("stale-policy-chain-referenced-sync-fails", "ipset "+n+" differs after the failed policy batch")
			} else {
				note("set-differs", fmt.Sprintf("ipset %s: have %v want %v", n, g, s))
			}
		}
	}
	for n, rs := range got.Chains {
		wrs, ok := want.Chains[n]
		same := ok && len(rs) == len(wrs)
		if same && (n == "GLX-INGRESS" || n == "GLX-EGRESS") {
			same = got.chainCanon(n) == want.chainCanon(n)
		} else if same {
			same = got.chainCanon(n) == want.chainCanon(n)
		}
		if same {
			continue
		}
		switch {
		case strings.HasPrefix(n, "GLX-POD-") && !ok:
			if _, isLocal := local[n]; !isLocal {
				note("stale-pod-chain-not-collected", "chain "+n+" belongs to no pod of this node any more (vanished / moved pod) and is never removed")
			} else {
				note("pod-chain-not-removed", "chain "+n+" of a pod no policy selects is still there")
			}
		case n == "GLX-INGRESS" || n == "GLX-EGRESS":
			// leftover hooks: of vanished pods / old addresses, or consequences of D17
			// a leftover hook is D13 only if it belongs to no pod of this node any more, or carries an address the
			// pod no longer has; a leftover hook of a current pod with its current address is something else
			stale, other := false, false
			wantSet := map[string]bool{}
			for _, x := range wrs {
				wantSet[strings.Join(x, " ")] = true
			}
			for _, x := range rs {
				if wantSet[strings.Join(x, " ")] {
					continue
				}
				q, isLocal := local[x[len(x)-1]]
				if len(x) >= 2 && isLocal && q.HasIP && x[1] == IPStr(q.IP)+"/32" {
					other = true
				} else {
					stale = true
				}
			}
			if other && r.d17 {
				note("stale-policy-chain-referenced-sync-fails", "hook rules of "+n+" not updated: the pod-chain batch failed after the failed policy batch")
			} else if other {
				note("hook-not-removed", "hook rule of a current pod that should not be hooked in "+n+": "+got.chainCanon(n)+" vs "+want.chainCanon(n))
			}
			if stale {
				note("stale-pod-chain-not-collected", "hook rules in "+n+" of pods that vanished or changed address are never removed: "+
					got.chainCanon(n)+" vs "+want.chainCanon(n))
			} else if r.d17 {
				note("stale-policy-chain-referenced-sync-fails", "hook rules missing in "+n+" after the failed batches")
			} else {
				note("hooks-missing", n+": "+got.chainCanon(n)+" vs "+want.chainCanon(n))
			}
		case r.d17:
			note("stale-policy-chain-referenced-sync-fails", "chain "+n+" not as compiled after the failed policy batch")
		case strings.HasPrefix(n, "GLX-PLCY-") && !ok:
			note("stale-policy-chain-not-deleted", "chain "+n+" belongs to no current policy")
		default:
			note("chain-differs", "chain "+n+": "+got.chainCanon(n)+" vs "+want.chainCanon(n))
		}
	}
	for n := range want.Chains {
		if _, ok := got.Chains[n]; !ok {
			if r.d17 {
				note("stale-policy-chain-referenced-sync-fails", "chain "+n+" missing after the failed policy batch")
			} else {
				note("chain-missing", "chain "+n+" missing")
			}
		}
	}
	_ = explained
}

func (d *Dump) chainCanon(n string) string {
	rules := make([]string, len(d.Chains[n]))
	for j, r := range d.Chains[n] {
		rules[j] = strings.Join(r, " ")
	}
	if unorderedChain(n) {
		sort.Strings(rules)
	}
	return strings.Join(rules, "|")
}

// Finish checks clause 3 (frame) against the foreign baseline, then runs the queued driver lines.
func (r *C15Run) Finish() {
	if fb := r.takeDump().Foreign().Canon(); fb != r.foreign {
		r.violate("foreign-modified", "chains / rules / sets galaxy does not own were modified: "+
			diffHint(r.foreign, fb, true)+" -> "+diffHint(r.foreign, fb, false))
	} else {
		r.rep.Hit("check:frame")
	}
	if (len(r.expect) == 0 && len(r.verdicts) == 0) || r.NoDriver {
		return
	}
	out, err := r.e.RunDriver("policy", r.drv)
	if err != nil {
		r.rep.Disagree = append(r.rep.Disagree, hx.Disagreement{Where: "driver", Model: err.Error(), Replay: r.replay("")})
		return
	}
	r.rep.Traces++
	for _, ex := range r.expect {
		if out[ex.idx] != ex.want {
			r.rep.Disagree = append(r.rep.Disagree, hx.Disagreement{Where: "sync step: real post-state vs model (" + ex.where + ")",
				Index: ex.idx, Impl: firstDiff(ex.want, out[ex.idx], true), Model: firstDiff(ex.want, out[ex.idx], false),
				Replay: r.replay("")})
			return
		}
	}
	for _, vp := range r.verdicts {
		diff := 0
		first := ""
		for x := 0; x < vp.n; x++ {
			a, b := parseKV(out[vp.i+x]), parseKV(out[vp.j+x])
			if a == nil || b == nil {
				continue
			}
			if a["real"] != b["real"] {
				diff++
				if first == "" {
					first = r.drv[vp.i+x] + ": " + a["real"] + " vs from-scratch " + b["real"]
				}
			}
		}
		r.rep.Histogram["verdicts-compared-with-from-scratch"] += vp.n
		if diff == 0 {
			continue
		}
		r.rep.Histogram["verdicts-differing-from-scratch"] += diff
		if vp.attr != "" {
			r.violate(vp.attr, fmt.Sprintf("after fullsync %s the leftovers change flow verdicts: %s", vp.world, first))
		} else {
			r.violate("verdict-differs-from-scratch", fmt.Sprintf("after fullsync %s: %s", vp.world, first))
		}
	}
	for i, l := range out {
		if l == "bad-op" || l == "unparsed" {
			r.rep.Disagree = append(r.rep.Disagree, hx.Disagreement{Where: "driver-line", Index: i, Impl: r.drv[i], Model: l,
				Replay: r.replay("")})
			return
		}
	}
}

func firstDiff(a, b string, first bool) string {
	if i := strings.Index(a, "] "); i > 0 {
		if j := strings.Index(b, "] "); j > 0 && a[:i] != b[:j] {
			if first {
				return clip(a[:i+1])
			}
			return clip(b[:j+1])
		}
	}
	return diffHint(a, b, first)
}

// Ops returns the op lines executed so far.
func (r *C15Run) Ops() []string { return r.ops }

// ---------- generator of histories

// mutate derives world B from world A.
func mutateWorld(rg *rand.Rand, a *WorldDef) *WorldDef {
	b := &WorldDef{C: Cluster{Node: a.C.Node}}
	b.C.NSs = append(b.C.NSs, a.C.NSs...)
	for _, p := range a.C.Pods {
		switch n := rg.Intn(100); {
		case n < 15: // pod vanished
			continue
		case n < 25 && p.HasIP: // address changed
			p.IP += 100
		case n < 32:
			if p.Node == LocalNode {
				p.Node = RemoteNode
			} else {
				p.Node = LocalNode
			}
		case n < 42:
			l := Labels{}
			for k, v := range p.Labels {
				l[k] = v
			}
			l["app"] = pick(rg, appVals)
			p.Labels = l
		}
		b.C.Pods = append(b.C.Pods, p)
	}
	if rg.Intn(3) == 0 && len(b.C.Pods) < 6 {
		nsi := rg.Intn(len(b.C.NSs))
		i := 7 + rg.Intn(3)
		b.C.Pods = append(b.C.Pods, Pod{NS: b.C.NSs[nsi].Name, Name: fmt.Sprintf("n%d", i), Node: LocalNode, HasIP: true,
			IP: mustIP(fmt.Sprintf("10.0.%d.%d", nsi+1, 50+i)), Labels: Labels{"app": pick(rg, appVals)}})
	}
	fresh, _ := GenCase(rg, false)
	_ = fresh
	dropAll := rg.Intn(8) == 0 // every policy is gone (with `restart`: the fresh process sees no NetworkPolicy at all)
	for _, p := range a.PS {
		if dropAll {
			continue
		}
		switch n := rg.Intn(100); {
		case n < 25: // policy deleted
			continue
		case n < 45: // policy changed
			q := genPolicyLike(rg, a, p.NS, p.Name)
			b.PS = append(b.PS, q)
			continue
		case n < 55: // an except of an ipBlock becomes the block itself (same set entry, other options)
			q := p
			q.Ingress = exceptToBlock(p.Ingress)
			q.Egress = exceptToBlock(p.Egress)
			b.PS = append(b.PS, q)
			continue
		}
		b.PS = append(b.PS, p)
	}
	for n := rg.Intn(3); n > 0 && len(b.PS) < 4 && !dropAll; n-- {
		b.PS = append(b.PS, genPolicyLike(rg, a, pick(rg, a.C.NSs).Name, fmt.Sprintf("new%d", len(b.PS))))
	}
	// a pod that had an address (and possibly chains) is seen again WITHOUT one - a re-created replica that has not
	// been given its address yet - and no policy of the new world selects it: its old chains must go all the same
	for i := range b.C.Pods {
		q := &b.C.Pods[i]
		if !q.HasIP || q.Node != LocalNode || rg.Intn(100) >= 20 {
			continue
		}
		selected := false
		for j := range b.PS {
			if b.PS[j].Selects(q) {
				selected = true
			}
		}
		if !selected {
			q.HasIP, q.IP = false, 0
		}
	}
	return b
}

func exceptToBlock(rs []Rule) []Rule {
	out := make([]Rule, len(rs))
	for i, r := range rs {
		nr := Rule{Ports: r.Ports}
		for _, pe := range r.Peers {
			if pe.Kind == "ip" && len(pe.Except) > 0 {
				pe = Peer{Kind: "ip", Block: pe.Except[0]}
			}
			nr.Peers = append(nr.Peers, pe)
		}
		out[i] = nr
	}
	return out
}

func genPolicyLike(rg *rand.Rand, a *WorldDef, ns, name string) NetPol {
	p := NetPol{NS: ns, Name: name, PodSel: genSelector(rg, false)}
	p.Types = pick(rg, []string{"", "", "I", "I", "E", "E", "IE", "IE"})
	for n := rg.Intn(3); n > 0; n-- {
		p.Ingress = append(p.Ingress, genRuleC15(rg))
	}
	for n := rg.Intn(3); n > 0; n-- {
		p.Egress = append(p.Egress, genRuleC15(rg))
	}
	return p
}

// genRuleC15: like genRule, but a rule never puts the same network into its hash:net set twice with different
// options (cidr of one ipBlock = except of another): such sets flip on every sync (documented in the report).
func genRuleC15(rg *rand.Rand) Rule {
	for {
		r := genRule(rg, false)
		keys := map[string]string{}
		ok := true
		for _, p := range r.Peers {
			if p.Kind != "ip" {
				continue
			}
			add := func(c Cidr, opt string) {
				k := Cidr{c.Net & mask(c.Len), c.Len}.String()
				if o, seen := keys[k]; seen && o != opt {
					ok = false
				}
				keys[k] = opt
			}
			add(p.Block, "")
			for _, e := range p.Except {
				add(e, "nomatch")
			}
		}
		if ok {
			return r
		}
	}
}

// GenHistory produces the op lines of one history.
func GenHistory(rg *rand.Rand) []string {
	var ops []string
	c, ps := GenCase(rg, false)
	for i := range ps {
		ps[i] = genPolicyLike(rg, nil, ps[i].NS, ps[i].Name)
	}
	a := &WorldDef{C: *c, PS: ps}
	if rg.Intn(3) == 0 {
		SubstringNames(rg, a)
	}
	b := mutateWorld(rg, a)
	emitWorld := func(name string, w *WorldDef) {
		ops = append(ops, "world "+name)
		for _, n := range w.C.NSs {
			ops = append(ops, n.Line())
		}
		for _, p := range w.C.Pods {
			ops = append(ops, p.Line())
		}
		for _, p := range w.PS {
			ops = append(ops, p.Line())
		}
	}
	emitWorld("A", a)
	emitWorld("B", b)
	// ---- prior state
	prior := rg.Intn(4) // 0 empty, 1 output of A, 2 + junk, 3 + junk + foreign
	if rg.Intn(3) == 0 || prior == 3 {
		// foreign rules / chains / sets (never galaxy's)
		ops = append(ops, "lchain KUBE-FORWARD", "lrule KUBE-FORWARD -m conntrack --ctstate RELATED,ESTABLISHED -j ACCEPT",
			"lrule KUBE-FORWARD -s 10.0.0.0/8 -j ACCEPT", "lrule FORWARD -m comment --comment kubernetes -j KUBE-FORWARD",
			"lrule INPUT -p tcp -s 192.168.0.0/16 -j ACCEPT", "lset KUBE-CLUSTER-IP hash:ip 10.96.0.1,10.96.0.10",
			"lchain DOCKER-USER", "lrule DOCKER-USER -j RETURN", "lrule OUTPUT -d 169.254.0.0/16 -j DROP")
		if rg.Intn(2) == 0 {
			ops = append(ops, "lrule FORWARD -m set --match-set KUBE-CLUSTER-IP dst -j ACCEPT")
		}
	}
	if prior >= 1 {
		ops = append(ops, "fullsync A")
		if rg.Intn(2) == 0 {
			ops = append(ops, "check A")
		}
	}
	if prior >= 2 {
		// junk with galaxy names: stale sets, a stale policy chain (unreferenced), leftovers of a vanished pod
		ops = append(ops, "lset GLX-ip-JUNKJUNKJUNKJUNK hash:ip 10.9.9.9", "lset GLX-snet-0-JUNKJUNKJUNKJUNK hash:net 10.9.0.0/16,10.9.1.0/24+nomatch",
			"lchain GLX-PLCY-JUNKJUNKJUNKJUNK", "lrule GLX-PLCY-JUNKJUNKJUNKJUNK -m comment --comment junk_ns -p all -m set --match-set GLX-ip-JUNKJUNKJUNKJUNK src -m set --match-set GLX-ip-JUNKJUNKJUNKJUNK dst -j ACCEPT")
		if rg.Intn(2) == 0 {
			ops = append(ops, "lchain GLX-INGRESS", "lchain GLX-POD-GONEGONEGONEGONE", "lrule GLX-POD-GONEGONEGONEGONE -m comment --comment gone_ns1 -j DROP",
				"lrule GLX-INGRESS -d 10.0.9.9/32 -m comment --comment gone_ns1 -j GLX-POD-GONEGONEGONEGONE")
		}
	}
	// ---- UPDATE transitions on the live manager (no restart, no pod moves): a third of the histories
	if rg.Intn(3) == 0 {
		if prior == 0 {
			ops = append(ops, "fullsync A")
		}
		worlds, steps := GenUpdates(rg, a)
		if len(worlds) > 0 {
			ops = append(ops, UpdateOps("A", worlds, steps)...)
			last := fmt.Sprintf("U%d", len(worlds))
			if rg.Intn(5) == 0 {
				ops = append(ops, "fault ipset-create * 1", "fullsync "+last)
			}
			ops = append(ops, "fullsync "+last, "check "+last)
			return ops
		}
	}
	// ---- drift: the same process, the same desired state A, the kernel moved away from it in between
	if rg.Intn(4) == 0 {
		if prior == 0 {
			ops = append(ops, "fullsync A")
		}
		ops = append(ops, DriftOps(rg, a, emitWorld)...)
		ops = append(ops, "fullsync A", "check A")
		return ops
	}
	// ---- from A to B
	switch rg.Intn(3) {
	case 0: // galaxy restarted: missed all events
		ops = append(ops, "restart", "fullsync B", "check B")
	case 1: // same manager, periodic resync only
		ops = append(ops, "fullsync B", "check B")
	default: // events, one object at a time, then the periodic resync (events follow a state synced to A)
		if prior == 0 {
			ops = append(ops, "fullsync A")
		}
		ops = append(ops, eventOps(rg, a, b)...)
		ops = append(ops, "fullsync B", "check B")
	}
	return ops
}

// eventOps emits intermediate worlds E1, E2, … changing one object at a time from A to B, with the event each
// change produces.
func eventOps(rg *rand.Rand, a, b *WorldDef) []string {
	var ops []string
	cur := &WorldDef{C: Cluster{Node: a.C.Node, NSs: a.C.NSs, Pods: append([]Pod{}, a.C.Pods...)}, PS: append([]NetPol{}, a.PS...)}
	step := 0
	prevName := "A"
	emit := func(kind, key string) {
		step++
		name := fmt.Sprintf("E%d", step)
		ops = append(ops, "world "+name)
		for _, n := range cur.C.NSs {
			ops = append(ops, n.Line())
		}
		for _, p := range cur.C.Pods {
			ops = append(ops, p.Line())
		}
		for _, p := range cur.PS {
			ops = append(ops, p.Line())
		}
		ops = append(ops, fmt.Sprintf("ev %s %s %s %s", kind, name, key, prevName))
		prevName = name
	}
	type change struct {
		kind, key string
		apply     func()
	}
	var changes []change
	podKey := func(p Pod) string { return p.NS + "/" + p.Name }
	polKey := func(p NetPol) string { return p.NS + "/" + p.Name }
	bPods := map[string]Pod{}
	for _, p := range b.C.Pods {
		bPods[podKey(p)] = p
	}
	aPods := map[string]bool{}
	for _, p := range a.C.Pods {
		p := p
		aPods[podKey(p)] = true
		if q, ok := bPods[podKey(p)]; !ok {
			changes = append(changes, change{"delpod", podKey(p), func() {
				var keep []Pod
				for _, x := range cur.C.Pods {
					if podKey(x) != podKey(p) {
						keep = append(keep, x)
					}
				}
				cur.C.Pods = keep
			}})
		} else if q.Line() != p.Line() {
			changes = append(changes, change{"updpod", podKey(p), func() {
				for i := range cur.C.Pods {
					if podKey(cur.C.Pods[i]) == podKey(p) {
						cur.C.Pods[i] = q
					}
				}
			}})
		}
	}
	for _, q := range b.C.Pods {
		q := q
		if !aPods[podKey(q)] {
			// a new pod shows up: informer Add (no-op in galaxy) followed by the Update that carries node and address
			changes = append(changes, change{"updpod", podKey(q), func() { cur.C.Pods = append(cur.C.Pods, q) }})
		}
	}
	bPols := map[string]NetPol{}
	for _, p := range b.PS {
		bPols[polKey(p)] = p
	}
	aPols := map[string]bool{}
	for _, p := range a.PS {
		p := p
		aPols[polKey(p)] = true
		if q, ok := bPols[polKey(p)]; !ok {
			changes = append(changes, change{"delpol", polKey(p), func() {
				var keep []NetPol
				for _, x := range cur.PS {
					if polKey(x) != polKey(p) {
						keep = append(keep, x)
					}
				}
				cur.PS = keep
			}})
		} else if q.Line() != p.Line() {
			changes = append(changes, change{"updpol", polKey(p), func() {
				for i := range cur.PS {
					if polKey(cur.PS[i]) == polKey(p) {
						cur.PS[i] = q
					}
				}
			}})
		}
	}
	for _, q := range b.PS {
		q := q
		if !aPols[polKey(q)] {
			changes = append(changes, change{"addpol", polKey(q), func() { cur.PS = append(cur.PS, q) }})
		}
	}
	rg.Shuffle(len(changes), func(i, j int) { changes[i], changes[j] = changes[j], changes[i] })
	for _, ch := range changes {
		ch.apply()
		emit(ch.kind, ch.key)
	}
	return ops
}
