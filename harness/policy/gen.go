package policy

import (
	"fmt"
	"math/rand"
	"sort"
)

// Generators (DESIGN Appendix D/E for C15/C16): <= 3 namespaces x <= 6 pods x <= 4 policies, labels / selectors /
// ipBlocks from small palettes so that selection, cross-namespace matches, excepts and port overlaps all occur.

const (
	LocalNode  = "node1"
	RemoteNode = "node2"
)

var (
	HostIP   = mustIP("172.16.0.1")
	External = []uint32{mustIP("192.168.1.10"), mustIP("8.8.8.8"), mustIP("10.0.1.200")}
)

func mustIP(s string) uint32 {
	a, err := ParseIP(s)
	if err != nil {
		panic(err)
	}
	return a
}

func mustCidr(s string) Cidr {
	c, err := ParseCidr(s)
	if err != nil {
		panic(err)
	}
	return c
}

var blockPalette = []string{"10.0.0.0/16", "10.0.1.0/24", "10.0.2.0/24", "10.0.0.0/8", "192.168.0.0/16",
	"10.0.1.2/31", "10.0.1.1/32", "8.8.8.0/24", "10.0.1.77/24", "10.0.0.0/15", "128.0.0.0/1", "10.0.1.128/25"}

var appVals = []string{"a", "b", "c"}

func pick[T any](r *rand.Rand, xs []T) T { return xs[r.Intn(len(xs))] }

func genSelector(r *rand.Rand, forNS bool) Selector {
	var s Selector
	key, vals := "app", appVals
	if forNS {
		key, vals = "team", []string{"x", "y"}
	}
	switch n := r.Intn(100); {
	case n < 25: // empty selector
	case n < 65:
		s.Match = [][2]string{{key, pick(r, vals)}}
	case n < 75:
		s.Exprs = []Expr{{key, "in", []string{pick(r, vals), pick(r, vals)}}}
	case n < 83:
		s.Exprs = []Expr{{key, "notin", []string{pick(r, vals)}}}
	case n < 89:
		s.Exprs = []Expr{{"tier", "exists", nil}}
	case n < 94:
		s.Exprs = []Expr{{"tier", "absent", nil}}
	default:
		s.Match = [][2]string{{key, pick(r, vals)}}
		s.Exprs = []Expr{{"tier", "exists", nil}}
	}
	if forNS && r.Intn(4) == 0 {
		s = Selector{Match: [][2]string{{"name", fmt.Sprintf("ns%d", 1+r.Intn(3))}}}
	}
	return s
}

func genBlock(r *rand.Rand) Peer {
	p := Peer{Kind: "ip", Block: mustCidr(pick(r, blockPalette))}
	for n := r.Intn(3); n > 0; n-- {
		e := mustCidr(pick(r, blockPalette))
		// mostly well-formed: except strictly inside the block; sometimes arbitrary (boundary stream)
		if (e.Len > p.Block.Len && p.Block.Contains(e.Net)) || r.Intn(8) == 0 {
			if e.Len >= 1 {
				p.Except = append(p.Except, e)
			}
		}
	}
	return p
}

func genPeer(r *rand.Rand) Peer {
	switch n := r.Intn(100); {
	case n < 30:
		return Peer{Kind: "pod", PodSel: genSelector(r, false)}
	case n < 55:
		return Peer{Kind: "ns", NSSel: genSelector(r, true)}
	case n < 70:
		return Peer{Kind: "both", NSSel: genSelector(r, true), PodSel: genSelector(r, false)}
	default:
		return genBlock(r)
	}
}

// ManyPorts enables rules with more than 15 ports of one protocol (split over several iptables rules since 8f04d5f).
var ManyPorts = false

var portPalette = []Port{{"tcp", 80, true}, {"tcp", 81, true}, {"udp", 53, true}, {"tcp", 443, true},
	{"udp", 80, true}, {"tcp", 8080, true}}

func genRule(r *rand.Rand, tame bool) Rule {
	var ru Rule
	np := r.Intn(4)
	if tame && np == 0 {
		np = 1
	}
	if !tame && r.Intn(100) < 15 {
		np = 0
	}
	for i := 0; i < np; i++ {
		p := genPeer(r)
		ru.Peers = append(ru.Peers, p)
	}
	if tame {
		// excepts strictly narrower than their own cidr (whether the other conditions of the fragment hold — pod
		// selectors matching only where the API looks, excepts disjoint from the other ipBlocks — is decided per case by
		// `inFragment`; about half of the tame cases are inside)
		for i := range ru.Peers {
			var ex []Cidr
			for _, e := range ru.Peers[i].Except {
				if e.Len > ru.Peers[i].Block.Len {
					ex = append(ex, e)
				}
			}
			ru.Peers[i].Except = ex
		}
	}
	if ManyPorts && r.Intn(100) < 5 {
		// more ports than one multiport match takes: 16-40 of one protocol, sometimes with a few of the other one
		proto := pick(r, []string{"tcp", "udp"})
		for i, n := 0, 16+r.Intn(25); i < n; i++ {
			ru.Ports = append(ru.Ports, Port{proto, 1000 + 7*i, true})
		}
		if r.Intn(2) == 0 {
			other := "udp"
			if proto == "udp" {
				other = "tcp"
			}
			for i, n := 0, 1+r.Intn(17); i < n; i++ {
				ru.Ports = append(ru.Ports, Port{other, 3000 + 3*i, true})
			}
		}
		return ru
	}
	if r.Intn(100) >= 40 {
		for n := 1 + r.Intn(3); n > 0; n-- {
			pt := pick(r, portPalette)
			if !tame && r.Intn(100) < 15 {
				pt = Port{Proto: pt.Proto}
			}
			ru.Ports = append(ru.Ports, pt)
		}
	}
	return ru
}

// GenCase generates a cluster and a policy set.  tame=true stays inside the fragment of `enforces_k8s_partial`
// (modulo the per-flow conditions), so that the in-fragment equality is exercised on many flows.
func GenCase(r *rand.Rand, tame bool) (*Cluster, []NetPol) {
	c := &Cluster{Node: LocalNode}
	nns := 1 + r.Intn(3)
	for i := 1; i <= nns; i++ {
		n := Namespace{Name: fmt.Sprintf("ns%d", i), Labels: Labels{"name": fmt.Sprintf("ns%d", i)}}
		if r.Intn(3) > 0 {
			n.Labels["team"] = pick(r, []string{"x", "y"})
		}
		c.NSs = append(c.NSs, n)
	}
	npods := r.Intn(7)
	for i := 0; i < npods; i++ {
		nsi := r.Intn(nns)
		p := Pod{NS: c.NSs[nsi].Name, Name: fmt.Sprintf("p%d", i), Node: LocalNode, Labels: Labels{}}
		if r.Intn(100) < 35 {
			p.Node = RemoteNode
		}
		if r.Intn(100) >= 8 {
			p.HasIP, p.IP = true, mustIP(fmt.Sprintf("10.0.%d.%d", nsi+1, i+1))
		}
		if r.Intn(10) > 0 {
			p.Labels["app"] = pick(r, appVals)
		}
		if r.Intn(3) == 0 {
			p.Labels["tier"] = pick(r, []string{"fe", "be"})
		}
		c.Pods = append(c.Pods, p)
	}
	var ps []NetPol
	npol := r.Intn(5)
	for i := 0; i < npol; i++ {
		p := NetPol{NS: c.NSs[r.Intn(nns)].Name, Name: fmt.Sprintf("pol%d", i), PodSel: genSelector(r, false)}
		if tame {
			p.Types = pick(r, []string{"I", "E", "I", ""})
		} else {
			p.Types = pick(r, []string{"", "", "I", "I", "E", "E", "IE", "IE", "EI"})
		}
		for n := r.Intn(4); n > 0; n-- {
			p.Ingress = append(p.Ingress, genRule(r, tame))
		}
		if !(tame && p.Types == "") {
			for n := r.Intn(4); n > 0; n-- {
				p.Egress = append(p.Egress, genRule(r, tame))
			}
		}
		ps = append(ps, p)
	}
	return c, ps
}

// Flows: all ordered pairs among pod addresses + 3 external addresses + the host itself, x {tcp,udp} x the ports
// mentioned in the policies and their neighbours (capped).
func Flows(c *Cluster, ps []NetPol) []Flow {
	addrs := []uint32{}
	seen := map[uint32]bool{}
	crowd := 0
	for _, p := range c.Pods {
		if _, ok := p.Labels[CrowdLabel]; ok {
			// the members of a crowd are alike: two of them stand for all
			if crowd++; crowd > 2 {
				continue
			}
		}
		if p.HasIP && !seen[p.IP] {
			seen[p.IP] = true
			addrs = append(addrs, p.IP)
		}
	}
	for _, a := range append(append([]uint32{}, External...), HostIP) {
		if !seen[a] {
			seen[a] = true
			addrs = append(addrs, a)
		}
	}
	portSet := map[int]bool{}
	for _, p := range ps {
		for _, rs := range [][]Rule{p.Ingress, p.Egress} {
			for _, r := range rs {
				for _, pt := range r.Ports {
					if pt.HasPort {
						portSet[pt.Port] = true
					}
				}
			}
		}
	}
	var mentioned []int
	for p := range portSet {
		mentioned = append(mentioned, p)
	}
	sort.Ints(mentioned)
	ports := []int{}
	add := func(p int) {
		for _, q := range ports {
			if q == p {
				return
			}
		}
		if p >= 0 && p <= 65535 && len(ports) < 7 {
			ports = append(ports, p)
		}
	}
	if len(mentioned) > 5 {
		// long port lists: first, 15th, 16th, 17th, last and a neighbour (what a chunking of the list could lose)
		for _, i := range []int{0, 14, 15, 16, len(mentioned) - 1} {
			if i < len(mentioned) {
				add(mentioned[i])
			}
		}
		add(mentioned[len(mentioned)-1] + 1)
	}
	for _, p := range mentioned {
		add(p)
	}
	for _, p := range mentioned {
		add(p + 1)
		add(p - 1)
	}
	add(80)
	var out []Flow
	for _, s := range addrs {
		for _, d := range addrs {
			if s == d {
				continue
			}
			hook := "FORWARD"
			if s == HostIP {
				hook = "OUTPUT"
			} else if d == HostIP {
				hook = "INPUT"
			}
			for _, pr := range []string{"tcp", "udp"} {
				for _, dp := range ports {
					out = append(out, Flow{hook, pr, s, d, dp})
				}
			}
		}
	}
	return out
}

// CrowdLabel marks the pods of a "crowd": 3..15 pods matched by one selector that several rules use as their FIRST
// peer, each rule followed by different further peers (rules of one policy or of several policies, ingress or egress).
// What the rules share must stay shared VALUES: every rule's set holds the crowd plus its own further peers.
const CrowdLabel = "grp"

// GenCrowdCase: a cluster with a crowd and 2-3 rules sharing their first podSelector peer.
func GenCrowdCase(r *rand.Rand, tame bool) (*Cluster, []NetPol) {
	c, ps := GenCase(r, tame)
	polNS := pick(r, c.NSs).Name
	nsIdx := func(name string) int {
		for i, n := range c.NSs {
			if n.Name == name {
				return i
			}
		}
		return 0
	}
	ipOf := func(ns string, host int) uint32 { return mustIP(fmt.Sprintf("10.0.%d.%d", nsIdx(ns)+1, host)) }
	// the crowd: sizes with spare capacity in an append-grown slice (3, 5-7, 9-15) and without (4, 8)
	k := pick(r, []int{3, 3, 5, 6, 7, 9, 10, 12, 15, 4, 8})
	for j := 0; j < k; j++ {
		ns := polNS
		if !tame && r.Intn(4) == 0 {
			ns = pick(r, c.NSs).Name
		}
		c.Pods = append(c.Pods, Pod{NS: ns, Name: fmt.Sprintf("g%d", j), Node: RemoteNode, HasIP: true, IP: ipOf(ns, 100+j),
			Labels: Labels{CrowdLabel: "g1"}})
	}
	// a selected pod on this node and one pod per further pod-selector peer
	c.Pods = append(c.Pods, Pod{NS: polNS, Name: "t0", Node: LocalNode, HasIP: true, IP: ipOf(polNS, 90), Labels: Labels{"role": "target"}})
	for j, app := range appVals {
		c.Pods = append(c.Pods, Pod{NS: polNS, Name: "q" + app, Node: RemoteNode, HasIP: true, IP: ipOf(polNS, 80+j), Labels: Labels{"app": app}})
	}
	first := Peer{Kind: "pod", PodSel: Selector{Match: [][2]string{{CrowdLabel, "g1"}}}}
	var extras []Peer
	for _, app := range appVals {
		extras = append(extras, Peer{Kind: "pod", PodSel: Selector{Match: [][2]string{{"app", app}}}})
	}
	for _, n := range c.NSs {
		extras = append(extras, Peer{Kind: "ns", NSSel: Selector{Match: [][2]string{{"name", n.Name}}}})
	}
	if !tame {
		extras = append(extras, Peer{Kind: "ns", NSSel: Selector{Match: [][2]string{{"team", "x"}}}})
	}
	r.Shuffle(len(extras), func(i, j int) { extras[i], extras[j] = extras[j], extras[i] })
	nrules := 2 + r.Intn(2)
	var rules []Rule
	for i := 0; i < nrules && i < len(extras); i++ {
		ru := Rule{Peers: []Peer{first, extras[i]}, Ports: []Port{{"tcp", 9000 + i, true}}}
		if r.Intn(3) == 0 && nrules+i < len(extras) {
			ru.Peers = append(ru.Peers, extras[nrules+i])
		}
		rules = append(rules, ru)
	}
	sel := Selector{Match: [][2]string{{"role", "target"}}}
	egress := !tame && r.Intn(3) == 0
	mk := func(name string, rs []Rule) NetPol {
		p := NetPol{NS: polNS, Name: name, PodSel: sel, Types: "I", Ingress: rs}
		if egress {
			p.Types, p.Ingress, p.Egress = "E", nil, rs
		}
		return p
	}
	// crowd policies come first / last / in the middle of the list: the shared selector is resolved by whoever is first
	var crowd []NetPol
	if r.Intn(2) == 0 {
		crowd = []NetPol{mk("crowd", rules)}
	} else {
		crowd = []NetPol{mk("crowd0", rules[:1]), mk("crowd1", rules[1:])}
	}
	if tame {
		// keep the case inside the proved fragment: the other policies must not isolate t0 in the other direction
		ps = nil
	}
	at := 0
	if len(ps) > 0 {
		at = r.Intn(len(ps) + 1)
	}
	out := append([]NetPol{}, ps[:at]...)
	out = append(out, crowd...)
	out = append(out, ps[at:]...)
	return c, out
}
