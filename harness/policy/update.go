package policy

import (
	"fmt"
	"math/rand"
	"strings"
	"sync"
	"time"

	"gxverif/hx"

	"tkestack.io/galaxy/pkg/utils/ipset"
)

// ======================================================================================================
// UPDATE transitions on a LIVE manager (used by the C16 and the C15 monitors): the manager has synced state A, then
// objects change one at a time (policy updated so that only the option of a set member changes, an except added /
// removed, a peer moved between cidr and except, a pod relabelled so that it enters / leaves target and peer sets,
// policies deleted down to zero), each change delivered through the real event handler; finally the periodic full
// sync.  The final sets / rules and the flow verdicts are compared with a from-scratch compile of the final state.
// ======================================================================================================

// FaultIPS wraps an ipset handle: CreateSet fails for the next N calls whose set name contains Match ("" = any).
type FaultIPS struct {
	ipset.Interface
	mu    sync.Mutex
	Match string
	N     int
	Hits  int
}

func (f *FaultIPS) CreateSet(set *ipset.IPSet, ignoreExistErr bool) error {
	f.mu.Lock()
	if f.N > 0 && strings.Contains(set.Name, f.Match) {
		f.N--
		f.Hits++
		f.mu.Unlock()
		return fmt.Errorf("injected: ipset v7.x: Kernel error received: Cannot allocate memory")
	}
	f.mu.Unlock()
	return f.Interface.CreateSet(set, ignoreExistErr)
}

func (f *FaultIPS) Arm(match string, n int) {
	f.mu.Lock()
	f.Match, f.N = match, n
	f.mu.Unlock()
}

// ---------- targeted update mutations of one policy

var exceptPalette = map[string][]string{
	"10.0.0.0/16": {"10.0.1.0/24", "10.0.2.0/24", "10.0.1.128/25"}, "10.0.0.0/8": {"10.0.0.0/16", "10.0.1.0/24", "10.0.0.0/15"},
	"10.0.1.0/24": {"10.0.1.128/25", "10.0.1.2/31", "10.0.1.1/32"}, "192.168.0.0/16": {"192.168.1.0/24"},
	"10.0.0.0/15": {"10.0.0.0/16", "10.0.1.0/24"}, "128.0.0.0/1": {"192.168.0.0/16"},
}

// mutateRuleBlocks applies one of: except->cidr (option of an existing member changes), cidr->except of a sibling
// (peer moved into an except), except added, except removed.  Returns false if the rule offers no opportunity.
func mutateRuleBlocks(rg *rand.Rand, r *Rule, kind int) bool {
	var ips []int
	for i, p := range r.Peers {
		if p.Kind == "ip" {
			ips = append(ips, i)
		}
	}
	if len(ips) == 0 {
		return false
	}
	i := ips[rg.Intn(len(ips))]
	p := &r.Peers[i]
	switch kind {
	case 0: // an except becomes the cidr of the same rule (same set member, option nomatch goes away)
		if len(p.Except) == 0 {
			return false
		}
		*p = Peer{Kind: "ip", Block: p.Except[rg.Intn(len(p.Except))]}
	case 1: // the cidr of one ipBlock becomes an except of another one (member gains the option nomatch)
		if len(ips) < 2 {
			return false
		}
		j := ips[(rg.Intn(len(ips)-1)+1+indexOf(ips, i))%len(ips)]
		if j == i || r.Peers[i].Block.Len <= r.Peers[j].Block.Len || !r.Peers[j].Block.Contains(r.Peers[i].Block.Net) {
			return false
		}
		moved := r.Peers[i].Block
		r.Peers[j].Except = append(append([]Cidr{}, r.Peers[j].Except...), moved)
		r.Peers = append(append([]Peer{}, r.Peers[:i]...), r.Peers[i+1:]...)
	case 2: // an except is added
		cands := exceptPalette[p.Block.String()]
		if len(cands) == 0 {
			return false
		}
		e := mustCidr(cands[rg.Intn(len(cands))])
		for _, x := range p.Except {
			if x == e {
				return false
			}
		}
		p.Except = append(append([]Cidr{}, p.Except...), e)
	default: // an except is removed
		if len(p.Except) == 0 {
			return false
		}
		k := rg.Intn(len(p.Except))
		p.Except = append(append([]Cidr{}, p.Except[:k]...), p.Except[k+1:]...)
	}
	return true
}

func indexOf(xs []int, v int) int {
	for i, x := range xs {
		if x == v {
			return i
		}
	}
	return 0
}

func cloneRules(rs []Rule) []Rule {
	out := make([]Rule, len(rs))
	for i, r := range rs {
		out[i] = Rule{Peers: append([]Peer{}, r.Peers...), Ports: append([]Port{}, r.Ports...)}
		for j := range out[i].Peers {
			out[i].Peers[j].Except = append([]Cidr{}, out[i].Peers[j].Except...)
		}
	}
	return out
}

// rulesKeyClash: would a rule put one network into its hash:net set with two different options?
func rulesKeyClash(rs []Rule) bool {
	for _, r := range rs {
		keys := map[string]string{}
		for _, p := range r.Peers {
			if p.Kind != "ip" {
				continue
			}
			all := append([]Cidr{p.Block}, p.Except...)
			for n, c := range all {
				k := Cidr{c.Net & mask(c.Len), c.Len}.String()
				opt := ""
				if n > 0 {
					opt = "nomatch"
				}
				if o, seen := keys[k]; seen && o != opt {
					return true
				}
				keys[k] = opt
			}
		}
	}
	return false
}

// KeyClash: does some rule of some policy list one network both as cidr and as except?
func KeyClash(ps []NetPol) bool {
	for _, p := range ps {
		if rulesKeyClash(p.Ingress) || rulesKeyClash(p.Egress) {
			return true
		}
	}
	return false
}

// UpdateStep is one object change with the event it produces.
type UpdateStep struct {
	Kind string // updpol delpol addpol updpod
	Key  string // ns/name
	Hit  string // what the step exercises (histogram)
}

// GenUpdates derives a sequence of worlds from a: every step changes ONE object (pods keep node and address: no
// D13 trigger; policies are deleted through their event: no D17 trigger).  The last world is the final state.
func GenUpdates(rg *rand.Rand, a *WorldDef) ([]*WorldDef, []UpdateStep) {
	cur := &WorldDef{C: Cluster{Node: a.C.Node, NSs: a.C.NSs, Pods: append([]Pod{}, a.C.Pods...)}, PS: append([]NetPol{}, a.PS...)}
	var worlds []*WorldDef
	var steps []UpdateStep
	snap := func(st UpdateStep) {
		w := &WorldDef{C: Cluster{Node: cur.C.Node, NSs: cur.C.NSs, Pods: append([]Pod{}, cur.C.Pods...)}, PS: append([]NetPol{}, cur.PS...)}
		worlds = append(worlds, w)
		steps = append(steps, st)
	}
	deleteAll := rg.Intn(5) == 0
	n := 2 + rg.Intn(4)
	for s := 0; s < n; s++ {
		switch k := rg.Intn(10); {
		case k < 5 && len(cur.PS) > 0: // ipBlock surgery on one policy
			i := rg.Intn(len(cur.PS))
			p := cur.PS[i]
			p.Ingress, p.Egress = cloneRules(p.Ingress), cloneRules(p.Egress)
			kind := rg.Intn(4)
			done := false
			for _, rs := range [][]Rule{p.Ingress, p.Egress} {
				for j := range rs {
					if !done && mutateRuleBlocks(rg, &rs[j], kind) {
						done = true
					}
				}
			}
			if !done || rulesKeyClash(p.Ingress) || rulesKeyClash(p.Egress) {
				continue
			}
			cur.PS[i] = p
			snap(UpdateStep{"updpol", p.NS + "/" + p.Name, []string{"except-to-cidr", "cidr-to-except", "except-added", "except-removed"}[kind]})
		case k < 8 && len(cur.C.Pods) > 0: // relabel a running pod
			i := rg.Intn(len(cur.C.Pods))
			p := cur.C.Pods[i]
			l := Labels{}
			for kk, v := range p.Labels {
				l[kk] = v
			}
			old := l["app"]
			l["app"] = pick(rg, appVals)
			if l["app"] == old {
				if rg.Intn(2) == 0 {
					delete(l, "app")
				} else {
					l["tier"] = "fe"
				}
			}
			p.Labels = l
			cur.C.Pods[i] = p
			snap(UpdateStep{"updpod", p.NS + "/" + p.Name, "pod-relabelled"})
		case k < 9 && len(cur.PS) > 0: // a policy goes away
			i := rg.Intn(len(cur.PS))
			p := cur.PS[i]
			cur.PS = append(append([]NetPol{}, cur.PS[:i]...), cur.PS[i+1:]...)
			snap(UpdateStep{"delpol", p.NS + "/" + p.Name, "policy-deleted"})
		default: // whole-rule replacement of one policy
			if len(cur.PS) == 0 {
				continue
			}
			i := rg.Intn(len(cur.PS))
			q := genPolicyLike(rg, nil, cur.PS[i].NS, cur.PS[i].Name)
			cur.PS[i] = q
			snap(UpdateStep{"updpol", q.NS + "/" + q.Name, "policy-rewritten"})
		}
	}
	if deleteAll {
		for len(cur.PS) > 0 {
			p := cur.PS[0]
			cur.PS = append([]NetPol{}, cur.PS[1:]...)
			hit := "policy-deleted"
			if len(cur.PS) == 0 {
				hit = "last-policy-deleted"
			}
			snap(UpdateStep{"delpol", p.NS + "/" + p.Name, hit})
		}
	}
	return worlds, steps
}

// UpdateOps renders worlds / steps as C15 history ops (worlds U1, U2, …), starting from world `from`.
func UpdateOps(from string, worlds []*WorldDef, steps []UpdateStep) []string {
	var ops []string
	prev := from
	for i, w := range worlds {
		name := fmt.Sprintf("U%d", i+1)
		ops = append(ops, "world "+name)
		for _, n := range w.C.NSs {
			ops = append(ops, n.Line())
		}
		for _, p := range w.C.Pods {
			ops = append(ops, p.Line())
		}
		for _, p := range w.PS {
			ops = append(ops, p.Line())
		}
		ops = append(ops, fmt.Sprintf("ev %s %s %s %s #%s", steps[i].Kind, name, steps[i].Key, prev, steps[i].Hit))
		prev = name
	}
	return ops
}

// ---------- the C16 update scenario

// GenUpdateHistory renders an update scenario as a history (the C15 op language; `check` = final comparison).
func GenUpdateHistory(rg *rand.Rand, c *Cluster, ps []NetPol) []string {
	for _, p := range ps {
		// the strict ipset keeps ONE element per key: a rule that lists a network both as cidr and as except is
		// outside the compared fragment (the set flips on every sync; see report)
		if rulesKeyClash(p.Ingress) || rulesKeyClash(p.Egress) {
			return nil
		}
	}
	a := &WorldDef{C: *c, PS: ps}
	worlds, steps := GenUpdates(rg, a)
	if len(worlds) == 0 {
		return nil
	}
	hist := []string{"world A"}
	for _, n := range a.C.NSs {
		hist = append(hist, n.Line())
	}
	for _, p := range a.C.Pods {
		hist = append(hist, p.Line())
	}
	for _, p := range a.PS {
		hist = append(hist, p.Line())
	}
	hist = append(hist, "fullsync A")
	hist = append(hist, UpdateOps("A", worlds, steps)...)
	last := fmt.Sprintf("U%d", len(worlds))
	if rg.Intn(6) == 0 {
		hist = append(hist, "fault ipset-create * 1", "fullsync "+last)
	}
	return append(hist, "fullsync "+last, "check "+last)
}

// staleOnly: the event state differs from the from-scratch state only by extra set members that are addresses of
// pods relabelled since the last resync.
func staleOnly(got, want *Dump, staleIPs map[string]bool) bool {
	g, w := got.Owned(), want.Owned()
	gc, wc := *g, *w
	gc.Sets, wc.Sets = map[string]SetDump{}, map[string]SetDump{}
	if gc.Canon() != wc.Canon() { // chains
		return false
	}
	if len(g.Sets) != len(w.Sets) {
		return false
	}
	for n, ws := range w.Sets {
		gs, ok := g.Sets[n]
		if !ok || gs.Type != ws.Type {
			return false
		}
		have := map[string]bool{}
		for _, e := range gs.Entries {
			have[e] = true
		}
		wantSet := map[string]bool{}
		for _, e := range ws.Entries {
			wantSet[e] = true
			if !have[e] {
				return false
			}
		}
		for _, e := range gs.Entries {
			if !wantSet[e] && !staleIPs[e] {
				return false
			}
		}
	}
	return true
}

// RunC16History interprets a history on a live manager over the strict fakes.  After EVERY event the kernel state
// is judged as it is (before any periodic sync): all flows are walked on the real dump and compared with a
// from-scratch compile of the current cluster (Batch.AddEvent).  `check W` compares the galaxy-owned final state with
// a from-scratch sync of W and queues the final dump for the walk / API comparison (Batch.AddDump).
// `flow` lines, if any, replace the generated flow set.
func RunC16History(e *hx.Env, rep *hx.Report, bt *Batch, name string, hist []string) ([]*CaseResult, error) {
	var results []*CaseResult
	worlds := map[string]*WorldDef{}
	cur := ""
	var fixedFlows []Flow
	for _, l := range hist {
		if strings.HasPrefix(l, "flow ") {
			var c Cluster
			var ps []NetPol
			f, err := ParseLine(l, &c, &ps)
			if err != nil {
				return nil, err
			}
			fixedFlows = append(fixedFlows, *f)
		}
	}
	flowsOf := func(w *WorldDef) []Flow {
		if fixedFlows != nil {
			return fixedFlows
		}
		return Flows(&w.C, w.PS)
	}
	sb := NewStrictBackend()
	m := NewFreshManager(sb.Backend, LocalNode)
	staleIPs := map[string]bool{}
	violate := func(sig, what string) {
		rep.Hit("violation:" + sig)
		if Seen[sig] {
			return
		}
		Seen[sig] = true
		rep.Violations = append(rep.Violations, hx.Violation{Signature: sig, What: what,
			Replay: e.WriteReplay("C16", "history", name+"-"+sig, nil, hist)})
	}
	fresh := func(w *WorldDef) (*Dump, error) {
		fb := NewStrictBackend()
		fm := NewFreshManager(fb.Backend, LocalNode)
		fm.World.Set(&w.C, w.PS)
		fm.FullSync()
		return TakeDump(fb.Backend)
	}
	nEv := 0
	for _, line := range hist {
		w := strings.Fields(line)
		if len(w) == 0 {
			continue
		}
		switch w[0] {
		case "world":
			cur = w[1]
			worlds[cur] = &WorldDef{C: Cluster{Node: LocalNode}}
		case "ns", "pod", "pol":
			wd := worlds[cur]
			if wd == nil {
				return results, fmt.Errorf("%q outside a world", line)
			}
			if _, err := ParseLine(line, &wd.C, &wd.PS); err != nil {
				return results, err
			}
		case "flow":
		case "fault":
			n := 0
			fmt.Sscanf(w[3], "%d", &n)
			match := w[2]
			if match == "*" {
				match = ""
			}
			sb.Fault.Arm(match, n)
			rep.Hit("update:ipset-create-fault-armed")
		case "fullsync":
			wd := worlds[w[1]]
			if wd == nil {
				return results, fmt.Errorf("unknown world in %q", line)
			}
			wd.C.Node = LocalNode
			m.World.Set(&wd.C, wd.PS)
			if out := hx.Guard(30*time.Second, func() { m.FullSync() }); out != "ok" {
				violate("update-sync-"+strings.SplitN(out, ":", 2)[0], line+": "+out)
				return results, nil
			}
			staleIPs = map[string]bool{}
		case "ev":
			if len(w) < 5 {
				return results, fmt.Errorf("bad line %q", line)
			}
			wd, old := worlds[w[2]], worlds[w[4]]
			if wd == nil || old == nil {
				return results, fmt.Errorf("unknown world in %q", line)
			}
			wd.C.Node = LocalNode
			st := UpdateStep{Kind: w[1], Key: w[3]}
			if len(w) >= 6 && strings.HasPrefix(w[5], "#") {
				rep.Hit("update:" + w[5][1:])
			}
			m.World.Set(&wd.C, wd.PS)
			if out := hx.Guard(30*time.Second, func() { deliver(m, st, old, wd) }); out != "ok" {
				violate("update-sync-"+strings.SplitN(out, ":", 2)[0], line+": "+out)
				return results, nil
			}
			if st.Kind == "updpod" {
				nsname := strings.SplitN(st.Key, "/", 2)
				for i := range old.C.Pods {
					q := &old.C.Pods[i]
					if q.NS == nsname[0] && q.Name == nsname[1] && q.HasIP {
						staleIPs[IPStr(q.IP)] = true
						roleHits(rep, old, wd, q)
					}
				}
			} else {
				staleIPs = map[string]bool{} // the policy handlers recompute every set
			}
			got, err := TakeDump(sb.Backend)
			if err != nil {
				return results, err
			}
			want, err := fresh(wd)
			if err != nil {
				return results, err
			}
			so := staleOnly(got, want, staleIPs)
			switch {
			case got.Owned().Canon() == want.Owned().Canon():
				rep.Hit("event-state:equals-from-scratch")
			case so:
				rep.Hit("event-state:stale-members-only")
			default:
				rep.Hit("event-state:differs-otherwise")
			}
			nEv++
			flows := flowsOf(wd)
			if fixedFlows == nil && len(flows) > 400 {
				step := len(flows)/400 + 1
				var fs []Flow
				for i := 0; i < len(flows); i += step {
					fs = append(fs, flows[i])
				}
				flows = fs
			}
			results = append(results, bt.AddEvent(fmt.Sprintf("%s-e%d", name, nEv), &wd.C, wd.PS, flows, got, so, hist))
		case "check":
			wd := worlds[w[1]]
			if wd == nil {
				return results, fmt.Errorf("unknown world in %q", line)
			}
			got, err := TakeDump(sb.Backend)
			if err != nil {
				return results, err
			}
			want, err := fresh(wd)
			if err != nil {
				return results, err
			}
			if got.Owned().Canon() != want.Owned().Canon() {
				violate("update-state-differs-from-scratch", "after the update transitions and the periodic full sync the galaxy-owned "+
					"sets / chains differ from a from-scratch sync of the final state: "+
					diffHint(got.Owned().Canon(), want.Owned().Canon(), true)+" vs "+diffHint(got.Owned().Canon(), want.Owned().Canon(), false))
			} else {
				rep.Hit("update:final-state-equals-from-scratch")
			}
			results = append(results, bt.AddDump(name, &wd.C, wd.PS, flowsOf(wd), got, want.Canon(), hist))
		default:
			return results, fmt.Errorf("bad line %q", line)
		}
	}
	return results, nil
}

// roleHits records in which role a relabelled running pod changes: policy target / allowed peer, entering / leaving.
func roleHits(rep *hx.Report, old, cur *WorldDef, q *Pod) {
	var nq *Pod
	for i := range cur.C.Pods {
		if cur.C.Pods[i].NS == q.NS && cur.C.Pods[i].Name == q.Name {
			nq = &cur.C.Pods[i]
		}
	}
	if nq == nil {
		return
	}
	for i := range cur.PS {
		p := &cur.PS[i]
		a, b := p.Selects(q), p.Selects(nq)
		if !a && b {
			rep.Hit("relabel:enters-target-set")
		}
		if a && !b {
			rep.Hit("relabel:leaves-target-set")
		}
		for _, rs := range [][]Rule{p.Ingress, p.Egress} {
			for _, r := range rs {
				for _, pe := range r.Peers {
					if pe.Kind != "pod" && pe.Kind != "both" {
						continue
					}
					x, y := matchSel(pe.PodSel, q.Labels), matchSel(pe.PodSel, nq.Labels)
					if !x && y {
						rep.Hit("relabel:enters-peer-set")
					}
					if x && !y {
						rep.Hit("relabel:leaves-peer-set")
					}
				}
			}
		}
	}
}

func deliver(m *Manager, st UpdateStep, prev, cur *WorldDef) {
	if st.Kind == "addpol" || ((st.Kind == "updpol" || st.Kind == "delpol") && len(cur.PS) > 0) {
		m.SeenPolicy = true // AddPolicy / syncNetworkPolices start the pod informer factory
	}
	nsname := strings.SplitN(st.Key, "/", 2)
	findPol := func(d *WorldDef) *NetPol {
		for i := range d.PS {
			if d.PS[i].NS == nsname[0] && d.PS[i].Name == nsname[1] {
				return &d.PS[i]
			}
		}
		return nil
	}
	findPod := func(d *WorldDef) *Pod {
		for i := range d.C.Pods {
			if d.C.Pods[i].NS == nsname[0] && d.C.Pods[i].Name == nsname[1] {
				return &d.C.Pods[i]
			}
		}
		return nil
	}
	switch st.Kind {
	case "updpol":
		m.PM.UpdatePolicy(findPol(prev).K8s(), findPol(cur).K8s())
	case "addpol":
		m.PM.AddPolicy(findPol(cur).K8s())
	case "delpol":
		m.PM.DeletePolicy(findPol(prev).K8s())
	case "updpod":
		op, np := findPod(prev), findPod(cur)
		if op == nil {
			op = np
		}
		m.PM.UpdatePod(op.K8s(), np.K8s())
	}
}
