package policy

import (
	"fmt"
	"math/rand"
	"strings"
	"sync"
	"time"

	"gxverif/hx"

	"tkestack.io/galaxy/pkg/utils/ipset"
)

// ======================================================================================================
// UPDATE transitions on a LIVE manager (used by the C16 and the C15 monitors): the manager has synced state A, then
// objects change one at a time (policy updated so that only the option of a set member changes, an except added /
// removed, a peer moved between cidr and except, a pod relabelled so that it enters / leaves target and peer sets,
// policies deleted down to zero), each change delivered through the real event handler; finally the periodic full
// sync.  The final sets / rules and the flow verdicts are compared with a from-scratch compile of the final state.
// ======================================================================================================

// FaultIPS wraps an ipset handle: CreateSet fails for the next N calls whose set name contains Match ("" = any).
type FaultIPS struct {
	ipset.Interface
	mu    sync.Mutex
	Match string
	N     int
	Hits  int
}

func (f *FaultIPS) CreateSet(set *ipset.IPSet, ignoreExistErr bool) error {
	f.mu.Lock()
	if f.N > 0 && strings.Contains(set.Name, f.Match) {
		f.N--
		f.Hits++
		f.mu.Unlock()
		return fmt.Errorf("injected: ipset v7.x: Kernel error received: Cannot allocate memory")
	}
	f.mu.Unlock()
	return f.Interface.CreateSet(set, ignoreExistErr)
}

func (f *FaultIPS) Arm(match string, n int) {
	f.mu.Lock()
	f.Match, f.N = match, n
	f.mu.Unlock()
}

// ---------- targeted update mutations of one policy

var exceptPalette = map[string][]string{
	"10.0.0.0/16": {"10.0.1.0/24", "10.0.2.0/24", "10.0.1.128/25"}, "10.0.0.0/8": {"10.0.0.0/16", "10.0.1.0/24", "10.0.0.0/15"},
	"10.0.1.0/24": {"10.0.1.128/25", "10.0.1.2/31", "10.0.1.1/32"}, "192.168.0.0/16": {"192.168.1.0/24"},
	"10.0.0.0/15": {"10.0.0.0/16", "10.0.1.0/24"}, "128.0.0.0/1": {"192.168.0.0/16"},
}

// mutateRuleBlocks applies one of: except->cidr (option of an existing member changes), cidr->except of a sibling
// (peer moved into an except), except added, except removed.  Returns false if the rule offers no opportunity.
func mutateRuleBlocks(rg *rand.Rand, r *Rule, kind int) bool {
	var ips []int
	for i, p := range r.Peers {
		if p.Kind == "ip" {
			ips = append(ips, i)
		}
	}
	if len(ips) == 0 {
		return false
	}
	i := ips[rg.Intn(len(ips))]
	p := &r.Peers[i]
	switch kind {
	case 0: // an except becomes the cidr of the same rule (same set member, option nomatch goes away)
		if len(p.Except) == 0 {
			return false
		}
		*p = Peer{Kind: "ip", Block: p.Except[rg.Intn(len(p.Except))]}
	case 1: // the cidr of one ipBlock becomes an except of another one (member gains the option nomatch)
		if len(ips) < 2 {
			return false
		}
		j := ips[(rg.Intn(len(ips)-1)+1+indexOf(ips, i))%len(ips)]
		if j == i || r.Peers[i].Block.Len <= r.Peers[j].Block.Len || !r.Peers[j].Block.Contains(r.Peers[i].Block.Net) {
			return false
		}
		moved := r.Peers[i].Block
		r.Peers[j].Except = append(append([]Cidr{}, r.Peers[j].Except...), moved)
		r.Peers = append(append([]Peer{}, r.Peers[:i]...), r.Peers[i+1:]...)
	case 2: // an except is added
		cands := exceptPalette[p.Block.String()]
		if len(cands) == 0 {
			return false
		}
		e := mustCidr(cands[rg.Intn(len(cands))])
		for _, x := range p.Except {
			if x == e {
				return false
			}
		}
		p.Except = append(append([]Cidr{}, p.Except...), e)
	default: // an except is removed
		if len(p.Except) == 0 {
			return false
		}
		k := rg.Intn(len(p.Except))
		p.Except = append(append([]Cidr{}, p.Except[:k]...), p.Except[k+1:]...)
	}
	return true
}

func indexOf(xs []int, v int) int {
	for i, x := range xs {
		if x == v {
			return i
		}
	}
	return 0
}

func cloneRules(rs []Rule) []Rule {
	out := make([]Rule, len(rs))
	for i, r := range rs {
		out[i] = Rule{Peers: append([]Peer{}, r.Peers...), Ports: append([]Port{}, r.Ports...)}
		for j := range out[i].Peers {
			out[i].Peers[j].Except = append([]Cidr{}, out[i].Peers[j].Except...)
		}
	}
	return out
}

// rulesKeyClash: would a rule put one network into its hash:net set with two different options?
func rulesKeyClash(rs []Rule) bool {
	for _, r := range rs {
		keys := map[string]string{}
		for _, p := range r.Peers {
			if p.Kind != "ip" {
				continue
			}
			all := append([]Cidr{p.Block}, p.Except...)
			for n, c := range all {
				k := Cidr{c.Net & mask(c.Len), c.Len}.String()
				opt := ""
				if n > 0 {
					opt = "nomatch"
				}
				if o, seen := keys[k]; seen && o != opt {
					return true
				}
				keys[k] = opt
			}
		}
	}
	return false
}

// UpdateStep is one object change with the event it produces.
type UpdateStep struct {
	Kind string // updpol delpol addpol updpod
	Key  string // ns/name
	Hit  string // what the step exercises (histogram)
}

// GenUpdates derives a sequence of worlds from a: every step changes ONE object (pods keep node and address: no
// D13 trigger; policies are deleted through their event: no D17 trigger).  The last world is the final state.
func GenUpdates(rg *rand.Rand, a *WorldDef) ([]*WorldDef, []UpdateStep) {
	cur := &WorldDef{C: Cluster{Node: a.C.Node, NSs: a.C.NSs, Pods: append([]Pod{}, a.C.Pods...)}, PS: append([]NetPol{}, a.PS...)}
	var worlds []*WorldDef
	var steps []UpdateStep
	snap := func(st UpdateStep) {
		w := &WorldDef{C: Cluster{Node: cur.C.Node, NSs: cur.C.NSs, Pods: append([]Pod{}, cur.C.Pods...)}, PS: append([]NetPol{}, cur.PS...)}
		worlds = append(worlds, w)
		steps = append(steps, st)
	}
	deleteAll := rg.Intn(5) == 0
	n := 2 + rg.Intn(4)
	for s := 0; s < n; s++ {
		switch k := rg.Intn(10); {
		case k < 5 && len(cur.PS) > 0: // ipBlock surgery on one policy
			i := rg.Intn(len(cur.PS))
			p := cur.PS[i]
			p.Ingress, p.Egress = cloneRules(p.Ingress), cloneRules(p.Egress)
			kind := rg.Intn(4)
			done := false
			for _, rs := range [][]Rule{p.Ingress, p.Egress} {
				for j := range rs {
					if !done && mutateRuleBlocks(rg, &rs[j], kind) {
						done = true
					}
				}
			}
			if !done || rulesKeyClash(p.Ingress) || rulesKeyClash(p.Egress) {
				continue
			}
			cur.PS[i] = p
			snap(UpdateStep{"updpol", p.NS + "/" + p.Name, []string{"except-to-cidr", "cidr-to-except", "except-added", "except-removed"}[kind]})
		case k < 8 && len(cur.C.Pods) > 0: // relabel a running pod
			i := rg.Intn(len(cur.C.Pods))
			p := cur.C.Pods[i]
			l := Labels{}
			for kk, v := range p.Labels {
				l[kk] = v
			}
			old := l["app"]
			l["app"] = pick(rg, appVals)
			if l["app"] == old {
				if rg.Intn(2) == 0 {
					delete(l, "app")
				} else {
					l["tier"] = "fe"
				}
			}
			p.Labels = l
			cur.C.Pods[i] = p
			snap(UpdateStep{"updpod", p.NS + "/" + p.Name, "pod-relabelled"})
		case k < 9 && len(cur.PS) > 0: // a policy goes away
			i := rg.Intn(len(cur.PS))
			p := cur.PS[i]
			cur.PS = append(append([]NetPol{}, cur.PS[:i]...), cur.PS[i+1:]...)
			snap(UpdateStep{"delpol", p.NS + "/" + p.Name, "policy-deleted"})
		default: // whole-rule replacement of one policy
			if len(cur.PS) == 0 {
				continue
			}
			i := rg.Intn(len(cur.PS))
			q := genPolicyLike(rg, nil, cur.PS[i].NS, cur.PS[i].Name)
			cur.PS[i] = q
			snap(UpdateStep{"updpol", q.NS + "/" + q.Name, "policy-rewritten"})
		}
	}
	if deleteAll {
		for len(cur.PS) > 0 {
			p := cur.PS[0]
			cur.PS = append([]NetPol{}, cur.PS[1:]...)
			hit := "policy-deleted"
			if len(cur.PS) == 0 {
				hit = "last-policy-deleted"
			}
			snap(UpdateStep{"delpol", p.NS + "/" + p.Name, hit})
		}
	}
	return worlds, steps
}

// UpdateOps renders worlds / steps as C15 history ops (worlds U1, U2, …), starting from world `from`.
func UpdateOps(from string, worlds []*WorldDef, steps []UpdateStep) []string {
	var ops []string
	prev := from
	for i, w := range worlds {
		name := fmt.Sprintf("U%d", i+1)
		ops = append(ops, "world "+name)
		for _, n := range w.C.NSs {
			ops = append(ops, n.Line())
		}
		for _, p := range w.C.Pods {
			ops = append(ops, p.Line())
		}
		for _, p := range w.PS {
			ops = append(ops, p.Line())
		}
		ops = append(ops, fmt.Sprintf("ev %s %s %s %s #%s", steps[i].Kind, name, steps[i].Key, prev, steps[i].Hit))
		prev = name
	}
	return ops
}

// ---------- the C16 update scenario

// RunUpdateScenario drives a live manager over the strict fakes through: full sync of (c, ps); the update steps,
// each through its event handler; (optionally one failing `ipset create` during a sync, then a clean sync); the
// periodic full sync.  It compares the galaxy-owned part of the final kernel state with a from-scratch sync of the
// final cluster state and queues the final dump for the walk / API comparison (Batch.AddDump).
func RunUpdateScenario(e *hx.Env, rep *hx.Report, bt *Batch, name string, rg *rand.Rand, c *Cluster, ps []NetPol) *CaseResult {
	for _, p := range ps {
		// the strict ipset keeps ONE element per key: a rule that lists a network both as cidr and as except is
		// outside the compared fragment (the set flips on every sync; see report)
		if rulesKeyClash(p.Ingress) || rulesKeyClash(p.Egress) {
			return nil
		}
	}
	a := &WorldDef{C: *c, PS: ps}
	worlds, steps := GenUpdates(rg, a)
	if len(worlds) == 0 {
		return nil
	}
	final := worlds[len(worlds)-1]
	final.C.Node = c.Node
	// replay = a C15-style history (the C16 replayer accepts it through `-replay` of c15 as well)
	var hist []string
	hist = append(hist, "world A")
	for _, n := range a.C.NSs {
		hist = append(hist, n.Line())
	}
	for _, p := range a.C.Pods {
		hist = append(hist, p.Line())
	}
	for _, p := range a.PS {
		hist = append(hist, p.Line())
	}
	hist = append(hist, "fullsync A")
	hist = append(hist, UpdateOps("A", worlds, steps)...)
	lastName := fmt.Sprintf("U%d", len(worlds))
	faulty := rg.Intn(6) == 0
	if faulty {
		hist = append(hist, "fault ipset-create * 1", "fullsync "+lastName)
	}
	hist = append(hist, "fullsync "+lastName, "check "+lastName)

	sb := NewStrictBackend()
	fips := &FaultIPS{Interface: sb.Backend.Ips}
	sb.Backend.Ips = fips
	var m *Manager
	var eventsOnly, got *Dump
	out := hx.Guard(60*time.Second, func() {
		m = NewManager(sb.Backend, c.Node, nil)
		m.World.Set(&a.C, a.PS)
		m.FullSync()
		prev := a
		for i, w := range worlds {
			w.C.Node = c.Node
			m.World.Set(&w.C, w.PS)
			deliver(m, steps[i], prev, w)
			rep.Hit("update:" + steps[i].Hit)
			prev = w
		}
		eventsOnly, _ = TakeDump(sb.Backend)
		if faulty {
			fips.Arm("", 1)
			m.FullSync()
			rep.Hit("update:ipset-create-failed")
		}
		m.FullSync()
		got, _ = TakeDump(sb.Backend)
	})
	violate := func(sig, what string) {
		rep.Hit("violation:" + sig)
		if Seen[sig] {
			return
		}
		Seen[sig] = true
		rep.Violations = append(rep.Violations, hx.Violation{Signature: sig, What: what,
			Replay: e.WriteReplay("C16", "history", name+"-"+sig, []string{"replay with: harness c15 -replay <file>"}, hist)})
	}
	if out != "ok" || got == nil || eventsOnly == nil {
		violate("update-sync-"+strings.SplitN(out, ":", 2)[0], "update scenario: "+out)
		return nil
	}
	fresh := NewStrictBackend()
	fm := NewManager(fresh.Backend, c.Node, nil)
	fm.World.Set(&final.C, final.PS)
	fm.FullSync()
	want, err := TakeDump(fresh.Backend)
	if err != nil {
		violate("update-sync-dump", err.Error())
		return nil
	}
	if eventsOnly.Owned().Canon() == want.Owned().Canon() {
		rep.Hit("update:events-alone-converged")
	} else {
		rep.Hit("update:events-alone-NOT-converged(before periodic sync)")
	}
	if got.Owned().Canon() != want.Owned().Canon() {
		violate("update-state-differs-from-scratch", "after the update transitions and the periodic full sync the galaxy-owned "+
			"sets / chains differ from a from-scratch sync of the final state: "+
			diffHint(got.Owned().Canon(), want.Owned().Canon(), true)+" vs "+diffHint(got.Owned().Canon(), want.Owned().Canon(), false))
	} else {
		rep.Hit("update:final-state-equals-from-scratch")
	}
	flows := Flows(&final.C, final.PS)
	return bt.AddDump(name, &final.C, final.PS, flows, got, want.Canon(), hist)
}

func deliver(m *Manager, st UpdateStep, prev, cur *WorldDef) {
	nsname := strings.SplitN(st.Key, "/", 2)
	findPol := func(d *WorldDef) *NetPol {
		for i := range d.PS {
			if d.PS[i].NS == nsname[0] && d.PS[i].Name == nsname[1] {
				return &d.PS[i]
			}
		}
		return nil
	}
	findPod := func(d *WorldDef) *Pod {
		for i := range d.C.Pods {
			if d.C.Pods[i].NS == nsname[0] && d.C.Pods[i].Name == nsname[1] {
				return &d.C.Pods[i]
			}
		}
		return nil
	}
	switch st.Kind {
	case "updpol":
		m.PM.UpdatePolicy(findPol(prev).K8s(), findPol(cur).K8s())
	case "addpol":
		m.PM.AddPolicy(findPol(cur).K8s())
	case "delpol":
		m.PM.DeletePolicy(findPol(prev).K8s())
	case "updpod":
		m.PM.UpdatePod(findPod(prev).K8s(), findPod(cur).K8s())
	}
}
