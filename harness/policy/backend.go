package policy

import (
	"bytes"
	"fmt"
	"net"
	"sort"
	"strings"
	"sync"

	corev1 "k8s.io/api/core/v1"
	"k8s.io/apimachinery/pkg/runtime"
	"k8s.io/client-go/kubernetes"
	k8sfake "k8s.io/client-go/kubernetes/fake"
	k8stesting "k8s.io/client-go/testing"
	galaxypolicy "tkestack.io/galaxy/pkg/policy"
	"tkestack.io/galaxy/pkg/utils/ipset"
	utiliptables "tkestack.io/galaxy/pkg/utils/iptables"
)

// ---------- goroutine-safety decorators (syncPods calls SyncPodChains from one goroutine per pod; the kernel
// serialises single commands, a fake that is not locked would race)

type LockedIPT struct {
	mu sync.Mutex
	In utiliptables.Interface
}

func (l *LockedIPT) GetVersion() (string, error) {
	l.mu.Lock()
	defer l.mu.Unlock()
	return l.In.GetVersion()
}
func (l *LockedIPT) EnsureChain(t utiliptables.Table, c utiliptables.Chain) (bool, error) {
	l.mu.Lock()
	defer l.mu.Unlock()
	return l.In.EnsureChain(t, c)
}
func (l *LockedIPT) FlushChain(t utiliptables.Table, c utiliptables.Chain) error {
	l.mu.Lock()
	defer l.mu.Unlock()
	return l.In.FlushChain(t, c)
}
func (l *LockedIPT) DeleteChain(t utiliptables.Table, c utiliptables.Chain) error {
	l.mu.Lock()
	defer l.mu.Unlock()
	return l.In.DeleteChain(t, c)
}
func (l *LockedIPT) EnsureRule(p utiliptables.RulePosition, t utiliptables.Table, c utiliptables.Chain,
	args ...string) (bool, error) {
	l.mu.Lock()
	defer l.mu.Unlock()
	return l.In.EnsureRule(p, t, c, append([]string(nil), args...)...)
}
func (l *LockedIPT) DeleteRule(t utiliptables.Table, c utiliptables.Chain, args ...string) error {
	l.mu.Lock()
	defer l.mu.Unlock()
	return l.In.DeleteRule(t, c, append([]string(nil), args...)...)
}
func (l *LockedIPT) ListRule(t utiliptables.Table, c utiliptables.Chain, args ...string) ([]string, error) {
	l.mu.Lock()
	defer l.mu.Unlock()
	return l.In.ListRule(t, c, args...)
}
func (l *LockedIPT) IsIpv6() bool { return l.In.IsIpv6() }
func (l *LockedIPT) SaveInto(t utiliptables.Table, b *bytes.Buffer) error {
	l.mu.Lock()
	defer l.mu.Unlock()
	return l.In.SaveInto(t, b)
}
func (l *LockedIPT) EnsurePolicy(t utiliptables.Table, c utiliptables.Chain, p string) error {
	l.mu.Lock()
	defer l.mu.Unlock()
	return l.In.EnsurePolicy(t, c, p)
}
func (l *LockedIPT) Restore(t utiliptables.Table, d []byte, f utiliptables.FlushFlag,
	c utiliptables.RestoreCountersFlag) error {
	l.mu.Lock()
	defer l.mu.Unlock()
	return l.In.Restore(t, d, f, c)
}
func (l *LockedIPT) RestoreAll(d []byte, f utiliptables.FlushFlag, c utiliptables.RestoreCountersFlag) error {
	l.mu.Lock()
	defer l.mu.Unlock()
	return l.In.RestoreAll(d, f, c)
}

type LockedIPS struct {
	mu sync.Mutex
	In ipset.Interface
}

func (l *LockedIPS) lock() func()                { l.mu.Lock(); return l.mu.Unlock }
func (l *LockedIPS) FlushSet(s string) error     { defer l.lock()(); return l.In.FlushSet(s) }
func (l *LockedIPS) DestroySet(s string) error   { defer l.lock()(); return l.In.DestroySet(s) }
func (l *LockedIPS) DestroyAllSets() error       { defer l.lock()(); return l.In.DestroyAllSets() }
func (l *LockedIPS) GetVersion() (string, error) { defer l.lock()(); return l.In.GetVersion() }
func (l *LockedIPS) CreateSet(s *ipset.IPSet, ig bool) error {
	defer l.lock()()
	return l.In.CreateSet(s, ig)
}
func (l *LockedIPS) AddEntry(e string, s *ipset.IPSet, ig bool) error {
	defer l.lock()()
	return l.In.AddEntry(e, s, ig)
}
func (l *LockedIPS) DelEntry(e string, s string) error { defer l.lock()(); return l.In.DelEntry(e, s) }
func (l *LockedIPS) TestEntry(e string, s string) (bool, error) {
	defer l.lock()()
	return l.In.TestEntry(e, s)
}
func (l *LockedIPS) ListEntries(s string) ([]string, error) {
	defer l.lock()()
	return l.In.ListEntries(s)
}
func (l *LockedIPS) ListSets() ([]string, error) { defer l.lock()(); return l.In.ListSets() }
func (l *LockedIPS) AddEntryWithOptions(e *ipset.Entry, s *ipset.IPSet, ig bool) error {
	defer l.lock()()
	return l.In.AddEntryWithOptions(e, s, ig)
}
func (l *LockedIPS) DelEntryWithOptions(s, e string, o ...string) error {
	defer l.lock()()
	return l.In.DelEntryWithOptions(s, e, o...)
}
func (l *LockedIPS) SaveAllSets() ([]byte, error) { defer l.lock()(); return l.In.SaveAllSets() }

// ---------- the real policy manager over given handles

type Backend struct {
	Ipt utiliptables.Interface
	Ips ipset.Interface
}

type Manager struct {
	PM    *galaxypolicy.PolicyManager
	World *World
	B     Backend
	// SeenPolicy: this process has been shown a NetworkPolicy (then the daemon has started its pod informer factory)
	SeenPolicy bool
}

// NewManager builds the REAL PolicyManager (hook constructor) over the backend and harness-controlled listers.
func NewManager(b Backend, node string, client kubernetes.Interface) *Manager {
	SetNodeName(node)
	w := &World{}
	pm := galaxypolicy.VerifNew(client, b.Ips, b.Ipt, node, w.PodLister(), w.NamespaceLister(), w.PolicyLister(), true)
	return &Manager{PM: pm, World: w, B: b}
}

// NewFreshManager builds the PolicyManager the way the daemon has it at start-up: the pod informer factory is started
// (HasSynced becomes true) only once a NetworkPolicy has been seen; until then syncPods lists the pods of this node
// through the API client (a fake clientset whose pod list is served from the harness' world, spec.nodeName selector
// applied).
func NewFreshManager(b Backend, node string) *Manager {
	SetNodeName(node)
	w := &World{}
	m := &Manager{World: w, B: b}
	cs := k8sfake.NewSimpleClientset()
	cs.PrependReactor("list", "pods", func(action k8stesting.Action) (bool, runtime.Object, error) {
		la, _ := action.(k8stesting.ListAction)
		sel := ""
		if la != nil {
			sel = la.GetListRestrictions().Fields.String()
		}
		list := &corev1.PodList{}
		for _, p := range w.pods {
			if sel == "" || sel == "spec.nodeName="+p.Spec.NodeName {
				list.Items = append(list.Items, *p)
			}
		}
		return true, list, nil
	})
	m.PM = galaxypolicy.VerifNewLazy(cs, b.Ips, b.Ipt, node, w.PodLister(), w.NamespaceLister(), w.PolicyLister(),
		func() bool { return m.SeenPolicy })
	return m
}

// FullSync is PolicyManager.Run's body: policies -> policy rules -> pod chains.
func (m *Manager) FullSync() {
	if len(m.World.pols) > 0 {
		m.SeenPolicy = true
	}
	m.PM.Run()
}

// ---------- dump

type SetDump struct {
	Type    string
	Entries []string // sorted; "<member>[ <options>]"
}

type Dump struct {
	Sets   map[string]SetDump
	Chains map[string][][]string // filter table: chain -> rules, each a normalised token list
}

// Tokenize splits a rule on spaces honouring double quotes (stripped) and normalises what Appendix B says:
// `--opt=v` for --to-destination, bare IP after -s/-d -> /32.
func Tokenize(rule string) []string {
	var toks []string
	cur := strings.Builder{}
	inq, had := false, false
	flush := func() {
		if had {
			toks = append(toks, cur.String())
		}
		cur.Reset()
		had = false
	}
	for _, r := range rule {
		switch {
		case r == '"':
			inq = !inq
			had = true
		case r == ' ' && !inq:
			flush()
		default:
			cur.WriteRune(r)
			had = true
		}
	}
	flush()
	for i := range toks {
		if i > 0 && (toks[i-1] == "-s" || toks[i-1] == "-d") && net.ParseIP(toks[i]) != nil {
			toks[i] += "/32"
		}
	}
	return toks
}

// TakeDump reads the filter table and all sets through the interfaces' own save functions.
func TakeDump(b Backend) (*Dump, error) {
	d := &Dump{Sets: map[string]SetDump{}, Chains: map[string][][]string{}}
	buf := bytes.NewBuffer(nil)
	if err := b.Ipt.SaveInto(utiliptables.TableFilter, buf); err != nil {
		return nil, err
	}
	for _, line := range strings.Split(buf.String(), "\n") {
		line = strings.TrimSpace(line)
		switch {
		case strings.HasPrefix(line, ":"):
			f := strings.Fields(line[1:])
			if len(f) > 0 {
				if _, ok := d.Chains[f[0]]; !ok {
					d.Chains[f[0]] = [][]string{}
				}
			}
		case strings.HasPrefix(line, "-A "):
			t := Tokenize(line)
			if len(t) < 2 {
				return nil, fmt.Errorf("bad save line %q", line)
			}
			d.Chains[t[1]] = append(d.Chains[t[1]], t[2:])
		}
	}
	raw, err := b.Ips.SaveAllSets()
	if err != nil {
		return nil, err
	}
	var name string
	inMembers := false
	cur := SetDump{}
	fin := func() {
		if name != "" {
			sort.Strings(cur.Entries)
			d.Sets[name] = cur
		}
		name, cur, inMembers = "", SetDump{}, false
	}
	for _, line := range strings.Split(string(raw), "\n") {
		line = strings.TrimSpace(line)
		switch {
		case strings.HasPrefix(line, "Name: "):
			fin()
			name = strings.TrimPrefix(line, "Name: ")
		case strings.HasPrefix(line, "Type: "):
			cur.Type = strings.TrimPrefix(line, "Type: ")
		case line == "Members:":
			inMembers = true
		case line == "":
			inMembers = false
		case inMembers:
			cur.Entries = append(cur.Entries, line)
		}
	}
	fin()
	return d, nil
}

func unorderedChain(c string) bool { return c == "GLX-INGRESS" || c == "GLX-EGRESS" }

// Canon renders the galaxy-relevant part of a dump canonically (Appendix B): sets as name=type:[sorted entries],
// chains as name=[rule|rule] in order; the per-pod hook rules of GLX-INGRESS / GLX-EGRESS are sorted because
// syncPods installs them from concurrent goroutines (at most one of them matches a packet when pod IPs are distinct).
func (d *Dump) Canon() string {
	var sb strings.Builder
	sb.WriteString("sets{")
	names := make([]string, 0, len(d.Sets))
	for n := range d.Sets {
		names = append(names, n)
	}
	sort.Strings(names)
	for i, n := range names {
		if i > 0 {
			sb.WriteString(";")
		}
		sb.WriteString(n + "=" + d.Sets[n].Type + ":[" + strings.Join(d.Sets[n].Entries, ",") + "]")
	}
	sb.WriteString("} chains{")
	names = names[:0]
	for n := range d.Chains {
		names = append(names, n)
	}
	sort.Strings(names)
	for i, n := range names {
		if i > 0 {
			sb.WriteString(";")
		}
		rules := make([]string, len(d.Chains[n]))
		for j, r := range d.Chains[n] {
			rules[j] = strings.Join(r, " ")
		}
		if unorderedChain(n) {
			sort.Strings(rules)
		}
		sb.WriteString(n + "=[" + strings.Join(rules, "|") + "]")
	}
	sb.WriteString("}")
	return sb.String()
}

// DriverLines renders the dump as `rset` / `rchain` / `rrule` lines for the Lean driver (which parses them and
// walks the REAL rules).
func (d *Dump) DriverLines() []string {
	out := []string{"rclear"}
	names := make([]string, 0, len(d.Sets))
	for n := range d.Sets {
		names = append(names, n)
	}
	sort.Strings(names)
	for _, n := range names {
		es := make([]string, len(d.Sets[n].Entries))
		for i, e := range d.Sets[n].Entries {
			es[i] = strings.ReplaceAll(e, " ", "+")
		}
		out = append(out, "rset "+n+" "+d.Sets[n].Type+" "+dash(strings.Join(es, ",")))
	}
	names = names[:0]
	for n := range d.Chains {
		names = append(names, n)
	}
	sort.Strings(names)
	for _, n := range names {
		out = append(out, "rchain "+n)
	}
	for _, n := range names {
		for _, r := range d.Chains[n] {
			out = append(out, "rrule "+n+" "+strings.Join(r, " "))
		}
	}
	return out
}
