// Package policy is the harness side of work package "policy" (properties C16, C15): cluster / NetworkPolicy
// values in the harness' own representation, their line codec (the same lines are the Lean driver's input and the
// replay-file format), conversion to Kubernetes objects, deterministic listers, dump canonicalisation, the
// independent reference evaluator of the NetworkPolicy API semantics and the generators.
package policy

import (
	"crypto/sha256"
	"encoding/base32"
	"fmt"
	"sort"
	"strconv"
	"strings"
)

// ---------- values

type Labels map[string]string

type Expr struct {
	Key  string
	Op   string // in | notin | exists | absent
	Vals []string
}

// Selector = matchLabels + matchExpressions. Zero value = empty selector = matches everything.
type Selector struct {
	Match [][2]string // sorted by key
	Exprs []Expr
}

type Namespace struct {
	Name   string
	Labels Labels
}

type Pod struct {
	NS, Name string
	Node     string
	IP       uint32 // 0 = no IP yet
	HasIP    bool
	Labels   Labels
}

type Cidr struct {
	Net uint32
	Len int
}

// Peer kinds: "pod" (podSelector only), "ns" (namespaceSelector only), "both", "ip" (ipBlock).
type Peer struct {
	Kind   string
	NSSel  Selector
	PodSel Selector
	Block  Cidr
	Except []Cidr
}

type Port struct {
	Proto   string // tcp | udp
	Port    int
	HasPort bool
}

type Rule struct {
	Peers []Peer
	Ports []Port
}

type NetPol struct {
	NS, Name string
	PodSel   Selector
	Types    string // subset of "IE" in order given: "", "I", "E", "IE", "EI"
	Ingress  []Rule
	Egress   []Rule
}

type Cluster struct {
	Node string // this node
	NSs  []Namespace
	Pods []Pod
}

type Flow struct {
	Hook  string // FORWARD | INPUT | OUTPUT
	Proto string
	Src   uint32
	Dst   uint32
	DPort int
}

// NameHash is galaxy's nameHash / tableNameHash: sha256 -> base32 (std) -> first 16 characters.  Computed here
// independently of /repo; the factgen facts pin the algorithm and the truncation, correspondence the values.
func NameHash(s string) string {
	h := sha256.Sum256([]byte(s))
	return base32.StdEncoding.EncodeToString(h[:])[:16]
}

func (p *Pod) Hash() string    { return NameHash(p.Name + "_" + p.NS) }
func (p *NetPol) Hash() string { return NameHash(p.Name + "_" + p.NS) }

// ---------- text codec

func IPStr(a uint32) string {
	return fmt.Sprintf("%d.%d.%d.%d", a>>24, (a>>16)&255, (a>>8)&255, a&255)
}

func ParseIP(s string) (uint32, error) {
	parts := strings.Split(s, ".")
	if len(parts) != 4 {
		return 0, fmt.Errorf("bad ip %q", s)
	}
	var a uint32
	for _, p := range parts {
		n, err := strconv.Atoi(p)
		if err != nil || n < 0 || n > 255 {
			return 0, fmt.Errorf("bad ip %q", s)
		}
		a = a<<8 | uint32(n)
	}
	return a, nil
}

func (c Cidr) String() string { return fmt.Sprintf("%s/%d", IPStr(c.Net), c.Len) }

func ParseCidr(s string) (Cidr, error) {
	i := strings.IndexByte(s, '/')
	if i < 0 {
		a, err := ParseIP(s)
		return Cidr{a, 32}, err
	}
	a, err := ParseIP(s[:i])
	if err != nil {
		return Cidr{}, err
	}
	n, err := strconv.Atoi(s[i+1:])
	if err != nil || n < 0 || n > 32 {
		return Cidr{}, fmt.Errorf("bad cidr %q", s)
	}
	return Cidr{a, n}, nil
}

func mask(l int) uint32 {
	if l <= 0 {
		return 0
	}
	return ^uint32(0) << (32 - uint(l))
}

func (c Cidr) Contains(a uint32) bool { return a&mask(c.Len) == c.Net&mask(c.Len) }

func encLabels(l Labels) string {
	if len(l) == 0 {
		return "-"
	}
	ks := make([]string, 0, len(l))
	for k := range l {
		ks = append(ks, k)
	}
	sort.Strings(ks)
	out := make([]string, len(ks))
	for i, k := range ks {
		out[i] = k + "=" + l[k]
	}
	return strings.Join(out, ",")
}

func decLabels(s string) (Labels, error) {
	l := Labels{}
	if s == "-" {
		return l, nil
	}
	for _, kv := range strings.Split(s, ",") {
		i := strings.IndexByte(kv, '=')
		if i <= 0 {
			return nil, fmt.Errorf("bad label %q", kv)
		}
		l[kv[:i]] = kv[i+1:]
	}
	return l, nil
}

func (s Selector) String() string {
	var items []string
	for _, m := range s.Match {
		items = append(items, m[0]+"="+m[1])
	}
	for _, e := range s.Exprs {
		switch e.Op {
		case "in", "notin":
			items = append(items, e.Key+"~"+e.Op+"~"+strings.Join(e.Vals, "|"))
		default:
			items = append(items, e.Key+"~"+e.Op)
		}
	}
	if len(items) == 0 {
		return "*"
	}
	return strings.Join(items, "&")
}

func ParseSelector(s string) (Selector, error) {
	var sel Selector
	if s == "*" {
		return sel, nil
	}
	for _, it := range strings.Split(s, "&") {
		if strings.Contains(it, "~") {
			p := strings.Split(it, "~")
			switch {
			case len(p) == 3 && (p[1] == "in" || p[1] == "notin") && p[2] != "":
				sel.Exprs = append(sel.Exprs, Expr{p[0], p[1], strings.Split(p[2], "|")})
			case len(p) == 2 && (p[1] == "exists" || p[1] == "absent"):
				sel.Exprs = append(sel.Exprs, Expr{p[0], p[1], nil})
			default:
				return sel, fmt.Errorf("bad selector item %q", it)
			}
			continue
		}
		i := strings.IndexByte(it, '=')
		if i <= 0 {
			return sel, fmt.Errorf("bad selector item %q", it)
		}
		sel.Match = append(sel.Match, [2]string{it[:i], it[i+1:]})
	}
	return sel, nil
}

func (p Peer) String() string {
	switch p.Kind {
	case "pod":
		return "pod:" + p.PodSel.String()
	case "ns":
		return "ns:" + p.NSSel.String()
	case "both":
		return "both:" + p.NSSel.String() + ":" + p.PodSel.String()
	default:
		s := "ip:" + p.Block.String()
		for _, e := range p.Except {
			s += "!" + e.String()
		}
		return s
	}
}

func ParsePeer(s string) (Peer, error) {
	i := strings.IndexByte(s, ':')
	if i < 0 {
		return Peer{}, fmt.Errorf("bad peer %q", s)
	}
	kind, rest := s[:i], s[i+1:]
	var p Peer
	var err error
	p.Kind = kind
	switch kind {
	case "pod":
		p.PodSel, err = ParseSelector(rest)
	case "ns":
		p.NSSel, err = ParseSelector(rest)
	case "both":
		j := strings.IndexByte(rest, ':')
		if j < 0 {
			return p, fmt.Errorf("bad peer %q", s)
		}
		if p.NSSel, err = ParseSelector(rest[:j]); err == nil {
			p.PodSel, err = ParseSelector(rest[j+1:])
		}
	case "ip":
		parts := strings.Split(rest, "!")
		if p.Block, err = ParseCidr(parts[0]); err != nil {
			return p, err
		}
		for _, e := range parts[1:] {
			c, err := ParseCidr(e)
			if err != nil {
				return p, err
			}
			p.Except = append(p.Except, c)
		}
	default:
		err = fmt.Errorf("bad peer kind %q", kind)
	}
	return p, err
}

func (p Port) String() string {
	if p.HasPort {
		return p.Proto + "/" + strconv.Itoa(p.Port)
	}
	return p.Proto + "/-"
}

func ParsePort(s string) (Port, error) {
	i := strings.IndexByte(s, '/')
	if i < 0 || (s[:i] != "tcp" && s[:i] != "udp") {
		return Port{}, fmt.Errorf("bad port %q", s)
	}
	if s[i+1:] == "-" {
		return Port{Proto: s[:i]}, nil
	}
	n, err := strconv.Atoi(s[i+1:])
	if err != nil || n < 0 || n > 65535 {
		return Port{}, fmt.Errorf("bad port %q", s)
	}
	return Port{s[:i], n, true}, nil
}

func (r Rule) String() string {
	ps := make([]string, len(r.Peers))
	for i, p := range r.Peers {
		ps[i] = p.String()
	}
	qs := make([]string, len(r.Ports))
	for i, p := range r.Ports {
		qs[i] = p.String()
	}
	return dash(strings.Join(ps, ",")) + "@" + dash(strings.Join(qs, ","))
}

func dash(s string) string {
	if s == "" {
		return "-"
	}
	return s
}

func ParseRule(s string) (Rule, error) {
	var r Rule
	i := strings.LastIndexByte(s, '@')
	if i < 0 {
		return r, fmt.Errorf("bad rule %q", s)
	}
	if s[:i] != "-" {
		for _, p := range strings.Split(s[:i], ",") {
			pp, err := ParsePeer(p)
			if err != nil {
				return r, err
			}
			r.Peers = append(r.Peers, pp)
		}
	}
	if s[i+1:] != "-" {
		for _, p := range strings.Split(s[i+1:], ",") {
			pp, err := ParsePort(p)
			if err != nil {
				return r, err
			}
			r.Ports = append(r.Ports, pp)
		}
	}
	return r, nil
}

func encRules(rs []Rule) string {
	out := make([]string, len(rs))
	for i, r := range rs {
		out[i] = r.String()
	}
	return dash(strings.Join(out, ";"))
}

func decRules(s string) ([]Rule, error) {
	if s == "-" {
		return nil, nil
	}
	var rs []Rule
	for _, x := range strings.Split(s, ";") {
		r, err := ParseRule(x)
		if err != nil {
			return nil, err
		}
		rs = append(rs, r)
	}
	return rs, nil
}

// Lines of the protocol (also the replay format):
//   node <name>
//   ns <name> <labels>
//   pod <ns> <name> <hash> <node> <ip|-> <labels>
//   pol <ns> <name> <hash> <podsel> <types|-> <ingress-rules|-> <egress-rules|->
//   flow <hook> <proto> <src> <dst> <dport>

func (n Namespace) Line() string { return "ns " + n.Name + " " + encLabels(n.Labels) }

func (p Pod) Line() string {
	ip := "-"
	if p.HasIP {
		ip = IPStr(p.IP)
	}
	return fmt.Sprintf("pod %s %s %s %s %s %s", p.NS, p.Name, p.Hash(), p.Node, ip, encLabels(p.Labels))
}

func (p NetPol) Line() string {
	return fmt.Sprintf("pol %s %s %s %s %s %s %s", p.NS, p.Name, p.Hash(), p.PodSel.String(), dash(p.Types),
		encRules(p.Ingress), encRules(p.Egress))
}

func (f Flow) Line() string {
	return fmt.Sprintf("flow %s %s %s %s %d", f.Hook, f.Proto, IPStr(f.Src), IPStr(f.Dst), f.DPort)
}

// Lines renders cluster + policies as driver / replay lines (starting with `reset`).
func Lines(c *Cluster, ps []NetPol) []string {
	out := []string{"reset", "node " + c.Node}
	for _, n := range c.NSs {
		out = append(out, n.Line())
	}
	for _, p := range c.Pods {
		out = append(out, p.Line())
	}
	for _, p := range ps {
		out = append(out, p.Line())
	}
	return out
}

// ParseLine folds one cluster / policy line into (c, ps); returns the flow for a flow line.
func ParseLine(line string, c *Cluster, ps *[]NetPol) (*Flow, error) {
	w := strings.Fields(line)
	if len(w) == 0 {
		return nil, fmt.Errorf("empty line")
	}
	bad := fmt.Errorf("bad line %q", line)
	switch w[0] {
	case "reset":
		*c = Cluster{}
		*ps = nil
	case "node":
		if len(w) != 2 {
			return nil, bad
		}
		c.Node = w[1]
	case "ns":
		if len(w) != 3 {
			return nil, bad
		}
		l, err := decLabels(w[2])
		if err != nil {
			return nil, err
		}
		c.NSs = append(c.NSs, Namespace{w[1], l})
	case "pod":
		if len(w) != 7 {
			return nil, bad
		}
		p := Pod{NS: w[1], Name: w[2], Node: w[4]}
		if w[5] != "-" {
			a, err := ParseIP(w[5])
			if err != nil {
				return nil, err
			}
			p.IP, p.HasIP = a, true
		}
		l, err := decLabels(w[6])
		if err != nil {
			return nil, err
		}
		p.Labels = l
		c.Pods = append(c.Pods, p)
	case "pol":
		if len(w) != 8 {
			return nil, bad
		}
		p := NetPol{NS: w[1], Name: w[2]}
		var err error
		if p.PodSel, err = ParseSelector(w[4]); err != nil {
			return nil, err
		}
		if w[5] != "-" {
			p.Types = w[5]
		}
		if p.Ingress, err = decRules(w[6]); err != nil {
			return nil, err
		}
		if p.Egress, err = decRules(w[7]); err != nil {
			return nil, err
		}
		*ps = append(*ps, p)
	case "flow":
		if len(w) != 6 {
			return nil, bad
		}
		f := &Flow{Hook: w[1], Proto: w[2]}
		var err error
		if f.Src, err = ParseIP(w[3]); err != nil {
			return nil, err
		}
		if f.Dst, err = ParseIP(w[4]); err != nil {
			return nil, err
		}
		if f.DPort, err = strconv.Atoi(w[5]); err != nil {
			return nil, err
		}
		return f, nil
	default:
		return nil, bad
	}
	return nil, nil
}
