package policy

import (
	"fmt"
	"math/rand"
	"sort"
	"strings"

	"gxverif/nf"
)

// Drift: the SAME process runs two full syncs of the same desired state; in between the kernel state moved away from it
// while the desired entries of every set came back to what they were (pod label / namespace label / pod address round
// trips delivered as pod events, which only ever ADD addresses; direct edits of galaxy's sets and chains).  Clause 1 of
// C15 ("regardless of what existed before") says the second sync repairs all of it.

// driftWorld: a with a few pods relabelled / re-addressed and a namespace relabelled (policies untouched).
func driftWorld(rg *rand.Rand, a *WorldDef) *WorldDef {
	d := &WorldDef{C: Cluster{Node: a.C.Node}, PS: a.PS}
	for _, n := range a.C.NSs {
		l := Labels{}
		for k, v := range n.Labels {
			l[k] = v
		}
		if rg.Intn(2) == 0 {
			l["team"] = pick(rg, []string{"x", "y"})
		}
		d.C.NSs = append(d.C.NSs, Namespace{Name: n.Name, Labels: l})
	}
	for _, p := range a.C.Pods {
		l := Labels{}
		for k, v := range p.Labels {
			l[k] = v
		}
		switch n := rg.Intn(100); {
		case n < 45:
			l["app"] = pick(rg, appVals)
		case n < 60:
			l["tier"] = pick(rg, []string{"fe", "be"})
		case n < 75 && p.HasIP:
			p.IP += 100
		}
		p.Labels = l
		d.C.Pods = append(d.C.Pods, p)
	}
	return d
}

// driftPodEvents: one updpod event per pod that differs between the worlds, delivered in world `to` (its namespace
// labels are what the handlers see); worlds are named <prefix>1, <prefix>2, …; returns the ops and the last world name.
func driftPodEvents(rg *rand.Rand, from, to *WorldDef, fromName, prefix string) ([]string, string) {
	var ops []string
	cur := &WorldDef{C: Cluster{Node: to.C.Node, NSs: to.C.NSs, Pods: append([]Pod{}, from.C.Pods...)}, PS: to.PS}
	prev := fromName
	idx := rg.Perm(len(from.C.Pods))
	step := 0
	emitWorld := func(name string) {
		ops = append(ops, "world "+name)
		for _, n := range cur.C.NSs {
			ops = append(ops, n.Line())
		}
		for _, p := range cur.C.Pods {
			ops = append(ops, p.Line())
		}
		for _, p := range cur.PS {
			ops = append(ops, p.Line())
		}
	}
	for _, i := range idx {
		if i >= len(to.C.Pods) || from.C.Pods[i].Line() == to.C.Pods[i].Line() {
			continue
		}
		cur.C.Pods[i] = to.C.Pods[i]
		step++
		name := fmt.Sprintf("%s%d", prefix, step)
		emitWorld(name)
		ops = append(ops, fmt.Sprintf("ev updpod %s %s/%s %s #drift-pod-event", name, cur.C.Pods[i].NS, cur.C.Pods[i].Name, prev))
		prev = name
	}
	if step == 0 || rg.Intn(2) == 0 {
		// an update without a change of the pod itself (resync of the informer): the namespace labels of `to` count
		for _, i := range idx {
			if cur.C.Pods[i].HasIP {
				step++
				name := fmt.Sprintf("%s%d", prefix, step)
				emitWorld(name)
				ops = append(ops, fmt.Sprintf("ev updpod %s %s/%s %s #drift-pod-resync", name, cur.C.Pods[i].NS, cur.C.Pods[i].Name, prev))
				prev = name
				break
			}
		}
	}
	return ops, prev
}

// DriftOps: round trip A -> D -> A by pod events, then (optionally) direct edits; A must have been synced before.
func DriftOps(rg *rand.Rand, a *WorldDef, emitWorld func(string, *WorldDef)) []string {
	d := driftWorld(rg, a)
	emitWorld("D", d)
	ops, last := driftPodEvents(rg, a, d, "A", "F")
	back, _ := driftPodEvents(rg, d, a, last, "G")
	ops = append(ops, back...)
	if rg.Intn(2) == 0 {
		ops = append(ops, fmt.Sprintf("drift %d", 1+rg.Intn(1000000)))
	}
	return ops
}

// drift edits galaxy's own sets and chains directly (as an administrator or another program could): junk members
// added, members removed, junk rules appended to policy / pod chains.  Deterministic in (seed, kernel state).
func (r *C15Run) drift(seed int64) {
	rg := rand.New(rand.NewSource(seed))
	sets := r.sb.Ips.Dump()
	var names []string
	for n := range sets {
		if glxSet(n) {
			names = append(names, n)
		}
	}
	sort.Strings(names)
	for i, n := range names {
		s := sets[n]
		if rg.Intn(2) == 0 && len(s.Entries) > 0 {
			k := rg.Intn(len(s.Entries))
			s.Entries = append(append([]string{}, s.Entries[:k]...), s.Entries[k+1:]...)
			r.rep.Hit("drift:set-member-removed")
		}
		if rg.Intn(3) > 0 {
			if strings.Contains(s.Type, "net") {
				e := fmt.Sprintf("10.250.%d.0/24", i%250)
				if rg.Intn(2) == 0 {
					e += " nomatch"
				}
				s.Entries = append(s.Entries, e)
			} else {
				s.Entries = append(s.Entries, fmt.Sprintf("10.250.%d.%d", i%250, 1+rg.Intn(200)))
			}
			r.rep.Hit("drift:set-member-added")
		}
		sets[n] = s
	}
	r.sb.Ips.Load(sets)
	t := r.sb.Ipt.Dump("filter")
	var chains []string
	for c := range t {
		if strings.HasPrefix(c, "GLX-PLCY-") || strings.HasPrefix(c, "GLX-POD-") {
			chains = append(chains, c)
		}
	}
	sort.Strings(chains)
	for _, c := range chains {
		switch rg.Intn(4) {
		case 0:
			t[c] = append(t[c], nf.Normalize([]string{"-m", "comment", "--comment", "drift", "-j", "ACCEPT"}))
			r.rep.Hit("drift:chain-rule-added")
		case 1:
			if len(t[c]) > 0 {
				t[c] = t[c][1:]
				r.rep.Hit("drift:chain-rule-removed")
			}
		}
	}
	r.sb.Ipt.Load("filter", t)
}

// sedit: `sadd <set> <entry…>` / `sdel <set> <entry…>` on the kernel state.
func (r *C15Run) sedit(add bool, set, entry string) error {
	sets := r.sb.Ips.Dump()
	s, ok := sets[set]
	if !ok {
		return fmt.Errorf("no set %s", set)
	}
	var keep []string
	for _, e := range s.Entries {
		if e != entry {
			keep = append(keep, e)
		}
	}
	if add {
		keep = append(keep, entry)
	}
	s.Entries = keep
	sets[set] = s
	r.sb.Ips.Load(sets)
	return nil
}

// DriftHistories: the systematic part — one history per way a set drifts while its desired entries are unchanged.
func DriftHistories() map[string][]string {
	pol := NetPol{NS: "ns1", Name: "x"}
	h := pol.Hash()
	sel, sip0, sip1, snet, dip := "GLX-ip-"+h, "GLX-sip-0-"+h, "GLX-sip-1-"+h, "GLX-snet-2-"+h, "GLX-dip-0-"+h
	policy := "pol ns1 x - app=a IE pod:app=b@tcp/80;ns:team=x@-;ip:10.8.0.0/16!10.8.1.0/24@- pod:app=b@-"
	world := func(name, ns2, a, d, e string) []string {
		return []string{"world " + name, "ns ns1 name=ns1", "ns ns2 " + ns2,
			"pod ns1 a - node1 " + a + " app=a", "pod ns1 b - node2 10.0.1.2 app=b", "pod ns1 d - node2 10.0.1.4 " + d,
			"pod ns2 e - node2 10.0.2.5 " + e, policy}
	}
	base := world("A", "name=ns2", "10.0.1.1", "app=d", "app=e")
	rt := func(name string, mid []string, evs ...string) []string {
		o := append([]string{}, base...)
		o = append(o, mid...)
		o = append(o, "fullsync A", "check A")
		o = append(o, evs...)
		return append(o, "fullsync A", "check A")
	}
	out := map[string][]string{}
	out["drift-peer-label-round-trip"] = rt("", world("B", "name=ns2", "10.0.1.1", "app=b", "app=e"),
		"ev updpod B ns1/d A #drift-pod-event", "ev updpod A ns1/d B #drift-pod-event")
	out["drift-target-label-round-trip"] = rt("", world("B", "name=ns2", "10.0.1.1", "app=a", "app=e"),
		"ev updpod B ns1/d A #drift-pod-event", "ev updpod A ns1/d B #drift-pod-event")
	out["drift-namespace-label-round-trip"] = rt("", world("B", "name=ns2,team=x", "10.0.1.1", "app=d", "app=e"),
		"ev updpod B ns2/e A #drift-pod-resync", "ev updpod A ns2/e B #drift-pod-resync")
	out["drift-pod-address-flaps-back"] = rt("", world("B", "name=ns2", "10.0.1.101", "app=d", "app=e"),
		"ev updpod B ns1/a A #drift-pod-event", "ev updpod A ns1/a B #drift-pod-event")
	out["drift-external-add"] = rt("", nil, "sadd "+sel+" 10.99.0.1", "sadd "+sip0+" 10.99.0.2", "sadd "+dip+" 10.99.0.3",
		"sadd "+snet+" 10.99.0.0/24", "sadd "+snet+" 10.8.2.0/24 nomatch")
	out["drift-external-del"] = rt("", nil, "sdel "+sel+" 10.0.1.1", "sdel "+sip0+" 10.0.1.2", "sdel "+snet+" 10.8.1.0/24 nomatch")
	out["drift-external-set-emptied-and-chains-edited"] = rt("", nil, "lset "+sip0+" hash:ip -", "lset "+sip1+" hash:ip 10.99.0.9", "drift 7")
	return out
}

// judgeHookDels (frame of every SyncPodChains / deletePodChains call): the only jump rules of GLX-INGRESS / GLX-EGRESS a
// call may delete are those the desired state does not contain.  A deleted `-d <ip> … -j GLX-POD-<h>` whose pod (hash h)
// lives on this node with that address and is selected in that direction was the hook of ANOTHER pod than the one the
// call was made for (the call for a pod never deletes a hook that pod needs).
func (r *C15Run) judgeHookDels(step string, wd *WorldDef) {
	for _, hd := range r.sb.Watch.TakeHookDels() {
		r.rep.Hit("hook-deleted:" + hd.Chain)
		if wd == nil {
			continue
		}
		ingress := hd.Chain == "GLX-INGRESS"
		addr, target := "", ""
		for i := 0; i+1 < len(hd.Rule); i++ {
			switch hd.Rule[i] {
			case "-d":
				if ingress {
					addr = hd.Rule[i+1]
				}
			case "-s":
				if !ingress {
					addr = hd.Rule[i+1]
				}
			case "-j":
				target = hd.Rule[i+1]
			}
		}
		addr = strings.TrimSuffix(addr, "/32")
		for i := range wd.C.Pods {
			q := &wd.C.Pods[i]
			if "GLX-POD-"+q.Hash() != target || q.Node != wd.C.Node || !q.HasIP || IPStr(q.IP) != addr || !isolated(wd.PS, q, ingress) {
				continue
			}
			r.violate("pod-hook-of-other-pod-removed", fmt.Sprintf("%s: DeleteRule removed `%s` from %s although pod %s/%s "+
				"(this node, that address) is selected by a policy in that direction: its chain is unreachable now",
				step, strings.Join(hd.Rule, " "), hd.Chain, q.NS, q.Name))
		}
	}
}

// SubstringNames renames the namespaces and pods of a world so that the `<name>_<namespace>` strings of different pods
// are substrings / prefixes / suffixes of one another (db-0_prod in db-0_prod2 and in xdb-0_prod, db_prod in xdb_prod…):
// whatever finds a pod's rules by TEXT must not take another pod's.  Labels (incl. the `name` label of a namespace)
// stay as they are.
func SubstringNames(rg *rand.Rand, w *WorldDef) {
	nsPool := []string{"prod", "prod2", "xprod"}
	rg.Shuffle(len(nsPool), func(i, j int) { nsPool[i], nsPool[j] = nsPool[j], nsPool[i] })
	nsMap := map[string]string{}
	for i := range w.C.NSs {
		if i < len(nsPool) {
			nsMap[w.C.NSs[i].Name] = nsPool[i]
			w.C.NSs[i].Name = nsPool[i]
		}
	}
	podPool := []string{"db", "db-0", "xdb-0", "db-01", "xdb"}
	used := map[string]bool{}
	pods := append([]Pod{}, w.C.Pods...)
	for i := range pods {
		if n, ok := nsMap[pods[i].NS]; ok {
			pods[i].NS = n
		}
		for _, k := range rg.Perm(len(podPool)) {
			if !used[pods[i].NS+"/"+podPool[k]] {
				pods[i].Name = podPool[k]
				break
			}
		}
		used[pods[i].NS+"/"+pods[i].Name] = true
	}
	w.C.Pods = pods
	ps := append([]NetPol{}, w.PS...)
	for i := range ps {
		if n, ok := nsMap[ps[i].NS]; ok {
			ps[i].NS = n
		}
	}
	w.PS = ps
}

// SubstringHistories: pods on this node whose name_namespace strings contain one another, selected / unselected in all
// combinations, through full syncs and through the events that make a pod unselected or delete it.
func SubstringHistories() map[string][]string {
	world := func(name string, lbl map[string]string, without ...string) []string {
		o := []string{"world " + name, "ns prod name=prod", "ns prod2 name=prod2"}
		for _, p := range [][3]string{{"prod", "db-0", "10.0.1.1"}, {"prod2", "db-0", "10.0.2.1"}, {"prod", "xdb-0", "10.0.1.2"},
			{"prod", "db", "10.0.1.3"}, {"prod", "xdb", "10.0.1.4"}} {
			key := p[0] + "/" + p[1]
			skip := false
			for _, wo := range without {
				if wo == key {
					skip = true
				}
			}
			if !skip {
				o = append(o, fmt.Sprintf("pod %s %s - node1 %s app=%s", p[0], p[1], p[2], lbl[key]))
			}
		}
		return append(o, "pol prod y - app=s IE ns:name=prod@tcp/80 ns:name=prod2@-", "pol prod2 x - app=s I ns:name=prod@- -")
	}
	sel := func(keys ...string) map[string]string {
		m := map[string]string{"prod/db-0": "u", "prod2/db-0": "u", "prod/xdb-0": "u", "prod/db": "u", "prod/xdb": "u"}
		for _, k := range keys {
			m[k] = "s"
		}
		return m
	}
	out := map[string][]string{}
	long := sel("prod2/db-0", "prod/xdb-0", "prod/xdb") // the containing names are selected, the contained ones are not
	short := sel("prod/db-0", "prod/db")                // the other way round
	all := sel("prod/db-0", "prod2/db-0", "prod/xdb-0", "prod/db", "prod/xdb")
	for tag, m := range map[string]map[string]string{"longer-selected": long, "shorter-selected": short, "all-selected": all} {
		h := world("A", m)
		out["substr-fullsync-"+tag] = append(h, "fullsync A", "fullsync A", "check A")
	}
	// a pod becomes unselected (relabelled) / is deleted while pods with containing names stay selected
	h := append(world("A", all), world("B", long)...)
	out["substr-pods-become-unselected"] = append(h, "fullsync A", "ev updpod B prod/db-0 A #pod-unselected", "ev updpod B prod/db B #pod-unselected",
		"fullsync B", "check B")
	h = append(world("A", all), world("B", all, "prod/db-0")...)
	out["substr-pod-deleted"] = append(h, "fullsync A", "ev delpod B prod/db-0 A", "fullsync B", "check B")
	h = append(world("A", long), world("B", long, "prod/db")...)
	out["substr-unselected-pod-deleted"] = append(h, "fullsync A", "ev delpod B prod/db A", "fullsync B", "check B")
	return out
}
