package policy

import (
	"fmt"
	"strings"
	"time"

	"gxverif/hx"
)

// NewBackend: the STRICT fakes of harness/nf behind the submission-time watcher and the multiport limit (a pod batch
// that jumps to a missing policy chain, or a rule with more than 15 ports, is refused as by the kernel tools).
var NewBackend = func() Backend { return NewStrictBackend().Backend }

// CaseResult is what one cluster/policy case produced.
type CaseResult struct {
	Lines     []string // cluster + policy lines
	Canon     string   // canonical real dump
	Flows     []Flow
	Real      []bool // walk over the REAL dump (Lean)
	Frag      []bool
	K8s       []bool // Go reference
	Accepted  int
	Dropped   int
	InFrag    int
	Mismatch  int
	Selected  int // local pods with an address selected by some policy
	SyncState string
	Sigs      map[string]int // signature -> mismatching flows attributed to it
}

// RunCase drives the REAL policy manager for (c, ps) from an empty state, dumps what it installed, lets the Lean
// driver compile the same input and walk the REAL dump for the given flows, and records disagreements / violations.
// Seen limits the reported violations to the first occurrence of each signature per run (all are counted in the
// histogram).
var Seen = map[string]bool{}

func RunCase(e *hx.Env, rep *hx.Report, prop, name string, c *Cluster, ps []NetPol, flows []Flow) *CaseResult {
	b := NewBatch(e, rep, prop)
	res := b.Add(name, c, ps, flows)
	b.Flush()
	return res
}

// Batch runs several cases through ONE driver process (cases are separated by `reset`).
type Batch struct {
	e       *hx.Env
	rep     *hx.Report
	prop    string
	pending []*pendingCase
	nlines  int
}

type pendingCase struct {
	name                     string
	c                        *Cluster
	ps                       []NetPol
	res                      *CaseResult
	lines                    []string
	iCompile, iRcanon, iFlow int
	compileWant              string   // canonical text the model's compile must equal (from-scratch real dump)
	update                   bool     // the dump was produced by UPDATE transitions on a live manager
	event                    bool     // the dump is the state right after an EVENT (no periodic sync yet)
	staleOnly                bool     // event state = from-scratch state + set entries of pods relabelled since the last resync
	replayLines              []string // what a replay file of this case holds
}

func NewBatch(e *hx.Env, rep *hx.Report, prop string) *Batch {
	return &Batch{e: e, rep: rep, prop: prop}
}

func (bt *Batch) replayAs(p *pendingCase, tag string, extra ...string) string {
	base := p.res.Lines
	if p.replayLines != nil {
		base = p.replayLines
	}
	return bt.e.WriteReplay(bt.prop, "input", p.name+tag, nil, append(append([]string{}, base...), extra...))
}

// Add runs the real manager for the case now and queues the driver lines.
func (bt *Batch) Add(name string, c *Cluster, ps []NetPol, flows []Flow) *CaseResult {
	e, rep, prop := bt.e, bt.rep, bt.prop
	_ = prop
	_ = e
	res := &CaseResult{Lines: Lines(c, ps), Flows: flows, Sigs: map[string]int{}}
	pc := &pendingCase{name: name, c: c, ps: ps, res: res}
	b := NewBackend()
	var d *Dump
	var derr error
	out := hx.Guard(20*time.Second, func() {
		m := NewFreshManager(b, c.Node)
		m.World.Set(c, ps)
		m.FullSync()
		d, derr = TakeDump(b)
	})
	res.SyncState = out
	replay := func(extra ...string) string { return bt.replayAs(pc, "", extra...) }
	if out != "ok" || derr != nil {
		sig := "full-sync-" + strings.SplitN(out, ":", 2)[0]
		rep.Violations = append(rep.Violations, hx.Violation{Signature: sig,
			What: fmt.Sprintf("full sync of the real policy manager: %s %v", out, derr), Replay: replay()})
		return res
	}
	bt.queue(pc, d, d.Canon(), false, nil)
	return res
}

// AddDump queues a case whose dump was produced elsewhere (UPDATE transitions on a live manager): the model's
// compile of the FINAL cluster must equal compileWant (the from-scratch real dump), the walk runs on d.
func (bt *Batch) AddDump(name string, c *Cluster, ps []NetPol, flows []Flow, d *Dump, compileWant string,
	replayLines []string) *CaseResult {
	res := &CaseResult{Lines: Lines(c, ps), Flows: flows, Sigs: map[string]int{}, SyncState: "ok"}
	pc := &pendingCase{name: name, c: c, ps: ps, res: res}
	bt.queue(pc, d, compileWant, true, replayLines)
	return res
}

// AddEvent queues the kernel state right after an event handler returned (before any periodic full sync): every flow
// the event state decides differently from a from-scratch compile of the current cluster is a deviation of the
// event path.  staleOnly: the only difference to the from-scratch state are extra set members that are addresses of
// pods relabelled since the last resync (UpdatePod only ever ADDS to ipsets).
func (bt *Batch) AddEvent(name string, c *Cluster, ps []NetPol, flows []Flow, d *Dump, staleOnly bool,
	replayLines []string) *CaseResult {
	res := &CaseResult{Lines: Lines(c, ps), Flows: flows, Sigs: map[string]int{}, SyncState: "ok"}
	pc := &pendingCase{name: name, c: c, ps: ps, res: res, event: true, staleOnly: staleOnly}
	bt.queue(pc, d, "", true, replayLines)
	return res
}

func (bt *Batch) queue(pc *pendingCase, d *Dump, compileWant string, update bool, replayLines []string) {
	res := pc.res
	res.Canon = d.Canon()
	pc.compileWant, pc.update, pc.replayLines = compileWant, update, replayLines
	flows := res.Flows
	lines := append([]string{}, res.Lines...)
	iCompile := len(lines)
	lines = append(lines, "compile")
	lines = append(lines, d.DriverLines()...)
	iRcanon := len(lines)
	lines = append(lines, "rcanon")
	iFlow := len(lines)
	for _, f := range flows {
		lines = append(lines, f.Line())
	}
	pc.lines, pc.iCompile, pc.iRcanon, pc.iFlow = lines, iCompile, iRcanon, iFlow
	bt.pending = append(bt.pending, pc)
	bt.nlines += len(lines)
	if bt.nlines > 20000 {
		bt.Flush()
	}
}

// Flush pipes the queued cases to the driver and evaluates them.
func (bt *Batch) Flush() {
	if len(bt.pending) == 0 {
		return
	}
	var all []string
	for _, p := range bt.pending {
		all = append(all, p.lines...)
	}
	outl, err := bt.e.RunDriver("policy", all)
	off := 0
	for _, p := range bt.pending {
		if err != nil {
			bt.rep.Disagree = append(bt.rep.Disagree, hx.Disagreement{Where: "driver", Index: 0, Impl: "", Model: err.Error(),
				Replay: bt.replayAs(p, "")})
		} else {
			bt.finish(p, outl[off:off+len(p.lines)])
		}
		off += len(p.lines)
	}
	bt.pending, bt.nlines = nil, 0
}

func (bt *Batch) finish(pc *pendingCase, outl []string) {
	rep, res, c, ps, lines, flows := bt.rep, pc.res, pc.c, pc.ps, pc.lines, pc.res.Flows
	iCompile, iRcanon, iFlow := pc.iCompile, pc.iRcanon, pc.iFlow
	replay := func(extra ...string) string { return bt.replayAs(pc, "", extra...) }
	replayAs := func(tag string, extra ...string) string { return bt.replayAs(pc, tag, extra...) }
	for i := 0; i < iFlow; i++ {
		if i == iCompile || i == iRcanon {
			continue
		}
		if outl[i] != "ok" {
			if strings.HasPrefix(lines[i], "rrule ") && !Seen["installed-rule-malformed"] {
				Seen["installed-rule-malformed"] = true
				// a rule the real code installed that is not a rule of the modelled rule language at all (e.g. a match
				// or a target given twice because words of an earlier rule leaked into it): never what a NetworkPolicy
				// compiles to
				rep.Violations = append(rep.Violations, hx.Violation{Signature: "installed-rule-malformed",
					What:   "the real manager installed a rule outside the rule language of the compiler: " + clip(lines[i]),
					Replay: replayAs("-installed-rule-malformed")})
			}
			rep.Disagree = append(rep.Disagree, hx.Disagreement{Where: "driver-line", Index: i, Impl: lines[i],
				Model: outl[i], Replay: replay()})
			return
		}
	}
	rep.Traces++
	if !pc.event && outl[iCompile] != pc.compileWant {
		rep.Disagree = append(rep.Disagree, hx.Disagreement{Where: "compile: installed sets/rules vs model", Index: iCompile,
			Impl: diffHint(pc.compileWant, outl[iCompile], true), Model: diffHint(pc.compileWant, outl[iCompile], false), Replay: replay()})
	}
	if outl[iRcanon] != res.Canon {
		rep.Disagree = append(rep.Disagree, hx.Disagreement{Where: "dump-parse: driver's reading of the real dump", Index: iRcanon,
			Impl: diffHint(res.Canon, outl[iRcanon], true), Model: diffHint(res.Canon, outl[iRcanon], false), Replay: replay()})
	}
	for i := range c.Pods {
		q := &c.Pods[i]
		if q.Node == c.Node && q.HasIP && (isolated(ps, q, true) || isolated(ps, q, false)) {
			res.Selected++
		}
	}
	for i := range flows {
		f := &flows[i]
		kv := parseKV(outl[iFlow+i])
		if kv == nil {
			rep.Disagree = append(rep.Disagree, hx.Disagreement{Where: "flow-line", Index: iFlow + i, Impl: f.Line(),
				Model: outl[iFlow+i], Replay: replay(f.Line())})
			return
		}
		real := kv["real"] == "A"
		ref := K8sAllowsOn(c, ps, f)
		res.Real = append(res.Real, real)
		res.K8s = append(res.K8s, ref)
		res.Frag = append(res.Frag, kv["frag"] == "1")
		if real {
			res.Accepted++
		} else {
			res.Dropped++
		}
		if kv["frag"] == "1" {
			res.InFrag++
		}
		if pc.event {
			// event-level check: only what the event path decides differently from a from-scratch compile is judged here
			rep.Histogram["event-flows-walked"]++
			if kv["real"] == kv["model"] {
				continue
			}
			sig := "event-state-denies-allowed"
			if kv["real"] == "A" {
				sig = "event-state-accepts-forbidden"
				if pc.staleOnly {
					sig = "relabel-stale-membership-until-resync"
				}
			}
			rep.Hit("mismatch:" + sig)
			res.Sigs[sig]++
			res.Mismatch++
			if !Seen[sig] {
				Seen[sig] = true
				rep.Violations = append(rep.Violations, hx.Violation{Signature: sig, What: fmt.Sprintf("right after the event "+
					"(before the periodic sync) flow %s: installed rules give %s, a from-scratch compile of the current state "+
					"gives %s, API semantics %v", f.Line(), kv["real"], kv["model"], ref), Replay: replayAs("-"+sig, f.Line())})
			}
			continue
		}
		if kv["real"] != kv["model"] && pc.update {
			// the rules left by the update transitions decide a flow differently from a from-scratch compile
			sig := "update-verdict-differs-from-scratch"
			rep.Hit("mismatch:" + sig)
			res.Sigs[sig]++
			if !Seen[sig] {
				Seen[sig] = true
				rep.Violations = append(rep.Violations, hx.Violation{Signature: sig, What: fmt.Sprintf("flow %s: rules after the "+
					"update transitions give %s, a from-scratch compile of the final state gives %s", f.Line(), kv["real"], kv["model"]),
					Replay: replayAs("-"+sig, f.Line())})
			}
		} else if kv["real"] != kv["model"] {
			rep.Disagree = append(rep.Disagree, hx.Disagreement{Where: "walk: real dump vs model compile", Index: iFlow + i,
				Impl: kv["real"], Model: kv["model"], Replay: replay(f.Line())})
		}
		if (kv["k8s"] == "1") != ref {
			rep.Disagree = append(rep.Disagree, hx.Disagreement{Where: "k8sAllowsOn: Lean vs Go reference", Index: iFlow + i,
				Impl: fmt.Sprint(ref), Model: kv["k8s"], Replay: replay(f.Line())})
		}
		if Predicted(c, ps, f, 0) != ref {
			rep.Disagree = append(rep.Disagree, hx.Disagreement{Where: "reference self-check: Predicted(no deviation) vs K8sAllowsOn",
				Index: iFlow + i, Impl: fmt.Sprint(ref), Model: fmt.Sprint(!ref), Replay: replay(f.Line())})
		}
		if real == ref {
			continue
		}
		// ---- monitor: the installed rules decide this flow differently from the API semantics
		res.Mismatch++
		dir := "accepts-forbidden"
		if !real {
			dir = "drops-allowed"
		}
		add := func(sig, what string) {
			rep.Hit("mismatch:" + sig)
			res.Sigs[sig]++
			if Seen[sig] {
				return
			}
			Seen[sig] = true
			rep.Violations = append(rep.Violations, hx.Violation{Signature: sig, What: what,
				Replay: replayAs("-"+sig, f.Line())})
		}
		if kv["frag"] == "1" {
			add("in-fragment-"+dir, fmt.Sprintf("flow %s inside the proved fragment: installed rules %s, API semantics %v",
				f.Line(), kv["real"], ref))
			continue
		}
		if Predicted(c, ps, f, DevAll) != real {
			add("unexplained-"+dir, fmt.Sprintf("flow %s: installed rules give %s, API semantics %v, and no combination "+
				"of the known deviations predicts that", f.Line(), kv["real"], ref))
			continue
		}
		dev, ok := Explain(c, ps, f, real)
		if !ok || dev == 0 {
			add("unexplained-"+dir, fmt.Sprintf("flow %s: installed rules give %s, API semantics %v", f.Line(), kv["real"], ref))
			continue
		}
		for _, b := range DevOrder {
			if dev&b != 0 {
				add(DevNames[b], fmt.Sprintf("flow %s: installed rules %s, API semantics %v (%s)", f.Line(), dir, ref, DevNames[b]))
			}
		}
	}
	_ = lines
}

func parseKV(s string) map[string]string {
	m := map[string]string{}
	for _, w := range strings.Fields(s) {
		i := strings.IndexByte(w, '=')
		if i < 0 {
			return nil
		}
		m[w[:i]] = w[i+1:]
	}
	if _, ok := m["real"]; !ok {
		return nil
	}
	return m
}

// diffHint returns the first differing `;`-separated item of two canonical texts (a = impl, b = model).
func diffHint(a, b string, first bool) string {
	as, bs := strings.Split(a, ";"), strings.Split(b, ";")
	for i := 0; i < len(as) || i < len(bs); i++ {
		var x, y string
		if i < len(as) {
			x = as[i]
		}
		if i < len(bs) {
			y = bs[i]
		}
		if x != y {
			if first {
				return clip(x)
			}
			return clip(y)
		}
	}
	return ""
}

func clip(s string) string {
	if len(s) > 400 {
		return s[:400] + "…"
	}
	return s
}
