package policy

import "sort"

// ======================================================================================================
// Reference evaluator of the NetworkPolicy API semantics, written from the API documentation
// (k8s.io/api/networking/v1 type comments and the "Network Policies" concept page), NOT from galaxy's code.
//
//  * A pod is isolated for ingress iff some policy in its namespace whose podSelector matches it has policy type
//    Ingress (types default: Ingress always; Egress iff the policy has egress rules).  Same for egress.
//  * A non-isolated pod accepts everything in that direction.  An isolated pod accepts exactly what some rule of
//    some such policy allows: the peer list is empty (all sources) or some peer matches, AND the port list is
//    empty (all ports) or some port entry matches (protocol equal, and port equal if the entry names one).
//  * podSelector-only peer: pods of the POLICY's namespace matching it.  namespaceSelector-only: all pods of the
//    namespaces matching it.  Both: pods matching podSelector in namespaces matching namespaceSelector.
//    ipBlock: addresses in cidr and in none of except.
//  * A connection src -> dst is allowed iff egress of src (when src is a pod) and ingress of dst (when dst is a
//    pod) both allow it.  One node enforces the part that concerns ITS pods.
// ======================================================================================================

func matchSel(s Selector, l Labels) bool {
	for _, m := range s.Match {
		if v, ok := l[m[0]]; !ok || v != m[1] {
			return false
		}
	}
	for _, e := range s.Exprs {
		v, ok := l[e.Key]
		in := false
		for _, x := range e.Vals {
			if ok && x == v {
				in = true
			}
		}
		switch e.Op {
		case "in":
			if !in {
				return false
			}
		case "notin":
			if in {
				return false
			}
		case "exists":
			if !ok {
				return false
			}
		case "absent":
			if ok {
				return false
			}
		}
	}
	return true
}

func (p *NetPol) AffectsIngress() bool {
	if p.Types == "" {
		return true
	}
	for _, t := range p.Types {
		if t == 'I' {
			return true
		}
	}
	return false
}

func (p *NetPol) AffectsEgress() bool {
	if p.Types == "" {
		return len(p.Egress) > 0
	}
	for _, t := range p.Types {
		if t == 'E' {
			return true
		}
	}
	return false
}

func (p *NetPol) Selects(pod *Pod) bool { return pod.NS == p.NS && matchSel(p.PodSel, pod.Labels) }

func (c *Cluster) podByIP(a uint32) *Pod {
	for i := range c.Pods {
		if c.Pods[i].HasIP && c.Pods[i].IP == a {
			return &c.Pods[i]
		}
	}
	return nil
}

func (c *Cluster) nsLabels(name string) (Labels, bool) {
	for _, n := range c.NSs {
		if n.Name == name {
			return n.Labels, true
		}
	}
	return nil, false
}

func k8sPeerMatches(c *Cluster, polNS string, pe *Peer, a uint32) bool {
	if pe.Kind == "ip" {
		if !pe.Block.Contains(a) {
			return false
		}
		for _, e := range pe.Except {
			if e.Contains(a) {
				return false
			}
		}
		return true
	}
	q := c.podByIP(a)
	if q == nil {
		return false
	}
	switch pe.Kind {
	case "pod":
		return q.NS == polNS && matchSel(pe.PodSel, q.Labels)
	case "ns":
		l, ok := c.nsLabels(q.NS)
		return ok && matchSel(pe.NSSel, l)
	default:
		l, ok := c.nsLabels(q.NS)
		return ok && matchSel(pe.NSSel, l) && matchSel(pe.PodSel, q.Labels)
	}
}

func k8sPortsMatch(ports []Port, f *Flow) bool {
	if len(ports) == 0 {
		return true
	}
	for _, p := range ports {
		if p.Proto == f.Proto && (!p.HasPort || p.Port == f.DPort) {
			return true
		}
	}
	return false
}

func k8sRuleAllows(c *Cluster, polNS string, r *Rule, other uint32, f *Flow) bool {
	peerOK := len(r.Peers) == 0
	for i := range r.Peers {
		if k8sPeerMatches(c, polNS, &r.Peers[i], other) {
			peerOK = true
		}
	}
	return peerOK && k8sPortsMatch(r.Ports, f)
}

// K8sIngressAllowed: may pod accept flow f (f.Dst is pod's address)?
func K8sIngressAllowed(c *Cluster, ps []NetPol, pod *Pod, f *Flow) bool {
	isolated := false
	for i := range ps {
		p := &ps[i]
		if !p.AffectsIngress() || !p.Selects(pod) {
			continue
		}
		isolated = true
		for j := range p.Ingress {
			if k8sRuleAllows(c, p.NS, &p.Ingress[j], f.Src, f) {
				return true
			}
		}
	}
	return !isolated
}

func K8sEgressAllowed(c *Cluster, ps []NetPol, pod *Pod, f *Flow) bool {
	isolated := false
	for i := range ps {
		p := &ps[i]
		if !p.AffectsEgress() || !p.Selects(pod) {
			continue
		}
		isolated = true
		for j := range p.Egress {
			if k8sRuleAllows(c, p.NS, &p.Egress[j], f.Dst, f) {
				return true
			}
		}
	}
	return !isolated
}

// K8sAllowsOn: the part of the API semantics node c.Node has to enforce for flow f.
func K8sAllowsOn(c *Cluster, ps []NetPol, f *Flow) bool {
	if s := c.podByIP(f.Src); s != nil && s.Node == c.Node && !K8sEgressAllowed(c, ps, s, f) {
		return false
	}
	if d := c.podByIP(f.Dst); d != nil && d.Node == c.Node && !K8sIngressAllowed(c, ps, d, f) {
		return false
	}
	return true
}

// ======================================================================================================
// Semantic description of the KNOWN deviations (DESIGN §6 C16 (a)-(f) + (g)), used only to CLASSIFY a mismatch
// between the walk over the installed rules and K8sAllowsOn.  Predicted(dev) with no deviation enabled must equal
// K8sAllowsOn (self-checked by the harness on every flow); Predicted(all) is what the installed rules are expected
// to do; a verdict that differs from Predicted(all) is an unexplained mismatch = VIOLATION.
// ======================================================================================================

type Dev uint

const (
	DevA   Dev = 1 << iota // podSelector-only peer resolved in all namespaces
	DevB                   // peer with both selectors ignores the namespace selector
	DevC                   // rule with an empty peer list allows nothing
	DevD                   // a pod's chain consults rules of both directions of every selecting policy
	DevE                   // FORWARD: the source pod's egress verdict is final, destination ingress not consulted
	DevF                   // port entries without a number are dropped (none left: all protocols)
	DevG                   // ipBlock peers of one rule share one hash:net set: an except shadows other peers' cidrs
	DevAll = DevA | DevB | DevC | DevD | DevE | DevF | DevG
)

var DevNames = map[Dev]string{
	DevA: "podselector-peer-crosses-namespace",
	DevB: "ns-and-pod-selector-ignores-ns",
	DevC: "empty-peers-denies",
	DevD: "egress-rule-accepts-ingress",
	DevE: "same-node-egress-accept-skips-ingress",
	DevF: "portless-port-entry",
	DevG: "ipblock-except-shadows-other-peer",
}

var DevOrder = []Dev{DevA, DevB, DevC, DevD, DevE, DevF, DevG}

// OverLimit: does some rule of these policies list more than 15 ports of one protocol?  Since repo commit 8f04d5f
// galaxy splits such a rule over several iptables rules of at most 15 ports; before, the one emitted rule was refused
// by iptables ("multiport-more-than-15-ports", fixed).  Not a deviation any more: a refusal by LimitIPT is an
// unexplained violation.  (A rule is emitted for every rule of a compiled direction that has at least one peer.)
func OverLimit(ps []NetPol) bool {
	over := func(rs []Rule) bool {
		for _, r := range rs {
			if len(r.Peers) == 0 {
				continue
			}
			tcp, udp := 0, 0
			for _, p := range r.Ports {
				if p.HasPort && p.Proto == "tcp" {
					tcp++
				} else if p.HasPort {
					udp++
				}
			}
			if tcp > 15 || udp > 15 {
				return true
			}
		}
		return false
	}
	for i := range ps {
		if (ps[i].AffectsIngress() && over(ps[i].Ingress)) || (ps[i].AffectsEgress() && over(ps[i].Egress)) {
			return true
		}
	}
	return false
}

// devPeersMatch: does address a match the peer list of rule r (policy namespace polNS) under deviations dev?
func devPeersMatch(c *Cluster, polNS string, r *Rule, a uint32, dev Dev) bool {
	if len(r.Peers) == 0 {
		return dev&DevC == 0
	}
	// ipBlock peers
	if dev&DevG != 0 {
		// one hash:net set per rule: the most specific entry containing the address decides (nomatch wins a tie)
		best, bestNo := -1, false
		for i := range r.Peers {
			pe := &r.Peers[i]
			if pe.Kind != "ip" {
				continue
			}
			if pe.Block.Contains(a) && (pe.Block.Len > best) {
				best, bestNo = pe.Block.Len, false
			}
		}
		for i := range r.Peers {
			pe := &r.Peers[i]
			if pe.Kind != "ip" {
				continue
			}
			for _, e := range pe.Except {
				if e.Contains(a) && e.Len >= best {
					best, bestNo = e.Len, true
				}
			}
		}
		if best >= 0 && !bestNo {
			return true
		}
	} else {
		for i := range r.Peers {
			if r.Peers[i].Kind == "ip" && k8sPeerMatches(c, polNS, &r.Peers[i], a) {
				return true
			}
		}
	}
	q := c.podByIP(a)
	if q == nil {
		return false
	}
	for i := range r.Peers {
		pe := &r.Peers[i]
		switch pe.Kind {
		case "pod":
			if (dev&DevA != 0 || q.NS == polNS) && matchSel(pe.PodSel, q.Labels) {
				return true
			}
		case "ns":
			if l, ok := c.nsLabels(q.NS); ok && matchSel(pe.NSSel, l) {
				return true
			}
		case "both":
			l, ok := c.nsLabels(q.NS)
			if (dev&DevB != 0 || (ok && matchSel(pe.NSSel, l))) && matchSel(pe.PodSel, q.Labels) {
				return true
			}
		}
	}
	return false
}

func devPortsMatch(ports []Port, f *Flow, dev Dev) bool {
	if dev&DevF == 0 {
		return k8sPortsMatch(ports, f)
	}
	n := 0
	for _, p := range ports {
		if p.HasPort {
			n++
			if p.Proto == f.Proto && p.Port == f.DPort {
				return true
			}
		}
	}
	return n == 0
}

func (c *Cluster) selectedIP(p *NetPol, a uint32) bool {
	q := c.podByIP(a)
	return q != nil && p.Selects(q)
}

// devPodVerdict: verdict of pod's chain for flow f; ingressSide says through which hook the packet arrived.
func devPodVerdict(c *Cluster, ps []NetPol, pod *Pod, f *Flow, ingressSide bool, dev Dev) bool {
	for i := range ps {
		p := &ps[i]
		if !p.Selects(pod) {
			continue
		}
		if p.AffectsIngress() && (ingressSide || dev&DevD != 0) && c.selectedIP(p, f.Dst) {
			for j := range p.Ingress {
				if devPeersMatch(c, p.NS, &p.Ingress[j], f.Src, dev) && devPortsMatch(p.Ingress[j].Ports, f, dev) {
					return true
				}
			}
		}
		if p.AffectsEgress() && (!ingressSide || dev&DevD != 0) && c.selectedIP(p, f.Src) {
			for j := range p.Egress {
				if devPeersMatch(c, p.NS, &p.Egress[j], f.Dst, dev) && devPortsMatch(p.Egress[j].Ports, f, dev) {
					return true
				}
			}
		}
	}
	return false
}

func isolated(ps []NetPol, pod *Pod, ingress bool) bool {
	for i := range ps {
		if ps[i].Selects(pod) && ((ingress && ps[i].AffectsIngress()) || (!ingress && ps[i].AffectsEgress())) {
			return true
		}
	}
	return false
}

// Predicted: expected verdict of the installed rules on node c.Node under the enabled deviations.
func Predicted(c *Cluster, ps []NetPol, f *Flow, dev Dev) bool {
	s, d := c.podByIP(f.Src), c.podByIP(f.Dst)
	egressHooked := f.Hook != "OUTPUT" && s != nil && s.Node == c.Node && isolated(ps, s, false)
	ingressHooked := f.Hook != "INPUT" && d != nil && d.Node == c.Node && isolated(ps, d, true)
	if egressHooked {
		ok := devPodVerdict(c, ps, s, f, false, dev)
		if !ok || dev&DevE != 0 {
			return ok
		}
	}
	if ingressHooked {
		return devPodVerdict(c, ps, d, f, true, dev)
	}
	return true
}

// Explain returns the smallest set of deviations (fixed order) under which Predicted gives `observed`; ok=false if
// none does.
func Explain(c *Cluster, ps []NetPol, f *Flow, observed bool) (Dev, bool) {
	type cand struct {
		d Dev
		n int
	}
	var cs []cand
	for d := Dev(0); d <= DevAll; d++ {
		n := 0
		for _, b := range DevOrder {
			if d&b != 0 {
				n++
			}
		}
		cs = append(cs, cand{d, n})
	}
	sort.SliceStable(cs, func(i, j int) bool { return cs[i].n < cs[j].n })
	for _, x := range cs {
		if Predicted(c, ps, f, x.d) == observed {
			return x.d, true
		}
	}
	return 0, false
}
