package policy

import (
	"fmt"
	"os"

	corev1 "k8s.io/api/core/v1"
	networkv1 "k8s.io/api/networking/v1"
	apierrors "k8s.io/apimachinery/pkg/api/errors"
	metav1 "k8s.io/apimachinery/pkg/apis/meta/v1"
	"k8s.io/apimachinery/pkg/labels"
	"k8s.io/apimachinery/pkg/runtime/schema"
	"k8s.io/apimachinery/pkg/util/intstr"
	corev1Lister "k8s.io/client-go/listers/core/v1"
	networkingv1Lister "k8s.io/client-go/listers/networking/v1"
)

// ---------- harness values -> Kubernetes objects

func (s Selector) K8s() *metav1.LabelSelector {
	ls := &metav1.LabelSelector{}
	if len(s.Match) > 0 {
		ls.MatchLabels = map[string]string{}
		for _, m := range s.Match {
			ls.MatchLabels[m[0]] = m[1]
		}
	}
	for _, e := range s.Exprs {
		r := metav1.LabelSelectorRequirement{Key: e.Key, Values: append([]string(nil), e.Vals...)}
		switch e.Op {
		case "in":
			r.Operator = metav1.LabelSelectorOpIn
		case "notin":
			r.Operator = metav1.LabelSelectorOpNotIn
		case "exists":
			r.Operator = metav1.LabelSelectorOpExists
		default:
			r.Operator = metav1.LabelSelectorOpDoesNotExist
		}
		ls.MatchExpressions = append(ls.MatchExpressions, r)
	}
	return ls
}

func (p Peer) K8s() networkv1.NetworkPolicyPeer {
	switch p.Kind {
	case "pod":
		return networkv1.NetworkPolicyPeer{PodSelector: p.PodSel.K8s()}
	case "ns":
		return networkv1.NetworkPolicyPeer{NamespaceSelector: p.NSSel.K8s()}
	case "both":
		return networkv1.NetworkPolicyPeer{PodSelector: p.PodSel.K8s(), NamespaceSelector: p.NSSel.K8s()}
	default:
		b := &networkv1.IPBlock{CIDR: p.Block.String()}
		for _, e := range p.Except {
			b.Except = append(b.Except, e.String())
		}
		return networkv1.NetworkPolicyPeer{IPBlock: b}
	}
}

func k8sPorts(ps []Port) []networkv1.NetworkPolicyPort {
	var out []networkv1.NetworkPolicyPort
	for _, p := range ps {
		proto := corev1.ProtocolTCP
		if p.Proto == "udp" {
			proto = corev1.ProtocolUDP
		}
		np := networkv1.NetworkPolicyPort{Protocol: &proto}
		if p.HasPort {
			v := intstr.FromInt(p.Port)
			np.Port = &v
		}
		out = append(out, np)
	}
	return out
}

func (p NetPol) K8s() *networkv1.NetworkPolicy {
	np := &networkv1.NetworkPolicy{ObjectMeta: metav1.ObjectMeta{Name: p.Name, Namespace: p.NS}}
	np.Spec.PodSelector = *p.PodSel.K8s()
	for _, t := range p.Types {
		if t == 'I' {
			np.Spec.PolicyTypes = append(np.Spec.PolicyTypes, networkv1.PolicyTypeIngress)
		} else {
			np.Spec.PolicyTypes = append(np.Spec.PolicyTypes, networkv1.PolicyTypeEgress)
		}
	}
	for _, r := range p.Ingress {
		ir := networkv1.NetworkPolicyIngressRule{Ports: k8sPorts(r.Ports)}
		for _, pe := range r.Peers {
			ir.From = append(ir.From, pe.K8s())
		}
		np.Spec.Ingress = append(np.Spec.Ingress, ir)
	}
	for _, r := range p.Egress {
		er := networkv1.NetworkPolicyEgressRule{Ports: k8sPorts(r.Ports)}
		for _, pe := range r.Peers {
			er.To = append(er.To, pe.K8s())
		}
		np.Spec.Egress = append(np.Spec.Egress, er)
	}
	return np
}

func (p Pod) K8s() *corev1.Pod {
	pod := &corev1.Pod{ObjectMeta: metav1.ObjectMeta{Name: p.Name, Namespace: p.NS, Labels: map[string]string{}}}
	for k, v := range p.Labels {
		pod.Labels[k] = v
	}
	pod.Spec.NodeName = p.Node
	if p.HasIP {
		pod.Status.PodIP = IPStr(p.IP)
	}
	return pod
}

func (n Namespace) K8s() *corev1.Namespace {
	ns := &corev1.Namespace{ObjectMeta: metav1.ObjectMeta{Name: n.Name, Labels: map[string]string{}}}
	for k, v := range n.Labels {
		ns.Labels[k] = v
	}
	return ns
}

// ---------- harness-controlled listers: deterministic (cluster order), replaceable between syncs

// World is the API truth the listers serve; Set swaps it atomically enough for the sequential harness.
type World struct {
	pods []*corev1.Pod
	nss  []*corev1.Namespace
	pols []*networkv1.NetworkPolicy
}

func (w *World) Set(c *Cluster, ps []NetPol) {
	w.pods, w.nss, w.pols = nil, nil, nil
	for _, p := range c.Pods {
		w.pods = append(w.pods, p.K8s())
	}
	for _, n := range c.NSs {
		w.nss = append(w.nss, n.K8s())
	}
	for _, p := range ps {
		w.pols = append(w.pols, p.K8s())
	}
}

type podLister struct {
	w  *World
	ns string
}

func (l podLister) List(sel labels.Selector) ([]*corev1.Pod, error) {
	var out []*corev1.Pod
	for _, p := range l.w.pods {
		if (l.ns == metav1.NamespaceAll || p.Namespace == l.ns) && sel.Matches(labels.Set(p.Labels)) {
			out = append(out, p)
		}
	}
	return out, nil
}
func (l podLister) Pods(ns string) corev1Lister.PodNamespaceLister { return podLister{l.w, ns} }
func (l podLister) Get(name string) (*corev1.Pod, error) {
	for _, p := range l.w.pods {
		if p.Namespace == l.ns && p.Name == name {
			return p, nil
		}
	}
	return nil, apierrors.NewNotFound(schema.GroupResource{Resource: "pods"}, name)
}

type nsLister struct{ w *World }

func (l nsLister) List(sel labels.Selector) ([]*corev1.Namespace, error) {
	var out []*corev1.Namespace
	for _, n := range l.w.nss {
		if sel.Matches(labels.Set(n.Labels)) {
			out = append(out, n)
		}
	}
	return out, nil
}
func (l nsLister) Get(name string) (*corev1.Namespace, error) {
	for _, n := range l.w.nss {
		if n.Name == name {
			return n, nil
		}
	}
	return nil, apierrors.NewNotFound(schema.GroupResource{Resource: "namespaces"}, name)
}

type polLister struct {
	w  *World
	ns string
}

func (l polLister) List(sel labels.Selector) ([]*networkv1.NetworkPolicy, error) {
	var out []*networkv1.NetworkPolicy
	for _, p := range l.w.pols {
		if (l.ns == metav1.NamespaceAll || p.Namespace == l.ns) && sel.Matches(labels.Set(p.Labels)) {
			out = append(out, p)
		}
	}
	return out, nil
}
func (l polLister) NetworkPolicies(ns string) networkingv1Lister.NetworkPolicyNamespaceLister {
	return polLister{l.w, ns}
}
func (l polLister) Get(name string) (*networkv1.NetworkPolicy, error) {
	for _, p := range l.w.pols {
		if p.Namespace == l.ns && p.Name == name {
			return p, nil
		}
	}
	return nil, apierrors.NewNotFound(schema.GroupResource{Resource: "networkpolicies"}, name)
}

func (w *World) PodLister() corev1Lister.PodLister             { return podLister{w, metav1.NamespaceAll} }
func (w *World) NamespaceLister() corev1Lister.NamespaceLister { return nsLister{w} }
func (w *World) PolicyLister() networkingv1Lister.NetworkPolicyLister {
	return polLister{w, metav1.NamespaceAll}
}

// SetNodeName makes k8s.GetHostname() (used by syncPods) return the harness' node name.
func SetNodeName(node string) {
	if err := os.Setenv("MY_NODE_NAME", node); err != nil {
		panic(fmt.Sprint(err))
	}
}
