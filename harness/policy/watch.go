package policy

import (
	"strings"
	"sync"

	"gxverif/nf"

	"tkestack.io/galaxy/pkg/utils/ipset"
	utiliptables "tkestack.io/galaxy/pkg/utils/iptables"
)

// ======================================================================================================
// Clause 4 of C15, judged at SUBMISSION time and independently of what the fake does with the submission: every
// iptables-restore batch, EnsureRule / DeleteRule command and `ipset add` is inspected against the kernel state at the
// moment it is submitted; a rule that names a chain (its own, or its jump target) or a set that does not exist at that
// point — taking into account the chains the same batch declared earlier — is recorded as dangling.
// ======================================================================================================

type DanglingEvent struct {
	Op     string // restore | ensure-rule | delete-rule | ipset-add
	Class  string // no-chain | no-target | no-set
	Detail string
	Batch  string // first line(s) of the batch (to tell policy batch from pod batch)
}

type Watch struct {
	mu     sync.Mutex
	events []DanglingEvent
}

func (w *Watch) add(ev DanglingEvent) {
	w.mu.Lock()
	w.events = append(w.events, ev)
	w.mu.Unlock()
}

// Take returns and clears the recorded events.
func (w *Watch) Take() []DanglingEvent {
	w.mu.Lock()
	defer w.mu.Unlock()
	out := w.events
	w.events = nil
	return out
}

var builtinTargets = map[string]bool{"ACCEPT": true, "DROP": true, "RETURN": true, "REJECT": true, "LOG": true, "MARK": true,
	"MASQUERADE": true, "DNAT": true, "SNAT": true, "QUEUE": true, "NFQUEUE": true}

// WatchIPT inspects rule submissions, then delegates.
type WatchIPT struct {
	utiliptables.Interface
	ipt *nf.IPTables
	ips *nf.IPSets
	w   *Watch
}

func (x *WatchIPT) setNames() map[string]bool {
	out := map[string]bool{}
	for n := range x.ips.Dump() {
		out[n] = true
	}
	return out
}

// checkRule returns the class of the first dangling reference of rule words r against chains / sets ("" = none).
func checkRule(chain string, r []string, chains, sets map[string]bool) (string, string) {
	if !chains[chain] {
		return nf.ErrNoChain, chain
	}
	for i := 0; i+1 < len(r); i++ {
		switch r[i] {
		case "-j", "-g", "--jump", "--goto":
			if !builtinTargets[r[i+1]] && !chains[r[i+1]] {
				return nf.ErrNoTarget, r[i+1]
			}
		case "--match-set":
			if !sets[r[i+1]] {
				return nf.ErrNoSet, r[i+1]
			}
		}
	}
	return "", ""
}

func (x *WatchIPT) inspectBatch(data []byte) {
	chains := map[string]bool{}
	for c := range x.ipt.Dump("filter") {
		chains[c] = true
	}
	sets := x.setNames()
	head := ""
	table := ""
	for _, line := range strings.Split(string(data), "\n") {
		ws := Tokenize(line)
		if len(ws) == 0 || strings.HasPrefix(ws[0], "#") {
			continue
		}
		switch {
		case strings.HasPrefix(ws[0], "*"):
			table = ws[0][1:]
		case table != "filter":
		case strings.HasPrefix(ws[0], ":"):
			if head == "" {
				head = ws[0]
			}
			chains[ws[0][1:]] = true
		case (ws[0] == "-A" || ws[0] == "-I") && len(ws) >= 2:
			if cl, what := checkRule(ws[1], ws[2:], chains, sets); cl != "" {
				x.w.add(DanglingEvent{"restore", cl, what + " in: " + line, head})
			}
		case ws[0] == "-X" && len(ws) == 2:
			if !chains[ws[1]] {
				x.w.add(DanglingEvent{"restore", nf.ErrNoChain, ws[1] + " in: " + line, head})
			}
			delete(chains, ws[1])
		}
	}
}

func (x *WatchIPT) RestoreAll(data []byte, flush utiliptables.FlushFlag, counters utiliptables.RestoreCountersFlag) error {
	x.inspectBatch(data)
	return x.Interface.RestoreAll(data, flush, counters)
}

func (x *WatchIPT) Restore(t utiliptables.Table, data []byte, flush utiliptables.FlushFlag, counters utiliptables.RestoreCountersFlag) error {
	x.inspectBatch(data)
	return x.Interface.Restore(t, data, flush, counters)
}

func (x *WatchIPT) inspectCmd(op string, t utiliptables.Table, chain utiliptables.Chain, args []string, needChain bool) {
	if t != utiliptables.TableFilter {
		return
	}
	chains := map[string]bool{}
	for c := range x.ipt.Dump("filter") {
		chains[c] = true
	}
	if !needChain {
		chains[string(chain)] = true
	}
	if cl, what := checkRule(string(chain), nf.Normalize(args), chains, x.setNames()); cl != "" {
		x.w.add(DanglingEvent{op, cl, what + " in: " + string(chain) + " " + strings.Join(args, " "), ""})
	}
}

func (x *WatchIPT) EnsureRule(p utiliptables.RulePosition, t utiliptables.Table, c utiliptables.Chain, args ...string) (bool, error) {
	x.inspectCmd("ensure-rule", t, c, args, true)
	return x.Interface.EnsureRule(p, t, c, args...)
}

func (x *WatchIPT) DeleteRule(t utiliptables.Table, c utiliptables.Chain, args ...string) error {
	x.inspectCmd("delete-rule", t, c, args, false)
	return x.Interface.DeleteRule(t, c, args...)
}

// WatchIPS inspects `ipset add`.
type WatchIPS struct {
	ipset.Interface
	ips *nf.IPSets
	w   *Watch
}

func (x *WatchIPS) AddEntry(entry string, set *ipset.IPSet, ignoreExistErr bool) error {
	if _, ok := x.ips.Dump()[set.Name]; !ok {
		x.w.add(DanglingEvent{"ipset-add", nf.ErrNoSet, set.Name + " " + entry, ""})
	}
	return x.Interface.AddEntry(entry, set, ignoreExistErr)
}

func (x *WatchIPS) AddEntryWithOptions(entry *ipset.Entry, set *ipset.IPSet, ignoreExistErr bool) error {
	if _, ok := x.ips.Dump()[set.Name]; !ok {
		x.w.add(DanglingEvent{"ipset-add", nf.ErrNoSet, set.Name + " " + entry.String(), ""})
	}
	return x.Interface.AddEntryWithOptions(entry, set, ignoreExistErr)
}

// FaultHistories: the systematic part of the C15 quick tier: `ipset create` fails once for ONE set, each set position
// in turn (target set, sip / snet / dip / dnet peer set), during the first sync from an empty kernel and during a
// later sync where the policy chains already exist.  On the unchanged tree syncRules aborts before submitting rules.
func FaultHistories() map[string][]string {
	world := func(name, pol string) []string {
		return []string{"world " + name, "ns ns1 name=ns1", "pod ns1 a - node1 10.0.1.1 app=a", "pod ns1 b - node2 10.0.1.2 app=b", pol}
	}
	full := "pol ns1 x - app=a IE pod:app=b,ip:10.0.0.0/8!10.0.1.0/24@tcp/80 ns:name=ns1,ip:192.168.0.0/16@-"
	small := "pol ns1 x - app=a I ns:name=ns1@tcp/80 -"
	out := map[string][]string{}
	for _, pos := range []struct{ tag, match string }{{"target", "GLX-ip-"}, {"sip", "-sip-"}, {"snet", "-snet-"}, {"dip", "-dip-"}, {"dnet", "-dnet-"}} {
		var h []string
		h = append(h, world("A", full)...)
		h = append(h, "fault ipset-create "+pos.match+" 1", "fullsync A", "fullsync A", "check A")
		out["fault-"+pos.tag+"-from-empty"] = h
		h = nil
		h = append(h, world("A0", small)...)
		h = append(h, world("A", full)...)
		h = append(h, "fullsync A0", "fault ipset-create "+pos.match+" 1", "fullsync A", "fullsync A", "check A")
		out["fault-"+pos.tag+"-later"] = h
	}
	return out
}
