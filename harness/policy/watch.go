package policy

import (
	"fmt"
	"strings"
	"sync"

	"gxverif/nf"

	"tkestack.io/galaxy/pkg/utils/ipset"
	utiliptables "tkestack.io/galaxy/pkg/utils/iptables"
)

// ======================================================================================================
// Clause 4 of C15, judged at SUBMISSION time and independently of what the fake does with the submission: every
// iptables-restore batch, EnsureRule / DeleteRule command and `ipset add` is inspected against the kernel state at the
// moment it is submitted; a rule that names a chain (its own, or its jump target) or a set that does not exist at that
// point — taking into account the chains the same batch declared earlier — is recorded as dangling.
// ======================================================================================================

type DanglingEvent struct {
	Op     string // restore | ensure-rule | delete-rule | ipset-add
	Class  string // no-chain | no-target | no-set
	Detail string
	Batch  string // first line(s) of the batch (to tell policy batch from pod batch)
}

type Watch struct {
	mu       sync.Mutex
	events   []DanglingEvent
	limits   []DanglingEvent // submissions refused for carrying more ports than multiport takes
	hookDels []HookDel       // DeleteRule calls on GLX-INGRESS / GLX-EGRESS that removed a rule
}

// HookDel: one DeleteRule on a hook chain (GLX-INGRESS / GLX-EGRESS) that named a rule present at that moment.
type HookDel struct {
	Chain string
	Rule  []string // normalised words
}

// TakeHookDels returns and clears the recorded hook deletions.
func (w *Watch) TakeHookDels() []HookDel {
	w.mu.Lock()
	defer w.mu.Unlock()
	out := w.hookDels
	w.hookDels = nil
	return out
}

// TakeLimits returns and clears the refused-for-too-many-ports submissions.
func (w *Watch) TakeLimits() []DanglingEvent {
	w.mu.Lock()
	defer w.mu.Unlock()
	out := w.limits
	w.limits = nil
	return out
}

func (w *Watch) add(ev DanglingEvent) {
	w.mu.Lock()
	w.events = append(w.events, ev)
	w.mu.Unlock()
}

// Take returns and clears the recorded events.
func (w *Watch) Take() []DanglingEvent {
	w.mu.Lock()
	defer w.mu.Unlock()
	out := w.events
	w.events = nil
	return out
}

var builtinTargets = map[string]bool{"ACCEPT": true, "DROP": true, "RETURN": true, "REJECT": true, "LOG": true, "MARK": true,
	"MASQUERADE": true, "DNAT": true, "SNAT": true, "QUEUE": true, "NFQUEUE": true}

// WatchIPT inspects rule submissions, then delegates.
type WatchIPT struct {
	utiliptables.Interface
	ipt *nf.IPTables
	ips *nf.IPSets
	w   *Watch
}

func (x *WatchIPT) setNames() map[string]bool {
	out := map[string]bool{}
	for n := range x.ips.Dump() {
		out[n] = true
	}
	return out
}

// checkRule returns the class of the first dangling reference of rule words r against chains / sets ("" = none).
func checkRule(chain string, r []string, chains, sets map[string]bool) (string, string) {
	if !chains[chain] {
		return nf.ErrNoChain, chain
	}
	for i := 0; i+1 < len(r); i++ {
		switch r[i] {
		case "-j", "-g", "--jump", "--goto":
			if !builtinTargets[r[i+1]] && !chains[r[i+1]] {
				return nf.ErrNoTarget, r[i+1]
			}
		case "--match-set":
			if !sets[r[i+1]] {
				return nf.ErrNoSet, r[i+1]
			}
		}
	}
	return "", ""
}

func (x *WatchIPT) inspectBatch(data []byte) {
	chains := map[string]bool{}
	for c := range x.ipt.Dump("filter") {
		chains[c] = true
	}
	sets := x.setNames()
	head := ""
	table := ""
	for _, line := range strings.Split(string(data), "\n") {
		ws := Tokenize(line)
		if len(ws) == 0 || strings.HasPrefix(ws[0], "#") {
			continue
		}
		switch {
		case strings.HasPrefix(ws[0], "*"):
			table = ws[0][1:]
		case table != "filter":
		case strings.HasPrefix(ws[0], ":"):
			if head == "" {
				head = ws[0]
			}
			chains[ws[0][1:]] = true
		case (ws[0] == "-A" || ws[0] == "-I") && len(ws) >= 2:
			if cl, what := checkRule(ws[1], ws[2:], chains, sets); cl != "" {
				x.w.add(DanglingEvent{"restore", cl, what + " in: " + line, head})
			}
		case ws[0] == "-X" && len(ws) == 2:
			if !chains[ws[1]] {
				x.w.add(DanglingEvent{"restore", nf.ErrNoChain, ws[1] + " in: " + line, head})
			}
			delete(chains, ws[1])
		}
	}
}

func (x *WatchIPT) RestoreAll(data []byte, flush utiliptables.FlushFlag, counters utiliptables.RestoreCountersFlag) error {
	x.inspectBatch(data)
	return x.Interface.RestoreAll(data, flush, counters)
}

func (x *WatchIPT) Restore(t utiliptables.Table, data []byte, flush utiliptables.FlushFlag, counters utiliptables.RestoreCountersFlag) error {
	x.inspectBatch(data)
	return x.Interface.Restore(t, data, flush, counters)
}

func (x *WatchIPT) inspectCmd(op string, t utiliptables.Table, chain utiliptables.Chain, args []string, needChain bool) {
	if t != utiliptables.TableFilter {
		return
	}
	chains := map[string]bool{}
	for c := range x.ipt.Dump("filter") {
		chains[c] = true
	}
	if !needChain {
		chains[string(chain)] = true
	}
	if cl, what := checkRule(string(chain), nf.Normalize(args), chains, x.setNames()); cl != "" {
		x.w.add(DanglingEvent{op, cl, what + " in: " + string(chain) + " " + strings.Join(args, " "), ""})
	}
}

func (x *WatchIPT) EnsureRule(p utiliptables.RulePosition, t utiliptables.Table, c utiliptables.Chain, args ...string) (bool, error) {
	x.inspectCmd("ensure-rule", t, c, args, true)
	return x.Interface.EnsureRule(p, t, c, args...)
}

func (x *WatchIPT) DeleteRule(t utiliptables.Table, c utiliptables.Chain, args ...string) error {
	x.inspectCmd("delete-rule", t, c, args, false)
	if t == utiliptables.TableFilter && unorderedChain(string(c)) {
		want := strings.Join(nf.Normalize(args), " ")
		for _, r := range x.ipt.Dump("filter")[string(c)] {
			if strings.Join(r, " ") == want {
				x.w.mu.Lock()
				x.w.hookDels = append(x.w.hookDels, HookDel{string(c), nf.Normalize(args)})
				x.w.mu.Unlock()
				break
			}
		}
	}
	return x.Interface.DeleteRule(t, c, args...)
}

// WatchIPS inspects `ipset add`.
type WatchIPS struct {
	ipset.Interface
	ips *nf.IPSets
	w   *Watch
}

func (x *WatchIPS) AddEntry(entry string, set *ipset.IPSet, ignoreExistErr bool) error {
	if _, ok := x.ips.Dump()[set.Name]; !ok {
		x.w.add(DanglingEvent{"ipset-add", nf.ErrNoSet, set.Name + " " + entry, ""})
	}
	return x.Interface.AddEntry(entry, set, ignoreExistErr)
}

func (x *WatchIPS) AddEntryWithOptions(entry *ipset.Entry, set *ipset.IPSet, ignoreExistErr bool) error {
	if _, ok := x.ips.Dump()[set.Name]; !ok {
		x.w.add(DanglingEvent{"ipset-add", nf.ErrNoSet, set.Name + " " + entry.String(), ""})
	}
	return x.Interface.AddEntryWithOptions(entry, set, ignoreExistErr)
}

// MultiportMax: iptables' multiport match takes at most 15 ports (XT_MULTI_PORTS); a rule with more is refused when it is
// parsed ("too many ports specified") and iptables-restore then applies NOTHING of the batch.
const MultiportMax = 15

// LimitIPT refuses submissions that carry a multiport match with more than MultiportMax ports (neither the repo's
// lenient fake nor harness/nf know the limit).
type LimitIPT struct {
	utiliptables.Interface
	W *Watch // may be nil
}

func tooManyPorts(words []string) bool {
	for i := 0; i+1 < len(words); i++ {
		switch words[i] {
		case "--dports", "--sports", "--ports", "--destination-ports", "--source-ports":
			if len(strings.Split(words[i+1], ",")) > MultiportMax {
				return true
			}
		}
	}
	return false
}

func (x *LimitIPT) refuse(op, detail string) error {
	if x.W != nil {
		x.W.mu.Lock()
		x.W.limits = append(x.W.limits, DanglingEvent{Op: op, Class: "too-many-ports", Detail: detail})
		x.W.mu.Unlock()
	}
	return fmt.Errorf("iptables v1.8.9 (nf_tables): too many ports specified: %s", detail)
}

func (x *LimitIPT) checkBatch(data []byte) error {
	for _, line := range strings.Split(string(data), "\n") {
		if ws := Tokenize(line); len(ws) > 0 && (ws[0] == "-A" || ws[0] == "-I") && tooManyPorts(ws) {
			return x.refuse("restore", line)
		}
	}
	return nil
}

func (x *LimitIPT) RestoreAll(data []byte, flush utiliptables.FlushFlag, counters utiliptables.RestoreCountersFlag) error {
	if err := x.checkBatch(data); err != nil {
		return err
	}
	return x.Interface.RestoreAll(data, flush, counters)
}

func (x *LimitIPT) Restore(t utiliptables.Table, data []byte, flush utiliptables.FlushFlag, counters utiliptables.RestoreCountersFlag) error {
	if err := x.checkBatch(data); err != nil {
		return err
	}
	return x.Interface.Restore(t, data, flush, counters)
}

func (x *LimitIPT) EnsureRule(p utiliptables.RulePosition, t utiliptables.Table, c utiliptables.Chain, args ...string) (bool, error) {
	if tooManyPorts(args) {
		return false, x.refuse("ensure-rule", strings.Join(args, " "))
	}
	return x.Interface.EnsureRule(p, t, c, args...)
}

// FaultHistories: the systematic part of the C15 quick tier: `ipset create` fails once for ONE set, each set position
// in turn (target set, sip / snet / dip / dnet peer set), during the first sync from an empty kernel and during a
// later sync where the policy chains already exist.  On the unchanged tree syncRules aborts before submitting rules.
func FaultHistories() map[string][]string {
	world := func(name, pol string) []string {
		return []string{"world " + name, "ns ns1 name=ns1", "pod ns1 a - node1 10.0.1.1 app=a", "pod ns1 b - node2 10.0.1.2 app=b", pol}
	}
	full := "pol ns1 x - app=a IE pod:app=b,ip:10.0.0.0/8!10.0.1.0/24@tcp/80 ns:name=ns1,ip:192.168.0.0/16@-"
	small := "pol ns1 x - app=a I ns:name=ns1@tcp/80 -"
	out := map[string][]string{}
	for _, pos := range []struct{ tag, match string }{{"target", "GLX-ip-"}, {"sip", "-sip-"}, {"snet", "-snet-"}, {"dip", "-dip-"}, {"dnet", "-dnet-"}} {
		var h []string
		h = append(h, world("A", full)...)
		h = append(h, "fault ipset-create "+pos.match+" 1", "fullsync A", "fullsync A", "check A")
		out["fault-"+pos.tag+"-from-empty"] = h
		h = nil
		h = append(h, world("A0", small)...)
		h = append(h, world("A", full)...)
		h = append(h, "fullsync A0", "fault ipset-create "+pos.match+" 1", "fullsync A", "fullsync A", "check A")
		out["fault-"+pos.tag+"-later"] = h
	}
	return out
}

// FreshHistories: the systematic part of the C15 quick tier about a FRESH process (pod informer factory not started:
// it has seen no NetworkPolicy) that finds galaxy's rules / sets of a previous process in the kernel:
// the last policy was deleted while galaxy was down (with and without pod chains referencing the stale policy chain),
// zero policies over junk + foreign prior state, policies but no local pods, nothing at all.
func FreshHistories() map[string][]string {
	pods := []string{"ns ns1 name=ns1", "pod ns1 a - node1 10.0.1.1 app=a", "pod ns1 b - node2 10.0.1.2 app=b"}
	world := func(name string, extra ...string) []string {
		return append(append([]string{"world " + name}, pods...), extra...)
	}
	junk := []string{"lset GLX-ip-JUNKJUNKJUNKJUNK hash:ip 10.9.9.9", "lset GLX-snet-0-JUNKJUNKJUNKJUNK hash:net 10.9.0.0/16,10.9.1.0/24+nomatch",
		"lchain GLX-PLCY-JUNKJUNKJUNKJUNK",
		"lrule GLX-PLCY-JUNKJUNKJUNKJUNK -m comment --comment junk_ns -p all -m set --match-set GLX-snet-0-JUNKJUNKJUNKJUNK src -m set --match-set GLX-ip-JUNKJUNKJUNKJUNK dst -j ACCEPT",
		"lchain KUBE-FORWARD", "lrule KUBE-FORWARD -s 10.0.0.0/8 -j ACCEPT", "lrule FORWARD -m comment --comment kubernetes -j KUBE-FORWARD",
		"lset KUBE-CLUSTER-IP hash:ip 10.96.0.1"}
	out := map[string][]string{}
	h := world("A", "pol ns1 x - app=a I ns:name=ns1,ip:10.0.0.0/8!10.0.1.0/24@tcp/80 -")
	h = append(h, world("Z")...)
	out["fresh-last-policy-deleted-pod-chain-refers"] = append(h, "fullsync A", "restart", "fullsync Z", "fullsync Z", "check Z")
	h = world("A", "pol ns1 x - app=zzz IE ns:name=ns1,ip:10.0.0.0/8!10.0.1.0/24@tcp/80 pod:app=b@-")
	h = append(h, world("Z")...)
	out["fresh-last-policy-deleted-no-pod-chain"] = append(h, "fullsync A", "restart", "fullsync Z", "check Z")
	h = world("Z")
	h = append(h, junk...)
	out["fresh-zero-policies-junk-and-foreign"] = append(h, "restart", "fullsync Z", "check Z")
	h = []string{"world P", "ns ns1 name=ns1", "pod ns1 b - node2 10.0.1.2 app=b", "pol ns1 x - app=b I ns:name=ns1@tcp/80 -"}
	h = append(h, junk...)
	out["fresh-policies-but-no-local-pods"] = append(h, "restart", "fullsync P", "check P")
	h = []string{"world E", "ns ns1 name=ns1"}
	h = append(h, junk...)
	out["fresh-nothing-at-all"] = append(h, "restart", "fullsync E", "check E")
	return out
}
