// Package pluginc06 is the C06 part of the plugin correspondence harness (filter-approved nodes can be bound and get a
// routable IP): topology / allocation-state / request generators (DESIGN.md Appendix D), the monitor of the five
// statements of the property evaluated on the real Filter / Bind outputs, and the runner (corpus, random cases, the
// small-scope exhaustive enumeration).  It builds on gxverif/plugin (the real FloatingIPPlugin on fake clientsets, the
// op-line protocol of gxdrv_plugin) and does not change it.
package pluginc06

import (
	"math/rand"

	"gxverif/plugin"
)

func ip4(a, b, c, d uint32) uint32 { return a<<24 | b<<16 | c<<8 | d }

// node subnets: pairwise disjoint, so any selection is "identical or disjoint"; a /26 and two /32 among them
var subnetPalette = []plugin.Subnet{
	{Base: ip4(10, 9, 1, 0), Bits: 24},
	{Base: ip4(10, 9, 2, 0), Bits: 24},
	{Base: ip4(10, 9, 3, 0), Bits: 26},
	{Base: ip4(10, 9, 9, 9), Bits: 32},
	{Base: ip4(10, 9, 9, 10), Bits: 32},
}

// overlapping subnets for the not-well-formed stream (10.9.0.0/16 contains most of the palette)
var overlapSubnet = plugin.Subnet{Base: ip4(10, 9, 0, 0), Bits: 16}

var nodePalette = []plugin.Node{
	{Name: "n1", IP: ip4(10, 9, 1, 5)},
	{Name: "n2", IP: ip4(10, 9, 2, 5)},
	{Name: "n3", IP: ip4(10, 9, 3, 5)},
	{Name: "n4", IP: ip4(10, 8, 0, 4)},   // in no configured subnet
	{Name: "n5", IP: ip4(10, 9, 1, 6)},   // shares n1's subnet
	{Name: "n6", IP: ip4(10, 9, 9, 9)},   // the /32
	{Name: "n7", IP: ip4(10, 9, 3, 200)}, // 10.9.3.x but outside the /26
	{Name: "n8", IP: ip4(10, 9, 9, 10)},  // the other /32
}

// GenConf generates a valid topology: 1-3 pod subnets, each with 1-2 pools (two pools share the pod subnet with
// disjoint, mostly ADJACENT ranges and distinct gateways), node subnets from the palette (shared between pools,
// disjoint, /26, /32), 2-6 nodes incl. nodes in no configured subnet.  wf=false adds an overlapping node subnet.
func GenConf(rng *rand.Rand, wf bool) plugin.Conf {
	var c plugin.Conf
	nsub := 1 + rng.Intn(3)
	for i := 0; i < nsub; i++ {
		base := ip4(10, uint32(10+i), 0, 0)
		npools := 1 + rng.Intn(2)
		next := uint32(2)
		for j := 0; j < npools; j++ {
			p := plugin.Pool{Gateway: base | 1, Bits: 24, Vlan: []int{0, 0, 2, 3, 7}[rng.Intn(5)]}
			if j == 1 {
				p.Gateway = base | 254
			}
			k := 1 + rng.Intn(3)
			for x, idx := range rng.Perm(len(subnetPalette)) {
				if x < k {
					p.NodeSubnets = append(p.NodeSubnets, subnetPalette[idx])
				}
			}
			nr := 1 + rng.Intn(2)
			for r := 0; r < nr; r++ {
				sz := uint32(1 + rng.Intn(3))
				p.Ranges = append(p.Ranges, [2]uint32{base | next, base | (next + sz - 1)})
				next += sz
				if r+1 < nr {
					next++ // ranges of ONE pool must not be mergeable: gap of one address
				}
			}
			// the next pool of this pod subnet starts right after (adjacent) or after a gap
			if rng.Intn(3) == 0 {
				next += 1 + uint32(rng.Intn(2))
			}
			c.Pools = append(c.Pools, p)
		}
	}
	// pools WITHOUT addresses (`"ips": []`): valid, own nothing, but occupy a slot of the pool table and contribute their node
	// subnets to NodeSubnet(nodeIP).  Gateways are chosen so that they sort before / between / after the other pools.
	if rng.Intn(100) < 30 {
		ne := 1 + rng.Intn(2)
		for e := 0; e < ne; e++ {
			var gw uint32
			switch rng.Intn(3) {
			case 0:
				gw = ip4(10, 5, uint32(e), 1) // before every other pool
			case 1:
				gw = ip4(10, uint32(10+rng.Intn(nsub)), 0, uint32(100+e)) // inside a used pod subnet: between .1 and .254
			default:
				gw = ip4(10, 200, uint32(e), 1) // after every other pool
			}
			p := plugin.Pool{Gateway: gw, Bits: 24, Vlan: rng.Intn(3)}
			k := 1 + rng.Intn(2)
			for x, idx := range rng.Perm(len(subnetPalette)) {
				if x < k {
					p.NodeSubnets = append(p.NodeSubnets, subnetPalette[idx])
				}
			}
			c.Pools = append(c.Pools, p)
		}
	}
	if !wf {
		i := rng.Intn(len(c.Pools))
		c.Pools[i].NodeSubnets = append(c.Pools[i].NodeSubnets, overlapSubnet)
	}
	if rng.Intn(2) == 0 {
		rng.Shuffle(len(c.Pools), func(i, j int) { c.Pools[i], c.Pools[j] = c.Pools[j], c.Pools[i] })
	}
	n := 2 + rng.Intn(5)
	for x, idx := range rng.Perm(len(nodePalette)) {
		if x < n {
			c.Nodes = append(c.Nodes, nodePalette[idx])
		}
	}
	return c
}

// ---- the configuration as the property sees it (independent of the plugin) ----

func overlaps(a, b plugin.Subnet) bool { return a.Contains(b.Base) || b.Contains(a.Base) }

// WFConf: node subnets pairwise identical or disjoint, pools pairwise disjoint as address sets.
func WFConf(pools []plugin.Pool) bool {
	var all []plugin.Subnet
	for _, p := range pools {
		all = append(all, p.NodeSubnets...)
	}
	for _, a := range all {
		for _, b := range all {
			if a != b && overlaps(a, b) {
				return false
			}
		}
	}
	for i, p := range pools {
		for _, r := range p.Ranges {
			for ip := r[0]; ip <= r[1]; ip++ {
				for j, q := range pools {
					if i != j && p.Has(ip) && q.Has(ip) {
						return false
					}
				}
			}
		}
	}
	return true
}

func inRanges(rs [][2]uint32, ip uint32) bool {
	for _, r := range rs {
		if r[0] <= ip && ip <= r[1] {
			return true
		}
	}
	return false
}

// WFRequest: the requested range lists are pairwise disjoint.
func WFRequest(rss [][][2]uint32) bool {
	for i := range rss {
		for j := range rss {
			if i == j {
				continue
			}
			for _, r := range rss[i] {
				for ip := r[0]; ip <= r[1]; ip++ {
					if inRanges(rss[j], ip) {
						return false
					}
				}
			}
		}
	}
	return true
}

// PoolOf: the configured pool an address belongs to.
func PoolOf(pools []plugin.Pool, ip uint32) (plugin.Pool, bool) {
	for _, p := range pools {
		if p.Has(ip) {
			return p, true
		}
	}
	return plugin.Pool{}, false
}

// Routable: "the IP belongs to a pool whose node subnets contain that node's address".
func Routable(pools []plugin.Pool, ip uint32, nodeIP uint32) bool {
	p, ok := PoolOf(pools, ip)
	if !ok {
		return false
	}
	for _, n := range p.NodeSubnets {
		if n.Contains(nodeIP) {
			return true
		}
	}
	return false
}

func nodeIPOf(c plugin.Conf, name string) (uint32, bool) {
	for _, n := range c.Nodes {
		if n.Name == name {
			return n.IP, true
		}
	}
	return 0, false
}

// HasSubnet: the node lies in some configured node subnet.
func HasSubnet(pools []plugin.Pool, nodeIP uint32) bool {
	for _, p := range pools {
		for _, n := range p.NodeSubnets {
			if n.Contains(nodeIP) {
				return true
			}
		}
	}
	return false
}

// AllIPs: every configured address in ascending order.
func AllIPs(pools []plugin.Pool) []uint32 {
	seen := map[uint32]bool{}
	var out []uint32
	for _, p := range pools {
		for _, r := range p.Ranges {
			for ip := r[0]; ip <= r[1]; ip++ {
				if !seen[ip] {
					seen[ip] = true
					out = append(out, ip)
				}
			}
		}
	}
	for i := 1; i < len(out); i++ {
		for j := i; j > 0 && out[j] < out[j-1]; j-- {
			out[j], out[j-1] = out[j-1], out[j]
		}
	}
	return out
}
