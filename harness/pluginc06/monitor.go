package pluginc06

import (
	"context"
	"fmt"
	"strings"

	metav1 "k8s.io/apimachinery/pkg/apis/meta/v1"

	corev1 "k8s.io/api/core/v1"
	"tkestack.io/galaxy/pkg/api/galaxy/constant"
	"tkestack.io/galaxy/pkg/ipam/schedulerplugin/util"
	"tkestack.io/galaxy/pkg/utils/nets"

	"gxverif/hx"
	"gxverif/plugin"
)

// Signatures of the C06 monitor (stable: they name the KIND of failure).
const (
	SigBindFailed          = "filter-approved-bind-failed:" // + result class
	SigNotRoutable         = "bound-ip-not-routable"
	SigIPInfo              = "ipinfo-not-from-pool:" // + field
	SigHolderUnroutable    = "holder-offered-unroutable-node"
	SigFreshNotOffered     = "fresh-pod-not-offered-node-with-free-ip"
	SigFreshOffered        = "fresh-pod-offered-node-without-free-ip"
	SigHolderNotOffered    = "holder-not-offered-routable-node"
	SigHolderOfferedNoFree = "holder-offered-node-without-free-ip"
	// a pod without requested ranges must be bound with the LOWEST address its key holds (ByKeyAndIPRanges(key, nil) is
	// sorted since the fix of the no-ranges multi-owner defect)
	SigNotLowest = "bound-ip-not-lowest-held"
	// suffix of every signature when a configuration reload went through earlier in the history
	SufAfterReload = ":after-reload"
	// … when an earlier operation of the history ran with an injected fault
	SufAfterFault = ":after-fault"
)

type filterObs struct {
	step     int
	ns, name string
	uid      string
	approved map[string]bool
	cand     []string
	fresh    bool // default policy, holds nothing
	deflt    bool // default policy
	wf       bool
	multi    bool
	held     []uint32
}

type monState struct {
	prev  []plugin.IPAMRec // IPAM dump after the previous op
	last  *filterObs
	stats map[string]int // how often each statement of the property was actually evaluated
	// a configuration reload went through earlier in this history: violations are tagged `:after-reload` (the property
	// is judged against the configuration NOW in force, w.Pools)
	reloaded bool
	// an operation earlier in this history ran with an injected apiserver / provider fault: violations are tagged
	// `:after-fault` (the state was reached through a fault; the judged filter -> bind themselves are fault-free)
	faulted bool
	// observed `first` choices that are not the lowest address of the key (admissibility refinement choiceIsMin of
	// Galaxy/Model/PluginC06.lean): reported as correspondence disagreements
	notMin []string
}

// ChoiceDisagreements returns the observed choices that violate choiceIsMin.
func ChoiceDisagreements(w *plugin.World) []string {
	if st, _ := w.Mon["c06"].(*monState); st != nil {
		return st.notMin
	}
	return nil
}

// MonitorStats returns the evaluation counters of the monitor for the world.
func MonitorStats(w *plugin.World) map[string]int {
	if st, _ := w.Mon["c06"].(*monState); st != nil {
		return st.stats
	}
	return nil
}

func requestOf(p *corev1.Pod) [][][2]uint32 {
	if p == nil || p.Annotations == nil {
		return nil
	}
	args, err := constant.UnmarshalCniArgs(p.Annotations[constant.ExtendedCNIArgsAnnotation])
	if err != nil || args == nil {
		return nil
	}
	var out [][][2]uint32
	for _, l := range args.RequestIPRange {
		var rs [][2]uint32
		for _, r := range l {
			rs = append(rs, [2]uint32{nets.IPToInt(r.First), nets.IPToInt(r.Last)})
		}
		out = append(out, rs)
	}
	return out
}

func defaultPolicy(p *corev1.Pod) bool {
	if p.Annotations == nil {
		return true
	}
	if p.Annotations[constant.IPPoolAnnotation] != "" {
		return false
	}
	v := p.Annotations[constant.ReleasePolicyAnnotation]
	return v != constant.Immutable && v != constant.Never
}

// heldBy: what ByKeyAndIPRanges would find for the key and the request in the dumped IPAM state - per range list the
// first address in walk order stored under the key; without a request every address of the key.
func heldBy(dump []plugin.IPAMRec, key string, rss [][][2]uint32) (held []uint32, unfound [][][2]uint32, owned int) {
	byIP := map[uint32]plugin.IPAMRec{}
	for _, r := range dump {
		if !r.Free && r.Key == key {
			byIP[r.IP] = r
			owned++
		}
	}
	if len(rss) == 0 {
		// ByKeyAndIPRanges(key, nil) is sorted ascending: ipInfos[0] / ipInfos[:1] are the lowest address (dump is ascending)
		for _, r := range dump {
			if !r.Free && r.Key == key {
				held = append(held, r.IP)
				break
			}
		}
		return
	}
	for _, rs := range rss {
		found := false
	walk:
		for _, r := range rs {
			for ip := uint64(r[0]); ip <= uint64(r[1]); ip++ {
				if _, ok := byIP[uint32(ip)]; ok {
					held = append(held, uint32(ip))
					found = true
					break walk
				}
			}
		}
		if !found {
			unfound = append(unfound, rs)
		}
	}
	return
}

func freeSet(dump []plugin.IPAMRec) map[uint32]bool {
	m := map[uint32]bool{}
	for _, r := range dump {
		if r.Free {
			m[r.IP] = true
		}
	}
	return m
}

// freeRoutableIn: some free address of the range list is routable from the node.
func freeRoutableIn(pools []plugin.Pool, free map[uint32]bool, rs [][2]uint32, nodeIP uint32) bool {
	for _, r := range rs {
		for ip := uint64(r[0]); ip <= uint64(r[1]); ip++ {
			if free[uint32(ip)] && Routable(pools, uint32(ip), nodeIP) {
				return true
			}
		}
	}
	return false
}

func anyFreeRoutable(pools []plugin.Pool, free map[uint32]bool, nodeIP uint32) bool {
	for ip := range free {
		if Routable(pools, ip, nodeIP) {
			return true
		}
	}
	return false
}

// storeHoldsFreeAddress: some FloatingIP object of the store names an address the IPAM memory lists as unallocated
// (memory and store disagree - the state C05 excludes); used only to name the class of a failed bind.
func storeHoldsFreeAddress(w *plugin.World) bool {
	fl, err := w.Galaxy.GalaxyV1alpha1().FloatingIPs().List(context.TODO(), metav1.ListOptions{})
	if err != nil {
		return false
	}
	free := freeSet(w.IPAMDump())
	for _, o := range fl.Items {
		if ip, ok := plugin.ParseIPv4(o.Name); ok && free[ip] {
			return true
		}
	}
	return false
}

func resClass(res string) string {
	if strings.HasPrefix(res, "ok") {
		return "ok"
	}
	return strings.TrimPrefix(res, "err ")
}

// Monitor is the oracle of property C06, written from the property statement and evaluated on what the REAL Filter and
// Bind answered: the filter result, the bind result class, the binding annotation as the (fake) API server stored it,
// the IPAM dump before the filter and the pool configuration.  It is independent of the Lean model.
func Monitor(w *plugin.World, step int) (out []hx.Violation) {
	st, _ := w.Mon["c06"].(*monState)
	if st == nil {
		st = &monState{stats: map[string]int{}}
		w.Mon["c06"] = st
	}
	f := strings.Fields(w.LastOp.Line)
	defer func() {
		st.prev = w.IPAMDump()
		for i := range out {
			if st.reloaded && !strings.Contains(out[i].Signature, SufAfterReload) {
				out[i].Signature += SufAfterReload
			}
			if st.faulted && !strings.Contains(out[i].Signature, SufAfterFault) {
				out[i].Signature += SufAfterFault
			}
		}
		// remember faults of THIS op for the following ones
		if n := len(f); n >= 3 {
			switch w.LastOp.Kind {
			case "filter":
				st.faulted = st.faulted || (n == 7 && f[6] != "0")
			case "bind":
				st.faulted = st.faulted || (n >= 9 && (f[7] != "0" || f[8] != "0"))
			case "deliver":
				st.faulted = st.faulted || (n == 4 && (f[2] != "0" || f[3] != "0"))
			case "reload":
				st.faulted = st.faulted || (n == 3 && f[2] != "0")
			}
		}
	}()
	res := w.LastOp.Result
	pools := w.Pools
	switch {
	case w.LastOp.Kind == "filter" && len(f) == 7:
		st.last = nil
		pod := w.TruthPod(f[1], f[2])
		if pod == nil || f[6] != "0" || !strings.HasPrefix(res, "ok nodes=") {
			return nil
		}
		if lp := w.ListerPod(f[1], f[2]); lp == nil || lp.UID != pod.UID {
			return nil // the scheduler and the plugin do not see the same pod: outside "nothing else changes"
		}
		wants := false
		for _, c := range pod.Spec.Containers {
			if _, ok := c.Resources.Requests[corev1.ResourceName(constant.ResourceName)]; ok {
				wants = true
			}
		}
		if !wants {
			return nil
		}
		keyObj, err := util.FormatKey(pod)
		if err != nil {
			return nil
		}
		rss := requestOf(pod)
		held, unfound, owned := heldBy(st.prev, keyObj.KeyInDB, rss)
		obs := &filterObs{step: step, ns: f[1], name: f[2], uid: string(pod.UID), approved: map[string]bool{},
			wf: WFConf(pools) && WFRequest(rss), deflt: defaultPolicy(pod), held: held}
		obs.multi = len(rss) == 0 && owned >= 2
		obs.fresh = obs.deflt && len(held) == 0 && owned == 0
		if obs.multi {
			st.stats["monitor:no-ranges-multi-owner-filter"]++
			if f[4] != "-" && f[4] != fmt.Sprint(held[0]) {
				st.notMin = append(st.notMin, fmt.Sprintf("step %d filter: observed first address %s, lowest address of the key is %d", step, f[4], held[0]))
			}
		}
		if f[3] != "-" {
			obs.cand = strings.Split(f[3], ",")
		}
		if r := strings.TrimPrefix(res, "ok nodes="); r != "-" {
			for _, n := range strings.Split(r, ",") {
				obs.approved[n] = true
			}
		}
		st.last = obs
		if st.reloaded {
			st.stats["monitor:filter-after-reload"]++
		}
		if !obs.wf {
			st.stats["monitor:filter-outside-wf-not-judged"]++
			return nil
		}
		if len(held) > 0 {
			st.stats["monitor:holder-filter-checked"]++
		}
		if obs.deflt {
			if obs.fresh {
				st.stats["monitor:fresh-exactness-checked"]++
			} else {
				st.stats["monitor:holder-exactness-checked"]++
			}
		}
		suf := ""
		free := freeSet(st.prev)
		for _, n := range obs.cand {
			nip, known := nodeIPOf(w.Conf, n)
			if !known {
				continue
			}
			// "a pod that already holds an IP is only offered nodes from which that IP is routable"
			if obs.approved[n] {
				for _, ip := range held {
					if !Routable(pools, ip, nip) {
						out = append(out, hx.Violation{Signature: SigHolderUnroutable + suf,
							What: fmt.Sprintf("filter offers node %s to pod %s/%s which holds %s, not routable from that node",
								n, f[1], f[2], plugin.IPStr(ip))})
					}
				}
			}
			// "of the candidate nodes a fresh default-policy pod is offered exactly those that still have a free
			// routable IP" (and the same exactness for a default-policy pod that holds some of its ranges' addresses)
			if !obs.deflt {
				continue
			}
			want := true
			for _, ip := range held {
				if !Routable(pools, ip, nip) {
					want = false
				}
			}
			if len(rss) == 0 {
				if owned == 0 {
					want = anyFreeRoutable(pools, free, nip)
				}
			} else {
				for _, rs := range unfound {
					if !freeRoutableIn(pools, free, rs, nip) {
						want = false
					}
				}
			}
			if want && !obs.approved[n] {
				sig := SigHolderNotOffered
				if obs.fresh {
					sig = SigFreshNotOffered
				}
				out = append(out, hx.Violation{Signature: sig, What: fmt.Sprintf(
					"filter rejects candidate node %s for default-policy pod %s/%s although every requested range has a free address routable from it (held %v)",
					n, f[1], f[2], held)})
			}
			if !want && obs.approved[n] {
				sig := SigHolderOfferedNoFree
				if obs.fresh {
					sig = SigFreshOffered
				}
				out = append(out, hx.Violation{Signature: sig, What: fmt.Sprintf(
					"filter offers node %s to default-policy pod %s/%s although some requested range has no free address routable from it (held %v)",
					n, f[1], f[2], held)})
			}
		}
	case w.LastOp.Kind == "bind" && (len(f) == 9 || (len(f) == 10 && f[9] == "truthful")):
		last := st.last
		st.last = nil
		tp := w.TruthPod(f[1], f[2])
		// mask, gateway and vlan written with an address are its pool's - for every successful bind
		if strings.HasPrefix(res, "ok") && tp != nil {
			st.stats["monitor:ipinfo-checked"]++
			for _, h := range plugin.HandedIPs(tp) {
				p, ok := PoolOf(pools, h[0])
				if !ok {
					out = append(out, hx.Violation{Signature: SigIPInfo + "pool", What: fmt.Sprintf(
						"bind wrote %s which belongs to no configured pool", plugin.IPStr(h[0]))})
					continue
				}
				if int(h[1]) != p.Bits {
					out = append(out, hx.Violation{Signature: SigIPInfo + "mask", What: fmt.Sprintf(
						"bind wrote %s/%d, its pool has /%d", plugin.IPStr(h[0]), h[1], p.Bits)})
				}
				if h[2] != p.Gateway {
					out = append(out, hx.Violation{Signature: SigIPInfo + "gateway", What: fmt.Sprintf(
						"bind wrote %s with gateway %s, its pool has %s", plugin.IPStr(h[0]), plugin.IPStr(h[2]), plugin.IPStr(p.Gateway))})
				}
				if int(h[3]) != p.Vlan {
					out = append(out, hx.Violation{Signature: SigIPInfo + "vlan", What: fmt.Sprintf(
						"bind wrote %s with vlan %d, its pool has %d", plugin.IPStr(h[0]), h[3], p.Vlan)})
				}
			}
		}
		if last == nil || last.step != step-1 || last.ns != f[1] || last.name != f[2] || f[7] != "0" || f[8] != "0" ||
			w.LastOp.StaleBind || tp == nil || string(tp.UID) != last.uid || !last.wf {
			return out
		}
		if f[3] != "0" && "u"+f[3] != last.uid {
			return out
		}
		node := f[4]
		nip, known := nodeIPOf(w.Conf, node)
		if !known {
			return out
		}
		suf := ""
		cls := resClass(res)
		if last.multi && len(last.held) == 1 {
			st.stats["monitor:no-ranges-multi-owner-bind"]++
			// (when Bind refuses - "waiting for delete event" - nothing shows which address came first: the token is then
			// the executor's guess, not an observation)
			if cls == "ok" && f[5] != "-" && f[5] != fmt.Sprint(last.held[0]) {
				st.notMin = append(st.notMin, fmt.Sprintf("step %d bind: observed first address %s, lowest address of the key is %d", step, f[5], last.held[0]))
			}
			if cls == "ok" {
				hs := plugin.HandedIPs(tp)
				if len(hs) != 1 || hs[0][0] != last.held[0] {
					out = append(out, hx.Violation{Signature: SigNotLowest, What: fmt.Sprintf(
						"pod %s/%s requests no ranges and its key holds several addresses, lowest %s; bind wrote %v", f[1], f[2],
						plugin.IPStr(last.held[0]), hs)})
				}
			}
		}
		if last.approved[node] {
			st.stats["monitor:bind-after-approval-checked:"+cls]++
			// "if filter returns a node and nothing else changes, bind on that node succeeds (or waits for the delete event)"
			if cls != "ok" && cls != "waiting-for-delete" {
				if cls == "other" && storeHoldsFreeAddress(w) {
					cls = "already-exists" // the store owns an address the memory cache lists as unallocated
				}
				out = append(out, hx.Violation{Signature: SigBindFailed + cls, What: fmt.Sprintf(
					"filter approved node %s for pod %s/%s, the immediately following bind on it answered %q", node, f[1], f[2], res)})
			}
			// "the IP written to the pod belongs to a pool whose node subnets contain that node's address"
			if cls == "ok" {
				for _, h := range plugin.HandedIPs(tp) {
					if !Routable(pools, h[0], nip) {
						out = append(out, hx.Violation{Signature: SigNotRoutable + suf, What: fmt.Sprintf(
							"bind on filter-approved node %s wrote %s, whose pool lists no subnet containing the node's address %s",
							node, plugin.IPStr(h[0]), plugin.IPStr(nip))})
					}
				}
			}
		} else if last.fresh && cls != "ok" {
			st.stats["monitor:rejected-node-bind-fails-as-expected"]++
		} else if last.fresh && cls == "ok" {
			// the "exactly those" direction, observed through Bind itself: a rejected candidate must have no routable
			// free address, so a bind on it cannot succeed
			for _, c := range last.cand {
				if c == node {
					out = append(out, hx.Violation{Signature: SigFreshNotOffered, What: fmt.Sprintf(
						"filter rejected candidate node %s for fresh default-policy pod %s/%s, but the bind on it succeeded", node, f[1], f[2])})
				}
			}
		}
	default:
		if w.LastOp.Kind != "dump" {
			st.last = nil
		}
		if w.LastOp.Kind == "reload" && res == "ok" {
			st.reloaded = true
			st.stats["monitor:reload-went-through"]++
		}
	}
	return out
}
