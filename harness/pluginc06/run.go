package pluginc06

import (
	"fmt"
	"math/rand"
	"os"
	"path/filepath"
	"sort"
	"strings"
	"sync"
	"time"

	"gxverif/hx"
	"gxverif/plugin"
)

const Rule = "a case is nontrivial iff its final Filter approved at least one node and a Bind on an approved node was executed; " +
	"distinct by topology + allocation state + request + candidate nodes (corpus histories: distinct by op text)"

const prop = "C06"

func verifRoot() string {
	if r := os.Getenv("VERIF_ROOT"); r != "" {
		return r
	}
	return "/verif"
}

type runResult struct {
	t      *plugin.Transcript
	out    Outcome
	err    error
	notMin []string
}

func runCopy(c *Case, sel BindSel, seed int64) runResult {
	var out Outcome
	t, w, err := plugin.Execute(c.Conf, rand.New(rand.NewSource(seed)), c.Script(sel, &out), Monitor, 600)
	if err == nil {
		for k, v := range MonitorStats(w) {
			t.Stats[k] += v
		}
		return runResult{t, out, err, ChoiceDisagreements(w)}
	}
	return runResult{t, out, err, nil}
}

// compareBatch pipes many transcripts through ONE gxdrv_plugin process (every history starts with `init`, which resets
// the model) and returns, per transcript, the first disagreement.
func compareBatch(e *hx.Env, ts []*plugin.Transcript) ([]*hx.Disagreement, error) {
	var lines []string
	for _, t := range ts {
		lines = append(lines, t.Lines...)
	}
	var out []string
	var err error
	for try := 0; try < 4; try++ { // the driver binary may be re-linked by a concurrent build: retry
		if out, err = e.RunDriver("plugin", lines); err == nil {
			break
		}
		time.Sleep(time.Duration(try+1) * time.Second)
	}
	if err != nil {
		return nil, err
	}
	res := make([]*hx.Disagreement, len(ts))
	off := 0
	for k, t := range ts {
		for i := range t.Lines {
			if !plugin.ResultsAgree(t.Impl[i], out[off+i]) {
				where := strings.Fields(t.Lines[i])[0]
				if t.Lines[i] == "dump" && i > 0 {
					where = "state-after:" + strings.Fields(t.Lines[i-1])[0]
				}
				res[k] = &hx.Disagreement{Where: where, Index: i, Impl: t.Impl[i], Model: out[off+i], Ops: t.Ops}
				break
			}
		}
		off += len(t.Lines)
	}
	return res, nil
}

type collector struct {
	mu      sync.Mutex
	e       *hx.Env
	r       *hx.Report
	pending []*plugin.Transcript
	shrunk  map[string]bool
	nviol   int
	ndis    int
}

func (c *collector) hit(k string) { c.r.Histogram[k]++ }

// addTranscript records a finished history: violations (with shrunk replay for the first of each kind), hang, stats;
// the correspondence comparison is batched.
func (c *collector) addTranscript(t *plugin.Transcript, name string, notMin ...string) {
	c.mu.Lock()
	defer c.mu.Unlock()
	c.r.Traces++
	for _, m := range notMin {
		p := c.e.WriteReplay(prop, "history", "choice-not-min-"+name, []string{"where=choice-is-min", "what=" + m}, t.Ops)
		c.r.Disagree = append(c.r.Disagree, hx.Disagreement{Where: "choice-is-min", Impl: m, Model: "choiceIsMin: the first address must be the lowest address of the key", Replay: p, Ops: t.Ops})
	}
	for k, v := range t.Stats {
		c.r.Histogram[k] += v
	}
	n, _ := c.r.Extra["ops_executed"].(int)
	c.r.Extra["ops_executed"] = n + len(t.Ops) - 1
	if t.Hang != "" {
		p := c.e.WriteReplay(prop, "history", "hang-"+name, []string{"outcome=" + t.Hang}, t.Ops)
		c.r.Violations = append(c.r.Violations, hx.Violation{Signature: "op-" + strings.Fields(t.Hang)[0],
			What: "operation did not return normally: " + t.Hang, Replay: p})
	}
	for _, v := range t.Violations {
		c.nviol++
		ops := v.Ops
		if !c.shrunk[v.Signature] {
			c.shrunk[v.Signature] = true
			sig := v.Signature
			deadline := time.Now().Add(20 * time.Second)
			ops = plugin.Shrink(ops, func(cand []string) bool {
				if time.Now().After(deadline) {
					return false
				}
				for try := 0; try < 3; try++ { // map order: a few attempts
					t2, err := plugin.ReplayOps(cand, rand.New(rand.NewSource(1)), Monitor)
					if err != nil {
						return false
					}
					for _, v2 := range t2.Violations {
						if v2.Signature == sig {
							return true
						}
					}
				}
				return false
			})
		} else if c.nviol > 40 {
			continue
		}
		v.Ops = ops
		v.Replay = c.e.WriteReplay(prop, "history", fmt.Sprintf("viol-%s-%s", sanitize(v.Signature), name),
			[]string{"signature=" + v.Signature, "what=" + v.What, "repeat=20"}, ops)
		c.r.Violations = append(c.r.Violations, v)
	}
	c.pending = append(c.pending, t)
	if len(c.pending) >= 150 {
		c.flushLocked()
	}
}

func (c *collector) flushLocked() {
	if len(c.pending) == 0 {
		return
	}
	ts := c.pending
	c.pending = nil
	ds, err := compareBatch(c.e, ts)
	if err != nil {
		c.r.Disagree = append(c.r.Disagree, hx.Disagreement{Where: "driver-failed", Impl: err.Error()})
		return
	}
	for i, d := range ds {
		if d == nil {
			continue
		}
		c.ndis++
		if c.ndis > 25 {
			continue
		}
		d.Replay = c.e.WriteReplay(prop, "history", fmt.Sprintf("disagree-%d-%d", c.r.Traces, i),
			[]string{"where=" + d.Where, fmt.Sprintf("line-index=%d", d.Index), "impl=" + d.Impl, "model=" + d.Model}, ts[i].Ops)
		c.r.Disagree = append(c.r.Disagree, *d)
	}
}

func (c *collector) flush() {
	c.mu.Lock()
	defer c.mu.Unlock()
	c.flushLocked()
}

func sanitize(s string) string {
	var b strings.Builder
	for _, r := range s {
		if (r >= 'a' && r <= 'z') || (r >= 'A' && r <= 'Z') || (r >= '0' && r <= '9') || r == '-' {
			b.WriteRune(r)
		} else {
			b.WriteByte('_')
		}
	}
	return b.String()
}

func topologyShape(c plugin.Conf) []string {
	var out []string
	bySub := map[uint32]int{}
	has32, has26 := false, false
	subUse := map[plugin.Subnet]int{}
	for _, p := range c.Pools {
		bySub[p.Gateway>>8]++
		for _, n := range p.NodeSubnets {
			subUse[n]++
			if n.Bits == 32 {
				has32 = true
			}
			if n.Bits == 26 {
				has26 = true
			}
		}
	}
	for _, k := range bySub {
		if k >= 2 {
			out = append(out, "topology:pools-share-pod-subnet")
			break
		}
	}
	for _, k := range subUse {
		if k >= 2 {
			out = append(out, "topology:node-subnet-shared-by-pools")
			break
		}
	}
	if has32 {
		out = append(out, "topology:/32-node-subnet")
	}
	if has26 {
		out = append(out, "topology:/26-node-subnet")
	}
	// adjacent ranges of different pools
	type end struct {
		ip   uint32
		pool int
	}
	firsts := map[uint32]int{}
	for i, p := range c.Pools {
		for _, r := range p.Ranges {
			firsts[r[0]] = i
		}
	}
	for i, p := range c.Pools {
		for _, r := range p.Ranges {
			if j, ok := firsts[r[1]+1]; ok && j != i {
				out = append(out, "topology:adjacent-ranges-of-two-pools")
			}
		}
	}
	for i, p := range c.Pools {
		if len(p.Ranges) == 0 {
			pos := "last"
			for j, q := range c.Pools {
				if j != i && len(q.Ranges) > 0 && q.Gateway > p.Gateway {
					pos = "before-a-pool-with-addresses"
				}
			}
			out = append(out, "topology:pool-without-addresses:"+pos)
		}
	}
	for _, n := range c.Nodes {
		if !HasSubnet(c.Pools, n.IP) {
			out = append(out, "topology:node-in-no-subnet")
			break
		}
	}
	out = append(out, fmt.Sprintf("topology:pools=%d", len(c.Pools)), fmt.Sprintf("topology:nodes=%d", len(c.Nodes)))
	return out
}

func spansTwoPools(c plugin.Conf, rss [][][2]uint32) bool {
	for _, l := range rss {
		seen := map[uint32]bool{}
		for _, r := range l {
			for ip := r[0]; ip <= r[1]; ip++ {
				if p, ok := PoolOf(c.Pools, ip); ok {
					seen[p.Gateway] = true
				}
			}
		}
		if len(seen) >= 2 {
			return true
		}
	}
	return false
}

// runCase executes one case: copy 0 = filter + bind on the first approved node, one more copy (same deterministic
// prefix, fresh world) for every further approved node, and one for a rejected candidate that lies in a configured
// subnet.
func runCase(col *collector, c *Case, seed int64, name string, maxCopies int) {
	first := runCopy(c, BindSel{K: 0}, seed)
	if first.err != nil {
		col.mu.Lock()
		col.hit("case:configuration-rejected")
		col.r.Case("", false)
		col.mu.Unlock()
		return
	}
	col.addTranscript(first.t, name+"-0", first.notMin...)
	copies := 1
	bound := 0
	if first.out.Bound != "" {
		bound++
	}
	if len(first.t.Violations) == 0 && first.t.Hang == "" {
		for k := 1; k < len(first.out.Approved) && copies < maxCopies; k++ {
			r := runCopy(c, BindSel{K: k}, seed)
			if r.err == nil {
				col.addTranscript(r.t, fmt.Sprintf("%s-%d", name, k), r.notMin...)
				copies++
				if r.out.Bound != "" {
					bound++
				}
			}
		}
		if len(first.out.Rejected) > 0 {
			r := runCopy(c, BindSel{Rejected: true}, seed)
			if r.err == nil {
				col.addTranscript(r.t, name+"-rej", r.notMin...)
				col.mu.Lock()
				col.hit("case:bind-on-rejected-node")
				col.mu.Unlock()
			}
		}
	}
	col.mu.Lock()
	defer col.mu.Unlock()
	r := col.r
	t := c.Target
	r.Case(c.Describe(), first.out.Filtered && bound > 0)
	col.hit(fmt.Sprintf("target:%s/policy=%d", t.Kind, t.Policy))
	if t.Pool != "" {
		col.hit("target:named-pool")
	}
	col.hit(fmt.Sprintf("request:range-lists=%d", len(t.Ranges)))
	if spansTwoPools(c.Conf, t.Ranges) {
		col.hit("request:list-spans-two-pools")
	}
	if c.WF {
		col.hit("stream:well-formed")
	} else {
		col.hit("stream:not-well-formed")
	}
	for _, s := range topologyShape(c.Conf) {
		col.hit(s)
	}
	col.hit(fmt.Sprintf("state:held=%d", len(c.Held)))
	if c.Pending {
		col.hit("state:delete-event-pending")
	}
	if c.Siblings > 0 {
		col.hit("state:reserved-for-deployment")
	}
	if c.Reload != nil {
		col.hit("history:reload-before-target:" + c.ReloadKind)
	}
	if c.FaultPrefix != "" {
		col.hit("history:fault-in-prefix:" + c.FaultPrefix)
	}
	if len(c.Others) > 0 {
		col.hit("state:other-pods-hold-addresses")
	}
	if !first.out.Filtered {
		col.hit("case:filter-not-reached")
	}
	col.hit(fmt.Sprintf("filter:approved=%d", min(len(first.out.Approved), 5)))
	col.hit(fmt.Sprintf("filter:rejected-with-subnet=%d", min(len(first.out.Rejected), 5)))
	col.hit(fmt.Sprintf("case:binds=%d", min(bound, 5)))
	if len(r.Samples) < 4 {
		ops := first.t.Ops
		if len(ops) > 30 {
			ops = ops[len(ops)-30:]
		}
		r.Sample(map[string]interface{}{"case": c.Describe(), "tail": ops})
	}
}

func min(a, b int) int {
	if a < b {
		return a
	}
	return b
}

// readReplay returns the op lines and the `repeat=N` header (how often a history that depends on Go map order is
// tried before it counts as not reproducing).
func readReplay(path string) ([]string, int, error) {
	b, err := os.ReadFile(path)
	if err != nil {
		return nil, 0, err
	}
	repeat := 1
	var ops []string
	for _, l := range strings.Split(string(b), "\n") {
		if strings.HasPrefix(l, "# repeat=") {
			fmt.Sscanf(l, "# repeat=%d", &repeat)
		}
		if l == "" || strings.HasPrefix(l, "#") {
			continue
		}
		ops = append(ops, l)
	}
	return ops, repeat, nil
}

// runFile replays one ops file (corpus or -replay): monitor + correspondence.
func runFile(col *collector, path string, isCorpus bool) {
	r := col.r
	ops, repeat, err := readReplay(path)
	if err != nil || len(ops) == 0 {
		r.Disagree = append(r.Disagree, hx.Disagreement{Where: "replay-unreadable", Impl: path, Replay: path})
		return
	}
	if strings.HasPrefix(ops[0], "{") { // kind=obligation: nothing to execute
		return
	}
	var last *plugin.Transcript
	for i := 0; i < repeat; i++ {
		conf, err := plugin.ParseInitLine(ops[0])
		var t *plugin.Transcript
		var w *plugin.World
		if err == nil {
			t, w, err = plugin.Execute(conf, rand.New(rand.NewSource(col.e.Seed+int64(i))), plugin.FixedScript(ops[1:]), Monitor, len(ops))
		}
		if err != nil {
			r.Disagree = append(r.Disagree, hx.Disagreement{Where: "replay-failed", Impl: err.Error(), Replay: path})
			return
		}
		last = t
		for k, v := range MonitorStats(w) {
			t.Stats[k] += v
		}
		nm := ChoiceDisagreements(w)
		for _, m := range nm {
			r.Disagree = append(r.Disagree, hx.Disagreement{Where: "choice-is-min", Impl: m,
				Model: "choiceIsMin: the first address must be the lowest address of the key", Replay: path, Ops: t.Ops})
		}
		if len(t.Violations) > 0 || t.Hang != "" || len(nm) > 0 {
			break
		}
	}
	t := last
	r.Traces++
	r.Case(strings.Join(t.Ops, "\n"), true)
	for k, v := range t.Stats {
		r.Histogram[k] += v
	}
	if isCorpus {
		r.Hit("corpus-history")
	}
	for _, v := range t.Violations {
		v.Replay = path
		r.Violations = append(r.Violations, v)
	}
	if t.Hang != "" {
		r.Violations = append(r.Violations, hx.Violation{Signature: "op-" + strings.Fields(t.Hang)[0], What: t.Hang, Replay: path})
	}
	ds, err := compareBatch(col.e, []*plugin.Transcript{t})
	if err != nil {
		r.Disagree = append(r.Disagree, hx.Disagreement{Where: "driver-failed", Impl: err.Error(), Replay: path})
		return
	}
	if ds[0] != nil {
		ds[0].Replay = path
		r.Disagree = append(r.Disagree, *ds[0])
	}
}

// Run is the body of harness/cmd/c06.
func Run(e *hx.Env) *hx.Report {
	// work on a private copy of the model driver: a long run must not depend on the build directory staying untouched
	if tmp, err := os.MkdirTemp("", "gxdrv-c06-"); err == nil {
		defer os.RemoveAll(tmp)
		if b, err := os.ReadFile(filepath.Join(e.Driver, "gxdrv_plugin")); err == nil {
			if os.WriteFile(filepath.Join(tmp, "gxdrv_plugin"), b, 0o755) == nil {
				e2 := *e
				e2.Driver = tmp
				e = &e2
			}
		}
	}
	r := hx.NewReport(prop, e.Tier, e.Seed, Rule)
	col := &collector{e: e, r: r, shrunk: map[string]bool{}}
	if e.Replay != "" {
		runFile(col, e.Replay, false)
		return r
	}
	files, _ := filepath.Glob(filepath.Join(verifRoot(), "corpus", prop, "*.ops"))
	sort.Strings(files)
	for _, f := range files {
		runFile(col, f, true)
	}
	t0 := time.Now()
	n := e.N(4000, 60000)
	seeds := make([]int64, n)
	for i := range seeds {
		seeds[i] = e.Rng.Int63()
	}
	var wg sync.WaitGroup
	sem := make(chan struct{}, 32)
	for i := 0; i < n; i++ {
		wg.Add(1)
		sem <- struct{}{}
		go func(i int) {
			defer wg.Done()
			defer func() { <-sem }()
			rng := rand.New(rand.NewSource(seeds[i]))
			c := GenCase(rng)
			runCase(col, c, seeds[i], fmt.Sprintf("case%d", i), 5)
		}(i)
	}
	wg.Wait()
	col.flush()
	fmt.Fprintf(os.Stderr, "C06: %d random cases %.1fs\n", n, time.Since(t0).Seconds())
	if e.Thorough() {
		t0 = time.Now()
		states, cases := Exhaustive(col, 11*60)
		col.flush()
		r.Extra["exhaustive_allocation_states"] = states
		r.Extra["exhaustive_cases"] = cases
		r.Exhaustive = false // exhaustive over the small scope only (see Extra)
		fmt.Fprintf(os.Stderr, "C06: small-scope exhaustive %d cases %.1fs\n", cases, time.Since(t0).Seconds())
	}
	r.Extra["histories"] = r.Traces
	return r
}
