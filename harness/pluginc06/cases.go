package pluginc06

import (
	"fmt"
	"math/rand"
	"sort"
	"strconv"
	"strings"

	"gxverif/plugin"
)

// Target is the pod whose Filter / Bind the case examines.
type Target struct {
	NS, Name, Kind, App, Pool string
	Policy                    int
	Ranges                    [][][2]uint32
}

// Case is one generated input: a topology, an allocation state (built by real operations: other pods' addresses,
// addresses already stored under the target's key, addresses reserved for the deployment), the target pod and the
// candidate nodes.
type Case struct {
	Conf     plugin.Conf
	WF       bool
	Prelude  []string
	Others   []uint32 // addresses taken by other pods
	Held     []uint32 // addresses stored under the target's key by earlier incarnations (each requested it alone)
	Pending  bool     // the delete event of the last earlier incarnation has not been delivered
	Siblings int      // deployment: sibling pods bound and deleted before (their addresses are reserved under the prefix key)
	Target   Target
	Cand     []string
	// Reload: after the allocation state is built and a warm-up Filter has cached every node's subnet, the configuration is
	// reloaded through the real updateConfigMap path with these pools (same addresses, changed node subnets); the target
	// is created, filtered and bound afterwards.  nil = no reload.
	Reload     []plugin.Pool
	ReloadKind string
	// FaultPrefix: an operation of the PREFIX history runs with ONE injected apiserver fault (the state the case starts
	// from is then a state reached through a fault); the final filter -> bind runs fault-free as always.
	//   "bind-create":    the target's first bind attempt fails at the store Create of its 2nd or a later address
	//   "filter-update":  a first filter of the target fails at the Get/Update of the re-key of a reserved address
	//   "release-delete": the release of another pod's address fails at the store Delete once, then is retried
	//   "reload-delete":  a reload drops an allocated address from the configuration and its store Delete fails
	FaultPrefix string
	FaultIndex  int
}

func tilde(s string) string {
	if s == "" {
		return "~"
	}
	return s
}

func (t Target) createLine(policy int, ranges [][][2]uint32) string {
	return fmt.Sprintf("pod create %s %s %s %s %s %d %s 1", t.NS, t.Name, t.Kind, tilde(t.App), tilde(t.Pool), policy,
		plugin.RangesLine(ranges))
}

type lineFn func(w *plugin.World) string

func fixed(s string) lineFn { return func(*plugin.World) string { return s } }

func approvedOf(w *plugin.World) []string {
	r := w.LastOp.Result
	if w.LastOp.Kind != "filter" || !strings.HasPrefix(r, "ok nodes=") || r == "ok nodes=-" {
		return nil
	}
	return strings.Split(strings.TrimPrefix(r, "ok nodes="), ",")
}

func uidOf(w *plugin.World, ns, name string) string {
	if p := w.TruthPod(ns, name); p != nil {
		return strings.TrimPrefix(string(p.UID), "u")
	}
	return "0"
}

func (c *Case) allNodes() string {
	var ns []string
	for _, n := range c.Conf.Nodes {
		ns = append(ns, n.Name)
	}
	return strings.Join(ns, ",")
}

// scheduleFirst: filter on all nodes, bind on the first approved node (nothing if none is approved).
func (c *Case) scheduleFirst(ns, name string) []lineFn {
	var node string
	return []lineFn{
		fixed("sync pods"),
		fixed(fmt.Sprintf("filter %s %s %s ? ? 0", ns, name, c.allNodes())),
		func(w *plugin.World) string {
			a := approvedOf(w)
			if len(a) == 0 {
				node = ""
				return "sync pods"
			}
			node = a[0]
			return fmt.Sprintf("bind %s %s %s %s ? ? 0 0", ns, name, uidOf(w, ns, name), node)
		},
	}
}

func deliverLast(w *plugin.World) string {
	if len(w.Events) == 0 {
		return "sync pods"
	}
	return fmt.Sprintf("deliver %d 0 0", len(w.Events)-1)
}

// BindSel selects the node of the final bind: the k-th approved node, or the first rejected candidate that lies in a
// configured subnet (Rejected), or none.
type BindSel struct {
	K        int
	Rejected bool
	None     bool
}

// Outcome is what a run of the case's script observed at its final filter.
type Outcome struct {
	Filtered bool
	Approved []string
	Rejected []string // rejected candidates that lie in a configured node subnet
	Bound    string
}

// Script builds the op-line script of the case: prelude, allocation state, target, final filter, final bind.
func (c *Case) Script(sel BindSel, out *Outcome) plugin.Script {
	var prog []lineFn
	for _, l := range c.Prelude {
		prog = append(prog, fixed(l))
	}
	for i, ip := range c.Others {
		name := "o" + strconv.Itoa(i)
		prog = append(prog, fixed(fmt.Sprintf("pod create ns1 %s bare ~ ~ 0 %d-%d 1", name, ip, ip)))
		prog = append(prog, c.scheduleFirst("ns1", name)...)
	}
	t := c.Target
	for j := 0; j < c.Siblings; j++ {
		sib := fmt.Sprintf("%s-y%d", t.App, j)
		prog = append(prog, fixed(fmt.Sprintf("pod create %s %s %s %s %s %d - 1", t.NS, sib, t.Kind, tilde(t.App), tilde(t.Pool), t.Policy)))
		prog = append(prog, c.scheduleFirst(t.NS, sib)...)
		prog = append(prog, fixed(fmt.Sprintf("pod delete %s %s", t.NS, sib)), deliverLast)
	}
	for i, ip := range c.Held {
		prog = append(prog, fixed(t.createLine(2, [][][2]uint32{{{ip, ip}}})))
		prog = append(prog, c.scheduleFirst(t.NS, t.Name)...)
		prog = append(prog, fixed(fmt.Sprintf("pod delete %s %s", t.NS, t.Name)))
		if !(c.Pending && i == len(c.Held)-1) {
			prog = append(prog, deliverLast)
		}
	}
	if c.Reload != nil {
		// warm-up: a Filter over ALL nodes caches their subnets under the old configuration
		prog = append(prog, fixed("pod create ns1 warm bare ~ ~ 0 - 1"), fixed("sync pods"),
			fixed(fmt.Sprintf("filter ns1 warm %s ? ? 0", c.allNodes())),
			fixed(fmt.Sprintf("reload %s %d", plugin.PoolsLine(c.Reload), map[bool]int{true: c.FaultIndex, false: 0}[c.FaultPrefix == "reload-delete"])))
	}
	if c.FaultPrefix == "release-delete" {
		prog = append(prog, fixed(fmt.Sprintf("pod create ns1 rel0 bare ~ ~ 0 %d-%d 1", c.FaultIndex, c.FaultIndex)))
		prog = append(prog, c.scheduleFirst("ns1", "rel0")...)
		prog = append(prog, fixed("pod delete ns1 rel0"), func(w *plugin.World) string {
			if len(w.Events) == 0 {
				return "sync pods"
			}
			return fmt.Sprintf("deliver %d 1 0", len(w.Events)-1) // the store Delete fails: the event is queued again
		}, deliverLast)
	}
	abort := false
	prog = append(prog, fixed(t.createLine(t.Policy, t.Ranges)), fixed("sync pods"))
	switch c.FaultPrefix {
	case "bind-create":
		prog = append(prog, fixed(fmt.Sprintf("filter %s %s %s ? ? 0", t.NS, t.Name, c.allNodes())),
			func(w *plugin.World) string {
				a := approvedOf(w)
				if len(a) == 0 {
					return "sync pods"
				}
				return fmt.Sprintf("bind %s %s %s %s ? ? %d 0", t.NS, t.Name, uidOf(w, t.NS, t.Name), a[0], c.FaultIndex)
			},
			func(w *plugin.World) string {
				// the fault index may lie beyond the calls the bind made: then the pod is bound and the case ends here
				if w.LastOp.Kind == "bind" && strings.HasPrefix(w.LastOp.Result, "ok") {
					abort = true
				}
				return "sync pods"
			})
	case "filter-update":
		prog = append(prog, fixed(fmt.Sprintf("filter %s %s %s ? ? %d", t.NS, t.Name, c.allNodes(), c.FaultIndex)))
	}
	prog = append(prog, fixed(fmt.Sprintf("filter %s %s %s ? ? 0", t.NS, t.Name, dashIfEmpty(strings.Join(c.Cand, ",")))))
	finalFilter := prog[len(prog)-1]
	prog[len(prog)-1] = func(w *plugin.World) string {
		if abort {
			return ""
		}
		return finalFilter(w)
	}
	prog = append(prog, func(w *plugin.World) string {
		if abort {
			return ""
		}
		out.Filtered = true
		out.Approved = approvedOf(w)
		sort.Strings(out.Approved)
		ok := map[string]bool{}
		for _, n := range out.Approved {
			ok[n] = true
		}
		inForce := c.Conf.Pools
		if c.Reload != nil {
			inForce = c.Reload
		}
		for _, n := range c.Cand {
			if nip, known := nodeIPOf(c.Conf, n); known && !ok[n] && HasSubnet(inForce, nip) {
				out.Rejected = append(out.Rejected, n)
			}
		}
		node := ""
		switch {
		case sel.None:
		case sel.Rejected:
			if len(out.Rejected) > 0 {
				node = out.Rejected[0]
			}
		case sel.K < len(out.Approved):
			node = out.Approved[sel.K]
		}
		if node == "" {
			return ""
		}
		out.Bound = node
		return fmt.Sprintf("bind %s %s %s %s ? ? 0 0", t.NS, t.Name, uidOf(w, t.NS, t.Name), node)
	})
	pc := 0
	return func(w *plugin.World, step int) string {
		for pc < len(prog) {
			l := prog[pc](w)
			pc++
			if l != "" {
				return l
			}
			if pc == len(prog) {
				return ""
			}
		}
		return ""
	}
}

func dashIfEmpty(s string) string {
	if s == "" {
		return "-"
	}
	return s
}

// ---- generation ----

// genRanges draws 0-4 pairwise disjoint range lists over the configured addresses: single addresses, sub-spans,
// whole pool ranges, spans across ADJACENT ranges of different pools, lists of two ranges.
func genRanges(rng *rand.Rand, conf plugin.Conf, n int) [][][2]uint32 {
	all := AllIPs(conf.Pools)
	if len(all) == 0 || n == 0 {
		return nil
	}
	// maximal runs of consecutive configured addresses (a run may cross pools that share a pod subnet)
	var runs [][2]uint32
	start := all[0]
	for i := 1; i <= len(all); i++ {
		if i == len(all) || all[i] != all[i-1]+1 {
			runs = append(runs, [2]uint32{start, all[i-1]})
			if i < len(all) {
				start = all[i]
			}
		}
	}
	used := map[uint32]bool{}
	free := func(r [2]uint32) bool {
		for ip := r[0]; ip <= r[1]; ip++ {
			if used[ip] {
				return false
			}
		}
		return true
	}
	mark := func(r [2]uint32) {
		for ip := r[0]; ip <= r[1]; ip++ {
			used[ip] = true
		}
	}
	draw := func() ([2]uint32, bool) {
		for try := 0; try < 8; try++ {
			run := runs[rng.Intn(len(runs))]
			var r [2]uint32
			switch rng.Intn(4) {
			case 0: // single address
				ip := run[0] + uint32(rng.Intn(int(run[1]-run[0])+1))
				r = [2]uint32{ip, ip}
			case 1: // whole run (spans adjacent pools if any)
				r = run
			default: // sub-span
				a := run[0] + uint32(rng.Intn(int(run[1]-run[0])+1))
				b := a + uint32(rng.Intn(int(run[1]-a)+1))
				r = [2]uint32{a, b}
			}
			if free(r) {
				mark(r)
				return r, true
			}
		}
		return [2]uint32{}, false
	}
	var out [][][2]uint32
	for i := 0; i < n; i++ {
		r, ok := draw()
		if !ok {
			break
		}
		l := [][2]uint32{r}
		if rng.Intn(5) == 0 {
			if r2, ok := draw(); ok {
				l = append(l, r2)
			}
		}
		out = append(out, l)
	}
	return out
}

// GenCase draws one case.
func GenCase(rng *rand.Rand) *Case {
	wf := rng.Intn(100) >= 6
	c := &Case{Conf: GenConf(rng, wf), WF: wf}
	all := AllIPs(c.Conf.Pools)
	kinds := []Target{
		{NS: "ns1", Name: "a-0", Kind: "sts", App: "a"},
		{NS: "ns1", Name: "a-1", Kind: "sts", App: "a"},
		{NS: "ns1", Name: "d-x1", Kind: "dp", App: "d"},
		{NS: "ns1", Name: "d-x1", Kind: "dp", App: "d", Pool: "p1"},
		{NS: "ns1", Name: "solo-0", Kind: "bare"},
		{NS: "ns1", Name: "job", Kind: "bare"},
		{NS: "ns1", Name: "t-0", Kind: "other", App: "t"},
	}
	t := kinds[rng.Intn(len(kinds))]
	switch {
	case t.Kind == "sts" || t.Kind == "dp":
		t.Policy = []int{0, 0, 0, 1, 2}[rng.Intn(5)]
	case t.Name == "job": // no numeric suffix: reserving policies are not supported (filter answers an error)
		t.Policy = []int{0, 0, 0, 0, 0, 0, 1, 2}[rng.Intn(8)]
	default: // solo-0, t-0: `never` is supported, `immutable` needs a scalable custom resource
		t.Policy = []int{0, 0, 0, 2, 2, 2, 2, 1}[rng.Intn(8)]
	}
	nr := []int{0, 0, 1, 1, 2, 2, 3, 4}[rng.Intn(8)]
	if t.Kind == "dp" && rng.Intn(10) != 0 {
		nr = 0 // ranges with a deployment are supported for the default policy only; keep them rare
		if t.Policy != 0 && rng.Intn(3) == 0 {
			nr = 1
		}
	}
	t.Ranges = genRanges(rng, c.Conf, nr)
	if wf && len(t.Ranges) >= 2 && rng.Intn(100) < 3 {
		// not well-formed request stream: make two lists overlap
		t.Ranges[1] = append([][2]uint32(nil), t.Ranges[0]...)
		c.WF = false
	}
	c.Target = t
	c.Prelude = append(c.Prelude, fmt.Sprintf("app scale sts ns1 a %d", 1+rng.Intn(3)), fmt.Sprintf("app scale dp ns1 d %d", rng.Intn(4)))
	if t.Pool != "" && rng.Intn(100) < 70 {
		c.Prelude = append(c.Prelude, fmt.Sprintf("pool set p1 %d", rng.Intn(4)))
	}
	c.Prelude = append(c.Prelude, "sync all")
	// allocation state
	inReq := func(ip uint32) bool {
		for _, l := range t.Ranges {
			if inRanges(l, ip) {
				return true
			}
		}
		return false
	}
	pOther := []int{0, 15, 35, 60}[rng.Intn(4)]
	canHold := t.Kind == "sts" || t.Name == "solo-0" || t.Kind == "other"
	pHeld := []int{0, 0, 25, 50}[rng.Intn(4)]
	for _, ip := range all {
		x := rng.Intn(100)
		switch {
		case x < pOther:
			c.Others = append(c.Others, ip)
		case canHold && len(t.Ranges) > 0 && inReq(ip) && x < pOther+pHeld:
			c.Held = append(c.Held, ip)
		}
	}
	if canHold && len(t.Ranges) == 0 && rng.Intn(100) < 35 {
		// a pod without requested ranges that holds ONE address (a statefulset pod's reserved address)
		var cands []uint32
		taken := map[uint32]bool{}
		for _, ip := range c.Others {
			taken[ip] = true
		}
		for _, ip := range all {
			if !taken[ip] {
				cands = append(cands, ip)
			}
		}
		if len(cands) > 0 {
			c.Held = []uint32{cands[rng.Intn(len(cands))]}
			// several addresses under the key of a pod without ranges (its predecessors requested single addresses):
			// filter and bind must both use the lowest one
			for len(c.Held) < 3 && rng.Intn(100) < 45 {
				x := cands[rng.Intn(len(cands))]
				dup := false
				for _, y := range c.Held {
					dup = dup || x == y
				}
				if !dup {
					c.Held = append(c.Held, x)
				}
			}
		}
	}
	if len(c.Held) > 3 {
		c.Held = c.Held[:3]
	}
	if len(c.Held) > 0 && rng.Intn(100) < 15 {
		c.Pending = true
	}
	if t.Kind == "dp" && t.Policy != 0 && len(t.Ranges) == 0 && rng.Intn(100) < 50 {
		c.Siblings = 1 + rng.Intn(2)
	}
	if rng.Intn(100) < 30 {
		c.Reload, c.ReloadKind = genReload(rng, c.Conf.Pools)
	}
	// a fault in the prefix history (the final filter -> bind stays fault-free)
	if x := rng.Intn(100); x < 22 {
		switch {
		case len(t.Ranges) >= 2 && !(t.Kind == "dp" && t.Policy != 0) && x < 12:
			c.FaultPrefix, c.FaultIndex = "bind-create", 2+rng.Intn(len(t.Ranges)-1)
		case c.Siblings > 0 && x < 16:
			c.FaultPrefix, c.FaultIndex = "filter-update", 1+rng.Intn(2)
		case x < 19:
			// an address nobody holds and the target does not request
			taken := map[uint32]bool{}
			for _, ip := range c.Others {
				taken[ip] = true
			}
			for _, ip := range c.Held {
				taken[ip] = true
			}
			for _, ip := range all {
				if !taken[ip] && !inReq(ip) {
					c.FaultPrefix, c.FaultIndex = "release-delete", int(ip)
					break
				}
			}
		case len(c.Others) > 0:
			// the configuration loses an address another pod holds; the Delete of its object fails
			victim := c.Others[rng.Intn(len(c.Others))]
			base := c.Conf.Pools
			if c.Reload != nil {
				base = c.Reload
			}
			np := make([]plugin.Pool, len(base))
			for i, p := range base {
				q := p
				q.Ranges = nil
				for _, r := range p.Ranges {
					switch {
					case victim < r[0] || victim > r[1]:
						q.Ranges = append(q.Ranges, r)
					default:
						if r[0] < victim {
							q.Ranges = append(q.Ranges, [2]uint32{r[0], victim - 1})
						}
						if victim < r[1] {
							q.Ranges = append(q.Ranges, [2]uint32{victim + 1, r[1]})
						}
					}
				}
				np[i] = q
			}
			okConf := true
			for _, p := range np {
				okConf = okConf && len(p.Ranges) > 0
			}
			if okConf {
				c.Reload, c.ReloadKind = np, c.ReloadKind+"+drops-allocated-address"
				c.FaultPrefix, c.FaultIndex = "reload-delete", 3
			}
		}
	}
	// candidate nodes: mostly all nodes, sometimes a subset, rarely none
	for _, n := range c.Conf.Nodes {
		if rng.Intn(100) < 88 {
			c.Cand = append(c.Cand, n.Name)
		}
	}
	return c
}

// genReload changes node subnets of the configuration (addresses stay): a subnet gets a wider or narrower prefix (in every
// pool that lists it, so the result stays "identical or disjoint"), moves to another pool, or is removed from a pool.
func genReload(rng *rand.Rand, pools []plugin.Pool) ([]plugin.Pool, string) {
	out := make([]plugin.Pool, len(pools))
	for i, p := range pools {
		q := p
		q.NodeSubnets = append([]plugin.Subnet(nil), p.NodeSubnets...)
		out[i] = q
	}
	var all []plugin.Subnet
	seen := map[plugin.Subnet]bool{}
	for _, p := range pools {
		for _, n := range p.NodeSubnets {
			if !seen[n] {
				seen[n] = true
				all = append(all, n)
			}
		}
	}
	if rng.Intn(100) < 40 {
		// change mask / gateway / vlan of a pool (addresses and node subnets stay): addresses it has already handed out must
		// from now on be written with the NEW values
		i := rng.Intn(len(out))
		switch k := rng.Intn(3); {
		case k == 0:
			out[i].Vlan = out[i].Vlan + 9
			return out, "pool-vlan-changed"
		case k == 1 && len(out[i].Ranges) > 0:
			// another gateway inside the pod subnet that no pool uses and no range contains
			for d := uint32(250); d > 200; d-- {
				g := out[i].Gateway&^255 | d
				free := true
				for _, q := range out {
					free = free && q.Gateway != g && !inRanges(q.Ranges, g)
				}
				if free {
					out[i].Gateway = g
					return out, "pool-gateway-changed"
				}
			}
		case k == 2 && out[i].Bits == 24:
			// /24 -> /23 for every pool of this pod subnet (they stay one pod subnet)
			sub := out[i].Gateway >> 8
			for j := range out {
				if out[j].Gateway>>8 == sub {
					out[j].Bits = 23
				}
			}
			return out, "pool-mask-changed"
		}
	}
	victim := all[rng.Intn(len(all))]
	replace := func(with plugin.Subnet) {
		for i := range out {
			for j := range out[i].NodeSubnets {
				if out[i].NodeSubnets[j] == victim {
					out[i].NodeSubnets[j] = with
				}
			}
		}
	}
	mask := func(base uint32, bits int) uint32 { return base >> uint(32-bits) << uint(32-bits) }
	switch k := rng.Intn(5); {
	case k == 0 && victim.Bits >= 24 && victim.Bits <= 32 && victim.Bits > 1:
		b := victim.Bits - 1
		w := plugin.Subnet{Base: mask(victim.Base, b), Bits: b}
		for _, o := range all { // stay identical-or-disjoint
			if o != victim && overlaps(o, w) {
				return out, "same"
			}
		}
		replace(w)
		return out, "wider-prefix"
	case k == 1 && victim.Bits < 31:
		replace(plugin.Subnet{Base: victim.Base, Bits: victim.Bits + 1})
		return out, "narrower-prefix-lower-half"
	case k == 2 && victim.Bits < 31:
		replace(plugin.Subnet{Base: victim.Base | 1<<uint(31-victim.Bits), Bits: victim.Bits + 1})
		return out, "narrower-prefix-upper-half"
	case k == 3 && len(out) >= 2:
		// move: remove from one pool that lists it, add to a pool that does not
		from, to := -1, -1
		for i := range out {
			has := false
			for _, n := range out[i].NodeSubnets {
				has = has || n == victim
			}
			if has && from < 0 && len(out[i].NodeSubnets) >= 2 {
				from = i
			} else if !has && to < 0 {
				to = i
			}
		}
		if from >= 0 && to >= 0 {
			var keep []plugin.Subnet
			for _, n := range out[from].NodeSubnets {
				if n != victim {
					keep = append(keep, n)
				}
			}
			out[from].NodeSubnets = keep
			out[to].NodeSubnets = append(out[to].NodeSubnets, victim)
			return out, "moved-to-another-pool"
		}
	default:
		for i := range out {
			if len(out[i].NodeSubnets) >= 2 {
				var keep []plugin.Subnet
				for _, n := range out[i].NodeSubnets {
					if n != victim {
						keep = append(keep, n)
					}
				}
				if len(keep) < len(out[i].NodeSubnets) {
					out[i].NodeSubnets = keep
					return out, "removed-from-a-pool"
				}
			}
		}
	}
	return out, "same"
}

// Describe is a short content line of the case for the report.
func (c *Case) Describe() string {
	return fmt.Sprintf("%s|%s/%s kind=%s pool=%s policy=%d ranges=%s|others=%v held=%v pending=%v siblings=%d|cand=%v|reload=%s:%s|fault=%s:%d",
		c.Conf.InitLine(), c.Target.NS, c.Target.Name, c.Target.Kind, c.Target.Pool, c.Target.Policy,
		plugin.RangesLine(c.Target.Ranges), c.Others, c.Held, c.Pending, c.Siblings, c.Cand, c.ReloadKind, plugin.PoolsLine(c.Reload), c.FaultPrefix, c.FaultIndex)
}
