package pluginc06

import (
	"fmt"
	"sync"
	"time"

	"gxverif/plugin"
)

// Exhaustive: the small scope of DESIGN.md §6.0.1 - one pod subnet shared by two pools with three addresses each
// (adjacent ranges), node subnets {10.9.1.0/24, 10.9.9.9/32} / {10.9.2.0/24, 10.9.1.0/24}, three nodes; EVERY request of
// at most three pairwise disjoint range lists out of a menu of six (single address, span inside a pool, span across
// the two pools, everything) plus the empty request; EVERY allocation state (each address free / held by another pod /
// - inside the request - held by the target's key); the target alternates between the default policy and `never`; every case runs on the
// plain topology and on one of three variants with an additional pool WITHOUT addresses (before / between / after).
func Exhaustive(col *collector, budgetSec int) (states int, cases int) {
	a := func(d uint32) uint32 { return ip4(10, 10, 0, d) }
	conf := plugin.Conf{
		Pools: []plugin.Pool{
			{NodeSubnets: []plugin.Subnet{subnetPalette[0], subnetPalette[3]}, Ranges: [][2]uint32{{a(2), a(4)}}, Gateway: a(1), Bits: 24, Vlan: 2},
			{NodeSubnets: []plugin.Subnet{subnetPalette[1], subnetPalette[0]}, Ranges: [][2]uint32{{a(5), a(7)}}, Gateway: a(254), Bits: 24, Vlan: 3},
		},
		Nodes: []plugin.Node{nodePalette[0], nodePalette[1], nodePalette[5]},
	}
	// the same topology with one additional pool WITHOUT addresses: sorting before / between / after the two pools,
	// sharing a node subnet with them
	withEmpty := func(gw uint32, ns plugin.Subnet) plugin.Conf {
		c := conf
		c.Pools = append(append([]plugin.Pool(nil), conf.Pools...), plugin.Pool{NodeSubnets: []plugin.Subnet{ns}, Gateway: gw, Bits: 24, Vlan: 1})
		return c
	}
	variants := []plugin.Conf{
		withEmpty(ip4(10, 5, 0, 1), subnetPalette[1]),
		withEmpty(a(100), subnetPalette[3]),
		withEmpty(ip4(10, 200, 0, 1), subnetPalette[0]),
	}
	menu := [][][2]uint32{
		{{a(2), a(2)}}, {{a(3), a(4)}}, {{a(5), a(5)}}, {{a(6), a(7)}}, {{a(4), a(5)}}, {{a(2), a(7)}},
	}
	var requests [][][][2]uint32
	requests = append(requests, nil)
	var rec func(cur [][][2]uint32)
	rec = func(cur [][][2]uint32) {
		if len(cur) > 0 {
			requests = append(requests, append([][][2]uint32(nil), cur...))
		}
		if len(cur) == 3 {
			return
		}
		for _, m := range menu {
			next := append(append([][][2]uint32(nil), cur...), m)
			if WFRequest(next) {
				rec(next)
			}
		}
	}
	rec(nil)
	ips := AllIPs(conf.Pools)
	deadline := time.Now().Add(time.Duration(budgetSec) * time.Second)
	var wg sync.WaitGroup
	sem := make(chan struct{}, 32)
	seen := map[string]bool{}
	for ri, req := range requests {
		inReq := func(ip uint32) bool {
			for _, l := range req {
				if inRanges(l, ip) {
					return true
				}
			}
			return false
		}
		// enumerate the allocation states
		n := len(ips)
		total := 1
		for i := 0; i < n; i++ {
			total *= 3
		}
		for code := 0; code < total; code++ {
			var others, held []uint32
			x := code
			ok := true
			for i := 0; i < n; i++ {
				d := x % 3
				x /= 3
				switch d {
				case 1:
					others = append(others, ips[i])
				case 2:
					if len(req) == 0 {
						// several addresses without a request: filter and bind use the lowest one
					} else if !inReq(ips[i]) {
						ok = false // an address of the key outside the request behaves like another pod's
					}
					held = append(held, ips[i])
				}
			}
			if !ok || len(held) > 3 {
				continue
			}
			if time.Now().After(deadline) {
				col.mu.Lock()
				col.hit("exhaustive:budget-exhausted")
				col.mu.Unlock()
				wg.Wait()
				return len(seen), cases
			}
			seen[fmt.Sprint(others, held)] = true
			cases++
			c := &Case{Conf: conf, WF: true, Prelude: []string{"app scale sts ns1 a 2", "sync all"}, Others: others, Held: held,
				Target: Target{NS: "ns1", Name: "a-0", Kind: "sts", App: "a", Policy: []int{0, 2}[(code+ri)%2], Ranges: req},
				Cand:   []string{"n1", "n2", "n6"}}
			// every (request, state) on the plain topology and on one of the three empty-pool variants (rotating)
			c2 := *c
			c2.Conf = variants[(code+ri)%len(variants)]
			for vi, cc := range []*Case{c, &c2} {
				wg.Add(1)
				sem <- struct{}{}
				go func(c *Case, id string) {
					defer wg.Done()
					defer func() { <-sem }()
					runCase(col, c, 1, id, 4)
				}(cc, fmt.Sprintf("x%d-%d-%d", ri, code, vi))
			}
		}
	}
	wg.Wait()
	col.mu.Lock()
	col.hit("exhaustive:completed")
	col.mu.Unlock()
	return len(seen), cases
}
