package pluginc03

import (
	"fmt"
	"math/rand"
	"strings"

	corev1 "k8s.io/api/core/v1"
	"tkestack.io/galaxy/pkg/ipam/schedulerplugin/util"

	"gxverif/plugin"
)

// Profile tunes the history generator of C03 / C02.
type Profile struct {
	Name        string
	Len         int
	FaultPct    int     // % of filter / bind / deliver / resync ops with an injected apiserver fault
	SettlePct   int     // % chance per op to start a "settle" macro: handle all events, sync, fault-free resync
	DropPct     int     // % of pending events that get lost instead of delivered (inside a settle macro)
	DelayPct    int     // % of events marked "delayed" (delivered late)
	Recreate    float64 // weight of re-creating a vanished identity (C02: high)
	PolicyFlip  bool    // a re-created pod may carry another release policy than its predecessor (never <-> immutable)
	Provider    int     // % of histories with the cloud provider
	ScaleW      float64 // weight of scale / delete-app moves
	DirectBind  float64 // weight of a bind that was not preceded by a filter of the same pod
	FilterFault int     // % of filters of a deployment / pool pod that finds reserved addresses which carry a store fault
	TwoSubnets  bool    // force topologies with at least two node subnets and nodes in both
}

func ProfileC03() Profile {
	return Profile{Name: "c03-mix", Len: 60, FaultPct: 8, SettlePct: 9, DropPct: 30, DelayPct: 30, Recreate: 4, Provider: 25, ScaleW: 2.2,
		DirectBind: 0.5}
}

type ident struct {
	ns, name, kind, app, pool string
	policy                    int
}

// Gen3 proposes the next op by looking at the world: all workload kinds x the three policies, scale and delete-app
// moves, events delivered late or lost, resync passes, and settle macros that produce quiescent points.
type Gen3 struct {
	rng      *rand.Rand
	p        Profile
	conf     plugin.Conf
	ids      []ident
	queue    []string // ops of a macro in progress
	intent   string
	delayed  map[string]bool
	needSync bool
}

func uidNum(p *corev1.Pod) string {
	s := string(p.UID)
	if s == "" {
		return "0"
	}
	return strings.TrimPrefix(s, "u")
}

func tilde(s string) string {
	if s == "" {
		return "~"
	}
	return s
}

func NewGen3(rng *rand.Rand, conf plugin.Conf, p Profile) *Gen3 {
	g := &Gen3{rng: rng, p: p, conf: conf, delayed: map[string]bool{}}
	pol := func() int { return rng.Intn(3) }
	stsPol, dpPol := pol(), pol()
	dpPool := ""
	if rng.Intn(100) < 30 {
		dpPool = "p1"
	}
	cand := []ident{
		{"ns1", "a-0", "sts", "a", "", stsPol},
		{"ns1", "a-1", "sts", "a", "", stsPol},
		{"ns1", "a-2", "sts", "a", "", stsPol},
		{"ns1", "d-x1", "dp", "d", dpPool, dpPol},
		{"ns1", "d-x2", "dp", "d", dpPool, dpPol},
		{"ns1", "d-x3", "dp", "d", dpPool, dpPol},
		{"ns1", "t-0", "other", "t", "", pol()},
		{"ns1", "t-x", "other", "t", "", pol()},
		{"ns1", "solo-0", "bare", "", "", pol()},
		{"ns1", "job", "bare", "", "", pol()},
	}
	// always some statefulset and some deployment pods; the rest at random
	keep := []ident{cand[0], cand[1], cand[3], cand[4]}
	rest := []ident{cand[2], cand[5], cand[6], cand[7], cand[8], cand[9]}
	rng.Shuffle(len(rest), func(i, j int) { rest[i], rest[j] = rest[j], rest[i] })
	g.ids = append(keep, rest[:rng.Intn(4)]...)
	g.queue = append(g.queue, fmt.Sprintf("app scale sts ns1 a %d", 1+rng.Intn(3)), fmt.Sprintf("app scale dp ns1 d %d", 1+rng.Intn(3)))
	if dpPool != "" && rng.Intn(100) < 50 {
		g.queue = append(g.queue, fmt.Sprintf("pool set p1 %d", 1+rng.Intn(3)))
	}
	g.queue = append(g.queue, "sync all")
	return g
}

// GenConf3: a configuration with enough addresses for the identities (1-2 pools, 4-8 addresses).
func GenConf3(rng *rand.Rand, p Profile) plugin.Conf {
	gp := plugin.DefaultParams()
	gp.ProviderPct = p.Provider
	for {
		c := plugin.GenConf(rng, gp)
		n := 0
		for _, pl := range c.Pools {
			for _, r := range pl.Ranges {
				n += int(r[1]-r[0]) + 1
			}
		}
		if n < 3 {
			continue
		}
		if p.TwoSubnets {
			subs := map[plugin.Subnet]bool{}
			for _, pl := range c.Pools {
				for _, sn := range pl.NodeSubnets {
					subs[sn] = true
				}
			}
			if len(subs) < 2 {
				continue
			}
		}
		return c
	}
}

func singleKeys(w *plugin.World) bool {
	seen := map[string]int{}
	for _, r := range w.IPAMDump() {
		if !r.Free {
			seen[r.Key]++
			if seen[r.Key] > 1 {
				return false
			}
		}
	}
	return true
}

func (g *Gen3) fault(w *plugin.World, max int) (int, int) {
	f, pf := 0, 0
	if !singleKeys(w) {
		return 0, 0
	}
	if g.rng.Intn(100) < g.p.FaultPct {
		f = 1 + g.rng.Intn(max)
	}
	if w.Conf.Provider && g.rng.Intn(100) < g.p.FaultPct {
		pf = 1 + g.rng.Intn(2)
	}
	return f, pf
}

func (g *Gen3) createLine(id ident) string {
	pol := id.policy
	if g.p.PolicyFlip && pol != 0 && g.rng.Intn(100) < 35 {
		pol = 3 - pol // never <-> immutable
	}
	return fmt.Sprintf("pod create %s %s %s %s %s %d - 1", id.ns, id.name, id.kind, tilde(id.app), tilde(id.pool), pol)
}

func (g *Gen3) bindLine(w *plugin.World, ns, name, node string) string {
	tp, lp := w.TruthPod(ns, name), w.ListerPod(ns, name)
	if lp == nil || tp == nil || tp.UID != lp.UID {
		return "sync pods"
	}
	f, pf := 0, 0
	if k, err := util.FormatKey(lp); err == nil {
		n := 0
		for _, r := range w.IPAMDump() {
			if !r.Free && r.Key == k.KeyInDB {
				n++
			}
		}
		if n <= 1 {
			f, pf = g.fault(w, 3)
		}
	}
	return fmt.Sprintf("bind %s %s %s %s ? ? %d %d", ns, name, uidNum(tp), node, f, pf)
}

// settle: handle (deliver or lose) every pending event, let the informers catch up, run one fault-free resync pass.
func (g *Gen3) settle(w *plugin.World) {
	n := len(w.Events)
	for i := 0; i < n; i++ {
		if g.rng.Intn(100) < g.p.DropPct {
			g.queue = append(g.queue, "drop 0")
		} else {
			g.queue = append(g.queue, "deliver 0 0 0")
		}
	}
	g.queue = append(g.queue, "sync all", "resync ? 0 0")
	if g.rng.Intn(100) < 30 {
		g.queue = append(g.queue, "resync ? 0 0")
	}
}

type wopt struct {
	w    float64
	line func() string
}

// Next proposes the next op line.
func (g *Gen3) Next(w *plugin.World, step int) string {
	if len(g.queue) > 0 {
		l := g.queue[0]
		g.queue = g.queue[1:]
		if strings.HasPrefix(l, "deliver") || strings.HasPrefix(l, "drop") {
			if len(w.Events) == 0 { // a failed delivery re-queues at the end, a dropped one shortens the queue
				return "sync pods"
			}
		}
		return l
	}
	rng := g.rng
	if g.intent != "" {
		id := g.intent
		g.intent = ""
		var nodes []string
		if r := w.LastOp.Result; w.LastOp.Kind == "filter" && strings.HasPrefix(r, "ok nodes=") && r != "ok nodes=-" {
			nodes = strings.Split(strings.TrimPrefix(r, "ok nodes="), ",")
		}
		if len(nodes) > 0 && rng.Intn(100) < 92 {
			x := strings.SplitN(id, "/", 2)
			return g.bindLine(w, x[0], x[1], nodes[rng.Intn(len(nodes))])
		}
	}
	if rng.Intn(100) < g.p.SettlePct {
		g.settle(w)
		return g.Next(w, step)
	}
	if g.needSync && rng.Float64() < 0.6 {
		g.needSync = false
		return "sync all"
	}
	truth := map[string]*corev1.Pod{}
	for _, p := range w.TruthPods() {
		truth[p.Namespace+"/"+p.Name] = p
	}
	var opts []wopt
	add := func(wt float64, f func() string) { opts = append(opts, wopt{wt, f}) }
	for _, id := range g.ids {
		id := id
		key := id.ns + "/" + id.name
		p := truth[key]
		if p == nil {
			add(g.p.Recreate, func() string { g.needSync = true; return g.createLine(id) })
			continue
		}
		bound := len(plugin.HandedIPs(p)) > 0
		if !bound && !plugin.Finished(p) {
			add(8, func() string {
				var names []string
				for _, n := range g.conf.Nodes {
					names = append(names, n.Name)
				}
				f, _ := g.fault(w, 3)
				if g.p.FilterFault > 0 && id.kind == "dp" && rng.Intn(100) < g.p.FilterFault && singleKeys(w) {
					f = 1 + rng.Intn(2) // the get / update of AllocateInSubnetWithKey
				}
				g.intent = key
				return fmt.Sprintf("filter %s %s %s ? ? %d", id.ns, id.name, strings.Join(names, ","), f)
			})
			// a scheduler that binds without (or despite) filter: how unsupported policies get an address at all
			if g.p.DirectBind > 0 {
				add(g.p.DirectBind, func() string {
					return g.bindLine(w, id.ns, id.name, g.conf.Nodes[rng.Intn(len(g.conf.Nodes))].Name)
				})
			}
		}
		if bound && p.Status.Phase != corev1.PodRunning && !plugin.Finished(p) {
			add(1, func() string { g.needSync = true; return fmt.Sprintf("pod run %s %s", id.ns, id.name) })
		}
		wt := 1.0
		if bound {
			wt = 4
		}
		add(wt, func() string { g.needSync = true; return fmt.Sprintf("pod delete %s %s", id.ns, id.name) })
		if !plugin.Finished(p) {
			add(wt/3, func() string { g.needSync = true; return fmt.Sprintf("pod finish %s %s", id.ns, id.name) })
		}
	}
	for i, e := range w.Events {
		i, e := i, e
		uid := string(e.Pod.UID)
		if _, seen := g.delayed[uid]; !seen {
			g.delayed[uid] = rng.Intn(100) < g.p.DelayPct
		}
		wt := 6.0
		if g.delayed[uid] {
			wt = 0.7
		}
		add(wt, func() string {
			f, pf := 0, 0
			if k, err := util.FormatKey(e.Pod); err == nil {
				n := 0
				for _, r := range w.IPAMDump() {
					if !r.Free && r.Key == k.KeyInDB {
						n++
					}
				}
				if n <= 1 {
					f, pf = g.fault(w, 3)
				}
			}
			return fmt.Sprintf("deliver %d %d %d", i, f, pf)
		})
		add(0.3, func() string { return fmt.Sprintf("drop %d", i) })
	}
	add(2.5, func() string { g.needSync = false; return "sync all" })
	add(0.5, func() string { return "sync pods" })
	add(0.5, func() string { return "sync apps" })
	add(2, func() string {
		f, pf := g.fault(w, 4)
		return fmt.Sprintf("resync ? %d %d", f, pf)
	})
	add(g.p.ScaleW, func() string {
		g.needSync = true
		if rng.Intn(2) == 0 {
			return fmt.Sprintf("app scale sts ns1 a %d", rng.Intn(4))
		}
		return fmt.Sprintf("app scale dp ns1 d %d", rng.Intn(4))
	})
	add(g.p.ScaleW/3, func() string {
		g.needSync = true
		if rng.Intn(2) == 0 {
			return "app delete sts ns1 a"
		}
		return "app delete dp ns1 d"
	})
	add(0.3, func() string {
		g.needSync = true
		if rng.Intn(4) == 0 {
			return "pool del p1"
		}
		return fmt.Sprintf("pool set p1 %d", rng.Intn(4))
	})
	add(0.25, func() string { g.needSync = false; return "restart" })
	total := 0.0
	for _, o := range opts {
		total += o.w
	}
	x := rng.Float64() * total
	for _, o := range opts {
		if x < o.w {
			if l := o.line(); l != "" {
				return l
			}
			return "sync all"
		}
		x -= o.w
	}
	return "sync all"
}
