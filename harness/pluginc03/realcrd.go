package pluginc03

import (
	"context"
	"sync"
	"time"

	extv1 "k8s.io/apiextensions-apiserver/pkg/apis/apiextensions/v1"
	extlisters "k8s.io/apiextensions-apiserver/pkg/client/listers/apiextensions/v1"
	metav1 "k8s.io/apimachinery/pkg/apis/meta/v1"
	"k8s.io/apimachinery/pkg/apis/meta/v1/unstructured"
	"k8s.io/apimachinery/pkg/runtime"
	"k8s.io/apimachinery/pkg/runtime/schema"
	"k8s.io/client-go/dynamic"
	dynfake "k8s.io/client-go/dynamic/fake"
	"k8s.io/client-go/tools/cache"
	"tkestack.io/galaxy/pkg/ipam/crd"
	"tkestack.io/galaxy/pkg/ipam/schedulerplugin"
)

// the scalable custom resource of the harness: kind TApp, group apps.tkestack.io; crd.GetGroupVersionResource
// hard-codes the version v1alpha1
var tappGVR = schema.GroupVersionResource{Group: "apps.tkestack.io", Version: "v1alpha1", Resource: "tapps"}

// ListGate holds the FIRST list call of the custom resource (the informer's initial LIST) until Release is closed or
// the bounded wait is over.
type ListGate struct {
	Wait    time.Duration
	Entered chan struct{}
	Release chan struct{}
	once    sync.Once
}

func NewListGate(wait time.Duration) *ListGate {
	return &ListGate{Wait: wait, Entered: make(chan struct{}), Release: make(chan struct{})}
}

func (g *ListGate) hold() {
	if g == nil {
		return
	}
	first := false
	g.once.Do(func() { first = true })
	if !first {
		return
	}
	close(g.Entered)
	select {
	case <-g.Release:
	case <-time.After(g.Wait):
	}
}

type gatedDyn struct {
	dynamic.Interface
	g *ListGate
}

func (d *gatedDyn) Resource(r schema.GroupVersionResource) dynamic.NamespaceableResourceInterface {
	return &gatedNsRes{d.Interface.Resource(r), d.g}
}

type gatedNsRes struct {
	dynamic.NamespaceableResourceInterface
	g *ListGate
}

func (r *gatedNsRes) Namespace(ns string) dynamic.ResourceInterface {
	return &gatedRes{r.NamespaceableResourceInterface.Namespace(ns), r.g}
}

func (r *gatedNsRes) List(ctx context.Context, o metav1.ListOptions) (*unstructured.UnstructuredList, error) {
	r.g.hold()
	return r.NamespaceableResourceInterface.List(ctx, o)
}

type gatedRes struct {
	dynamic.ResourceInterface
	g *ListGate
}

func (r *gatedRes) List(ctx context.Context, o metav1.ListOptions) (*unstructured.UnstructuredList, error) {
	r.g.hold()
	return r.ResourceInterface.List(ctx, o)
}

// RealCRD is the REAL CRD key lookup (schedulerplugin.NewCrdKey) and the REAL custom-resource cache (crd.NewCrdCache:
// dynamic informers, started and synced lazily by getLister) over client-go's fake dynamic client and a CRD lister
// that knows the scalable TApp definition.
type RealCRD struct {
	Key   schedulerplugin.CrdKey
	Cache crd.CrdCache
}

// NewRealCRD: replicas maps "ns/name" of the TApp objects that exist to their spec.replicas.
func NewRealCRD(replicas map[string]int, gate *ListGate) *RealCRD {
	idx := cache.NewIndexer(cache.MetaNamespaceKeyFunc, cache.Indexers{})
	idx.Add(&extv1.CustomResourceDefinition{
		ObjectMeta: metav1.ObjectMeta{Name: tappGVR.GroupResource().String()},
		Spec: extv1.CustomResourceDefinitionSpec{Group: tappGVR.Group,
			Names: extv1.CustomResourceDefinitionNames{Kind: "TApp", Plural: tappGVR.Resource, ListKind: "TAppList"},
			Scope: extv1.NamespaceScoped,
			Versions: []extv1.CustomResourceDefinitionVersion{{Name: tappGVR.Version, Served: true, Storage: true,
				Subresources: &extv1.CustomResourceSubresources{Scale: &extv1.CustomResourceSubresourceScale{
					SpecReplicasPath: ".spec.replicas", StatusReplicasPath: ".status.replicas"}}}}}})
	lister := extlisters.NewCustomResourceDefinitionLister(idx)
	var objs []runtime.Object
	for k, n := range replicas {
		ns, name := k, ""
		for i := 0; i < len(k); i++ {
			if k[i] == '/' {
				ns, name = k[:i], k[i+1:]
			}
		}
		objs = append(objs, &unstructured.Unstructured{Object: map[string]interface{}{
			"apiVersion": tappGVR.Group + "/" + tappGVR.Version, "kind": "TApp",
			"metadata": map[string]interface{}{"name": name, "namespace": ns},
			"spec":     map[string]interface{}{"replicas": int64(n)}}})
	}
	var dyn dynamic.Interface = dynfake.NewSimpleDynamicClientWithCustomListKinds(runtime.NewScheme(),
		map[schema.GroupVersionResource]string{tappGVR: "TAppList"}, objs...)
	if gate != nil {
		dyn = &gatedDyn{dyn, gate}
	}
	return &RealCRD{Key: schedulerplugin.NewCrdKey(lister), Cache: crd.NewCrdCache(dyn, lister, 0)}
}
