package pluginc03

import (
	"fmt"
	"math/rand"
	"strings"
	"sync"
	"time"

	"gxverif/hx"
	"gxverif/plugin"
)

// Exhaustive02 explores breadth first every state the real plugin reaches within `depth` moves over the C02 alphabet:
// one statefulset identity (a-0, immutable) and one deployment (d, immutable, replicas 1) with two pod names, any
// number of incarnations; two pools on two node subnets with one node each; moves: create / delete of each pod,
// "schedule" (= filter over both nodes, then bind on the first offered node), deliver / drop the oldest event, lister
// sync, resync.  Every expansion is judged by the monitor after every op and compared with gxdrv_plugin.
func Exhaustive02(e *hx.Env, prop string, mon plugin.Monitor, depth int, budgetSec int) *plugin.Batch {
	b := &plugin.Batch{Stats: map[string]int{}, HistoryFlags: map[string]int{}}
	conf := plugin.Conf{
		Pools: []plugin.Pool{
			{NodeSubnets: []plugin.Subnet{{Base: 0x0a090100, Bits: 24}}, Ranges: [][2]uint32{{0x0a0a0002, 0x0a0a0003}}, Gateway: 0x0a0a0001, Bits: 24},
			{NodeSubnets: []plugin.Subnet{{Base: 0x0a090200, Bits: 24}}, Ranges: [][2]uint32{{0x0a0b0002, 0x0a0b0002}}, Gateway: 0x0a0b0001, Bits: 24}},
		Nodes: []plugin.Node{{Name: "n1", IP: 0x0a090105}, {Name: "n2", IP: 0x0a090205}}}
	prelude := []string{"app scale sts ns1 a 1", "app scale dp ns1 d 1", "sync all"}
	alphabet := [][]string{
		{"pod create ns1 a-0 sts a ~ 1 - 1"},
		{"pod create ns1 d-x1 dp d ~ 1 - 1"},
		{"pod create ns1 d-x2 dp d ~ 1 - 1"},
		{"pod delete ns1 a-0"},
		{"pod delete ns1 d-x1"},
		{"pod delete ns1 d-x2"},
		{"sync all"},
		{"filter ns1 a-0 n1,n2 ? ? 0", "bind ns1 a-0 @ # ? ? 0 0"},
		{"filter ns1 d-x1 n1,n2 ? ? 0", "bind ns1 d-x1 @ # ? ? 0 0"},
		{"filter ns1 d-x2 n1,n2 ? ? 0", "bind ns1 d-x2 @ # ? ? 0 0"},
		{"deliver 0 0 0"},
		{"drop 0"},
		{"resync ? 0 0"},
	}
	deadline := time.Now().Add(time.Duration(budgetSec) * time.Second)
	type result struct {
		t   *plugin.Transcript
		key string
		dis *hx.Disagreement
		err error
	}
	expand := func(path []int) result {
		var ops []string
		ops = append(ops, prelude...)
		for _, a := range path {
			ops = append(ops, alphabet[a]...)
		}
		script := func(w *plugin.World, step int) string {
			if step >= len(ops) {
				return ""
			}
			l := ops[step]
			if strings.Contains(l, " @ # ") {
				f := strings.Fields(l)
				node := ""
				if r := w.LastOp.Result; w.LastOp.Kind == "filter" && strings.HasPrefix(r, "ok nodes=") && r != "ok nodes=-" {
					node = strings.Split(strings.TrimPrefix(r, "ok nodes="), ",")[0]
				}
				tp, lp := w.TruthPod(f[1], f[2]), w.ListerPod(f[1], f[2])
				if node == "" || tp == nil || lp == nil || tp.UID != lp.UID {
					return "sync pods" // nothing offered / informer behind: the scheduler does not bind
				}
				l = strings.Replace(l, " @ # ", " "+uidNum(tp)+" "+node+" ", 1)
			}
			return l
		}
		t, w, err := plugin.Execute(conf, rand.New(rand.NewSource(1)), script, mon, len(ops)+1)
		if err != nil {
			return result{err: err}
		}
		r := result{t: t, key: w.Digest() + "#" + w.ViewDigest()}
		if len(t.Violations) == 0 && t.Hang == "" {
			r.dis, r.err = plugin.Compare(e, t)
		}
		statsMu.Lock()
		MonHits(w, b)
		statsMu.Unlock()
		return r
	}
	seen := map[string]bool{}
	perSig := map[string]int{}
	frontier := [][]int{nil}
	states, complete := 0, -1
	for d := 0; d <= depth && len(frontier) > 0; d++ {
		results := make([]result, len(frontier))
		var wg sync.WaitGroup
		sem := make(chan struct{}, 32)
		timedOut := false
		for i := range frontier {
			if time.Now().After(deadline) {
				timedOut = true
				break
			}
			wg.Add(1)
			sem <- struct{}{}
			go func(i int) {
				defer wg.Done()
				defer func() { <-sem }()
				results[i] = expand(frontier[i])
			}(i)
		}
		wg.Wait()
		var next [][]int
		for i, r := range results {
			if r.t == nil {
				if r.err != nil {
					b.Errors = append(b.Errors, r.err.Error())
				}
				continue
			}
			t := r.t
			b.Histories++
			b.Ops += len(t.Ops) - 1
			if len(t.Violations) > 0 || t.Hang != "" {
				for _, v := range t.Violations {
					perSig[v.Signature]++
					if perSig[v.Signature] > 2 {
						continue
					}
					v.Replay = e.WriteReplay(prop, "history", fmt.Sprintf("exh-%s-%d", sanitize(v.Signature), perSig[v.Signature]),
						[]string{"signature=" + v.Signature, "what=" + v.What}, v.Ops)
					b.Violations = append(b.Violations, v)
				}
				if t.Hang != "" {
					p := e.WriteReplay(prop, "history", "exh-hang", []string{"outcome=" + t.Hang}, t.Ops)
					b.Violations = append(b.Violations, hx.Violation{Signature: "op-" + strings.Fields(t.Hang)[0], What: t.Hang, Replay: p})
				}
				continue
			}
			if seen[r.key] {
				continue
			}
			seen[r.key] = true
			states++
			if r.err != nil {
				b.Errors = append(b.Errors, r.err.Error())
			} else if r.dis != nil {
				dis := *r.dis
				dis.Ops = t.Ops
				dis.Replay = e.WriteReplay(prop, "history", fmt.Sprintf("exh-disagree-%d", len(b.Disagree)), []string{"where=" + dis.Where}, t.Ops)
				if len(b.Disagree) < 20 {
					b.Disagree = append(b.Disagree, dis)
				}
			}
			b.Nontrivial = append(b.Nontrivial, strings.Join(t.Ops, "\n"))
			if d < depth {
				for a := range alphabet {
					next = append(next, append(append([]int(nil), frontier[i]...), a))
				}
			}
		}
		if timedOut {
			b.HistoryFlags["exhaustive-budget-exhausted-at-depth"] = d
			break
		}
		complete = d
		frontier = next
	}
	b.HistoryFlags["exhaustive-states"] = states
	b.HistoryFlags["exhaustive-depth-completed"] = complete
	return b
}

// statsMu serialises the statistic updates of the expansion goroutines.
var statsMu sync.Mutex
