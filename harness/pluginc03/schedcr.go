package pluginc03

import (
	"fmt"
	"math/rand"
	"strings"
	"sync"
	"time"

	"gxverif/hx"
	"gxverif/plugin"
)

const SigCacheNotSynced = "released-although-policy-keeps:cr:immutable:cache-not-synced"

// RunCRCacheSchedule: first use of a scalable custom-resource kind after a (re)start of the plugin, two release
// decisions overlapping, a slow initial LIST.  Two immutable TApp pods t-0 and t-1 (replicas 2) are deleted; the unbind
// of t-0 makes the REAL crd cache start the TApp informer, whose initial LIST is held (bounded) by a decorator of the
// dynamic client; meanwhile the unbind of the sibling t-1 runs.  Both decisions must see the app: both addresses stay
// reserved under their keys.
func RunCRCacheSchedule() (released []string, secondFinishedDuringList bool, outcome string, err error) {
	ops := []string{"pod create ns1 t-0 other t ~ 1 - 1", "pod create ns1 t-1 other t ~ 1 - 1", "sync all",
		"bind ns1 t-0 1 n1 ? ? 0 0", "bind ns1 t-1 2 n1 ? ? 0 0", "pod delete ns1 t-0", "pod delete ns1 t-1", "sync all"}
	gate := NewListGate(600 * time.Millisecond)
	sc := &Scalable{Types: map[string]bool{"tapp": true}, Replicas: map[string]map[string]int{"tapp": {"ns1/t": 2}}}
	installed := false
	script := func(w *plugin.World, step int) string {
		if !installed {
			installed = true
			w.Mon["c03-scalable"] = sc
			real := NewRealCRD(sc.Replicas["tapp"], gate)
			w.Plugin.VerifC03SetCRD(real.Key, real.Cache)
		}
		if step >= len(ops) {
			return ""
		}
		return ops[step]
	}
	_, w, err := plugin.Execute(tableConf(), rand.New(rand.NewSource(1)), script, nil, len(ops)+1)
	if err != nil {
		return nil, false, "", err
	}
	if len(w.Events) != 2 {
		return nil, false, "", fmt.Errorf("schedule set-up: %d pending events, want 2", len(w.Events))
	}
	keys := map[string]bool{}
	for _, r := range w.IPAMDump() {
		if !r.Free {
			keys[r.Key] = true
		}
	}
	if len(keys) != 2 {
		return nil, false, "", fmt.Errorf("schedule set-up: %d addresses bound, want 2", len(keys))
	}
	var wg sync.WaitGroup
	outs := make([]string, 2)
	doneB := make(chan struct{})
	wg.Add(1)
	go func() {
		defer wg.Done()
		outs[0] = hx.Guard(20*time.Second, func() { w.Plugin.VerifPluginUnbind(w.Events[0].Pod) })
	}()
	select { // the first decision has reached the initial LIST
	case <-gate.Entered:
	case <-time.After(5 * time.Second):
	}
	wg.Add(1)
	go func() {
		defer wg.Done()
		outs[1] = hx.Guard(20*time.Second, func() { w.Plugin.VerifPluginUnbind(w.Events[1].Pod) })
		close(doneB)
	}()
	select { // the LIST returns when the sibling's decision is over, or after the bounded wait
	case <-doneB:
		secondFinishedDuringList = true
	case <-time.After(gate.Wait):
	}
	close(gate.Release)
	wg.Wait()
	after := map[string]bool{}
	for _, r := range w.IPAMDump() {
		if !r.Free {
			after[r.Key] = true
		}
	}
	for k := range keys {
		if !after[k] {
			released = append(released, k)
		}
	}
	return released, secondFinishedDuringList, strings.Join(outs, ","), nil
}

// RunCRRestart: a fresh plugin process (restart) whose FIRST event is the delete of an immutable TApp pod, decided by
// the event path or - the event lost - by the resync pass; the crd cache of the new process has not listed anything
// yet.  The monitor (reference evaluator) judges the outcome.
func RunCRRestart(path string) (*plugin.Transcript, error) {
	ops := []string{"pod create ns1 t-0 other t ~ 1 - 1", "pod create ns1 t-1 other t ~ 1 - 1", "sync all",
		"bind ns1 t-0 1 n1 ? ? 0 0", "bind ns1 t-1 2 n1 ? ? 0 0", "restart", "pod delete ns1 t-0", "sync all"}
	if path == "deliver" {
		ops = append(ops, "deliver 0 0 0", "resync ? 0 0")
	} else {
		ops = append(ops, "drop 0", "resync ? 0 0")
	}
	sc := &Scalable{Types: map[string]bool{"tapp": true}, Replicas: map[string]map[string]int{"tapp": {"ns1/t": 2}}}
	install := func(w *plugin.World) {
		w.Mon["c03-scalable"] = sc
		real := NewRealCRD(sc.Replicas["tapp"], nil)
		w.Plugin.VerifC03SetCRD(real.Key, real.Cache)
	}
	script := func(w *plugin.World, step int) string {
		if step == 0 || w.LastOp.Kind == "restart" {
			install(w) // every process gets its own, empty cache
		}
		if step >= len(ops) {
			return ""
		}
		return ops[step]
	}
	t, _, err := plugin.Execute(tableConf(), rand.New(rand.NewSource(1)), script, MonitorC03, len(ops)+1)
	return t, err
}

// RunCRSchedules runs the first-use schedule n times and the two restart histories.
func RunCRSchedules(e *hx.Env, r *hx.Report, prop string, n int) {
	for i := 0; i < n; i++ {
		released, during, outcome, err := RunCRCacheSchedule()
		if err != nil {
			r.Disagree = append(r.Disagree, hx.Disagreement{Where: "harness-error", Impl: err.Error()})
			return
		}
		r.Traces++
		r.Case(fmt.Sprintf("schedule cr-cache-first-use #%d", i), true)
		if during {
			r.Hit("schedule:cr:sibling-decided-while-initial-list-in-flight")
		} else {
			r.Hit("schedule:cr:sibling-waited-for-the-initial-list")
		}
		r.Hit(fmt.Sprintf("schedule:cr:released=%d", len(released)))
		if outcome != "ok,ok" {
			r.Violations = append(r.Violations, hx.Violation{Signature: "schedule-op-did-not-return", What: outcome,
				Replay: e.WriteReplay(prop, "schedule", "cr-cache-first-use-hang", nil, []string{"schedule cr-cache-first-use"})})
			return
		}
		if len(released) > 0 {
			r.Violations = append(r.Violations, hx.Violation{Signature: SigCacheNotSynced,
				What: fmt.Sprintf("first use of the TApp kind: while the initial LIST of the custom-resource informer was in flight, the release decision for a sibling pod did not see the workload (replicas 2) and released %v although the immutable policy keeps it",
					released),
				Replay: e.WriteReplay(prop, "schedule", "cr-cache-first-use", []string{"park=first LIST of tapps until the sibling's unbind returned or 600ms"},
					[]string{"schedule cr-cache-first-use"})})
			return
		}
	}
	for _, path := range []string{"deliver", "resync"} {
		t, err := RunCRRestart(path)
		if err != nil {
			r.Disagree = append(r.Disagree, hx.Disagreement{Where: "harness-error", Impl: err.Error()})
			continue
		}
		r.Traces++
		r.Case("schedule cr-restart "+path, true)
		r.Hit("schedule:cr-restart:" + path)
		for _, v := range t.Violations {
			v.Replay = e.WriteReplay(prop, "schedule", "cr-restart-"+path, []string{"signature=" + v.Signature}, []string{"schedule cr-restart"})
			r.Violations = append(r.Violations, v)
		}
		if t.Hang != "" {
			r.Violations = append(r.Violations, hx.Violation{Signature: "op-" + strings.Fields(t.Hang)[0], What: t.Hang,
				Replay: e.WriteReplay(prop, "schedule", "cr-restart-hang", nil, []string{"schedule cr-restart"})})
		}
	}
}
