package pluginc03

import (
	"fmt"
	"math/rand"
	"os"
	"path/filepath"
	"sort"
	"strings"
	"sync"
	"time"

	"gxverif/hx"
	"gxverif/plugin"
)

const Rule = "a history is nontrivial iff at least 3 of its operations (lister syncs not counted) succeeded; distinct by the text of its op lines; a decision-table row / schedule is nontrivial iff the pod under decision held an address"

func VerifRoot() string {
	if r := os.Getenv("VERIF_ROOT"); r != "" {
		return r
	}
	return "/verif"
}

func sanitize(s string) string {
	var b strings.Builder
	for _, r := range s {
		if (r >= 'a' && r <= 'z') || (r >= 'A' && r <= 'Z') || (r >= '0' && r <= '9') || r == '-' {
			b.WriteRune(r)
		} else {
			b.WriteByte('_')
		}
	}
	return b.String()
}

// ScriptMaker builds the configuration and the op generator of one history from its private PRNG.
type ScriptMaker func(rng *rand.Rand) (plugin.Conf, plugin.Script, int)

// RunScripts executes n generated histories in parallel against the real plugin, runs the monitor after every op,
// compares each transcript with gxdrv_plugin, shrinks and writes replays for failures (same contract as
// plugin.RunCorrespondence, with a caller-supplied generator).
func RunScripts(e *hx.Env, prop string, n int, mk ScriptMaker, mon plugin.Monitor, hits func(w *plugin.World, b *plugin.Batch)) *plugin.Batch {
	b := &plugin.Batch{Stats: map[string]int{}, HistoryFlags: map[string]int{}}
	shrunk := map[string]bool{}
	// in chunks: a transcript carries a full digest per op and a world carries two fake clientsets - neither is kept
	// longer than its chunk
	const chunk = 400
	for done := 0; done < n; done += chunk {
		m := chunk
		if n-done < m {
			m = n - done
		}
		runChunk(e, prop, done, m, mk, mon, hits, b, shrunk)
	}
	return b
}

func runChunk(e *hx.Env, prop string, base, n int, mk ScriptMaker, mon plugin.Monitor, hits func(w *plugin.World, b *plugin.Batch),
	b *plugin.Batch, shrunk map[string]bool) {
	seeds := make([]int64, n)
	for i := range seeds {
		seeds[i] = e.Rng.Int63()
	}
	type res struct {
		t     *plugin.Transcript
		d     *hx.Disagreement
		err   error
		seed  int64
		okOps int
	}
	results := make([]res, n)
	var wg sync.WaitGroup
	var hitMu sync.Mutex
	sem := make(chan struct{}, 48)
	for i := 0; i < n; i++ {
		wg.Add(1)
		sem <- struct{}{}
		go func(i int) {
			defer wg.Done()
			defer func() { <-sem }()
			rng := rand.New(rand.NewSource(seeds[i]))
			conf, script, maxOps := mk(rng)
			t, w, err := plugin.Execute(conf, rng, script, mon, maxOps)
			r := res{t: t, err: err, seed: seeds[i]}
			if err == nil {
				r.d, r.err = plugin.Compare(e, t)
				if hits != nil && w != nil {
					hitMu.Lock()
					hits(w, b)
					hitMu.Unlock()
				}
				r.okOps = countOK(t)
				if r.d == nil {
					t.Lines, t.Impl = nil, nil // the digests are no longer needed
				}
			}
			results[i] = r
		}(i)
	}
	wg.Wait()
	for j, r := range results {
		i := base + j
		if r.err != nil {
			b.Errors = append(b.Errors, r.err.Error())
			continue
		}
		b.Histories++
		b.Ops += len(r.t.Ops) - 1
		for k, v := range r.t.Stats {
			b.Stats[k] += v
		}
		if r.okOps >= 3 {
			b.Nontrivial = append(b.Nontrivial, strings.Join(r.t.Ops, "\n"))
		} else {
			b.Trivial++
		}
		if len(b.SampleOps) < 2 {
			b.SampleOps = append(b.SampleOps, r.t.Ops)
		}
		if r.t.Hang != "" {
			p := e.WriteReplay(prop, "history", fmt.Sprintf("hang-%d", i), []string{"outcome=" + r.t.Hang}, r.t.Ops)
			b.Violations = append(b.Violations, hx.Violation{Signature: "op-" + strings.Fields(r.t.Hang)[0],
				What: "operation did not return normally: " + r.t.Hang, Replay: p})
		}
		for _, v := range r.t.Violations {
			sig := v.Signature
			ops := v.Ops
			if !shrunk[sig] {
				shrunk[sig] = true
				deadline := time.Now().Add(15 * time.Second)
				ops = plugin.Shrink(ops, func(c []string) bool {
					if time.Now().After(deadline) {
						return false
					}
					t2, err := plugin.ReplayOps(c, rand.New(rand.NewSource(r.seed)), mon)
					if err != nil {
						return false
					}
					for _, v2 := range t2.Violations {
						if v2.Signature == sig {
							return true
						}
					}
					return false
				})
			}
			v.Ops = ops
			v.Replay = e.WriteReplay(prop, "history", fmt.Sprintf("viol-%s-%d", sanitize(sig), i),
				[]string{"signature=" + sig, "what=" + v.What}, ops)
			b.Violations = append(b.Violations, v)
		}
		if r.d != nil {
			d := *r.d
			d.Ops = r.t.Ops
			d.Replay = e.WriteReplay(prop, "history", fmt.Sprintf("disagree-%d", i),
				[]string{"where=" + d.Where, fmt.Sprintf("line-index=%d", d.Index), "impl=" + d.Impl, "model=" + d.Model}, r.t.Ops)
			b.Disagree = append(b.Disagree, d)
		}
	}
}

// countOK counts the successful ops of a transcript (lister syncs not counted).
func countOK(t *plugin.Transcript) int {
	okOps := 0
	for j, l := range t.Lines {
		if l != "dump" && j > 0 && strings.HasPrefix(t.Impl[j], "ok") && !strings.HasPrefix(l, "sync") {
			okOps++
		}
	}
	return okOps
}

// RunFile executes one replay / corpus file: monitor + correspondence.
func RunFile(e *hx.Env, r *hx.Report, path string, mon plugin.Monitor, isCorpus bool) {
	ops, err := hx.ReadOps(path)
	if err != nil || len(ops) == 0 {
		r.Disagree = append(r.Disagree, hx.Disagreement{Where: "replay-unreadable", Impl: path, Replay: path})
		return
	}
	if strings.HasPrefix(ops[0], "{") { // kind=obligation: nothing to execute
		return
	}
	if strings.HasPrefix(ops[0], "schedule ") {
		RunScheduleLine(e, r, ops[0], path)
		return
	}
	if strings.HasPrefix(ops[0], "row ") {
		for _, l := range ops {
			RunRowLine(e, r, l, path)
		}
		return
	}
	t, err := plugin.ReplayOps(ops, rand.New(rand.NewSource(e.Seed)), mon)
	if err != nil {
		r.Disagree = append(r.Disagree, hx.Disagreement{Where: "replay-failed", Impl: err.Error(), Replay: path})
		return
	}
	r.Traces++
	r.Case(strings.Join(t.Ops, "\n"), true)
	for k, v := range t.Stats {
		r.Histogram[k] += v
	}
	if isCorpus {
		r.Hit("corpus-history")
	}
	for _, v := range t.Violations {
		v.Replay = path
		r.Violations = append(r.Violations, v)
	}
	if t.Hang != "" {
		r.Violations = append(r.Violations, hx.Violation{Signature: "op-" + strings.Fields(t.Hang)[0], What: t.Hang, Replay: path})
	}
	d, err := plugin.Compare(e, t)
	if err != nil {
		r.Disagree = append(r.Disagree, hx.Disagreement{Where: "driver-failed", Impl: err.Error(), Replay: path})
		return
	}
	if d != nil {
		d.Replay = path
		d.Ops = t.Ops
		r.Disagree = append(r.Disagree, *d)
	}
}

// RunCorpus runs every file of corpus/<prop>.
func RunCorpus(e *hx.Env, r *hx.Report, prop string, mon plugin.Monitor) {
	files, _ := filepath.Glob(filepath.Join(VerifRoot(), "corpus", prop, "*.ops"))
	sort.Strings(files)
	for _, f := range files {
		RunFile(e, r, f, mon, true)
	}
}

// MonHits copies the "c03-hit:*" / "c02-hit:*" marks the monitors left in the world into the batch statistics.
func MonHits(w *plugin.World, b *plugin.Batch) {
	for k, v := range w.Mon {
		if strings.HasPrefix(k, "c03-hit:") || strings.HasPrefix(k, "c02-hit:") {
			if _, ok := v.(bool); ok {
				b.Stats["history:"+k[4:]]++
			}
		}
		if k == "c03-quiescent" {
			b.Stats["quiescent-points"] += intOf(v)
		}
		if k == "c02-rebinds" {
			b.Stats["rebinds-checked"] += intOf(v)
		}
	}
}

// Lap prints a timing line on stderr.
func Lap(prop string, t0 *time.Time, what string) {
	fmt.Fprintf(os.Stderr, "%s: %s %.1fs\n", prop, what, time.Since(*t0).Seconds())
	*t0 = time.Now()
}
