package pluginc03

import (
	"fmt"
	"math/rand"
	"strings"
	"sync"
	"time"

	"tkestack.io/galaxy/pkg/ipam/floatingip"

	"gxverif/hx"
	"gxverif/plugin"
)

// barrierIPAM decorates the plugin's IPAM: every ByPrefix(prefix) call for the watched prefix first takes its count
// (delegates) and then waits - bounded - until `want` callers have taken theirs.  With the count and the decision of
// unbindDpPod inside one LockDpPool scope the second caller cannot even start counting before the first has decided,
// so the wait times out and the decisions are serialised; if the lock does not cover the count, both callers count the
// same number of addresses before either decides.
type barrierIPAM struct {
	floatingip.IPAM
	prefix   string
	want     int
	wait     time.Duration
	mu       sync.Mutex
	arrived  int
	timedOut bool // a caller gave up waiting: the other one could not count in time (it was held off by the lock)
	all      chan struct{}
	met      bool // all callers had counted while the earlier ones were still waiting
}

func (b *barrierIPAM) ByPrefix(prefix string) ([]*floatingip.FloatingIPInfo, error) {
	out, err := b.IPAM.ByPrefix(prefix)
	if prefix != b.prefix {
		return out, err
	}
	b.mu.Lock()
	b.arrived++
	if b.arrived == b.want {
		b.met = !b.timedOut
		close(b.all)
	}
	b.mu.Unlock()
	select {
	case <-b.all:
	case <-time.After(b.wait):
		b.mu.Lock()
		b.timedOut = true
		b.mu.Unlock()
	}
	return out, err
}

// ScheduleResult of one forced schedule.
type ScheduleResult struct {
	Released    int
	Held        int
	BothCounted bool // both unbinds had counted before either decided
	Outcome     string
}

// RunScaleDownSchedule: an immutable deployment with 2 bound pods is scaled down to 1 replica (it now holds one address
// too many); both pods are deleted and their delete events are handled by two goroutines at once, the second count
// being forced to happen before the first decision whenever the code allows it.  Exactly one address must be
// released ("kept while the app holds no more IPs than replicas": 2 > 1 releases one, then 1 <= 1 keeps the other).
func RunScaleDownSchedule() (ScheduleResult, []string, error) {
	var res ScheduleResult
	ops := []string{"app scale dp ns1 d 2",
		"pod create ns1 d-x1 dp d ~ 1 - 1", "pod create ns1 d-x2 dp d ~ 1 - 1", "sync all",
		"bind ns1 d-x1 1 n1 ? ? 0 0", "bind ns1 d-x2 2 n1 ? ? 0 0",
		"app scale dp ns1 d 1", "pod delete ns1 d-x1", "pod delete ns1 d-x2", "sync all"}
	t, w, err := plugin.Execute(tableConf(), rand.New(rand.NewSource(1)), plugin.FixedScript(ops), nil, len(ops)+1)
	if err != nil {
		return res, nil, err
	}
	if len(w.Events) != 2 {
		return res, t.Ops, fmt.Errorf("schedule set-up: %d pending events, want 2", len(w.Events))
	}
	bar := &barrierIPAM{prefix: "dp_ns1_d_", want: 2, wait: 400 * time.Millisecond, all: make(chan struct{})}
	w.Plugin.VerifC03WrapIPAM(func(i floatingip.IPAM) floatingip.IPAM { bar.IPAM = i; return bar })
	var wg sync.WaitGroup
	outcomes := make([]string, 2)
	for i := 0; i < 2; i++ {
		wg.Add(1)
		go func(i int) {
			defer wg.Done()
			outcomes[i] = hx.Guard(20*time.Second, func() { w.Plugin.VerifPluginUnbind(w.Events[i].Pod) })
		}(i)
	}
	wg.Wait()
	res.Outcome = strings.Join(outcomes, ",")
	res.BothCounted = bar.met
	for _, r := range w.IPAMDump() {
		if !r.Free && strings.HasPrefix(r.Key, "dp_ns1_d_") {
			res.Held++
		}
	}
	res.Released = 2 - res.Held
	return res, append(t.Ops, "schedule dp-scale-down"), nil
}

// RunSchedules runs the forced schedule n times and reports a violation when the number of released addresses is not 1.
func RunSchedules(e *hx.Env, r *hx.Report, prop string, n int) {
	for i := 0; i < n; i++ {
		res, _, err := RunScaleDownSchedule()
		if err != nil {
			r.Disagree = append(r.Disagree, hx.Disagreement{Where: "harness-error", Impl: err.Error()})
			return
		}
		r.Traces++
		r.Case(fmt.Sprintf("schedule dp-scale-down #%d", i), true)
		if res.BothCounted {
			r.Hit("schedule:both-counted-before-either-decided")
		} else {
			r.Hit("schedule:second-count-waited-for-the-pool-lock")
		}
		r.Hit(fmt.Sprintf("schedule:released=%d", res.Released))
		if res.Outcome != "ok,ok" {
			r.Violations = append(r.Violations, hx.Violation{Signature: "schedule-op-did-not-return", What: res.Outcome,
				Replay: e.WriteReplay(prop, "schedule", "dp-scale-down-hang", nil, []string{"schedule dp-scale-down"})})
			return
		}
		if res.Released != 1 {
			r.Violations = append(r.Violations, hx.Violation{Signature: "released-although-policy-keeps:dp:immutable:concurrent-scale-down",
				What: fmt.Sprintf("two concurrent unbinds of an immutable deployment holding 2 addresses at 1 replica released %d addresses (want exactly 1; both counted before either decided: %v)",
					res.Released, res.BothCounted),
				Replay: e.WriteReplay(prop, "schedule", "dp-scale-down", []string{"park=after ByPrefix(dp_ns1_d_) until both goroutines counted or 400ms"},
					[]string{"schedule dp-scale-down"})})
			return
		}
	}
}

// RunScheduleLine replays a `schedule …` line.
func RunScheduleLine(e *hx.Env, r *hx.Report, line, path string) {
	n := len(r.Violations)
	if strings.Contains(line, "cr-") {
		RunCRSchedules(e, r, r.Property, 2)
	} else {
		RunSchedules(e, r, r.Property, 3)
	}
	for i := n; i < len(r.Violations); i++ {
		r.Violations[i].Replay = path
	}
}
