package pluginc03

import (
	"fmt"
	"math/rand"
	"strconv"
	"strings"
	"sync"

	"gxverif/hx"
	"gxverif/plugin"
)

// Row is one row of the decision table: which workload, which policy, what the informers show, how many addresses the
// app holds, and by which path (delete event / lost event + resync) the decision is taken.
type Row struct {
	Kind     string // sts | dp | dppool | crs (scalable CR) | cro (other CR) | bare
	Numeric  bool   // pod name ends in -<n>
	Policy   int
	App      bool // the workload exists when the decision is taken
	Replicas int
	Index    int
	Extra    int    // deployments: further addresses of the app / pool
	Path     string // deliver | resync
}

func (r Row) Line() string {
	b := func(x bool) int {
		if x {
			return 1
		}
		return 0
	}
	return fmt.Sprintf("row kind=%s numeric=%d policy=%d app=%d replicas=%d index=%d extra=%d path=%s", r.Kind, b(r.Numeric),
		r.Policy, b(r.App), r.Replicas, r.Index, r.Extra, r.Path)
}

func ParseRow(line string) (Row, error) {
	var r Row
	f := strings.Fields(line)
	if len(f) != 9 || f[0] != "row" {
		return r, fmt.Errorf("bad row line %q", line)
	}
	for _, t := range f[1:] {
		kv := strings.SplitN(t, "=", 2)
		if len(kv) != 2 {
			return r, fmt.Errorf("bad row field %q", t)
		}
		n, _ := strconv.Atoi(kv[1])
		switch kv[0] {
		case "kind":
			r.Kind = kv[1]
		case "numeric":
			r.Numeric = n == 1
		case "policy":
			r.Policy = n
		case "app":
			r.App = n == 1
		case "replicas":
			r.Replicas = n
		case "index":
			r.Index = n
		case "extra":
			r.Extra = n
		case "path":
			r.Path = kv[1]
		default:
			return r, fmt.Errorf("bad row field %q", t)
		}
	}
	return r, nil
}

// AllRows enumerates the table: every key kind x policy x (app exists, replicas <= 2, index <= 2, extra <= 2) x path.
func AllRows() []Row {
	var out []Row
	for _, path := range []string{"deliver", "resync"} {
		for pol := 0; pol <= 2; pol++ {
			for _, app := range []bool{true, false} {
				for rep := 0; rep <= 2; rep++ {
					if !app && rep != 0 {
						continue
					}
					for idx := 0; idx <= 2; idx++ {
						out = append(out, Row{"sts", true, pol, app, rep, idx, 0, path},
							Row{"crs", true, pol, app, rep, idx, 0, path}, Row{"cro", true, pol, app, rep, idx, 0, path})
					}
					out = append(out, Row{"crs", false, pol, app, rep, 0, 0, path}, Row{"cro", false, pol, app, rep, 0, 0, path})
					for extra := 0; extra <= 2; extra++ {
						out = append(out, Row{"dp", false, pol, app, rep, 0, extra, path}, Row{"dppool", false, pol, app, rep, 0, extra, path})
					}
				}
			}
			for idx := 0; idx <= 2; idx++ {
				out = append(out, Row{"bare", true, pol, false, 0, idx, 0, path})
			}
			out = append(out, Row{"bare", false, pol, false, 0, 0, 0, path})
		}
	}
	return out
}

// Expected is the documented action for the row - computed from the row alone.
func (r Row) Expected() string {
	in := DocIn{Numeric: r.Numeric, Policy: r.Policy, AppExists: r.App, Replicas: r.Replicas, Index: -1, NPrefix: 1 + r.Extra}
	if r.Numeric {
		in.Index = r.Index
	}
	switch r.Kind {
	case "sts":
		in.Kind = "sts"
	case "dp":
		in.Kind = "dp"
	case "dppool":
		in.Kind, in.Pooled, in.Policy = "dp", true, 2 // "Float IP Pool Deployment is always never release policy"
	case "crs":
		in.Kind = "cr-scalable"
	case "cro":
		in.Kind = "cr-other"
	case "bare":
		in.Kind = "bare"
	}
	return DocAction(in, false)
}

func tableConf() plugin.Conf {
	return plugin.Conf{Pools: []plugin.Pool{{NodeSubnets: []plugin.Subnet{{Base: 0x0a090100, Bits: 24}},
		Ranges: [][2]uint32{{0x0a0a0002, 0x0a0a0007}}, Gateway: 0x0a0a0001, Bits: 24}},
		Nodes: []plugin.Node{{Name: "n1", IP: 0x0a090105}}}
}

// RunRow executes one row against the real plugin (and, for rows the plugin model covers, against gxdrv_plugin): the
// pod gets an address, the workload is brought into the row's state, the pod is deleted, the decision is taken by
// the row's path; the observed action is compared with the documented one.
func RunRow(e *hx.Env, row Row, mon plugin.Monitor) (observed string, t *plugin.Transcript, dis *hx.Disagreement, err error) {
	kind, app, pool, name := "", "", "", ""
	switch row.Kind {
	case "sts":
		kind, app = "sts", "a"
	case "dp":
		kind, app = "dp", "d"
	case "dppool":
		kind, app, pool = "dp", "d", "p1"
	case "crs", "cro":
		kind, app = "other", "t"
	case "bare":
		kind, app = "bare", ""
	}
	base := map[string]string{"sts": "a", "dp": "d-x", "dppool": "d-x", "crs": "t", "cro": "t", "bare": "solo"}[row.Kind]
	switch {
	case row.Kind == "dp" || row.Kind == "dppool":
		name = "d-x1"
	case row.Numeric:
		name = fmt.Sprintf("%s-%d", base, row.Index)
	default:
		name = base + "-x"
		if row.Kind == "bare" {
			name = "job"
		}
	}
	appKind := map[string]string{"sts": "sts", "dp": "dp"}[kind]
	var ops []string
	if appKind != "" {
		ops = append(ops, fmt.Sprintf("app scale %s ns1 %s 3", appKind, app))
	}
	ops = append(ops, fmt.Sprintf("pod create ns1 %s %s %s %s %d - 1", name, kind, tilde(app), tilde(pool), row.Policy))
	for i := 0; i < row.Extra; i++ {
		ops = append(ops, fmt.Sprintf("pod create ns1 d-y%d dp d %s %d - 1", i, tilde(pool), row.Policy))
	}
	ops = append(ops, "sync all", fmt.Sprintf("bind ns1 %s @ n1 ? ? 0 0", name))
	for i := 0; i < row.Extra; i++ {
		ops = append(ops, fmt.Sprintf("bind ns1 d-y%d @ n1 ? ? 0 0", i))
	}
	if appKind != "" {
		if row.App {
			ops = append(ops, fmt.Sprintf("app scale %s ns1 %s %d", appKind, app, row.Replicas))
		} else {
			ops = append(ops, fmt.Sprintf("app delete %s ns1 %s", appKind, app))
		}
	}
	ops = append(ops, fmt.Sprintf("pod delete ns1 %s", name), "sync all")
	decideAt := len(ops)
	if row.Path == "deliver" {
		ops = append(ops, "deliver 0 0 0")
	} else {
		ops = append(ops, "drop 0", "resync ? 0 0")
	}
	sc := &Scalable{Types: map[string]bool{}, Replicas: map[string]map[string]int{"tapp": {}}}
	if row.Kind == "crs" {
		sc.Types["tapp"] = true
		if row.App {
			sc.Replicas["tapp"]["ns1/t"] = row.Replicas
		}
	}
	var before []plugin.IPAMRec
	var target uint32
	installed := false
	script := func(w *plugin.World, step int) string {
		if !installed {
			installed = true
			w.Mon["c03-scalable"] = sc
			if row.Kind == "crs" {
				// the REAL crd key lookup and custom-resource cache (informer started at the first GetReplicas)
				real := NewRealCRD(sc.Replicas["tapp"], nil)
				w.Plugin.VerifC03SetCRD(real.Key, real.Cache)
			}
		}
		if step >= len(ops) {
			return ""
		}
		if step == decideAt {
			before = w.IPAMDump()
			for _, r := range before {
				if !r.Free && strings.HasSuffix(r.Key, "_"+name) {
					target = r.IP
				}
			}
		}
		l := ops[step]
		if strings.Contains(l, " @ ") {
			f := strings.Fields(l)
			uid := "0"
			if tp := w.TruthPod(f[1], f[2]); tp != nil {
				uid = uidNum(tp)
			}
			l = strings.Replace(l, " @ ", " "+uid+" ", 1)
		}
		return l
	}
	t, w, err := plugin.Execute(tableConf(), rand.New(rand.NewSource(1)), script, mon, len(ops)+1)
	if err != nil {
		return "", nil, nil, err
	}
	if target == 0 {
		return "no-address", t, nil, nil
	}
	var was plugin.IPAMRec
	for _, r := range before {
		if r.IP == target {
			was = r
		}
	}
	observed = "untouched"
	for _, r := range w.IPAMDump() {
		if r.IP != target {
			continue
		}
		k := SplitKey(was.Key)
		switch {
		case r.Free:
			observed = "release"
		case r.Key == k.Prefix():
			observed = "reserve-prefix"
		case r.Key == was.Key && r.UID == "" && r.Node == "":
			observed = "reserve-own"
		}
	}
	if row.Kind != "crs" && len(t.Violations) == 0 && t.Hang == "" { // the plugin model has no scalable custom resources
		dis, err = plugin.Compare(e, t)
	}
	return observed, t, dis, err
}

// RunTable runs the given rows in parallel and reports every row whose observed action is not the documented one.
func RunTable(e *hx.Env, r *hx.Report, prop string, rows []Row, mon plugin.Monitor) {
	type res struct {
		obs string
		t   *plugin.Transcript
		dis *hx.Disagreement
		err error
	}
	out := make([]res, len(rows))
	var wg sync.WaitGroup
	sem := make(chan struct{}, 32)
	for i := range rows {
		wg.Add(1)
		sem <- struct{}{}
		go func(i int) {
			defer wg.Done()
			defer func() { <-sem }()
			o, t, d, err := RunRow(e, rows[i], mon)
			out[i] = res{o, t, d, err}
		}(i)
	}
	wg.Wait()
	perSig := map[string]int{}
	for i, x := range out {
		row := rows[i]
		if x.err != nil {
			r.Disagree = append(r.Disagree, hx.Disagreement{Where: "harness-error", Impl: x.err.Error()})
			continue
		}
		r.Traces++
		r.Case(row.Line(), x.obs != "no-address")
		r.Hit("table:" + row.Kind + ":" + polName(row.Policy) + ":" + row.Path + ":" + x.obs)
		for k, v := range x.t.Stats {
			r.Histogram[k] += v
		}
		for _, v := range x.t.Violations {
			perSig[v.Signature]++
			if perSig[v.Signature] <= 3 {
				v.Replay = e.WriteReplay(prop, "input", fmt.Sprintf("row-viol-%s-%d", sanitize(v.Signature), perSig[v.Signature]),
					[]string{"signature=" + v.Signature, "what=" + v.What}, []string{row.Line()})
				r.Violations = append(r.Violations, v)
			}
		}
		if x.t.Hang != "" {
			r.Violations = append(r.Violations, hx.Violation{Signature: "op-" + strings.Fields(x.t.Hang)[0], What: x.t.Hang,
				Replay: e.WriteReplay(prop, "input", fmt.Sprintf("row-hang-%d", i), nil, []string{row.Line()})})
		}
		if x.obs == "no-address" {
			r.Disagree = append(r.Disagree, hx.Disagreement{Where: "table-row-without-address", Impl: row.Line()})
			continue
		}
		if want := row.Expected(); x.obs != want {
			sig := fmt.Sprintf("decision-differs-from-doc:%s:%s:%s", row.Kind, polName(row.Policy), row.Path)
			perSig[sig]++
			if perSig[sig] <= 3 {
				r.Violations = append(r.Violations, hx.Violation{Signature: sig,
					What:   fmt.Sprintf("%s: the code's action is %q, the documented one %q", row.Line(), x.obs, want),
					Replay: e.WriteReplay(prop, "input", fmt.Sprintf("row-%s-%d", sanitize(sig), perSig[sig]), []string{"signature=" + sig}, []string{row.Line()})})
			}
		}
		if x.dis != nil {
			d := *x.dis
			d.Ops = x.t.Ops
			d.Replay = e.WriteReplay(prop, "history", fmt.Sprintf("row-disagree-%d", i), []string{"where=" + d.Where, "row=" + row.Line()}, x.t.Ops)
			if len(r.Disagree) < 20 {
				r.Disagree = append(r.Disagree, d)
			}
		}
	}
}

// RunRowLine replays one `row …` line.
func RunRowLine(e *hx.Env, r *hx.Report, line, path string) {
	row, err := ParseRow(line)
	if err != nil {
		r.Disagree = append(r.Disagree, hx.Disagreement{Where: "replay-unreadable", Impl: err.Error(), Replay: path})
		return
	}
	n := len(r.Violations)
	RunTable(e, r, r.Property, []Row{row}, MonitorC03)
	for i := n; i < len(r.Violations); i++ {
		r.Violations[i].Replay = path
	}
}
