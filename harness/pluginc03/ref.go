// Package pluginc03 holds what the harness commands of properties C03 ("IPs are released exactly when the release
// policy says so") and C02 ("float IP is sticky") add to the reusable plugin harness (harness/plugin, owned by the
// work package "plugin"): the independent reference evaluator of the DOCUMENTED release policy, the monitors of both
// properties, history generators that steer towards quiescent points / re-scheduling, the decision-table runner
// (incl. scalable custom resources through verif_hooks_c03.go) and the forced two-goroutine schedule of the
// deployment scale-down decision.
package pluginc03

import (
	"strconv"
	"strings"

	corev1 "k8s.io/api/core/v1"
	metaErrs "k8s.io/apimachinery/pkg/api/errors"
	"k8s.io/apimachinery/pkg/labels"
	"k8s.io/apimachinery/pkg/runtime/schema"

	"gxverif/plugin"
)

// Annotation names and values as documented (doc/float-ip.md) - deliberately NOT imported from the repo's constant
// package: the reference is written from the documentation.
const (
	docPolicyAnnotation = "k8s.v1.cni.galaxy.io/release-policy"
	docPoolAnnotation   = "tke.cloud.tencent.com/eni-ip-pool"
)

// DocIn are the inputs of the documented release policy for the addresses of one identity.
type DocIn struct {
	Kind      string // sts | dp | cr-scalable | cr-other | bare
	Pooled    bool   // named IP pool
	Numeric   bool   // pod name matches .*-[0-9]+$
	Policy    int    // 0 default, 1 immutable, 2 never (pool annotation already applied)
	AppExists bool
	Replicas  int
	Index     int // ordinal of the pod name, -1 = none
	NPrefix   int // deployments: number of addresses the app / pool holds
}

// DocSupports: which workloads can have a reserving policy (doc/float-ip.md "Custom resource workloads").
func DocSupports(in DocIn) bool {
	switch in.Kind {
	case "sts", "dp":
		return true
	}
	if !in.Numeric {
		return false
	}
	return in.Policy == 2 || in.Kind == "cr-scalable"
}

// DocKeeps is the documented policy: is the address of a vanished / finished pod kept?
//
//	default:   "release IP once the pod is deleted or finished"
//	immutable: "release IP only when deleting or scaling down deployment or statefulset"
//	           (statefulset / scalable CR: kept iff the app exists and index < replicas;
//	            deployment: kept iff the app exists and holds no more IPs than replicas)
//	never:     "never release IP even if deployment or statefulset is deleted"; every pod of a named pool is never
//	a policy that is not supported for the workload is no policy.
func DocKeeps(in DocIn) bool {
	if in.Policy == 0 || !DocSupports(in) {
		return false
	}
	if in.Policy == 2 {
		return true
	}
	if in.Kind == "dp" {
		return in.AppExists && in.NPrefix <= in.Replicas
	}
	return in.AppExists && (in.Index < 0 || in.Index < in.Replicas)
}

// DocAction names the documented action like the Lean `docAction`.
func DocAction(in DocIn, keyIsPrefix bool) string {
	if !DocKeeps(in) {
		return "release"
	}
	if in.Kind == "dp" {
		if keyIsPrefix {
			return "keep"
		}
		return "reserve-prefix"
	}
	return "reserve-own"
}

// EffectivePolicy: the policy of a pod object as documented (pool annotation forces never).
func EffectivePolicy(pod *corev1.Pod) int {
	if pod == nil || pod.Annotations == nil {
		return 0
	}
	if pod.Annotations[docPoolAnnotation] != "" {
		return 2
	}
	switch pod.Annotations[docPolicyAnnotation] {
	case "immutable":
		return 1
	case "never":
		return 2
	}
	return 0
}

// KeyParts is a stored key taken apart as documented:
// [pool__<pool>_]<type>_<namespace>_<app>_<pod>
type KeyParts struct {
	Pool, Typ, NS, App, Pod string
	OK                      bool // the key has the documented shape
}

func SplitKey(key string) KeyParts {
	var k KeyParts
	rest := key
	if strings.HasPrefix(key, "pool__") {
		x := strings.SplitN(key[len("pool__"):], "_", 2)
		if len(x) != 2 {
			return k
		}
		k.Pool, rest = x[0], x[1]
	}
	p := strings.Split(rest, "_")
	if len(p) != 4 {
		k.OK = k.Pool != "" && rest == ""
		return k
	}
	k.Typ, k.NS, k.App, k.Pod, k.OK = p[0], p[1], p[2], p[3], true
	return k
}

// Prefix is the key under which a deployment / pool holds addresses in reserve.
func (k KeyParts) Prefix() string {
	if k.Pool != "" {
		return "pool__" + k.Pool + "_"
	}
	return k.Typ + "_" + k.NS + "_" + k.App + "_"
}

func podOrdinal(name string) int {
	i := strings.LastIndex(name, "-")
	if i < 0 || i == len(name)-1 {
		return -1
	}
	n, err := strconv.Atoi(name[i+1:])
	if err != nil || n < 0 {
		return -1
	}
	for _, c := range name[i+1:] {
		if c < '0' || c > '9' {
			return -1
		}
	}
	return n
}

// Scalable is the set of custom-resource app types ("tapp") the world has a scalable CRD for, with their replicas.
type Scalable struct {
	Types    map[string]bool           // lower-case kind, e.g. "tapp"
	Replicas map[string]map[string]int // type -> "ns/name" -> replicas
}

func scalableOf(w *plugin.World) *Scalable {
	s, _ := w.Mon["c03-scalable"].(*Scalable)
	return s
}

// kindOf classifies a key's app type.
func kindOf(w *plugin.World, k KeyParts) string {
	switch k.Typ {
	case "sts":
		return "sts"
	case "dp":
		return "dp"
	case "NULL":
		return "bare"
	}
	if s := scalableOf(w); s != nil && s.Types[k.Typ] {
		return "cr-scalable"
	}
	return "cr-other"
}

// AppView is what the informers show about a workload: exists, replicas; Fresh = API truth says the same.
type AppView struct {
	Exists   bool
	Replicas int
	Fresh    bool
}

func appView(w *plugin.World, kind string, k KeyParts) AppView {
	switch kind {
	case "sts":
		v := AppView{}
		if s, err := w.Plugin.StatefulSetLister.StatefulSets(k.NS).Get(k.App); err == nil {
			v.Exists, v.Replicas = true, 1
			if s.Spec.Replicas != nil {
				v.Replicas = int(*s.Spec.Replicas)
			}
		} else if !metaErrs.IsNotFound(err) {
			return v
		}
		tv := AppView{}
		if t, err := w.Kube.AppsV1().StatefulSets(k.NS).Get(ctx(), k.App, getOpts); err == nil {
			tv.Exists, tv.Replicas = true, 1
			if t.Spec.Replicas != nil {
				tv.Replicas = int(*t.Spec.Replicas)
			}
		}
		v.Fresh = tv.Exists == v.Exists && tv.Replicas == v.Replicas
		return v
	case "dp":
		v := AppView{}
		if d, err := w.Plugin.DeploymentLister.Deployments(k.NS).Get(k.App); err == nil {
			v.Exists = true
			if d.Spec.Replicas != nil {
				v.Replicas = int(*d.Spec.Replicas)
			}
		}
		tv := AppView{}
		if t, err := w.Kube.AppsV1().Deployments(k.NS).Get(ctx(), k.App, getOpts); err == nil {
			tv.Exists = true
			if t.Spec.Replicas != nil {
				tv.Replicas = int(*t.Spec.Replicas)
			}
		}
		v.Fresh = tv.Exists == v.Exists && tv.Replicas == v.Replicas
		return v
	case "cr-scalable":
		if s := scalableOf(w); s != nil {
			if n, ok := s.Replicas[k.Typ][k.NS+"/"+k.App]; ok {
				return AppView{Exists: true, Replicas: n, Fresh: true}
			}
		}
		return AppView{Fresh: true}
	}
	return AppView{Fresh: true}
}

// docInFor builds the inputs of the documented policy for a stored key with the given policy in the current world;
// nPrefix is the number of addresses held under the key's prefix (counted by the caller in the dump it judges).
func docInFor(w *plugin.World, key string, policy int, nPrefix int) (DocIn, AppView, KeyParts) {
	k := SplitKey(key)
	kind := kindOf(w, k)
	av := appView(w, kind, k)
	idx := podOrdinal(k.Pod)
	return DocIn{Kind: kind, Pooled: k.Pool != "", Numeric: idx >= 0, Policy: policy, AppExists: av.Exists,
		Replicas: av.Replicas, Index: idx, NPrefix: nPrefix}, av, k
}

// listersInSync: the pod lister and the workload listers show API truth.
func listersInSync(w *plugin.World) bool {
	lp, err := w.Plugin.PodLister.List(labels.Everything())
	if err != nil {
		return false
	}
	tp := w.TruthPods()
	if len(lp) != len(tp) {
		return false
	}
	for _, p := range tp {
		l := w.ListerPod(p.Namespace, p.Name)
		if l == nil || l.UID != p.UID || l.Status.Phase != p.Status.Phase || l.Spec.NodeName != p.Spec.NodeName {
			return false
		}
	}
	ls, _ := w.Plugin.StatefulSetLister.List(labels.Everything())
	ts, _ := w.Kube.AppsV1().StatefulSets("").List(ctx(), listOpts)
	if len(ls) != len(ts.Items) {
		return false
	}
	for i := range ts.Items {
		t := &ts.Items[i]
		l, err := w.Plugin.StatefulSetLister.StatefulSets(t.Namespace).Get(t.Name)
		if err != nil || stsN(l.Spec.Replicas) != stsN(t.Spec.Replicas) {
			return false
		}
	}
	ld, _ := w.Plugin.DeploymentLister.List(labels.Everything())
	td, _ := w.Kube.AppsV1().Deployments("").List(ctx(), listOpts)
	if len(ld) != len(td.Items) {
		return false
	}
	for i := range td.Items {
		t := &td.Items[i]
		l, err := w.Plugin.DeploymentLister.Deployments(t.Namespace).Get(t.Name)
		if err != nil || *l.Spec.Replicas != *t.Spec.Replicas {
			return false
		}
	}
	return true
}

var _ = schema.GroupVersionResource{}

// stsN: `.spec.replicas` of a statefulset, unset meaning one replica.
func stsN(p *int32) int32 {
	if p == nil {
		return 1
	}
	return *p
}
