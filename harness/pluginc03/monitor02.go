package pluginc03

import (
	"fmt"
	"sort"
	"strings"
	"time"

	corev1 "k8s.io/api/core/v1"
	"tkestack.io/galaxy/pkg/ipam/schedulerplugin/util"
	"tkestack.io/galaxy/pkg/utils/nets"

	"gxverif/hx"
	"gxverif/plugin"
)

type c02prev struct {
	dump    []plugin.IPAMRec
	updated map[uint32]time.Time // UpdatedAt of every allocated address
}

func snapshot02(w *plugin.World, dump []plugin.IPAMRec) *c02prev {
	p := &c02prev{dump: dump, updated: map[uint32]time.Time{}}
	if all, err := w.Plugin.GetIpam().ByPrefix(""); err == nil {
		for _, f := range all {
			if f.Key != "" {
				p.updated[nets.IPToInt(f.IP)] = f.UpdatedAt
			}
		}
	}
	return p
}

func nodeSubnet(w *plugin.World, node string) string {
	for _, n := range w.Conf.Nodes {
		if n.Name == node {
			if sn := w.Plugin.GetIpam().NodeSubnet(nets.IntToIP(n.IP)); sn != nil {
				return sn.String()
			}
		}
	}
	return ""
}

func hasStr(l []string, s string) bool {
	for _, x := range l {
		if x == s {
			return true
		}
	}
	return false
}

func hasRanges(p *corev1.Pod) bool {
	return p != nil && p.Annotations != nil && strings.Contains(p.Annotations["k8s.v1.cni.galaxy.io/args"], "request_ip_range")
}

// appQuota: how many addresses the deployment / pool may use, as documented: the Pool object's size if the pod names a
// pool that has one, else the deployment's replicas; sized = a Pool object defines it.
func appQuota(w *plugin.World, k KeyParts) (quota int, sized bool) {
	if k.Pool != "" {
		if p, err := w.Plugin.PoolLister.Pools("kube-system").Get(k.Pool); err == nil {
			return p.Size, true
		}
	}
	if d, err := w.Plugin.DeploymentLister.Deployments(k.NS).Get(k.App); err == nil && d.Spec.Replicas != nil {
		return int(*d.Spec.Replicas), false
	}
	return 0, false
}

// usedAndReserved: the addresses under the prefix that are in use (keyed to a pod; in a pool without size only the pods
// of this app count) and the ones held in reserve (keyed to the prefix itself).
func usedAndReserved(dump []plugin.IPAMRec, k KeyParts, sized bool) (used int, reserved []plugin.IPAMRec) {
	prefix := k.Prefix()
	appPrefix := prefix
	if k.Pool != "" {
		appPrefix = prefix + k.Typ + "_" + k.NS + "_" + k.App + "_"
	}
	for _, r := range dump {
		if r.Free || !strings.HasPrefix(r.Key, prefix) {
			continue
		}
		if r.Key == prefix {
			reserved = append(reserved, r)
		} else if sized || k.Pool == "" || strings.HasPrefix(r.Key, appPrefix) {
			used++
		}
	}
	return
}

// MonitorC02 is the oracle of property C02, written from the property statement, evaluated on the real plugin: just
// before every real Filter / Bind the reservation set of the pod's identity (addresses stored under its key) and of
// its app / pool (addresses stored under the prefix) is known from the previous step's dump; after the step
//
//   - Filter of an identity that owns an address (no requested ranges) may offer only nodes from which one owned
//     address is routable (`offered-node-cannot-route-reserved-ip`);
//   - Filter of a deployment / pool pod with a reserving policy that owns nothing, while its app holds addresses in
//     reserve and has quota left, must take one of THEM - a most recently updated one routable from the chosen subnet
//   - and must never take a free address, also when the store update fails (`fresh-ip-while-reserved-exists`);
//   - Filter of such a pod while its app already uses its whole quota (spec.replicas resp. Pool.size, nothing added - no
//     surge allowance) must refuse ("wait for releasing"): otherwise the replacement pod of a rolling update is bound
//     with a fresh address before the old pod's address reaches the reserve (same signature);
//   - a successful Bind of an identity that owned an address must write exactly one of the owned addresses into the
//     binding annotation (`rebound-with-different-ip`; `fresh-ip-while-reserved-exists` if the address was free before).
func MonitorC02(w *plugin.World, step int) []hx.Violation {
	var out []hx.Violation
	prev, _ := w.Mon["c02"].(*c02prev)
	dump := w.IPAMDump()
	defer func() { w.Mon["c02"] = snapshot02(w, dump) }()
	if prev == nil {
		return nil
	}
	kind := w.LastOp.Kind
	if kind != "filter" && kind != "bind" {
		return nil
	}
	f := strings.Fields(w.LastOp.Line)
	if len(f) < 4 {
		return nil
	}
	viol := func(sig, what string) {
		out = append(out, hx.Violation{Signature: sig, What: fmt.Sprintf("step %d (%s -> %s): %s", step, w.LastOp.Line, w.LastOp.Result, what)})
	}
	pod := w.TruthPod(f[1], f[2])
	if pod == nil {
		return nil
	}
	ko, err := util.FormatKey(pod)
	if err != nil {
		return nil
	}
	key := ko.KeyInDB
	k := SplitKey(key)
	pol := EffectivePolicy(pod)
	before := map[uint32]plugin.IPAMRec{}
	var owned []plugin.IPAMRec
	for _, r := range prev.dump {
		before[r.IP] = r
		if !r.Free && r.Key == key {
			owned = append(owned, r)
		}
	}
	after := map[uint32]plugin.IPAMRec{}
	for _, r := range dump {
		after[r.IP] = r
	}
	freshFor := func() []uint32 { // addresses that were free before and belong to the key now
		var l []uint32
		for _, r := range dump {
			if !r.Free && r.Key == key && before[r.IP].Free {
				l = append(l, r.IP)
			}
		}
		return l
	}
	// an identity that requests ONE range list and already owns exactly one address inside it: "bound with exactly the
	// IP it held before ... never given a different IP while the old one is still reserved" - neither filter nor bind
	// may take a fresh address for it, however many configured ranges of a pool the requested range spans
	if rr := plugin.PodRanges(pod); len(rr) == 1 && len(owned) == 1 && (kind == "filter" || kind == "bind") {
		inside := false
		for _, x := range rr[0] {
			if x[0] <= owned[0].IP && owned[0].IP <= x[1] {
				inside = true
			}
		}
		if inside {
			w.Mon["c02-hit:owning-inside-requested-range:"+kind] = true
			if fr := freshFor(); len(fr) > 0 {
				viol("fresh-ip-while-reserved-exists:requested-range", fmt.Sprintf("%q (policy %s) owned %s inside its requested range before the %s, which took %v for it as well",
					key, polName(pol), plugin.IPStr(owned[0].IP), kind, ipStrs(fr)))
			}
		}
	}
	switch kind {
	case "filter":
		okRes := strings.HasPrefix(w.LastOp.Result, "ok nodes=")
		var offered []string
		if okRes && w.LastOp.Result != "ok nodes=-" {
			offered = strings.Split(strings.TrimPrefix(w.LastOp.Result, "ok nodes="), ",")
		}
		if len(owned) > 0 && !hasRanges(pod) {
			w.Mon["c02-hit:filter-owning:"+kindOf(w, k)+":"+polName(pol)] = true
			if okRes {
				explained := false
				for _, r := range owned {
					all := true
					for _, n := range offered {
						if !hasStr(r.Subnets, nodeSubnet(w, n)) {
							all = false
						}
					}
					if all {
						explained = true
					}
				}
				if !explained {
					viol("offered-node-cannot-route-reserved-ip", fmt.Sprintf("%q owns %v but the offered nodes %v are not all in the node subnets of one owned address",
						key, ipList(owned), offered))
				}
			}
			if fr := freshFor(); len(fr) > 0 {
				viol("fresh-ip-while-reserved-exists", fmt.Sprintf("%q owned %v and filter allocated %v", key, ipList(owned), ipStrs(fr)))
			}
			return out
		}
		if k.Typ == "dp" && pol != 0 && len(owned) == 0 && !hasRanges(pod) {
			quota, sized := appQuota(w, k)
			used, reserved := usedAndReserved(prev.dump, k, sized)
			if used >= quota {
				// the quota gate: the app already uses as many addresses as it has replicas (resp. its pool has size) - the
				// quota is spec.replicas / Pool.size and nothing else. The pod must wait for an address to come back
				// ("wait for releasing"); passing it on lets bind hand a fresh address while the old pod's address is about
				// to fall into the app's reserve.
				w.Mon["c02-hit:dp-quota-gate:"+map[bool]string{true: "pool", false: "app"}[k.Pool != ""]+":"+polName(pol)] = true
				if len(reserved) > 0 {
					w.Mon["c02-hit:dp-quota-gate-with-reserve"] = true
				}
				if okRes {
					viol("fresh-ip-while-reserved-exists", fmt.Sprintf("%q: its app uses %d addresses, quota %d (sized pool: %v), %d in reserve; the replacement pod must wait for a release but filter answered %s",
						key, used, quota, sized, len(reserved), w.LastOp.Result))
				}
				if fr := freshFor(); len(fr) > 0 {
					viol("fresh-ip-while-reserved-exists", fmt.Sprintf("%q: its app uses %d addresses, quota %d; filter allocated %v", key, used, quota, ipStrs(fr)))
				}
				for _, r := range reserved {
					if a := after[r.IP]; a.Key == key {
						viol("fresh-ip-while-reserved-exists", fmt.Sprintf("%q: its app uses %d addresses, quota %d; filter re-keyed the reserved %s", key, used, quota, plugin.IPStr(r.IP)))
					}
				}
				return out
			}
			if len(reserved) == 0 {
				return out
			}
			w.Mon["c02-hit:dp-replacement:"+map[bool]string{true: "pool", false: "app"}[k.Pool != ""]+":"+polName(pol)] = true
			if fr := freshFor(); len(fr) > 0 {
				viol("fresh-ip-while-reserved-exists", fmt.Sprintf("%q: the app holds %v in reserve (used %d < quota %d) but filter allocated the free address %v",
					key, ipList(reserved), used, quota, ipStrs(fr)))
				return out
			}
			var taken []plugin.IPAMRec
			for _, r := range reserved {
				if a := after[r.IP]; !a.Free && a.Key == key {
					taken = append(taken, r)
				}
			}
			if !okRes {
				w.Mon["c02-hit:dp-replacement-filter-failed"] = true
				if len(offered) > 0 {
					viol("fresh-ip-while-reserved-exists", "filter failed but offered nodes")
				}
				return out
			}
			if len(taken) != 1 {
				viol("fresh-ip-while-reserved-exists", fmt.Sprintf("%q: the app holds %v in reserve (used %d < quota %d); filter answered %s but re-keyed %d of them",
					key, ipList(reserved), used, quota, w.LastOp.Result, len(taken)))
				return out
			}
			// admissible choice: most recently updated among the reserved addresses routable from the chosen subnet =
			// the first (string order) of the union of the reserved addresses' node subnets
			subs := map[string]bool{}
			for _, r := range reserved {
				for _, s := range r.Subnets {
					subs[s] = true
				}
			}
			var sl []string
			for s := range subs {
				sl = append(sl, s)
			}
			sort.Strings(sl)
			if len(sl) > 0 {
				chosen := sl[0]
				if !hasStr(taken[0].Subnets, chosen) {
					viol("rebound-with-different-ip", fmt.Sprintf("%q: re-keyed %s which is not routable from the chosen subnet %s", key, plugin.IPStr(taken[0].IP), chosen))
				}
				for _, r := range reserved {
					if hasStr(r.Subnets, chosen) && prev.updated[r.IP].After(prev.updated[taken[0].IP]) {
						viol("rebound-with-different-ip", fmt.Sprintf("%q: re-keyed %s although %s (same subnet %s) was updated more recently",
							key, plugin.IPStr(taken[0].IP), plugin.IPStr(r.IP), chosen))
					}
				}
				for _, n := range offered {
					if nodeSubnet(w, n) != chosen {
						viol("offered-node-cannot-route-reserved-ip", fmt.Sprintf("%q: node %s offered, the re-keyed address %s was taken for subnet %s",
							key, n, plugin.IPStr(taken[0].IP), chosen))
					}
				}
			}
		}
	case "bind":
		if !strings.HasPrefix(w.LastOp.Result, "ok ips=") {
			if len(owned) > 0 && !hasRanges(pod) { // with requested ranges a bind may allocate for the ranges not yet owned
				if fr := freshFor(); len(fr) > 0 {
					viol("fresh-ip-while-reserved-exists", fmt.Sprintf("%q owned %v; the failed bind left %v allocated to it", key, ipList(owned), ipStrs(fr)))
				}
			}
			return out
		}
		handed := plugin.HandedIPs(pod)
		if len(owned) > 0 && !hasRanges(pod) {
			w.Mon["c02-rebinds"] = 1 + intOf(w.Mon["c02-rebinds"])
			w.Mon["c02-hit:rebind:"+kindOf(w, k)+":"+polName(pol)] = true
			if len(owned) > 1 {
				w.Mon["c02-hit:rebind-owning-several"] = true
			}
			okOne := len(handed) == 1
			if okOne {
				okOne = false
				for _, r := range owned {
					if r.IP == handed[0][0] {
						okOne = true
					}
				}
			}
			if !okOne {
				sig := "rebound-with-different-ip"
				if len(handed) > 0 && before[handed[0][0]].Free {
					sig = "fresh-ip-while-reserved-exists"
				}
				var hs []string
				for _, h := range handed {
					hs = append(hs, plugin.IPStr(h[0]))
				}
				viol(sig, fmt.Sprintf("%q (policy %s) owned %v before the bind but the binding annotation lists %v", key, polName(pol), ipList(owned), hs))
			}
		}
	}
	return out
}

func ipList(rs []plugin.IPAMRec) []string {
	var l []string
	for _, r := range rs {
		l = append(l, plugin.IPStr(r.IP))
	}
	return l
}

func ipStrs(ips []uint32) []string {
	var l []string
	for _, ip := range ips {
		l = append(l, plugin.IPStr(ip))
	}
	return l
}

// MonitorStored is the "reservation is not silently re-labelled" part C02 shares with C03: no step other than filter /
// bind changes the policy stored with an address (a reserve / re-key keeps it) - delegated to MonitorC03's check, without
// its release judgements.
func MonitorStored(w *plugin.World, step int) []hx.Violation {
	var out []hx.Violation
	for _, v := range MonitorC03(w, step) {
		if v.Signature == "stored-policy-changed" {
			out = append(out, v)
		}
	}
	return out
}
