package pluginc03

import (
	"context"
	"hash/fnv"
	"time"

	appsv1 "k8s.io/api/apps/v1"
	corev1 "k8s.io/api/core/v1"
	"k8s.io/apimachinery/pkg/api/resource"
	metav1 "k8s.io/apimachinery/pkg/apis/meta/v1"
	"k8s.io/apimachinery/pkg/types"
	"k8s.io/apimachinery/pkg/util/intstr"

	"gxverif/hx"
	"gxverif/plugin"
)

// The plugin harness' `app scale` op writes the bare minimum of a workload object (name + spec.replicas). A real
// apiserver never hands out such an object: every defaulted field is filled. ApplyAPIDefaults rewrites the Deployments
// and StatefulSets of API truth into the shape `kubectl get -o yaml` shows - selector, template with a defaulted
// container, update strategy, revisionHistoryLimit, progressDeadlineSeconds, status, uid, generation - so that code
// that (wrongly) lets any of those fields influence the float-ip decisions is exercised. The plugin's listers receive
// the objects with the next `sync`, exactly like the bare ones did.
//
// The update strategy is a deterministic function of (app name, replicas, number of nodes): a history and its replay
// see the same objects, different apps / scales see different strategies:
//
//	0: RollingUpdate maxSurge 25% maxUnavailable 25%   (the apiserver default)
//	1: RollingUpdate maxSurge 1   maxUnavailable 25%
//	2: RollingUpdate maxSurge 2   maxUnavailable 1
//	3: RollingUpdate maxSurge 3   maxUnavailable 0
//	4: RollingUpdate maxSurge 100% maxUnavailable 25%
//	5: Recreate
func strategyVariant(name string, replicas int32, nodes int) int {
	h := fnv.New32a()
	h.Write([]byte(name))
	return int((h.Sum32()%6 + uint32(replicas) + uint32(nodes)) % 6)
}

func dpStrategy(v int) appsv1.DeploymentStrategy {
	ru := func(surge, unavail intstr.IntOrString) appsv1.DeploymentStrategy {
		return appsv1.DeploymentStrategy{Type: appsv1.RollingUpdateDeploymentStrategyType,
			RollingUpdate: &appsv1.RollingUpdateDeployment{MaxSurge: &surge, MaxUnavailable: &unavail}}
	}
	switch v {
	case 0:
		return ru(intstr.FromString("25%"), intstr.FromString("25%"))
	case 1:
		return ru(intstr.FromInt(1), intstr.FromString("25%"))
	case 2:
		return ru(intstr.FromInt(2), intstr.FromInt(1))
	case 3:
		return ru(intstr.FromInt(3), intstr.FromInt(0))
	case 4:
		return ru(intstr.FromString("100%"), intstr.FromString("25%"))
	}
	return appsv1.DeploymentStrategy{Type: appsv1.RecreateDeploymentStrategyType}
}

var defaultedAt = metav1.NewTime(time.Date(2020, 1, 1, 0, 0, 0, 0, time.UTC))

func defaultedTemplate(app string) corev1.PodTemplateSpec {
	grace := int64(30)
	return corev1.PodTemplateSpec{
		ObjectMeta: metav1.ObjectMeta{Labels: map[string]string{"app": app}},
		Spec: corev1.PodSpec{
			Containers: []corev1.Container{{Name: "c", Image: "img:1", ImagePullPolicy: corev1.PullIfNotPresent,
				TerminationMessagePath: "/dev/termination-log", TerminationMessagePolicy: corev1.TerminationMessageReadFile,
				Resources: corev1.ResourceRequirements{
					Limits:   corev1.ResourceList{"tke.cloud.tencent.com/eni-ip": resource.MustParse("1")},
					Requests: corev1.ResourceList{"tke.cloud.tencent.com/eni-ip": resource.MustParse("1")}}}},
			RestartPolicy: corev1.RestartPolicyAlways, DNSPolicy: corev1.DNSClusterFirst, SchedulerName: "default-scheduler",
			TerminationGracePeriodSeconds: &grace, SecurityContext: &corev1.PodSecurityContext{}},
	}
}

func objMetaDefaults(m *metav1.ObjectMeta, kind string) {
	if m.UID == "" {
		m.UID = types.UID("uid-" + kind + "-" + m.Namespace + "-" + m.Name)
	}
	if m.CreationTimestamp.IsZero() {
		m.CreationTimestamp = defaultedAt
	}
	m.Generation++
	if m.Annotations == nil {
		m.Annotations = map[string]string{}
	}
	if kind == "dp" {
		m.Annotations["deployment.kubernetes.io/revision"] = "1"
	}
}

// ApplyAPIDefaults completes every workload object of API truth that is still bare; returns how many it touched.
func ApplyAPIDefaults(w *plugin.World) int {
	ctx := context.TODO()
	n := 0
	if l, err := w.Kube.AppsV1().Deployments("").List(ctx, metav1.ListOptions{}); err == nil {
		for i := range l.Items {
			d := l.Items[i].DeepCopy()
			if d.Spec.Selector != nil || d.Spec.Replicas == nil {
				continue
			}
			r := *d.Spec.Replicas
			rev, dead := int32(10), int32(600)
			objMetaDefaults(&d.ObjectMeta, "dp")
			d.Spec.Selector = &metav1.LabelSelector{MatchLabels: map[string]string{"app": d.Name}}
			d.Spec.Template = defaultedTemplate(d.Name)
			d.Spec.Strategy = dpStrategy(strategyVariant(d.Name, r, len(w.Conf.Nodes)))
			d.Spec.RevisionHistoryLimit, d.Spec.ProgressDeadlineSeconds = &rev, &dead
			d.Status = appsv1.DeploymentStatus{ObservedGeneration: d.Generation, Replicas: r, UpdatedReplicas: r, ReadyReplicas: r, AvailableReplicas: r,
				Conditions: []appsv1.DeploymentCondition{{Type: appsv1.DeploymentAvailable, Status: corev1.ConditionTrue, Reason: "MinimumReplicasAvailable",
					LastUpdateTime: defaultedAt, LastTransitionTime: defaultedAt}}}
			if _, err := w.Kube.AppsV1().Deployments(d.Namespace).Update(ctx, d, metav1.UpdateOptions{}); err == nil {
				n++
				w.Mon["defaults:dp-strategy:"+string(d.Spec.Strategy.Type)] = true
			}
		}
	}
	if l, err := w.Kube.AppsV1().StatefulSets("").List(ctx, metav1.ListOptions{}); err == nil {
		for i := range l.Items {
			s := l.Items[i].DeepCopy()
			if s.Spec.Selector != nil || s.Spec.Replicas == nil {
				continue
			}
			r := *s.Spec.Replicas
			rev, part := int32(10), int32(0)
			objMetaDefaults(&s.ObjectMeta, "sts")
			s.Spec.Selector = &metav1.LabelSelector{MatchLabels: map[string]string{"app": s.Name}}
			s.Spec.Template = defaultedTemplate(s.Name)
			s.Spec.ServiceName = s.Name
			s.Spec.PodManagementPolicy = appsv1.OrderedReadyPodManagement
			s.Spec.UpdateStrategy = appsv1.StatefulSetUpdateStrategy{Type: appsv1.RollingUpdateStatefulSetStrategyType,
				RollingUpdate: &appsv1.RollingUpdateStatefulSetStrategy{Partition: &part}}
			s.Spec.RevisionHistoryLimit = &rev
			s.Status = appsv1.StatefulSetStatus{ObservedGeneration: s.Generation, Replicas: r, ReadyReplicas: r, CurrentReplicas: r, UpdatedReplicas: r,
				CurrentRevision: s.Name + "-1", UpdateRevision: s.Name + "-1", CollisionCount: new(int32)}
			if _, err := w.Kube.AppsV1().StatefulSets(s.Namespace).Update(ctx, s, metav1.UpdateOptions{}); err == nil {
				n++
			}
		}
	}
	return n
}

// MonitorDefaults is no oracle: it runs first after every op and completes the workload objects the op wrote (see
// ApplyAPIDefaults) before any later op can copy them into the plugin's listers. It is part of the monitor chain, so
// generated histories, shrinking, replays and corpus files all see the same objects.
func MonitorDefaults(w *plugin.World, step int) []hx.Violation {
	ApplyAPIDefaults(w)
	return nil
}
