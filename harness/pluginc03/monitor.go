package pluginc03

import (
	"context"
	"fmt"
	"strconv"
	"strings"

	corev1 "k8s.io/api/core/v1"
	metav1 "k8s.io/apimachinery/pkg/apis/meta/v1"
	"tkestack.io/galaxy/pkg/ipam/schedulerplugin/util"

	"gxverif/hx"
	"gxverif/plugin"
)

func ctx() context.Context { return context.TODO() }

var (
	getOpts  = metav1.GetOptions{}
	listOpts = metav1.ListOptions{}
)

var policyName = map[int]string{0: "default", 1: "immutable", 2: "never"}

func polName(p int) string {
	if n, ok := policyName[p]; ok {
		return n
	}
	return "policy" + strconv.Itoa(p)
}

// KnownD12 is the signature of the known finding DESIGN §7 D12.
const KnownD12 = "dp-prefix-ip-never-reevaluated"

type c03prev struct {
	dump   []plugin.IPAMRec
	store  map[uint32]int // ip -> spec.policy of the FloatingIP object
	events []*corev1.Pod  // pods of the pending events
}

func storePolicies(w *plugin.World) map[uint32]int {
	out := map[uint32]int{}
	fl, err := w.Galaxy.GalaxyV1alpha1().FloatingIPs().List(ctx(), listOpts)
	if err != nil {
		return out
	}
	for _, f := range fl.Items {
		if ip, ok := plugin.ParseIPv4(f.Name); ok {
			out[ip] = int(f.Spec.Policy)
		}
	}
	return out
}

func countPrefix(dump []plugin.IPAMRec, prefix string) int {
	n := 0
	for _, r := range dump {
		if !r.Free && strings.HasPrefix(r.Key, prefix) {
			n++
		}
	}
	return n
}

func snapshot(w *plugin.World, dump []plugin.IPAMRec) *c03prev {
	p := &c03prev{dump: dump, store: storePolicies(w)}
	for _, e := range w.Events {
		p.events = append(p.events, e.Pod)
	}
	return p
}

// podGone: API truth has no such pod, or it has finished.
func podGone(w *plugin.World, ns, name string) bool {
	p := w.TruthPod(ns, name)
	return p == nil || plugin.Finished(p)
}

func faultFree(line string, nTail int) bool {
	f := strings.Fields(line)
	if len(f) < nTail {
		return false
	}
	for _, t := range f[len(f)-nTail:] {
		if t != "0" {
			return false
		}
	}
	return true
}

// MonitorC03 is the oracle of property C03, written from the property statement and doc/float-ip.md, evaluated on the
// real plugin's IPAM (memory and store) after every step:
//
//   - every address a `deliver` (event) or `resync` step RELEASED must be one the documented policy releases - judged
//     with the policy of the event's pod (event path) / the policy stored with the address (resync path), the workload
//     as the informers show it (only when they show API truth) and the number of addresses the app held before the step;
//   - at a quiescent point (a resync pass without injected fault, listers in sync) no address stays assigned to a pod
//     that does not exist or has finished unless the documented policy keeps it; addresses an immutable deployment
//     holds in reserve must satisfy "app exists and holds no more addresses than replicas" (known finding D12);
//   - no step other than the (re)allocation to a pod by filter / bind changes the policy stored with an address,
//     in memory or in the store.
func MonitorC03(w *plugin.World, step int) []hx.Violation {
	var out []hx.Violation
	prev, _ := w.Mon["c03"].(*c03prev)
	dump := w.IPAMDump()
	cur := map[uint32]plugin.IPAMRec{}
	for _, r := range dump {
		cur[r.IP] = r
	}
	kind := w.LastOp.Kind
	ok := strings.HasPrefix(w.LastOp.Result, "ok") || strings.HasPrefix(w.LastOp.Result, "err")
	viol := func(sig, what string) {
		out = append(out, hx.Violation{Signature: sig, What: fmt.Sprintf("step %d (%s): %s", step, w.LastOp.Line, what)})
	}
	if prev != nil && ok {
		// ---- stored policy
		if kind != "filter" && kind != "bind" {
			curStore := storePolicies(w)
			for _, r := range prev.dump {
				if r.Free {
					continue
				}
				if c, have := cur[r.IP]; have && !c.Free && c.Policy != r.Policy {
					viol("stored-policy-changed", fmt.Sprintf("policy of %s (key %q -> %q) changed %d -> %d in memory",
						plugin.IPStr(r.IP), r.Key, c.Key, r.Policy, c.Policy))
				}
				if sp, had := prev.store[r.IP]; had {
					if cp, have := curStore[r.IP]; have && cp != sp {
						viol("stored-policy-changed", fmt.Sprintf("policy of FloatingIP %s changed %d -> %d in the store",
							plugin.IPStr(r.IP), sp, cp))
					}
				}
			}
		}
		// ---- releases by the event path
		if kind == "deliver" {
			f := strings.Fields(w.LastOp.Line)
			i, _ := strconv.Atoi(f[1])
			if i >= 0 && i < len(prev.events) {
				pod := prev.events[i]
				if ko, err := util.FormatKey(pod); err == nil {
					pol := EffectivePolicy(pod)
					for _, r := range prev.dump {
						if r.Free || r.Key != ko.KeyInDB {
							continue
						}
						c := cur[r.IP]
						if !c.Free {
							continue
						}
						k := SplitKey(r.Key)
						in, av, _ := docInFor(w, r.Key, pol, countPrefix(prev.dump, k.Prefix()))
						w.Mon["c03-hit:release:"+in.Kind+":"+polName(pol)] = true
						if DocKeeps(in) && av.Fresh {
							viol("released-although-policy-keeps:"+in.Kind+":"+polName(pol),
								fmt.Sprintf("%s of %q was released by the delete/finish event although the documented policy keeps it (%+v)",
									plugin.IPStr(r.IP), r.Key, in))
						}
					}
				}
			}
		}
		// ---- releases by resync
		if kind == "resync" {
			for _, r := range prev.dump {
				if r.Free {
					continue
				}
				c := cur[r.IP]
				if !c.Free {
					continue
				}
				k := SplitKey(r.Key)
				if !k.OK || k.Pod == "" {
					continue
				}
				in, av, _ := docInFor(w, r.Key, r.Policy, countPrefix(prev.dump, k.Prefix()))
				w.Mon["c03-hit:resync-release:"+in.Kind+":"+polName(r.Policy)] = true
				if DocKeeps(in) && av.Fresh {
					viol("released-although-policy-keeps:"+in.Kind+":"+polName(r.Policy),
						fmt.Sprintf("%s of %q (stored policy %d) was released by resync although the documented policy keeps it (%+v)",
							plugin.IPStr(r.IP), r.Key, r.Policy, in))
				}
			}
		}
	}
	// ---- quiescent point
	if kind == "resync" && w.LastOp.Result == "ok" && faultFree(w.LastOp.Line, 2) && listersInSync(w) {
		w.Mon["c03-quiescent"] = 1 + intOf(w.Mon["c03-quiescent"])
		for _, r := range dump {
			if r.Free || r.Reserved {
				continue
			}
			k := SplitKey(r.Key)
			if !k.OK {
				continue
			}
			if k.Pod == "" {
				// held in reserve under the app / pool prefix
				if k.Typ == "dp" && k.Pool == "" && r.Policy == 1 {
					in, _, _ := docInFor(w, r.Key, r.Policy, countPrefix(dump, k.Prefix()))
					if !DocKeeps(in) {
						viol(KnownD12, fmt.Sprintf("%s is still held under %q (stored policy immutable) at quiescence although the app %s (%+v)",
							plugin.IPStr(r.IP), r.Key, map[bool]string{true: "holds more addresses than replicas", false: "does not exist"}[in.AppExists], in))
					}
				}
				continue
			}
			if k.App == "" || !podGone(w, k.NS, k.Pod) {
				continue
			}
			in, _, _ := docInFor(w, r.Key, r.Policy, countPrefix(dump, k.Prefix()))
			w.Mon["c03-hit:orphan-kept:"+in.Kind+":"+polName(r.Policy)] = true
			if r.Policy == 2 {
				continue // "kept until an administrator releases it through the API"
			}
			if !DocKeeps(in) {
				viol("kept-although-policy-releases:"+in.Kind+":"+polName(r.Policy),
					fmt.Sprintf("%s stays assigned to %q (stored policy %d) at quiescence although the pod is gone and the documented policy releases it (%+v)",
						plugin.IPStr(r.IP), r.Key, r.Policy, in))
			}
		}
	}
	w.Mon["c03"] = snapshot(w, dump)
	return out
}

func intOf(v interface{}) int {
	n, _ := v.(int)
	return n
}
