package total

import (
	"encoding/json"
	"fmt"
	"math/rand"
	"strings"

	corev1 "k8s.io/api/core/v1"
	networkv1 "k8s.io/api/networking/v1"
	"k8s.io/apimachinery/pkg/api/resource"
	metav1 "k8s.io/apimachinery/pkg/apis/meta/v1"
	"k8s.io/apimachinery/pkg/types"
	"k8s.io/apimachinery/pkg/util/intstr"
)

const (
	ArgsAnn     = "k8s.v1.cni.galaxy.io/args"
	PolicyAnn   = "k8s.v1.cni.galaxy.io/release-policy"
	PoolAnn     = "tke.cloud.tencent.com/eni-ip-pool"
	NetworksAnn = "k8s.v1.cni.cncf.io/networks"
	PortsAnn    = "tkestack.io/portmapping"
	FIPResource = "tke.cloud.tencent.com/eni-ip"
)

// ConfSeeds: valid floatingip configuration texts (value of the ConfigMap key / "floatingips" member).
var ConfSeeds = []string{
	`[{"routableSubnet":"10.49.27.0/24","ips":["10.49.27.205","10.49.27.216~10.49.27.218"],"subnet":"10.49.27.0/24","gateway":"10.49.27.1","vlan":2},{"nodeSubnets":["10.0.1.2/24","10.0.2.2/24"],"ips":["10.0.70.2~10.0.70.20"],"subnet":"10.0.70.0/24","gateway":"10.0.70.1"}]`,
	`[{"nodeSubnets":["10.49.28.0/26","10.49.29.0/24"],"ips":["10.0.80.2~10.0.80.4"],"subnet":"10.0.80.0/24","gateway":"10.0.80.1"},{"nodeSubnets":["10.49.28.0/26"],"ips":["10.0.81.2~10.0.81.4"],"subnet":"10.0.81.0/24","gateway":"10.0.81.1","vlan":3}]`,
	`[{"routableSubnet":"10.180.1.2/32","ips":["10.180.154.2~10.180.154.3"],"subnet":"10.180.154.0/24","gateway":"10.180.154.1","vlan":3}]`,
	`[{"nodeSubnets":["255.255.255.0/24"],"ips":["255.255.255.250~255.255.255.255"],"subnet":"255.255.255.0/24","gateway":"255.255.255.1"}]`,
	`[]`,
}

// ConfDomain: strings that fit the members of a pool (extreme but well-formed values).
var ConfDomain = []string{
	"255.255.255.255", "255.255.255.254~255.255.255.255", "255.255.255.0/24", "255.255.255.1", "0.0.0.0/0", "0.0.0.1", "0.0.0.0",
	"0.0.0.2~0.0.0.9", "10.0.70.2~10.0.70.20", "10.0.70.20~10.0.70.2", "10.0.70.21", "10.0.70.2~10.0.70.21", "10.0.0.0/8", "10.0.70.0/24",
	"10.0.70.1", "fe80::1", "fe80::/64", "fe80::2~fe80::9", "10.0.70.0/32", "10.0.70.0/31", "10.49.27.0/24", "0.0.0.0/32",
	// large but not explosive ranges (the explosive ones come from ExtremeStrings: 0.0.0.0~255.255.255.255)
	"10.0.0.2~10.0.3.255",
}

// ArgsSeeds: valid values of the k8s.v1.cni.galaxy.io/args annotation.
var ArgsSeeds = []string{
	`{"request_ip_range":[["10.49.27.216~10.49.27.218"]]}`,
	`{"request_ip_range":[["10.49.27.205"],["10.0.70.2~10.0.70.20","10.49.27.216"]]}`,
	`{"common":{"ipinfos":[{"ip":"10.49.27.205/24","vlan":2,"gateway":"10.49.27.1"}]}}`,
	`{"request_ip_range":[["255.255.255.250~255.255.255.255"]],"common":{"ipinfos":[{"ip":"10.0.70.3/24","vlan":0,"gateway":"10.0.70.1"},{"ip":"10.0.70.4/24","vlan":0,"gateway":"10.0.70.1"}]}}`,
	`{}`,
}

var ArgsDomain = []string{"255.255.255.255", "255.255.255.0~255.255.255.255", "10.49.27.216~10.49.27.218", "10.49.27.205", "0.0.0.0",
	"10.49.27.205/24", "10.0.70.2~10.0.70.20", "10.0.0.0~10.0.255.255", "::1~::ffff", "10.49.27.218~10.49.27.216", "10.49.27.1"}

var NetworksSeeds = []string{
	`net-a`, `net-a,net-b`, `ns1/net-a@eth1, net-b`, `[{"name":"net-a"},{"name":"net-b","interface":"eth9"}]`,
	`[{"name":"net-a","namespace":"x","ips":["10.0.0.1"],"mac":"aa:bb"}]`, `{"name":"net-a"}`, `net-fail,net-a`, `unknown-net`,
}

var names = []string{"a-0", "a-1", "web-12", "b-0", "dp-rs1-x1", "dp-6d5c7f9b8-abcde", "solo", "a", "a-", "-0", "a--1", "a-b-c-5", "x-00",
	"a-99999999999999999999", "a-+1", "a_b-0", "tapp-3", strings.Repeat("n", 253), "", "a-0x1", "é-1", "a-1 ", "dp-x"}

var kinds = []string{"StatefulSet", "ReplicaSet", "TApp", "Deployment", "DaemonSet", "Job", "CronJob", "Foo", "", "statefulset", "ReplicationController", "Node"}

func pick(r *rand.Rand, xs []string) string { return xs[r.Intn(len(xs))] }

// GenPod builds a structurally valid pod object with owner references of every kind, any annotations,
// requested ranges (mostly valid, sometimes mutated), release policies, pool names.
func GenPod(r *rand.Rand) *corev1.Pod {
	p := &corev1.Pod{}
	p.Name = pick(r, names)
	p.Namespace = pick(r, []string{"ns1", "ns1", "ns1", "default", "", "kube-system", strings.Repeat("s", 63), "a_b"})
	p.UID = types.UID(pick(r, []string{"", "u1", "u2", "00000000-0000-0000-0000-000000000000"}))
	switch r.Intn(10) {
	case 0:
	case 1:
		p.OwnerReferences = []metav1.OwnerReference{}
	case 8: // FormatKey cannot resolve a deployment: two owners, the first a ReplicaSet
		p.OwnerReferences = []metav1.OwnerReference{{Kind: "ReplicaSet", Name: pick(r, []string{"dp-rs1", "rs", ""})},
			{Kind: pick(r, kinds), Name: "other"}}
	case 9: // a bare ReplicaSet (no dash in its name) / ReplicaSet owner with an odd name
		p.OwnerReferences = []metav1.OwnerReference{{Kind: "ReplicaSet", Name: pick(r, []string{"rs", "", "-", "a-", "x_y-1"})}}
	case 2:
		t := true
		p.OwnerReferences = []metav1.OwnerReference{{Kind: pick(r, kinds), Name: pick(r, names), Controller: &t},
			{Kind: pick(r, kinds), Name: pick(r, names)}}
	default:
		p.OwnerReferences = []metav1.OwnerReference{{Kind: pick(r, kinds), Name: pick(r, []string{"a", "b", "dp-rs1", "dp", "a-b-c", "", "x_y", "dp-6d5c7f9b8"}),
			APIVersion: pick(r, []string{"apps/v1", "", "apps.tkestack.io/v1", "v1"})}}
	}
	if r.Intn(10) > 0 {
		p.Annotations = map[string]string{}
		if r.Intn(3) > 0 {
			v := pick(r, ArgsSeeds)
			switch r.Intn(4) {
			case 0:
				b, _ := Mutate(r, []byte(v), ArgsDomain)
				v = string(b)
			case 1:
				v = string(MutateBytes(r, []byte(v)))
			}
			p.Annotations[ArgsAnn] = v
		}
		if r.Intn(2) == 0 {
			p.Annotations[PolicyAnn] = pick(r, []string{"immutable", "never", "", "Never", "garbage", "immutable "})
		}
		if r.Intn(4) == 0 {
			p.Annotations[PoolAnn] = pick(r, []string{"pool1", "", "p_1", "pool__", strings.Repeat("p", 300), "a/b"})
		}
		if r.Intn(6) == 0 {
			p.Annotations[NetworksAnn] = pick(r, NetworksSeeds)
		}
	}
	if r.Intn(12) > 0 {
		q := resource.NewQuantity(int64(r.Intn(3)), resource.DecimalSI)
		p.Spec.Containers = []corev1.Container{{Name: "c", Resources: corev1.ResourceRequirements{
			Requests: corev1.ResourceList{corev1.ResourceName(FIPResource): *q},
			Limits:   corev1.ResourceList{corev1.ResourceName(FIPResource): *q}}}}
		if r.Intn(5) == 0 {
			p.Spec.Containers[0].Ports = []corev1.ContainerPort{{ContainerPort: int32(r.Intn(70000)), HostPort: int32(r.Intn(3) * 31000), Protocol: corev1.Protocol(pick(r, []string{"TCP", "UDP", "SCTP", ""}))}}
		}
	}
	p.Spec.NodeName = pick(r, []string{"", "node1", "node2", "nosuchnode"})
	p.Status.Phase = corev1.PodPhase(pick(r, []string{"", "Pending", "Running", "Succeeded", "Failed", "Unknown"}))
	p.Status.PodIP = pick(r, []string{"", "10.49.27.205", "10.22.0.7", "999.1.1.1", "::1"})
	if r.Intn(6) == 0 {
		p.Labels = map[string]string{"app": pick(r, []string{"a", "web", "db", ""})}
	}
	return p
}

// GenValidPod builds a pod the scheduler plugin can really serve (known workload kinds, sane names, requested ranges
// inside the configured pools or none, valid release policies), so that Bind reaches the apiserver calls.
func GenValidPod(r *rand.Rand) *corev1.Pod {
	p := &corev1.Pod{}
	p.Namespace = "ns1"
	i := r.Intn(40)
	switch r.Intn(4) {
	case 0:
		p.Name = fmt.Sprintf("a-%d", i)
		p.OwnerReferences = []metav1.OwnerReference{{Kind: "StatefulSet", Name: "a"}}
	case 1:
		p.Name = fmt.Sprintf("dp-rs1-x%d", i)
		p.OwnerReferences = []metav1.OwnerReference{{Kind: "ReplicaSet", Name: "dp-rs1"}}
	case 2:
		p.Name = fmt.Sprintf("tapp-%d", i)
		p.OwnerReferences = []metav1.OwnerReference{{Kind: "TApp", Name: "tapp"}}
	default:
		p.Name = fmt.Sprintf("solo%d", i)
	}
	p.UID = types.UID("u-" + p.Name) // one incarnation per name (a different uid makes Bind wait for the delete event)
	if r.Intn(12) == 0 {
		p.UID = "u-other"
	}
	p.Annotations = map[string]string{}
	switch r.Intn(5) {
	case 0:
		p.Annotations[ArgsAnn] = `{"request_ip_range":[["10.49.27.216~10.49.27.250"]]}`
	case 1:
		p.Annotations[ArgsAnn] = `{"request_ip_range":[["10.173.13.10~10.173.13.80"],["10.173.13.2","10.173.13.10~10.173.13.80"]]}`
	}
	if r.Intn(3) == 0 && len(p.OwnerReferences) > 0 && p.OwnerReferences[0].Kind != "ReplicaSet" {
		p.Annotations[PolicyAnn] = pick(r, []string{"immutable", "never"})
	}
	if r.Intn(8) == 0 {
		p.Annotations[PoolAnn] = pick(r, []string{"pool1", "pool2"})
	}
	q := resource.NewQuantity(1, resource.DecimalSI)
	p.Spec.Containers = []corev1.Container{{Name: "c", Resources: corev1.ResourceRequirements{
		Requests: corev1.ResourceList{corev1.ResourceName(FIPResource): *q}}}}
	p.Status.Phase = corev1.PodPhase(pick(r, []string{"Pending", "Running", "Succeeded", "Failed"}))
	return p
}

func sel(r *rand.Rand) metav1.LabelSelector {
	switch r.Intn(6) {
	case 0:
		return metav1.LabelSelector{}
	case 1:
		return metav1.LabelSelector{MatchExpressions: []metav1.LabelSelectorRequirement{{Key: "app", Operator: metav1.LabelSelectorOperator(pick(r, []string{"In", "NotIn", "Exists", "DoesNotExist", "Bogus"})),
			Values: []string{"web", "db"}[:r.Intn(3)]}}}
	case 2:
		return metav1.LabelSelector{MatchLabels: map[string]string{pick(r, []string{"app", "team", "", "a/b/c"}): pick(r, []string{"web", "db", "x", "", strings.Repeat("v", 70)})}}
	}
	return metav1.LabelSelector{MatchLabels: map[string]string{"app": pick(r, []string{"web", "db"})}}
}

func ports(r *rand.Rand) []networkv1.NetworkPolicyPort {
	var out []networkv1.NetworkPolicyPort
	for i := r.Intn(4); i > 0; i-- {
		var pp networkv1.NetworkPolicyPort
		if r.Intn(3) > 0 {
			pr := corev1.Protocol(pick(r, []string{"TCP", "UDP", "SCTP", "", "tcp"}))
			pp.Protocol = &pr
		}
		switch r.Intn(4) {
		case 0:
		case 1:
			v := intstr.FromString(pick(r, []string{"http", "", "metrics", "80"}))
			pp.Port = &v
		default:
			v := intstr.FromInt([]int{80, 0, 65535, 65536, -1, 8080}[r.Intn(6)])
			pp.Port = &v
		}
		if r.Intn(6) == 0 {
			e := int32(r.Intn(70000))
			pp.EndPort = &e
		}
		out = append(out, pp)
	}
	return out
}

func peers(r *rand.Rand) []networkv1.NetworkPolicyPeer {
	var out []networkv1.NetworkPolicyPeer
	for i := r.Intn(4); i > 0; i-- {
		var p networkv1.NetworkPolicyPeer
		switch r.Intn(6) {
		case 0:
			s := sel(r)
			p.PodSelector = &s
		case 1:
			s := sel(r)
			p.NamespaceSelector = &s
		case 2:
			s, n := sel(r), sel(r)
			p.PodSelector, p.NamespaceSelector = &s, &n
		case 3:
			p.IPBlock = &networkv1.IPBlock{CIDR: pick(r, []string{"10.0.0.0/8", "0.0.0.0/0", "255.255.255.255/32", "10.0.0.1/24", "fe80::/64"}),
				Except: []string{"10.1.0.0/16", "10.0.0.1/32", "10.2.3.4/31"}[:r.Intn(4)]}
		case 4:
			p.IPBlock = &networkv1.IPBlock{CIDR: pick(r, []string{"", "10.0.0.0", "10.0.0.0/33", "x"}), Except: []string{"bad", ""}[:r.Intn(3)]}
		case 5: // empty peer
		}
		out = append(out, p)
	}
	return out
}

// GenPolicy builds a NetworkPolicy: every combination of policyTypes and rule directions, all peer kinds, named
// and numeric ports, empty and odd selectors.
func GenPolicy(r *rand.Rand) *networkv1.NetworkPolicy {
	np := &networkv1.NetworkPolicy{ObjectMeta: metav1.ObjectMeta{Name: pick(r, []string{"np0", "np1", "deny-all", strings.Repeat("p", 253)}), Namespace: pick(r, []string{"ns1", "ns1", "ns2", ""})}}
	np.Spec.PodSelector = sel(r)
	switch r.Intn(7) {
	case 0:
	case 1:
		np.Spec.PolicyTypes = []networkv1.PolicyType{networkv1.PolicyTypeIngress}
	case 2:
		np.Spec.PolicyTypes = []networkv1.PolicyType{networkv1.PolicyTypeEgress}
	case 3:
		np.Spec.PolicyTypes = []networkv1.PolicyType{networkv1.PolicyTypeIngress, networkv1.PolicyTypeEgress}
	case 4:
		np.Spec.PolicyTypes = []networkv1.PolicyType{"Bogus"}
	case 5:
		np.Spec.PolicyTypes = []networkv1.PolicyType{networkv1.PolicyTypeEgress, networkv1.PolicyTypeEgress}
	case 6:
		np.Spec.PolicyTypes = []networkv1.PolicyType{}
	}
	for i := r.Intn(4); i > 0; i-- {
		np.Spec.Ingress = append(np.Spec.Ingress, networkv1.NetworkPolicyIngressRule{Ports: ports(r), From: peers(r)})
	}
	for i := r.Intn(4); i > 0; i-- {
		np.Spec.Egress = append(np.Spec.Egress, networkv1.NetworkPolicyEgressRule{Ports: ports(r), To: peers(r)})
	}
	return np
}

// GenCNIBody builds the JSON body of one CNI request (mostly valid env, sometimes members missing / odd).
func GenCNIBody(r *rand.Rand, cniPath string) []byte {
	env := map[string]string{
		"CNI_COMMAND":     pick(r, []string{"ADD", "ADD", "DEL", "DEL", "VERSION", "CHECK", "", "add"}),
		"CNI_CONTAINERID": pick(r, []string{"gxv18c1", "gxv18c2", "gxv18c3", "", strings.Repeat("c", 200)}),
		"CNI_NETNS":       pick(r, []string{"/proc/1/ns/net", "", "/nonexistent"}),
		"CNI_IFNAME":      pick(r, []string{"eth0", "", "eth1", strings.Repeat("i", 40)}),
		"CNI_PATH":        pick(r, []string{cniPath, cniPath, "", "/nonexistent", cniPath + ":" + cniPath}),
		"CNI_ARGS": pick(r, []string{
			"IgnoreUnknown=1;K8S_POD_NAMESPACE=ns1;K8S_POD_NAME=" + pick(r, []string{"p0", "p1", "p2", "p3", "nosuch"}) + ";K8S_POD_INFRA_CONTAINER_ID=x",
			"K8S_POD_NAMESPACE=ns1;K8S_POD_NAME=p1", "K8S_POD_NAME=p1", "", ";;;", "K8S_POD_NAMESPACE;K8S_POD_NAME", "K8S_POD_NAMESPACE==;K8S_POD_NAME==",
			" K8S_POD_NAMESPACE = ns1 ; K8S_POD_NAME = p2 "}),
	}
	for k := range env {
		if r.Intn(14) == 0 {
			delete(env, k)
		}
	}
	doc := map[string]interface{}{"env": env, "config": []byte(pick(r, []string{`{"type":"galaxy-sdn","name":"x"}`, ``, `{`, `null`}))}
	b, _ := json.Marshal(doc)
	return b
}

func PodJSON(p *corev1.Pod) []byte { b, _ := json.Marshal(p); return b }

func Describe(b []byte) string {
	if len(b) > 300 {
		return fmt.Sprintf("%s…(%d bytes)", b[:300], len(b))
	}
	return string(b)
}
