// Package total is the input side of the C18 watchdog harness: a JSON-aware mutation engine (truncation, type
// flips, huge numbers, deep nesting, systematic null injection at every JSON position, extreme values, empty and very
// long strings), byte-level mutation, and the shrinker.
package total

import (
	"bytes"
	"encoding/json"
	"fmt"
	"math/rand"
	"sort"
	"strings"
)

// ExtremeStrings: values that are interesting wherever a string is expected.
var ExtremeStrings = []string{
	"", " ", "0", "-1", "null", "NULL", "255.255.255.255", "0.0.0.0", "0.0.0.0/0", "255.255.255.255/32",
	"0.0.0.0~255.255.255.255", "255.255.255.250~255.255.255.255", "10.0.0.1~10.0.0.0", "~", "~~", "1.2.3.4~", "~1.2.3.4",
	"::1", "::", "ffff:ffff:ffff:ffff:ffff:ffff:ffff:ffff", "::ffff:10.0.0.1", "fe80::1~fe80::ffff:ffff", "10.0.0.1/33", "10.0.0.1/-1",
	"10.0.0.256", "1.2.3", "1.2.3.4.5", "/", "@", "a/b/c", "a@b@c", "_", "__", "a_b_c_d_e_f", "-", "a-", "-0", "a--1", "a-99999999999999999999",
	"a-+1", "a-0x10", "\x00", " ", "é", "%s%s%n", "{}", "[]", "[null]", "\"", "'", ";", "=", ";;==", "k=v;k=v", "K8S_POD_NAME=",
	strings.Repeat("a", 300), strings.Repeat("a-", 40000), strings.Repeat("9", 400), "sts_", "dp_", "pool__", "pool__x_dp_ns_a_b",
	"sts_ns_a_a-0", "dp_ns_a_a-x-y", "tapp_ns_a_a-1", "statefulset", "deployment", "tapp", "TApp", "Pod", "immutable", "never", "Never",
}

// ExtremeNumbers as JSON number literals.
var ExtremeNumbers = []string{"0", "-0", "-1", "1", "2", "3", "65535", "65536", "4294967295", "4294967296", "2147483647", "-2147483648",
	"9223372036854775807", "9223372036854775808", "-9223372036854775809", "18446744073709551616", "1e400", "-1e400", "1.5", "0.1",
	"1e3", "99999", "100000", "9999", "10000", "123456789012345678901234567890"}

// Node is a JSON value with ordered object members (so that mutation is deterministic).
type Node struct {
	Kind byte // o a s n b z(null) r(raw, emitted verbatim)
	Keys []string
	Kids []*Node
	Str  string
	Raw  string
}

func Parse(data []byte) (*Node, error) {
	dec := json.NewDecoder(bytes.NewReader(data))
	dec.UseNumber()
	n, err := parseValue(dec)
	if err != nil {
		return nil, err
	}
	if dec.More() {
		return nil, fmt.Errorf("trailing data")
	}
	return n, nil
}

func parseValue(dec *json.Decoder) (*Node, error) {
	tok, err := dec.Token()
	if err != nil {
		return nil, err
	}
	switch t := tok.(type) {
	case json.Delim:
		switch t {
		case '{':
			n := &Node{Kind: 'o'}
			for dec.More() {
				kt, err := dec.Token()
				if err != nil {
					return nil, err
				}
				k, _ := kt.(string)
				v, err := parseValue(dec)
				if err != nil {
					return nil, err
				}
				n.Keys = append(n.Keys, k)
				n.Kids = append(n.Kids, v)
			}
			_, err := dec.Token()
			return n, err
		case '[':
			n := &Node{Kind: 'a'}
			for dec.More() {
				v, err := parseValue(dec)
				if err != nil {
					return nil, err
				}
				n.Kids = append(n.Kids, v)
			}
			_, err := dec.Token()
			return n, err
		}
		return nil, fmt.Errorf("unexpected delimiter %v", t)
	case string:
		return &Node{Kind: 's', Str: t}, nil
	case json.Number:
		return &Node{Kind: 'n', Raw: t.String()}, nil
	case bool:
		if t {
			return &Node{Kind: 'b', Raw: "true"}, nil
		}
		return &Node{Kind: 'b', Raw: "false"}, nil
	case nil:
		return &Node{Kind: 'z'}, nil
	}
	return nil, fmt.Errorf("unexpected token %v", tok)
}

func (n *Node) Encode() []byte {
	var b bytes.Buffer
	n.enc(&b)
	return b.Bytes()
}

func (n *Node) enc(b *bytes.Buffer) {
	switch n.Kind {
	case 'o':
		b.WriteByte('{')
		for i, k := range n.Keys {
			if i > 0 {
				b.WriteByte(',')
			}
			kb, _ := json.Marshal(k)
			b.Write(kb)
			b.WriteByte(':')
			n.Kids[i].enc(b)
		}
		b.WriteByte('}')
	case 'a':
		b.WriteByte('[')
		for i, k := range n.Kids {
			if i > 0 {
				b.WriteByte(',')
			}
			k.enc(b)
		}
		b.WriteByte(']')
	case 's':
		sb, _ := json.Marshal(n.Str)
		b.Write(sb)
	case 'z':
		b.WriteString("null")
	default:
		b.WriteString(n.Raw)
	}
}

func (n *Node) Clone() *Node {
	c := *n
	c.Keys = append([]string(nil), n.Keys...)
	c.Kids = make([]*Node, len(n.Kids))
	for i, k := range n.Kids {
		c.Kids[i] = k.Clone()
	}
	return &c
}

// Slots returns every position of the document (pre-order): the parent and index of each value; the root is (nil,0).
type Slot struct {
	Parent *Node
	Index  int
}

func (n *Node) Slots() []Slot {
	out := []Slot{{nil, 0}}
	var walk func(p *Node)
	walk = func(p *Node) {
		for i, k := range p.Kids {
			out = append(out, Slot{p, i})
			walk(k)
		}
	}
	walk(n)
	return out
}

func get(root *Node, s Slot) *Node {
	if s.Parent == nil {
		return root
	}
	return s.Parent.Kids[s.Index]
}

// replace returns the (possibly new) root
func replace(root *Node, s Slot, v *Node) *Node {
	if s.Parent == nil {
		return v
	}
	s.Parent.Kids[s.Index] = v
	return root
}

// NullInjections: one document per JSON position, with that position replaced by null (systematic).
func NullInjections(data []byte) [][]byte {
	root, err := Parse(data)
	if err != nil {
		return nil
	}
	var out [][]byte
	n := len(root.Slots())
	for i := 0; i < n; i++ {
		c := root.Clone()
		s := c.Slots()[i]
		if get(c, s).Kind == 'z' {
			continue
		}
		c = replace(c, s, &Node{Kind: 'z'})
		out = append(out, c.Encode())
	}
	return out
}

// ElementNullInjections: for every array, one document with a null element appended / prepended, and `[null]`.
func ElementNullInjections(data []byte) [][]byte {
	root, err := Parse(data)
	if err != nil {
		return nil
	}
	var out [][]byte
	n := len(root.Slots())
	for i := 0; i < n; i++ {
		for variant := 0; variant < 3; variant++ {
			c := root.Clone()
			s := c.Slots()[i]
			v := get(c, s)
			if v.Kind != 'a' {
				break
			}
			switch variant {
			case 0:
				v.Kids = append(v.Kids, &Node{Kind: 'z'})
			case 1:
				v.Kids = append([]*Node{{Kind: 'z'}}, v.Kids...)
			case 2:
				v.Kids = []*Node{{Kind: 'z'}}
			}
			out = append(out, c.Encode())
		}
	}
	return out
}

func randomValue(r *rand.Rand, depth int) *Node {
	switch r.Intn(8) {
	case 0:
		return &Node{Kind: 'z'}
	case 1:
		return &Node{Kind: 'b', Raw: []string{"true", "false"}[r.Intn(2)]}
	case 2:
		return &Node{Kind: 'n', Raw: ExtremeNumbers[r.Intn(len(ExtremeNumbers))]}
	case 3, 4:
		return &Node{Kind: 's', Str: ExtremeStrings[r.Intn(len(ExtremeStrings))]}
	case 5:
		n := &Node{Kind: 'a'}
		if depth < 3 {
			for i := r.Intn(3); i > 0; i-- {
				n.Kids = append(n.Kids, randomValue(r, depth+1))
			}
		}
		return n
	case 6:
		n := &Node{Kind: 'o'}
		if depth < 3 {
			for i := r.Intn(3); i > 0; i-- {
				n.Keys = append(n.Keys, ExtremeStrings[r.Intn(len(ExtremeStrings))])
				n.Kids = append(n.Kids, randomValue(r, depth+1))
			}
		}
		return n
	}
	return &Node{Kind: 'r', Raw: deep(r)}
}

func deep(r *rand.Rand) string {
	d := []int{10, 100, 9999, 10001, 100000}[r.Intn(5)]
	if r.Intn(2) == 0 {
		return strings.Repeat("[", d) + strings.Repeat("]", d)
	}
	return strings.Repeat(`{"a":`, d) + "1" + strings.Repeat("}", d)
}

// Mutate applies 1..3 random structural mutations to a JSON document; `pool` are domain strings that fit
// where strings are expected (in addition to ExtremeStrings).  Returns the mutated text and a short tag.
func Mutate(r *rand.Rand, data []byte, pool []string) ([]byte, string) {
	root, err := Parse(data)
	if err != nil {
		return MutateBytes(r, data), "bytes"
	}
	root = root.Clone()
	var tags []string
	for k := 1 + r.Intn(3); k > 0; k-- {
		slots := root.Slots()
		s := slots[r.Intn(len(slots))]
		v := get(root, s)
		switch r.Intn(12) {
		case 0:
			root = replace(root, s, &Node{Kind: 'z'})
			tags = append(tags, "null")
		case 1: // type flip
			root = replace(root, s, randomValue(r, 0))
			tags = append(tags, "flip")
		case 2: // extreme / domain string where a string was
			if v.Kind == 's' {
				all := ExtremeStrings
				if len(pool) > 0 && r.Intn(2) == 0 {
					all = pool
				}
				v.Str = all[r.Intn(len(all))]
				tags = append(tags, "str")
			} else {
				root = replace(root, s, &Node{Kind: 's', Str: ExtremeStrings[r.Intn(len(ExtremeStrings))]})
				tags = append(tags, "flip-str")
			}
		case 3: // huge number
			root = replace(root, s, &Node{Kind: 'n', Raw: ExtremeNumbers[r.Intn(len(ExtremeNumbers))]})
			tags = append(tags, "num")
		case 4: // delete member / element
			if s.Parent != nil {
				p := s.Parent
				p.Kids = append(p.Kids[:s.Index:s.Index], p.Kids[s.Index+1:]...)
				if p.Kind == 'o' {
					p.Keys = append(p.Keys[:s.Index:s.Index], p.Keys[s.Index+1:]...)
				}
				tags = append(tags, "del")
			}
		case 5: // duplicate element / member
			if s.Parent != nil {
				p := s.Parent
				p.Kids = append(p.Kids, v.Clone())
				if p.Kind == 'o' {
					p.Keys = append(p.Keys, p.Keys[s.Index])
				}
				tags = append(tags, "dup")
			}
		case 6: // null element into an array
			if v.Kind == 'a' {
				v.Kids = append(v.Kids, &Node{Kind: 'z'})
				tags = append(tags, "nullelem")
			}
		case 7: // empty container
			if v.Kind == 'a' || v.Kind == 'o' {
				v.Kids, v.Keys = nil, nil
				tags = append(tags, "empty")
			}
		case 8: // deep nesting
			root = replace(root, s, &Node{Kind: 'r', Raw: deep(r)})
			tags = append(tags, "deep")
		case 9: // rename key
			if s.Parent != nil && s.Parent.Kind == 'o' {
				s.Parent.Keys[s.Index] = ExtremeStrings[r.Intn(len(ExtremeStrings))]
				tags = append(tags, "key")
			}
		case 10: // swap with sibling
			if s.Parent != nil && len(s.Parent.Kids) > 1 {
				j := r.Intn(len(s.Parent.Kids))
				s.Parent.Kids[s.Index], s.Parent.Kids[j] = s.Parent.Kids[j], s.Parent.Kids[s.Index]
				tags = append(tags, "swap")
			}
		case 11: // grow string
			if v.Kind == 's' {
				v.Str = v.Str + ExtremeStrings[r.Intn(len(ExtremeStrings))]
				tags = append(tags, "append")
			}
		}
	}
	out := root.Encode()
	if r.Intn(12) == 0 {
		out = out[:r.Intn(len(out)+1)]
		tags = append(tags, "trunc")
	}
	if len(tags) == 0 {
		tags = []string{"same"}
	}
	sort.Strings(tags)
	return out, strings.Join(tags, "+")
}

// MutateBytes: byte-level mutation (truncation, flips, insertions of structural characters, duplication).
func MutateBytes(r *rand.Rand, data []byte) []byte {
	b := append([]byte(nil), data...)
	special := []byte(`{}[]",:\ntf0-9.eE~/@;=_` + "\x00\xff")
	for k := 1 + r.Intn(4); k > 0; k-- {
		switch r.Intn(6) {
		case 0:
			b = b[:r.Intn(len(b)+1)]
		case 1:
			if len(b) > 0 {
				b[r.Intn(len(b))] = special[r.Intn(len(special))]
			}
		case 2:
			i := r.Intn(len(b) + 1)
			b = append(b[:i:i], append([]byte{special[r.Intn(len(special))]}, b[i:]...)...)
		case 3:
			if len(b) > 1 {
				i := r.Intn(len(b))
				b = append(b[:i:i], b[i+1:]...)
			}
		case 4:
			if len(b) > 0 && len(b) < 1<<16 {
				i, j := r.Intn(len(b)), r.Intn(len(b))
				if i > j {
					i, j = j, i
				}
				b = append(b[:j:j], append(append([]byte(nil), b[i:j]...), b[j:]...)...)
			}
		case 5:
			s := ExtremeStrings[r.Intn(len(ExtremeStrings))]
			i := r.Intn(len(b) + 1)
			b = append(b[:i:i], append([]byte(s), b[i:]...)...)
		}
	}
	return b
}

// Shrink tries to make a failing JSON input smaller while `fails` keeps returning true; at most `budget` probes.
func Shrink(data []byte, budget int, fails func([]byte) bool) []byte {
	best := data
	root, err := Parse(data)
	if err != nil {
		// byte level: cut halves
		for step := len(best) / 2; step > 0 && budget > 0; step /= 2 {
			for i := 0; i+step <= len(best) && budget > 0; {
				cand := append(append([]byte(nil), best[:i]...), best[i+step:]...)
				budget--
				if fails(cand) {
					best = cand
				} else {
					i += step
				}
			}
		}
		return best
	}
	progress := true
	for progress && budget > 0 {
		progress = false
		n := len(root.Slots())
		for i := n - 1; i >= 1 && budget > 0; i-- {
			c := root.Clone()
			slots := c.Slots()
			if i >= len(slots) {
				continue
			}
			s := slots[i]
			p := s.Parent
			p.Kids = append(p.Kids[:s.Index:s.Index], p.Kids[s.Index+1:]...)
			if p.Kind == 'o' {
				p.Keys = append(p.Keys[:s.Index:s.Index], p.Keys[s.Index+1:]...)
			}
			cand := c.Encode()
			budget--
			if fails(cand) {
				root, best, progress = c, cand, true
			}
		}
	}
	return best
}
