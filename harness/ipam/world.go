// Package ipam is the reusable M3 harness: the REAL floatingip.crdIpam on a fake CRD clientset wrapped by a
// decorator (counts store calls per operation, fails / crashes call k on demand, records what was created,
// updated, deleted, can park a goroutine around a call), an operation executor which observes the choices Go's map
// iteration made and renders the line for the Lean driver gxdrv_ipam, canonical dumps, monitors and generators.
package ipam

import (
	"context"
	"encoding/json"
	"fmt"
	"net"
	"sort"
	"strings"
	"sync"
	"time"

	apierrors "k8s.io/apimachinery/pkg/api/errors"
	metav1 "k8s.io/apimachinery/pkg/apis/meta/v1"
	"k8s.io/apimachinery/pkg/runtime"
	"k8s.io/apimachinery/pkg/runtime/schema"
	"k8s.io/client-go/discovery"
	"k8s.io/client-go/tools/cache"

	"tkestack.io/galaxy/pkg/api/galaxy/constant"
	"tkestack.io/galaxy/pkg/ipam/apis/galaxy/v1alpha1"
	crdclient "tkestack.io/galaxy/pkg/ipam/client/clientset/versioned"
	fakecrd "tkestack.io/galaxy/pkg/ipam/client/clientset/versioned/fake"
	typed "tkestack.io/galaxy/pkg/ipam/client/clientset/versioned/typed/galaxy/v1alpha1"
	listers "tkestack.io/galaxy/pkg/ipam/client/listers/galaxy/v1alpha1"
	"tkestack.io/galaxy/pkg/ipam/floatingip"
)

// ---- plan --------------------------------------------------------------------------------------------------------

// Plan: which store calls of ONE operation fail cleanly / where the process crashes.
type Plan struct {
	Fails       []int `json:"fails,omitempty"`
	CrashBefore int   `json:"cb"` // -1 = none
	CrashAfter  int   `json:"ca"` // -1 = none
}

func NoPlan() Plan { return Plan{CrashBefore: -1, CrashAfter: -1} }

func FailAt(k int) Plan { return Plan{Fails: []int{k}, CrashBefore: -1, CrashAfter: -1} }

func (p Plan) String() string {
	var parts []string
	for _, f := range p.Fails {
		parts = append(parts, fmt.Sprintf("f%d", f))
	}
	if p.CrashBefore >= 0 {
		parts = append(parts, fmt.Sprintf("cb%d", p.CrashBefore))
	}
	if p.CrashAfter >= 0 {
		parts = append(parts, fmt.Sprintf("ca%d", p.CrashAfter))
	}
	if len(parts) == 0 {
		return "-"
	}
	return strings.Join(parts, "+")
}

func (p Plan) Empty() bool { return len(p.Fails) == 0 && p.CrashBefore < 0 && p.CrashAfter < 0 }

// ---- decorator -----------------------------------------------------------------------------------------------------

type Call struct {
	Verb string // create update delete get list
	Name string
	Err  string // "" | injected | exists | notfound | other
}

type crashSignal struct{ at int }

var errInjected = fmt.Errorf("verif: injected store fault")

// Deco wraps a clientset; only FloatingIPs() calls are intercepted.
type Deco struct {
	inner crdclient.Interface
	mu    sync.Mutex
	plan  Plan
	calls []Call
	// the API server's WATCH CACHE: a List whose options ask for "any version" (ResourceVersion "0" / non-empty, or
	// ResourceVersionMatch) may be answered from it, i.e. with the store as of the last `apisync` op; a List with empty
	// options is a consistent (quorum) read.  The client-go fake ignores these options, so the decorator models them.
	Cache *WatchCache
	// schedule hooks (thorough tier): called without holding mu
	Before func(idx int, verb, name string)
	After  func(idx int, verb, name string)
}

func NewDeco(inner crdclient.Interface) *Deco { return &Deco{inner: inner, plan: NoPlan()} }

// WatchCache: the (possibly stale) snapshot the API server answers non-consistent LISTs from.
type WatchCache struct {
	mu   sync.Mutex
	Snap *v1alpha1.FloatingIPList
	Hits int
}

func (c *WatchCache) Set(l *v1alpha1.FloatingIPList) {
	c.mu.Lock()
	c.Snap = l.DeepCopy()
	c.mu.Unlock()
}

func (d *Deco) Discovery() discovery.DiscoveryInterface { return d.inner.Discovery() }
func (d *Deco) GalaxyV1alpha1() typed.GalaxyV1alpha1Interface {
	return &decoGroup{GalaxyV1alpha1Interface: d.inner.GalaxyV1alpha1(), d: d}
}

type decoGroup struct {
	typed.GalaxyV1alpha1Interface
	d *Deco
}

func (g *decoGroup) FloatingIPs() typed.FloatingIPInterface {
	return &decoFIP{FloatingIPInterface: g.GalaxyV1alpha1Interface.FloatingIPs(), d: g.d}
}

type decoFIP struct {
	typed.FloatingIPInterface
	d *Deco
}

// Arm starts a new operation with the given plan.
func (d *Deco) Arm(p Plan) {
	d.mu.Lock()
	d.plan, d.calls = p, nil
	d.mu.Unlock()
}

func (d *Deco) Calls() []Call {
	d.mu.Lock()
	defer d.mu.Unlock()
	return append([]Call(nil), d.calls...)
}

func classOf(err error) string {
	switch {
	case err == nil:
		return ""
	case err == errInjected:
		return "injected"
	case apierrors.IsAlreadyExists(err):
		return "exists"
	case apierrors.IsNotFound(err):
		return "notfound"
	}
	return "other"
}

// around runs one store call under the plan.
func (d *Deco) around(verb, name string, f func() error) error {
	d.mu.Lock()
	idx := len(d.calls)
	d.calls = append(d.calls, Call{Verb: verb, Name: name})
	plan := d.plan
	before, after := d.Before, d.After
	d.mu.Unlock()
	if before != nil {
		before(idx, verb, name)
	}
	if plan.CrashBefore == idx {
		panic(crashSignal{idx})
	}
	for _, k := range plan.Fails {
		if k == idx {
			d.setErr(idx, "injected")
			return errInjected
		}
	}
	err := f()
	d.setErr(idx, classOf(err))
	if after != nil {
		after(idx, verb, name)
	}
	if err == nil && plan.CrashAfter == idx {
		panic(crashSignal{idx})
	}
	return err
}

func (d *Deco) setErr(idx int, c string) {
	d.mu.Lock()
	if idx < len(d.calls) {
		d.calls[idx].Err = c
	}
	d.mu.Unlock()
}

func (f *decoFIP) Create(ctx context.Context, o *v1alpha1.FloatingIP, opts metav1.CreateOptions) (res *v1alpha1.FloatingIP, err error) {
	err = f.d.around("create", o.Name, func() error {
		var e error
		res, e = f.FloatingIPInterface.Create(ctx, o, opts)
		return e
	})
	return
}

func (f *decoFIP) Update(ctx context.Context, o *v1alpha1.FloatingIP, opts metav1.UpdateOptions) (res *v1alpha1.FloatingIP, err error) {
	err = f.d.around("update", o.Name, func() error {
		var e error
		res, e = f.FloatingIPInterface.Update(ctx, o, opts)
		return e
	})
	return
}

func (f *decoFIP) Delete(ctx context.Context, name string, opts metav1.DeleteOptions) error {
	return f.d.around("delete", name, func() error { return f.FloatingIPInterface.Delete(ctx, name, opts) })
}

func (f *decoFIP) Get(ctx context.Context, name string, opts metav1.GetOptions) (res *v1alpha1.FloatingIP, err error) {
	err = f.d.around("get", name, func() error {
		var e error
		res, e = f.FloatingIPInterface.Get(ctx, name, opts)
		return e
	})
	return
}

func (f *decoFIP) List(ctx context.Context, opts metav1.ListOptions) (res *v1alpha1.FloatingIPList, err error) {
	err = f.d.around("list", "", func() error {
		if c := f.d.Cache; c != nil && (opts.ResourceVersion != "" || opts.ResourceVersionMatch != "") {
			c.mu.Lock()
			defer c.mu.Unlock()
			c.Hits++
			if c.Snap == nil {
				res = &v1alpha1.FloatingIPList{}
			} else {
				res = c.Snap.DeepCopy()
			}
			return nil
		}
		var e error
		res, e = f.FloatingIPInterface.List(ctx, opts)
		if e == nil && (opts.Limit > 0 || opts.Continue != "") {
			res = paginate(res, opts.Limit, opts.Continue)
		}
		return e
	})
	return
}

// paginate: what the API server does with ListOptions.Limit / Continue (the client-go fake ignores both): at most Limit
// items in name order and a continue token when more are left; a List carrying the token returns the next chunk.
func paginate(all *v1alpha1.FloatingIPList, limit int64, token string) *v1alpha1.FloatingIPList {
	items := append([]v1alpha1.FloatingIP(nil), all.Items...)
	sort.Slice(items, func(i, j int) bool { return items[i].Name < items[j].Name })
	start := 0
	if strings.HasPrefix(token, "verif-continue-") {
		fmt.Sscanf(strings.TrimPrefix(token, "verif-continue-"), "%d", &start)
	}
	if start > len(items) {
		start = len(items)
	}
	end := len(items)
	if limit > 0 && start+int(limit) < end {
		end = start + int(limit)
	}
	out := all.DeepCopy()
	out.Items = items[start:end]
	out.Continue = ""
	if end < len(items) {
		out.Continue = fmt.Sprintf("verif-continue-%d", end)
		left := int64(len(items) - end)
		out.RemainingItemCount = &left
	}
	return out
}

// ---- lagging informer: what galaxy-ipam's shared FloatingIP informer looks like to crdIpam --------------------------------
//
// NewCrdIPAM gets it the way the daemon passes the real one: it registers its event handlers on Informer() and may use
// Lister().  The cache behind the lister shows the store AS OF THE LAST explicit sync (World.InformerSync, or the
// delivery of a single event for that object): it lags galaxy-ipam's own writes exactly like the real informer does.

type lagInformer struct {
	cache.SharedIndexInformer // nil: only the methods below are ever called
	h                         cache.ResourceEventHandler
	idx                       cache.Indexer
}

func (c *lagInformer) AddEventHandler(h cache.ResourceEventHandler) { c.h = h }
func (c *lagInformer) HasSynced() bool                              { return true }
func (c *lagInformer) GetIndexer() cache.Indexer                    { return c.idx }
func (c *lagInformer) GetStore() cache.Store                        { return c.idx }

type lagFIPInformer struct{ inf *lagInformer }

func (c *lagFIPInformer) Informer() cache.SharedIndexInformer { return c.inf }
func (c *lagFIPInformer) Lister() listers.FloatingIPLister    { return listers.NewFloatingIPLister(c.inf.idx) }

// ---- addresses -----------------------------------------------------------------------------------------------------

func U32(ip net.IP) uint32 {
	v4 := ip.To4()
	if v4 == nil {
		return 0
	}
	return uint32(v4[0])<<24 | uint32(v4[1])<<16 | uint32(v4[2])<<8 | uint32(v4[3])
}

func IPOf(u uint32) net.IP { return net.IPv4(byte(u>>24), byte(u>>16), byte(u>>8), byte(u)).To4() }

func IPStr(u uint32) string { return IPOf(u).String() }

func ParseU32(s string) (uint32, bool) {
	ip := net.ParseIP(s)
	if ip == nil || ip.To4() == nil {
		return 0, false
	}
	return U32(ip), true
}

// ---- configuration ---------------------------------------------------------------------------------------------------

// PoolConf is one pool of a generated configuration, in the JSON shape galaxy-ipam reads.
type PoolConf struct {
	NodeSubnets []string `json:"nodeSubnets"`
	IPs         []string `json:"ips"`
	Subnet      string   `json:"subnet"`
	Gateway     string   `json:"gateway"`
	Vlan        uint16   `json:"vlan,omitempty"`
}

type Conf []PoolConf

// Decode builds fresh FloatingIPPool objects through the repo's own UnmarshalJSON (+ fipCheck).
func (c Conf) Decode() ([]*floatingip.FloatingIPPool, error) {
	var pools []*floatingip.FloatingIPPool
	for _, pc := range c {
		b, _ := json.Marshal(pc)
		p := &floatingip.FloatingIPPool{}
		if err := json.Unmarshal(b, p); err != nil {
			return nil, err
		}
		pools = append(pools, p)
	}
	return pools, nil
}

// PoolInfo: the numbers of a decoded pool (what the driver gets, what the monitors use).
type PoolInfo struct {
	Gateway uint32
	Bits    int
	Vlan    uint16
	Subnets []SubnetInfo
	Ranges  [][2]uint32
}

type SubnetInfo struct {
	Str  string
	Base uint32
	Bits int
}

func InfoOf(pools []*floatingip.FloatingIPPool) []PoolInfo {
	var r []PoolInfo
	for _, p := range pools {
		bits, _ := p.Mask.Size()
		pi := PoolInfo{Gateway: U32(p.Gateway), Bits: bits, Vlan: p.Vlan}
		for _, n := range p.NodeSubnets {
			b, _ := n.Mask.Size()
			pi.Subnets = append(pi.Subnets, SubnetInfo{Str: n.String(), Base: U32(n.IP), Bits: b})
		}
		for _, ipr := range p.IPRanges {
			pi.Ranges = append(pi.Ranges, [2]uint32{U32(ipr.First), U32(ipr.Last)})
		}
		r = append(r, pi)
	}
	return r
}

func (p PoolInfo) Contains(ip uint32) bool {
	sh := uint(32 - p.Bits)
	if p.Bits == 0 {
		sh = 32
	}
	if sh < 32 && ip>>sh != p.Gateway>>sh {
		return false
	}
	for _, r := range p.Ranges {
		if r[0] <= ip && ip <= r[1] {
			return true
		}
	}
	return false
}

func (p PoolInfo) HasSubnet(s string) bool {
	for _, n := range p.Subnets {
		if n.Str == s {
			return true
		}
	}
	return false
}

// PoolOfIP: first pool (in the given order) containing ip.
func PoolOfIP(ps []PoolInfo, ip uint32) *PoolInfo {
	for i := range ps {
		if ps[i].Contains(ip) {
			return &ps[i]
		}
	}
	return nil
}

func confLine(ps []PoolInfo) string {
	if len(ps) == 0 {
		return "-"
	}
	var out []string
	for _, p := range ps {
		var subs, rs []string
		for _, n := range p.Subnets {
			subs = append(subs, fmt.Sprintf("%s@%d@%d", n.Str, n.Base, n.Bits))
		}
		for _, r := range p.Ranges {
			rs = append(rs, fmt.Sprintf("%d-%d", r[0], r[1]))
		}
		out = append(out, fmt.Sprintf("%d/%d/%d|%s|%s", p.Gateway, p.Bits, p.Vlan, dashJoin(subs, ","), dashJoin(rs, ",")))
	}
	return strings.Join(out, ";")
}

func dashJoin(l []string, sep string) string {
	if len(l) == 0 {
		return "-"
	}
	return strings.Join(l, sep)
}

// ---- world -----------------------------------------------------------------------------------------------------------

type Event struct {
	Assign bool
	IP     uint32
	Key    string
	Policy int
}

// World: one galaxy-ipam process (crdIpam) on one API server (fake clientset), plus the watch-event queue.
type World struct {
	Store   *fakecrd.Clientset
	Deco    *Deco
	Ipam    floatingip.IPAM
	handler cache.ResourceEventHandler
	inf     *lagInformer
	Cache   *WatchCache // the API server's watch cache: survives restarts of galaxy-ipam, refreshed by op `apisync`
	Conf    Conf       // current configuration (what a restart reloads)
	Pools   []PoolInfo // decoded current configuration, sorted by gateway (stable)
	Pending []Event
	Timeout time.Duration
}

func NewWorld(objs ...runtime.Object) *World {
	w := &World{Store: fakecrd.NewSimpleClientset(objs...), Timeout: 10 * time.Second}
	w.boot()
	return w
}

func (w *World) boot() {
	if w.Cache == nil {
		w.Cache = &WatchCache{}
		w.ApiCacheSync()
	}
	w.Deco = NewDeco(w.Store)
	w.Deco.Cache = w.Cache
	w.inf = &lagInformer{idx: cache.NewIndexer(cache.MetaNamespaceKeyFunc, cache.Indexers{})}
	w.refreshInformerCache() // a starting process waits for the informer's initial sync
	w.Ipam = floatingip.NewCrdIPAM(w.Deco, &lagFIPInformer{w.inf})
	w.handler = w.inf.h
}

// ApiCacheSync: the API server's watch cache catches up with the store.
func (w *World) ApiCacheSync() {
	l, err := w.Store.GalaxyV1alpha1().FloatingIPs().List(context.TODO(), metav1.ListOptions{})
	if err != nil {
		panic(err)
	}
	w.Cache.Set(l)
}

// refreshInformerCache makes the informer's cache equal to the store.
func (w *World) refreshInformerCache() {
	var objs []interface{}
	for _, o := range w.StoreObjs() {
		objs = append(objs, o.DeepCopy())
	}
	w.inf.idx.Replace(objs, "")
}

// InformerSync: the informer catches up — its cache shows the store, every pending watch event is handed to the
// handlers.  Returns the number of events delivered.
func (w *World) InformerSync() int {
	w.refreshInformerCache()
	n := len(w.Pending)
	for len(w.Pending) > 0 {
		w.deliverOne()
	}
	return n
}

// deliverOne hands the oldest pending event to crdIpam's handler; the informer's cache entry of that object is what the
// event says (an informer updates its cache before it calls the handlers).
func (w *World) deliverOne() {
	e := w.Pending[0]
	w.Pending = w.Pending[1:]
	o := objFor(e.IP, e.Key, e.Policy, true)
	if e.Assign {
		w.inf.idx.Add(o.DeepCopy())
		w.handler.OnAdd(o)
	} else {
		w.inf.idx.Delete(o)
		w.handler.OnDelete(o)
	}
}

func sortedInfo(ps []PoolInfo) []PoolInfo {
	r := append([]PoolInfo(nil), ps...)
	sort.SliceStable(r, func(i, j int) bool { return r[i].Gateway < r[j].Gateway })
	return r
}

// StoreObjs lists the FloatingIP objects directly (not through the decorator), sorted by numeric IP.
func (w *World) StoreObjs() []v1alpha1.FloatingIP {
	l, err := w.Store.GalaxyV1alpha1().FloatingIPs().List(context.TODO(), metav1.ListOptions{})
	if err != nil {
		panic(err)
	}
	items := l.Items
	sort.Slice(items, func(i, j int) bool {
		a, _ := ParseU32(items[i].Name)
		b, _ := ParseU32(items[j].Name)
		return a < b
	})
	return items
}

// Rec is the canonical record (Appendix B): key, policy, node, uid, reserved.
type Rec struct {
	Key      string
	Policy   int
	Node     string
	UID      string
	Reserved bool
}

func (r Rec) String() string {
	res := "N"
	if r.Reserved {
		res = "R"
	}
	return fmt.Sprintf("%s:%d:%s:%s:%s", tilde(r.Key), r.Policy, tilde(r.Node), tilde(r.UID), res)
}

func tilde(s string) string {
	if s == "" {
		return "~"
	}
	return s
}

func recOfObj(o *v1alpha1.FloatingIP) Rec {
	r := Rec{Key: o.Spec.Key, Policy: int(o.Spec.Policy)}
	if o.Spec.Attribute != "" {
		var a floatingip.Attr
		if json.Unmarshal([]byte(o.Spec.Attribute), &a) == nil {
			r.Node, r.UID = a.NodeName, a.Uid
		}
	}
	_, r.Reserved = o.Labels[constant.ReserveFIPLabel]
	return r
}

func recOfFIP(f *floatingip.FloatingIP) Rec {
	r := Rec{Key: f.Key, Policy: int(f.Policy), Node: f.NodeName, UID: f.PodUid}
	if f.Labels != nil {
		_, r.Reserved = f.Labels[constant.ReserveFIPLabel]
	}
	return r
}

// StoreMap: ip -> record of the persisted objects.
func (w *World) StoreMap() map[uint32]Rec {
	m := map[uint32]Rec{}
	for _, o := range w.StoreObjs() {
		o := o
		if ip, ok := ParseU32(o.Name); ok {
			m[ip] = recOfObj(&o)
		}
	}
	return m
}

// Mem is the observable memory of a crdIpam: ByPrefix("") (allocated first, then free) + ByKeyword("").
type Mem struct {
	Alloc map[uint32]Rec
	Free  map[uint32]bool
	Info  map[uint32]string // ip -> "|bits|gw|vlan|subnets" as the implementation reports it
	Dup   []uint32          // addresses reported twice (allocated and free at once)
}

func ReadMem(ipam floatingip.IPAM) Mem {
	m := Mem{Alloc: map[uint32]Rec{}, Free: map[uint32]bool{}, Info: map[uint32]string{}}
	all, _ := ipam.ByPrefix("")
	kw, _ := ipam.ByKeyword("")
	n := len(kw)
	for i, inf := range all {
		ip := U32(inf.FloatingIP.IP)
		bits, _ := inf.IPInfo.IP.Mask.Size()
		subs := inf.NodeSubnets.List()
		m.Info[ip] = fmt.Sprintf("|%d|%d|%d|%s", bits, U32(inf.IPInfo.Gateway), inf.IPInfo.Vlan, dashJoin(subs, "+"))
		if i < n {
			if _, dup := m.Alloc[ip]; dup {
				m.Dup = append(m.Dup, ip)
			}
			m.Alloc[ip] = recOfFIP(&inf.FloatingIP)
		} else {
			if _, dup := m.Alloc[ip]; dup {
				m.Dup = append(m.Dup, ip)
			}
			m.Free[ip] = true
		}
	}
	return m
}

// SortedIPs: the keys in ascending order.
func SortedIPs[V any](m map[uint32]V) []uint32 { return sortedIPs(m) }

func sortedIPs[V any](m map[uint32]V) []uint32 {
	r := make([]uint32, 0, len(m))
	for k := range m {
		r = append(r, k)
	}
	sort.Slice(r, func(i, j int) bool { return r[i] < r[j] })
	return r
}

// Dump renders memory + store + pending queue exactly like gxdrv_ipam's `dump`.
func (w *World) Dump() string {
	m := ReadMem(w.Ipam)
	type ent struct {
		ip uint32
		s  string
	}
	var es []ent
	for ip, r := range m.Alloc {
		es = append(es, ent{ip, fmt.Sprintf("%d:A:%s%s", ip, r, m.Info[ip])})
	}
	for ip := range m.Free {
		es = append(es, ent{ip, fmt.Sprintf("%d:F:%s%s", ip, Rec{}, m.Info[ip])})
	}
	sort.Slice(es, func(i, j int) bool { return es[i].ip < es[j].ip || (es[i].ip == es[j].ip && es[i].s < es[j].s) })
	var ms, ss, ps []string
	for _, e := range es {
		ms = append(ms, e.s)
	}
	st := w.StoreMap()
	for _, ip := range sortedIPs(st) {
		ss = append(ss, fmt.Sprintf("%d:%s", ip, st[ip]))
	}
	for _, e := range w.Pending {
		k := "U"
		if e.Assign {
			k = "A"
		}
		ps = append(ps, fmt.Sprintf("%s:%d:%s:%d", k, e.IP, tilde(e.Key), e.Policy))
	}
	return fmt.Sprintf("mem[%s] store[%s] pend[%s]", strings.Join(ms, ","), strings.Join(ss, ","), strings.Join(ps, ","))
}

// labelled: ip -> (key, policy) of the labelled objects in the store.
func labelled(st map[uint32]Rec) map[uint32]Rec {
	m := map[uint32]Rec{}
	for ip, r := range st {
		if r.Reserved {
			m[ip] = r
		}
	}
	return m
}

// enqueueWatch appends the watch events a change of the store causes (labelled object appeared / disappeared),
// adds first, each group by ascending address — the order gxdrv_ipam uses.
func (w *World) enqueueWatch(before, after map[uint32]Rec) {
	lb, la := labelled(before), labelled(after)
	for _, ip := range sortedIPs(la) {
		if _, ok := before[ip]; !ok {
			w.Pending = append(w.Pending, Event{true, ip, la[ip].Key, la[ip].Policy})
		}
	}
	for _, ip := range sortedIPs(lb) {
		if _, ok := after[ip]; !ok {
			w.Pending = append(w.Pending, Event{false, ip, lb[ip].Key, lb[ip].Policy})
		}
	}
}

func objFor(ip uint32, key string, policy int, reserved bool) *v1alpha1.FloatingIP {
	o := &v1alpha1.FloatingIP{
		TypeMeta:   metav1.TypeMeta{Kind: constant.ResourceKind, APIVersion: constant.ApiVersion},
		ObjectMeta: metav1.ObjectMeta{Name: IPStr(ip), Labels: map[string]string{}},
	}
	if reserved {
		o.Labels[constant.ReserveFIPLabel] = ""
	}
	o.Spec.Key = key
	o.Spec.Policy = constant.ReleasePolicy(policy)
	return o
}

var fipGVR = schema.GroupVersionResource{Group: "galaxy.k8s.io", Version: "v1alpha1", Resource: "floatingips"}

// CloneStore: a new fake clientset holding deep copies of the current objects (for the restart comparison).
func (w *World) CloneStore() *fakecrd.Clientset {
	var objs []runtime.Object
	for _, o := range w.StoreObjs() {
		objs = append(objs, o.DeepCopy())
	}
	return fakecrd.NewSimpleClientset(objs...)
}

// FreshFrom: what a newly started galaxy-ipam would hold, given this store and the current configuration.
func (w *World) FreshFrom() (Mem, error) {
	cs := w.CloneStore()
	d := NewDeco(cs)
	d.Cache = w.Cache // a process started now talks to the same API server, watch cache included
	ip := floatingip.NewCrdIPAM(d, nil)
	pools, err := w.Conf.Decode()
	if err != nil {
		return Mem{}, err
	}
	if err := ip.ConfigurePool(pools); err != nil {
		return Mem{}, err
	}
	return ReadMem(ip), nil
}
