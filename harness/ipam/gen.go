package ipam

import (
	"fmt"
	"math/rand"
	"sort"
)

// ---- configurations (DESIGN Appendix D) ------------------------------------------------------------------------------

var nodeSubnetPalette = []string{"10.0.1.0/24", "10.0.2.0/24", "10.49.28.0/26", "10.49.29.0/24", "10.180.1.2/32", "10.180.1.3/32",
	"192.168.0.0/16"}

type podNet struct {
	base uint32
	bits int
}

// pod subnets: ordinary ones plus the boundary ones (x.x.x.255, 255.255.255.254-255, 0.0.0.x)
var podNets = []podNet{
	{U32(IPOf(10<<24 | 49<<16 | 27<<8)), 24}, {U32(IPOf(10<<24 | 173<<16 | 13<<8)), 24}, {U32(IPOf(10<<24 | 180<<16 | 154<<8)), 24},
	{U32(IPOf(10<<24 | 0<<16 | 70<<8)), 25}, {U32(IPOf(10<<24 | 0<<16 | 80<<8 | 64)), 26}, {U32(IPOf(10<<24 | 0<<16 | 81<<8 | 16)), 28},
	{U32(IPOf(10<<24 | 0<<16 | 82<<8 | 4)), 30},
}

var boundaryNets = []podNet{
	{10<<24 | 9<<16 | 9<<8, 24},     // ranges up to x.x.x.255
	{255<<24 | 255<<16 | 255<<8, 24}, // 255.255.255.254-255
	{0, 24},                          // 0.0.0.x
}

func hostMax(n podNet) uint32 { return n.base | (uint32(1)<<(32-uint(n.bits)) - 1) }

// rangesIn draws 1..3 sorted, non-adjacent ranges of 1..6 addresses from [lo, hi].
func rangesIn(r *rand.Rand, lo, hi uint32, boundary bool) [][2]uint32 {
	var out [][2]uint32
	n := 1 + r.Intn(3)
	cur := uint64(lo)
	if boundary && hi-lo > 8 {
		// end exactly at the last address of the subnet
		first := hi - uint32(r.Intn(3))
		if r.Intn(2) == 0 && first > lo+3 {
			out = append(out, [2]uint32{lo + uint32(r.Intn(2)), lo + 1 + uint32(r.Intn(2))})
		}
		out = append(out, [2]uint32{first, hi})
		return out
	}
	for i := 0; i < n; i++ {
		cur += uint64(r.Intn(3))
		size := uint64(1 + r.Intn(6))
		if r.Intn(4) == 0 {
			size = 1
		}
		if cur > uint64(hi) {
			break
		}
		last := cur + size - 1
		if last > uint64(hi) {
			last = uint64(hi)
		}
		out = append(out, [2]uint32{uint32(cur), uint32(last)})
		cur = last + 2 // a gap of at least one address, otherwise fipCheck rejects ("can be merged")
	}
	if len(out) == 0 {
		out = append(out, [2]uint32{lo, lo})
	}
	return out
}

func ipsOfRanges(rs [][2]uint32) []string {
	var s []string
	for _, r := range rs {
		if r[0] == r[1] {
			s = append(s, IPStr(r[0]))
		} else {
			s = append(s, IPStr(r[0])+"~"+IPStr(r[1]))
		}
	}
	return s
}

func pickSubnets(r *rand.Rand) []string {
	n := 1 + r.Intn(2)
	if r.Intn(6) == 0 {
		n = 3
	}
	seen := map[string]bool{}
	var out []string
	for len(out) < n {
		s := nodeSubnetPalette[r.Intn(len(nodeSubnetPalette))]
		if !seen[s] {
			seen[s] = true
			out = append(out, s)
		}
	}
	// sometimes written unmasked / duplicated, the decoder masks and de-duplicates
	if r.Intn(8) == 0 {
		out = append(out, out[0])
	}
	return out
}

// GenSharedConf: pools sharing ONE pod subnet and gateway (the sort by gateway keeps their configuration order), in any
// configuration order — the pool with the higher addresses first as often as not —, with adjacent and interleaved ranges
// across the pools; optionally one ordinary pool in another subnet.
func GenSharedConf(r *rand.Rand) Conf {
	base := uint32(10<<24 | 20<<16)
	gw := IPStr(base + 1)
	layouts := [][][][2]uint32{
		{{{6, 10}}, {{2, 5}}},                         // adjacent, higher first
		{{{2, 5}}, {{6, 10}}},                         // adjacent, ascending
		{{{8, 9}, {14, 15}}, {{2, 3}, {11, 12}}},      // interleaved
		{{{12, 14}}, {{2, 4}}, {{6, 9}}},              // three pools, gaps
		{{{5, 6}, {20, 22}}, {{8, 18}}},               // one pool inside the gap of the other
		{{{10, 13}}, {{4, 9}}, {{2, 3}, {14, 16}}},    // adjacent on both sides
	}
	l := layouts[r.Intn(len(layouts))]
	order := r.Perm(len(l))
	subs := pickSubnets(r)
	var c Conf
	for _, i := range order {
		var rs [][2]uint32
		for _, x := range l[i] {
			rs = append(rs, [2]uint32{base + x[0], base + x[1]})
		}
		ns := subs
		if r.Intn(4) == 0 {
			ns = pickSubnets(r)
		}
		c = append(c, PoolConf{NodeSubnets: ns, IPs: ipsOfRanges(rs), Subnet: IPStr(base) + "/24", Gateway: gw})
	}
	if r.Intn(3) == 0 {
		pn := podNets[r.Intn(len(podNets))]
		c = append(c, PoolConf{NodeSubnets: pickSubnets(r), IPs: ipsOfRanges(rangesIn(r, pn.base+2, hostMax(pn)-1, false)),
			Subnet: fmt.Sprintf("%s/%d", IPStr(pn.base), pn.bits), Gateway: IPStr(pn.base + 1)})
		if r.Intn(2) == 0 {
			c[0], c[len(c)-1] = c[len(c)-1], c[0]
		}
	}
	return c
}

// GenSpanRanges draws k pairwise-disjoint range lists each consisting of ONE range which spans configured ranges of
// several pools partially (and the unconfigured gaps between them).
func (v View) GenSpanRanges(r *rand.Rand, k int) [][][2]uint32 {
	all := v.allIPs()
	if len(all) == 0 {
		return nil
	}
	sort.Slice(all, func(i, j int) bool { return all[i] < all[j] })
	lo, hi := uint64(all[0]), uint64(all[len(all)-1])
	if lo > 1 {
		lo--
	}
	hi++
	// k+… cut points
	cuts := map[uint64]bool{}
	for len(cuts) < 2*k && uint64(len(cuts)) < hi-lo {
		cuts[lo+uint64(r.Int63n(int64(hi-lo+1)))] = true
	}
	var cs []uint64
	for c := range cuts {
		cs = append(cs, c)
	}
	sort.Slice(cs, func(i, j int) bool { return cs[i] < cs[j] })
	var out [][][2]uint32
	for i := 0; i+1 < len(cs) && len(out) < k; i += 2 {
		out = append(out, [][2]uint32{{uint32(cs[i]), uint32(cs[i+1])}})
	}
	r.Shuffle(len(out), func(i, j int) { out[i], out[j] = out[j], out[i] })
	return out
}

// GenConf draws a valid configuration: 1–5 pools, pairwise disjoint as address sets, node subnets shared between
// pools, /32 node subnets, pools sharing one pod subnet (same gateway) with disjoint ranges, boundary addresses.
// withEmptyPools adds 1–2 pools with an EMPTY `ips` list (valid: they can neither hold nor serve an address) whose gateways
// sort before, between or after the others.
func withEmptyPools(r *rand.Rand, c Conf) Conf {
	if r.Intn(3) != 0 {
		return c
	}
	n := 1 + r.Intn(2)
	for i := 0; i < n; i++ {
		var base uint32
		switch r.Intn(3) {
		case 0:
			base = 1<<24 | uint32(r.Intn(200))<<8 // 1.0.x.0/24: before everything
		case 1:
			base = 10<<24 | 15<<16 | uint32(r.Intn(200))<<8 // between the 10.0/10.9 and the 10.20/10.49/… subnets
		default:
			base = 250<<24 | uint32(r.Intn(200))<<8 // after everything but 255.255.255.0
		}
		dup := false
		for _, p := range c {
			if p.Gateway == IPStr(base+1) {
				dup = true
			}
		}
		if dup {
			continue
		}
		c = append(c, PoolConf{NodeSubnets: pickSubnets(r), IPs: []string{}, Subnet: IPStr(base) + "/24", Gateway: IPStr(base + 1)})
	}
	r.Shuffle(len(c), func(i, j int) { c[i], c[j] = c[j], c[i] })
	return c
}

func GenConf(r *rand.Rand) Conf { return withEmptyPools(r, genConf(r)) }

func genConf(r *rand.Rand) Conf {
	if r.Intn(6) == 0 {
		return GenSharedConf(r)
	}
	var c Conf
	n := 1 + r.Intn(5)
	nets := r.Perm(len(podNets))
	used := 0
	for len(c) < n {
		var pn podNet
		boundary := false
		if r.Intn(5) == 0 {
			pn = boundaryNets[r.Intn(len(boundaryNets))]
			boundary = true
			dup := false
			for _, p := range c {
				if p.Subnet == fmt.Sprintf("%s/%d", IPStr(pn.base), pn.bits) {
					dup = true
				}
			}
			if dup {
				continue
			}
		} else {
			if used >= len(nets) {
				break
			}
			pn = podNets[nets[used]]
			used++
		}
		gw := pn.base + 1
		lo, hi := pn.base+2, hostMax(pn)
		if !boundary && pn.bits < 30 {
			hi--
		}
		vlan := uint16(0)
		if r.Intn(3) == 0 {
			vlan = uint16(1 + r.Intn(4))
		}
		mk := func(rs [][2]uint32) PoolConf {
			return PoolConf{NodeSubnets: pickSubnets(r), IPs: ipsOfRanges(rs), Subnet: fmt.Sprintf("%s/%d", IPStr(pn.base), pn.bits),
				Gateway: IPStr(gw), Vlan: vlan}
		}
		if !boundary && pn.bits <= 25 && r.Intn(3) == 0 && len(c)+2 <= 5 {
			// two pools in one pod subnet, disjoint halves
			mid := lo + (hi-lo)/2
			c = append(c, mk(rangesIn(r, lo, mid-1, false)), mk(rangesIn(r, mid+1, hi, false)))
			continue
		}
		c = append(c, mk(rangesIn(r, lo, hi, boundary)))
	}
	r.Shuffle(len(c), func(i, j int) { c[i], c[j] = c[j], c[i] })
	return c
}

// Mutate: same / grown / shrunk configuration for a reload.
func MutateConf(r *rand.Rand, c Conf) Conf {
	switch r.Intn(5) {
	case 0:
		return append(Conf(nil), c...)
	case 1: // drop a pool
		if len(c) > 1 {
			i := r.Intn(len(c))
			return append(append(Conf(nil), c[:i]...), c[i+1:]...)
		}
	case 2: // shrink one pool to its first range's first address
		if len(c) > 0 {
			d := append(Conf(nil), c...)
			i := r.Intn(len(d))
			p := d[i]
			pools, err := Conf{p}.Decode()
			if err == nil && len(pools[0].IPRanges) > 0 {
				f := U32(pools[0].IPRanges[0].First)
				l := U32(pools[0].IPRanges[0].Last)
				if l > f {
					l = f + (l-f)/2
				}
				p.IPs = ipsOfRanges([][2]uint32{{f, l}})
				d[i] = p
			}
			return d
		}
	case 3: // different node subnets on one pool
		if len(c) > 0 {
			d := append(Conf(nil), c...)
			i := r.Intn(len(d))
			p := d[i]
			p.NodeSubnets = pickSubnets(r)
			d[i] = p
			return d
		}
	}
	return GenConf(r)
}

// ---- histories -------------------------------------------------------------------------------------------------------

var keyPalette = []string{"dp_ns1_web_web-0", "dp_ns1_web_web-1", "sts_ns1_db_db-0", "sts_ns1_db_db-1", "pool__p1_dp_ns1_web_web-2",
	"dp_ns1_web_", "k1", ""}
var nodePalette = []string{"n1", "n2", ""}
var uidPalette = []string{"u1", "u2", "u3", ""}

func pick(r *rand.Rand, l []string) string { return l[r.Intn(len(l))] }

// ReservationKey: what an administrator writes into spec.key of a labelled FloatingIP — usually a descriptive key, but
// only the label is required: the key may be EMPTY, and nothing stops it from being equal to a pod's key.
func ReservationKey(r *rand.Rand) string {
	switch x := r.Intn(10); {
	case x < 5:
		return "pool__reserved-for-node_"
	case x < 8:
		return ""
	}
	return keyPalette[r.Intn(5)]
}

// View is what the generator looks at to produce mostly-meaningful arguments.
type View struct {
	Pools []PoolInfo
	Mem   Mem
	Store map[uint32]Rec
	Pend  []Event
}

func (w *World) View() View { return View{w.Pools, ReadMem(w.Ipam), w.StoreMap(), w.Pending} }

// Restrict: the same view with only the pools listing the node subnet.
func (v View) Restrict(subnet string) View {
	w := v
	w.Pools = nil
	for _, p := range v.Pools {
		if p.HasSubnet(subnet) {
			w.Pools = append(w.Pools, p)
		}
	}
	return w
}

func (v View) allIPs() []uint32 {
	var l []uint32
	for _, p := range v.Pools {
		for _, r := range p.Ranges {
			for x := uint64(r[0]); x <= uint64(r[1]); x++ {
				l = append(l, uint32(x))
			}
		}
	}
	return l
}

func (v View) subnets() []string {
	seen := map[string]bool{}
	var l []string
	for _, p := range v.Pools {
		for _, s := range p.Subnets {
			if !seen[s.Str] {
				seen[s.Str] = true
				l = append(l, s.Str)
			}
		}
	}
	sort.Strings(l)
	if len(l) == 0 {
		l = []string{"10.0.1.0/24"}
	}
	return l
}

// HasPending: a watch event for the address is still on its way.
func (v View) HasPending(ip uint32) bool {
	for _, e := range v.Pend {
		if e.IP == ip {
			return true
		}
	}
	return false
}

// ReservableIP: an address the administrator may reserve now (EnvOK: no watch event for it pending).
func (v View) ReservableIP(r *rand.Rand) uint32 {
	for i := 0; i < 8; i++ {
		if ip := v.anyIP(r); !v.HasPending(ip) {
			return ip
		}
	}
	return 10<<24 | 250<<16 | 77
}

func (v View) anyIP(r *rand.Rand) uint32 {
	all := v.allIPs()
	if len(all) == 0 || r.Intn(10) == 0 {
		return 10<<24 | 250<<16 | uint32(r.Intn(4)) // not configured
	}
	return all[r.Intn(len(all))]
}

func (v View) allocIP(r *rand.Rand) (uint32, Rec, bool) {
	ips := sortedIPs(v.Mem.Alloc)
	if len(ips) == 0 {
		return 0, Rec{}, false
	}
	ip := ips[r.Intn(len(ips))]
	return ip, v.Mem.Alloc[ip], true
}

// GenRanges draws k pairwise-disjoint range lists over the configured addresses (sometimes reaching outside).
func (v View) GenRanges(r *rand.Rand, k int) [][][2]uint32 {
	var segs [][2]uint32
	for _, p := range v.Pools {
		for _, rg := range p.Ranges {
			// cut every configured range into pieces of 1..3 addresses
			for x := uint64(rg[0]); x <= uint64(rg[1]); {
				n := uint64(1 + r.Intn(3))
				y := x + n - 1
				if y > uint64(rg[1]) {
					y = uint64(rg[1])
				}
				segs = append(segs, [2]uint32{uint32(x), uint32(y)})
				x = y + 1
			}
		}
	}
	r.Shuffle(len(segs), func(i, j int) { segs[i], segs[j] = segs[j], segs[i] })
	var out [][][2]uint32
	for i := 0; i < k && len(segs) > 0; i++ {
		n := 1 + r.Intn(2)
		if n > len(segs) {
			n = len(segs)
		}
		l := append([][2]uint32(nil), segs[:n]...)
		segs = segs[n:]
		if r.Intn(12) == 0 {
			l = append(l, [2]uint32{10<<24 | 251<<16 | uint32(i), 10<<24 | 251<<16 | uint32(i)}) // unconfigured piece
		}
		out = append(out, l)
	}
	return out
}

func planFor(r *rand.Rand, faultPct int) Plan {
	if r.Intn(100) < faultPct {
		return FailAt(r.Intn(4))
	}
	return NoPlan()
}

// GenOp draws the next move given what the world looks like.
func GenOp(r *rand.Rand, v View, faultPct int) Op {
	op := Op{Plan: planFor(r, faultPct), Node: pick(r, nodePalette), UID: pick(r, uidPalette), Policy: r.Intn(3)}
	if len(v.Pools) == 0 && r.Intn(10) != 0 {
		return Op{Kind: "conf", Conf: GenConf(r), Plan: NoPlan()}
	}
	if len(v.Pend) > 0 && r.Intn(100) < 45 {
		return Op{Kind: "deliver", Plan: NoPlan()}
	}
	x := r.Intn(100)
	switch {
	case x < 20:
		op.Kind, op.Key, op.Subnet = "asub", pick(r, keyPalette), pick(r, v.subnets())
	case x < 36:
		op.Kind, op.Key, op.Subnet = "arng", pick(r, keyPalette), pick(r, v.subnets())
		k := r.Intn(4)
		if r.Intn(4) == 0 {
			op.Ranges = v.GenSpanRanges(r, k)
		} else {
			op.Ranges = v.GenRanges(r, k)
		}
	case x < 44:
		op.Kind, op.Key, op.IP = "aspec", pick(r, keyPalette), v.anyIP(r)
	case x < 50:
		op.Kind, op.Key, op.New, op.Subnet = "akey", pick(r, keyPalette), pick(r, keyPalette), pick(r, v.subnets())
		if ip, rec, ok := v.allocIP(r); ok && r.Intn(4) != 0 {
			op.Key = rec.Key
			if p := PoolOfIP(v.Pools, ip); p != nil && len(p.Subnets) > 0 {
				op.Subnet = p.Subnets[r.Intn(len(p.Subnets))].Str
			}
		}
	case x < 58:
		op.Kind, op.Key, op.New = "resv", pick(r, keyPalette), pick(r, keyPalette)
		if _, rec, ok := v.allocIP(r); ok && r.Intn(4) != 0 {
			op.Key = rec.Key
			if r.Intn(3) == 0 {
				op.New = rec.Key
				if r.Intn(2) == 0 {
					op.Node, op.UID = rec.Node, rec.UID
				}
			}
		}
	case x < 64:
		op.Kind, op.Key, op.IP = "upd", pick(r, keyPalette), v.anyIP(r)
		if ip, rec, ok := v.allocIP(r); ok && r.Intn(5) != 0 {
			op.IP, op.Key = ip, rec.Key
		}
	case x < 74:
		op.Kind, op.Key, op.IP = "rel", pick(r, keyPalette), v.anyIP(r)
		if ip, rec, ok := v.allocIP(r); ok && r.Intn(5) != 0 {
			op.IP, op.Key = ip, rec.Key
		}
	case x < 82:
		op.Kind = "rels"
		n := 1 + r.Intn(4)
		seen := map[uint32]bool{}
		for i := 0; i < n; i++ {
			e := ReqEnt{IP: v.anyIP(r), Key: pick(r, keyPalette)}
			if ip, rec, ok := v.allocIP(r); ok && r.Intn(4) != 0 {
				e = ReqEnt{IP: ip, Key: rec.Key}
			}
			if !seen[e.IP] {
				seen[e.IP] = true
				op.Req = append(op.Req, e)
			}
		}
	case x < 86:
		op = Op{Kind: "conf", Plan: op.Plan}
		if len(v.Pools) > 0 {
			// the generator keeps the decoded form only; reloads are drawn afresh or by the caller (c09)
		}
		op.Conf = GenConf(r)
	case x < 92:
		op = Op{Kind: "admres", IP: v.ReservableIP(r), Key: ReservationKey(r), Policy: r.Intn(3), Plan: NoPlan()}
	case x < 95:
		op = Op{Kind: "admunres", IP: v.anyIP(r), Plan: NoPlan()}
		for _, ip := range sortedIPs(v.Store) {
			if v.Store[ip].Reserved {
				op.IP = ip
				break
			}
		}
	case x < 97:
		op = Op{Kind: "deliver", Plan: NoPlan()}
	case x < 98:
		op = Op{Kind: "isync", Plan: NoPlan()}
	case x < 99:
		op = Op{Kind: "apisync", Plan: NoPlan()}
	default:
		op = Op{Kind: "restart", Plan: NoPlan()}
	}
	return op
}

// GenQuery draws a read-only query.
func GenQuery(r *rand.Rand, v View) Query {
	switch r.Intn(7) {
	case 0:
		return Query{Kind: "byprefix", Arg: []string{"", "dp_", "dp_ns1_web_", "sts_ns1_db_db-0", "pool__"}[r.Intn(5)]}
	case 1:
		return Query{Kind: "bykeyword", Arg: []string{"", "web", "db-1", "_"}[r.Intn(4)]}
	case 2:
		return Query{Kind: "byip", IP: v.anyIP(r)}
	case 3:
		return Query{Kind: "first", Arg: pick(r, keyPalette)}
	case 4:
		if r.Intn(3) == 0 {
			return Query{Kind: "bykr", Arg: pick(r, keyPalette), Ranges: v.GenSpanRanges(r, 1+r.Intn(2))}
		}
		return Query{Kind: "bykr", Arg: pick(r, keyPalette), Ranges: v.GenRanges(r, r.Intn(3))}
	case 5:
		ips := []uint32{10<<24 | 0<<16 | 1<<8 | 7, 10<<24 | 180<<16 | 1<<8 | 2, 10<<24 | 49<<16 | 28<<8 | 9, 192<<24 | 168<<16 | 3<<8 | 4, 8<<24 | 8<<16 | 8<<8 | 8}
		return Query{Kind: "nodesubnet", IP: ips[r.Intn(len(ips))]}
	}
	if r.Intn(3) == 0 {
		return Query{Kind: "nsbr", Ranges: v.GenSpanRanges(r, 1+r.Intn(2))}
	}
	return Query{Kind: "nsbr", Ranges: v.GenRanges(r, r.Intn(4))}
}
