package ipam

import (
	"context"
	"encoding/json"
	"fmt"
	"net"
	"sort"
	"strings"

	metav1 "k8s.io/apimachinery/pkg/apis/meta/v1"

	"gxverif/hx"

	"tkestack.io/galaxy/pkg/api/galaxy/constant"
	"tkestack.io/galaxy/pkg/ipam/floatingip"
	"tkestack.io/galaxy/pkg/utils/nets"
)

// Op is one move of a history (JSON = the replay file format, one op per line).
type Op struct {
	Kind   string        `json:"op"` // conf aspec asub akey arng resv upd rel rels admres admunres deliver isync apisync restart
	Conf   Conf          `json:"conf,omitempty"`
	Key    string        `json:"key,omitempty"`
	New    string        `json:"new,omitempty"`
	Subnet string        `json:"subnet,omitempty"`
	IP     uint32        `json:"ip,omitempty"`
	Node   string        `json:"node,omitempty"`
	UID    string        `json:"uid,omitempty"`
	Policy int           `json:"policy,omitempty"`
	Ranges [][][2]uint32 `json:"ranges,omitempty"`
	Req    []ReqEnt      `json:"req,omitempty"`
	Plan   Plan          `json:"plan"`
}

type ReqEnt struct {
	IP  uint32 `json:"ip"`
	Key string `json:"key"`
}

func (o Op) JSON() string {
	b, _ := json.Marshal(o)
	return string(b)
}

func ParseOp(line string) (Op, error) {
	o := Op{Plan: NoPlan()}
	err := json.Unmarshal([]byte(line), &o)
	return o, err
}

func OpsJSON(ops []Op) []string {
	r := make([]string, len(ops))
	for i, o := range ops {
		r[i] = o.JSON()
	}
	return r
}

func (o Op) IsAlloc() bool { return o.Kind == "aspec" || o.Kind == "asub" || o.Kind == "arng" }

func (o Op) Mutates() bool { return o.Kind != "" }

func (o Op) attr() floatingip.Attr {
	return floatingip.Attr{NodeName: o.Node, Uid: o.UID, Policy: constant.ReleasePolicy(o.Policy)}
}

func rangesOf(rs [][][2]uint32) [][]nets.IPRange {
	var out [][]nets.IPRange
	for _, l := range rs {
		var x []nets.IPRange
		for _, r := range l {
			x = append(x, nets.IPRange{First: IPOf(r[0]), Last: IPOf(r[1])})
		}
		out = append(out, x)
	}
	return out
}

func rangesLine(rs [][][2]uint32) string {
	if len(rs) == 0 {
		return "-"
	}
	var ls []string
	for _, l := range rs {
		var x []string
		for _, r := range l {
			x = append(x, fmt.Sprintf("%d-%d", r[0], r[1]))
		}
		ls = append(ls, dashJoin(x, ","))
	}
	return strings.Join(ls, ";")
}

func subnetOf(s string) *net.IPNet {
	_, n, err := net.ParseCIDR(s)
	if err != nil {
		return &net.IPNet{IP: net.IPv4zero.To4(), Mask: net.CIDRMask(32, 32)}
	}
	return n
}

func u32s(l []uint32) string {
	if len(l) == 0 {
		return "-"
	}
	x := make([]string, len(l))
	for i, v := range l {
		x[i] = fmt.Sprint(v)
	}
	return strings.Join(x, ",")
}

func pairs(m map[string]string) string {
	type kv struct {
		ip uint32
		k  string
	}
	var l []kv
	for s, k := range m {
		ip, _ := ParseU32(s)
		l = append(l, kv{ip, k})
	}
	if len(l) == 0 {
		return "-"
	}
	sort.Slice(l, func(i, j int) bool { return l[i].ip < l[j].ip })
	x := make([]string, len(l))
	for i, e := range l {
		x[i] = fmt.Sprintf("%d=%s", e.ip, tilde(e.k))
	}
	return strings.Join(x, ",")
}

// Step is what one executed move produced.
type Step struct {
	Op       Op
	Line     string   // the line for gxdrv_ipam (with the observed choice)
	Impl     string   // the implementation's result in the driver's output format
	Class    string   // ok | noenough | mem | exists | notfound | injected | crashed | other | hang | panic
	IPs      []uint32 // addresses an allocation move returned
	Calls    []Call   // store calls the operation made
	Fired    bool     // the plan's fault / crash fired
	Before   Mem      // memory before the move
	StBefore map[uint32]Rec
	PoolsB   []PoolInfo // configuration before the move
	PendB    []Event
	Deleted  map[string]string
	Undel    map[string]string
	Changed  bool
}

func firstCall(cs []Call, verb string) (string, bool) {
	for _, c := range cs {
		if c.Verb == verb {
			return c.Name, true
		}
	}
	return "", false
}

func callNames(cs []Call, verb string) []uint32 {
	var r []uint32
	seen := map[uint32]bool{}
	for _, c := range cs {
		if c.Verb == verb {
			if ip, ok := ParseU32(c.Name); ok && !seen[ip] {
				seen[ip] = true
				r = append(r, ip)
			}
		}
	}
	return r
}

func optIP(name string, ok bool) string {
	if !ok {
		return "-"
	}
	ip, good := ParseU32(name)
	if !good {
		return "-"
	}
	return fmt.Sprint(ip)
}

// completeOrder: observed prefix, then the remaining members in ascending order.
func completeOrder(observed []uint32, members []uint32) []uint32 {
	in := map[uint32]bool{}
	for _, m := range members {
		in[m] = true
	}
	seen := map[uint32]bool{}
	var r []uint32
	for _, o := range observed {
		if in[o] && !seen[o] {
			seen[o] = true
			r = append(r, o)
		}
	}
	rest := append([]uint32(nil), members...)
	sort.Slice(rest, func(i, j int) bool { return rest[i] < rest[j] })
	for _, m := range rest {
		if !seen[m] {
			seen[m] = true
			r = append(r, m)
		}
	}
	return r
}

// Exec runs one move against the real code and renders the driver line.
func (w *World) Exec(op Op) Step {
	st := Step{Op: op, Before: ReadMem(w.Ipam), StBefore: w.StoreMap(), PoolsB: w.Pools, PendB: append([]Event(nil), w.Pending...)}
	var err error
	var ips []net.IP
	crashed := false
	synced := 0
	var newConf []PoolInfo
	w.Deco.Arm(op.Plan)
	run := func(f func()) {
		out := hx.Guard(w.Timeout, func() {
			defer func() {
				if r := recover(); r != nil {
					if _, ok := r.(crashSignal); ok {
						crashed = true
						return
					}
					panic(r)
				}
			}()
			f()
		})
		if out != "ok" {
			if out == "hang" {
				st.Class = "hang"
			} else {
				st.Class = "panic"
				st.Impl = out
			}
		}
	}
	plan := op.Plan.String()
	switch op.Kind {
	case "conf":
		pools, derr := op.Conf.Decode()
		if derr != nil {
			st.Class, st.Impl, st.Line = "badconf", "badconf", "bad-conf"
			return st
		}
		newConf = InfoOf(pools)
		run(func() { err = w.Ipam.ConfigurePool(pools) })
	case "aspec":
		run(func() { err = w.Ipam.AllocateSpecificIP(op.Key, IPOf(op.IP), op.attr()) })
		if err == nil && !crashed {
			ips = []net.IP{IPOf(op.IP)}
		}
	case "asub":
		run(func() {
			var ip net.IP
			ip, err = w.Ipam.AllocateInSubnet(op.Key, subnetOf(op.Subnet), op.attr())
			if err == nil {
				ips = []net.IP{ip}
			}
		})
	case "akey":
		run(func() { err = w.Ipam.AllocateInSubnetWithKey(op.Key, op.New, op.Subnet, op.attr()) })
	case "arng":
		run(func() { ips, err = w.Ipam.AllocateInSubnetsAndIPRange(op.Key, subnetOf(op.Subnet), rangesOf(op.Ranges), op.attr()) })
	case "resv":
		run(func() { st.Changed, err = w.Ipam.ReserveIP(op.Key, op.New, op.attr()) })
	case "upd":
		run(func() { err = w.Ipam.UpdateAttr(op.Key, IPOf(op.IP), op.attr()) })
	case "rel":
		run(func() { err = w.Ipam.Release(op.Key, IPOf(op.IP)) })
	case "rels":
		m := map[string]string{}
		for _, e := range op.Req {
			m[IPStr(e.IP)] = e.Key
		}
		run(func() { st.Deleted, st.Undel, err = w.Ipam.ReleaseIPs(m) })
	case "admres":
		_, err = w.Store.GalaxyV1alpha1().FloatingIPs().Create(context.TODO(), objFor(op.IP, op.Key, op.Policy, true), metav1.CreateOptions{})
	case "admunres":
		o, gerr := w.Store.GalaxyV1alpha1().FloatingIPs().Get(context.TODO(), IPStr(op.IP), metav1.GetOptions{})
		if gerr != nil {
			err = gerr
		} else if _, lab := o.Labels[constant.ReserveFIPLabel]; !lab {
			err = fmt.Errorf("not a reservation")
		} else {
			err = w.Store.GalaxyV1alpha1().FloatingIPs().Delete(context.TODO(), IPStr(op.IP), metav1.DeleteOptions{})
		}
	case "deliver":
		if len(w.Pending) > 0 {
			run(func() { w.deliverOne() })
		}
	case "isync":
		run(func() { synced = w.InformerSync() })
	case "apisync":
		w.ApiCacheSync()
	case "restart":
		w.Restart()
	default:
		st.Class, st.Impl, st.Line = "badop", "badop", "bad-op-kind"
		return st
	}
	st.Calls = w.Deco.Calls()
	w.Deco.Arm(NoPlan())
	for _, c := range st.Calls {
		if c.Err == "injected" {
			st.Fired = true
		}
	}
	if crashed {
		st.Fired = true
	}
	for _, ip := range ips {
		st.IPs = append(st.IPs, U32(ip))
	}
	// result class
	if st.Class == "" {
		switch {
		case crashed:
			st.Class = "crashed"
		case err == nil:
			st.Class = "ok"
		case err == floatingip.ErrNoEnoughIP:
			st.Class = "noenough"
		default:
			st.Class = "mem"
			if op.Kind == "admres" || op.Kind == "admunres" {
				if c := classOf(err); c == "exists" || c == "notfound" {
					st.Class = c
				}
			}
			for _, c := range st.Calls {
				if c.Err != "" {
					st.Class = c.Err // the first failing store call is the one the operation returns
					break
				}
			}
		}
	}
	head := "ok"
	if st.Class != "ok" {
		head = "err:" + st.Class
	}
	// driver line (with the observed choice) and implementation output
	switch op.Kind {
	case "conf":
		var stale []uint32
		sorted := sortedInfo(newConf)
		for ip := range st.StBefore {
			if PoolOfIP(sorted, ip) == nil {
				stale = append(stale, ip)
			}
		}
		order := completeOrder(callNames(st.Calls, "delete"), stale)
		st.Line = fmt.Sprintf("conf %s %s %s", confLine(newConf), u32s(order), plan)
		st.Impl = head
		if st.Class == "ok" {
			w.Conf, w.Pools = op.Conf, sorted
		}
	case "aspec":
		st.Line = fmt.Sprintf("aspec %s %d %s %s %d %s", tilde(op.Key), op.IP, tilde(op.Node), tilde(op.UID), op.Policy, plan)
		st.Impl = head
		if st.Class == "ok" {
			st.Impl = head + " ips=" + u32s(st.IPs)
		}
	case "asub":
		n, ok := firstCall(st.Calls, "create")
		st.Line = fmt.Sprintf("asub %s %s %s %s %d %s %s", tilde(op.Key), op.Subnet, tilde(op.Node), tilde(op.UID), op.Policy, optIP(n, ok), plan)
		st.Impl = head
		if st.Class == "ok" {
			st.Impl = head + " ips=" + u32s(st.IPs)
		}
	case "akey":
		n, ok := firstCall(st.Calls, "get")
		st.Line = fmt.Sprintf("akey %s %s %s %s %s %d %s %s", tilde(op.Key), tilde(op.New), op.Subnet, tilde(op.Node), tilde(op.UID), op.Policy, optIP(n, ok), plan)
		st.Impl = head
		if st.Class == "ok" {
			if ip, good := ParseU32(n); good && ok {
				st.Impl = head + " ips=" + fmt.Sprint(ip)
			}
		}
	case "arng":
		ch := "-"
		if len(op.Ranges) == 0 {
			n, ok := firstCall(st.Calls, "create")
			ch = optIP(n, ok)
		}
		st.Line = fmt.Sprintf("arng %s %s %s %s %s %d %s %s", tilde(op.Key), op.Subnet, rangesLine(op.Ranges), tilde(op.Node), tilde(op.UID), op.Policy, ch, plan)
		st.Impl = head
		if st.Class == "ok" {
			st.Impl = head + " ips=" + u32s(st.IPs)
		}
	case "resv":
		var members []uint32
		for ip, r := range st.Before.Alloc {
			if r.Key == op.Key {
				members = append(members, ip)
			}
		}
		order := completeOrder(callNames(st.Calls, "get"), members)
		st.Line = fmt.Sprintf("resv %s %s %s %s %d %s %s", tilde(op.Key), tilde(op.New), tilde(op.Node), tilde(op.UID), op.Policy, u32s(order), plan)
		st.Impl = head
		if st.Class == "ok" {
			st.Impl = fmt.Sprintf("%s changed=%v", head, st.Changed)
		}
	case "upd":
		st.Line = fmt.Sprintf("upd %s %d %s %s %d %s", tilde(op.Key), op.IP, tilde(op.Node), tilde(op.UID), op.Policy, plan)
		st.Impl = head
	case "rel":
		st.Line = fmt.Sprintf("rel %s %d %s", tilde(op.Key), op.IP, plan)
		st.Impl = head
	case "rels":
		// processing order: the deletes in call order; entries whose reported key changed were visited before a
		// failing delete, the others are placed after it (visiting them changes nothing observable)
		dels := callNames(st.Calls, "delete")
		isDel := map[uint32]bool{}
		for _, d := range dels {
			isDel[d] = true
		}
		var early, late []ReqEnt
		for _, e := range op.Req {
			if isDel[e.IP] {
				continue
			}
			if v, ok := st.Undel[IPStr(e.IP)]; ok && v != e.Key {
				early = append(early, e)
			} else {
				late = append(late, e)
			}
		}
		keyOf := map[uint32]string{}
		for _, e := range op.Req {
			keyOf[e.IP] = e.Key
		}
		var seq []string
		for _, e := range early {
			seq = append(seq, fmt.Sprintf("%d=%s", e.IP, tilde(e.Key)))
		}
		for _, d := range dels {
			seq = append(seq, fmt.Sprintf("%d=%s", d, tilde(keyOf[d])))
		}
		for _, e := range late {
			seq = append(seq, fmt.Sprintf("%d=%s", e.IP, tilde(e.Key)))
		}
		st.Line = fmt.Sprintf("rels %s %s", dashJoin(seq, ","), plan)
		st.Impl = head
		if st.Class != "crashed" {
			st.Impl = fmt.Sprintf("%s deleted=%s undeleted=%s", head, pairs(st.Deleted), pairs(st.Undel))
		}
	case "admres":
		st.Line = fmt.Sprintf("admres %d %s %d", op.IP, tilde(op.Key), op.Policy)
		st.Impl = head
	case "admunres":
		st.Line = fmt.Sprintf("admunres %d", op.IP)
		st.Impl = head
	case "deliver":
		st.Line, st.Impl = "deliver", "delivered"
	case "isync":
		// for the model an informer sync is the delivery of every pending event (its reload reads the store, fact
		// reloadListsApiserver, so the informer's cache is not part of its state)
		var ls, is []string
		for i := 0; i < synced; i++ {
			ls, is = append(ls, "deliver"), append(is, "delivered")
		}
		st.Line, st.Impl = strings.Join(ls, "\n"), strings.Join(is, "\n")
	case "restart":
		st.Line, st.Impl = "restart", "ok"
	case "apisync":
		st.Line, st.Impl = "", "" // the model's reload reads the store (a consistent read): nothing to tell it
	}
	if st.Class == "crashed" {
		// the process died: a new one starts from the store
		st.Impl = "err:crashed"
		w.Restart()
	}
	w.enqueueWatch(st.StBefore, w.StoreMap())
	return st
}

// Restart: a new crdIpam (fresh caches, fresh informer) configured from the same store.
func (w *World) Restart() {
	w.boot()
	w.Pending = nil
	pools, err := w.Conf.Decode()
	if err != nil {
		panic(err)
	}
	if err := w.Ipam.ConfigurePool(pools); err != nil {
		panic(err)
	}
}

// ---- queries (read-only correspondence points) ---------------------------------------------------------------------

type Query struct {
	Kind   string        `json:"q"` // byprefix bykeyword byip first bykr nodesubnet nsbr
	Arg    string        `json:"arg,omitempty"`
	IP     uint32        `json:"ip,omitempty"`
	Ranges [][][2]uint32 `json:"ranges,omitempty"`
}

func infoStr(tag string, inf *floatingip.FloatingIPInfo) string {
	ip := U32(inf.FloatingIP.IP)
	bits, _ := inf.IPInfo.IP.Mask.Size()
	return fmt.Sprintf("%d:%s:%s|%d|%d|%d|%s", ip, tag, recOfFIP(&inf.FloatingIP), bits, U32(inf.IPInfo.Gateway), inf.IPInfo.Vlan,
		dashJoin(inf.NodeSubnets.List(), "+"))
}

// Ask runs a query against the real code; returns the driver line and the implementation's answer.
func (w *World) Ask(q Query) (line, impl string) {
	switch q.Kind {
	case "byprefix":
		l, _ := w.Ipam.ByPrefix(q.Arg)
		type ent struct {
			ip uint32
			s  string
		}
		var es []ent
		for _, inf := range l {
			es = append(es, ent{U32(inf.FloatingIP.IP), infoStr("X", inf)})
		}
		sort.Slice(es, func(i, j int) bool { return es[i].ip < es[j].ip || (es[i].ip == es[j].ip && es[i].s < es[j].s) })
		var ss []string
		for i, e := range es {
			if i > 0 && es[i-1].s == e.s {
				continue
			}
			ss = append(ss, e.s)
		}
		return "byprefix " + tilde(q.Arg), "[" + strings.Join(ss, ",") + "]"
	case "bykeyword":
		l, _ := w.Ipam.ByKeyword(q.Arg)
		sort.Slice(l, func(i, j int) bool { return U32(l[i].IP) < U32(l[j].IP) })
		var ss []string
		for i := range l {
			ss = append(ss, fmt.Sprintf("%d:%s", U32(l[i].IP), recOfFIP(&l[i])))
		}
		return "bykeyword " + tilde(q.Arg), "[" + strings.Join(ss, ",") + "]"
	case "byip":
		f, _ := w.Ipam.ByIP(IPOf(q.IP))
		if f.IP == nil {
			return fmt.Sprintf("byip %d", q.IP), "-"
		}
		return fmt.Sprintf("byip %d", q.IP), recOfFIP(&f).String()
	case "first":
		inf, _ := w.Ipam.First(q.Arg)
		if inf == nil {
			return fmt.Sprintf("first %s -", tilde(q.Arg)), "-"
		}
		return fmt.Sprintf("first %s %d", tilde(q.Arg), U32(inf.FloatingIP.IP)), infoStr("A", inf)
	case "bykr":
		l, _ := w.Ipam.ByKeyAndIPRanges(q.Arg, rangesOf(q.Ranges))
		var ss []string
		if len(q.Ranges) == 0 {
			var ips []uint32
			for _, inf := range l {
				ips = append(ips, U32(inf.FloatingIP.IP))
			}
			sort.Slice(ips, func(i, j int) bool { return ips[i] < ips[j] })
			for _, ip := range ips {
				ss = append(ss, fmt.Sprint(ip))
			}
		} else {
			for _, inf := range l {
				if inf == nil {
					ss = append(ss, "-")
				} else {
					ss = append(ss, fmt.Sprint(U32(inf.FloatingIP.IP)))
				}
			}
		}
		return fmt.Sprintf("bykr %s %s", tilde(q.Arg), rangesLine(q.Ranges)), "[" + strings.Join(ss, ",") + "]"
	case "nodesubnet":
		n := w.Ipam.NodeSubnet(IPOf(q.IP))
		if n == nil {
			return fmt.Sprintf("nodesubnet %d", q.IP), "-"
		}
		return fmt.Sprintf("nodesubnet %d", q.IP), n.String()
	case "nsbr":
		s, _ := w.Ipam.NodeSubnetsByIPRanges(rangesOf(q.Ranges))
		return "nsbr " + rangesLine(q.Ranges), dashJoin(s.List(), "+")
	}
	return "bad-query", "bad-query"
}
