package ipam

import (
	"encoding/json"
	"fmt"
	"sort"
	"strings"

	"gxverif/hx"
)

// Session: one history run against the real code, with everything needed to compare it with gxdrv_ipam.
type Session struct {
	W     *World
	Lines []string // driver input lines
	Impl  []string // what the implementation answered, same format as the driver's output
	Src   []string // replay lines (JSON ops / queries), index-aligned with Lines where a line has a source
	SrcAt []int    // Lines index -> Src index
	Steps []Step
	// Tainted: addresses for which the history left the environment assumption EnvOK (value "env")
	Tainted map[uint32]string
	// QueryFindings: failures of the query oracles (NodeSubnetsByIPRanges) found by Ask
	QueryFindings []Finding
}

func NewSession() *Session { return &Session{W: NewWorld(), Tainted: map[uint32]string{}} }

func (s *Session) add(line, impl string, src int) {
	s.Lines = append(s.Lines, line)
	s.Impl = append(s.Impl, impl)
	s.SrcAt = append(s.SrcAt, src)
}

// Do executes one move and records the move line and a dump line.
func (s *Session) Do(op Op) Step {
	if op.Kind == "admres" {
		// environment assumption of C05 (EnvOK): the administrator does not create a reservation for an address while a
		// watch event for that address is still on its way; histories which do are marked, not judged
		for _, e := range s.W.Pending {
			if e.IP == op.IP {
				s.Tainted[op.IP] = "env"
			}
		}
	}
	st := s.W.Exec(op)
	s.Src = append(s.Src, op.JSON())
	s.Steps = append(s.Steps, st)
	if st.Line != "" {
		ls, is := strings.Split(st.Line, "\n"), strings.Split(st.Impl, "\n")
		for i := range ls {
			s.add(ls[i], is[i], len(s.Src)-1)
		}
	}
	s.add("dump", s.W.Dump(), len(s.Src)-1)
	return st
}

func (s *Session) Ask(q Query) {
	line, impl := s.W.Ask(q)
	if q.Kind == "nsbr" {
		if want := ExpectNodeSubnets(ReadMem(s.W.Ipam), s.W.Pools, q.Ranges); want != impl {
			s.QueryFindings = append(s.QueryFindings, Finding{Sig: "node-subnets-by-ranges-wrong",
				What: fmt.Sprintf("NodeSubnetsByIPRanges(%s) = %s, the pools holding free addresses of the ranges list %s", rangesLine(q.Ranges), impl, want)})
		}
	}
	b := fmt.Sprintf(`{"q":%q,"arg":%q,"ip":%d,"ranges":%s}`, q.Kind, q.Arg, q.IP, rangesJSON(q.Ranges))
	s.Src = append(s.Src, b)
	s.add(line, impl, len(s.Src)-1)
}

func rangesJSON(rs [][][2]uint32) string {
	var ls []string
	for _, l := range rs {
		var x []string
		for _, r := range l {
			x = append(x, fmt.Sprintf("[%d,%d]", r[0], r[1]))
		}
		ls = append(ls, "["+strings.Join(x, ",")+"]")
	}
	return "[" + strings.Join(ls, ",") + "]"
}

// Mismatch: first line of a session where model and implementation differ.
type Mismatch struct {
	Session int
	Line    int
	In      string
	Impl    string
	Model   string
}

// Compare pipes all sessions through ONE driver process (separated by `reset`) and returns the first mismatch of
// every session that has one.
func Compare(e *hx.Env, ss []*Session) ([]Mismatch, error) {
	var in []string
	for _, s := range ss {
		in = append(in, "reset")
		in = append(in, s.Lines...)
	}
	if len(in) == 0 {
		return nil, nil
	}
	out, err := e.RunDriver("ipam", in)
	if err != nil {
		return nil, err
	}
	var ms []Mismatch
	pos := 0
	for si, s := range ss {
		pos++ // reset
		for i := range s.Lines {
			if out[pos+i] != s.Impl[i] {
				ms = append(ms, Mismatch{si, i, s.Lines[i], s.Impl[i], out[pos+i]})
				break
			}
		}
		pos += len(s.Lines)
	}
	return ms, nil
}

// ReplayLines re-runs a replay file's lines (JSON ops and queries) in a fresh session.
func ReplayLines(lines []string, each func(s *Session, st *Step)) (*Session, error) {
	s := NewSession()
	for _, l := range lines {
		if strings.Contains(l, `"q":`) {
			var q Query
			if err := jsonUnmarshal(l, &q); err != nil {
				return s, err
			}
			s.Ask(q)
			continue
		}
		op, err := ParseOp(l)
		if err != nil {
			return s, err
		}
		st := s.Do(op)
		if each != nil {
			each(s, &st)
		}
	}
	return s, nil
}

// ---- the C05 oracle: memory vs store vs a freshly started process ----------------------------------------------------

// Finding is one monitor failure.
type Finding struct {
	Sig  string
	What string
	IP   uint32
}

func pendingSet(p []Event) map[uint32]bool {
	m := map[uint32]bool{}
	for _, e := range p {
		m[e.IP] = true
	}
	return m
}

func configuredSet(ps []PoolInfo) map[uint32]bool {
	m := map[uint32]bool{}
	for _, p := range ps {
		for _, r := range p.Ranges {
			for x := uint64(r[0]); x <= uint64(r[1]); x++ {
				if p.Contains(uint32(x)) {
					m[uint32(x)] = true
				}
			}
		}
	}
	return m
}

// CheckAgree evaluates the statement of C05 on the real state: for every configured address without a pending watch
// event memory and store hold the same (key, policy, node, uid, reserved) or both nothing; free = configured \ allocated;
// nothing outside the configuration is in memory; a freshly started process reconstructs the same tables.
func (w *World) CheckAgree(opKind string, withRestart bool) []Finding {
	var fs []Finding
	m := ReadMem(w.Ipam)
	st := w.StoreMap()
	pend := pendingSet(w.Pending)
	conf := configuredSet(w.Pools)
	var cur uint32
	add := func(sig, what string) { fs = append(fs, Finding{sig, what, cur}) }
	for _, ip := range m.Dup {
		cur = ip
		add("ip-allocated-and-free:"+opKind, fmt.Sprintf("%s is in both cache tables", IPStr(ip)))
	}
	for ip := range conf {
		cur = ip
		if pend[ip] {
			continue
		}
		a, inA := m.Alloc[ip]
		s, inS := st[ip]
		switch {
		case inA && !inS:
			add("memory-without-store:"+opKind, fmt.Sprintf("%s allocated to %q in memory, no FloatingIP object", IPStr(ip), a.Key))
		case !inA && inS:
			add("store-without-memory:"+opKind, fmt.Sprintf("%s has FloatingIP object (key %q), free in memory", IPStr(ip), s.Key))
		case inA && inS && a != s:
			add("memory-store-differ:"+opKind, fmt.Sprintf("%s memory %v store %v", IPStr(ip), a, s))
		}
		if !inA && !m.Free[ip] {
			add("configured-ip-lost:"+opKind, fmt.Sprintf("%s neither allocated nor free", IPStr(ip)))
		}
		if inA && m.Free[ip] {
			add("ip-allocated-and-free:"+opKind, fmt.Sprintf("%s allocated and free", IPStr(ip)))
		}
	}
	for ip := range m.Alloc {
		cur = ip
		if !conf[ip] {
			add("unconfigured-in-memory:"+opKind, fmt.Sprintf("%s allocated but not configured", IPStr(ip)))
		}
	}
	for ip := range m.Free {
		cur = ip
		if !conf[ip] {
			add("unconfigured-in-memory:"+opKind, fmt.Sprintf("%s free but not configured", IPStr(ip)))
		}
	}
	if withRestart && len(fs) == 0 {
		fresh, err := w.FreshFrom()
		if err != nil {
			add("restart-failed:"+opKind, err.Error())
			return fs
		}
		for ip := range conf {
			cur = ip
			if pend[ip] {
				continue
			}
			a, inA := m.Alloc[ip]
			b, inB := fresh.Alloc[ip]
			if inA != inB || a != b || m.Free[ip] != fresh.Free[ip] {
				add("restart-differs:"+opKind, fmt.Sprintf("%s before restart %v/%v after %v/%v", IPStr(ip), inA, a, inB, b))
			}
		}
		for ip := range fresh.Alloc {
			cur = ip
			if !conf[ip] {
				add("restart-differs:"+opKind, fmt.Sprintf("%s allocated after restart but not configured", IPStr(ip)))
			}
		}
	}
	sort.Slice(fs, func(i, j int) bool { return fs[i].Sig+fs[i].What < fs[j].Sig+fs[j].What })
	return fs
}

// StaleEvent reports whether the watch event delivered by step st no longer described the store when it arrived
// (the object it announces was deleted / replaced meanwhile, or the address changed hands).
func StaleEvent(st *Step) bool {
	if st.Op.Kind != "deliver" || len(st.PendB) == 0 {
		return false
	}
	e := st.PendB[0]
	for _, o := range st.PendB[1:] {
		if o.IP == e.IP {
			return false // still pending afterwards: nothing is claimed about this address yet
		}
	}
	s, inS := st.StBefore[e.IP]
	a, inA := st.Before.Alloc[e.IP]
	if e.Assign {
		want := Rec{Key: e.Key, Policy: e.Policy, Reserved: true}
		if inA {
			return !(inS && a == s)
		}
		return !(inS && s == want)
	}
	return inS
}

func jsonUnmarshal(s string, v interface{}) error { return json.Unmarshal([]byte(s), v) }

// ExpectNodeSubnets is the oracle of NodeSubnetsByIPRanges written from its contract (C06): no ranges — the node subnets
// of every pool which still has a free address; otherwise, per range list, the node subnets of the pools holding a free
// address of the list (none: empty answer), intersected over the lists.  Pools are identified by the address, never by
// a position in a table.
func ExpectNodeSubnets(m Mem, pools []PoolInfo, ranges [][][2]uint32) string {
	subnetsOfFree := func(in func(ip uint32) bool) map[string]bool {
		set := map[string]bool{}
		for ip := range m.Free {
			if !in(ip) {
				continue
			}
			if p := PoolOfIP(pools, ip); p != nil {
				for _, n := range p.Subnets {
					set[n.Str] = true
				}
			}
		}
		return set
	}
	render := func(set map[string]bool) string {
		var l []string
		for k := range set {
			l = append(l, k)
		}
		sort.Strings(l)
		return dashJoin(l, "+")
	}
	if len(ranges) == 0 {
		return render(subnetsOfFree(func(uint32) bool { return true }))
	}
	var acc map[string]bool
	for i, l := range ranges {
		hasFree := false
		part := subnetsOfFree(func(ip uint32) bool {
			for _, r := range l {
				if r[0] <= ip && ip <= r[1] {
					hasFree = true
					return true
				}
			}
			return false
		})
		if !hasFree {
			return "-"
		}
		if i == 0 {
			acc = part
			continue
		}
		for k := range acc {
			if !part[k] {
				delete(acc, k)
			}
		}
	}
	return render(acc)
}

// LargeCase: ONE big topology for the limits of a LIST — a /22 pod subnet with a single range, n addresses of it
// allocated (directly through AllocateSpecificIP, recorded as replayable ops but without a model comparison per step),
// then the caller reloads / restarts.  Returns the session (Src = the replay) and the configuration.
func LargeCase(n int) (*Session, Conf) {
	s := NewSession()
	base := uint32(10<<24 | 30<<16)
	conf := Conf{{NodeSubnets: []string{"10.0.1.0/24"}, IPs: []string{IPStr(base+2) + "~" + IPStr(base+2+uint32(n)+9)},
		Subnet: IPStr(base) + "/22", Gateway: IPStr(base + 1)}}
	op := Op{Kind: "conf", Conf: conf, Plan: NoPlan()}
	s.Src = append(s.Src, op.JSON())
	s.W.Exec(op)
	for i := 0; i < n; i++ {
		a := Op{Kind: "aspec", Key: fmt.Sprintf("sts_ns1_big_big-%d", i), IP: base + 2 + uint32(i), Node: "n1", UID: "u1", Plan: NoPlan()}
		s.Src = append(s.Src, a.JSON())
		if err := s.W.Ipam.AllocateSpecificIP(a.Key, IPOf(a.IP), a.attr()); err != nil {
			panic(err)
		}
	}
	return s, conf
}

// ExecOnly runs a move on the session's world and records it for the replay, without lines for the model.
func (s *Session) ExecOnly(op Op) Step {
	s.Src = append(s.Src, op.JSON())
	return s.W.Exec(op)
}
