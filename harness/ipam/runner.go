package ipam

import (
	"fmt"
	"os"
	"path/filepath"
	"sort"
	"strings"

	"gxverif/hx"
)

// Runner: the bookkeeping shared by the c05 / c08 / c09 commands (sessions waiting for the driver comparison,
// violations de-duplicated by signature, replay files).
type Runner struct {
	E        *hx.Env
	R        *hx.Report
	Prop     string
	Sessions []*Session
	SigSeen  map[string]bool
}

func NewRunner(e *hx.Env, prop, rule string) *Runner {
	return &Runner{E: e, R: hx.NewReport(prop, e.Tier, e.Seed, rule), Prop: prop, SigSeen: map[string]bool{}}
}

func (rn *Runner) Violation(sig, what string, src []string) {
	if rn.SigSeen[sig] {
		return
	}
	rn.SigSeen[sig] = true
	name := strings.NewReplacer(":", "-", " ", "_", "/", "_").Replace(sig)
	p := rn.E.WriteReplay(rn.Prop, "history", name, []string{"signature=" + sig, what}, src)
	rn.R.Violations = append(rn.R.Violations, hx.Violation{Signature: sig, What: what, Replay: p, Ops: Tail(src, 6)})
}

func Tail(l []string, n int) []string {
	if len(l) > n {
		return l[len(l)-n:]
	}
	return l
}

// Keep queues a finished session for the comparison with gxdrv_ipam.
func (rn *Runner) Keep(s *Session) {
	for _, f := range s.QueryFindings {
		rn.Violation(f.Sig, f.What, s.Src)
	}
	rn.Sessions = append(rn.Sessions, s)
	if len(rn.Sessions) >= 200 {
		rn.Flush()
	}
}

// Flush compares the queued sessions with the driver.
func (rn *Runner) Flush() {
	if len(rn.Sessions) == 0 {
		return
	}
	ms, err := Compare(rn.E, rn.Sessions)
	if err != nil {
		rn.R.Disagree = append(rn.R.Disagree, hx.Disagreement{Where: "driver", Impl: "-", Model: err.Error()})
	}
	for _, m := range ms {
		if len(rn.R.Disagree) >= 10 {
			break
		}
		s := rn.Sessions[m.Session]
		src := s.Src[:s.SrcAt[m.Line]+1]
		p := rn.E.WriteReplay(rn.Prop, "history", fmt.Sprintf("disagree-%d", len(rn.R.Disagree)), []string{"line=" + m.In}, src)
		rn.R.Disagree = append(rn.R.Disagree, hx.Disagreement{Where: "ipam:" + strings.SplitN(m.In, " ", 2)[0], Index: m.Line,
			Impl: m.Impl, Model: m.Model, Replay: p, Ops: Tail(src, 6)})
	}
	rn.R.Traces += len(rn.Sessions)
	rn.Sessions = nil
}

// Note records the input distribution of one step.
func (rn *Runner) Note(st *Step) {
	r := rn.R
	r.Hit("op:" + st.Op.Kind)
	r.Hit("class:" + st.Op.Kind + ":" + st.Class)
	if !st.Op.Plan.Empty() {
		if st.Fired {
			r.Hit("plan-fired:" + st.Op.Kind)
		} else {
			r.Hit("plan-not-reached")
		}
	}
	if st.Op.Kind == "arng" {
		r.Hit(fmt.Sprintf("arng:k=%d", len(st.Op.Ranges)))
		for _, c := range st.Calls {
			if c.Verb == "delete" {
				r.Hit("branch:rollback")
				break
			}
		}
		for _, c := range st.Calls {
			if c.Err == "exists" {
				r.Hit("branch:create-conflict-with-reservation")
				break
			}
		}
	}
	if st.Op.Kind == "resv" && st.Fired && len(st.Calls) > 2 {
		r.Hit("branch:reserve-partial")
	}
	if st.Op.Kind == "rels" && st.Fired && len(st.Calls) > 1 {
		r.Hit("branch:releaseips-partial")
	}
	if st.Op.Kind == "deliver" && len(st.PendB) > 0 {
		if StaleEvent(st) {
			r.Hit("branch:stale-event")
		} else if st.PendB[0].Assign {
			r.Hit("branch:assign-event")
		} else {
			r.Hit("branch:unassign-event")
		}
	}
	if st.Op.Kind == "conf" || st.Op.Kind == "restart" {
		for _, p := range st.Op.Conf {
			if len(p.IPs) == 0 {
				r.Hit("conf:has-pool-without-ips")
				break
			}
		}
	}
	if st.Op.Kind == "conf" && st.Class == "ok" {
		for _, c := range st.Calls {
			if c.Verb == "delete" {
				r.Hit("branch:reload-drops-stored-ip")
				break
			}
		}
	}
}

// ReplayFile re-runs one replay / corpus file.
func (rn *Runner) ReplayFile(path string, each func(s *Session, st *Step)) {
	lines, err := hx.ReadOps(path)
	if err != nil {
		rn.R.Disagree = append(rn.R.Disagree, hx.Disagreement{Where: "replay", Impl: path, Model: err.Error()})
		return
	}
	if len(lines) > 0 && strings.HasPrefix(lines[0], "{\"kind\"") {
		// an obligation file written by ./check, nothing to run
		return
	}
	s, err := ReplayLines(lines, func(s *Session, st *Step) {
		rn.Note(st)
		if each != nil {
			each(s, st)
		}
	})
	if err != nil {
		rn.R.Disagree = append(rn.R.Disagree, hx.Disagreement{Where: "replay-parse", Impl: path, Model: err.Error()})
		return
	}
	rn.Keep(s)
	rn.R.Case(strings.Join(s.Src, "\n"), true)
	rn.R.Hit("corpus-file")
}

func CorpusFiles(prop string) []string {
	root := os.Getenv("VERIF_ROOT")
	if root == "" {
		root = "/verif"
	}
	fs, _ := filepath.Glob(filepath.Join(root, "corpus", prop, "*.ops"))
	sort.Strings(fs)
	return fs
}

// Prefix replays ops[:i] fault free in a new session; each is called after every step.
func Prefix(ops []Op, i int, each func(s *Session, st *Step)) *Session {
	s := NewSession()
	for _, op := range ops[:i] {
		op.Plan = NoPlan()
		st := s.Do(op)
		if each != nil {
			each(s, &st)
		}
	}
	return s
}

// StoreObjectsTouchedByFailure: "a failed allocation never deletes or changes a pre-existing store object" — the objects
// which existed before the step and are gone or different after it (st must be a failed, not crashed, allocation move).
func StoreObjectsTouchedByFailure(st *Step, after map[uint32]Rec) []Finding {
	var fs []Finding
	if !st.Op.IsAlloc() || st.Class == "ok" || st.Class == "crashed" || st.Class == "hang" || st.Class == "panic" {
		return nil
	}
	for _, ip := range SortedIPs(st.StBefore) {
		r := st.StBefore[ip]
		q, ok := after[ip]
		if ok && q == r {
			continue
		}
		sig := "failed-allocation-changed-store-object"
		if r.Reserved {
			sig = "reservation-deleted-by-rollback"
			if ok {
				sig = "reservation-changed-by-failed-allocation"
			}
		}
		fs = append(fs, Finding{Sig: sig, IP: ip, What: fmt.Sprintf("%s (%s, plan %s) failed, but the stored object %s (%v) is %s afterwards",
			st.Op.Kind, st.Class, st.Op.Plan, IPStr(ip), r, map[bool]string{true: fmt.Sprint(q), false: "gone"}[ok])})
	}
	return fs
}
