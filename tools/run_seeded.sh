#!/bin/bash
# tools/run_seeded.sh <seeded-dir> <property-id> [tier]
# Runs one check against a scratch copy of the repository with the seeded change applied, using a scratch
# copy of /verif (so neither /repo nor /verif's build state is disturbed while other work is going on).
# Prints the check's stdout and its exit code.  For the final record the same change is also run against
# /repo itself (git -C /repo apply; ./check; git -C /repo checkout -- .) — see DESIGN.md.
set -e
SD=$(realpath "$1"); PID=$2; TIER=${3:-quick}
W=$(mktemp -d /var/tmp/gxseed.XXXXXX)
trap 'git -C /repo worktree remove --force "$W/repo" >/dev/null 2>&1 || true; rm -rf "$W"' EXIT
git -C /repo worktree add --detach "$W/repo" HEAD >/dev/null 2>&1
# hook files may still be uncommitted in /repo while agents work: copy them
(cd /repo && find pkg cni cmd -name 'verif_hooks*.go' 2>/dev/null) | while read f; do mkdir -p "$W/repo/$(dirname $f)"; cp "/repo/$f" "$W/repo/$f"; done
git -C "$W/repo" apply "$SD/patch.diff"
mkdir -p "$W/verif"
rsync -a --exclude out --exclude evidence /verif/ "$W/verif/" 2>/dev/null || true
cd "$W/verif"
set +e
GALAXY_REPO="$W/repo" ./check "$PID" --tier "$TIER" 2>"$W/stderr.log"
rc=$?
echo "exit=$rc"
tail -5 "$W/stderr.log" | sed 's/^/  stderr: /'
# keep the replay the violation names, if any
mkdir -p /verif/out/seeded-replays
cp -r "$W/verif/out/replay/." /verif/out/seeded-replays/ 2>/dev/null || true
exit $rc
