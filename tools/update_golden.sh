#!/bin/bash
# Regenerates tools/factgen/golden/<area>/ from the CURRENT /repo (run on the unchanged tree before committing).
# The golden copy is only a fallback used when a translator fails on a changed source (see check: regenerate).
set -e
cd "$(dirname "$0")/.."
export GOFLAGS=-mod=mod GOPROXY=off GOSUMDB=off GOTOOLCHAIN=local CGO_ENABLED=0
mkdir -p out/bin
for d in tools/factgen/cmd/*/; do
  a=$(basename "$d")
  (cd tools/factgen && go build -o ../../out/bin/factgen_$a ./cmd/$a)
  rm -rf tools/factgen/golden/$a; mkdir -p tools/factgen/golden/$a
  ./out/bin/factgen_$a -repo "${GALAXY_REPO:-/repo}" -out tools/factgen/golden/$a || { echo "translator $a failed"; rm -rf tools/factgen/golden/$a; }
done
