// factgen regenerates Lean definitions and structural facts from the galaxy
// source tree (go/ast only, no type checking, stdlib only).  Each extractor
// lives in its own gen_*.go file and registers itself; it returns the files it
// wants written below lean/Galaxy/Generated/.  An extractor FAILS LOUDLY when
// the source no longer has the shape it knows how to translate: a failure makes
// the check report a broken obligation rather than silently keeping stale Lean.
package main

import (
	"flag"
	"fmt"
	"os"
	"path/filepath"
	"sort"
)

type extractor struct {
	name string
	run  func(repo string) (map[string]string, error)
}

var extractors []extractor

func register(name string, run func(repo string) (map[string]string, error)) {
	extractors = append(extractors, extractor{name, run})
}

func main() {
	repo := flag.String("repo", "/repo", "galaxy source tree")
	out := flag.String("out", "", "output directory (lean/Galaxy/Generated)")
	flag.Parse()
	if *out == "" {
		fmt.Fprintln(os.Stderr, "factgen: -out required")
		os.Exit(2)
	}
	sort.Slice(extractors, func(i, j int) bool { return extractors[i].name < extractors[j].name })
	failed := false
	for _, e := range extractors {
		files, err := e.run(*repo)
		if err != nil {
			fmt.Fprintf(os.Stderr, "factgen: extractor %s: %v\n", e.name, err)
			failed = true
			continue
		}
		for name, content := range files {
			if err := os.WriteFile(filepath.Join(*out, name), []byte(content), 0o644); err != nil {
				fmt.Fprintf(os.Stderr, "factgen: %v\n", err)
				failed = true
			}
		}
	}
	if failed {
		os.Exit(1)
	}
}
