module factgen

go 1.18
