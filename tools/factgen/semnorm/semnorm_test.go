package semnorm

import (
	"go/ast"
	"go/parser"
	"go/token"
	"reflect"
	"strings"
	"testing"
)

func nf(t *testing.T, src string) []string {
	t.Helper()
	fset := token.NewFileSet()
	f, err := parser.ParseFile(fset, "x.go", "package x\n"+src, parser.ParseComments)
	if err != nil {
		t.Fatal(err)
	}
	for _, d := range f.Decls {
		if fd, ok := d.(*ast.FuncDecl); ok {
			var out []string
			for _, e := range Analyze(fset, fd, nil) {
				out = append(out, e.String())
			}
			return out
		}
	}
	t.Fatal("no function")
	return nil
}

func same(t *testing.T, what, a, b string) {
	t.Helper()
	x, y := nf(t, a), nf(t, b)
	if !reflect.DeepEqual(x, y) {
		t.Errorf("%s: normal forms differ\n A: %s\n B: %s", what, strings.Join(x, "\n    "), strings.Join(y, "\n    "))
	}
}

func differ(t *testing.T, what, a, b string) {
	t.Helper()
	x, y := nf(t, a), nf(t, b)
	if reflect.DeepEqual(x, y) {
		t.Errorf("%s: normal forms must differ, both are\n    %s", what, strings.Join(x, "\n    "))
	}
}

const buildOrig = `func BuildCNIArgs(args map[string]string) string {
	var entries []string
	for k, v := range args {
		entries = append(entries, fmt.Sprintf("%s=%s", k, v))
	}
	return strings.Join(entries, ";")
}`

// harmless/H12
const buildH12 = `func BuildCNIArgs(args map[string]string) string {
	// the order of the entries is the (random) map iteration order
	entries := make([]string, 0, len(args))
	for key, val := range args {
		entries = append(entries, key+"="+val)
	}
	return strings.Join(entries, ";")
}`

func TestStringBuildingPreallocRename(t *testing.T) {
	same(t, "Sprintf = concatenation, pre-allocation, renamed loop variables", buildOrig, buildH12)
	same(t, "result through a named local", buildOrig, strings.Replace(buildOrig, `return strings.Join(entries, ";")`, "res := strings.Join(entries, \";\")\n\treturn res", 1))
	same(t, "index loop over a slice", `func f(xs []string) { for _, x := range xs { use(x) } }`, `func f(ys []string) { for i := range ys { use(ys[i]) } }`)
	differ(t, "changed join separator", buildOrig, strings.Replace(buildOrig, `";"`, `","`, 1))
	differ(t, "changed key/value separator", buildOrig, strings.Replace(buildOrig, `%s=%s`, `%s:%s`, 1))
	differ(t, "swapped operands", buildOrig, strings.Replace(buildH12, `key+"="+val`, `val+"="+key`, 1))
	differ(t, "non-empty initial slice", buildOrig, strings.Replace(buildH12, `make([]string, 0, len(args))`, `make([]string, 1)`, 1))
	same(t, "%d = strconv.Itoa", `func f(n int32) string { return fmt.Sprintf("eth%d", n) }`, `func f(idx int32) string { return "eth" + strconv.Itoa(int(idx)) }`)
}

const parseOrig = `func ParseCNIArgs(args string) (map[string]string, error) {
	kvMap := make(map[string]string)
	kvs := strings.Split(args, ";")
	if len(kvs) == 0 {
		return kvMap, fmt.Errorf("invalid args %s", args)
	}
	for _, kv := range kvs {
		part := strings.SplitN(kv, "=", 2)
		if len(part) != 2 {
			continue
		}
		kvMap[strings.TrimSpace(part[0])] = strings.TrimSpace(part[1])
	}
	return kvMap, nil
}`

func TestGuardsConjunctsInlining(t *testing.T) {
	nested := strings.Replace(parseOrig, "\t\tif len(part) != 2 {\n\t\t\tcontinue\n\t\t}\n\t\tkvMap[strings.TrimSpace(part[0])] = strings.TrimSpace(part[1])",
		"\t\tif len(part) == 2 {\n\t\t\tkey, val := strings.TrimSpace(part[0]), strings.TrimSpace(part[1])\n\t\t\tkvMap[key] = val\n\t\t}", 1)
	if nested == parseOrig {
		t.Fatal("replacement did not apply")
	}
	same(t, "guard clause = nested if, named locals inlined, error text ignored",
		parseOrig, strings.Replace(strings.Replace(nested, `"invalid args %s", args`, `"bad argument string %q", args`, 1), "kvMap", "m", -1))
	same(t, "!(a == b) = a != b", parseOrig, strings.Replace(parseOrig, "len(part) != 2", "!(len(part) == 2)", 1))
	differ(t, "dropped TrimSpace on the value", parseOrig, strings.Replace(parseOrig, "= strings.TrimSpace(part[1])", "= part[1]", 1))
	differ(t, "dropped guard", parseOrig, strings.Replace(parseOrig, "\t\tif len(part) != 2 {\n\t\t\tcontinue\n\t\t}\n", "", 1))
	differ(t, "SplitN count", parseOrig, strings.Replace(parseOrig, `"=", 2)`, `"=", 3)`, 1))
	same(t, "De Morgan guard (as in harmless/H16)",
		`func f(parts []string) { if len(parts) == 1 || len(parts) == 2 { use(parts[0]) } else { return } }`,
		`func f(ps []string) { if len(ps) != 1 && len(ps) != 2 { return }; cid := ps[0]; use(cid) }`)
	same(t, "a && b = nested ifs = two guards",
		`func f(a, b bool) { if a && b { act() } }`, `func f(x, y bool) { if !x { return }; if y { act() } }`)
	same(t, "logging is ignored", `func f(a bool) { if a { glog.Infof("x"); act() } }`, `func f(a bool) { if a { act() } }`)
	differ(t, "order of side effects", `func f() { a(); b() }`, `func f() { b(); a() }`)
	differ(t, "moved guard", `func f(c bool) { a(); if c { return }; b() }`, `func f(c bool) { if c { return }; a(); b() }`)
}

func TestSwitchAndElse(t *testing.T) {
	same(t, "switch on a tag = if / else-if chain",
		`func f(s string) int { switch s { case "a", "b": return 1; case "c": return 2; default: return 3 } }`,
		`func f(s string) int { if s == "a" || s == "b" { return 1 } else if s == "c" { return 2 } else { return 3 } }`)
	same(t, "else dropped after a returning branch",
		`func f(c bool) int { if c { return 1 } else { return 2 } }`, `func f(c bool) int { if c { return 1 }; return 2 }`)
	differ(t, "changed case constant",
		`func f(s string) int { switch s { case "a": return 1 }; return 0 }`, `func f(s string) int { switch s { case "b": return 1 }; return 0 }`)
	differ(t, "nil vs non-nil error", `func f() error { return nil }`, `func f() error { return fmt.Errorf("x") }`)
}

func TestIfInitAndMultiValue(t *testing.T) {
	same(t, "if-init = statement in front of the if",
		`func f(id string) bool { if c, err := inspect(id); err != nil { return false } else { return c.ok } }`,
		`func f(cid string) bool { c, err := inspect(cid); if err != nil { return false }; return c.ok }`)
}
