// Package semnorm normalises a Go function body so that translators can match its MEANING instead of its text
// (see /verif/harmless/NORMALISE.md).  A function is turned into an ordered list of Effects — the statements that
// do something (assignments to non-inlinable variables, calls with side effects, returns) — each with the loops it
// sits in and the SET of conditions under which it is reached.  On the way
//
//   - locals, parameters and loop variables are alpha-renamed ($0, $1, … for parameters and mutable locals; a range
//     key / value over X becomes key(X) / elem(X); `for i := range xs { … xs[i] … }` ≡ `for _, v := range xs`),
//   - single-assignment locals are inlined into their uses (also the results of `a, err := f()` as f(…)#0, f(…)#1),
//   - conditions become sorted sets of conjuncts: `a && b` ≡ nested ifs ≡ guard clauses (`if !c { continue }`),
//     negations are pushed inside (De Morgan, `!=` ≡ `!(==)`), `switch tag` ≡ if / else-if chain,
//   - string building is canonical: fmt.Sprintf("%s=%s", a, b) ≡ a + "=" + b ≡ concat(a, "=", b);
//     fmt.Sprintf("%d", n) ≡ strconv.Itoa(int(n)) ≡ itoa(n); make([]T, 0, n) ≡ []T{} ≡ `var s []T` ≡ empty([]T),
//   - comments, log statements and the text of error messages are dropped (that an error is returned is kept).
//
// What still differs after normalisation: operators, constants, operand order, a dropped or moved guard, the order of
// side-effecting statements, nil vs non-nil error results, arguments of side-effecting calls.
package semnorm

import (
	"bytes"
	"go/ast"
	"go/printer"
	"go/token"
	"sort"
	"strconv"
	"strings"
)

// Effect is one side-effecting statement of the normalised function.
type Effect struct {
	Loops []string // enclosing loops, outermost first: "range <X>" or "for"
	Conds []string // sorted set of conjuncts under which the statement is reached (within the innermost loop body
	// and the function body; conditions of statements that leave the function / loop earlier are included)
	Text string
}

func (e Effect) String() string {
	return "[" + strings.Join(e.Loops, " > ") + "] {" + strings.Join(e.Conds, " && ") + "} " + e.Text
}

type binding struct {
	expr ast.Expr // the defining expression (for condition normalisation), may be nil
	str  string
}

type norm struct {
	fset   *token.FileSet
	opaque map[string]string // mutable locals and parameters -> $n
	nextID int
	named  bool // the function has named results: a bare `return` returns them
	out    []Effect
	// Pure reports whether a call (by its printed callee) has no side effect worth recording.
	pure func(callee string) bool
}

type scope struct {
	env   map[string]binding
	loops []string
	conds []string
}

func (s scope) child() scope {
	e := make(map[string]binding, len(s.env))
	for k, v := range s.env {
		e[k] = v
	}
	return scope{env: e, loops: append([]string(nil), s.loops...), conds: append([]string(nil), s.conds...)}
}

func (s scope) with(conds []string) scope {
	c := s.child()
	c.conds = mergeConds(c.conds, conds)
	return c
}

func mergeConds(a, b []string) []string {
	set := map[string]bool{}
	for _, x := range a {
		set[x] = true
	}
	for _, x := range b {
		set[x] = true
	}
	out := make([]string, 0, len(set))
	for x := range set {
		out = append(out, x)
	}
	sort.Strings(out)
	return out
}

// DefaultPure: reads and pure library functions; everything else is recorded as an effect.
func DefaultPure(callee string) bool {
	for _, p := range []string{"strings.", "strconv.", "filepath.", "path.", "fmt.Sprintf", "fmt.Errorf", "errors.New", "net.Parse",
		"os.IsNotExist", "os.Getenv", "ioutil.ReadDir", "ioutil.ReadFile", "os.ReadDir", "os.ReadFile", "status.FromError",
		"apierrors.", "json.Marshal", "sets.NewString"} {
		if strings.HasPrefix(callee, p) {
			return true
		}
	}
	switch callee {
	case "len", "cap", "string", "int", "int32", "int64", "uint16", "uint32", "uint64", "byte", "append", "make", "new", "copy":
		return true
	}
	for _, s := range []string{".IsDir", ".Name", ".String", ".Code", ".Error", ".Get", ".Attrs", ".Type", ".To4", ".Has", ".List",
		"InspectContainer", ".shouldCleanup", ".Pods", ".CoreV1", ".Mask", ".Size", ".Contains", ".Equal", ".ToIPNet"} {
		if strings.HasSuffix(callee, s) {
			return true
		}
	}
	return false
}

func isLog(callee string) bool {
	return strings.HasPrefix(callee, "glog.") || strings.HasPrefix(callee, "klog.") || strings.HasPrefix(callee, "log.") ||
		strings.HasPrefix(callee, "fmt.Print") || strings.HasPrefix(callee, "fmt.Fprint")
}

// Analyze normalises a function.  pure may be nil (DefaultPure).
func Analyze(fset *token.FileSet, fd *ast.FuncDecl, pure func(string) bool) []Effect {
	if pure == nil {
		pure = DefaultPure
	}
	n := &norm{fset: fset, opaque: map[string]string{}, pure: pure}
	if fd.Recv != nil {
		for _, f := range fd.Recv.List {
			for _, nm := range f.Names {
				n.opaque[nm.Name] = "recv"
			}
		}
	}
	for _, f := range fd.Type.Params.List {
		for _, nm := range f.Names {
			n.fresh(nm.Name)
		}
	}
	if fd.Type.Results != nil {
		for _, f := range fd.Type.Results.List {
			for _, nm := range f.Names {
				n.fresh(nm.Name)
				n.named = true
			}
		}
	}
	// locals that are assigned with `=`, op=, ++/-- or whose address is taken can not be inlined
	ast.Inspect(fd.Body, func(x ast.Node) bool {
		switch s := x.(type) {
		case *ast.AssignStmt:
			if s.Tok != token.DEFINE {
				for _, l := range s.Lhs {
					if id, ok := l.(*ast.Ident); ok && id.Name != "_" {
						n.fresh(id.Name)
					}
				}
			}
		case *ast.IncDecStmt:
			if id, ok := s.X.(*ast.Ident); ok {
				n.fresh(id.Name)
			}
		case *ast.UnaryExpr:
			if s.Op == token.AND {
				if id, ok := s.X.(*ast.Ident); ok {
					n.fresh(id.Name)
				}
			}
		}
		return true
	})
	n.block(fd.Body.List, scope{env: map[string]binding{}})
	return n.out
}

func (n *norm) fresh(name string) {
	if _, ok := n.opaque[name]; !ok && name != "_" {
		n.opaque[name] = "$" + strconv.Itoa(n.nextID)
		n.nextID++
	}
}

func (n *norm) src(x ast.Node) string {
	var b bytes.Buffer
	printer.Fprint(&b, n.fset, x)
	return strings.Join(strings.Fields(b.String()), " ")
}

// assigned: conditions that mention a mutable variable are stale once it is assigned again.
func assigned(sc *scope, v string) {
	var keep []string
	for _, c := range sc.conds {
		stale := false
		for i := strings.Index(c, v); i >= 0; {
			end := i + len(v)
			if end == len(c) || c[end] < '0' || c[end] > '9' {
				stale = true
				break
			}
			j := strings.Index(c[end:], v)
			if j < 0 {
				break
			}
			i = end + j
		}
		if !stale {
			keep = append(keep, c)
		}
	}
	sc.conds = keep
}

// invalidate drops the conditions of sc that mention a mutable variable assigned by one of the effects out[from:]
// (a nested block that has just been analysed).
func (n *norm) invalidate(sc *scope, from int) {
	for _, e := range n.out[from:] {
		t := e.Text
		i := strings.Index(t, " = ")
		if j := strings.Index(t, "= "); j >= 0 && (i < 0 || j < i) {
			i = j
		}
		if i < 0 || !strings.HasPrefix(t, "$") {
			continue
		}
		for _, v := range strings.Split(t[:i], ",") {
			v = strings.TrimSpace(strings.TrimRight(strings.TrimSpace(v), "+-*/|&^%<>:"))
			if strings.HasPrefix(v, "$") && !strings.ContainsAny(v, ".[( ") {
				assigned(sc, v)
			}
		}
	}
}

func (n *norm) emit(sc scope, text string) {
	n.out = append(n.out, Effect{Loops: append([]string(nil), sc.loops...), Conds: append([]string(nil), sc.conds...), Text: text})
}

// ---------------------------------------------------------------------------------------------------- expressions

func (n *norm) callee(c *ast.CallExpr, sc scope) string { return n.expr(c.Fun, sc) }

func isErrCtor(callee string) bool { return callee == "fmt.Errorf" || callee == "errors.New" }

func (n *norm) isAlloc(e ast.Expr) bool {
	switch x := e.(type) {
	case *ast.CompositeLit, *ast.FuncLit:
		return true
	case *ast.UnaryExpr:
		return x.Op == token.AND
	case *ast.CallExpr:
		if id, ok := x.Fun.(*ast.Ident); ok && (id.Name == "make" || id.Name == "new") {
			return true
		}
	}
	return false
}

// parts flattens a string-building expression; ok=false when e is not one.
func (n *norm) parts(e ast.Expr, sc scope) ([]string, bool) {
	switch x := e.(type) {
	case *ast.ParenExpr:
		return n.parts(x.X, sc)
	case *ast.BasicLit:
		if x.Kind == token.STRING {
			return []string{x.Value}, true
		}
	case *ast.BinaryExpr:
		if x.Op == token.ADD {
			l, lok := n.parts(x.X, sc)
			r, rok := n.parts(x.Y, sc)
			if lok || rok {
				if !lok {
					l = []string{n.expr(x.X, sc)}
				}
				if !rok {
					r = []string{n.expr(x.Y, sc)}
				}
				return append(l, r...), true
			}
		}
	case *ast.CallExpr:
		if n.src(x.Fun) == "fmt.Sprintf" && len(x.Args) >= 1 {
			if bl, ok := x.Args[0].(*ast.BasicLit); ok && bl.Kind == token.STRING {
				f, err := strconv.Unquote(bl.Value)
				if err != nil {
					return nil, false
				}
				var out []string
				arg := 1
				lit := ""
				for i := 0; i < len(f); i++ {
					if f[i] != '%' {
						lit += string(f[i])
						continue
					}
					if i+1 >= len(f) {
						return nil, false
					}
					i++
					switch f[i] {
					case '%':
						lit += "%"
					case 's', 'v', 'd':
						if arg >= len(x.Args) {
							return nil, false
						}
						if lit != "" {
							out = append(out, strconv.Quote(lit))
							lit = ""
						}
						a := n.expr(x.Args[arg], sc)
						if f[i] == 'd' {
							a = "itoa(" + stripConv(a) + ")"
						}
						out = append(out, a)
						arg++
					default:
						return nil, false
					}
				}
				if lit != "" {
					out = append(out, strconv.Quote(lit))
				}
				if arg != len(x.Args) {
					return nil, false
				}
				return out, true
			}
		}
	case *ast.Ident:
		if b, ok := sc.env[x.Name]; ok && b.expr != nil {
			if p, ok := n.parts(b.expr, sc); ok {
				return p, true
			}
		}
	}
	return nil, false
}

func stripConv(a string) string {
	for _, c := range []string{"int(", "int64(", "int32(", "uint32(", "uint16("} {
		if strings.HasPrefix(a, c) && strings.HasSuffix(a, ")") {
			return a[len(c) : len(a)-1]
		}
	}
	return a
}

func concat(ps []string) string {
	// merge adjacent literals
	var out []string
	for _, p := range ps {
		if len(out) > 0 && strings.HasPrefix(p, `"`) && strings.HasPrefix(out[len(out)-1], `"`) {
			a, _ := strconv.Unquote(out[len(out)-1])
			b, _ := strconv.Unquote(p)
			out[len(out)-1] = strconv.Quote(a + b)
			continue
		}
		if strings.HasPrefix(p, "`") {
			if u, err := strconv.Unquote(p); err == nil {
				p = strconv.Quote(u)
			}
		}
		out = append(out, p)
	}
	if len(out) == 1 {
		return out[0]
	}
	return "concat(" + strings.Join(out, ", ") + ")"
}

func (n *norm) expr(e ast.Expr, sc scope) string {
	switch x := e.(type) {
	case nil:
		return ""
	case *ast.Ident:
		if b, ok := sc.env[x.Name]; ok {
			return b.str
		}
		if o, ok := n.opaque[x.Name]; ok {
			return o
		}
		return x.Name
	case *ast.BasicLit:
		if x.Kind == token.STRING {
			if u, err := strconv.Unquote(x.Value); err == nil {
				return strconv.Quote(u)
			}
		}
		return x.Value
	case *ast.ParenExpr:
		return n.expr(x.X, sc)
	case *ast.SelectorExpr:
		return n.expr(x.X, sc) + "." + x.Sel.Name
	case *ast.StarExpr:
		return "*" + n.expr(x.X, sc)
	case *ast.UnaryExpr:
		if x.Op == token.NOT {
			return strings.Join(n.conj(x.X, true, sc), " && ")
		}
		return x.Op.String() + n.expr(x.X, sc)
	case *ast.BinaryExpr:
		if x.Op == token.ADD {
			if p, ok := n.parts(x, sc); ok {
				return concat(p)
			}
		}
		if x.Op == token.LAND || x.Op == token.LOR {
			return strings.Join(n.conj(x, false, sc), " && ")
		}
		return n.operand(x.X, sc) + " " + x.Op.String() + " " + n.operand(x.Y, sc)
	case *ast.IndexExpr:
		xs, is := n.expr(x.X, sc), n.expr(x.Index, sc)
		if is == "key("+xs+")" {
			return "elem(" + xs + ")"
		}
		return xs + "[" + is + "]"
	case *ast.SliceExpr:
		return n.expr(x.X, sc) + "[" + n.expr(x.Low, sc) + ":" + n.expr(x.High, sc) + "]"
	case *ast.TypeAssertExpr:
		if x.Type == nil {
			return n.expr(x.X, sc) + ".(type)"
		}
		return n.expr(x.X, sc) + ".(" + n.src(x.Type) + ")"
	case *ast.KeyValueExpr:
		return n.expr(x.Key, sc) + ": " + n.expr(x.Value, sc)
	case *ast.CompositeLit:
		t := n.src(x.Type)
		if len(x.Elts) == 0 && strings.HasPrefix(t, "[]") {
			return "empty(" + t + ")"
		}
		var es []string
		for _, el := range x.Elts {
			es = append(es, n.expr(el, sc))
		}
		return t + "{" + strings.Join(es, ", ") + "}"
	case *ast.CallExpr:
		if p, ok := n.parts(x, sc); ok {
			return concat(p)
		}
		fun := n.expr(x.Fun, sc)
		if fun == "strconv.Itoa" && len(x.Args) == 1 {
			return "itoa(" + stripConv(n.expr(x.Args[0], sc)) + ")"
		}
		if fun == "make" && len(x.Args) >= 2 && strings.HasPrefix(n.src(x.Args[0]), "[]") && n.src(x.Args[1]) == "0" {
			return "empty(" + n.src(x.Args[0]) + ")"
		}
		if isErrCtor(fun) {
			return "error"
		}
		var as []string
		for i, a := range x.Args {
			if i == 0 && (fun == "make" || fun == "new") {
				as = append(as, n.src(a))
				continue
			}
			as = append(as, n.expr(a, sc))
		}
		if x.Ellipsis.IsValid() && len(as) > 0 {
			as[len(as)-1] += "..."
		}
		return fun + "(" + strings.Join(as, ", ") + ")"
	}
	return n.src(e)
}

func (n *norm) operand(e ast.Expr, sc scope) string {
	s := n.expr(e, sc)
	if _, ok := e.(*ast.BinaryExpr); ok && !strings.HasPrefix(s, "concat(") {
		return "(" + s + ")"
	}
	return s
}

var flip = map[token.Token]token.Token{token.EQL: token.NEQ, token.NEQ: token.EQL, token.LSS: token.GEQ, token.GEQ: token.LSS,
	token.GTR: token.LEQ, token.LEQ: token.GTR}

// conj returns the sorted set of conjuncts of e (negated when neg).
func (n *norm) conj(e ast.Expr, neg bool, sc scope) []string {
	switch x := e.(type) {
	case *ast.ParenExpr:
		return n.conj(x.X, neg, sc)
	case *ast.UnaryExpr:
		if x.Op == token.NOT {
			return n.conj(x.X, !neg, sc)
		}
	case *ast.Ident:
		if x.Name == "true" && neg {
			return []string{"false"}
		}
		if b, ok := sc.env[x.Name]; ok && b.expr != nil {
			if _, isCall := b.expr.(*ast.CallExpr); !isCall {
				return n.conj(b.expr, neg, sc)
			}
		}
	case *ast.BinaryExpr:
		switch {
		case (x.Op == token.LAND && !neg) || (x.Op == token.LOR && neg):
			return mergeConds(n.conj(x.X, neg, sc), n.conj(x.Y, neg, sc))
		case x.Op == token.LAND || x.Op == token.LOR:
			alts := []string{strings.Join(n.conj(x.X, neg, sc), " && "), strings.Join(n.conj(x.Y, neg, sc), " && ")}
			// flatten nested alternatives of the same kind
			var flat []string
			for _, a := range alts {
				if strings.HasPrefix(a, "or(") && strings.HasSuffix(a, ")") && !strings.Contains(a, " && ") {
					flat = append(flat, splitTop(a[3:len(a)-1])...)
				} else {
					flat = append(flat, a)
				}
			}
			sort.Strings(flat)
			return []string{"or(" + strings.Join(flat, " | ") + ")"}
		default:
			if f, ok := flip[x.Op]; ok {
				op := x.Op
				if neg {
					op = f
				}
				return []string{n.operand(x.X, sc) + " " + op.String() + " " + n.operand(x.Y, sc)}
			}
		}
	}
	s := n.expr(e, sc)
	if neg {
		return []string{"!" + s}
	}
	return []string{s}
}

func splitTop(s string) []string {
	var out []string
	depth, start := 0, 0
	for i := 0; i < len(s); i++ {
		switch s[i] {
		case '(', '[', '{':
			depth++
		case ')', ']', '}':
			depth--
		case '|':
			if depth == 0 && i > 0 && s[i-1] == ' ' {
				out = append(out, strings.TrimSpace(s[start:i]))
				start = i + 1
			}
		}
	}
	return append(out, strings.TrimSpace(s[start:]))
}

// ---------------------------------------------------------------------------------------------------- statements

func terminates(list []ast.Stmt) bool {
	if len(list) == 0 {
		return false
	}
	switch x := list[len(list)-1].(type) {
	case *ast.ReturnStmt:
		return true
	case *ast.BranchStmt:
		return x.Tok == token.CONTINUE || x.Tok == token.BREAK || x.Tok == token.GOTO
	case *ast.ExprStmt:
		if c, ok := x.X.(*ast.CallExpr); ok {
			if id, ok := c.Fun.(*ast.Ident); ok && id.Name == "panic" {
				return true
			}
		}
	case *ast.BlockStmt:
		return terminates(x.List)
	case *ast.IfStmt:
		if x.Else == nil {
			return false
		}
		switch e := x.Else.(type) {
		case *ast.BlockStmt:
			return terminates(x.Body.List) && terminates(e.List)
		case *ast.IfStmt:
			return terminates(x.Body.List) && terminates([]ast.Stmt{e})
		}
	}
	return false
}

// define binds the left-hand sides of `lhs := rhs` / `var lhs = rhs`.
func (n *norm) define(lhs []ast.Expr, rhs []ast.Expr, sc *scope) {
	name := func(e ast.Expr) string {
		if id, ok := e.(*ast.Ident); ok {
			return id.Name
		}
		return "_"
	}
	if len(rhs) == 1 && len(lhs) > 1 {
		s := n.expr(rhs[0], *sc)
		if c, ok := rhs[0].(*ast.CallExpr); ok {
			callee := n.callee(c, *sc)
			if !n.pure(callee) && !isLog(callee) {
				n.emit(*sc, "call "+s)
			}
		}
		for i, l := range lhs {
			nm := name(l)
			if nm == "_" {
				continue
			}
			if o, ok := n.opaque[nm]; ok {
				n.emit(*sc, o+" = "+s+"#"+strconv.Itoa(i))
				delete(sc.env, nm)
				assigned(sc, o)
				continue
			}
			sc.env[nm] = binding{str: s + "#" + strconv.Itoa(i)}
		}
		return
	}
	for i, l := range lhs {
		if i >= len(rhs) {
			break
		}
		nm := name(l)
		s := n.expr(rhs[i], *sc)
		if c, ok := rhs[i].(*ast.CallExpr); ok {
			callee := n.callee(c, *sc)
			if !n.pure(callee) && !isLog(callee) && !isErrCtor(callee) {
				n.emit(*sc, "call "+s)
			}
		}
		if nm == "_" {
			continue
		}
		if o, ok := n.opaque[nm]; ok {
			n.emit(*sc, o+" = "+s)
			delete(sc.env, nm)
			assigned(sc, o)
			continue
		}
		if n.isAlloc(rhs[i]) && !strings.HasPrefix(s, "empty(") {
			// an allocation has identity: keep the variable
			n.fresh(nm)
			n.emit(*sc, n.opaque[nm]+" = "+s)
			continue
		}
		sc.env[nm] = binding{expr: rhs[i], str: s}
	}
}

func (n *norm) block(list []ast.Stmt, sc scope) {
	sc = sc.child()
	for _, st := range list {
		n.stmt(st, &sc)
	}
}

func (n *norm) stmt(st ast.Stmt, sc *scope) {
	switch x := st.(type) {
	case *ast.EmptyStmt:
	case *ast.BlockStmt:
		n.block(x.List, *sc)
	case *ast.DeclStmt:
		gd, ok := x.Decl.(*ast.GenDecl)
		if !ok || gd.Tok != token.VAR {
			return
		}
		for _, spec := range gd.Specs {
			vs := spec.(*ast.ValueSpec)
			if len(vs.Values) > 0 {
				var lhs []ast.Expr
				for _, nm := range vs.Names {
					lhs = append(lhs, nm)
				}
				n.define(lhs, vs.Values, sc)
				continue
			}
			for _, nm := range vs.Names {
				zero := "zero(" + n.src(vs.Type) + ")"
				if strings.HasPrefix(n.src(vs.Type), "[]") {
					zero = "empty(" + n.src(vs.Type) + ")"
				}
				if o, ok := n.opaque[nm.Name]; ok {
					n.emit(*sc, o+" = "+zero)
					assigned(sc, o)
				} else {
					sc.env[nm.Name] = binding{str: zero}
				}
			}
		}
	case *ast.AssignStmt:
		if x.Tok == token.DEFINE {
			n.define(x.Lhs, x.Rhs, sc)
			return
		}
		var ls, rs []string
		for _, l := range x.Lhs {
			ls = append(ls, n.expr(l, *sc))
		}
		for _, r := range x.Rhs {
			rs = append(rs, n.expr(r, *sc))
		}
		n.emit(*sc, strings.Join(ls, ", ")+" "+x.Tok.String()+" "+strings.Join(rs, ", "))
		for _, l := range ls {
			if strings.HasPrefix(l, "$") {
				assigned(sc, l)
			}
		}
	case *ast.IncDecStmt:
		n.emit(*sc, n.expr(x.X, *sc)+x.Tok.String())
	case *ast.ExprStmt:
		if c, ok := x.X.(*ast.CallExpr); ok {
			if isLog(n.callee(c, *sc)) {
				return
			}
		}
		n.emit(*sc, n.expr(x.X, *sc))
	case *ast.DeferStmt:
		if isLog(n.callee(x.Call, *sc)) {
			return
		}
		n.emit(*sc, "defer "+n.expr(x.Call, *sc))
	case *ast.GoStmt:
		n.emit(*sc, "go "+n.expr(x.Call, *sc))
	case *ast.ReturnStmt:
		if len(x.Results) == 0 && !n.named {
			return // leaving a function without results early only shows in the conditions of what follows
		}
		var rs []string
		for _, r := range x.Results {
			rs = append(rs, n.expr(r, *sc))
		}
		n.emit(*sc, strings.TrimSpace("return "+strings.Join(rs, ", ")))
	case *ast.BranchStmt:
		if x.Tok != token.CONTINUE || x.Label != nil {
			n.emit(*sc, n.src(x))
		}
	case *ast.IfStmt:
		n.ifStmt(x, sc)
	case *ast.SwitchStmt:
		n.switchStmt(x, sc)
	case *ast.RangeStmt:
		in := sc.child()
		xs := n.expr(x.X, in)
		in.loops = append(in.loops, "range "+xs)
		in.conds = nil
		// conditions established before the loop still hold inside; keep them so that a guard in front of a loop counts
		in.conds = append([]string(nil), sc.conds...)
		if id, ok := x.Key.(*ast.Ident); ok && id.Name != "_" {
			if _, op := n.opaque[id.Name]; !op {
				in.env[id.Name] = binding{str: "key(" + xs + ")"}
			}
		}
		if id, ok := x.Value.(*ast.Ident); ok && id.Name != "_" {
			if _, op := n.opaque[id.Name]; !op {
				in.env[id.Name] = binding{str: "elem(" + xs + ")"}
			}
		}
		from := len(n.out)
		n.block(x.Body.List, in)
		n.invalidate(sc, from)
	case *ast.ForStmt:
		in := sc.child()
		if x.Init != nil {
			n.stmt(x.Init, &in)
		}
		label := "for"
		if x.Cond != nil {
			label += " " + strings.Join(n.conj(x.Cond, false, in), " && ")
		}
		in.loops = append(in.loops, label)
		from := len(n.out)
		n.block(x.Body.List, in)
		n.invalidate(sc, from)
	default:
		n.emit(*sc, "untranslated: "+n.src(st))
	}
}

func (n *norm) ifStmt(x *ast.IfStmt, sc *scope) {
	// the init statement's bindings are visible in both branches only; when nothing follows that could see a stale
	// name this is the same as a separate statement in front of the if — bind in the current scope
	if x.Init != nil {
		n.stmt(x.Init, sc)
	}
	pos := n.conj(x.Cond, false, *sc)
	negc := n.conj(x.Cond, true, *sc)
	from := len(n.out)
	n.block(x.Body.List, sc.with(pos))
	thenT := terminates(x.Body.List)
	elseT := false
	switch e := x.Else.(type) {
	case *ast.BlockStmt:
		n.block(e.List, sc.with(negc))
		elseT = terminates(e.List)
	case *ast.IfStmt:
		es := sc.with(negc)
		n.ifStmt(e, &es)
		elseT = terminates([]ast.Stmt{e})
	}
	switch {
	case thenT && !elseT:
		sc.conds = mergeConds(sc.conds, negc)
	case elseT && !thenT:
		sc.conds = mergeConds(sc.conds, pos)
	}
	n.invalidate(sc, from)
}

func (n *norm) switchStmt(x *ast.SwitchStmt, sc *scope) {
	if x.Init != nil {
		n.stmt(x.Init, sc)
	}
	var prevNeg []string
	var deflt *ast.CaseClause
	allTerm := true
	from := len(n.out)
	defer func() { n.invalidate(sc, from) }()
	for _, cl := range x.Body.List {
		cc := cl.(*ast.CaseClause)
		if cc.List == nil {
			deflt = cc
			continue
		}
		// the case condition as an expression: tag == a || tag == b
		var cond ast.Expr
		for _, v := range cc.List {
			var c ast.Expr = v
			if x.Tag != nil {
				c = &ast.BinaryExpr{X: x.Tag, Op: token.EQL, Y: v}
			}
			if cond == nil {
				cond = c
			} else {
				cond = &ast.BinaryExpr{X: cond, Op: token.LOR, Y: c}
			}
		}
		in := sc.with(mergeConds(prevNeg, n.conj(cond, false, *sc)))
		n.block(cc.Body, in)
		if !terminates(cc.Body) {
			allTerm = false
		}
		prevNeg = mergeConds(prevNeg, n.conj(cond, true, *sc))
	}
	if deflt != nil {
		n.block(deflt.Body, sc.with(prevNeg))
		if !terminates(deflt.Body) {
			allTerm = false
		}
	} else if allTerm && len(x.Body.List) > 0 {
		// every case leaves: what follows runs only when no case matched
		sc.conds = mergeConds(sc.conds, prevNeg)
	}
}
