package main

import (
	"strings"
	"testing"
)

// A miniature of the plugin side: getSubnet / getAvailableSubnet / allocateDuringFilter / getDpReplicas / LockDpPool.
const plugBase = `package schedulerplugin

func (p *FloatingIPPlugin) getSubnet(pod *corev1.Pod) (sets.String, error) {
	keyObj, err := util.FormatKey(pod)
	if err != nil {
		return nil, err
	}
	policy := parseReleasePolicy(&pod.ObjectMeta)
	var replicas int
	var isPoolSizeDefined bool
	//LOCK-BEGIN
	if keyObj.Deployment() {
		replicas, isPoolSizeDefined, err = p.getDpReplicas(keyObj)
		if err != nil {
			return nil, err
		}
		defer p.LockDpPool(keyObj.PoolPrefix())()
	}
	//LOCK-END
	subnetSet, reserve, err := p.getAvailableSubnet(keyObj, policy, replicas, isPoolSizeDefined, nil)
	if err != nil {
		return nil, err
	}
	//ALLOC-BEGIN
	if (reserve || isPoolSizeDefined) && subnetSet.Len() > 0 {
		reserveSubnet := subnetSet.List()[0]
		subnetSet = sets.NewString(reserveSubnet)
		if err := p.allocateDuringFilter(keyObj, reserve, isPoolSizeDefined, reserveSubnet, policy, string(pod.UID)); err != nil {
			return nil, err
		}
	}
	//ALLOC-END
	return subnetSet, nil
}

func (p *FloatingIPPlugin) allocateDuringFilter(keyObj *util.KeyObj, reserve, isPoolSizeDefined bool, reserveSubnet string,
	policy constant.ReleasePolicy, uid string) error {
	attr := floatingip.Attr{Policy: policy, NodeName: "", Uid: uid}
	if reserve {
		if err := p.allocateInSubnetWithKey(keyObj.PoolPrefix(), keyObj.KeyInDB, reserveSubnet, attr, "filter"); err != nil {
			return err
		}
	} else if isPoolSizeDefined {
		_, ipNet, err := net.ParseCIDR(reserveSubnet)
		if err != nil {
			return err
		}
		if err := p.allocateInSubnet(keyObj.KeyInDB, ipNet, attr, "filter"); err != nil {
			return err
		}
	}
	return nil
}

func (p *FloatingIPPlugin) getAvailableSubnet(keyObj *util.KeyObj, policy constant.ReleasePolicy, replicas int,
	isPoolSizeDefined bool, ipranges [][]nets.IPRange) (subnets sets.String, reserve bool, err error) {
	if keyObj.Deployment() && policy != constant.ReleasePolicyPodDelete {
		var ips []*floatingip.FloatingIPInfo
		poolPrefix := keyObj.PoolPrefix()
		poolAppPrefix := keyObj.PoolAppPrefix()
		ips, err = p.ipam.ByPrefix(poolPrefix)
		if err != nil {
			return
		}
		usedCount := 0
		unusedSubnetSet := sets.NewString()
		//LOOP-BEGIN
		for _, ip := range ips {
			if ip.Key != poolPrefix {
				if isPoolSizeDefined || keyObj.PoolName == "" {
					usedCount++
				} else {
					if strings.HasPrefix(ip.Key, poolAppPrefix) {
						usedCount++
					}
				}
			} else {
				unusedSubnetSet.Insert(ip.NodeSubnets.UnsortedList()...)
			}
		}
		//LOOP-END
		//CMP-BEGIN
		if usedCount >= replicas {
			if isPoolSizeDefined {
				return nil, false, fmt.Errorf("reached pool %s size limit of %d", keyObj.PoolName, replicas)
			}
			return nil, false, fmt.Errorf("wait for releasing")
		}
		//CMP-END
		if unusedSubnetSet.Len() > 0 {
			return unusedSubnetSet, true, nil
		}
	}
	return
}

func (p *FloatingIPPlugin) getDpReplicas(keyObj *util.KeyObj) (int, bool, error) {
	if keyObj.PoolName != "" {
		pool, err := p.PoolLister.Pools("kube-system").Get(keyObj.PoolName)
		if err == nil {
			return pool.Size, true, nil
		} else {
			if !metaErrs.IsNotFound(err) {
				return 0, false, err
			}
		}
	}
	replicas, err := p.getReplicasOfDeployment(keyObj)
	if err != nil {
		return 0, false, err
	}
	return replicas, false, nil
}

func (p *FloatingIPPlugin) LockDpPool(poolName string) func() {
	p.dpLockPool.LockKey(poolName)
	return func() {
		_ = p.dpLockPool.UnlockKey(poolName)
	}
}
//EXTRA
`

// between replaces the text between the markers //TAG-BEGIN and //TAG-END.
func between(t *testing.T, src, tag, repl string) string {
	a, b := strings.Index(src, "//"+tag+"-BEGIN"), strings.Index(src, "//"+tag+"-END")
	if a < 0 || b < 0 {
		t.Fatalf("marker %s missing", tag)
	}
	return src[:a] + repl + src[b:]
}

func facts(t *testing.T, src string) *filterFacts {
	pkg, err := pkgFromSrc(src)
	if err != nil {
		t.Fatal(err)
	}
	ff, err := analyseFilter(pkg)
	if err != nil {
		t.Fatal(err)
	}
	return ff
}

func allGood(ff *filterFacts) bool {
	return ff.locksBeforeCount && ff.lockForDeployments && ff.holdsAcrossAlloc && ff.sizeBeforeLock && ff.keyIsPodKey &&
		ff.countsLockedPrefix && ff.allocCondOK && ff.adfShape && ff.countsAll && ff.sizeFromPool && ff.keyedMutex &&
		ff.cmpOp == ">=" && ff.lockKind == "PoolPrefix"
}

func TestBaseShape(t *testing.T) {
	if ff := facts(t, plugBase); !allGood(ff) {
		t.Fatalf("base: %+v", ff)
	}
}

// behaviour-preserving rewrites: every fact stays what it was
func TestHarmlessRewrites(t *testing.T) {
	cases := map[string]string{
		// H24: guard + continue, the two branches merged into one `||`
		"guard-continue-merged-or": between(t, plugBase, "LOOP", `for _, ip := range ips {
			if ip.Key == poolPrefix {
				unusedSubnetSet.Insert(ip.NodeSubnets.UnsortedList()...)
				continue
			}
			if isPoolSizeDefined || keyObj.PoolName == "" || strings.HasPrefix(ip.Key, poolAppPrefix) {
				usedCount++
			}
		}
		`),
		// index loop, renamed locals, a hoisted element, a named boolean, `x += 1`
		"index-loop-renamed-named-bool": between(t, plugBase, "LOOP", `for i := range ips {
			rec := ips[i]
			bare := rec.Key == poolPrefix
			countsAll := keyObj.PoolName == "" || isPoolSizeDefined
			if !bare && (countsAll || strings.HasPrefix(rec.Key, poolAppPrefix)) {
				usedCount += 1
			} else if bare {
				unusedSubnetSet.Insert(rec.NodeSubnets.UnsortedList()...)
			}
		}
		`),
		// switch instead of the if chain
		"switch": between(t, plugBase, "LOOP", `for _, ip := range ips {
			switch {
			case ip.Key == poolPrefix:
				unusedSubnetSet.Insert(ip.NodeSubnets.UnsortedList()...)
			case isPoolSizeDefined, keyObj.PoolName == "":
				usedCount++
			case strings.HasPrefix(ip.Key, poolAppPrefix):
				usedCount++
			}
		}
		`),
		// the locals of the prefixes inlined
		"inlined-prefix": strings.NewReplacer("ByPrefix(poolPrefix)", "ByPrefix(keyObj.PoolPrefix())",
			"ip.Key != poolPrefix", "ip.Key != keyObj.PoolPrefix()",
			"strings.HasPrefix(ip.Key, poolAppPrefix)", "strings.HasPrefix(ip.Key, keyObj.PoolAppPrefix())").Replace(plugBase),
		// operands swapped, negated comparison, else dropped after return
		"cmp-flipped": between(t, plugBase, "CMP", `if !(usedCount < replicas) {
			if !isPoolSizeDefined {
				return nil, false, fmt.Errorf("another text")
			} else {
				return nil, false, fmt.Errorf("size")
			}
		}
		`),
		"cmp-le": between(t, plugBase, "CMP", `if replicas <= usedCount {
			return nil, false, fmt.Errorf("x")
		}
		`),
		// the allocation condition as a guard clause with De Morgan and a length test against 0
		"alloc-guard": between(t, plugBase, "ALLOC", `if (!reserve && !isPoolSizeDefined) || subnetSet.Len() == 0 {
		return subnetSet, nil
	}
	reserveSubnet := subnetSet.List()[0]
	subnetSet = sets.NewString(reserveSubnet)
	if err := p.allocateDuringFilter(keyObj, reserve, isPoolSizeDefined, reserveSubnet, policy, string(pod.UID)); err != nil {
		return nil, err
	}
	`),
		// allocateDuringFilter inlined into getSubnet
		"alloc-inlined": between(t, plugBase, "ALLOC", `if (reserve || isPoolSizeDefined) && subnetSet.Len() > 0 {
		reserveSubnet := subnetSet.List()[0]
		subnetSet = sets.NewString(reserveSubnet)
		attr := floatingip.Attr{Policy: policy, NodeName: "", Uid: string(pod.UID)}
		if reserve {
			if err := p.allocateInSubnetWithKey(keyObj.PoolPrefix(), keyObj.KeyInDB, reserveSubnet, attr, "filter"); err != nil {
				return nil, err
			}
		} else if isPoolSizeDefined {
			_, ipNet, err := net.ParseCIDR(reserveSubnet)
			if err != nil {
				return nil, err
			}
			if err := p.allocateInSubnet(keyObj.KeyInDB, ipNet, attr, "filter"); err != nil {
				return nil, err
			}
		}
	}
	`),
		// the lock key through a local, the key object renamed
		"lock-key-local": strings.Replace(strings.Replace(plugBase, "defer p.LockDpPool(keyObj.PoolPrefix())()",
			"lockKey := keyObj.PoolPrefix()\n\t\tdefer p.LockDpPool(lockKey)()", 1), "//EXTRA", "", 1),
	}
	for name, src := range cases {
		if ff := facts(t, src); !allGood(ff) {
			t.Errorf("%s: %+v", name, ff)
		}
	}
}

// changes of behaviour: the fact concerned flips (and only a flipped fact breaks a theorem)
func TestBreakingChanges(t *testing.T) {
	type tc struct {
		src  string
		flip func(ff *filterFacts) bool
	}
	cases := map[string]tc{
		"gt-instead-of-ge": {strings.Replace(plugBase, "usedCount >= replicas", "usedCount > replicas", 1),
			func(ff *filterFacts) bool { return ff.cmpOp == ">" }},
		"no-refusal": {between(t, plugBase, "CMP", `if usedCount >= replicas {
			glog.Infof("full")
		}
		`), func(ff *filterFacts) bool { return ff.cmpOp == "no-refusal" }},
		// seeded C07-2: the sized case dropped from the counting rule
		"own-only": {between(t, plugBase, "LOOP", `for _, ip := range ips {
			if ip.Key == poolPrefix {
				unusedSubnetSet.Insert(ip.NodeSubnets.UnsortedList()...)
			} else if strings.HasPrefix(ip.Key, poolAppPrefix) {
				usedCount++
			}
		}
		`), func(ff *filterFacts) bool { return !ff.countsAll }},
		"guard-dropped": {strings.Replace(plugBase, "if ip.Key != poolPrefix {", "if true {", 1),
			func(ff *filterFacts) bool { return !ff.countsAll }},
		"and-instead-of-or": {strings.Replace(plugBase, `isPoolSizeDefined || keyObj.PoolName == ""`, `isPoolSizeDefined && keyObj.PoolName == ""`, 1),
			func(ff *filterFacts) bool { return !ff.countsAll }},
		// the count moved in front of the lock
		"count-before-lock": {strings.Replace(between(t, plugBase, "LOCK", ""), "\tif err != nil {\n\t\treturn nil, err\n\t}\n\t//ALLOC-BEGIN",
			`	if err != nil {
		return nil, err
	}
	if keyObj.Deployment() {
		replicas, isPoolSizeDefined, err = p.getDpReplicas(keyObj)
		defer p.LockDpPool(keyObj.PoolPrefix())()
	}
	//ALLOC-BEGIN`, 1), func(ff *filterFacts) bool { return !ff.locksBeforeCount }},
		"lock-other-string": {strings.Replace(plugBase, "p.LockDpPool(keyObj.PoolPrefix())", "p.LockDpPool(keyObj.PoolName)", 1),
			func(ff *filterFacts) bool { return ff.lockKind == "PoolName" && !ff.countsLockedPrefix }},
		"lock-extra-guard": {strings.Replace(plugBase, "\t\tdefer p.LockDpPool(keyObj.PoolPrefix())()",
			"\t\tif isPoolSizeDefined {\n\t\t\tdefer p.LockDpPool(keyObj.PoolPrefix())()\n\t\t}", 1),
			func(ff *filterFacts) bool { return !ff.lockForDeployments && !ff.locksBeforeCount }},
		"lock-in-helper": {strings.Replace(strings.Replace(plugBase, "\t\tdefer p.LockDpPool(keyObj.PoolPrefix())()", "\t\tp.lockIt(keyObj)", 1),
			"//EXTRA", "func (p *FloatingIPPlugin) lockIt(keyObj *util.KeyObj) {\n\tdefer p.LockDpPool(keyObj.PoolPrefix())()\n}\n", 1),
			func(ff *filterFacts) bool { return !ff.locksBeforeCount && !ff.holdsAcrossAlloc }},
		"alloc-cond-without-reserve": {strings.Replace(plugBase, "(reserve || isPoolSizeDefined) && subnetSet.Len() > 0", "isPoolSizeDefined && subnetSet.Len() > 0", 1),
			func(ff *filterFacts) bool { return !ff.allocCondOK }},
		"alloc-extra-guard": {strings.Replace(plugBase, "(reserve || isPoolSizeDefined) && subnetSet.Len() > 0",
			"(reserve || isPoolSizeDefined) && subnetSet.Len() > 0 && policy != constant.ReleasePolicyNever", 1),
			func(ff *filterFacts) bool { return !ff.allocCondOK }},
		"alloc-other-key": {strings.Replace(plugBase, "p.allocateInSubnet(keyObj.KeyInDB,", "p.allocateInSubnet(keyObj.PoolPrefix(),", 1),
			func(ff *filterFacts) bool { return !ff.adfShape }},
		"size-read-after-lock": {strings.Replace(strings.Replace(plugBase, "\t\tdefer p.LockDpPool(keyObj.PoolPrefix())()\n", "", 1),
			"\t\treplicas, isPoolSizeDefined, err = p.getDpReplicas(keyObj)", "\t\tdefer p.LockDpPool(keyObj.PoolPrefix())()\n\t\treplicas, isPoolSizeDefined, err = p.getDpReplicas(keyObj)", 1),
			func(ff *filterFacts) bool { return !ff.sizeBeforeLock }},
		"unlock-other-key": {strings.Replace(plugBase, "p.dpLockPool.UnlockKey(poolName)", `p.dpLockPool.UnlockKey("x")`, 1),
			func(ff *filterFacts) bool { return !ff.keyedMutex }},
		"size-not-from-pool": {strings.Replace(plugBase, "return pool.Size, true, nil", "return pool.Size, false, nil", 1),
			func(ff *filterFacts) bool { return !ff.sizeFromPool }},
	}
	for name, c := range cases {
		ff := facts(t, c.src)
		if allGood(ff) || !c.flip(ff) {
			t.Errorf("%s: not noticed: %+v", name, ff)
		}
	}
}

// extracted helpers are looked into: the ByPrefix call behind a one-line helper, the refusal test in a helper
func TestHelpers(t *testing.T) {
	src := strings.Replace(plugBase, "//EXTRA", `
func (p *FloatingIPPlugin) ipsOf(prefix string) ([]*floatingip.FloatingIPInfo, error) {
	return p.ipam.ByPrefix(prefix)
}
`, 1)
	src = strings.Replace(src, "ips, err = p.ipam.ByPrefix(poolPrefix)", "ips, err = p.ipsOf(poolPrefix)", 1)
	if ff := facts(t, src); !allGood(ff) {
		t.Errorf("one-line helper: %+v", ff)
	}
	// ... and when the helper counts under another prefix the fact flips
	src = strings.Replace(src, "return p.ipam.ByPrefix(prefix)", "return p.ipam.ByPrefix(prefix + \"x\")", 1)
	if ff := facts(t, src); ff.countsLockedPrefix {
		t.Errorf("helper counting another prefix not noticed: %+v", ff)
	}
}

// ---------------------------------------------------------------------------------------------------- API side

const apiBase = `package api

func (c *PoolController) preAllocateIP(req *restful.Request, resp *restful.Response, pool *Pool) {
	poolPrefix := util.NewKeyObj(util.DeploymentPrefixKey, "", "", "", pool.Name).PoolPrefix()
	//LOCK-BEGIN
	defer c.LockPoolFunc(poolPrefix)()
	fips, err := c.IPAM.ByPrefix(poolPrefix)
	if err != nil {
		return
	}
	//LOCK-END
	needAllocateIPs := pool.Size - len(fips)
	//LOOP-BEGIN
	for i := 0; i < needAllocateIPs; i++ {
		ip, err := c.IPAM.AllocateInSubnet(poolPrefix, subnetIPNet, floatingip.Attr{Policy: constant.ReleasePolicyNever})
		if err == nil {
			glog.Infof("allocated ip %s", ip.String())
			continue
		} else if err == floatingip.ErrNoEnoughIP {
			j++
			i--
		} else {
			return
		}
	}
	//LOOP-END
}
`

const utilBase = `package util

const (
	poolPrefix           = "pool__"
	DeploymentPrefixKey  = "dp_"
	StatefulsetPrefixKey = "sts_"
)

func NewKeyObj(appTypePrefix string, namespace, appName, podName, poolName string) *KeyObj {
	k := &KeyObj{AppTypePrefix: appTypePrefix, AppName: appName, PodName: podName, Namespace: namespace,
		PoolName: poolName}
	k.genKey()
	return k
}

//PP-BEGIN
func (k *KeyObj) PoolPrefix() string {
	if k.PoolName != "" {
		return fmt.Sprintf("%s%s_", poolPrefix, k.PoolName)
	}
	return fmt.Sprintf("%s%s_%s_", k.AppTypePrefix, k.Namespace, k.AppName)
}
//PP-END
`

var testConsts = map[string]string{"poolPrefix": "pool__", "DeploymentPrefixKey": "dp_", "StatefulsetPrefixKey": "sts_"}

func apiKey(t *testing.T, api, utl string) (*preFacts, string, *keyFns) {
	up, err := pkgFromSrc(utl)
	if err != nil {
		t.Fatal(err)
	}
	keys, err := analyseKeys(up, testConsts)
	if err != nil {
		t.Fatal(err)
	}
	ap, err := pkgFromSrc(api)
	if err != nil {
		t.Fatal(err)
	}
	pf, err := analysePre(ap)
	if err != nil {
		t.Fatal(err)
	}
	k, err := apiLockKeyLean(pf, keys)
	if err != nil {
		t.Fatal(err)
	}
	return pf, k, keys
}

func TestAPISide(t *testing.T) {
	wantKey := `poolPrefixFn (poolName) ("dp_") ("") ("")`
	wantThen, wantElse := `"pool__" ++ poolName ++ "_"`, `appTypePrefix ++ ns ++ "_" ++ appName ++ "_"`
	harmless := map[string][2]string{
		"base": {apiBase, utilBase},
		// H28: switch on err instead of the if / else-if chain
		"switch-err": {between(t, apiBase, "LOOP", `for i := 0; i < needAllocateIPs; i++ {
		ip, err := c.IPAM.AllocateInSubnet(poolPrefix, subnetIPNet, floatingip.Attr{Policy: constant.ReleasePolicyNever})
		switch err {
		case nil:
			glog.Infof("allocated ip %s", ip.String())
		case floatingip.ErrNoEnoughIP:
			j++
			i--
		default:
			return
		}
	}
	`), utilBase},
		// the key object in a local of its own, the prefix inlined at the uses
		"key-object-local": {strings.NewReplacer(`poolPrefix := util.NewKeyObj(util.DeploymentPrefixKey, "", "", "", pool.Name).PoolPrefix()`,
			`ko := util.NewKeyObj(util.DeploymentPrefixKey, "", "", "", pool.Name)
	lockKey := ko.PoolPrefix()`, "(poolPrefix", "(lockKey").Replace(apiBase), utilBase},
		// PoolPrefix by concatenation and as a switch
		"concat-switch": {apiBase, between(t, utilBase, "PP", `func (key *KeyObj) PoolPrefix() string {
	switch {
	case key.PoolName == "":
		return key.AppTypePrefix + key.Namespace + "_" + key.AppName + "_"
	default:
		return poolPrefix + key.PoolName + "_"
	}
}
`)},
	}
	for name, s := range harmless {
		pf, k, keys := apiKey(t, s[0], s[1])
		if !pf.locksBeforeCount || !pf.holdsAcrossLoop || !pf.sameKey || k != wantKey || keys.poolPrefixThen != wantThen ||
			keys.poolPrefixElse != wantElse {
			t.Errorf("%s: %+v key=%s then=%s else=%s", name, pf, k, keys.poolPrefixThen, keys.poolPrefixElse)
		}
	}
	// seeded C07-1: another lock string
	pf, k, _ := apiKey(t, strings.Replace(apiBase, "c.LockPoolFunc(poolPrefix)", "c.LockPoolFunc(pool.Name)", 1), utilBase)
	if pf.sameKey || k != "poolName" {
		t.Errorf("other lock string not noticed: %+v %s", pf, k)
	}
	// seeded C07-5: the lock taken after the count
	pf, _, _ = apiKey(t, between(t, apiBase, "LOCK", `fips, err := c.IPAM.ByPrefix(poolPrefix)
	if err != nil {
		return
	}
	defer c.LockPoolFunc(poolPrefix)()
	`), utilBase)
	if pf.locksBeforeCount || !pf.holdsAcrossLoop {
		t.Errorf("lock after count not noticed: %+v", pf)
	}
	// seeded C07-3: no lock in preAllocateIP
	pf, k, _ = apiKey(t, strings.Replace(apiBase, "\tdefer c.LockPoolFunc(poolPrefix)()\n", "", 1), utilBase)
	if pf.locksBeforeCount || pf.holdsAcrossLoop || !strings.Contains(k, "no-lock") {
		t.Errorf("missing lock not noticed: %+v %s", pf, k)
	}
	// a conditional lock is not a lock
	pf, _, _ = apiKey(t, strings.Replace(apiBase, "\tdefer c.LockPoolFunc(poolPrefix)()\n",
		"\tif pool.Size > 0 {\n\t\tdefer c.LockPoolFunc(poolPrefix)()\n\t}\n", 1), utilBase)
	if pf.locksBeforeCount {
		t.Errorf("conditional lock not noticed: %+v", pf)
	}
	// another constant in PoolPrefix changes the generated function
	_, _, keys := apiKey(t, apiBase, strings.Replace(utilBase, `"%s%s_", poolPrefix, k.PoolName`, `"%s%s-", poolPrefix, k.PoolName`, 1))
	if keys.poolPrefixThen == wantThen {
		t.Errorf("changed format not noticed")
	}
}

// ---------------------------------------------------------------------------------------------------- formulas

func TestFormulas(t *testing.T) {
	a, b, c := fa("a"), fa("b"), fa("c")
	if !equiv(forr(fand(a, b), fand(a, fnot(b))), a) {
		t.Error("case split")
	}
	if !equiv(forr(forr(a, b), fand(fnot(forr(a, b)), c)), forr(a, b, c)) {
		t.Error("(A||B) or (not(A||B) and C) = A||B||C")
	}
	if equiv(forr(a, b), fand(a, b)) || !implies(fand(a, b), a) || implies(a, fand(a, b)) {
		t.Error("equiv / implies")
	}
	if !equiv(project(fand(a, fnot(fa("x == nil"))), isErrAtom), a) {
		t.Error("project")
	}
}
