// Normalisation layer of factgen c07 (see /verif/harmless/NORMALISE.md): the facts are read off a SEMANTIC view of a
// function instead of its text:
//
//   - every expression is rendered canonically (`canon`): parentheses dropped, receiver / parameters named by position
//     (`recv`, `arg0`, ...), locals that are assigned exactly once replaced by (the canonical form of) what they are
//     assigned from (`x := e` => e, `a, b := f(..)` => `f(..)#0`, `f(..)#1`), range variables by `elem(xs)` / `idx(xs)`
//     (and `xs[i]` by `elem(xs)`), `x != y` by `!(x == y)` with sorted operands, `<`, `<=`, `>=` by `>` and negation,
//     fmt.Sprintf with %s / %v verbs by string concatenation; locals that are written several times stay opaque
//     (named by their declaration position);
//   - conditions are boolean formulas over canonical atoms, compared by truth table (`equiv`, `implies`); named booleans
//     are expanded;
//   - a function body is walked with PATH CONDITIONS: if / else, else-if chains, guard clauses ending in return /
//     continue / break, dropped `else` after a returning branch, switch (with or without tag) all yield the same
//     condition under which a statement is reached;
//   - what the facts are about are EVENTS in execution order - calls, deferred lock calls, returns, increments, ifs,
//     range loops - each with its path condition; calls of helpers of the same package are followed (two levels), the
//     helper's events appear at the call site with the parameters replaced by the canonical arguments, so both an
//     extracted helper and an inlined one give the same events;
//   - log statements, comments and error texts play no role because no fact looks at them.
//
// What still changes a fact: another operator or constant, another operand of a lock / count / allocation call, a call
// that moved to the other side of the lock, a guard that was dropped or moved, another condition under which the
// counter is incremented, a return that stopped returning an error.
package main

import (
	"fmt"
	"go/ast"
	"go/parser"
	"go/token"
	"os"
	"path/filepath"
	"sort"
	"strconv"
	"strings"

	"factgen/fg"
)

// ---------------------------------------------------------------------------------------------------- formulas

// F is a boolean formula over canonical atoms.
type F struct {
	op byte // 'T', 'F', 'a' atom, '!', '&', '|'
	a  string
	k  []*F
}

var (
	fT = &F{op: 'T'}
	fF = &F{op: 'F'}
)

func fa(s string) *F { return &F{op: 'a', a: s} }

func fnot(x *F) *F {
	switch x.op {
	case 'T':
		return fF
	case 'F':
		return fT
	case '!':
		return x.k[0]
	}
	return &F{op: '!', k: []*F{x}}
}

func fand(xs ...*F) *F {
	var k []*F
	for _, x := range xs {
		switch x.op {
		case 'F':
			return fF
		case 'T':
		case '&':
			k = append(k, x.k...)
		default:
			k = append(k, x)
		}
	}
	switch len(k) {
	case 0:
		return fT
	case 1:
		return k[0]
	}
	return &F{op: '&', k: k}
}

func forr(xs ...*F) *F {
	var k []*F
	for _, x := range xs {
		switch x.op {
		case 'T':
			return fT
		case 'F':
		case '|':
			k = append(k, x.k...)
		default:
			k = append(k, x)
		}
	}
	switch len(k) {
	case 0:
		return fF
	case 1:
		return k[0]
	}
	return &F{op: '|', k: k}
}

func (f *F) atoms(set map[string]bool) {
	if f.op == 'a' {
		set[f.a] = true
	}
	for _, x := range f.k {
		x.atoms(set)
	}
}

func (f *F) eval(env map[string]bool) bool {
	switch f.op {
	case 'T':
		return true
	case 'F':
		return false
	case 'a':
		return env[f.a]
	case '!':
		return !f.k[0].eval(env)
	case '&':
		for _, x := range f.k {
			if !x.eval(env) {
				return false
			}
		}
		return true
	}
	for _, x := range f.k {
		if x.eval(env) {
			return true
		}
	}
	return false
}

func (f *F) String() string {
	switch f.op {
	case 'T':
		return "true"
	case 'F':
		return "false"
	case 'a':
		return f.a
	case '!':
		return "!(" + f.k[0].String() + ")"
	}
	var parts []string
	for _, x := range f.k {
		parts = append(parts, x.String())
	}
	sep := " && "
	if f.op == '|' {
		sep = " || "
	}
	return "(" + strings.Join(parts, sep) + ")"
}

// forall evaluates pred under every assignment of the atoms of fs (at most 16 atoms; more => false).
func forall(pred func(env map[string]bool) bool, fs ...*F) bool {
	set := map[string]bool{}
	for _, f := range fs {
		f.atoms(set)
	}
	var names []string
	for a := range set {
		names = append(names, a)
	}
	sort.Strings(names)
	if len(names) > 16 {
		return false
	}
	env := map[string]bool{}
	for m := 0; m < 1<<uint(len(names)); m++ {
		for i, a := range names {
			env[a] = m&(1<<uint(i)) != 0
		}
		if !pred(env) {
			return false
		}
	}
	return true
}

func equiv(f, g *F) bool {
	return forall(func(e map[string]bool) bool { return f.eval(e) == g.eval(e) }, f, g)
}

func implies(f, g *F) bool {
	return forall(func(e map[string]bool) bool { return !f.eval(e) || g.eval(e) }, f, g)
}

func subst(f *F, atom string, v *F) *F {
	switch f.op {
	case 'a':
		if f.a == atom {
			return v
		}
		return f
	case '!':
		return fnot(subst(f.k[0], atom, v))
	case '&', '|':
		var k []*F
		for _, x := range f.k {
			k = append(k, subst(x, atom, v))
		}
		if f.op == '&' {
			return fand(k...)
		}
		return forr(k...)
	}
	return f
}

// project quantifies the atoms selected by drop existentially (what remains is what the formula says about the rest).
func project(f *F, drop func(string) bool) *F {
	set := map[string]bool{}
	f.atoms(set)
	var names []string
	for a := range set {
		if drop(a) {
			names = append(names, a)
		}
	}
	sort.Strings(names)
	for _, a := range names {
		f = forr(subst(f, a, fT), subst(f, a, fF))
	}
	return f
}

// isErrAtom: comparisons with nil (error guards); they are irrelevant for every fact of this translator.
func isErrAtom(a string) bool {
	return strings.HasPrefix(a, "nil == ") || strings.HasSuffix(a, " == nil")
}

func noErr(f *F) *F { return project(f, isErrAtom) }

// relTo: what f says beyond base - the error guards and the atoms base already speaks about are quantified away.
func relTo(f, base *F) *F {
	set := map[string]bool{}
	base.atoms(set)
	return simp(project(f, func(a string) bool { return isErrAtom(a) || set[a] }))
}

func eqAtom(x, y string) string {
	if y < x {
		x, y = y, x
	}
	return x + " == " + y
}

// ---------------------------------------------------------------------------------------------------- packages

type fnRef struct {
	p  *fg.Parsed
	fn *ast.FuncDecl
}

// pkgIndex: the functions of one package directory, keyed "Recv.name" (receiver type without star) or ".name".
type pkgIndex struct {
	funcs map[string]*fnRef
}

func recvTypeName(fd *ast.FuncDecl) string {
	if fd.Recv == nil || len(fd.Recv.List) != 1 {
		return ""
	}
	t := fd.Recv.List[0].Type
	if s, ok := t.(*ast.StarExpr); ok {
		t = s.X
	}
	if id, ok := t.(*ast.Ident); ok {
		return id.Name
	}
	return ""
}

func (x *pkgIndex) add(p *fg.Parsed) {
	for _, d := range p.File.Decls {
		if fd, ok := d.(*ast.FuncDecl); ok && fd.Body != nil {
			x.funcs[recvTypeName(fd)+"."+fd.Name.Name] = &fnRef{p, fd}
		}
	}
}

// loadPkg parses every non-test Go file of a package directory.
func loadPkg(repo, dir string) (*pkgIndex, error) {
	ents, err := os.ReadDir(filepath.Join(repo, dir))
	if err != nil {
		return nil, err
	}
	x := &pkgIndex{funcs: map[string]*fnRef{}}
	for _, e := range ents {
		n := e.Name()
		if e.IsDir() || !strings.HasSuffix(n, ".go") || strings.HasSuffix(n, "_test.go") {
			continue
		}
		p, err := fg.ParseFile(repo, filepath.Join(dir, n))
		if err != nil {
			return nil, err
		}
		x.add(p)
	}
	return x, nil
}

// pkgFromSrc builds a package index from source text (unit tests).
func pkgFromSrc(srcs ...string) (*pkgIndex, error) {
	x := &pkgIndex{funcs: map[string]*fnRef{}}
	for i, s := range srcs {
		fset := token.NewFileSet()
		f, err := parser.ParseFile(fset, fmt.Sprintf("src%d.go", i), s, parser.ParseComments)
		if err != nil {
			return nil, err
		}
		x.add(&fg.Parsed{Fset: fset, File: f, Path: fmt.Sprintf("src%d.go", i)})
	}
	return x, nil
}

func (x *pkgIndex) ctx(recv, name string) (*fctx, error) {
	r, ok := x.funcs[recv+"."+name]
	if !ok {
		return nil, fmt.Errorf("function %s.%s not found", recv, name)
	}
	return newCtx(x, r, nil, nil), nil
}

// ---------------------------------------------------------------------------------------------------- one function

type asgSite struct {
	rhs ast.Expr // nil = not a plain assignment (x++, x += .., &x, named result)
	idx int      // -1 = `x := e`; i = i-th result of a multi-value right-hand side
}

type rngInfo struct {
	x     ast.Expr
	isKey bool
}

type fctx struct {
	pkg   *pkgIndex
	p     *fg.Parsed
	fn    *ast.FuncDecl
	sym   map[*ast.Object]string
	asg   map[*ast.Object][]asgSite
	rng   map[*ast.Object]rngInfo
	busy  map[*ast.Object]bool
	stack []*ast.FuncDecl // helper chain (recursion guard)
	bad   []string        // constructs the walker does not understand
}

// newCtx prepares a function; recvSym / argSyms are the canonical receiver / arguments of the call site when the
// function is looked into as a helper (nil = root: `recv`, `arg<i>`).
func newCtx(pkg *pkgIndex, r *fnRef, recvSym *string, argSyms []string) *fctx {
	c := &fctx{pkg: pkg, p: r.p, fn: r.fn, sym: map[*ast.Object]string{}, asg: map[*ast.Object][]asgSite{},
		rng: map[*ast.Object]rngInfo{}, busy: map[*ast.Object]bool{}}
	if r.fn.Recv != nil && len(r.fn.Recv.List) == 1 && len(r.fn.Recv.List[0].Names) == 1 {
		s := "recv"
		if recvSym != nil {
			s = *recvSym
		}
		c.sym[r.fn.Recv.List[0].Names[0].Obj] = s
	}
	i := 0
	for _, f := range r.fn.Type.Params.List {
		for _, n := range f.Names {
			s := fmt.Sprintf("arg%d", i)
			if argSyms != nil && i < len(argSyms) {
				s = argSyms[i]
			}
			if n.Obj != nil {
				c.sym[n.Obj] = s
			}
			i++
		}
	}
	if r.fn.Type.Results != nil {
		for _, f := range r.fn.Type.Results.List {
			for _, n := range f.Names {
				if n.Obj != nil {
					c.asg[n.Obj] = []asgSite{{nil, -1}, {nil, -1}}
				}
			}
		}
	}
	note := func(e ast.Expr, s asgSite) {
		if id, ok := e.(*ast.Ident); ok && id.Obj != nil && id.Name != "_" {
			if _, isParam := c.sym[id.Obj]; isParam {
				delete(c.sym, id.Obj) // a parameter that is written is an ordinary (opaque) variable
				c.asg[id.Obj] = append(c.asg[id.Obj], asgSite{nil, -1})
			}
			c.asg[id.Obj] = append(c.asg[id.Obj], s)
		}
	}
	ast.Inspect(r.fn.Body, func(n ast.Node) bool {
		switch x := n.(type) {
		case *ast.AssignStmt:
			for i, l := range x.Lhs {
				switch {
				case x.Tok != token.DEFINE && x.Tok != token.ASSIGN:
					note(l, asgSite{nil, -1})
				case len(x.Rhs) == len(x.Lhs):
					note(l, asgSite{x.Rhs[i], -1})
				case len(x.Rhs) == 1:
					note(l, asgSite{x.Rhs[0], i})
				default:
					note(l, asgSite{nil, -1})
				}
			}
		case *ast.IncDecStmt:
			note(x.X, asgSite{nil, -1})
		case *ast.UnaryExpr:
			if x.Op == token.AND {
				note(x.X, asgSite{nil, -1})
				note(x.X, asgSite{nil, -1})
			}
		case *ast.RangeStmt:
			for k, e := range []ast.Expr{x.Key, x.Value} {
				id, ok := e.(*ast.Ident)
				if !ok || id.Obj == nil || id.Name == "_" {
					continue
				}
				if x.Tok == token.DEFINE {
					c.rng[id.Obj] = rngInfo{x.X, k == 0}
				} else {
					note(e, asgSite{nil, -1})
					note(e, asgSite{nil, -1})
				}
			}
		case *ast.DeclStmt:
			gd, ok := x.Decl.(*ast.GenDecl)
			if !ok {
				return true
			}
			for _, sp := range gd.Specs {
				vs, ok := sp.(*ast.ValueSpec)
				if !ok || len(vs.Values) == 0 {
					continue
				}
				for i, nme := range vs.Names {
					if len(vs.Values) == len(vs.Names) {
						note(nme, asgSite{vs.Values[i], -1})
					} else if len(vs.Values) == 1 {
						note(nme, asgSite{vs.Values[0], i})
					}
				}
			}
		}
		return true
	})
	return c
}

func (c *fctx) local(obj *ast.Object) bool {
	return obj != nil && obj.Kind == ast.Var && obj.Pos() >= c.fn.Pos() && obj.Pos() <= c.fn.End()
}

// single returns the one assignment site of a local that is written exactly once.
func (c *fctx) single(obj *ast.Object) (asgSite, bool) {
	if s := c.asg[obj]; len(s) == 1 && s[0].rhs != nil {
		return s[0], true
	}
	return asgSite{}, false
}

func (c *fctx) symOf(id *ast.Ident) string {
	obj := id.Obj
	if obj == nil {
		return id.Name
	}
	if s, ok := c.sym[obj]; ok {
		return s
	}
	if r, ok := c.rng[obj]; ok {
		if r.isKey {
			return "idx(" + c.canon(r.x) + ")"
		}
		return "elem(" + c.canon(r.x) + ")"
	}
	if !c.local(obj) {
		return id.Name
	}
	if s, ok := c.single(obj); ok && !c.busy[obj] {
		c.busy[obj] = true
		out := c.canon(s.rhs)
		if s.idx >= 0 {
			out += "#" + strconv.Itoa(s.idx)
		}
		c.busy[obj] = false
		return out
	}
	return fmt.Sprintf("~@%d", c.p.Fset.Position(obj.Pos()).Offset)
}

// resolve follows locals that are assigned exactly once from a single expression to that expression (AST level).
func (c *fctx) resolve(e ast.Expr) ast.Expr {
	for i := 0; i < 8; i++ {
		switch x := e.(type) {
		case *ast.ParenExpr:
			e = x.X
			continue
		case *ast.Ident:
			if c.local(x.Obj) {
				if s, ok := c.single(x.Obj); ok && s.idx < 0 {
					e = s.rhs
					continue
				}
			}
		}
		break
	}
	return e
}

// concat flattens string concatenation / fmt.Sprintf with %s, %v verbs into parts (literals keep their quotes).
func (c *fctx) concat(e ast.Expr, out *[]string) bool {
	switch x := e.(type) {
	case *ast.ParenExpr:
		return c.concat(x.X, out)
	case *ast.BinaryExpr:
		if x.Op == token.ADD {
			return c.concat(x.X, out) && c.concat(x.Y, out)
		}
	case *ast.CallExpr:
		if c.p.Src(x.Fun) == "fmt.Sprintf" && len(x.Args) >= 1 {
			bl, ok := x.Args[0].(*ast.BasicLit)
			if !ok || bl.Kind != token.STRING {
				break
			}
			format, err := strconv.Unquote(bl.Value)
			if err != nil {
				break
			}
			var parts []string
			args := x.Args[1:]
			lit := ""
			for i := 0; i < len(format); i++ {
				if format[i] != '%' {
					lit += string(format[i])
					continue
				}
				if i+1 >= len(format) || (format[i+1] != 's' && format[i+1] != 'v') || len(args) == 0 {
					return false
				}
				i++
				if lit != "" {
					parts = append(parts, strconv.Quote(lit))
					lit = ""
				}
				var sub []string
				if !c.concat(args[0], &sub) {
					return false
				}
				parts = append(parts, sub...)
				args = args[1:]
			}
			if len(args) != 0 {
				return false
			}
			if lit != "" {
				parts = append(parts, strconv.Quote(lit))
			}
			*out = append(*out, parts...)
			return true
		}
	case *ast.Ident:
		if c.local(x.Obj) {
			if s, ok := c.single(x.Obj); ok && s.idx < 0 && !c.busy[x.Obj] {
				if _, isCat := c.resolve(x).(*ast.BinaryExpr); isCat {
					c.busy[x.Obj] = true
					r := c.concat(s.rhs, out)
					c.busy[x.Obj] = false
					return r
				}
			}
		}
	}
	*out = append(*out, c.canon(e))
	return true
}

func joinParts(parts []string) string {
	var merged []string
	for _, p := range parts {
		if n := len(merged); n > 0 && strings.HasPrefix(p, `"`) && strings.HasPrefix(merged[n-1], `"`) {
			a, _ := strconv.Unquote(merged[n-1])
			b, _ := strconv.Unquote(p)
			merged[n-1] = strconv.Quote(a + b)
			continue
		}
		merged = append(merged, p)
	}
	return strings.Join(merged, " + ")
}

// canon renders an expression canonically.
func (c *fctx) canon(e ast.Expr) string {
	switch x := e.(type) {
	case nil:
		return ""
	case *ast.ParenExpr:
		return c.canon(x.X)
	case *ast.Ident:
		return c.symOf(x)
	case *ast.BasicLit:
		return x.Value
	case *ast.SelectorExpr:
		return c.canon(x.X) + "." + x.Sel.Name
	case *ast.StarExpr:
		return "*" + c.canon(x.X)
	case *ast.IndexExpr:
		xs, is := c.canon(x.X), c.canon(x.Index)
		if is == "idx("+xs+")" {
			return "elem(" + xs + ")"
		}
		return xs + "[" + is + "]"
	case *ast.CallExpr:
		if c.p.Src(x.Fun) == "fmt.Sprintf" {
			var parts []string
			if c.concat(x, &parts) {
				return joinParts(parts)
			}
		}
		// a helper of the same package that only returns one expression is that expression
		if r, recv := c.helperOf(x); r != nil && len(c.stack) < maxDepth && r.fn != c.fn && len(r.fn.Body.List) == 1 {
			if ret, ok := r.fn.Body.List[0].(*ast.ReturnStmt); ok && len(ret.Results) == 1 {
				h := newCtx(c.pkg, r, recv, c.argStrings(x))
				h.stack = append(append([]*ast.FuncDecl(nil), c.stack...), c.fn)
				return h.canon(ret.Results[0])
			}
		}
		var args []string
		for _, a := range x.Args {
			args = append(args, c.canon(a))
		}
		s := c.canon(x.Fun) + "(" + strings.Join(args, ", ")
		if x.Ellipsis != token.NoPos {
			s += "..."
		}
		return s + ")"
	case *ast.UnaryExpr:
		if x.Op == token.NOT {
			return c.cond(x).String()
		}
		return x.Op.String() + c.canon(x.X)
	case *ast.BinaryExpr:
		switch x.Op {
		case token.LAND, token.LOR, token.EQL, token.NEQ, token.LSS, token.GTR, token.LEQ, token.GEQ:
			return c.cond(x).String()
		case token.ADD:
			var parts []string
			if c.concat(x, &parts) {
				return joinParts(parts)
			}
		}
		return c.canon(x.X) + " " + x.Op.String() + " " + c.canon(x.Y)
	case *ast.CompositeLit:
		var el []string
		for _, v := range x.Elts {
			if kv, ok := v.(*ast.KeyValueExpr); ok {
				el = append(el, c.p.Src(kv.Key)+": "+c.canon(kv.Value))
			} else {
				el = append(el, c.canon(v))
			}
		}
		sort.Strings(el)
		return c.p.Src(x.Type) + "{" + strings.Join(el, ", ") + "}"
	}
	return "src:" + c.p.Src(e)
}

func isLen(s string) bool { return strings.HasPrefix(s, "len(") || strings.HasSuffix(s, ".Len()") }

// cond turns a boolean expression into a formula over canonical atoms.
func (c *fctx) cond(e ast.Expr) *F {
	switch x := e.(type) {
	case *ast.ParenExpr:
		return c.cond(x.X)
	case *ast.UnaryExpr:
		if x.Op == token.NOT {
			return fnot(c.cond(x.X))
		}
	case *ast.BinaryExpr:
		l, r := func() string { return c.canon(x.X) }, func() string { return c.canon(x.Y) }
		// lengths are not negative: `n == 0` is `!(n > 0)`, `n >= 1` is `n > 0`
		if x.Op != token.LAND && x.Op != token.LOR {
			a, b, op := l(), r(), x.Op
			if isLen(b) && !isLen(a) {
				a, b = b, a
				switch op {
				case token.LSS:
					op = token.GTR
				case token.GTR:
					op = token.LSS
				case token.LEQ:
					op = token.GEQ
				case token.GEQ:
					op = token.LEQ
				}
			}
			if isLen(a) {
				pos := fa(a + " > 0")
				switch {
				case b == "0" && op == token.EQL, b == "0" && op == token.LEQ, b == "1" && op == token.LSS:
					return fnot(pos)
				case b == "0" && op == token.NEQ, b == "0" && op == token.GTR, b == "1" && op == token.GEQ:
					return pos
				}
			}
		}
		switch x.Op {
		case token.LAND:
			return fand(c.cond(x.X), c.cond(x.Y))
		case token.LOR:
			return forr(c.cond(x.X), c.cond(x.Y))
		case token.EQL:
			return fa(eqAtom(l(), r()))
		case token.NEQ:
			return fnot(fa(eqAtom(l(), r())))
		case token.GTR:
			return fa(l() + " > " + r())
		case token.LSS:
			return fa(r() + " > " + l())
		case token.GEQ:
			return fnot(fa(r() + " > " + l()))
		case token.LEQ:
			return fnot(fa(l() + " > " + r()))
		}
	case *ast.Ident:
		switch {
		case x.Obj == nil && x.Name == "true":
			return fT
		case x.Obj == nil && x.Name == "false":
			return fF
		case c.local(x.Obj):
			if s, ok := c.single(x.Obj); ok && s.idx < 0 && !c.busy[x.Obj] {
				switch c.resolve(x).(type) {
				case *ast.BinaryExpr, *ast.UnaryExpr:
					c.busy[x.Obj] = true
					f := c.cond(s.rhs)
					c.busy[x.Obj] = false
					return f
				}
			}
		}
	}
	return fa(c.canon(e))
}

// ---------------------------------------------------------------------------------------------------- path walker

// flow of a statement RELATIVE to the condition under which it is reached: the condition to fall through to the next
// statement and the condition to leave the enclosing switch by `break`.
type flow struct{ fall, brk *F }

type walker struct {
	c     *fctx
	visit func(n ast.Node, pc *F)
	level int
	top   *F // path condition of the enclosing top-level statement of the function
}

// simp recognises formulas that are constant (both branches of an if falling through, ...).
func simp(f *F) *F {
	if equiv(f, fT) {
		return fT
	}
	if equiv(f, fF) {
		return fF
	}
	return f
}

func (w *walker) block(list []ast.Stmt, pc *F) flow {
	rel, brk := fT, fF
	for _, s := range list {
		cur := fand(pc, rel)
		if w.level == 0 {
			w.top = cur
		}
		w.level++
		r := w.stmt(s, cur)
		w.level--
		brk = forr(brk, fand(rel, r.brk))
		rel = simp(fand(rel, r.fall))
	}
	return flow{rel, brk}
}

func terminates(c *fctx, s *ast.ExprStmt) bool {
	call, ok := s.X.(*ast.CallExpr)
	if !ok {
		return false
	}
	switch c.p.Src(call.Fun) {
	case "panic", "os.Exit", "glog.Fatal", "glog.Fatalf", "log.Fatal", "log.Fatalf":
		return true
	}
	return false
}

func (w *walker) stmt(s ast.Stmt, pc *F) flow {
	switch x := s.(type) {
	case nil:
		return flow{fT, fF}
	case *ast.BlockStmt:
		return w.block(x.List, pc)
	case *ast.LabeledStmt:
		return w.stmt(x.Stmt, pc)
	case *ast.IfStmt:
		w.visit(x, pc)
		if x.Init != nil {
			w.visit(x.Init, pc)
		}
		w.visit(x.Cond, pc)
		cf := w.c.cond(x.Cond)
		a := w.block(x.Body.List, fand(pc, cf))
		b := flow{fT, fF}
		if x.Else != nil {
			b = w.stmt(x.Else, fand(pc, fnot(cf)))
		}
		return flow{simp(forr(fand(cf, a.fall), fand(fnot(cf), b.fall))), forr(fand(cf, a.brk), fand(fnot(cf), b.brk))}
	case *ast.ReturnStmt:
		w.visit(x, pc)
		return flow{fF, fF}
	case *ast.BranchStmt:
		switch {
		case x.Tok == token.BREAK && x.Label == nil:
			return flow{fF, fT}
		case x.Tok == token.FALLTHROUGH:
			w.c.bad = append(w.c.bad, "fallthrough")
		}
		return flow{fF, fF}
	case *ast.ForStmt:
		if x.Init != nil {
			w.visit(x.Init, pc)
		}
		if x.Cond != nil {
			w.visit(x.Cond, pc)
		}
		w.block(x.Body.List, pc)
		if x.Post != nil {
			w.visit(x.Post, pc)
		}
		return flow{fT, fF}
	case *ast.RangeStmt:
		w.visit(x, pc)
		w.visit(x.X, pc)
		w.block(x.Body.List, pc)
		return flow{fT, fF}
	case *ast.SwitchStmt:
		if x.Init != nil {
			w.visit(x.Init, pc)
		}
		tag := ""
		if x.Tag != nil {
			w.visit(x.Tag, pc)
			tag = w.c.canon(x.Tag)
		}
		prev, out := fF, fF
		var def *ast.CaseClause
		var conds []*F
		var clauses []*ast.CaseClause
		for _, cl := range x.Body.List {
			cc := cl.(*ast.CaseClause)
			if cc.List == nil {
				def = cc
				continue
			}
			f := fF
			for _, e := range cc.List {
				w.visit(e, pc)
				if x.Tag != nil {
					f = forr(f, fa(eqAtom(tag, w.c.canon(e))))
				} else {
					f = forr(f, w.c.cond(e))
				}
			}
			clauses = append(clauses, cc)
			conds = append(conds, fand(f, fnot(prev)))
			prev = forr(prev, f)
		}
		for i, cc := range clauses {
			r := w.block(cc.Body, fand(pc, conds[i]))
			out = forr(out, fand(conds[i], forr(r.fall, r.brk)))
		}
		if def != nil {
			r := w.block(def.Body, fand(pc, fnot(prev)))
			out = forr(out, fand(fnot(prev), forr(r.fall, r.brk)))
		} else {
			out = forr(out, fnot(prev))
		}
		return flow{simp(out), fF}
	case *ast.TypeSwitchStmt:
		w.visit(x.Assign, pc)
		for _, cl := range x.Body.List {
			w.block(cl.(*ast.CaseClause).Body, pc)
		}
		return flow{fT, fF}
	case *ast.SelectStmt:
		for _, cl := range x.Body.List {
			w.block(cl.(*ast.CommClause).Body, pc)
		}
		return flow{fT, fF}
	case *ast.ExprStmt:
		w.visit(x, pc)
		if terminates(w.c, x) {
			return flow{fF, fF}
		}
		return flow{fT, fF}
	}
	w.visit(s, pc)
	return flow{fT, fF}
}

// ---------------------------------------------------------------------------------------------------- events

type event struct {
	kind  string // call, defer, return, inc, if, range
	name  string // canonical callee / incremented variable / ranged expression
	args  []string
	pc    *F
	c     *fctx
	node  ast.Node
	call  *ast.CallExpr
	depth int
	top   *F // path condition of the enclosing top-level statement of the ROOT function
}

const maxDepth = 2

// helperOf resolves a call to a function of the same package.
func (c *fctx) helperOf(call *ast.CallExpr) (*fnRef, *string) {
	switch f := call.Fun.(type) {
	case *ast.Ident:
		if f.Obj == nil || f.Obj.Kind == ast.Fun {
			if r, ok := c.pkg.funcs["."+f.Name]; ok {
				return r, nil
			}
		}
	case *ast.SelectorExpr:
		id, ok := f.X.(*ast.Ident)
		if !ok || id.Obj == nil || c.fn.Recv == nil || len(c.fn.Recv.List[0].Names) != 1 ||
			id.Obj != c.fn.Recv.List[0].Names[0].Obj {
			return nil, nil
		}
		if r, ok := c.pkg.funcs[recvTypeName(c.fn)+"."+f.Sel.Name]; ok {
			s := c.canon(f.X)
			return r, &s
		}
	}
	return nil, nil
}

func (c *fctx) argStrings(call *ast.CallExpr) []string {
	var out []string
	for _, a := range call.Args {
		out = append(out, c.canon(a))
	}
	return out
}

// collect appends the events of the function in execution order; base = path condition of the call site.
func (c *fctx) collect(depth int, base, top *F, out *[]event) {
	w := &walker{c: c}
	emit := func(e event) {
		e.top = top
		if depth == 0 {
			e.top = w.top
		}
		*out = append(*out, e)
	}
	var calls func(n ast.Node, pc *F, skip *ast.CallExpr)
	calls = func(n ast.Node, pc *F, skip *ast.CallExpr) {
		ast.Inspect(n, func(m ast.Node) bool {
			if _, ok := m.(*ast.FuncLit); ok {
				return false
			}
			call, ok := m.(*ast.CallExpr)
			if !ok || call == skip {
				return true
			}
			emit(event{kind: "call", name: c.canon(call.Fun), args: c.argStrings(call), pc: pc, c: c,
				node: call, call: call, depth: depth})
			if depth < maxDepth {
				if r, recv := c.helperOf(call); r != nil {
					for _, f := range c.stack {
						if f == r.fn {
							return true
						}
					}
					if r.fn == c.fn {
						return true
					}
					h := newCtx(c.pkg, r, recv, c.argStrings(call))
					h.stack = append(append([]*ast.FuncDecl(nil), c.stack...), c.fn)
					t := top
					if depth == 0 {
						t = w.top
					}
					h.collect(depth+1, pc, t, out)
					c.bad = append(c.bad, h.bad...)
				}
			}
			return true
		})
	}
	w.visit = func(n ast.Node, pc *F) {
		switch x := n.(type) {
		case *ast.IfStmt:
			emit(event{kind: "if", pc: pc, c: c, node: x, depth: depth})
		case *ast.RangeStmt:
			emit(event{kind: "range", name: c.canon(x.X), pc: pc, c: c, node: x, depth: depth})
		case *ast.DeferStmt:
			if inner, ok := x.Call.Fun.(*ast.CallExpr); ok && len(x.Call.Args) == 0 {
				emit(event{kind: "defer", name: c.canon(inner.Fun), args: c.argStrings(inner), pc: pc, c: c,
					node: x, call: inner, depth: depth})
				calls(inner, pc, inner)
			} else {
				calls(x.Call, pc, nil)
			}
		case *ast.ReturnStmt:
			calls(x, pc, nil)
			var res []string
			for _, r := range x.Results {
				res = append(res, c.canon(r))
			}
			emit(event{kind: "return", args: res, pc: pc, c: c, node: x, depth: depth})
		case *ast.IncDecStmt:
			if id, ok := x.X.(*ast.Ident); ok && x.Tok == token.INC {
				emit(event{kind: "inc", name: c.symOf(id), pc: pc, c: c, node: x, depth: depth})
			}
		case *ast.AssignStmt:
			calls(x, pc, nil)
			// x += 1 / x = x + 1
			if len(x.Lhs) == 1 && len(x.Rhs) == 1 {
				if id, ok := x.Lhs[0].(*ast.Ident); ok {
					v := c.symOf(id)
					r := c.canon(x.Rhs[0])
					if (x.Tok == token.ADD_ASSIGN && r == "1") || (x.Tok == token.ASSIGN && (r == v+" + 1" || r == "1 + "+v)) {
						emit(event{kind: "inc", name: v, pc: pc, c: c, node: x, depth: depth})
					}
				}
			}
		default:
			calls(n, pc, nil)
		}
	}
	w.block(c.fn.Body.List, base)
}

// events of a root function.
func (c *fctx) events() []event {
	var out []event
	c.collect(0, fT, fT, &out)
	return out
}

// loopIncs: the increments inside one range loop body with their path conditions RELATIVE to one iteration.
func loopIncs(c *fctx, loop *ast.RangeStmt) []event {
	var out []event
	w := &walker{c: c}
	w.visit = func(n ast.Node, pc *F) {
		switch x := n.(type) {
		case *ast.IncDecStmt:
			if id, ok := x.X.(*ast.Ident); ok && x.Tok == token.INC {
				out = append(out, event{kind: "inc", name: c.symOf(id), pc: pc, c: c, node: x})
			}
		case *ast.AssignStmt:
			if len(x.Lhs) == 1 && len(x.Rhs) == 1 {
				if id, ok := x.Lhs[0].(*ast.Ident); ok {
					v, r := c.symOf(id), c.canon(x.Rhs[0])
					if (x.Tok == token.ADD_ASSIGN && r == "1") || (x.Tok == token.ASSIGN && (r == v+" + 1" || r == "1 + "+v)) {
						out = append(out, event{kind: "inc", name: v, pc: pc, c: c, node: x})
					}
				}
			}
		}
	}
	w.block(loop.Body.List, fT)
	return out
}

// refuses: every path through the block ends in a return whose last result is not nil.
func refuses(c *fctx, body *ast.BlockStmt) bool {
	ok := true
	n := 0
	w := &walker{c: c}
	w.visit = func(m ast.Node, pc *F) {
		if r, isRet := m.(*ast.ReturnStmt); isRet {
			n++
			if len(r.Results) == 0 || c.canon(r.Results[len(r.Results)-1]) == "nil" {
				ok = false
			}
		}
	}
	fl := w.block(body.List, fT)
	return ok && n > 0 && equiv(fl.fall, fF)
}
