// factgen c07: regenerates lean/Galaxy/Generated/C07.lean from the CURRENT source: everything the proofs of property
// C07 ("a sized IP pool never grows beyond its size") take from the code besides the plugin model itself:
//
//   - the pool lock discipline: getSubnet (Filter) takes LockDpPool(keyObj.PoolPrefix()) BEFORE getAvailableSubnet
//     (the count) and holds it - deferred unlock - across allocateDuringFilter; preAllocateIP (pool API) takes
//     LockPoolFunc(poolPrefix) before ByPrefix (the count) and holds it across the allocation loop; the server wires
//     LockPoolFunc to plugin.LockDpPool and hands the plugin's own IPAM to the pool controller; LockDpPool is a keyed
//     mutex on the string it is given;
//   - the two lock-key expressions as Lean FUNCTIONS (the body of KeyObj.PoolPrefix translated from its two
//     fmt.Sprintf calls; the constructor call NewKeyObj(..) of preAllocateIP translated through the field mapping of
//     NewKeyObj), so that "both sides lock the same string" is a theorem about regenerated definitions;
//   - the counting rule of getAvailableSubnet (`isPoolSizeDefined || keyObj.PoolName == ""` => every key != prefix
//     counts), the comparison `usedCount >= replicas`, the allocate-during-filter condition `(reserve ||
//     isPoolSizeDefined)`, the two branches of allocateDuringFilter, getDpReplicas answering (pool.Size, true).
//
// Purely syntactic (go/ast on single functions, no type checking); it fails loudly when a function or a shape it
// relies on is gone.
package main

import (
	"fmt"
	"go/ast"
	"go/token"
	"strconv"
	"strings"

	"factgen/fg"
)

const (
	plugDir = "pkg/ipam/schedulerplugin/"
	utilsGo = plugDir + "util/utils.go"
	poolGo  = "pkg/ipam/api/pool.go"
	srvGo   = "pkg/ipam/server/server.go"
)

// stmtsOf flattens a function body into its top-level statements.
func idxOf(p *fg.Parsed, body *ast.BlockStmt, pred func(ast.Stmt) bool) int {
	for i, s := range body.List {
		if pred(s) {
			return i
		}
	}
	return -1
}

// deferredLock finds `defer <recv>.<fn>(ARG)()` anywhere inside stmt (not inside a nested function literal) and
// returns ARG.
func deferredLock(p *fg.Parsed, s ast.Node, fn string) ast.Expr {
	var arg ast.Expr
	ast.Inspect(s, func(n ast.Node) bool {
		if _, ok := n.(*ast.FuncLit); ok {
			return false
		}
		d, ok := n.(*ast.DeferStmt)
		if !ok {
			return true
		}
		// d.Call = (<recv>.<fn>(ARG))()
		inner, ok := d.Call.Fun.(*ast.CallExpr)
		if !ok || len(d.Call.Args) != 0 || len(inner.Args) != 1 {
			return true
		}
		if strings.HasSuffix(p.Src(inner.Fun), "."+fn) {
			arg = inner.Args[0]
		}
		return true
	})
	return arg
}

// sprintfLean translates fmt.Sprintf("<only %s verbs and literal text>", args...) into a Lean string expression;
// tr translates each argument.
func sprintfLean(p *fg.Parsed, e ast.Expr, tr func(ast.Expr) (string, error)) (string, error) {
	c, ok := e.(*ast.CallExpr)
	if !ok || p.Src(c.Fun) != "fmt.Sprintf" || len(c.Args) < 1 {
		return "", fmt.Errorf("not a fmt.Sprintf call: %s", p.Src(e))
	}
	bl, ok := c.Args[0].(*ast.BasicLit)
	if !ok || bl.Kind != token.STRING {
		return "", fmt.Errorf("format of %s is not a literal", p.Src(e))
	}
	format, err := strconv.Unquote(bl.Value)
	if err != nil {
		return "", err
	}
	var parts []string
	args := c.Args[1:]
	lit := ""
	for i := 0; i < len(format); i++ {
		if format[i] != '%' {
			lit += string(format[i])
			continue
		}
		if i+1 >= len(format) || format[i+1] != 's' {
			return "", fmt.Errorf("format %q: only %%s is understood", format)
		}
		i++
		if lit != "" {
			parts = append(parts, fg.LeanStr(lit))
			lit = ""
		}
		if len(args) == 0 {
			return "", fmt.Errorf("format %q: too few arguments", format)
		}
		a, err := tr(args[0])
		if err != nil {
			return "", err
		}
		args = args[1:]
		parts = append(parts, a)
	}
	if lit != "" {
		parts = append(parts, fg.LeanStr(lit))
	}
	if len(args) != 0 {
		return "", fmt.Errorf("format %q: too many arguments", format)
	}
	if len(parts) == 0 {
		return `""`, nil
	}
	return strings.Join(parts, " ++ "), nil
}

func gen(repo string) (map[string]string, error) {
	var b strings.Builder
	b.WriteString(fg.Header("pool-lock discipline, lock-key functions and counting rule behind property C07",
		plugDir+"filter.go", plugDir+"ipam.go", plugDir+"deployment.go", utilsGo, poolGo, srvGo))
	b.WriteString("namespace Galaxy.Generated.C07\n\n")

	// ------------------------------------------------------------------ util/utils.go: key functions
	ut, err := fg.ParseFile(repo, utilsGo)
	if err != nil {
		return nil, err
	}
	consts := map[string]string{}
	for _, c := range []string{"poolPrefix", "DeploymentPrefixKey", "StatefulsetPrefixKey"} {
		v, err := ut.ConstString(c)
		if err != nil {
			return nil, err
		}
		consts[c] = v
	}
	// field name -> Lean parameter of the generated function
	fieldParam := map[string]string{"PoolName": "poolName", "AppTypePrefix": "appTypePrefix", "Namespace": "ns",
		"AppName": "appName", "PodName": "podName"}
	pp, err := ut.Fn("KeyObj", "PoolPrefix")
	if err != nil {
		return nil, err
	}
	recv := pp.Recv.List[0].Names[0].Name
	trField := func(e ast.Expr) (string, error) {
		switch x := e.(type) {
		case *ast.Ident:
			if v, ok := consts[x.Name]; ok {
				return fg.LeanStr(v), nil
			}
		case *ast.SelectorExpr:
			if id, ok := x.X.(*ast.Ident); ok && id.Name == recv {
				if prm, ok := fieldParam[x.Sel.Name]; ok {
					return prm, nil
				}
			}
		}
		return "", fmt.Errorf("%s: PoolPrefix: cannot translate %s", utilsGo, ut.Src(e))
	}
	// shape: if k.PoolName != "" { return Sprintf(..) } ; return Sprintf(..)
	if len(pp.Body.List) != 2 {
		return nil, fmt.Errorf("%s: KeyObj.PoolPrefix no longer has the shape `if pool != \"\" {return ..}; return ..`", utilsGo)
	}
	ifs, ok := pp.Body.List[0].(*ast.IfStmt)
	ret2, ok2 := pp.Body.List[1].(*ast.ReturnStmt)
	if !ok || !ok2 || ifs.Else != nil || ifs.Init != nil || ut.Src(ifs.Cond) != recv+`.PoolName != ""` ||
		len(ifs.Body.List) != 1 || len(ret2.Results) != 1 {
		return nil, fmt.Errorf("%s: KeyObj.PoolPrefix: unknown shape", utilsGo)
	}
	ret1, ok := ifs.Body.List[0].(*ast.ReturnStmt)
	if !ok || len(ret1.Results) != 1 {
		return nil, fmt.Errorf("%s: KeyObj.PoolPrefix: unknown shape of the pool branch", utilsGo)
	}
	e1, err := sprintfLean(ut, ret1.Results[0], trField)
	if err != nil {
		return nil, fmt.Errorf("%s: PoolPrefix: %v", utilsGo, err)
	}
	e2, err := sprintfLean(ut, ret2.Results[0], trField)
	if err != nil {
		return nil, fmt.Errorf("%s: PoolPrefix: %v", utilsGo, err)
	}
	b.WriteString("/-- `KeyObj.PoolPrefix()` as a function of the key object's fields (translated from its two fmt.Sprintf calls) -/\n")
	fmt.Fprintf(&b, "def poolPrefixFn (poolName appTypePrefix ns appName : String) : String :=\n  if poolName ≠ \"\" then %s else %s\n\n", e1, e2)

	// NewKeyObj: parameter -> field mapping
	nk, err := ut.Fn("", "NewKeyObj")
	if err != nil {
		return nil, err
	}
	var params []string
	for _, f := range nk.Type.Params.List {
		for _, n := range f.Names {
			params = append(params, n.Name)
		}
	}
	fieldOfParam := map[string]string{} // constructor parameter -> KeyObj field
	ast.Inspect(nk.Body, func(n ast.Node) bool {
		cl, ok := n.(*ast.CompositeLit)
		if !ok || ut.Src(cl.Type) != "KeyObj" {
			return true
		}
		for _, el := range cl.Elts {
			kv, ok := el.(*ast.KeyValueExpr)
			if !ok {
				continue
			}
			if id, ok := kv.Value.(*ast.Ident); ok {
				fieldOfParam[id.Name] = ut.Src(kv.Key)
			}
		}
		return true
	})
	if len(params) != 5 || len(fieldOfParam) != 5 {
		return nil, fmt.Errorf("%s: NewKeyObj no longer maps 5 parameters to 5 fields (%v / %v)", utilsGo, params, fieldOfParam)
	}

	// ------------------------------------------------------------------ filter.go: getSubnet
	fl, err := fg.ParseFile(repo, plugDir+"filter.go")
	if err != nil {
		return nil, err
	}
	gs, err := fl.Fn("FloatingIPPlugin", "getSubnet")
	if err != nil {
		return nil, err
	}
	iLock := idxOf(fl, gs.Body, func(s ast.Stmt) bool { return deferredLock(fl, s, "LockDpPool") != nil })
	iCount := fl.StmtIndex(gs.Body, "p.getAvailableSubnet(")
	iAlloc := fl.StmtIndex(gs.Body, "p.allocateDuringFilter(")
	iSize := fl.StmtIndex(gs.Body, "p.getDpReplicas(")
	if iCount < 0 || iAlloc < 0 || iSize < 0 {
		return nil, fmt.Errorf("filter.go: getSubnet no longer calls getDpReplicas / getAvailableSubnet / allocateDuringFilter at top level")
	}
	filterKeyExpr := ""
	lockGuard := ""
	if iLock >= 0 {
		filterKeyExpr = fl.Src(deferredLock(fl, gs.Body.List[iLock], "LockDpPool"))
		if is, ok := gs.Body.List[iLock].(*ast.IfStmt); ok {
			lockGuard = fl.Src(is.Cond)
		}
	}
	// the deferred unlock runs when getSubnet returns: the lock is held across everything after it
	filterLocksBeforeCount := iLock >= 0 && iLock < iCount
	filterHoldsAcrossAlloc := iLock >= 0 && iLock < iAlloc
	filterLockForDeployments := lockGuard == "keyObj.Deployment()" || (iLock >= 0 && lockGuard == "")
	// keyObj is util.FormatKey(pod)
	keyObjIsPodKey := fl.StmtIndex(gs.Body, "keyObj, err := util.FormatKey(pod)") == 0
	fmt.Fprintf(&b, "/-- getSubnet: `defer p.LockDpPool(%s)()` is taken (for deployment pods) before getAvailableSubnet -/\n", filterKeyExpr)
	fmt.Fprintf(&b, "def filterLocksBeforeCount : Bool := %s\n", fg.LeanBool(filterLocksBeforeCount && filterLockForDeployments))
	b.WriteString("/-- ... and, the unlock being deferred to the return of getSubnet, still held in allocateDuringFilter -/\n")
	fmt.Fprintf(&b, "def filterHoldsAcrossAlloc : Bool := %s\n", fg.LeanBool(filterHoldsAcrossAlloc))
	b.WriteString("/-- the size is read (getDpReplicas, from the Pool lister) before the pool lock is taken -/\n")
	fmt.Fprintf(&b, "def sizeReadBeforeLock : Bool := %s\n", fg.LeanBool(iLock < 0 || iSize <= iLock))
	b.WriteString("/-- the key object of getSubnet is util.FormatKey(pod) -/\n")
	fmt.Fprintf(&b, "def filterKeyIsPodKey : Bool := %s\n", fg.LeanBool(keyObjIsPodKey))
	// filter lock key as a function
	switch filterKeyExpr {
	case "keyObj.PoolPrefix()":
		b.WriteString("/-- the string getSubnet locks: `keyObj.PoolPrefix()` of the pod's key object -/\n")
		b.WriteString("def filterLockKey (poolName appTypePrefix ns appName : String) : String :=\n  poolPrefixFn poolName appTypePrefix ns appName\n")
	case "keyObj.PoolName":
		b.WriteString("def filterLockKey (poolName _appTypePrefix _ns _appName : String) : String := poolName\n")
	case "keyObj.KeyInDB", "":
		// no lock / a per-pod string: every pod locks something else
		b.WriteString("def filterLockKey (poolName appTypePrefix ns appName : String) : String :=\n  \"<no-common-lock>\" ++ poolName ++ appTypePrefix ++ ns ++ appName\n")
	default:
		return nil, fmt.Errorf("filter.go: getSubnet locks %q - an expression this translator cannot turn into a function", filterKeyExpr)
	}
	// allocate-during-filter condition
	var allocCond string
	if is, ok := gs.Body.List[iAlloc].(*ast.IfStmt); ok {
		allocCond = fl.Src(is.Cond)
	}
	b.WriteString("/-- condition under which getSubnet allocates during filter -/\n")
	fmt.Fprintf(&b, "def allocCondText : String := %s\n", fg.LeanStr(allocCond))
	fmt.Fprintf(&b, "def allocatesWhenReserveOrSized : Bool := %s\n",
		fg.LeanBool(allocCond == "(reserve || isPoolSizeDefined) && subnetSet.Len() > 0"))
	// the counted prefix is the locked string: getAvailableSubnet gets the same keyObj
	countCall := ""
	ast.Inspect(gs.Body.List[iCount], func(n ast.Node) bool {
		if c, ok := n.(*ast.CallExpr); ok && fl.Src(c.Fun) == "p.getAvailableSubnet" && len(c.Args) > 0 {
			countCall = fl.Src(c.Args[0])
		}
		return true
	})
	// allocateDuringFilter: reserve -> allocateInSubnetWithKey(PoolPrefix -> KeyInDB); else sized -> allocateInSubnet(KeyInDB)
	adf, err := fl.Fn("FloatingIPPlugin", "allocateDuringFilter")
	if err != nil {
		return nil, err
	}
	adfOK := false
	for _, s := range adf.Body.List {
		is, ok := s.(*ast.IfStmt)
		if !ok || fl.Src(is.Cond) != "reserve" {
			continue
		}
		first := fl.Src(is.Body)
		el, ok := is.Else.(*ast.IfStmt)
		if !ok {
			continue
		}
		adfOK = strings.Contains(first, "p.allocateInSubnetWithKey(keyObj.PoolPrefix(), keyObj.KeyInDB,") &&
			fl.Src(el.Cond) == "isPoolSizeDefined" && el.Else == nil &&
			strings.Contains(fl.Src(el.Body), "p.allocateInSubnet(keyObj.KeyInDB,")
	}
	b.WriteString("/-- allocateDuringFilter: reserve => re-key a record of PoolPrefix() to the pod's key; else sized => a free address under the pod's key -/\n")
	fmt.Fprintf(&b, "def allocateDuringFilterShape : Bool := %s\n\n", fg.LeanBool(adfOK))

	// ------------------------------------------------------------------ ipam.go: getAvailableSubnet
	ip, err := fg.ParseFile(repo, plugDir+"ipam.go")
	if err != nil {
		return nil, err
	}
	ga, err := ip.Fn("FloatingIPPlugin", "getAvailableSubnet")
	if err != nil {
		return nil, err
	}
	var countedPrefix, ruleCond, cmpOp, cmpText string
	ruleBodyCounts, elseOwnOnly, notPrefixGuard := false, false, false
	prefixDef := ""
	ast.Inspect(ga.Body, func(n ast.Node) bool {
		switch x := n.(type) {
		case *ast.AssignStmt:
			if len(x.Lhs) == 1 && len(x.Rhs) == 1 && ip.Src(x.Lhs[0]) == "poolPrefix" {
				prefixDef = ip.Src(x.Rhs[0])
			}
		case *ast.CallExpr:
			if ip.Src(x.Fun) == "p.ipam.ByPrefix" && len(x.Args) == 1 {
				countedPrefix = ip.Src(x.Args[0])
			}
		case *ast.RangeStmt:
			if ip.Src(x.X) != "ips" {
				return true
			}
			for _, s := range x.Body.List {
				outer, ok := s.(*ast.IfStmt)
				if !ok || ip.Src(outer.Cond) != "ip.Key != poolPrefix" {
					continue
				}
				notPrefixGuard = true
				if len(outer.Body.List) != 1 {
					continue
				}
				inner, ok := outer.Body.List[0].(*ast.IfStmt)
				if !ok {
					continue
				}
				ruleCond = ip.Src(inner.Cond)
				ruleBodyCounts = len(inner.Body.List) == 1 && ip.Src(inner.Body.List[0]) == "usedCount++"
				if eb, ok := inner.Else.(*ast.BlockStmt); ok {
					elseOwnOnly = strings.Contains(ip.Src(eb), "strings.HasPrefix(ip.Key, poolAppPrefix)")
				}
			}
		case *ast.IfStmt:
			if be, ok := x.Cond.(*ast.BinaryExpr); ok && ip.Src(be.X) == "usedCount" && ip.Src(be.Y) == "replicas" {
				cmpOp, cmpText = be.Op.String(), ip.Src(be)
				// the branch must refuse (return an error)
				refuses := false
				for _, s := range x.Body.List {
					ast.Inspect(s, func(m ast.Node) bool {
						if r, ok := m.(*ast.ReturnStmt); ok && strings.Contains(ip.Src(r), "fmt.Errorf") {
							refuses = true
						}
						return true
					})
				}
				if !refuses {
					cmpOp = "no-refusal"
				}
			}
		}
		return true
	})
	if countedPrefix == "" || cmpOp == "" || !notPrefixGuard {
		return nil, fmt.Errorf("ipam.go: getAvailableSubnet: ByPrefix call / `ip.Key != poolPrefix` guard / usedCount comparison not found")
	}
	b.WriteString("/-- getAvailableSubnet counts the records of `ByPrefix(keyObj.PoolPrefix())` - the locked string (same keyObj) -/\n")
	fmt.Fprintf(&b, "def filterCountsLockedPrefix : Bool := %s\n", fg.LeanBool(countedPrefix == "poolPrefix" &&
		prefixDef == "keyObj.PoolPrefix()" && countCall == "keyObj" && filterKeyExpr == "keyObj.PoolPrefix()"))
	b.WriteString("/-- the counting rule: a record whose key is not the bare prefix counts as used when ... -/\n")
	fmt.Fprintf(&b, "def usedRuleText : String := %s\n", fg.LeanStr(ruleCond))
	fmt.Fprintf(&b, "def countsAllWhenSized : Bool := %s\n", fg.LeanBool(ruleBodyCounts && elseOwnOnly &&
		ruleCond == `isPoolSizeDefined || keyObj.PoolName == ""`))
	b.WriteString("/-- the refusal: `if usedCount >= replicas { return .. error }` -/\n")
	fmt.Fprintf(&b, "def usedCmpText : String := %s\n", fg.LeanStr(cmpText))
	fmt.Fprintf(&b, "def refusesWhenUsedGeSize : Bool := %s\n\n", fg.LeanBool(cmpOp == ">="))

	// ------------------------------------------------------------------ deployment.go: getDpReplicas, LockDpPool
	dp, err := fg.ParseFile(repo, plugDir+"deployment.go")
	if err != nil {
		return nil, err
	}
	gr, err := dp.Fn("FloatingIPPlugin", "getDpReplicas")
	if err != nil {
		return nil, err
	}
	srcGr := dp.Src(gr.Body)
	sizeFromPool := strings.Contains(srcGr, `p.PoolLister.Pools("kube-system").Get(keyObj.PoolName)`) &&
		strings.Contains(srcGr, "return pool.Size, true, nil") && strings.Contains(srcGr, `keyObj.PoolName != ""`)
	b.WriteString("/-- getDpReplicas: a Pool object found in the lister answers (pool.Size, isPoolSizeDefined = true) -/\n")
	fmt.Fprintf(&b, "def sizeFromPoolObject : Bool := %s\n", fg.LeanBool(sizeFromPool))
	ld, err := dp.Fn("FloatingIPPlugin", "LockDpPool")
	if err != nil {
		return nil, err
	}
	srcLd := dp.Src(ld.Body)
	lprm := ""
	if len(ld.Type.Params.List) == 1 && len(ld.Type.Params.List[0].Names) == 1 {
		lprm = ld.Type.Params.List[0].Names[0].Name
	}
	keyed := lprm != "" && strings.Contains(srcLd, "p.dpLockPool.LockKey("+lprm+")") &&
		strings.Contains(srcLd, "p.dpLockPool.UnlockKey("+lprm+")")
	b.WriteString("/-- LockDpPool(x) locks the keyed mutex on exactly the string x and returns its unlock -/\n")
	fmt.Fprintf(&b, "def lockDpPoolIsKeyedMutex : Bool := %s\n\n", fg.LeanBool(keyed))

	// ------------------------------------------------------------------ api/pool.go: preAllocateIP
	pl, err := fg.ParseFile(repo, poolGo)
	if err != nil {
		return nil, err
	}
	pa, err := pl.Fn("PoolController", "preAllocateIP")
	if err != nil {
		return nil, err
	}
	jLock := idxOf(pl, pa.Body, func(s ast.Stmt) bool {
		_, isDefer := s.(*ast.DeferStmt)
		return isDefer && deferredLock(pl, s, "LockPoolFunc") != nil
	})
	jCount := pl.StmtIndex(pa.Body, "c.IPAM.ByPrefix(")
	jLoop := idxOf(pl, pa.Body, func(s ast.Stmt) bool {
		_, isFor := s.(*ast.ForStmt)
		return isFor && strings.Contains(pl.Src(s), "c.IPAM.AllocateInSubnet(")
	})
	if jCount < 0 || jLoop < 0 {
		return nil, fmt.Errorf("%s: preAllocateIP no longer has a top-level ByPrefix count and an AllocateInSubnet loop", poolGo)
	}
	apiKeyExpr, apiKeyDef := "", ""
	var apiKeyCall *ast.CallExpr
	if jLock >= 0 {
		arg := deferredLock(pl, pa.Body.List[jLock], "LockPoolFunc")
		apiKeyExpr = pl.Src(arg)
		if id, ok := arg.(*ast.Ident); ok {
			// resolve the local variable to its (single) definition
			for _, s := range pa.Body.List[:jLock] {
				if as, ok := s.(*ast.AssignStmt); ok && as.Tok == token.DEFINE && len(as.Lhs) == 1 && len(as.Rhs) == 1 &&
					pl.Src(as.Lhs[0]) == id.Name {
					apiKeyDef = pl.Src(as.Rhs[0])
					if c, ok := as.Rhs[0].(*ast.CallExpr); ok {
						apiKeyCall = c
					}
				}
			}
		} else if c, ok := arg.(*ast.CallExpr); ok {
			apiKeyDef, apiKeyCall = apiKeyExpr, c
		} else {
			apiKeyDef = apiKeyExpr
		}
	}
	countArg, allocArg := "", ""
	ast.Inspect(pa.Body, func(n ast.Node) bool {
		if c, ok := n.(*ast.CallExpr); ok && len(c.Args) > 0 {
			switch pl.Src(c.Fun) {
			case "c.IPAM.ByPrefix":
				countArg = pl.Src(c.Args[0])
			case "c.IPAM.AllocateInSubnet":
				allocArg = pl.Src(c.Args[0])
			}
		}
		return true
	})
	fmt.Fprintf(&b, "/-- preAllocateIP: `defer c.LockPoolFunc(%s)()` is taken before the count `c.IPAM.ByPrefix(..)` -/\n", apiKeyExpr)
	fmt.Fprintf(&b, "def preLocksBeforeCount : Bool := %s\n", fg.LeanBool(jLock >= 0 && jLock < jCount))
	b.WriteString("/-- ... and, being deferred, is held across the whole allocation loop -/\n")
	fmt.Fprintf(&b, "def preHoldsAcrossLoop : Bool := %s\n", fg.LeanBool(jLock >= 0 && jLock < jLoop))
	b.WriteString("/-- preAllocateIP counts and allocates under the very string it locks -/\n")
	fmt.Fprintf(&b, "def preCountsAndAllocatesLockedPrefix : Bool := %s\n", fg.LeanBool(apiKeyExpr != "" && countArg == apiKeyExpr && allocArg == apiKeyExpr))
	// the API lock key as a function of the pool name
	name := "pool.Name"
	trArg := func(e ast.Expr) (string, error) {
		s := pl.Src(e)
		switch {
		case s == name:
			return "poolName", nil
		case s == "util.DeploymentPrefixKey":
			return fg.LeanStr(consts["DeploymentPrefixKey"]), nil
		case s == "util.StatefulsetPrefixKey":
			return fg.LeanStr(consts["StatefulsetPrefixKey"]), nil
		}
		if bl, ok := e.(*ast.BasicLit); ok && bl.Kind == token.STRING {
			v, err := strconv.Unquote(bl.Value)
			if err != nil {
				return "", err
			}
			return fg.LeanStr(v), nil
		}
		return "", fmt.Errorf("%s: preAllocateIP: cannot translate lock-key argument %s", poolGo, s)
	}
	b.WriteString("/-- the string preAllocateIP locks, as a function of the pool name of the request -/\n")
	switch {
	case apiKeyCall != nil && pl.Src(apiKeyCall.Fun) != "" && strings.HasSuffix(pl.Src(apiKeyCall.Fun), ".PoolPrefix") &&
		len(apiKeyCall.Args) == 0:
		sel := apiKeyCall.Fun.(*ast.SelectorExpr)
		ctor, ok := sel.X.(*ast.CallExpr)
		if !ok || pl.Src(ctor.Fun) != "util.NewKeyObj" || len(ctor.Args) != 5 {
			return nil, fmt.Errorf("%s: preAllocateIP: lock key %s is not util.NewKeyObj(5 args).PoolPrefix()", poolGo, apiKeyDef)
		}
		val := map[string]string{} // KeyObj field -> Lean expression
		for i, a := range ctor.Args {
			v, err := trArg(a)
			if err != nil {
				return nil, err
			}
			val[fieldOfParam[params[i]]] = v
		}
		fmt.Fprintf(&b, "def apiLockKey (poolName : String) : String :=\n  poolPrefixFn (%s) (%s) (%s) (%s)\n",
			val["PoolName"], val["AppTypePrefix"], val["Namespace"], val["AppName"])
	case apiKeyDef == name:
		b.WriteString("def apiLockKey (poolName : String) : String := poolName\n")
	case apiKeyDef == "":
		b.WriteString("def apiLockKey (poolName : String) : String := \"<no-lock>\" ++ poolName\n")
	default:
		if bin, ok := parseConcat(pl, pa, apiKeyDef, trArg); ok {
			fmt.Fprintf(&b, "def apiLockKey (poolName : String) : String := %s\n", bin)
		} else {
			return nil, fmt.Errorf("%s: preAllocateIP locks %q - an expression this translator cannot turn into a function", poolGo, apiKeyDef)
		}
	}
	fmt.Fprintf(&b, "def apiLockKeyText : String := %s\n\n", fg.LeanStr(apiKeyDef))

	// ------------------------------------------------------------------ server.go: wiring
	sv, err := fg.ParseFile(repo, srvGo)
	if err != nil {
		return nil, err
	}
	wiredLock, wiredIPAM := "", ""
	ast.Inspect(sv.File, func(n ast.Node) bool {
		cl, ok := n.(*ast.CompositeLit)
		if !ok || sv.Src(cl.Type) != "api.PoolController" {
			return true
		}
		for _, el := range cl.Elts {
			if kv, ok := el.(*ast.KeyValueExpr); ok {
				switch sv.Src(kv.Key) {
				case "LockPoolFunc":
					wiredLock = sv.Src(kv.Value)
				case "IPAM":
					wiredIPAM = sv.Src(kv.Value)
				}
			}
		}
		return true
	})
	if wiredLock == "" {
		return nil, fmt.Errorf("%s: api.PoolController literal with LockPoolFunc not found", srvGo)
	}
	b.WriteString("/-- the server gives the pool controller the plugin's own keyed pool lock and the plugin's own IPAM -/\n")
	fmt.Fprintf(&b, "def lockWiredText : String := %s\n", fg.LeanStr(wiredLock))
	fmt.Fprintf(&b, "def lockWired : Bool := %s\n", fg.LeanBool(wiredLock == "s.plugin.LockDpPool"))
	fmt.Fprintf(&b, "def ipamShared : Bool := %s\n", fg.LeanBool(wiredIPAM == "s.plugin.GetIpam()"))

	b.WriteString("\nend Galaxy.Generated.C07\n")
	return map[string]string{"C07.lean": b.String()}, nil
}

// parseConcat translates a lock key written as a string concatenation / Sprintf of literals and pool.Name.
func parseConcat(p *fg.Parsed, fn *ast.FuncDecl, def string, tr func(ast.Expr) (string, error)) (string, bool) {
	var out string
	ok := false
	ast.Inspect(fn.Body, func(n ast.Node) bool {
		as, isAs := n.(*ast.AssignStmt)
		if !isAs || len(as.Rhs) != 1 || p.Src(as.Rhs[0]) != def {
			return true
		}
		var walk func(e ast.Expr) (string, bool)
		walk = func(e ast.Expr) (string, bool) {
			if be, isBin := e.(*ast.BinaryExpr); isBin && be.Op == token.ADD {
				l, ok1 := walk(be.X)
				r, ok2 := walk(be.Y)
				return l + " ++ " + r, ok1 && ok2
			}
			if c, isCall := e.(*ast.CallExpr); isCall && p.Src(c.Fun) == "fmt.Sprintf" {
				s, err := sprintfLean(p, c, tr)
				return s, err == nil
			}
			s, err := tr(e)
			return s, err == nil
		}
		out, ok = walk(as.Rhs[0])
		return false
	})
	return out, ok
}

func main() { fg.Run("c07", gen) }
