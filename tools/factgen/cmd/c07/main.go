// factgen c07: regenerates lean/Galaxy/Generated/C07.lean from the CURRENT source: everything the proofs of property
// C07 ("a sized IP pool never grows beyond its size") take from the code besides the plugin model itself:
//
//   - the pool lock discipline: getSubnet (Filter) takes LockDpPool(keyObj.PoolPrefix()) BEFORE getAvailableSubnet
//     (the count) and holds it - deferred unlock - across allocateDuringFilter; preAllocateIP (pool API) takes
//     LockPoolFunc(poolPrefix) before ByPrefix (the count) and holds it across the allocation loop; the server wires
//     LockPoolFunc to plugin.LockDpPool and hands the plugin's own IPAM to the pool controller; LockDpPool is a keyed
//     mutex on the string it is given;
//   - the two lock-key expressions as Lean FUNCTIONS (the body of KeyObj.PoolPrefix translated from its two
//     fmt.Sprintf calls; the constructor call NewKeyObj(..) of preAllocateIP translated through the field mapping of
//     NewKeyObj), so that "both sides lock the same string" is a theorem about regenerated definitions;
//   - the counting rule of getAvailableSubnet (`isPoolSizeDefined || keyObj.PoolName == ""` => every key != prefix
//     counts), the comparison `usedCount >= replicas`, the allocate-during-filter condition `(reserve ||
//     isPoolSizeDefined)`, the two branches of allocateDuringFilter, getDpReplicas answering (pool.Size, true).
//
// No type checking (go/ast); every fact is read off the normalised view of norm.go (canonical expressions, path
// conditions, events in execution order, helpers followed), so behaviour-preserving rewrites leave the output
// unchanged; it fails loudly when a function or an event it relies on is gone.
package main

import (
	"fmt"
	"go/ast"
	"path/filepath"
	"strconv"
	"strings"

	"factgen/fg"
)

const (
	plugDir = "pkg/ipam/schedulerplugin/"
	utilsGo = plugDir + "util/utils.go"
	poolGo  = "pkg/ipam/api/pool.go"
	srvGo   = "pkg/ipam/server/server.go"
)

// ---------------------------------------------------------------------------------------------------- util: keys

// keyFns translates KeyObj.PoolPrefix and the parameter -> field mapping of NewKeyObj.
type keyFns struct {
	poolPrefixThen, poolPrefixElse string   // Lean string expressions of the two branches of PoolPrefix()
	fieldOfArg                     []string // i-th parameter of NewKeyObj -> KeyObj field
	consts                         map[string]string
}

var fieldParam = map[string]string{"recv.PoolName": "poolName", "recv.AppTypePrefix": "appTypePrefix", "recv.Namespace": "ns",
	"recv.AppName": "appName", "recv.PodName": "podName"}

// leanConcat translates a string-valued expression (concatenation / Sprintf of literals, constants and leaves) into Lean.
func leanConcat(c *fctx, e ast.Expr, leaf func(canon string) (string, bool)) (string, error) {
	var parts []string
	if !c.concat(e, &parts) {
		return "", fmt.Errorf("cannot flatten %s", c.p.Src(e))
	}
	var out []string
	lit := ""
	flush := func() {
		if lit != "" {
			out = append(out, fg.LeanStr(lit))
			lit = ""
		}
	}
	for _, p := range parts {
		if strings.HasPrefix(p, `"`) || strings.HasPrefix(p, "`") {
			v, err := strconv.Unquote(p)
			if err != nil {
				return "", err
			}
			lit += v
			continue
		}
		flush()
		l, ok := leaf(p)
		if !ok {
			return "", fmt.Errorf("cannot translate %s in %s", p, c.p.Src(e))
		}
		out = append(out, l)
	}
	flush()
	if len(out) == 0 {
		return `""`, nil
	}
	return strings.Join(out, " ++ "), nil
}

func analyseKeys(pkg *pkgIndex, consts map[string]string) (*keyFns, error) {
	k := &keyFns{consts: consts}
	c, err := pkg.ctx("KeyObj", "PoolPrefix")
	if err != nil {
		return nil, err
	}
	leaf := func(s string) (string, bool) {
		if v, ok := consts[s]; ok {
			return fg.LeanStr(v), true
		}
		v, ok := fieldParam[s]
		return v, ok
	}
	hasPool := fnot(fa(eqAtom(`""`, "recv.PoolName")))
	for _, ev := range c.events() {
		if ev.kind != "return" || ev.depth != 0 {
			continue
		}
		r := ev.node.(*ast.ReturnStmt)
		if len(r.Results) != 1 {
			return nil, fmt.Errorf("%s: KeyObj.PoolPrefix: unknown return", utilsGo)
		}
		l, err := leanConcat(c, r.Results[0], leaf)
		if err != nil {
			return nil, fmt.Errorf("%s: PoolPrefix: %v", utilsGo, err)
		}
		switch {
		case equiv(ev.pc, hasPool) && k.poolPrefixThen == "":
			k.poolPrefixThen = l
		case equiv(ev.pc, fnot(hasPool)) && k.poolPrefixElse == "":
			k.poolPrefixElse = l
		default:
			return nil, fmt.Errorf("%s: KeyObj.PoolPrefix: a return under the condition %s", utilsGo, ev.pc)
		}
	}
	if k.poolPrefixThen == "" || k.poolPrefixElse == "" || len(c.bad) > 0 {
		return nil, fmt.Errorf("%s: KeyObj.PoolPrefix no longer is `PoolName != \"\" ? a : b`", utilsGo)
	}
	n, err := pkg.ctx("", "NewKeyObj")
	if err != nil {
		return nil, err
	}
	nparams := 0
	for _, f := range n.fn.Type.Params.List {
		nparams += len(f.Names)
	}
	k.fieldOfArg = make([]string, nparams)
	found := 0
	ast.Inspect(n.fn.Body, func(m ast.Node) bool {
		cl, ok := m.(*ast.CompositeLit)
		if !ok || n.p.Src(cl.Type) != "KeyObj" {
			return true
		}
		for _, el := range cl.Elts {
			kv, ok := el.(*ast.KeyValueExpr)
			if !ok {
				continue
			}
			v := n.canon(kv.Value)
			if strings.HasPrefix(v, "arg") {
				if i, err := strconv.Atoi(v[3:]); err == nil && i < nparams && k.fieldOfArg[i] == "" {
					k.fieldOfArg[i] = n.p.Src(kv.Key)
					found++
				}
			}
		}
		return true
	})
	if nparams != 5 || found != 5 {
		return nil, fmt.Errorf("%s: NewKeyObj no longer maps 5 parameters to 5 fields (%v)", utilsGo, k.fieldOfArg)
	}
	return k, nil
}

// ---------------------------------------------------------------------------------------------------- plugin side

type filterFacts struct {
	lockArg, keyObj, lockKind                                  string
	locksBeforeCount, lockForDeployments, holdsAcrossAlloc     bool
	sizeBeforeLock, keyIsPodKey, countsLockedPrefix            bool
	allocCondOK, adfShape, countsAll, sizeFromPool, keyedMutex bool
	allocCondText, ruleText, cmpText, cmpOp                    string
}

func idxOfEv(evs []event, pred func(e *event) bool) []int {
	var out []int
	for i := range evs {
		if pred(&evs[i]) {
			out = append(out, i)
		}
	}
	return out
}

func analyseFilter(pkg *pkgIndex) (*filterFacts, error) {
	ff := &filterFacts{}
	c, err := pkg.ctx("FloatingIPPlugin", "getSubnet")
	if err != nil {
		return nil, err
	}
	evs := c.events()
	if len(c.bad) > 0 {
		return nil, fmt.Errorf("filter.go: getSubnet: %v", c.bad)
	}
	named := func(kind string, names ...string) []int {
		return idxOfEv(evs, func(e *event) bool {
			if e.kind != kind {
				return false
			}
			for _, n := range names {
				if e.name == n {
					return true
				}
			}
			return false
		})
	}
	// the lock: a deferred `recv.LockDpPool(A)()` of getSubnet itself (a lock deferred in a helper is released there)
	iL := -1
	for _, i := range named("defer", "recv.LockDpPool") {
		if evs[i].depth == 0 && len(evs[i].args) == 1 {
			iL = i
			break
		}
	}
	counts := named("call", "recv.ipam.ByPrefix")
	allocs := idxOfEv(evs, func(e *event) bool {
		return e.kind == "call" && (e.name == "recv.allocateInSubnetWithKey" || e.name == "recv.allocateInSubnet" ||
			strings.HasPrefix(e.name, "recv.ipam.Allocate"))
	})
	sizes := named("call", "recv.getDpReplicas")
	if len(sizes) == 0 {
		sizes = idxOfEv(evs, func(e *event) bool { return e.kind == "call" && strings.Contains(e.name, "PoolLister") })
	}
	if len(counts) == 0 || len(allocs) == 0 || len(sizes) == 0 {
		return nil, fmt.Errorf("filter.go: getSubnet no longer reaches getDpReplicas / ipam.ByPrefix / an allocation call")
	}
	pcL := fT
	if iL >= 0 {
		L := evs[iL]
		ff.lockArg = L.args[0]
		pcL = noErr(L.pc)
		guard := relTo(L.pc, L.top)
		switch {
		case strings.HasSuffix(ff.lockArg, ".PoolPrefix()"):
			ff.lockKind, ff.keyObj = "PoolPrefix", strings.TrimSuffix(ff.lockArg, ".PoolPrefix()")
		case strings.HasSuffix(ff.lockArg, ".PoolName"):
			ff.lockKind, ff.keyObj = "PoolName", strings.TrimSuffix(ff.lockArg, ".PoolName")
		case strings.HasSuffix(ff.lockArg, ".KeyInDB"):
			ff.lockKind, ff.keyObj = "KeyInDB", strings.TrimSuffix(ff.lockArg, ".KeyInDB")
		default:
			return nil, fmt.Errorf("filter.go: getSubnet locks %q - an expression this translator cannot turn into a function", ff.lockArg)
		}
		ff.lockForDeployments = equiv(guard, fT) || equiv(guard, fa(ff.keyObj+".Deployment()"))
	} else {
		ff.lockKind = "none"
		// the key object: first argument of the count's prefix
		if a := evs[counts[0]].args; len(a) == 1 && strings.HasSuffix(a[0], ".PoolPrefix()") {
			ff.keyObj = strings.TrimSuffix(a[0], ".PoolPrefix()")
		}
	}
	after := func(is []int) bool {
		for _, i := range is {
			if i < iL {
				return false
			}
		}
		return iL >= 0
	}
	ff.locksBeforeCount = after(counts) && ff.lockForDeployments
	for _, i := range counts {
		// the count happens only where the lock was taken
		if !implies(noErr(evs[i].pc), pcL) {
			ff.locksBeforeCount = false
		}
	}
	ff.holdsAcrossAlloc = after(allocs)
	ff.sizeBeforeLock = true
	for _, i := range sizes {
		if iL >= 0 && i > iL {
			ff.sizeBeforeLock = false
		}
	}
	ff.keyIsPodKey = ff.keyObj == "util.FormatKey(arg0)#0"
	ff.countsLockedPrefix = ff.lockKind == "PoolPrefix"
	for _, i := range counts {
		if len(evs[i].args) != 1 || evs[i].args[0] != ff.lockArg {
			ff.countsLockedPrefix = false
		}
	}
	K := ff.keyObj
	// the size flag: second result of getDpReplicas
	S := ""
	if e := evs[sizes[0]]; e.name == "recv.getDpReplicas" {
		S = e.name + "(" + strings.Join(e.args, ", ") + ")#1"
	}
	repl := strings.TrimSuffix(S, "#1") + "#0"
	// ---- allocation during filter
	var pc1, pc2 *F = fF, fF
	d1ok, d2ok := false, false
	ref := evs[counts[0]].pc // everything decided before the count is not part of the allocation condition
	if iL >= 0 {
		ref = evs[iL].pc
	}
	for _, i := range allocs {
		e := evs[i]
		switch e.name {
		case "recv.allocateInSubnetWithKey":
			pc1 = forr(pc1, relTo(e.pc, ref))
			d1ok = len(e.args) >= 2 && e.args[0] == K+".PoolPrefix()" && e.args[1] == K+".KeyInDB"
		case "recv.allocateInSubnet":
			pc2 = forr(pc2, relTo(e.pc, ref))
			d2ok = len(e.args) >= 1 && e.args[0] == K+".KeyInDB"
		}
	}
	R := ""
	if is := named("call", "recv.getAvailableSubnet"); len(is) > 0 {
		R = evs[is[0]].name + "(" + strings.Join(evs[is[0]].args, ", ") + ")#1"
	}
	G := ""
	set := map[string]bool{}
	forr(pc1, pc2).atoms(set)
	for a := range set {
		if strings.HasSuffix(a, ".Len() > 0") {
			G = a
		}
		if R == "" && a != S && !strings.HasSuffix(a, ".Len() > 0") {
			R = a
		}
	}
	ff.allocCondText = forr(pc1, pc2).String()
	if R != "" && S != "" && G != "" {
		r, s, g := fa(R), fa(S), fa(G)
		ff.allocCondOK = equiv(forr(pc1, pc2), fand(forr(r, s), g))
		ff.adfShape = d1ok && d2ok && equiv(pc1, fand(r, g)) && equiv(pc2, fand(fnot(r), s, g))
		if ff.allocCondOK {
			ff.allocCondText = "(reserve || isPoolSizeDefined) && subnetSet.Len() > 0"
		}
	}
	// ---- the counting rule: the loop over the counted records
	cnt := evs[counts[0]]
	ipsSym := cnt.name + "(" + strings.Join(cnt.args, ", ") + ")#0"
	var loop *event
	for i := range evs {
		if evs[i].kind == "range" && evs[i].name == ipsSym {
			loop = &evs[i]
			break
		}
	}
	if loop == nil {
		return nil, fmt.Errorf("ipam.go: getAvailableSubnet: ByPrefix call / loop over its result / usedCount comparison not found")
	}
	incs := loopIncs(loop.c, loop.node.(*ast.RangeStmt))
	U := ""
	reach := fF
	for _, e := range incs {
		if U == "" {
			U = e.name
		}
		if e.name == U {
			reach = forr(reach, e.pc)
		}
	}
	if U == "" {
		return nil, fmt.Errorf("ipam.go: getAvailableSubnet: no counter is incremented in the loop over the ByPrefix result")
	}
	elem := "elem(" + ipsSym + ")"
	isPrefix := fa(eqAtom(elem+".Key", cnt.args[0]))
	noPool := fa(eqAtom(`""`, K+".PoolName"))
	own := fa("strings.HasPrefix(" + elem + ".Key, " + K + ".PoolAppPrefix())")
	ff.ruleText = reach.String()
	if S != "" {
		ff.countsAll = equiv(reach, fand(fnot(isPrefix), forr(fa(S), noPool, own)))
		if ff.countsAll {
			ff.ruleText = `key != prefix && (isPoolSizeDefined || PoolName == "" || HasPrefix(key, PoolAppPrefix))`
		}
	}
	// ---- the comparison that refuses
	for i := range evs {
		e := evs[i]
		if e.kind != "if" || e.c != loop.c {
			continue
		}
		is := e.node.(*ast.IfStmt)
		f := e.c.cond(is.Cond)
		set := map[string]bool{}
		f.atoms(set)
		mentions := false
		for a := range set {
			if strings.HasPrefix(a, U+" > ") || strings.HasSuffix(a, " > "+U) {
				mentions = true
			}
		}
		if !mentions {
			continue
		}
		ff.cmpText = e.c.p.Src(is.Cond)
		switch {
		case !refuses(e.c, is.Body):
			ff.cmpOp = "no-refusal"
		case equiv(f, fnot(fa(repl+" > "+U))):
			ff.cmpOp, ff.cmpText = ">=", "usedCount >= replicas"
		case equiv(f, fa(U+" > "+repl)):
			ff.cmpOp = ">"
		default:
			ff.cmpOp = "other"
		}
		break
	}
	if ff.cmpOp == "" {
		return nil, fmt.Errorf("ipam.go: getAvailableSubnet: ByPrefix call / loop over its result / usedCount comparison not found")
	}
	// ---- getDpReplicas: a Pool object in the lister answers (pool.Size, true, nil)
	g, err := pkg.ctx("FloatingIPPlugin", "getDpReplicas")
	if err != nil {
		return nil, err
	}
	gev := g.events()
	getCall := `recv.PoolLister.Pools("kube-system").Get(arg0.PoolName)`
	hasPool := fnot(fa(eqAtom(`""`, "arg0.PoolName")))
	for _, e := range gev {
		if e.kind == "return" && len(e.args) == 3 && e.args[0] == getCall+"#0.Size" && e.args[1] == "true" && e.args[2] == "nil" &&
			implies(e.pc, fand(hasPool, fa(eqAtom(getCall+"#1", "nil")))) {
			ff.sizeFromPool = true
		}
	}
	// ---- LockDpPool(x): keyed mutex on x, returns its unlock
	l, err := pkg.ctx("FloatingIPPlugin", "LockDpPool")
	if err != nil {
		return nil, err
	}
	locks, unlocks, retFn := false, false, false
	ast.Inspect(l.fn.Body, func(n ast.Node) bool {
		switch x := n.(type) {
		case *ast.CallExpr:
			if len(x.Args) == 1 && l.canon(x.Args[0]) == "arg0" {
				switch l.canon(x.Fun) {
				case "recv.dpLockPool.LockKey":
					locks = true
				case "recv.dpLockPool.UnlockKey":
					unlocks = true
				}
			}
		case *ast.ReturnStmt:
			if len(x.Results) == 1 {
				if _, ok := l.resolve(x.Results[0]).(*ast.FuncLit); ok {
					retFn = true
				}
			}
		}
		return true
	})
	ff.keyedMutex = locks && unlocks && retFn
	return ff, nil
}

// ---------------------------------------------------------------------------------------------------- API side

type preFacts struct {
	lockArg                                    string
	lockExpr                                   ast.Expr // resolved expression of the lock key
	c                                          *fctx
	locksBeforeCount, holdsAcrossLoop, sameKey bool
}

func analysePre(pkg *pkgIndex) (*preFacts, error) {
	pf := &preFacts{}
	c, err := pkg.ctx("PoolController", "preAllocateIP")
	if err != nil {
		return nil, err
	}
	pf.c = c
	evs := c.events()
	if len(c.bad) > 0 {
		return nil, fmt.Errorf("%s: preAllocateIP: %v", poolGo, c.bad)
	}
	iL := -1
	unconditional := false
	for i, e := range evs {
		if e.kind == "defer" && e.depth == 0 && e.name == "recv.LockPoolFunc" && len(e.args) == 1 {
			iL = i
			unconditional = equiv(relTo(e.pc, e.top), fT)
			pf.lockArg = e.args[0]
			pf.lockExpr = c.resolve(e.call.Args[0])
			break
		}
	}
	counts := idxOfEv(evs, func(e *event) bool { return e.kind == "call" && e.name == "recv.IPAM.ByPrefix" })
	allocs := idxOfEv(evs, func(e *event) bool { return e.kind == "call" && e.name == "recv.IPAM.AllocateInSubnet" })
	if len(counts) == 0 || len(allocs) == 0 {
		return nil, fmt.Errorf("%s: preAllocateIP no longer has a ByPrefix count and an AllocateInSubnet loop", poolGo)
	}
	pf.locksBeforeCount, pf.holdsAcrossLoop, pf.sameKey = iL >= 0 && unconditional, iL >= 0 && unconditional, iL >= 0
	for _, i := range counts {
		if i < iL {
			pf.locksBeforeCount = false
		}
		if len(evs[i].args) < 1 || evs[i].args[0] != pf.lockArg {
			pf.sameKey = false
		}
	}
	for _, i := range allocs {
		if i < iL {
			pf.holdsAcrossLoop = false
		}
		if len(evs[i].args) < 1 || evs[i].args[0] != pf.lockArg {
			pf.sameKey = false
		}
	}
	return pf, nil
}

// apiLockKeyLean: the string preAllocateIP locks as a Lean function of the pool name.
func apiLockKeyLean(pf *preFacts, k *keyFns) (string, error) {
	c := pf.c
	poolName := "arg2.Name"
	leaf := func(s string) (string, bool) {
		switch s {
		case poolName:
			return "poolName", true
		case "util.DeploymentPrefixKey":
			return fg.LeanStr(k.consts["DeploymentPrefixKey"]), true
		case "util.StatefulsetPrefixKey":
			return fg.LeanStr(k.consts["StatefulsetPrefixKey"]), true
		}
		return "", false
	}
	if pf.lockExpr == nil {
		return "\"<no-lock>\" ++ poolName", nil
	}
	if call, ok := pf.lockExpr.(*ast.CallExpr); ok && len(call.Args) == 0 {
		if sel, ok := call.Fun.(*ast.SelectorExpr); ok && sel.Sel.Name == "PoolPrefix" {
			ctor, ok := c.resolve(sel.X).(*ast.CallExpr)
			if !ok || c.canon(ctor.Fun) != "util.NewKeyObj" || len(ctor.Args) != 5 {
				return "", fmt.Errorf("%s: preAllocateIP: lock key %s is not util.NewKeyObj(5 args).PoolPrefix()", poolGo, pf.lockArg)
			}
			val := map[string]string{}
			for i, a := range ctor.Args {
				v, err := leanConcat(c, a, leaf)
				if err != nil {
					return "", fmt.Errorf("%s: preAllocateIP: %v", poolGo, err)
				}
				val[k.fieldOfArg[i]] = v
			}
			return fmt.Sprintf("poolPrefixFn (%s) (%s) (%s) (%s)", val["PoolName"], val["AppTypePrefix"], val["Namespace"],
				val["AppName"]), nil
		}
	}
	v, err := leanConcat(c, pf.lockExpr, leaf)
	if err != nil {
		return "", fmt.Errorf("%s: preAllocateIP locks %q - an expression this translator cannot turn into a function", poolGo, pf.lockArg)
	}
	return v, nil
}

// ---------------------------------------------------------------------------------------------------- server wiring

func analyseServer(sv *fg.Parsed) (lock, ipam, lockText string, err error) {
	for _, d := range sv.File.Decls {
		fd, ok := d.(*ast.FuncDecl)
		if !ok || fd.Body == nil {
			continue
		}
		c := newCtx(&pkgIndex{funcs: map[string]*fnRef{}}, &fnRef{sv, fd}, nil, nil)
		ast.Inspect(fd.Body, func(n ast.Node) bool {
			cl, ok := n.(*ast.CompositeLit)
			if !ok || sv.Src(cl.Type) != "api.PoolController" {
				return true
			}
			for _, el := range cl.Elts {
				if kv, ok := el.(*ast.KeyValueExpr); ok {
					switch sv.Src(kv.Key) {
					case "LockPoolFunc":
						lock, lockText = c.canon(kv.Value), sv.Src(kv.Value)
					case "IPAM":
						ipam = c.canon(kv.Value)
					}
				}
			}
			return true
		})
	}
	if lock == "" {
		return "", "", "", fmt.Errorf("%s: api.PoolController literal with LockPoolFunc not found", srvGo)
	}
	return lock, ipam, lockText, nil
}

// ---------------------------------------------------------------------------------------------------- emission

func gen(repo string) (map[string]string, error) {
	var b strings.Builder
	b.WriteString(fg.Header("pool-lock discipline, lock-key functions and counting rule behind property C07",
		plugDir+"filter.go", plugDir+"ipam.go", plugDir+"deployment.go", utilsGo, poolGo, srvGo))
	b.WriteString("namespace Galaxy.Generated.C07\n\n")

	ut, err := fg.ParseFile(repo, utilsGo)
	if err != nil {
		return nil, err
	}
	consts := map[string]string{}
	for _, c := range []string{"poolPrefix", "DeploymentPrefixKey", "StatefulsetPrefixKey"} {
		v, err := ut.ConstString(c)
		if err != nil {
			return nil, err
		}
		consts[c] = v
	}
	utilPkg, err := loadPkg(repo, plugDir+"util")
	if err != nil {
		return nil, err
	}
	keys, err := analyseKeys(utilPkg, consts)
	if err != nil {
		return nil, err
	}
	b.WriteString("/-- `KeyObj.PoolPrefix()` as a function of the key object's fields (translated from its two fmt.Sprintf calls) -/\n")
	fmt.Fprintf(&b, "def poolPrefixFn (poolName appTypePrefix ns appName : String) : String :=\n  if poolName ≠ \"\" then %s else %s\n\n",
		keys.poolPrefixThen, keys.poolPrefixElse)

	plug, err := loadPkg(repo, strings.TrimSuffix(plugDir, "/"))
	if err != nil {
		return nil, err
	}
	ff, err := analyseFilter(plug)
	if err != nil {
		return nil, err
	}
	b.WriteString("/-- getSubnet: `defer p.LockDpPool(keyObj.PoolPrefix())()` is taken (for deployment pods) before getAvailableSubnet -/\n")
	fmt.Fprintf(&b, "def filterLocksBeforeCount : Bool := %s\n", fg.LeanBool(ff.locksBeforeCount))
	b.WriteString("/-- ... and, the unlock being deferred to the return of getSubnet, still held in allocateDuringFilter -/\n")
	fmt.Fprintf(&b, "def filterHoldsAcrossAlloc : Bool := %s\n", fg.LeanBool(ff.holdsAcrossAlloc))
	b.WriteString("/-- the size is read (getDpReplicas, from the Pool lister) before the pool lock is taken -/\n")
	fmt.Fprintf(&b, "def sizeReadBeforeLock : Bool := %s\n", fg.LeanBool(ff.sizeBeforeLock))
	b.WriteString("/-- the key object of getSubnet is util.FormatKey(pod) -/\n")
	fmt.Fprintf(&b, "def filterKeyIsPodKey : Bool := %s\n", fg.LeanBool(ff.keyIsPodKey))
	switch ff.lockKind {
	case "PoolPrefix":
		b.WriteString("/-- the string getSubnet locks: `keyObj.PoolPrefix()` of the pod's key object -/\n")
		b.WriteString("def filterLockKey (poolName appTypePrefix ns appName : String) : String :=\n  poolPrefixFn poolName appTypePrefix ns appName\n")
	case "PoolName":
		b.WriteString("def filterLockKey (poolName _appTypePrefix _ns _appName : String) : String := poolName\n")
	default:
		// no lock / a per-pod string: every pod locks something else
		b.WriteString("def filterLockKey (poolName appTypePrefix ns appName : String) : String :=\n  \"<no-common-lock>\" ++ poolName ++ appTypePrefix ++ ns ++ appName\n")
	}
	b.WriteString("/-- condition under which getSubnet allocates during filter -/\n")
	fmt.Fprintf(&b, "def allocCondText : String := %s\n", fg.LeanStr(ff.allocCondText))
	fmt.Fprintf(&b, "def allocatesWhenReserveOrSized : Bool := %s\n", fg.LeanBool(ff.allocCondOK))
	b.WriteString("/-- allocateDuringFilter: reserve => re-key a record of PoolPrefix() to the pod's key; else sized => a free address under the pod's key -/\n")
	fmt.Fprintf(&b, "def allocateDuringFilterShape : Bool := %s\n\n", fg.LeanBool(ff.adfShape))
	b.WriteString("/-- getAvailableSubnet counts the records of `ByPrefix(keyObj.PoolPrefix())` - the locked string (same keyObj) -/\n")
	fmt.Fprintf(&b, "def filterCountsLockedPrefix : Bool := %s\n", fg.LeanBool(ff.countsLockedPrefix))
	b.WriteString("/-- the counting rule: a record of the prefix counts as used when ... -/\n")
	fmt.Fprintf(&b, "def usedRuleText : String := %s\n", fg.LeanStr(ff.ruleText))
	fmt.Fprintf(&b, "def countsAllWhenSized : Bool := %s\n", fg.LeanBool(ff.countsAll))
	b.WriteString("/-- the refusal: `if usedCount >= replicas { return .. error }` -/\n")
	fmt.Fprintf(&b, "def usedCmpText : String := %s\n", fg.LeanStr(ff.cmpText))
	fmt.Fprintf(&b, "def refusesWhenUsedGeSize : Bool := %s\n\n", fg.LeanBool(ff.cmpOp == ">="))
	b.WriteString("/-- getDpReplicas: a Pool object found in the lister answers (pool.Size, isPoolSizeDefined = true) -/\n")
	fmt.Fprintf(&b, "def sizeFromPoolObject : Bool := %s\n", fg.LeanBool(ff.sizeFromPool))
	b.WriteString("/-- LockDpPool(x) locks the keyed mutex on exactly the string x and returns its unlock -/\n")
	fmt.Fprintf(&b, "def lockDpPoolIsKeyedMutex : Bool := %s\n\n", fg.LeanBool(ff.keyedMutex))

	api, err := loadPkg(repo, filepath.Dir(poolGo))
	if err != nil {
		return nil, err
	}
	pf, err := analysePre(api)
	if err != nil {
		return nil, err
	}
	b.WriteString("/-- preAllocateIP: `defer c.LockPoolFunc(poolPrefix)()` is taken before the count `c.IPAM.ByPrefix(..)` -/\n")
	fmt.Fprintf(&b, "def preLocksBeforeCount : Bool := %s\n", fg.LeanBool(pf.locksBeforeCount))
	b.WriteString("/-- ... and, being deferred, is held across the whole allocation loop -/\n")
	fmt.Fprintf(&b, "def preHoldsAcrossLoop : Bool := %s\n", fg.LeanBool(pf.holdsAcrossLoop))
	b.WriteString("/-- preAllocateIP counts and allocates under the very string it locks -/\n")
	fmt.Fprintf(&b, "def preCountsAndAllocatesLockedPrefix : Bool := %s\n", fg.LeanBool(pf.sameKey))
	key, err := apiLockKeyLean(pf, keys)
	if err != nil {
		return nil, err
	}
	b.WriteString("/-- the string preAllocateIP locks, as a function of the pool name of the request -/\n")
	fmt.Fprintf(&b, "def apiLockKey (poolName : String) : String :=\n  %s\n", key)
	lockText := ""
	if pf.lockExpr != nil {
		lockText = pf.c.p.Src(pf.lockExpr)
	}
	fmt.Fprintf(&b, "def apiLockKeyText : String := %s\n\n", fg.LeanStr(lockText))

	sv, err := fg.ParseFile(repo, srvGo)
	if err != nil {
		return nil, err
	}
	wiredLock, wiredIPAM, wiredText, err := analyseServer(sv)
	if err != nil {
		return nil, err
	}
	b.WriteString("/-- the server gives the pool controller the plugin's own keyed pool lock and the plugin's own IPAM -/\n")
	fmt.Fprintf(&b, "def lockWiredText : String := %s\n", fg.LeanStr(wiredText))
	fmt.Fprintf(&b, "def lockWired : Bool := %s\n", fg.LeanBool(wiredLock == "recv.plugin.LockDpPool"))
	fmt.Fprintf(&b, "def ipamShared : Bool := %s\n", fg.LeanBool(wiredIPAM == "recv.plugin.GetIpam()"))

	b.WriteString("\nend Galaxy.Generated.C07\n")
	return map[string]string{"C07.lean": b.String()}, nil
}

func main() { fg.Run("c07", gen) }
