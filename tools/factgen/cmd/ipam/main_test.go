package main

// Unit tests of the normaliser / shape recognition (harmless/NORMALISE.md) on miniature Go snippets: every fact is
// tested in both directions — rewrites which must keep it, changes which must flip it.

import (
	"os"
	"path/filepath"
	"testing"

	"factgen/fg"
)

const prelude = `package floatingip

type crdIpam struct {
	client          client
	cacheLock       *RWMutex
	allocatedFIPs   map[string]*FloatingIP
	unallocatedFIPs map[string]*FloatingIP
	FloatingIPs     []*Pool
}

func (ci *crdIpam) createFloatingIP(a *FloatingIP) error {
	_, err := ci.client.GalaxyV1alpha1().FloatingIPs().Create(ctx, obj(a), opts)
	return err
}
func (ci *crdIpam) deleteFloatingIP(name string) error {
	return ci.client.GalaxyV1alpha1().FloatingIPs().Delete(ctx, name, opts)
}
func (ci *crdIpam) updateFloatingIP(a *FloatingIP) error {
	fip, err := ci.client.GalaxyV1alpha1().FloatingIPs().Get(ctx, a.IP.String(), opts)
	if err != nil {
		return err
	}
	if err := assign(fip, a); err != nil {
		return err
	}
	_, err = ci.client.GalaxyV1alpha1().FloatingIPs().Update(ctx, fip, opts)
	return err
}
func (ci *crdIpam) listFloatingIPs() (*List, error) {
	return ci.client.GalaxyV1alpha1().FloatingIPs().List(ctx, opts)
}
func (ci *crdIpam) syncCacheAfterCreate(f *FloatingIP) {
	ci.allocatedFIPs[f.IP.String()] = f
	delete(ci.unallocatedFIPs, f.IP.String())
}
func (ci *crdIpam) syncCacheAfterDel(f *FloatingIP) {
	f.Assign("", nil, now())
	f.Labels = nil
	delete(ci.allocatedFIPs, f.IP.String())
	ci.unallocatedFIPs[f.IP.String()] = f
}
`

func world1(t *testing.T, body string) *world {
	t.Helper()
	dir := t.TempDir()
	if err := os.WriteFile(filepath.Join(dir, "x.go"), []byte(prelude+body), 0o644); err != nil {
		t.Fatal(err)
	}
	p, err := fg.ParseFile(dir, "x.go")
	if err != nil {
		t.Fatalf("parse: %v\n%s", err, body)
	}
	return newWorld(p)
}

type tc struct {
	name string
	src  string
	want bool
}

func TestCreateReturnsCreateError(t *testing.T) {
	mk := func(body string) string {
		return "func (c *crdIpam) createX(allocated *FloatingIP) error {\n" + body + "\n}\n"
	}
	cases := []tc{
		{"long form", mk(`fip := c.newFIPCrd(allocated.IP.String())
	if err := assign(fip, allocated); err != nil { return err }
	if _, err := c.client.GalaxyV1alpha1().FloatingIPs().Create(ctx, fip, opts); err != nil { return err }
	return nil`), true},
		{"item 9: short form, renamed error", mk(`fip := c.newFIPCrd(allocated.IP.String())
	if e := assign(fip, allocated); e != nil { return e }
	_, cerr := c.client.GalaxyV1alpha1().FloatingIPs().Create(ctx, fip, opts)
	return cerr`), true},
		{"two-statement check, nil on the left, log in between", mk(`fip := c.newFIPCrd(allocated.IP.String())
	_, err := c.client.GalaxyV1alpha1().FloatingIPs().Create(ctx, fip, opts)
	glog.V(4).Infof("created %v", fip)
	if nil != err { glog.Errorf("x"); return err }
	return nil`), true},
		{"take-over on AlreadyExists", mk(`fip := c.newFIPCrd(allocated.IP.String())
	if _, err := c.client.GalaxyV1alpha1().FloatingIPs().Create(ctx, fip, opts); err != nil {
		if !apierrors.IsAlreadyExists(err) { return err }
		return c.updateFloatingIP(allocated)
	}
	return nil`), false},
		{"error swallowed", mk(`fip := c.newFIPCrd(allocated.IP.String())
	if _, err := c.client.GalaxyV1alpha1().FloatingIPs().Create(ctx, fip, opts); err != nil { glog.Error(err) }
	return nil`), false},
		{"another error returned", mk(`fip := c.newFIPCrd(allocated.IP.String())
	if _, err := c.client.GalaxyV1alpha1().FloatingIPs().Create(ctx, fip, opts); err != nil { return ErrBusy }
	return nil`), false},
	}
	for _, c := range cases {
		if got := world1(t, c.src).fn("createX").createReturnsCreateError(); got != c.want {
			t.Errorf("%s: got %v want %v", c.name, got, c.want)
		}
	}
}

func TestStoreBeforeMemory(t *testing.T) {
	cases := []tc{
		{"if-init guard", `func (ci *crdIpam) M(v *FloatingIP) error {
	if err := ci.deleteFloatingIP(v.Key); err != nil { return err }
	ci.syncCacheAfterDel(v)
	return nil }`, true},
		{"two statements, renamed receiver and error, log, nil first", `func (x *crdIpam) M(v *FloatingIP) error {
	e := x.deleteFloatingIP(v.Key)
	glog.Infof("deleted")
	if nil != e { glog.Errorf("no"); return e }
	x.syncCacheAfterDel(v)
	return nil }`, true},
		{"positive polarity", `func (ci *crdIpam) M(v *FloatingIP) error {
	err := ci.deleteFloatingIP(v.Key)
	if err == nil { ci.syncCacheAfterDel(v) }
	return err }`, true},
		{"cache write through an extracted helper, store call through another", `func (ci *crdIpam) drop(v *FloatingIP) error { return ci.deleteFloatingIP(v.Key) }
func (ci *crdIpam) forget(v *FloatingIP) { ci.syncCacheAfterDel(v) }
func (ci *crdIpam) M(v *FloatingIP) error {
	if err := ci.drop(v); err != nil { return err }
	ci.forget(v)
	return nil }`, true},
		{"update then Assign on the cached record, clone is fresh", `func (ci *crdIpam) M(k string, a *Attr) error {
	v := ci.allocatedFIPs[k]
	c := v.CloneWith(k, a, now())
	c.Labels = nil
	if err := ci.updateFloatingIP(c); err != nil { return err }
	v.Assign(k, a, now())
	return nil }`, true},
		{"loop with all creates, then the cache loop", `func (ci *crdIpam) M(l []*FloatingIP) error {
	for _, f := range l {
		if err := ci.createFloatingIP(f); err != nil { return err }
	}
	for i := range l { ci.syncCacheAfterCreate(l[i]) }
	return nil }`, true},
		{"keep in memory when the delete failed", `func (ci *crdIpam) M(l []*FloatingIP, i int) error {
	err := ci.createFloatingIP(l[i])
	if err != nil {
		for j := 0; j < i; j++ {
			if derr := ci.deleteFloatingIP(l[j].Key); derr != nil { ci.syncCacheAfterCreate(l[j]) }
		}
		return err
	}
	ci.syncCacheAfterCreate(l[i])
	return nil }`, true},
		{"memory first", `func (ci *crdIpam) M(v *FloatingIP) error {
	ci.syncCacheAfterDel(v)
	if err := ci.deleteFloatingIP(v.Key); err != nil { return err }
	return nil }`, false},
		{"error not returned", `func (ci *crdIpam) M(v *FloatingIP) error {
	if err := ci.deleteFloatingIP(v.Key); err != nil { glog.Error(err) }
	ci.syncCacheAfterDel(v)
	return nil }`, false},
		{"result ignored", `func (ci *crdIpam) M(v *FloatingIP) error {
	ci.deleteFloatingIP(v.Key)
	ci.syncCacheAfterDel(v)
	return nil }`, false},
		{"cache write in the failure branch of a create", `func (ci *crdIpam) M(v *FloatingIP) error {
	if err := ci.createFloatingIP(v); err != nil { ci.syncCacheAfterCreate(v); return err }
	ci.syncCacheAfterCreate(v)
	return nil }`, false},
		{"wrong error variable checked", `func (ci *crdIpam) M(v *FloatingIP, other error) error {
	err := ci.deleteFloatingIP(v.Key)
	if other != nil { return other }
	ci.syncCacheAfterDel(v)
	return err }`, false},
	}
	for _, c := range cases {
		if got := world1(t, c.src).fn("M").storeBeforeMemory(); got != c.want {
			t.Errorf("%s: got %v want %v", c.name, got, c.want)
		}
	}
}

func TestLocks(t *testing.T) {
	type lc struct{ name, src, mode string }
	cases := []lc{
		{"plain", `func (ci *crdIpam) M(k string) *FloatingIP {
	ci.cacheLock.Lock()
	defer ci.cacheLock.Unlock()
	return ci.allocatedFIPs[k] }`, "Lock"},
		{"alias, log between, renamed receiver, pure prologue", `func (c *crdIpam) M(k string) *FloatingIP {
	if k == "" { return nil }
	mu := c.cacheLock
	mu.RLock()
	glog.V(5).Infof("locked")
	defer mu.RUnlock()
	return c.allocatedFIPs[k] }`, "RLock"},
		{"helper reads under the lock", `func (ci *crdIpam) find(k string) *FloatingIP { return ci.allocatedFIPs[k] }
func (ci *crdIpam) M(k string) *FloatingIP {
	ci.cacheLock.RLock()
	defer ci.cacheLock.RUnlock()
	return ci.find(k) }`, "RLock"},
		{"delegation to a method which locks itself", `func (ci *crdIpam) Other(k string) *FloatingIP {
	ci.cacheLock.Lock()
	defer ci.cacheLock.Unlock()
	return ci.allocatedFIPs[k] }
func (ci *crdIpam) M(k string) *FloatingIP {
	if k == "" { return ci.Other("x") }
	ci.cacheLock.Lock()
	defer ci.cacheLock.Unlock()
	return ci.allocatedFIPs[k] }`, "Lock"},
		{"access before the lock", `func (ci *crdIpam) M(k string) *FloatingIP {
	v := ci.allocatedFIPs[k]
	ci.cacheLock.Lock()
	defer ci.cacheLock.Unlock()
	return v }`, "none"},
		{"helper reads before the lock", `func (ci *crdIpam) find(k string) *FloatingIP { return ci.allocatedFIPs[k] }
func (ci *crdIpam) M(k string) *FloatingIP {
	v := ci.find(k)
	ci.cacheLock.Lock()
	defer ci.cacheLock.Unlock()
	return v }`, "none"},
		{"store call between lock and second lock (unlock in the middle)", `func (ci *crdIpam) M(k string) error {
	ci.cacheLock.RLock()
	_, err := ci.listFloatingIPs()
	ci.cacheLock.RUnlock()
	ci.cacheLock.Lock()
	defer ci.cacheLock.Unlock()
	ci.allocatedFIPs = nil
	return err }`, "none"},
		{"wrong unlock deferred", `func (ci *crdIpam) M(k string) *FloatingIP {
	ci.cacheLock.Lock()
	defer ci.cacheLock.RUnlock()
	return ci.allocatedFIPs[k] }`, "none"},
	}
	for _, c := range cases {
		if got := world1(t, c.src).fn("M").lockFacts().mode; got != c.mode {
			t.Errorf("%s: got %s want %s", c.name, got, c.mode)
		}
	}
}

func TestListUnderLock(t *testing.T) {
	under := func(src string) bool {
		f := world1(t, src).fn("M")
		lf := f.lockFacts()
		i := f.firstIndex(lf.list, func(v map[string]bool, _, _ bool) bool { return v["list"] })
		return lf.mode == "Lock" && i > lf.lockIdx
	}
	if !under(`func (ci *crdIpam) load() (*List, error) { glog.Info("x"); return ci.listFloatingIPs() }
func (ci *crdIpam) M() error {
	ci.cacheLock.Lock()
	defer ci.cacheLock.Unlock()
	l, err := ci.load()
	if err != nil { return err }
	ci.allocatedFIPs = conv(l)
	return nil }`) {
		t.Error("list through a helper under the lock: want true")
	}
	if under(`func (ci *crdIpam) M() error {
	l, err := ci.listFloatingIPs()
	if err != nil { return err }
	ci.cacheLock.Lock()
	defer ci.cacheLock.Unlock()
	ci.allocatedFIPs = conv(l)
	return nil }`) {
		t.Error("list before the lock: want false")
	}
}

func TestRollback(t *testing.T) {
	mk := func(loop string) string {
		return `func (ci *crdIpam) M(names []string, key string) error {
	var fips []*FloatingIP
	for i, n := range names {
		a := New(nil, n, key)
		if err := ci.createFloatingIP(a); err != nil {
			glog.Errorf("failed %s", n)
			` + loop + `
			return err
		}
		fips = append(fips, a)
	}
	for k := range fips { ci.syncCacheAfterCreate(fips[k]) }
	return nil }`
	}
	type rc struct {
		name, loop             string
		present, covers, keeps bool
	}
	cases := []rc{
		{"range + break, keep unless NotFound", `for j := range names {
				if j == i { break }
				if err := ci.deleteFloatingIP(names[j]); err != nil {
					glog.Errorf("x")
					if !apierrors.IsNotFound(err) { ci.syncCacheAfterCreate(fips[j]) }
				}
			}`, true, true, true},
		{"counted loop, renamed, guard clause for NotFound", `for q := 0; q < i; q++ {
				derr := ci.deleteFloatingIP(names[q])
				if derr != nil {
					if apierrors.IsNotFound(derr) { continue }
					ci.syncCacheAfterCreate(fips[q])
				}
			}`, true, true, true},
		{"range over the prefix", `for j, n2 := range names[:i] {
				if err := ci.deleteFloatingIP(n2); err != nil {
					if !apierrors.IsNotFound(err) { ci.syncCacheAfterCreate(fips[j]) }
				}
			}`, true, true, true},
		{"pre-fix: errors ignored", `for j := range names {
				if j == i { break }
				if err := ci.deleteFloatingIP(names[j]); err != nil { glog.Errorf("x") }
			}`, true, true, false},
		{"stops one early", `for j := range names {
				if j == i-1 { break }
				if err := ci.deleteFloatingIP(names[j]); err != nil { glog.Errorf("x") }
			}`, true, false, false},
		{"skips the first", `for j := 1; j < i; j++ {
				if err := ci.deleteFloatingIP(names[j]); err != nil { glog.Errorf("x") }
			}`, true, false, false},
		{"skips odd ones", `for j := range names {
				if j == i { break }
				if j%2 == 1 { continue }
				if err := ci.deleteFloatingIP(names[j]); err != nil { glog.Errorf("x") }
			}`, true, false, false},
		{"keeps the wrong record", `for j := range names {
				if j == i { break }
				if err := ci.deleteFloatingIP(names[j]); err != nil {
					if !apierrors.IsNotFound(err) { ci.syncCacheAfterCreate(fips[0]) }
				}
			}`, true, true, false},
		{"no rollback", `glog.Errorf("giving up")`, false, false, false},
	}
	for _, c := range cases {
		f := world1(t, mk(c.loop)).fn("M")
		got := f.rollbackFacts()
		if got.present != c.present || got.covers != c.covers || got.keeps != c.keeps {
			t.Errorf("%s: got %+v want present=%v covers=%v keeps=%v", c.name, got, c.present, c.covers, c.keeps)
		}
		if !f.memoryAfterAllCreates() {
			t.Errorf("%s: memoryAfterAllCreates should hold", c.name)
		}
	}
	early := world1(t, `func (ci *crdIpam) M(l []*FloatingIP) error {
	for _, a := range l {
		if err := ci.createFloatingIP(a); err != nil { return err }
		ci.syncCacheAfterCreate(a)
	}
	return nil }`).fn("M")
	if early.memoryAfterAllCreates() {
		t.Error("cache update inside the create loop: memoryAfterAllCreates must be false")
	}
}

func TestUnassignChecksReserved(t *testing.T) {
	mk := func(body string) string {
		return "func (ci *crdIpam) H(fip *Obj) error {\n\tipStr := fip.Name\n\tallocated, ok := ci.allocatedFIPs[ipStr]\n\tif !ok { return errGone }\n" + body + "\n}\n"
	}
	cases := []tc{
		{"guard clause", mk(`if _, ok := allocated.Labels[constant.ReserveFIPLabel]; !ok { return errNotReserved }
	ci.syncCacheAfterDel(allocated)
	return nil`), true},
		{"named boolean, positive form", mk(`_, reserved := allocated.Labels[constant.ReserveFIPLabel]
	if reserved {
		ci.syncCacheAfterDel(allocated)
		glog.Infof("released")
		return nil
	}
	return errNotReserved`), true},
		{"no check", mk(`ci.syncCacheAfterDel(allocated)
	return nil`), false},
		{"check without consequence", mk(`if _, ok := allocated.Labels[constant.ReserveFIPLabel]; !ok { glog.Warning("hm") }
	ci.syncCacheAfterDel(allocated)
	return nil`), false},
		{"label of the event object instead of the cached record", mk(`if _, ok := fip.Labels[constant.ReserveFIPLabel]; !ok { return errNotReserved }
	ci.syncCacheAfterDel(allocated)
	return nil`), false},
	}
	for _, c := range cases {
		if got := world1(t, c.src).fn("H").unassignChecksReserved(); got != c.want {
			t.Errorf("%s: got %v want %v", c.name, got, c.want)
		}
	}
}

func TestIntersectionSeed(t *testing.T) {
	mk := func(ifstmt string) string {
		return `func (ci *crdIpam) N(ipranges [][]Range) Set {
	subnetSet := NewSet()
	insertSubnet := func(a IntSet, b Set) { b.Insert(ci.FloatingIPs[0].name) }
	ci.cacheLock.RLock()
	defer ci.cacheLock.RUnlock()
	for i, ranges := range ipranges {
		poolIndexSet := pools(ranges)
		` + ifstmt + `
	}
	return subnetSet }`
	}
	cases := []tc{
		{"i == 0", mk(`if i == 0 { insertSubnet(poolIndexSet, subnetSet) } else { part := NewSet(); insertSubnet(poolIndexSet, part); subnetSet = subnetSet.Intersection(part) }`), true},
		{"0 == i with a log", mk(`if 0 == i { glog.Info("seed"); insertSubnet(poolIndexSet, subnetSet) } else { part := NewSet(); insertSubnet(poolIndexSet, part); subnetSet = subnetSet.Intersection(part) }`), true},
		{"branches swapped", mk(`if i > 0 { part := NewSet(); insertSubnet(poolIndexSet, part); subnetSet = subnetSet.Intersection(part) } else { insertSubnet(poolIndexSet, subnetSet) }`), true},
		{"seeded whenever the set is empty (D7)", mk(`if subnetSet.Len() == 0 { insertSubnet(poolIndexSet, subnetSet) } else { part := NewSet(); insertSubnet(poolIndexSet, part); subnetSet = subnetSet.Intersection(part) }`), false},
		{"seeded on every list but the first", mk(`if i != 0 { insertSubnet(poolIndexSet, subnetSet) } else { part := NewSet(); insertSubnet(poolIndexSet, part); subnetSet = subnetSet.Intersection(part) }`), false},
	}
	for _, c := range cases {
		if got := world1(t, c.src).fn("N").intersectionSeededOnFirst(); got != c.want {
			t.Errorf("%s: got %v want %v", c.name, got, c.want)
		}
	}
}

func TestGetAssignUpdate(t *testing.T) {
	w := world1(t, "")
	if !w.fn("updateFloatingIP").getAssignUpdate() {
		t.Error("Get, assign, Update: want true")
	}
	w2 := world1(t, `func (ci *crdIpam) U(a *FloatingIP) error {
	fip := obj(a)
	_, err := ci.client.GalaxyV1alpha1().FloatingIPs().Update(ctx, fip, opts)
	return err }`)
	if w2.fn("U").getAssignUpdate() {
		t.Error("Update without Get: want false")
	}
}

func TestListIsConsistentRead(t *testing.T) {
	mk := func(body string) string { return "func (ci *crdIpam) L() (*List, error) {\n" + body + "\n}\n" }
	cases := []tc{
		{"empty literal", mk(`return ci.client.GalaxyV1alpha1().FloatingIPs().List(ctx, metav1.ListOptions{})`), true},
		{"named empty options", mk(`opts := metav1.ListOptions{}
	l, err := ci.client.GalaxyV1alpha1().FloatingIPs().List(ctx, opts)
	if err != nil { return nil, err }
	return l, nil`), true},
		{"var declaration", mk(`var o metav1.ListOptions
	return ci.client.GalaxyV1alpha1().FloatingIPs().List(ctx, o)`), true},
		{"resourceVersion 0 (watch cache)", mk(`return ci.client.GalaxyV1alpha1().FloatingIPs().List(ctx, metav1.ListOptions{ResourceVersion: "0"})`), false},
		{"field set later", mk(`o := metav1.ListOptions{}
	o.ResourceVersion = "0"
	return ci.client.GalaxyV1alpha1().FloatingIPs().List(ctx, o)`), false},
	}
	for _, c := range cases {
		if got := world1(t, c.src).fn("L").listIsConsistentRead(); got != c.want {
			t.Errorf("%s: got %v want %v", c.name, got, c.want)
		}
	}
}

// the real source tree: every fact has the expected value (the same expectations the Lean `fact_*` theorems pin)
func TestRepo(t *testing.T) {
	repo := os.Getenv("GALAXY_REPO")
	if repo == "" {
		repo = "/repo"
	}
	ic, err := fg.ParseFile(repo, "pkg/ipam/floatingip/ipam_crd.go")
	if err != nil {
		t.Skip("no repo")
	}
	sc, err := fg.ParseFile(repo, "pkg/ipam/floatingip/store_crd.go")
	if err != nil {
		t.Skip("no repo")
	}
	f, err := compute(ic, sc)
	if err != nil {
		t.Fatal(err)
	}
	for m, v := range f.sbm {
		if !v {
			t.Errorf("storeBeforeMemory %s = false", m)
		}
	}
	for m, v := range f.locks {
		if v == "none" {
			t.Errorf("holdsCacheLock %s = none", m)
		}
	}
	for m, v := range f.bools {
		if !v {
			t.Errorf("%s = false", m)
		}
	}
}
