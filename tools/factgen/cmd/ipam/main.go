// factgen/ipam: regenerates lean/Galaxy/Generated/Ipam.lean from the CURRENT text of
//
//	pkg/ipam/floatingip/ipam_crd.go   (every crdIpam method, walkIPRanges)
//	pkg/ipam/floatingip/store_crd.go  (handleFIPAssign, handleFIPUnassign, updateFloatingIP)
//
// Purely syntactic (go/ast, no type checking).  Structural facts of the store-first discipline:
//
//	storeBeforeMemory f   every write to the caches in f comes after a store call whose error is checked and makes the
//	                      function return (or inside the failure branch of a delete)
//	holdsCacheLock f      "Lock" / "RLock" / "none": the receiver's cacheLock is taken and its unlock deferred before the
//	                      first access to shared state / store, and there is no other unlock in f
//	configurePoolListsUnderLock, allocateSpecificAtomic, rollbackOnCreateFailure, rollbackCoversAllCreated,
//	intersectionSeededOnFirstOnly, walkOverflowSafe, handlersMakeNoStoreCall, updateIsGetThenUpdate
//
// Shapes are recognised SEMANTICALLY (norm.go: logs dropped, if-init split, names taken from the code, error checks in both
// polarities, helpers followed through summaries), so behaviour-preserving rewrites keep the facts.
// A function that is missing makes the translator fail; a function whose shape is not the expected one makes the
// fact `false` (the proofs that depend on it then fail to build, the harness still runs and looks for a failing input).
package main

import (
	"fmt"
	"go/ast"
	"go/token"
	"sort"
	"strings"

	"factgen/fg"
)

func main() { fg.Run("ipam", gen) }

func walkSafe(p *fg.Parsed, fd *ast.FuncDecl) bool {
	var loop *ast.ForStmt
	ast.Inspect(fd.Body, func(x ast.Node) bool {
		if f, ok := x.(*ast.ForStmt); ok {
			loop = f
		}
		return true
	})
	if loop == nil || loop.Cond == nil || loop.Post == nil {
		return false
	}
	be, ok := loop.Cond.(*ast.BinaryExpr)
	if !ok {
		return false
	}
	ctr, lim := p.Src(be.X), p.Src(be.Y)
	if strings.Join(strings.Fields(p.Src(loop.Post)), "") != ctr+"++" && strings.Join(strings.Fields(p.Src(loop.Post)), "") != ctr+"+=1" {
		return false
	}
	wide := map[string]bool{}
	ast.Inspect(fd.Body, func(x ast.Node) bool {
		if a, ok := x.(*ast.AssignStmt); ok && a.Tok == token.DEFINE && len(a.Lhs) == 1 && len(a.Rhs) == 1 {
			r := p.Src(a.Rhs[0])
			if strings.HasPrefix(r, "uint64(") || strings.HasPrefix(r, "int64(") {
				wide[p.Src(a.Lhs[0])] = true
			}
		}
		return true
	})
	switch be.Op {
	case token.LEQ:
		// counter++ after counter == limit must not wrap: both 64 bit, limit converted from a 32-bit value
		if a, ok := loop.Init.(*ast.AssignStmt); ok && len(a.Lhs) == 1 && len(a.Rhs) == 1 {
			r := p.Src(a.Rhs[0])
			if p.Src(a.Lhs[0]) == ctr && (strings.HasPrefix(r, "uint64(") || strings.HasPrefix(r, "int64(")) {
				wide[ctr] = true
			}
		}
		return wide[ctr] && wide[lim]
	}
	return false
}

func gen(repo string) (map[string]string, error) {
	ic, err := fg.ParseFile(repo, "pkg/ipam/floatingip/ipam_crd.go")
	if err != nil {
		return nil, err
	}
	sc, err := fg.ParseFile(repo, "pkg/ipam/floatingip/store_crd.go")
	if err != nil {
		return nil, err
	}
	content, err := genFrom(ic, sc)
	if err != nil {
		return nil, err
	}
	return map[string]string{"Ipam.lean": content}, nil
}

var mutators = []string{"AllocateSpecificIP", "AllocateInSubnet", "AllocateInSubnetWithKey", "ReserveIP", "UpdateAttr",
	"Release", "ReleaseIPs", "AllocateInSubnetsAndIPRange", "ConfigurePool"}

var queries = []string{"First", "ByIP", "ByPrefix", "ByKeyword", "ByKeyAndIPRanges", "NodeSubnet", "NodeSubnetsByIPRanges"}

var handlers = []string{"handleFIPAssign", "handleFIPUnassign"}

// facts computes every fact as (name -> value); the Lean text is rendered from it.
type facts struct {
	sbm   map[string]bool
	locks map[string]string
	bools map[string]bool
}

func compute(ic, sc *fg.Parsed) (*facts, error) {
	w := newWorld(ic, sc)
	need := append(append(append([]string{}, mutators...), queries...), handlers...)
	need = append(need, "createFloatingIP", "updateFloatingIP", "deleteFloatingIP", "listFloatingIPs", "walkConfiguredIPRanges")
	for _, m := range need {
		if w.fn(m) == nil {
			return nil, fmt.Errorf("method crdIpam.%s not found", m)
		}
	}
	f := &facts{sbm: map[string]bool{}, locks: map[string]string{}, bools: map[string]bool{}}
	for _, m := range mutators {
		f.sbm[m] = w.fn(m).storeBeforeMemory()
	}
	lf := map[string]lockFact{}
	for _, m := range append(append(append([]string{}, mutators...), queries...), handlers...) {
		lf[m] = w.fn(m).lockFacts()
		f.locks[m] = lf[m].mode
	}
	cp := w.fn("ConfigurePool")
	cl := lf["ConfigurePool"]
	listIdx := cp.firstIndex(cl.list, func(v map[string]bool, _, _ bool) bool { return v["list"] })
	f.bools["configurePoolListsUnderLock"] = cl.mode == "Lock" && listIdx > cl.lockIdx
	as := w.fn("AllocateSpecificIP")
	al := lf["AllocateSpecificIP"]
	lookIdx := as.firstIndex(al.list, func(_ map[string]bool, _, sh bool) bool { return sh })
	f.bools["allocateSpecificAtomic"] = al.mode == "Lock" && lookIdx > al.lockIdx
	ar := w.fn("AllocateInSubnetsAndIPRange")
	rf := ar.rollbackFacts()
	f.bools["rollbackOnCreateFailure"] = rf.present
	f.bools["rollbackCoversAllCreated"] = rf.covers
	f.bools["rollbackKeepsUndeletedInMemory"] = rf.keeps
	f.bools["memoryUpdatedAfterAllCreates"] = ar.memoryAfterAllCreates()
	f.bools["intersectionSeededOnFirstOnly"] = w.fn("NodeSubnetsByIPRanges").intersectionSeededOnFirst()
	wfd, err := ic.Fn("", "walkIPRanges")
	if err != nil {
		return nil, err
	}
	f.bools["walkOverflowSafe"] = walkSafe(ic, wfd)
	f.bools["unassignEventChecksReserved"] = w.fn("handleFIPUnassign").unassignChecksReserved()
	noStore := true
	for _, m := range handlers {
		if len(w.sum[m].verbs) > 0 {
			noStore = false
		}
	}
	f.bools["handlersMakeNoStoreCall"] = noStore
	f.bools["createReturnsCreateError"] = w.fn("createFloatingIP").createReturnsCreateError()
	f.bools["updateIsGetThenUpdate"] = w.fn("updateFloatingIP").getAssignUpdate()
	wc := w.fn("walkConfiguredIPRanges").walkConfFacts()
	f.bools["walkConfClampsBothEnds"] = wc.clampsBoth
	f.bools["walkConfSortsParts"] = wc.sorts
	f.bools["walkConfDelegatesToWalk"] = wc.delegates
	f.bools["reloadListsApiserver"] = w.fn("listFloatingIPs").listsApiserver()
	f.bools["reloadListIsConsistentRead"] = w.fn("listFloatingIPs").listIsConsistentRead()
	usesWalkConf := true
	for _, m := range []string{"AllocateInSubnetsAndIPRange", "ByKeyAndIPRanges", "NodeSubnetsByIPRanges"} {
		fd := w.decl[m]
		src := w.file[m].Src(fd.Body)
		if !strings.Contains(src, ".walkConfiguredIPRanges(") || strings.Contains(strings.ReplaceAll(src, ".walkConfiguredIPRanges(", ""), "walkIPRanges(") {
			usesWalkConf = false
		}
	}
	f.bools["requestsWalkConfigured"] = usesWalkConf
	return f, nil
}

var boolOrder = []struct{ name, why string }{
	{"configurePoolListsUnderLock", "ConfigurePool takes cacheLock (deferred unlock) before it lists the store"},
	{"allocateSpecificAtomic", "AllocateSpecificIP holds the write lock from the lookup of the free address to the cache update"},
	{"rollbackOnCreateFailure", "AllocateInSubnetsAndIPRange deletes already created objects when a create fails"},
	{"rollbackCoversAllCreated", "the rollback loop visits every index below the failing one and returns the error afterwards"},
	{"rollbackKeepsUndeletedInMemory", "an address whose rollback delete failed with anything but NotFound is put into the allocated table"},
	{"memoryUpdatedAfterAllCreates", "the cache update loop of AllocateInSubnetsAndIPRange follows the loop with all creates"},
	{"intersectionSeededOnFirstOnly", "NodeSubnetsByIPRanges seeds the intersection on the first range list only"},
	{"walkOverflowSafe", "walkIPRanges counts in 64 bits, so `<= last` terminates at 255.255.255.255"},
	{"unassignEventChecksReserved", "handleFIPUnassign only releases a cached record which still carries the reserved label"},
	{"handlersMakeNoStoreCall", "handleFIPAssign / handleFIPUnassign only touch the caches"},
	{"createReturnsCreateError", "createFloatingIP returns the error of the Create call unconditionally: an existing object is never fetched or taken over"},
	{"updateIsGetThenUpdate", "updateFloatingIP = Get, assign, Update (two store calls, labels kept)"},
	{"walkConfClampsBothEnds", "walkConfiguredIPRanges clips EVERY configured range against the requested range at both ends and drops empty parts"},
	{"walkConfSortsParts", "walkConfiguredIPRanges sorts the parts ascending by first address (sort.Slice on IPToInt(First)) before walking them"},
	{"walkConfDelegatesToWalk", "walkConfiguredIPRanges hands the parts to walkIPRanges, forwards the callback's verdict and stops when it stopped"},
	{"requestsWalkConfigured", "AllocateInSubnetsAndIPRange, ByKeyAndIPRanges and NodeSubnetsByIPRanges walk requested ranges through walkConfiguredIPRanges only"},
	{"reloadListsApiserver", "listFloatingIPs (ConfigurePool's view of the store) is a LIST against the API server, not an informer cache"},
	{"reloadListIsConsistentRead", "that LIST carries empty ListOptions: a consistent read, never answered from the API server's watch cache"},
}

func genFrom(ic, sc *fg.Parsed) (string, error) {
	f, err := compute(ic, sc)
	if err != nil {
		return "", err
	}
	var b strings.Builder
	b.WriteString(fg.Header("IPAM (M3): structural facts of crdIpam (store before memory, lock scopes, rollback, reload atomicity)",
		"pkg/ipam/floatingip/ipam_crd.go", "pkg/ipam/floatingip/store_crd.go"))
	b.WriteString("namespace Galaxy.Generated.Ipam\n\n")
	b.WriteString("/-- per mutator: every cache write is preceded by a store call whose error is checked and returned -/\n")
	b.WriteString("def storeBeforeMemory : List (String × Bool) := [\n")
	for i, m := range mutators {
		sep := ","
		if i == len(mutators)-1 {
			sep = ""
		}
		fmt.Fprintf(&b, "  (%s, %s)%s\n", fg.LeanStr(m), fg.LeanBool(f.sbm[m]), sep)
	}
	b.WriteString("]\n\n")
	names := make([]string, 0, len(f.locks))
	for m := range f.locks {
		names = append(names, m)
	}
	sort.Strings(names)
	b.WriteString("/-- per method: mode of `cacheLock` held (with `defer` unlock) from before the first access to shared state -/\n")
	b.WriteString("def holdsCacheLock : List (String × String) := [\n")
	for i, m := range names {
		sep := ","
		if i == len(names)-1 {
			sep = ""
		}
		fmt.Fprintf(&b, "  (%s, %s)%s\n", fg.LeanStr(m), fg.LeanStr(f.locks[m]), sep)
	}
	b.WriteString("]\n\n")
	for _, d := range boolOrder {
		fmt.Fprintf(&b, "/-- %s -/\ndef %s : Bool := %s\n\n", d.why, d.name, fg.LeanBool(f.bools[d.name]))
	}
	b.WriteString("end Galaxy.Generated.Ipam\n")
	return b.String(), nil
}
