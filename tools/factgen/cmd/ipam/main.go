// factgen/ipam: regenerates lean/Galaxy/Generated/Ipam.lean from the CURRENT text of
//
//	pkg/ipam/floatingip/ipam_crd.go   (every crdIpam method, walkIPRanges)
//	pkg/ipam/floatingip/store_crd.go  (handleFIPAssign, handleFIPUnassign, updateFloatingIP)
//
// Purely syntactic (go/ast, no type checking).  Structural facts of the store-first discipline:
//
//	storeBeforeMemory f   every write to the caches in f comes after a store call whose error is checked and
//	                      returned (`if err := ci.xxxFloatingIP(..); err != nil { …; return … }`)
//	holdsCacheLock f      "Lock" / "RLock" / "none": `ci.cacheLock.<mode>()` + `defer ci.cacheLock.<un>()` are the
//	                      first statements touching shared state and there is no other unlock in f
//	configurePoolListsUnderLock, allocateSpecificAtomic, rollbackOnCreateFailure, rollbackCoversAllCreated,
//	intersectionSeededOnFirstOnly, walkOverflowSafe, handlersMakeNoStoreCall, updateIsGetThenUpdate
//
// A function that is missing makes the translator fail; a function whose shape is not the expected one makes the
// fact `false` (the proofs that depend on it then fail to build, the harness still runs and looks for a failing input).
package main

import (
	"fmt"
	"go/ast"
	"go/token"
	"sort"
	"strings"

	"factgen/fg"
)

func main() { fg.Run("ipam", gen) }

func norm(s string) string { return strings.Join(strings.Fields(s), " ") }

var storeCalls = []string{"ci.createFloatingIP", "ci.updateFloatingIP", "ci.deleteFloatingIP", "ci.listFloatingIPs"}

func isStoreCall(p *fg.Parsed, c *ast.CallExpr) bool {
	s := p.Src(c.Fun)
	for _, n := range storeCalls {
		if s == n {
			return true
		}
	}
	return false
}

func containsStoreCall(p *fg.Parsed, n ast.Node) bool {
	found := false
	ast.Inspect(n, func(x ast.Node) bool {
		if c, ok := x.(*ast.CallExpr); ok && isStoreCall(p, c) {
			found = true
		}
		return !found
	})
	return found
}

func endsWithReturn(b *ast.BlockStmt) bool {
	if b == nil || len(b.List) == 0 {
		return false
	}
	_, ok := b.List[len(b.List)-1].(*ast.ReturnStmt)
	return ok
}

// guardedAt: statement i of list is a store call whose error is checked and returned.
// shape A: if err := ci.xxx(..); err != nil { …; return … }
// shape B: x, err := ci.xxx(..)   followed by   if err != nil { …; return … }
func guardedAt(p *fg.Parsed, list []ast.Stmt, i int) bool {
	switch s := list[i].(type) {
	case *ast.IfStmt:
		if s.Init != nil && containsStoreCall(p, s.Init) && norm(p.Src(s.Cond)) == "err != nil" && endsWithReturn(s.Body) {
			return true
		}
	case *ast.AssignStmt:
		if containsStoreCall(p, s) && i+1 < len(list) {
			if f, ok := list[i+1].(*ast.IfStmt); ok && f.Init == nil && norm(p.Src(f.Cond)) == "err != nil" && endsWithReturn(f.Body) {
				return true
			}
		}
	}
	return false
}

// hasGuard: the statement is a guarded store call or a loop whose body contains one (all creates precede the
// cache update loop in AllocateInSubnetsAndIPRange).
func hasGuard(p *fg.Parsed, list []ast.Stmt, i int) bool {
	if guardedAt(p, list, i) {
		return true
	}
	var body *ast.BlockStmt
	switch s := list[i].(type) {
	case *ast.ForStmt:
		body = s.Body
	case *ast.RangeStmt:
		body = s.Body
	}
	if body == nil {
		return false
	}
	return blockHasGuard(p, body)
}

func blockHasGuard(p *fg.Parsed, b *ast.BlockStmt) bool {
	for i := range b.List {
		if hasGuard(p, b.List, i) {
			return true
		}
		// nested plain blocks / ifs inside a loop body
		switch s := b.List[i].(type) {
		case *ast.IfStmt:
			if blockHasGuard(p, s.Body) {
				return true
			}
		case *ast.BlockStmt:
			if blockHasGuard(p, s) {
				return true
			}
		}
	}
	return false
}

// isMemWrite: a statement (not descending into nested blocks) which writes the caches.
func isMemWrite(p *fg.Parsed, s ast.Stmt) bool {
	switch x := s.(type) {
	case *ast.ExprStmt:
		c, ok := x.X.(*ast.CallExpr)
		if !ok {
			return false
		}
		f := p.Src(c.Fun)
		if f == "ci.syncCacheAfterCreate" || f == "ci.syncCacheAfterDel" {
			return true
		}
		if sel, ok := c.Fun.(*ast.SelectorExpr); ok && sel.Sel.Name == "Assign" {
			return true // v.Assign(..) / latest.Assign(..) on a cached object
		}
		if f == "delete" && len(c.Args) > 0 {
			a := p.Src(c.Args[0])
			return a == "ci.allocatedFIPs" || a == "ci.unallocatedFIPs"
		}
	case *ast.AssignStmt:
		for _, l := range x.Lhs {
			t := p.Src(l)
			if strings.HasPrefix(t, "ci.allocatedFIPs") || strings.HasPrefix(t, "ci.unallocatedFIPs") || t == "ci.FloatingIPs" ||
				strings.HasSuffix(t, ".Labels") && !strings.HasPrefix(t, "tmp") {
				return true
			}
		}
	}
	return false
}

// storeBeforeMemory: every cache write has, in one of its enclosing blocks, an earlier statement with a guarded
// store call; and the function has at least one cache write and one store call.
func storeBeforeMemory(p *fg.Parsed, fd *ast.FuncDecl) bool {
	writes, ok := 0, true
	var walk func(b *ast.BlockStmt, guardedOutside bool)
	walk = func(b *ast.BlockStmt, guardedOutside bool) {
		guarded := guardedOutside
		for i, s := range b.List {
			if isMemWrite(p, s) {
				writes++
				if !guarded {
					ok = false
				}
			}
			// descend
			switch x := s.(type) {
			case *ast.IfStmt:
				if !guardedAt(p, b.List, i) {
					walk(x.Body, guarded)
					if e, isB := x.Else.(*ast.BlockStmt); isB {
						walk(e, guarded)
					} else if e, isI := x.Else.(*ast.IfStmt); isI {
						walk(&ast.BlockStmt{List: []ast.Stmt{e}}, guarded)
					}
				}
			case *ast.ForStmt:
				walk(x.Body, guarded)
			case *ast.RangeStmt:
				walk(x.Body, guarded)
			case *ast.BlockStmt:
				walk(x, guarded)
			}
			if hasGuard(p, b.List, i) {
				guarded = true
			}
		}
	}
	walk(fd.Body, false)
	return ok && writes > 0 && containsStoreCall(p, fd.Body)
}

// lock facts ---------------------------------------------------------------------------------------------------

type lockInfo struct {
	mode      string // Lock | RLock | none
	lockIdx   int    // top-level statement index of the lock call
	unlocks   int    // number of Unlock/RUnlock calls in the body
	firstUse  int    // first top-level statement touching shared state / store
	listIdx   int    // first top-level statement containing ci.listFloatingIPs (ConfigurePool)
	lookupIdx int    // first top-level statement mentioning ci.unallocatedFIPs / ci.allocatedFIPs
}

func touchesShared(p *fg.Parsed, s ast.Stmt) bool {
	t := p.Src(s)
	if strings.Contains(t, "ci.cacheLock") {
		return false
	}
	// the deferred log line of ConfigurePool reads the tables when the function returns, i.e. under the lock
	if _, ok := s.(*ast.DeferStmt); ok {
		return false
	}
	// a closure defined before the lock is taken but only called under it (insertSubnet)
	if a, ok := s.(*ast.AssignStmt); ok && len(a.Rhs) == 1 {
		if _, isFn := a.Rhs[0].(*ast.FuncLit); isFn {
			return false
		}
	}
	return strings.Contains(t, "ci.allocatedFIPs") || strings.Contains(t, "ci.unallocatedFIPs") ||
		strings.Contains(t, "ci.FloatingIPs") || containsStoreCall(p, s) ||
		strings.Contains(t, "ci.syncCacheAfter")
}

func lockFacts(p *fg.Parsed, fd *ast.FuncDecl) lockInfo {
	li := lockInfo{mode: "none", lockIdx: -1, firstUse: -1, listIdx: -1, lookupIdx: -1}
	for i, s := range fd.Body.List {
		t := norm(p.Src(s))
		if li.lockIdx < 0 && (t == "ci.cacheLock.Lock()" || t == "ci.cacheLock.RLock()") && i+1 < len(fd.Body.List) {
			want := "defer ci.cacheLock.Unlock()"
			mode := "Lock"
			if t == "ci.cacheLock.RLock()" {
				want, mode = "defer ci.cacheLock.RUnlock()", "RLock"
			}
			if norm(p.Src(fd.Body.List[i+1])) == want {
				li.mode, li.lockIdx = mode, i
			}
		}
		if li.firstUse < 0 && touchesShared(p, s) {
			li.firstUse = i
		}
		if li.listIdx < 0 && strings.Contains(t, "ci.listFloatingIPs(") {
			li.listIdx = i
		}
		if li.lookupIdx < 0 && !strings.Contains(t, "ci.cacheLock") {
			if _, isDefer := s.(*ast.DeferStmt); !isDefer &&
				(strings.Contains(t, "ci.unallocatedFIPs") || strings.Contains(t, "ci.allocatedFIPs")) {
				li.lookupIdx = i
			}
		}
	}
	ast.Inspect(fd.Body, func(x ast.Node) bool {
		if c, ok := x.(*ast.CallExpr); ok {
			f := p.Src(c.Fun)
			if f == "ci.cacheLock.Unlock" || f == "ci.cacheLock.RUnlock" {
				li.unlocks++
			}
		}
		return true
	})
	// the lock only counts if it precedes the first use and is released exactly once (the defer)
	if li.lockIdx < 0 || li.unlocks != 1 || (li.firstUse >= 0 && li.firstUse < li.lockIdx) {
		li.mode = "none"
	}
	return li
}

// rollback facts -----------------------------------------------------------------------------------------------

// returns (present, coversAll)
func rollbackFacts(p *fg.Parsed, fd *ast.FuncDecl) (bool, bool) {
	var guard *ast.IfStmt
	ast.Inspect(fd.Body, func(x ast.Node) bool {
		if f, ok := x.(*ast.IfStmt); ok && guard == nil && f.Init != nil && strings.Contains(p.Src(f.Init), "ci.createFloatingIP(") {
			guard = f
		}
		return guard == nil
	})
	if guard == nil {
		return false, false
	}
	// the index variable and the slice of the enclosing create loop
	var loop *ast.RangeStmt
	ast.Inspect(fd.Body, func(x ast.Node) bool {
		if r, ok := x.(*ast.RangeStmt); ok && r.Body.Pos() <= guard.Pos() && guard.End() <= r.Body.End() {
			loop = r // innermost wins (Inspect is pre-order, so the last assignment is the innermost)
		}
		return true
	})
	if loop == nil || loop.Key == nil {
		return false, false
	}
	idx, slice := p.Src(loop.Key), p.Src(loop.X)
	var rb *ast.RangeStmt
	for _, s := range guard.Body.List {
		if r, ok := s.(*ast.RangeStmt); ok && strings.Contains(p.Src(r), "ci.deleteFloatingIP(") {
			rb = r
		}
	}
	if rb == nil {
		return false, false
	}
	if rb.Key == nil || p.Src(rb.X) != slice || len(rb.Body.List) < 2 {
		return true, false
	}
	j := p.Src(rb.Key)
	// expected body: if j == i { break }  ;  if err := ci.deleteFloatingIP(slice[j]); err != nil { log }
	first := norm(p.Src(rb.Body.List[0]))
	okBreak := first == norm(fmt.Sprintf("if %s == %s { break }", j, idx))
	okDelete := false
	for _, s := range rb.Body.List[1:] {
		if strings.Contains(norm(p.Src(s)), norm(fmt.Sprintf("ci.deleteFloatingIP(%s[%s])", slice, j))) {
			okDelete = true
		}
	}
	// nothing may skip an iteration
	skips := false
	ast.Inspect(rb.Body, func(x ast.Node) bool {
		if b, ok := x.(*ast.BranchStmt); ok && b.Tok == token.CONTINUE {
			skips = true
		}
		return true
	})
	nBreak := 0
	ast.Inspect(rb.Body, func(x ast.Node) bool {
		if b, ok := x.(*ast.BranchStmt); ok && b.Tok == token.BREAK {
			nBreak++
		}
		return true
	})
	return true, okBreak && okDelete && !skips && nBreak == 1 && endsWithReturn(guard.Body)
}

// the memory update of AllocateInSubnetsAndIPRange comes after the loop with all creates
func memoryAfterAllCreates(p *fg.Parsed, fd *ast.FuncDecl) bool {
	createLoop, syncLoop := -1, -1
	for i, s := range fd.Body.List {
		if r, ok := s.(*ast.RangeStmt); ok {
			t := p.Src(r)
			if strings.Contains(t, "ci.createFloatingIP(") && createLoop < 0 {
				createLoop = i
			}
			if strings.Contains(t, "ci.syncCacheAfterCreate(") && !strings.Contains(t, "ci.createFloatingIP(") && syncLoop < 0 {
				syncLoop = i
			}
		}
	}
	return createLoop >= 0 && syncLoop > createLoop
}

// the rollback loop keeps an address allocated in memory when its delete failed with anything but NotFound:
//   if err := ci.deleteFloatingIP(slice[j]); err != nil { …; if !apierrors.IsNotFound(err) { ci.syncCacheAfterCreate(fips[j]) } }
func rollbackKeeps(p *fg.Parsed, fd *ast.FuncDecl) bool {
	res := false
	ast.Inspect(fd.Body, func(x ast.Node) bool {
		f, ok := x.(*ast.IfStmt)
		if !ok || f.Init == nil || !strings.Contains(p.Src(f.Init), "ci.deleteFloatingIP(") || norm(p.Src(f.Cond)) != "err != nil" {
			return true
		}
		arg := ""
		ast.Inspect(f.Init, func(y ast.Node) bool {
			if c, ok := y.(*ast.CallExpr); ok && p.Src(c.Fun) == "ci.deleteFloatingIP" && len(c.Args) == 1 {
				if ix, ok := c.Args[0].(*ast.IndexExpr); ok {
					arg = p.Src(ix.Index)
				}
			}
			return true
		})
		for _, s := range f.Body.List {
			g, ok := s.(*ast.IfStmt)
			if !ok || g.Init != nil || g.Else != nil || norm(p.Src(g.Cond)) != "!apierrors.IsNotFound(err)" {
				continue
			}
			for _, t := range g.Body.List {
				e, ok := t.(*ast.ExprStmt)
				if !ok {
					continue
				}
				c, ok := e.X.(*ast.CallExpr)
				if !ok || p.Src(c.Fun) != "ci.syncCacheAfterCreate" || len(c.Args) != 1 {
					continue
				}
				if ix, ok := c.Args[0].(*ast.IndexExpr); ok && arg != "" && p.Src(ix.Index) == arg {
					res = true
				}
			}
		}
		return true
	})
	return res
}

// handleFIPUnassign returns (without touching the caches) unless the cached record carries the reserved label:
//   if _, ok := allocated.Labels[constant.ReserveFIPLabel]; !ok { return … }   before   ci.syncCacheAfterDel(allocated)
func unassignChecksReserved(p *fg.Parsed, fd *ast.FuncDecl) bool {
	guard, free := -1, -1
	for i, s := range fd.Body.List {
		if f, ok := s.(*ast.IfStmt); ok && f.Init != nil && f.Else == nil &&
			norm(p.Src(f.Init)) == "_, ok := allocated.Labels[constant.ReserveFIPLabel]" && norm(p.Src(f.Cond)) == "!ok" &&
			endsWithReturn(f.Body) && guard < 0 {
			guard = i
		}
		if strings.Contains(p.Src(s), "ci.syncCacheAfterDel(allocated)") && free < 0 {
			free = i
		}
	}
	return guard >= 0 && free > guard
}

// createFloatingIP hands the error of the Create call back unconditionally (no Get / Update / take-over on AlreadyExists):
//   if _, err := ci.client…FloatingIPs().Create(…); err != nil { return err }     and no other client call in the function
func createReturnsCreateError(p *fg.Parsed, fd *ast.FuncDecl) bool {
	ok := false
	ast.Inspect(fd.Body, func(x ast.Node) bool {
		f, is := x.(*ast.IfStmt)
		if !is || f.Init == nil || !strings.Contains(p.Src(f.Init), ".Create(") {
			return true
		}
		if norm(p.Src(f.Cond)) == "err != nil" && f.Else == nil && len(f.Body.List) == 1 && norm(p.Src(f.Body.List[0])) == "return err" {
			ok = true
		}
		return true
	})
	t := p.Src(fd.Body)
	for _, other := range []string{".Get(", ".Update(", ".Patch(", ".Delete(", "updateFloatingIP(", "IsAlreadyExists"} {
		if strings.Contains(t, other) {
			ok = false
		}
	}
	return ok && strings.Count(t, "ci.client") == 1
}

func intersectionSeed(p *fg.Parsed, fd *ast.FuncDecl) bool {
	res := false
	ast.Inspect(fd.Body, func(x ast.Node) bool {
		f, ok := x.(*ast.IfStmt)
		if !ok || f.Else == nil {
			return true
		}
		if len(f.Body.List) == 1 && norm(p.Src(f.Body.List[0])) == "insertSubnet(poolIndexSet, subnetSet)" &&
			strings.Contains(p.Src(f.Else), "Intersection(") {
			res = norm(p.Src(f.Cond)) == "i == 0"
		}
		return true
	})
	return res
}

func walkSafe(p *fg.Parsed, fd *ast.FuncDecl) bool {
	var loop *ast.ForStmt
	ast.Inspect(fd.Body, func(x ast.Node) bool {
		if f, ok := x.(*ast.ForStmt); ok {
			loop = f
		}
		return true
	})
	if loop == nil || loop.Cond == nil || loop.Post == nil {
		return false
	}
	be, ok := loop.Cond.(*ast.BinaryExpr)
	if !ok {
		return false
	}
	ctr, lim := p.Src(be.X), p.Src(be.Y)
	if norm(p.Src(loop.Post)) != ctr+"++" {
		return false
	}
	wide := map[string]bool{}
	ast.Inspect(fd.Body, func(x ast.Node) bool {
		if a, ok := x.(*ast.AssignStmt); ok && a.Tok == token.DEFINE && len(a.Lhs) == 1 && len(a.Rhs) == 1 {
			r := p.Src(a.Rhs[0])
			if strings.HasPrefix(r, "uint64(") || strings.HasPrefix(r, "int64(") {
				wide[p.Src(a.Lhs[0])] = true
			}
		}
		return true
	})
	switch be.Op {
	case token.LEQ:
		// counter++ after counter == limit must not wrap: both 64 bit, limit converted from a 32-bit value
		return wide[ctr] && wide[lim] && loop.Init == nil
	}
	return false
}

func gen(repo string) (map[string]string, error) {
	ic, err := fg.ParseFile(repo, "pkg/ipam/floatingip/ipam_crd.go")
	if err != nil {
		return nil, err
	}
	sc, err := fg.ParseFile(repo, "pkg/ipam/floatingip/store_crd.go")
	if err != nil {
		return nil, err
	}
	var b strings.Builder
	b.WriteString(fg.Header("IPAM (M3): structural facts of crdIpam (store before memory, lock scopes, rollback, reload atomicity)",
		"pkg/ipam/floatingip/ipam_crd.go", "pkg/ipam/floatingip/store_crd.go"))
	b.WriteString("namespace Galaxy.Generated.Ipam\n\n")

	mutators := []string{"AllocateSpecificIP", "AllocateInSubnet", "AllocateInSubnetWithKey", "ReserveIP", "UpdateAttr",
		"Release", "ReleaseIPs", "AllocateInSubnetsAndIPRange", "ConfigurePool"}
	b.WriteString("/-- per mutator: every cache write is preceded by a store call whose error is checked and returned -/\n")
	b.WriteString("def storeBeforeMemory : List (String × Bool) := [\n")
	fds := map[string]*ast.FuncDecl{}
	for i, m := range mutators {
		fd, err := ic.Fn("crdIpam", m)
		if err != nil {
			return nil, err
		}
		fds[m] = fd
		sep := ","
		if i == len(mutators)-1 {
			sep = ""
		}
		fmt.Fprintf(&b, "  (%s, %s)%s\n", fg.LeanStr(m), fg.LeanBool(storeBeforeMemory(ic, fd)), sep)
	}
	b.WriteString("]\n\n")

	methods := map[string]*fg.Parsed{}
	for _, m := range append(append([]string{}, mutators...), "First", "ByIP", "ByPrefix", "ByKeyword", "ByKeyAndIPRanges",
		"NodeSubnet", "NodeSubnetsByIPRanges") {
		methods[m] = ic
	}
	methods["handleFIPAssign"] = sc
	methods["handleFIPUnassign"] = sc
	names := make([]string, 0, len(methods))
	for m := range methods {
		names = append(names, m)
	}
	sort.Strings(names)
	b.WriteString("/-- per method: mode of `cacheLock` held (with `defer` unlock) from before the first access to shared state -/\n")
	b.WriteString("def holdsCacheLock : List (String × String) := [\n")
	locks := map[string]lockInfo{}
	for i, m := range names {
		fd, err := methods[m].Fn("crdIpam", m)
		if err != nil {
			return nil, err
		}
		fds[m] = fd
		li := lockFacts(methods[m], fd)
		locks[m] = li
		sep := ","
		if i == len(names)-1 {
			sep = ""
		}
		fmt.Fprintf(&b, "  (%s, %s)%s\n", fg.LeanStr(m), fg.LeanStr(li.mode), sep)
	}
	b.WriteString("]\n\n")

	def := func(name string, v bool, why string) {
		fmt.Fprintf(&b, "/-- %s -/\ndef %s : Bool := %s\n\n", why, name, fg.LeanBool(v))
	}
	cp := locks["ConfigurePool"]
	def("configurePoolListsUnderLock", cp.mode == "Lock" && cp.listIdx > cp.lockIdx && cp.listIdx >= 0,
		"ConfigurePool takes cacheLock (deferred unlock) before it lists the store")
	as := locks["AllocateSpecificIP"]
	def("allocateSpecificAtomic", as.mode == "Lock" && as.lookupIdx > as.lockIdx,
		"AllocateSpecificIP holds the write lock from the lookup of the free address to the cache update")
	present, covers := rollbackFacts(ic, fds["AllocateInSubnetsAndIPRange"])
	def("rollbackOnCreateFailure", present, "AllocateInSubnetsAndIPRange deletes already created objects when a create fails")
	def("rollbackCoversAllCreated", covers, "the rollback loop visits every index below the failing one and returns the error afterwards")
	def("rollbackKeepsUndeletedInMemory", rollbackKeeps(ic, fds["AllocateInSubnetsAndIPRange"]),
		"an address whose rollback delete failed with anything but NotFound is put into the allocated table")
	def("memoryUpdatedAfterAllCreates", memoryAfterAllCreates(ic, fds["AllocateInSubnetsAndIPRange"]),
		"the cache update loop of AllocateInSubnetsAndIPRange follows the loop with all creates")
	def("intersectionSeededOnFirstOnly", intersectionSeed(ic, fds["NodeSubnetsByIPRanges"]),
		"NodeSubnetsByIPRanges seeds the intersection on the first range list only")
	wfd, err := ic.Fn("", "walkIPRanges")
	if err != nil {
		return nil, err
	}
	def("walkOverflowSafe", walkSafe(ic, wfd), "walkIPRanges counts in 64 bits, so `<= last` terminates at 255.255.255.255")
	noStore := true
	for _, m := range []string{"handleFIPAssign", "handleFIPUnassign"} {
		if containsStoreCall(sc, fds[m].Body) || strings.Contains(sc.Src(fds[m].Body), "ci.client") {
			noStore = false
		}
	}
	def("unassignEventChecksReserved", unassignChecksReserved(sc, fds["handleFIPUnassign"]),
		"handleFIPUnassign only releases a cached record which still carries the reserved label")
	def("handlersMakeNoStoreCall", noStore, "handleFIPAssign / handleFIPUnassign only touch the caches")
	cfd, err := sc.Fn("crdIpam", "createFloatingIP")
	if err != nil {
		return nil, err
	}
	def("createReturnsCreateError", createReturnsCreateError(sc, cfd),
		"createFloatingIP returns the error of the Create call unconditionally: an existing object is never fetched or taken over")
	ufd, err := sc.Fn("crdIpam", "updateFloatingIP")
	if err != nil {
		return nil, err
	}
	ut := sc.Src(ufd.Body)
	gi, ai, ui := strings.Index(ut, ".Get("), strings.Index(ut, "assign(fip, toUpdate)"), strings.Index(ut, ".Update(")
	def("updateIsGetThenUpdate", gi >= 0 && ai > gi && ui > ai, "updateFloatingIP = Get, assign, Update (two store calls, labels kept)")
	b.WriteString("end Galaxy.Generated.Ipam\n")
	return map[string]string{"Ipam.lean": b.String()}, nil
}
